import subprocess, sys, os, shutil, json
REPO='/root/scratch/b-c14/repo'
VERIF='/root/scratch/b-c14/verif'
env=dict(os.environ, GOFLAGS='-mod=mod', GOPROXY='off', GOSUMDB='off', GOTOOLCHAIN='local', VERIF_JOBS='4', VERIF_REPO=REPO)
MUTS=[
 ('M1-reverse-seek-no-stepback','boltz/query_bolt_cursors.go','boltz',
  '''	f.key, _ = f.cursor.Seek(val)
	if !bytes.Equal(val, f.key) {
		f.key, _ = f.cursor.Prev()
	}''','''	f.key, _ = f.cursor.Seek(val)
	if f.key == nil {
		f.key, _ = f.cursor.Prev()
	}'''),
 ('M2-typed-forward-seek-untagged','boltz/query_bolt_cursors.go','boltz',
  '''func (f *TypedForwardBoltCursor) Seek(val []byte) {
	searchVal := PrependFieldType(f.fieldType, val)
	key, _ := f.cursor.Seek(searchVal)''','''func (f *TypedForwardBoltCursor) Seek(val []byte) {
	searchVal := val
	key, _ := f.cursor.Seek(searchVal)'''),
 ('M3-union-equal-advances-one','ast/cursors.go','ast',
  '''		cursor.current = cursor.fst.Current()
		cursor.fst.Next()
		cursor.snd.Next()''','''		cursor.current = cursor.fst.Current()
		cursor.fst.Next()'''),
 ('M4-filtered-first-unfiltered','ast/cursors.go','ast',
  '''	if !filter(cursor.Current()) {
		result.Next()
	}''','''	_ = filter'''),
 ('M5-reverse-treeset-forward-order','ast/cursors.go','ast',
  '''		set.tree.Insert(reverseByteArrayComparable(val))''','''		set.tree.Insert(byteArrayComparable(val))'''),
 ('M6-setsym-valid-needs-payload','boltz/query_symbols.go','boltz',
  '''func (symbol *entitySetSymbolRuntime) IsValid() bool {
	return symbol.value != nil''','''func (symbol *entitySetSymbolRuntime) IsValid() bool {
	return len(symbol.value) > 1'''),
 ('M7-allof-ignores-second-value','boltz/store_crud.go','boltz',
  '''stringz.ContainsAll(currentRowValues, values[1:]...)''','''stringz.ContainsAll(currentRowValues, values[2:]...)'''),
 ('M8-value-cursor-direction-ignored','boltz/indexes.go','boltz',
  '''	cursor := indexBucket.Cursor()
	if forward {
		return NewTypedForwardBoltCursor(cursor, TypeString)
	}
	return NewTypedReverseBoltCursor(cursor, TypeString)''','''	cursor := indexBucket.Cursor()
	return NewTypedForwardBoltCursor(cursor, TypeString)'''),
 ('M9-tree-next-skips-right-after-pop','ast/cursors.go','ast',
  '''	if len(cursor.stack) > 0 {
		cursor.current = cursor.stack[len(cursor.stack)-1]
		cursor.stack = cursor.stack[0 : len(cursor.stack)-1]''','''	if len(cursor.stack) > 0 {
		cursor.current = cursor.stack[0]
		cursor.stack = cursor.stack[1:]'''),
]
only=sys.argv[1:] 
results=[]
for name,path,pkg,old,new in MUTS:
    if only and name.split('-')[0] not in only: continue
    fp=os.path.join(REPO,path)
    orig=open(fp).read()
    assert old in orig,(name,'pattern missing')
    open(fp,'w').write(orig.replace(old,new,1))
    try:
        diff=subprocess.run(['git','diff','--',path],cwd=REPO,capture_output=True,text=True).stdout
        b=subprocess.run(['go','build','./...'],cwd=REPO,env=env,capture_output=True,text=True)
        t=subprocess.run(['go','test','-vet=off','-count=1','./'+pkg+'/...'],cwd=REPO,env=env,capture_output=True,text=True)
        ok_tests = b.returncode==0 and t.returncode==0
        c=subprocess.run(['./check','C14'],cwd=VERIF,env=env,capture_output=True,text=True)
        viol=[l for l in c.stdout.split('\n') if l.startswith('  ->')]
        res=[l for l in c.stdout.split('\n') if l.startswith('RESULT')]
        results.append(dict(name=name,builds=b.returncode==0,go_tests_pass=t.returncode==0,check_rc=c.returncode,violations=viol[:3],result=res, test_tail=t.stdout[-300:] if t.returncode else ''))
        print(name,'build',b.returncode,'gotest',t.returncode,'check rc',c.returncode, viol[:2], flush=True)
        open('/root/scratch/b-c14/mut/'+name+'.diff','w').write(diff)
    finally:
        open(fp,'w').write(orig)
json.dump(results,open('/root/scratch/b-c14/mut/results.json','w'),indent=1)
