#!/usr/bin/env python3
"""usage: lib/keep_mutant.py <ID> <k> <srcdir> <caught:yes|no> <check verdict text>
copies a confirmed seeded change into seeded/<ID>-<k>/ with meta.json"""
import json, os, shutil, sys
pid, k, src, caught, verdict = sys.argv[1:6]
dst = os.path.join(os.path.dirname(os.path.dirname(os.path.abspath(__file__))), "seeded", "%s-%s" % (pid, k))
os.makedirs(dst, exist_ok=True)
for f in ("patch.diff", "demo_test.go", "demo_path.txt", "demo_cmd.txt"):
    shutil.copy(os.path.join(src, f), os.path.join(dst, f))
m = json.load(open(os.path.join(src, "meta.json")))
meta = dict(property=pid, breaks=m.get("what_breaks"), needs=m.get("needs"), files=m.get("files"),
            author="independent sub-agent given only the property text and a scratch worktree",
            confirmed_by_coordinator=["lib/confirm_mutant.sh: builds; existing suite passes with the patch; demonstration fails with the patch and passes without it"],
            check_result=dict(caught=(caught == "yes"), how="lib/try_mutant.sh %s seeded/%s-%s/patch.diff" % (pid, pid, k), verdict=verdict))
json.dump(meta, open(os.path.join(dst, "meta.json"), "w"), indent=1)
print("kept", dst)
