#!/usr/bin/env python3
"""usage: lib/reverify_all.py [--slots N] [--only REGEX]
Re-runs the COMMITTED checks (HEAD of /verif) against every seeded change: per change a scratch worktree of /repo with
the patch applied, the check of the change's property run with VERIF_REPO pointing to it, from N parallel worktrees of
/verif under /root/scratch/rv<k>/verif (so the main tree is not disturbed). Writes seeded/reverify.json
{change: {commit, caught, keys}} and prints the changes that are not caught."""
import json, os, re, subprocess, sys, threading, queue, glob
V = os.path.dirname(os.path.dirname(os.path.abspath(__file__)))
slots, only = 4, None
a = sys.argv[1:]
while a:
    if a[0] == "--slots": slots = int(a[1]); a = a[2:]
    elif a[0] == "--only": only = re.compile(a[1]); a = a[2:]
    else: raise SystemExit(__doc__)
head = subprocess.check_output(["git", "-C", V, "rev-parse", "HEAD"], text=True).strip()
tasks = queue.Queue()
for m in sorted(glob.glob(os.path.join(V, "seeded", "*", "meta.json"))):
    d = os.path.basename(os.path.dirname(m))
    if only and not only.search(d): continue
    mj = json.load(open(m))
    if mj.get("obsolete"):
        continue  # the code the change modifies no longer exists (see meta.json)
    tasks.put((d, mj.get("property") or d[:3]))
results, lock = {}, threading.Lock()
def sh(cmd, **kw): return subprocess.run(cmd, shell=True, text=True, stdout=subprocess.PIPE, stderr=subprocess.STDOUT, **kw)
def worker(k):
    mv = "/root/scratch/rv%d/verif" % k
    if not os.path.isdir(mv):
        os.makedirs(os.path.dirname(mv), exist_ok=True)
        sh("git -C %s worktree add -q --detach %s HEAD" % (V, mv))
    sh("git -C %s checkout -q -- . ; git -C %s checkout -q --detach %s" % (mv, mv, head))
    while True:
        try: d, pid = tasks.get_nowait()
        except queue.Empty: return
        w = "/root/scratch/rv%d/repo" % k
        sh("git -C /repo worktree remove --force %s; git -C /repo worktree prune" % w)
        sh("git -C /repo worktree add -q --detach %s HEAD" % w)
        r = sh("git -C %s apply %s/seeded/%s/patch.diff" % (w, V, d))
        if r.returncode != 0:
            with lock: results[d] = dict(commit=head, caught=None, keys=["PATCH-DOES-NOT-APPLY"])
            continue
        r = sh("cd %s && VERIF_REPO=%s VERIF_JOBS=4 timeout 1200 ./check %s" % (mv, w, pid))
        keys = sorted(set(re.findall(r"^  -> (\S+?):? ", r.stdout, re.M)))
        with lock:
            results[d] = dict(commit=head, caught=(r.returncode == 1 and "VIOLATION" in r.stdout), rc=r.returncode, keys=keys[:8])
            print(d, "CAUGHT" if results[d]["caught"] else "MISSED rc=%s" % r.returncode, " ".join(keys[:3]), flush=True)
        sh("git -C %s checkout -q -- ." % mv)
        sh("git -C /repo worktree remove --force %s" % w)
ts = [threading.Thread(target=worker, args=(k,)) for k in range(slots)]
[t.start() for t in ts]; [t.join() for t in ts]
rvp = os.path.join(V, "seeded", "reverify.json")
allres = json.load(open(rvp)) if os.path.exists(rvp) else {}
allres.update(results)   # a partial run (--only) refreshes its entries and keeps the others
json.dump(allres, open(rvp, "w"), indent=1, sort_keys=True)
missed = [d for d, r in sorted(results.items()) if not r["caught"]]
print("re-verified %d changes at %s: %d caught, not caught: %s" % (len(results), head[:10], len(results) - len(missed), missed))
