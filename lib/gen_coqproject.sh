#!/bin/sh
# regenerate coq/_CoqProject from the files present (so branches never conflict on it)
cd "$(dirname "$0")/../coq" || exit 1
{ echo "-Q theories Storage"; echo "-arg -w -arg -notation-overridden,-deprecated-hint-without-locality,-deprecated-instance-without-locality"; find theories -name '*.v' | LC_ALL=C sort; } > _CoqProject.new
if ! cmp -s _CoqProject.new _CoqProject 2>/dev/null; then mv _CoqProject.new _CoqProject; coq_makefile -f _CoqProject -o Makefile >/dev/null; else rm _CoqProject.new; fi
[ -f Makefile ] || coq_makefile -f _CoqProject -o Makefile >/dev/null
