#!/bin/bash
# usage: lib/coverage_survey.sh [ID...]   (default: all)
# Builds the harness with Go's binary coverage instrumentation for every package of openziti/storage, runs the quick
# tier of the given checks from the separate worktree /root/scratch/mutverif/verif (committed HEAD), and prints the
# functions of /repo that no check executed.  A survey for the maintainers of the checks (where would a change go
# unnoticed?), not a check: nothing registered in MANIFEST.json uses it.
MV=/root/scratch/mutverif/verif
mkdir -p /root/scratch/mutverif; exec 9>/root/scratch/mutverif/.lock; flock 9
[ -d $MV ] || git -C /verif worktree add -q --detach $MV HEAD
git -C $MV checkout -q -- . ; git -C $MV checkout -q --detach $(git -C /verif rev-parse HEAD)
COV=/root/scratch/covdata; rm -rf $COV; mkdir -p $COV
IDS="$@"; [ -z "$IDS" ] && IDS=$(seq -f "C%02g" 1 20)
cd $MV
rm -f build/storageharness build/storageharness_race
for p in $IDS; do VERIF_COVER=1 GOCOVERDIR=$COV timeout 1200 ./check $p --tier quick 2>&1 | grep -E "^RESULT|^VIOLATION" | head -3; done
rm -f build/storageharness build/storageharness_race
export GOFLAGS=-mod=mod GOPROXY=off GOSUMDB=off GOTOOLCHAIN=local
go tool covdata textfmt -i=$COV -o /root/scratch/cov.txt
(cd /repo && go tool cover -func=/root/scratch/cov.txt) > /root/scratch/cov_func.txt
grep -v "zitiql/zitiql_\|zitiql/ZitiQl" /root/scratch/cov_func.txt | awk '$NF=="0.0%"' | head -200
tail -1 /root/scratch/cov_func.txt
git -C $MV checkout -q -- .
