"""./check setup : build everything from files on disk (offline)."""
import os
import sys

import vlib


def main():
    ok, log = vlib.build_coq()
    if not ok:
        # a broken theory must not stop the other checks from being set up; each check reports it
        print("WARNING: coq build reported errors:\n" + log[-3000:])
    ext = os.path.join(vlib.COQ, "extraction")
    for f in sorted(os.listdir(ext)):
        if f.endswith(".v"):
            try:
                print("model", vlib.build_model(f[:-2]))
            except Exception as e:  # noqa
                print("WARNING: model %s: %s" % (f, e))
    binp, err = vlib.build_harness()
    print("harness", binp, err[-2000:])
    tdir = os.path.join(vlib.VERIF, "translators")
    names = [d for d in sorted(os.listdir(tdir)) if os.path.isdir(os.path.join(tdir, d)) and os.path.exists(os.path.join(tdir, d, "main.go"))]
    if names:
        try:
            print("translators", vlib.run_translators(names))
            ok, log = vlib.build_coq()
        except Exception as e:  # noqa
            print("WARNING: translators: %s" % e)
    print("setup done")
    return 0


if __name__ == "__main__":
    sys.exit(main())
