#!/usr/bin/env python3
"""usage: lib/cov_blocks.py cov.txt cov_func.txt  -> uncovered blocks inside functions that are otherwise executed"""
import collections, re, sys
blocks = collections.defaultdict(list)
for line in open(sys.argv[1]):
    m = re.match(r"(.+):(\d+)\.\d+,(\d+)\.\d+ (\d+) (\d+)$", line.strip())
    if m:
        f, a, b, n, c = m.groups()
        blocks[f].append((int(a), int(b), int(n), int(c)))
funcs = collections.defaultdict(list)
for line in open(sys.argv[2]):
    m = re.match(r"(\S+):(\d+):\s+(\S+)\s+([\d.]+)%$", line.strip())
    if m:
        funcs[m.group(1)].append((int(m.group(2)), m.group(3), float(m.group(4))))
for f in sorted(funcs):
    if "zitiql/zitiql_" in f or "storageharness" in f or "ZitiQl" in f or "logging_listener" in f or "test_events" in f:
        continue
    fs = sorted(funcs[f])
    for k, (ln, name, pct) in enumerate(fs):
        end = fs[k + 1][0] if k + 1 < len(fs) else 10 ** 9
        bl = [(a, b, n, c) for a, b, n, c in blocks[f] if ln <= a < end]
        if not any(c > 0 for a, b, n, c in bl):
            continue
        for a, b, n, c in sorted(set(bl)):
            if c == 0 and n > 0:
                print("%s:%d-%d %s (%d stmts)" % (f.replace("github.com/openziti/storage/", ""), a, b, name, n))
