"""Shared driver of the store-family checks (C03 C04 C06 C07 C08 C15 C16).

One history = one line of cases.txt (schema + transactions) ; impl.txt / model.txt hold, per
transaction,  `TX R <op results> COMMIT|ROLLBACK [VETOED] <events> ST <facts> | `.
Each property compares only its own projection of that observation with the extracted Coq
store machine and evaluates its own oracle directly on the implementation's observation."""
import json
import os

import vlib


# ------------------------------------------------------------------ parsing
class Schema:
    def __init__(self, toks):
        self.stores = {}
        self.order = []
        pos = [0]

        def nxt():
            t = toks[pos[0]]
            pos[0] += 1
            return t

        if toks[0] == "WIRING":
            nxt()
            self.wiring = nxt()
        assert nxt() == "SCH"
        n = int(nxt())
        for _ in range(n):
            assert nxt() == "ST"
            name = nxt()
            parent = nxt()
            ext = nxt() == "1"
            fields = []
            for _ in range(int(nxt())):
                f = nxt()
                ptr = nxt() == "1"
                fields.append((f, ptr))
            sets = [nxt() for _ in range(int(nxt()))]
            cons = []
            for _ in range(int(nxt())):
                k = nxt()
                if k == "U":
                    cons.append(("U", nxt(), nxt() == "1"))
                elif k == "SI":
                    cons.append(("SI", nxt()))
                elif k == "FI":
                    cons.append(("FI", nxt(), nxt(), nxt(), nxt() == "1"))
                elif k == "FR":
                    cons.append(("FR", nxt()))
                elif k == "FC":
                    cons.append(("FC", nxt(), nxt(), nxt() == "1"))
                elif k == "CA":
                    cons.append(("CA", nxt(), nxt(), nxt()))
                elif k == "SY":
                    cons.append(("SY",))
            links = [(nxt(), nxt(), nxt()) for _ in range(int(nxt()))]
            self.stores[name] = dict(name=name, parent=None if parent == "-" else parent, ext=ext, fields=fields,
                                     sets=sets, cons=cons, links=links)
            self.order.append(name)
        self.consumed = pos[0]

    def root(self, s):
        return self.stores[s]["parent"] or s


def split_case(line):
    """-> (Schema, [tx token lists])"""
    parts = line.split(" TX ")
    sch = Schema(parts[0].split())
    return sch, [p.split() for p in parts[1:]]


def parse_obs(line):
    """-> list of dict(results, commit, vetoed, events, facts)"""
    out = []
    for seg in line.split(" | "):
        seg = seg.strip()
        if not seg:
            continue
        toks = seg.split()
        assert toks[0] == "TX" and toks[1] == "R", seg[:80]
        i = 2
        results = []
        while toks[i] not in ("COMMIT", "ROLLBACK"):
            results.append(toks[i])
            i += 1
        commit = toks[i] == "COMMIT"
        i += 1
        st = toks.index("ST", i)
        mid = toks[i:st]
        out.append(dict(results=results, commit=commit, vetoed=[t for t in mid if t.startswith("VETOED")],
                        events=sorted(t for t in mid if t.startswith("EV:")),
                        other=sorted(t for t in mid if not t.startswith("EV:") and not t.startswith("VETOED")),
                        facts=toks[st + 1:]))
    return out


# ------------------------------------------------------------------ projections
def proj_results(tx):
    return tuple(tx["results"]) + (("COMMIT",) if tx["commit"] else ("ROLLBACK",))


def proj_facts(tx, prefixes=None):
    if prefixes is None:
        return tuple(tx["facts"])
    return tuple(f for f in tx["facts"] if f.split(":", 1)[0] in prefixes)


# ------------------------------------------------------------------ direct oracles on implementation facts
def index_oracle(sch, facts):
    """C03: unique and set indexes mirror the entities. Returns list of problem strings."""
    probs = []
    fs = set(facts)
    ents = {}      # root -> set(id)
    fvals = {}     # (root, id, field) -> value token ; child fields keyed (root,id,child+'.'+field)
    setm = {}      # (root, id, setf) -> set(member)
    child = set()  # (root,id,childstore)
    for f in facts:
        p = f.split(":")
        if p[0] == "E":
            ents.setdefault(p[1], set()).add(p[2])
        elif p[0] == "F":
            fvals[(p[1], p[2], p[3])] = p[4]
        elif p[0] == "CF":
            fvals[(p[1], p[2], p[3] + "." + p[4])] = p[5]
        elif p[0] == "S":
            setm.setdefault((p[1], p[2], p[3]), set()).add(p[4])
        elif p[0] == "C":
            child.add((p[1], p[2], p[3]))
        elif p[0] == "JUNK":
            probs.append("unexpected data in the database: " + f)
    for sname in sch.order:
        sd = sch.stores[sname]
        root = sch.root(sname)
        for c in sd["cons"]:
            if c[0] == "U":
                field = c[1]
                key = (lambda i: (root, i, field)) if not sd["parent"] else (lambda i: (root, i, sname + "." + field))
                holders = {}
                for i in ents.get(root, ()):
                    if sd["parent"] and (root, i, sname) not in child:
                        continue
                    v = fvals.get(key(i), "absent")
                    if v.startswith("s") and v != "s-":
                        holders.setdefault(v[1:], []).append(i)
                idx = {}
                for f in facts:
                    p = f.split(":")
                    if p[0] == "U" and p[1] == root and p[2] == field:
                        idx[p[3]] = p[4]
                for v, ids in holders.items():
                    if len(ids) > 1:
                        probs.append("unique index %s.%s: value %s held by several entities %s" % (sname, field, v, sorted(ids)))
                    elif idx.get(v) != ids[0]:
                        probs.append("unique index %s.%s: value %s of entity %s maps to %s" % (sname, field, v, ids[0], idx.get(v)))
                for v, i in idx.items():
                    if v not in holders or i not in holders[v]:
                        probs.append("unique index %s.%s: stale entry %s -> %s" % (sname, field, v, i))
                    if v == "-":
                        probs.append("unique index %s.%s: entry for the empty value" % (sname, field))
            elif c[0] == "SI":
                setf = c[1]
                want = set()
                for i in ents.get(root, ()):
                    for m in setm.get((root, i, setf), ()):
                        want.add((m, i))
                have = set()
                keys = set()
                for f in facts:
                    p = f.split(":")
                    if p[0] == "X" and p[1] == root and p[2] == setf:
                        have.add((p[3], p[4]))
                    elif p[0] == "XK" and p[1] == root and p[2] == setf:
                        keys.add(p[3])
                for m, i in sorted(want - have):
                    probs.append("set index %s.%s: entity %s holds %s but is not indexed" % (sname, setf, i, m))
                for m, i in sorted(have - want):
                    probs.append("set index %s.%s: stale entry %s -> %s" % (sname, setf, m, i))
                for k in sorted(keys - set(m for m, _ in have)):
                    probs.append("set index %s.%s: empty index key %s left behind" % (sname, setf, k))
    return probs


def fk_oracle(sch, facts):
    """C04: fk targets exist; back-reference sets are exact."""
    probs = []
    ents = {}
    fvals = {}
    setm = {}
    child = set()
    for f in facts:
        p = f.split(":")
        if p[0] == "E":
            ents.setdefault(p[1], set()).add(p[2])
        elif p[0] == "F":
            fvals[(p[1], p[2], p[3])] = p[4]
        elif p[0] == "S":
            setm.setdefault((p[1], p[2], p[3]), set()).add(p[4])
        elif p[0] == "C":
            child.add((p[1], p[2], p[3]))
    for sname in sch.order:
        sd = sch.stores[sname]
        root = sch.root(sname)
        for c in sd["cons"]:
            if c[0] in ("FI", "FC"):
                field, target = c[1], c[2]
                troot = sch.root(target)
                refs = {}
                for i in ents.get(root, ()):
                    v = fvals.get((root, i, field), "absent")
                    if v.startswith("s") and v != "s-":
                        t = v[1:]
                        if t not in ents.get(troot, ()):
                            probs.append("fk %s.%s: entity %s references missing %s %s" % (sname, field, i, target, t))
                        refs.setdefault(t, set()).add(i)
                if c[0] == "FI":
                    back = c[3]
                    for t in ents.get(troot, ()):
                        have = setm.get((troot, t, back), set())
                        want = refs.get(t, set())
                        if have != want:
                            probs.append("fk %s.%s: back-references %s.%s of %s are %s, referrers are %s" % (
                                sname, field, target, back, t, sorted(have), sorted(want)))
    return probs


# ------------------------------------------------------------------ the run
def run_family(c, profile, n_quick, n_thorough, compare, oracle, what, trusted_extra=(), command=None, subcmd="store",
               tmpdir=None, extra_args=(), compare_case=None):
    subcmd = command or subcmd
    """compare(impl_tx, model_tx) -> None | description of the property-relevant difference
       oracle(sch, case_txs, impl_obs, model_obs) -> list of (key, description, tx index)  : direct violations
       subcmd / tmpdir / extra_args (added for C04): harness sub-command that runs the histories (default the in-process
       "store"; "store-iso" = child-process isolation), directory of the bolt files, further harness arguments
       compare_case (added for C07): compare_case(sch, case_txs) -> f(impl_tx, model_tx, k), used instead of compare when the
       projection depends on the tokens of transaction k"""
    pid = c.pid
    c.cov["trusted_base"] = [
        "Coq 8.16.1 kernel (coqc; coqchk in the thorough tier); vm_compute in Examples only; no axioms",
        "hand-written store machine coq/theories/Store/Model.v (boltz CRUD, constraints, delete cascade, tx glue)",
        "bbolt as a transactional key/bucket store whose rollback restores the previous content",
        "extraction (ExtrOcamlBasic only) + extraction/store_driver.ml + drv_common.ml",
        "Go harness store.go / store_gen.go (schema interpreter, history generator, fact projection) and lib/storefam.py",
    ] + list(trusted_extra)
    model = vlib.build_model("Store")
    harness, err = vlib.build_harness()
    if harness is None:
        c.violation(pid + ":harness-build", "harness does not build against the repository: " + err[-800:],
                    dict(correspondence="harness build", log=err[-3000:]), no_input=True)
        return
    cases_path = os.path.join(c.work, "cases.txt")
    if c.replay:
        rp = json.load(open(c.replay))
        rin = os.path.join(c.work, "replay_in.txt")
        with open(rin, "w") as f:
            f.write(rp["case"] + "\n")
        n = 0
        args = [harness, subcmd, "--out", c.work, "--tmp", tmpdir or c.work, "--n", "0", "--corpus", rin] + list(extra_args)
    else:
        n = n_thorough if c.thorough else n_quick
        args = [harness, subcmd, "--seed", str(c.seed), "--tier", c.tier, "--out", c.work, "--tmp", tmpdir or c.work,
                "--profile", profile, "--n", str(n)] + list(extra_args)
    gen = dict(profile=profile, seed=c.seed, tier=c.tier, n=n)
    corpus = os.path.join(vlib.VERIF, "corpus", "store", profile + ".txt")
    if os.path.exists(corpus) and not c.replay:
        args += ["--corpus", corpus]
    rc, out = vlib.run(args, timeout=3000)
    if rc != 0:
        c.violation(pid + ":harness-run", "harness failed rc=%s: %s" % (rc, out[-800:]),
                    dict(correspondence="harness run", log=out[-3000:]), no_input=True)
        return
    cases = vlib.read_lines(cases_path)
    impl = vlib.read_lines(os.path.join(c.work, "impl.txt"))
    modl = vlib.run_model(model, "store", cases_path, os.path.join(c.work, "model.txt"))
    assert len(cases) == len(impl) == len(modl), (len(cases), len(impl), len(modl))

    distinct = set()
    ntx = 0
    disagreements = []
    for idx, (case, i, m) in enumerate(zip(cases, impl, modl)):
        if not case.strip():
            continue
        sch, txs = split_case(case)
        io, mo = parse_obs(i), parse_obs(m)
        ntx += len(io)
        if len(txs) > 1 or any(len(t["results"]) > 1 for t in io):
            distinct.add(case)
        reported = False
        for key, desc, k in oracle(sch, txs, io, mo):
            c.violation(key, desc, dict(case=case, impl=i, model=m, tx=k, gen=dict(gen, index=idx)))
            reported = True
        if reported:
            continue
        cmpk = compare_case(sch, txs) if compare_case else None
        for k, (a, b) in enumerate(zip(io, mo)):
            d = cmpk(a, b, k) if cmpk else compare(a, b)
            if d:
                disagreements.append((case, i, m, k, d, idx))
                break
        if c.replay:
            for k, (a, b) in enumerate(zip(io, mo)):
                vlib.log("REPLAY tx %d\n  impl : %s %s %s\n  model: %s %s %s" % (
                    k, a["results"], "COMMIT" if a["commit"] else "ROLLBACK", a["events"],
                    b["results"], "COMMIT" if b["commit"] else "ROLLBACK", b["events"]))
                ia, ib = set(a["facts"]), set(b["facts"])
                if ia != ib:
                    vlib.log("  facts only impl : %s\n  facts only model: %s" % (sorted(ia - ib), sorted(ib - ia)))
    c.cov["evaluations"] = len(cases)
    c.cov["transactions"] = ntx
    c.cov["distinct_nontrivial"] = len(distinct)
    c.cov["disagreements_checked"] = len(disagreements)
    c.cov["rule"] = what + " Non-trivial: more than one transaction or more than one operation; distinct by case text."
    ks = sorted(set((0, len(cases) // 2, max(0, len(cases) - 1))))
    c.cov["samples"] = [dict(case=cases[k][:1500], impl=impl[k][:1500], model=modl[k][:1500]) for k in ks if k < len(cases)]
    try:
        c.cov["input_distribution"] = json.load(open(os.path.join(c.work, "stats.json")))
    except Exception:
        pass
    if disagreements and not c.violations:
        case, i, m, k, d, idx = disagreements[0]
        c.violation(pid + ":correspondence",
                    "store machine (Store/Model.v) and boltz differ on %d histories in the %s projection; first: tx %d: %s"
                    % (len(disagreements), pid, k, d),
                    dict(correspondence="Store/Model.v vs boltz (%s projection)" % pid, case=case, impl=i, model=m, tx=k, difference=d,
                         gen=dict(gen, index=idx)),
                    no_input=True)
