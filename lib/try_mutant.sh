#!/bin/bash
# usage: lib/try_mutant.sh <PROPERTY-ID> <patch.diff> [extra check args]
# applies the patch to a scratch worktree of /repo, runs the check against it, prints the verdict
ID=$1; PATCH=$2; shift 2
W=/root/scratch/mut-$$/repo
mkdir -p /root/scratch/mut-$$
git -C /repo worktree add -q --detach $W HEAD || exit 2
if ! git -C $W apply "$PATCH"; then echo "PATCH-DOES-NOT-APPLY"; git -C /repo worktree remove --force $W; exit 2; fi
cp /verif/evidence/$ID.json /tmp/evidence_$ID.$$.json 2>/dev/null
OUT=$(cd /verif && VERIF_REPO=$W timeout 1800 ./check $ID "$@" 2>/dev/null)
RC=$?
cp /tmp/evidence_$ID.$$.json /verif/evidence/$ID.json 2>/dev/null; rm -f /tmp/evidence_$ID.$$.json
echo "$OUT" | grep -E "^VIOLATION|^KNOWN-FINDING|^RESULT|^  ->" | head -8
git -C /repo worktree remove --force $W; rmdir /root/scratch/mut-$$ 2>/dev/null
if [ $RC -ne 0 ]; then echo "VERDICT: CAUGHT (exit $RC)"; else echo "VERDICT: MISSED"; fi
