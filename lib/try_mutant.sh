#!/bin/bash
# usage: lib/try_mutant.sh <PROPERTY-ID> <patch.diff> [extra check args]
# Applies the patch to a scratch worktree of /repo and runs the COMMITTED check (HEAD of /verif) against it
# from a separate persistent worktree of /verif (/root/scratch/mutverif/verif), so that the main tree's
# build directory, harness/go.mod and evidence are not disturbed. Prints the verdict.
ID=$1; PATCH=$(realpath "$2"); shift 2
MVD=${MUTVERIF:-/root/scratch/mutverif}
MV=$MVD/verif
mkdir -p $MVD; exec 9>$MVD/.lock; flock 9   # one run at a time in the shared worktree
if [ ! -d $MV ]; then mkdir -p $MVD; git -C /verif worktree add -q --detach $MV HEAD || exit 2; fi
git -C $MV checkout -q --detach $(git -C /verif rev-parse HEAD) 2>/dev/null || { git -C $MV checkout -q -- . ; git -C $MV checkout -q --detach $(git -C /verif rev-parse HEAD); }
W=/root/scratch/mut-$$/repo
mkdir -p /root/scratch/mut-$$
git -C /repo worktree add -q --detach $W HEAD || exit 2
if ! git -C $W apply "$PATCH"; then echo "PATCH-DOES-NOT-APPLY"; git -C /repo worktree remove --force $W; rmdir /root/scratch/mut-$$; exit 2; fi
OUT=$(cd $MV && VERIF_REPO=$W timeout 900 ./check $ID "$@" 2>/dev/null)
RC=$?
echo "$OUT" | grep -E "^VIOLATION|^KNOWN-FINDING|^RESULT|^  ->" | head -8
git -C $MV checkout -q -- . 2>/dev/null
git -C /repo worktree remove --force $W; rmdir /root/scratch/mut-$$ 2>/dev/null
if [ $RC -eq 124 ]; then echo "VERDICT: TIMEOUT (the check did not finish in 900 s)"; elif [ $RC -ne 0 ]; then echo "VERDICT: CAUGHT (exit $RC)"; else echo "VERDICT: MISSED"; fi
