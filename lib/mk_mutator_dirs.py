#!/usr/bin/env python3
"""usage: lib/mk_mutator_dirs.py <prefix> <ID>...  : creates /root/scratch/<prefix>-cXX/{repo (worktree of /repo), PROPERTY.txt}
PROPERTY.txt = the property text + the list of changes already tried (from seeded/<ID>-*/meta.json); nothing else from /verif"""
import glob, json, os, subprocess, sys
V = os.path.dirname(os.path.dirname(os.path.abspath(__file__)))
props = {json.loads(l)["id"]: json.loads(l) for l in open(os.path.join(V, "properties.jsonl"))}
prefix = sys.argv[1]
fresh = "--fresh" in sys.argv   # no list of earlier changes: an unconstrained sample
for pid in [a for a in sys.argv[2:] if a != "--fresh"]:
    p = props[pid]
    d = "/root/scratch/%s-%s" % (prefix, pid.lower())
    os.makedirs(d, exist_ok=True)
    if not os.path.isdir(d + "/repo"):
        subprocess.check_call(["git", "-C", "/repo", "worktree", "add", "-q", "--detach", d + "/repo", "HEAD"])
    a = p["anchors"]
    t = "Property %s: %s\n\n%s\n\nQuantifier: %s\n\nCode anchors: %s\n" % (pid, p["title"], p["statement"], p["quantifier"]["text"], ", ".join(a.get("files", [])))
    tried = []
    for m in sorted(glob.glob(os.path.join(V, "seeded", pid + "-*", "meta.json"))):
        j = json.load(open(m))
        tried.append("- %s (files: %s)" % ((j.get("breaks") or "")[:420].replace("\n", " "), ", ".join(j.get("files") or [])))
    if tried and not fresh:
        t += "\nALREADY TRIED by other engineers - do NOT repeat these or close variants of them; pick DIFFERENT mechanisms, code sites and triggering conditions:\n" + "\n".join(tried) + "\n"
    open(d + "/PROPERTY.txt", "w").write(t)
    print(d, len(tried))
