#!/usr/bin/env python3
"""regenerate MANIFEST.json from checks/meta/*.json (one file per claimed property)"""
import json
import os

VERIF = os.path.dirname(os.path.dirname(os.path.abspath(__file__)))
props = [json.loads(l)["id"] for l in open(os.path.join(VERIF, "properties.jsonl")) if l.strip()]
checks, na = [], []
na_reasons = {}
p = os.path.join(VERIF, "checks", "meta", "not_applicable.json")
if os.path.exists(p):
    na_reasons = json.load(open(p))
for pid in props:
    mp = os.path.join(VERIF, "checks", "meta", pid + ".json")
    if os.path.exists(mp) and os.path.exists(os.path.join(VERIF, "checks", pid.lower() + ".py")):
        m = json.load(open(mp))
        checks.append(dict(
            property_id=pid,
            quick_cmd="./check %s --tier quick" % pid,
            thorough_cmd="./check %s --tier thorough" % pid,
            evidence_file="evidence/%s.json" % pid,
            replay_cmd_template="./check %s --replay {path}" % pid,
            engine="coq-model+correspondence",
            level_claimed=m["level_claimed"],
            level_note=m["level_note"],
            technique=m.get("technique", "Rocq/Coq proof + correspondence check"),
        ))
    else:
        na.append(dict(property_id=pid, reason=na_reasons.get(
            pid, "no check registered yet: the Coq model and correspondence harness for this property are designed (DESIGN.md section 5) but not built in the committed tree, so nothing is claimed")))
manifest = dict(
    version=1,
    setup_cmd="./check setup",
    hooks=dict(guard="verif", enable="none needed: every API the harness touches is exported; a //go:build verif file would be compiled with -tags verif",
               baseline_off_cmd="cd /repo && GOFLAGS=-mod=mod GOPROXY=off GOSUMDB=off GOTOOLCHAIN=local go test -vet=off -count=1 ./...",
               source_commits=[], add_only=True),
    engines=[dict(name="coq-model+correspondence", path="check",
                  serves_properties=[c["property_id"] for c in checks],
                  kind_free_text="Rocq/Coq 8.16.1 theorems about executable Gallina models (coq/theories), tied to /repo on every run by "
                                 "translators (coq/theories/Gen regenerated from the Go source) and by differential execution of the "
                                 "OCaml-extracted model against the real code (harness/)")],
    checks=checks,
    notes="See DESIGN.md. known_findings.jsonl lists fixed defects (and known findings, if any).",
    not_applicable=na,
)
with open(os.path.join(VERIF, "MANIFEST.json"), "w") as f:
    json.dump(manifest, f, indent=1)
    f.write("\n")
print("MANIFEST.json: %d checks, %d not claimed" % (len(checks), len(na)))
