#!/usr/bin/env python3
"""usage: lib/cov_report.py cov.txt cov_func.txt  -> functions of /repo with statements none of which a check executed,
and functions executed only partly (< 60 %), skipping generated parser code"""
import collections, re, sys
blocks = collections.defaultdict(list)
for line in open(sys.argv[1]):
    m = re.match(r"(.+):(\d+)\.\d+,(\d+)\.\d+ (\d+) (\d+)$", line.strip())
    if m:
        f, a, b, n, c = m.groups()
        blocks[f].append((int(a), int(b), int(n), int(c)))
funcs = collections.defaultdict(list)
for line in open(sys.argv[2]):
    m = re.match(r"(\S+):(\d+):\s+(\S+)\s+([\d.]+)%$", line.strip())
    if m:
        funcs[m.group(1)].append((int(m.group(2)), m.group(3), float(m.group(4))))
for f in sorted(funcs):
    if "zitiql/zitiql_" in f or "storageharness" in f or "ZitiQl" in f:
        continue
    fs = sorted(funcs[f])
    for k, (ln, name, pct) in enumerate(fs):
        end = fs[k + 1][0] if k + 1 < len(fs) else 10 ** 9
        st = sum(n for a, b, n, c in blocks[f] if ln <= a < end)
        cv = sum(n for a, b, n, c in blocks[f] if ln <= a < end and c > 0)
        if st > 0 and (cv == 0 or pct < 60):
            print("%-5s %s:%d %s  (%d/%d statements)" % ("NONE" if cv == 0 else "PART", f.replace("github.com/openziti/storage/", ""), ln, name, cv, st))
