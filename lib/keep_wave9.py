#!/usr/bin/env python3
"""keeps every CONFIRMED wave-9 mutant of /tmp/wave9.log as seeded/<ID>-w9-<k> (idempotent: existing dirs are skipped)"""
import os, re, subprocess, sys
V = os.path.dirname(os.path.dirname(os.path.abspath(__file__)))
for line in open(sys.argv[1] if len(sys.argv) > 1 else "/tmp/wave9.log"):
    m = re.match(r"== (C\d\d) (\d) (\S+) (.*)", line.strip())
    if not m:
        continue
    pid, k, conf, rest = m.groups()
    if conf != "CONFIRMED":
        print("SKIP (not confirmed)", pid, k, conf); continue
    dst = os.path.join(V, "seeded", "%s-w9-%s" % (pid, k))
    if os.path.isdir(dst):
        continue
    caught = "yes" if "CAUGHT" in rest else "no"
    verdict = rest.replace("|", " ; ")[:400]
    subprocess.check_call([os.path.join(V, "lib/keep_mutant.py"), pid, "w9-" + k, "/root/scratch/m9-%s/out/%s" % (pid.lower(), k), caught, verdict])
