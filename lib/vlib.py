"""Shared machinery of the /verif checks: builds (Coq, extracted model, Go harness),
proof step, evidence, known findings, violation reporting.

Everything a check needs is rebuilt from the current working tree of the repository
(VERIF_REPO, default /repo).  All long-running tools run under a timeout."""
import fcntl
import hashlib
import json
import os
import re
import shutil
import subprocess
import sys
import time

VERIF = os.path.dirname(os.path.dirname(os.path.abspath(__file__)))
REPO = os.environ.get("VERIF_REPO", "/repo")
BUILD = os.path.join(VERIF, "build")
COQ = os.path.join(VERIF, "coq")
HARNESS = os.path.join(VERIF, "harness")
NPROC = os.environ.get("VERIF_JOBS") or str(os.cpu_count() or 4)

GOENV = dict(os.environ, GOFLAGS="-mod=mod", GOPROXY="off", GOSUMDB="off", GOTOOLCHAIN="local",
             GONOSUMDB="*", GONOSUMCHECK="1", GOFLAGS_EXTRA="")

STD_AXIOMS_ALLOWED = ()  # none used; see DESIGN.md section 7

HYGIENE_RE = re.compile(
    r"\b(Admitted|admit|Axiom|Axioms|Parameter|Parameters|Conjecture|Conjectures|Admit Obligations)\b"
    r"|Unset\s+Guard|bypass_check|type-in-type|impredicative-set|Unset\s+Universe\s+Checking|Unset\s+Positivity")


def log(msg):
    print(msg, flush=True)


def run(cmd, cwd=None, timeout=600, env=None, stdin=None, check=False):
    """run a command, return (rc, stdout+stderr). rc 124 on timeout."""
    try:
        p = subprocess.run(cmd, cwd=cwd, env=env, input=stdin, stdout=subprocess.PIPE, stderr=subprocess.STDOUT,
                           timeout=timeout, shell=isinstance(cmd, str), text=True, errors="replace")
        rc, out = p.returncode, p.stdout
    except subprocess.TimeoutExpired as e:
        out = e.stdout or ""
        if isinstance(out, bytes):
            out = out.decode("utf-8", "replace")
        rc = 124
    if check and rc != 0:
        raise RuntimeError("command failed (%s): %s\n%s" % (rc, cmd, out[-4000:]))
    return rc, out


class Lock:
    def __init__(self, name):
        os.makedirs(BUILD, exist_ok=True)
        self.path = os.path.join(BUILD, "." + name + ".lock")

    def __enter__(self):
        self.f = open(self.path, "w")
        fcntl.flock(self.f, fcntl.LOCK_EX)
        return self

    def __exit__(self, *a):
        fcntl.flock(self.f, fcntl.LOCK_UN)
        self.f.close()


def sha_files(paths):
    h = hashlib.sha256()
    for p in sorted(paths):
        h.update(p.encode())
        try:
            with open(p, "rb") as f:
                h.update(f.read())
        except OSError:
            h.update(b"<missing>")
    return h.hexdigest()


def all_v_files():
    out = []
    for root, _, files in os.walk(os.path.join(COQ, "theories")):
        for f in files:
            if f.endswith(".v"):
                out.append(os.path.join(root, f))
    return sorted(out)


# ----------------------------------------------------------------------------- translators

def run_translators(names):
    """Regenerate coq/theories/Gen/<X>.v from the repository source.  Each translator is a Go
    program under translators/<name>; it prints the .v file on stdout.  The file is replaced
    only when its content changed, so make recompiles exactly the dependants."""
    results = {}
    if not names:
        return results
    tdir = os.path.join(VERIF, "translators")
    with Lock("translators"):
        prepare_go_module(tdir)
        for name in names:
            binp = os.path.join(BUILD, "tr_" + name)
            rc, out = run(["go", "build", "-o", binp, "./" + name], cwd=tdir, env=GOENV, timeout=600)
            if rc != 0:
                raise RuntimeError("translator build failed: %s\n%s" % (name, out[-3000:]))
            rc, out = run([binp, REPO], cwd=tdir, env=GOENV, timeout=300)
            if rc != 0:
                results[name] = ("error", out[-3000:])
                continue
            m = re.search(r"\(\* GENERATED FILE: (\S+) \*\)", out)
            if not m:
                raise RuntimeError("translator %s: missing GENERATED FILE header" % name)
            target = os.path.join(COQ, "theories", "Gen", m.group(1))
            os.makedirs(os.path.dirname(target), exist_ok=True)
            old = open(target).read() if os.path.exists(target) else None
            if old != out:
                with open(target, "w") as f:
                    f.write(out)
            results[name] = ("ok", target)
    return results


# ----------------------------------------------------------------------------- Coq

def build_coq(timeout=3000, targets=None):
    """full .vo build of the development (incremental).  Returns (ok, log)."""
    with Lock("coq"):
        run([os.path.join(VERIF, "lib", "gen_coqproject.sh")], check=True)
        rc, out = run(["make", "-k", "-j" + NPROC] + [t[:-2] + ".vo" for t in (targets or [])], cwd=COQ, timeout=timeout)
        return rc == 0, out


def coq_failed_files(makelog):
    return sorted(set(re.findall(r'File "\./(theories/[^"]+)", line \d+', makelog)))


def hygiene():
    """scan the development for forbidden constructs; returns list of offending 'file:line: text'."""
    bad = []
    files = all_v_files()
    ext = os.path.join(COQ, "extraction")
    if os.path.isdir(ext):
        files += [os.path.join(ext, f) for f in os.listdir(ext) if f.endswith(".v")]
    for p in files:
        with open(p, errors="replace") as f:
            txt = f.read()
        # strip comments (nested) before scanning
        txt = strip_coq_comments(txt)
        for i, line in enumerate(txt.split("\n"), 1):
            if HYGIENE_RE.search(line):
                bad.append("%s:%d: %s" % (os.path.relpath(p, VERIF), i, line.strip()))
    return bad


def strip_coq_comments(txt):
    out = []
    depth = 0
    i = 0
    n = len(txt)
    while i < n:
        if txt.startswith("(*", i):
            depth += 1
            i += 2
        elif depth > 0 and txt.startswith("*)", i):
            depth -= 1
            i += 2
        else:
            if depth == 0:
                out.append(txt[i])
            elif txt[i] == "\n":
                out.append("\n")
            i += 1
    return "".join(out)


THM_RE = re.compile(r"^\s*(Theorem|Lemma|Corollary|Example|Fact|Proposition|Remark)\s+([A-Za-z0-9_']+)", re.M)


def prove(files, timeout=1200):
    """Proof step: force-recompile the given theory files (relative to coq/) with coqc and collect the
    Print Assumptions output.  Returns dict(ok, obligations, discharged, theorems, axioms, log, failed)."""
    res = dict(ok=True, obligations=0, discharged=0, theorems=[], axioms=[], log="", failed=None)
    with Lock("coq"):
        for rel in files:
            path = os.path.join(COQ, rel)
            src = strip_coq_comments(open(path).read())
            names = [m.group(2) for m in THM_RE.finditer(src)]
            res["obligations"] += len(names)
            rc, out = run(["coqc", "-Q", "theories", "Storage", "-w", "-notation-overridden", rel], cwd=COQ, timeout=timeout)
            res["log"] += out
            if rc != 0:
                res["ok"] = False
                m = re.search(r'line (\d+), characters', out)
                failing = None
                if m:
                    ln = int(m.group(1))
                    upto = "\n".join(src.split("\n")[:ln])
                    prev = [mm.group(2) for mm in THM_RE.finditer(upto)]
                    failing = prev[-1] if prev else None
                    res["discharged"] += max(0, len(prev) - 1)
                res["failed"] = dict(file=rel, theorem=failing, rc=rc, message=out[-1500:])
                break
            res["discharged"] += len(names)
            res["theorems"] += names
            # every Print Assumptions must be closed (or list only allowed std-lib axioms)
            n_print = len(re.findall(r"Print Assumptions", src))
            n_closed = len(re.findall(r"Closed under the global context", out))
            ax = re.findall(r"^([A-Za-z0-9_.']+)\s*:", out, re.M) if "Axioms:" in out else []
            ax = [a for a in ax if a not in STD_AXIOMS_ALLOWED]
            if ax or (n_closed != n_print and "Axioms:" in out):
                res["ok"] = False
                res["axioms"] += ax
                res["failed"] = dict(file=rel, theorem=None, rc=0, message="axioms reported: %s" % ax)
                break
    return res


# ----------------------------------------------------------------------------- extracted model

def build_model(name, timeout=900):
    """Extract coq/extraction/<name>.v (which must write <lower>_model.ml) and link it with
    extraction/drv_common.ml and extraction/<lower>_driver.ml into build/model_<lower>.
    Cached on the hash of every theory source + the extraction inputs."""
    low = name.lower()
    ext = os.path.join(COQ, "extraction")
    vfile = os.path.join(ext, name + ".v")
    driver = os.path.join(ext, low + "_driver.ml")
    common = os.path.join(ext, "drv_common.ml")
    binp = os.path.join(BUILD, "model_" + low)
    with Lock("model_" + low):
        key = sha_files(all_v_files() + [vfile, driver, common])
        stamp = binp + ".stamp"
        if os.path.exists(binp) and os.path.exists(stamp) and open(stamp).read() == key:
            return binp
        wd = os.path.join(BUILD, "extract_" + low)
        shutil.rmtree(wd, ignore_errors=True)
        os.makedirs(wd)
        shutil.copy(vfile, os.path.join(wd, name + "Extract.v"))
        rc, out = run(["coqc", "-Q", os.path.join(COQ, "theories"), "Storage", name + "Extract.v"], cwd=wd, timeout=timeout)
        if rc != 0:
            raise RuntimeError("extraction failed for %s:\n%s" % (name, out[-3000:]))
        model_ml = os.path.join(wd, low + "_model.ml")
        with open(os.path.join(wd, "all.ml"), "w") as f:
            f.write(open(model_ml).read())
            f.write("\n(* ---- drv_common.ml ---- *)\n")
            f.write(open(common).read())
            f.write("\n(* ---- driver ---- *)\n")
            f.write(open(driver).read())
        rc, out = run(["ocamlfind", "ocamlopt", "-O2", "-w", "-a", "-package", "str", "-linkpkg", "all.ml", "-o", binp], cwd=wd, timeout=timeout)
        if rc != 0:
            rc, out = run(["ocamlfind", "ocamlopt", "-w", "-a", "-package", "str", "-linkpkg", "all.ml", "-o", binp], cwd=wd, timeout=timeout)
        if rc != 0:
            raise RuntimeError("ocaml build failed for %s:\n%s" % (name, out[-3000:]))
        with open(stamp, "w") as f:
            f.write(key)
        return binp


# ----------------------------------------------------------------------------- Go harness

def prepare_go_module(moddir):
    """write go.mod (from go.mod.tmpl) with the replace directive pointing at REPO, copy go.sum"""
    tmpl = open(os.path.join(moddir, "go.mod.tmpl")).read()
    repo_mod = open(os.path.join(REPO, "go.mod")).read()
    # take over the repository's own requirements so the same dependency versions are used
    reqs = re.findall(r"require \((.*?)\)", repo_mod, re.S)
    req_lines = []
    for block in reqs:
        for line in block.strip().split("\n"):
            line = line.strip()
            if line and not line.startswith("//"):
                req_lines.append("\t" + line)
    extra = ""
    m = re.search(r"// EXTRA-REQUIRE\n(.*?)// END-EXTRA", tmpl, re.S)
    if m:
        extra = m.group(1)
    content = tmpl.replace("@REPO@", REPO).replace("@REQUIRES@", "\n".join(req_lines))
    target = os.path.join(moddir, "go.mod")
    if not os.path.exists(target) or open(target).read() != content:
        with open(target, "w") as f:
            f.write(content)
    sums = open(os.path.join(REPO, "go.sum")).read()
    extra_sum = os.path.join(moddir, "go.sum.extra")
    if os.path.exists(extra_sum):
        sums += open(extra_sum).read()
    with open(os.path.join(moddir, "go.sum"), "w") as f:
        f.write(sums)


def build_harness(race=False, timeout=900):
    """build harness/cmd/storageharness against the current working tree of REPO"""
    binp = os.path.join(BUILD, "storageharness" + ("_race" if race else ""))
    with Lock("harness"):
        prepare_go_module(HARNESS)
        cmd = ["go", "build"] + (["-race"] if race else [])
        if os.environ.get("VERIF_COVER"):
            # coverage survey of /repo by the checks (lib/coverage_survey.sh): never set by a registered command
            cmd += ["-cover", "-covermode=atomic", "-coverpkg=verif/harness/cmd/storageharness,github.com/openziti/storage/..."]
        cmd += ["-o", binp, "./cmd/storageharness"]
        rc, out = run(cmd, cwd=HARNESS, env=GOENV, timeout=timeout)
        if rc != 0:
            return None, out
    return binp, ""


# ----------------------------------------------------------------------------- findings / evidence

def load_findings():
    p = os.path.join(VERIF, "known_findings.jsonl")
    out = []
    if os.path.exists(p):
        for line in open(p):
            line = line.strip()
            if line and not line.startswith("#"):
                out.append(json.loads(line))
    return out


class Check:
    """One run of one property's check."""

    def __init__(self, pid, argv=None):
        self.pid = pid
        self.t0 = time.time()
        self.tier = os.environ.get("VERIF_TIER", "quick")
        self.seed = int(os.environ.get("VERIF_SEED", "1") or 1)
        self.replay = None
        argv = list(argv or [])
        while argv:
            a = argv.pop(0)
            if a == "--tier":
                self.tier = argv.pop(0)
            elif a == "--seed":
                self.seed = int(argv.pop(0))
            elif a == "--replay":
                self.replay = argv.pop(0)
        if self.tier not in ("quick", "thorough"):
            self.tier = "quick"
        self.thorough = self.tier == "thorough"
        self.violations = []     # (signature, replay path, no_input)
        self.known_hits = {}     # key -> count
        self.findings = [f for f in load_findings() if f.get("property") == pid]
        self.cov = dict(obligations=0, discharged=0, checker_cmd="", trusted_base=[],
                        evaluations=0, distinct_nontrivial=0, rule="", samples=[],
                        disagreements_checked=0)
        self.assumptions = []
        self.work = os.path.join(BUILD, "work", pid + "_" + str(os.getpid()))
        shutil.rmtree(self.work, ignore_errors=True)
        os.makedirs(self.work, exist_ok=True)
        os.makedirs(os.path.join(VERIF, "replays", pid), exist_ok=True)
        os.makedirs(os.path.join(VERIF, "evidence"), exist_ok=True)
        self._replay_n = 0

    # -- reporting
    def new_replay(self, obj, suffix="json"):
        self._replay_n += 1
        path = os.path.join("replays", self.pid, "%s_%d_%d.%s" % (self.tier, self.seed, self._replay_n, suffix))
        with open(os.path.join(VERIF, path), "w") as f:
            if isinstance(obj, str):
                f.write(obj)
            else:
                json.dump(obj, f, indent=1, sort_keys=True)
        return path

    def violation(self, key, what, replay_obj, no_input=False):
        """report a property violation unless known_findings.jsonl lists this key as known"""
        for f in self.findings:
            if f.get("status") == "known" and f.get("key") == key:
                if key not in self.known_hits:
                    log("KNOWN-FINDING: property=%s %s [%s]" % (self.pid, f.get("what", what), key))
                self.known_hits[key] = self.known_hits.get(key, 0) + 1
                return
        if any(v[0] == key for v in self.violations) and len([v for v in self.violations if v[0] == key]) >= 3:
            return  # at most three replays per signature
        if isinstance(replay_obj, dict):
            replay_obj = dict(replay_obj, property=self.pid, key=key, what=what)
        path = self.new_replay(replay_obj)
        self.violations.append((key, path, no_input))
        log("VIOLATION property=%s replay=%s%s" % (self.pid, path, " no-failing-input-found" if no_input else ""))
        log("  -> %s: %s" % (key, what))

    # -- proof step
    def proof_step(self, files, translators=()):
        if translators:
            tr = run_translators(list(translators))
            for name, (st, info) in tr.items():
                if st != "ok":
                    self.proof_broken = dict(kind="translator", name=name, message=info)
                    return False
        # the whole development is built (so unrelated breakage is visible in the log), but only the
        # dependency cone of this property's files decides this property
        build_coq()
        ok, mlog = build_coq(targets=files)
        self.cov["checker_cmd"] = "coq_makefile -f _CoqProject && make -j%s (full .vo build, Coq 8.16.1) ; coqc %s ; Print Assumptions" % (
            NPROC, " ".join(files))
        if not ok:
            failed = coq_failed_files(mlog)
            self.proof_broken = dict(kind="make", files=failed, message=mlog[-2500:])
            return False
        pr = prove(files)
        self.cov["obligations"] += pr["obligations"]
        self.cov["discharged"] += pr["discharged"]
        self.cov["theorems"] = pr["theorems"]
        bad = hygiene()
        if bad:
            self.proof_broken = dict(kind="hygiene", message="forbidden constructs: " + "; ".join(bad[:10]))
            return False
        if not pr["ok"]:
            self.proof_broken = dict(kind="coqc", **pr["failed"])
            return False
        self.proof_broken = None
        if self.thorough:
            self.coqchk(files)
        return True

    def coqchk(self, files):
        mods = []
        for rel in files:
            mod = "Storage." + rel[len("theories/"):-2].replace("/", ".")
            mods.append(mod)
        t = time.time()
        with Lock("coq"):
            rc, out = run(["coqchk", "-silent", "-o", "-Q", "theories", "Storage"] + mods, cwd=COQ, timeout=3000)
        self.cov["coqchk"] = dict(rc=rc, wall_s=round(time.time() - t, 1), modules=mods, tail=out[-1200:])
        if rc != 0:
            self.proof_broken = dict(kind="coqchk", message=out[-2000:])

    # -- finish
    def finish(self, level="proof"):
        wall = round(time.time() - self.t0, 2)
        ev = dict(property_id=self.pid, tier=self.tier, seed=self.seed, level=level,
                  coverage=self.cov, assumptions=self.assumptions, wall_s=wall,
                  violations=len(self.violations))
        ev["coverage"]["known_findings_reproduced"] = self.known_hits
        if not self.replay:   # a replay run re-executes one case; it is not evidence
            with open(os.path.join(VERIF, "evidence", self.pid + ".json"), "w") as f:
                json.dump(ev, f, indent=1, sort_keys=True, default=str)
        shutil.rmtree(self.work, ignore_errors=True)
        if self.violations:
            log("RESULT property=%s FAIL violations=%d wall=%.1fs" % (self.pid, len(self.violations), wall))
            return 1
        log("RESULT property=%s PASS obligations=%d/%d evaluations=%d distinct=%d wall=%.1fs" % (
            self.pid, self.cov["discharged"], self.cov["obligations"], self.cov["evaluations"],
            self.cov["distinct_nontrivial"], wall))
        return 0


def read_lines(path):
    with open(path, errors="replace") as f:
        return [l.rstrip("\n") for l in f]


def run_model(binp, sub, cases_path, out_path, timeout=1800):
    with open(cases_path) as fin, open(out_path, "w") as fout:
        try:
            p = subprocess.run([binp, sub], stdin=fin, stdout=fout, stderr=subprocess.PIPE, timeout=timeout)
        except subprocess.TimeoutExpired:
            raise RuntimeError("model run timed out: %s %s" % (binp, sub))
    if p.returncode != 0:
        raise RuntimeError("model run failed: %s %s\n%s" % (binp, sub, p.stderr.decode("utf-8", "replace")[-2000:]))
    return read_lines(out_path)
