"""Runner of the C15 / C16 store-family checks.

Same flow as storefam.run_family, but through the harness sub-command `storex`
(harness/cmd/storageharness/store_x1516.go: adaptive history generator, extra read observations
I / QS / LF) and the extracted driver coq/extraction/storex_driver.ml.  The case-line and
observation formats are those of lib/storefam.py (parse_obs puts the read tokens into `other`)."""
import json
import os

import storefam
import vlib


def reads(tx):
    """the read tokens of one transaction observation: tag -> store -> list of ids ; LF facts as a set"""
    out = {}
    lf = set()
    for t in tx["other"]:
        p = t.split(":")
        if p[0] in ("Q", "V", "L", "I", "QS") and len(p) == 3:
            out.setdefault(p[0], {})[p[1]] = [x for x in p[2].split(",") if x]
        elif p[0] == "LF":
            lf.add(t)
    return out, lf


def canon_reads(tokens):
    """id-list tokens with their ids sorted (sets as sets)"""
    out = []
    for t in tokens:
        p = t.split(":")
        if p[0] in ("Q", "V", "L", "I", "QS") and len(p) == 3:
            out.append("%s:%s:%s" % (p[0], p[1], ",".join(sorted(x for x in p[2].split(",") if x))))
        else:
            out.append(t)
    return out


def parse_ops(tt):
    """tokens of one transaction (after 'TX') -> (sys, precommit_fails, vetoes, [op dict])"""
    pos = [0]

    def nx():
        t = tt[pos[0]]
        pos[0] += 1
        return t

    sysf = nx() == "1"
    pc = nx() == "1"
    vetoes = [(nx(), nx(), nx()) for _ in range(int(nx()))]
    ops = []

    def fvsv():
        fv = {}
        for _ in range(int(nx())):
            f = nx()
            fv[f] = nx()
        sv = {}
        for _ in range(int(nx())):
            f = nx()
            sv[f] = [nx() for _ in range(int(nx()))]
        return fv, sv

    for _ in range(int(nx())):
        k = nx()
        guard = None
        if k == "G":   # guarded create / update (Store/XOps.v XPersist): G <badtags> <k> (<store> <field>)*k <C .. | UP ..>
            bt = nx() == "1"
            guard = dict(badtags=bt, req=[(nx(), nx()) for _ in range(int(nx()))])
            k = nx()
        if k == "C":
            s, i, sy = nx(), nx(), nx() == "1"
            fv, sv = fvsv()
            ops.append(dict(kind=k, store=s, id=i, sys=sy, fv=fv, sv=sv))
        elif k == "UP":
            s, i = nx(), nx()
            fv, sv = fvsv()
            c = nx()
            chk = None if c == "-" else [nx() for _ in range(int(c))]
            ops.append(dict(kind=k, store=s, id=i, fv=fv, sv=sv, checker=chk))
        elif k == "D":
            ops.append(dict(kind=k, store=nx(), id=nx()))
        elif k == "DW":
            # DeleteWhere (Store/XOps.v XDeleteWhere): DW <store> T | DW <store> EQ <field> <valhex>
            s, flt = nx(), nx()
            if flt == "EQ":
                ops.append(dict(kind=k, store=s, field=nx(), val=nx()))
            else:
                ops.append(dict(kind=k, store=s, field=None, val=None))
        elif k in ("AL", "RL"):
            s, i, lf = nx(), nx(), nx()
            ts = [nx() for _ in range(int(nx()))]
            ops.append(dict(kind=k, store=s, id=i, field=lf, targets=ts))
        else:
            ops.append(dict(kind=k))
        if guard is not None:
            ops[-1]["guard"] = guard
    return sysf, pc, vetoes, ops


def run_family_x(c, profile, n_quick, n_thorough, compare, oracle, what, nontrivial=None, trusted_extra=()):
    """compare(impl_tx, model_tx) -> None | description of the property-relevant difference
       oracle(sch, case_txs, impl_obs, model_obs) -> list of (key, description, tx index)
       nontrivial(sch, case_txs, impl_obs) -> bool : does this history exercise the property"""
    pid = c.pid
    c.cov["trusted_base"] = [
        "Coq 8.16.1 kernel (coqc; coqchk in the thorough tier); vm_compute in Examples only; no axioms",
        "hand-written store machine coq/theories/Store/Model.v (boltz CRUD, constraints, delete cascade, tx glue, reads)",
        "bbolt as a transactional key/bucket store whose rollback restores the previous content",
        "extraction (ExtrOcamlBasic only) + extraction/storex_driver.ml + drv_common.ml",
        "Go harness store.go / store_gen.go / store_x1516.go (schema interpreter, adaptive history generator, fact projection, "
        "reads through every store) and lib/storefam.py / lib/storefamx.py",
    ] + list(trusted_extra)
    model = vlib.build_model("Storex")
    harness, err = vlib.build_harness()
    if harness is None:
        c.violation(pid + ":harness-build", "harness does not build against the repository: " + err[-800:],
                    dict(correspondence="harness build", log=err[-3000:]), no_input=True)
        return
    cases_path = os.path.join(c.work, "cases.txt")
    if c.replay:
        rp = json.load(open(c.replay))
        rin = os.path.join(c.work, "replay_in.txt")
        with open(rin, "w") as f:
            f.write(rp["case"] + "\n")
        n = 0
        args = [harness, "storex", "--out", c.work, "--tmp", c.work, "--n", "0", "--corpus", rin]
    else:
        n = n_thorough if c.thorough else n_quick
        args = [harness, "storex", "--seed", str(c.seed), "--tier", c.tier, "--out", c.work, "--tmp", c.work,
                "--profile", profile, "--n", str(n)]
    gen = dict(profile=profile, seed=c.seed, tier=c.tier, n=n, subcommand="storex")
    corpus = os.path.join(vlib.VERIF, "corpus", "store", profile + ".txt")
    if os.path.exists(corpus) and not c.replay:
        args += ["--corpus", corpus]
    rc, out = vlib.run(args, timeout=3000)
    if rc != 0:
        c.violation(pid + ":harness-run", "harness failed rc=%s: %s" % (rc, out[-800:]),
                    dict(correspondence="harness run", log=out[-3000:]), no_input=True)
        return
    cases = vlib.read_lines(cases_path)
    impl = vlib.read_lines(os.path.join(c.work, "impl.txt"))
    modl = vlib.run_model(model, "storex", cases_path, os.path.join(c.work, "model.txt"))
    assert len(cases) == len(impl) == len(modl), (len(cases), len(impl), len(modl))

    distinct = set()
    ntx = 0
    disagreements = []
    for idx, (case, i, m) in enumerate(zip(cases, impl, modl)):
        if not case.strip():
            continue
        sch, txs = storefam.split_case(case)
        io, mo = storefam.parse_obs(i), storefam.parse_obs(m)
        ntx += len(io)
        if nontrivial is None:
            if len(txs) > 1 or any(len(t["results"]) > 1 for t in io):
                distinct.add(case)
        elif nontrivial(sch, txs, io):
            distinct.add(case)
        reported = False
        for key, desc, k in oracle(sch, txs, io, mo):
            c.violation(key, desc, dict(case=case, impl=i, model=m, tx=k, gen=dict(gen, index=idx)))
            reported = True
        if reported:
            continue
        if len(io) != len(mo):
            disagreements.append((case, i, m, 0, "different number of transactions", idx))
            continue
        for k, (a, b) in enumerate(zip(io, mo)):
            d = compare(a, b)
            if d:
                disagreements.append((case, i, m, k, d, idx))
                break
        if c.replay:
            for k, (a, b) in enumerate(zip(io, mo)):
                vlib.log("REPLAY tx %d\n  impl : %s %s %s\n  model: %s %s %s" % (
                    k, a["results"], "COMMIT" if a["commit"] else "ROLLBACK", a["events"],
                    b["results"], "COMMIT" if b["commit"] else "ROLLBACK", b["events"]))
                ia, ib = set(a["facts"]), set(b["facts"])
                if ia != ib:
                    vlib.log("  facts only impl : %s\n  facts only model: %s" % (sorted(ia - ib), sorted(ib - ia)))
                oa, ob = set(canon_reads(a["other"])), set(canon_reads(b["other"]))
                if oa != ob:
                    vlib.log("  reads only impl : %s\n  reads only model: %s" % (sorted(oa - ob), sorted(ob - oa)))
    c.cov["evaluations"] = len(cases)
    c.cov["transactions"] = ntx
    c.cov["distinct_nontrivial"] = len(distinct)
    c.cov["disagreements_checked"] = len(disagreements)
    c.cov["rule"] = what
    ks = sorted(set((0, len(cases) // 2, max(0, len(cases) - 1))))
    c.cov["samples"] = [dict(case=cases[k][:1500], impl=impl[k][:1500], model=modl[k][:1500]) for k in ks if k < len(cases)]
    try:
        c.cov["input_distribution"] = json.load(open(os.path.join(c.work, "stats.json")))
    except Exception:
        pass
    if disagreements and not c.violations:
        case, i, m, k, d, idx = disagreements[0]
        c.violation(pid + ":correspondence",
                    "store machine (Store/Model.v) and boltz differ on %d histories in the %s projection; first: tx %d: %s"
                    % (len(disagreements), pid, k, d),
                    dict(correspondence="Store/Model.v vs boltz (%s projection)" % pid, case=case, impl=i, model=m, tx=k, difference=d,
                         gen=dict(gen, index=idx)),
                    no_input=True)
