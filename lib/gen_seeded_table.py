#!/usr/bin/env python3
"""writes seeded/README.md: one row per seeded change (from seeded/*/meta.json)"""
import glob, json, os
V = os.path.dirname(os.path.dirname(os.path.abspath(__file__)))
rows = []
for d in sorted(glob.glob(os.path.join(V, "seeded", "*", ""))):
    m = json.load(open(os.path.join(d, "meta.json")))
    cr = m.get("check_result", {})
    name = os.path.basename(d.rstrip("/"))
    def cell(x, n):
        return (str(x) if x else "").replace("|", "/").replace("\n", " ")[:n]
    verdict = cr.get("verdict") or cr.get("how") or ""
    extra = cr.get("added") or cr.get("what_was_added") or ""
    rows.append("| %s | %s | %s | %s | %s |" % (name, cell(m.get("breaks") or m.get("what_breaks"), 260), cell(m.get("needs"), 220),
                                             "caught" if cr.get("caught") else "**missed**", cell(str(verdict) + (" — " + str(extra) if extra else ""), 320)))
n = len(rows)
c = sum(1 for r in rows if "| caught |" in r)
with open(os.path.join(V, "seeded", "README.md"), "w") as f:
    f.write("# Seeded changes\n\nEach directory holds a change to openziti/storage written by a fresh sub-agent that saw only the property text and a\n"
            "scratch worktree (`patch.diff`), its demonstration (`demo_test.go`, `demo_path.txt`, `demo_cmd.txt`) and `meta.json`.\n"
            "Confirmed by `lib/confirm_mutant.sh` (builds; existing suite passes with the patch; demonstration fails with it and passes\n"
            "without it) and run against the committed check with `lib/try_mutant.sh <ID> seeded/<ID>-<k>/patch.diff`.\n\n"
            "%d changes, %d caught by the current checks.\n\n| change | what it breaks | what it needs to manifest | result | how the check sees it / what was added |\n|---|---|---|---|---|\n" % (n, c))
    f.write("\n".join(rows) + "\n")
print(n, c)
