#!/bin/bash
# usage: lib/confirm_mutant.sh <mutant-dir with patch.diff demo_test.go demo_path.txt demo_cmd.txt>
# confirms in a scratch worktree: builds + existing suite passes with the patch; demo fails with it and passes without it
D=$1
export GOFLAGS=-mod=mod GOPROXY=off GOSUMDB=off GOTOOLCHAIN=local
W=/root/scratch/conf-$$/repo
mkdir -p /root/scratch/conf-$$
git -C /repo worktree add -q --detach $W HEAD || exit 2
DP=$(cat $D/demo_path.txt | tr -d '\n' | sed 's/^ *//;s/ *$//')
CMD=$(cat $D/demo_cmd.txt | head -1)
res=""
cp $D/demo_test.go $W/$DP
(cd $W && eval "$CMD" >/dev/null 2>&1) && res="$res demo_without_patch=PASS" || res="$res demo_without_patch=FAIL"
rm -f $W/$DP
git -C $W apply $D/patch.diff || { echo "patch does not apply"; git -C /repo worktree remove --force $W; exit 2; }
(cd $W && go build ./... >/dev/null 2>&1) && res="$res build=OK" || res="$res build=FAIL"
(cd $W && go test -vet=off -count=1 ./... >/dev/null 2>&1) && res="$res suite_with_patch=PASS" || res="$res suite_with_patch=FAIL"
cp $D/demo_test.go $W/$DP
(cd $W && eval "$CMD" >/dev/null 2>&1) && res="$res demo_with_patch=PASS" || res="$res demo_with_patch=FAIL"
git -C /repo worktree remove --force $W; rmdir /root/scratch/conf-$$ 2>/dev/null
echo "$res"
case "$res" in *"demo_without_patch=PASS build=OK suite_with_patch=PASS demo_with_patch=FAIL"*) echo CONFIRMED; exit 0;; *) echo NOT-CONFIRMED; exit 1;; esac
