// unescape regenerates coq/theories/Gen/GenUnescape.v from zitiql/util.go:
//
//	tr_unescape <repo-path>      prints the Coq file on stdout
//
// It reads (syntax only) the replacement pairs handed to strings.NewReplacer for the package-level
// variable used by ParseZqlString, and the statement shape of ParseZqlString itself
// (TrimPrefix / TrimSuffix of the quote, then <replacer>.Replace). Anything else becomes SUnknown, which
// fails the Coq obligation in Properties/C11Gen.v.
package main

import (
	"fmt"
	"go/ast"
	"go/parser"
	"go/token"
	"os"
	"path/filepath"
	"strconv"
	"strings"
)

func bytesTerm(s string) string {
	var parts []string
	for _, b := range []byte(s) {
		parts = append(parts, strconv.Itoa(int(b)))
	}
	return "[" + strings.Join(parts, "; ") + "]%N"
}

func lit(e ast.Expr) (string, bool) {
	if bl, ok := e.(*ast.BasicLit); ok && bl.Kind == token.STRING {
		s, err := strconv.Unquote(bl.Value)
		return s, err == nil
	}
	return "", false
}

func callName(c *ast.CallExpr) string {
	if sel, ok := c.Fun.(*ast.SelectorExpr); ok {
		if id, ok := sel.X.(*ast.Ident); ok {
			return id.Name + "." + sel.Sel.Name
		}
	}
	return ""
}

func main() {
	if len(os.Args) < 2 {
		fmt.Fprintln(os.Stderr, "usage: tr_unescape <repo>")
		os.Exit(2)
	}
	fset := token.NewFileSet()
	f, err := parser.ParseFile(fset, filepath.Join(os.Args[1], "zitiql", "util.go"), nil, 0)
	if err != nil {
		fmt.Fprintln(os.Stderr, err)
		os.Exit(1)
	}
	replacers := map[string][][2]string{} // var name -> pairs
	badReplacer := map[string]bool{}
	for _, d := range f.Decls {
		gd, ok := d.(*ast.GenDecl)
		if !ok || gd.Tok != token.VAR {
			continue
		}
		for _, sp := range gd.Specs {
			vs := sp.(*ast.ValueSpec)
			for i, v := range vs.Values {
				call, ok := v.(*ast.CallExpr)
				if !ok || callName(call) != "strings.NewReplacer" || i >= len(vs.Names) {
					continue
				}
				name := vs.Names[i].Name
				if len(call.Args)%2 != 0 {
					badReplacer[name] = true
					continue
				}
				var pairs [][2]string
				for k := 0; k+1 < len(call.Args); k += 2 {
					o, ok1 := lit(call.Args[k])
					n, ok2 := lit(call.Args[k+1])
					if !ok1 || !ok2 {
						badReplacer[name] = true
						break
					}
					pairs = append(pairs, [2]string{o, n})
				}
				replacers[name] = pairs
			}
		}
	}
	var steps []string
	used := ""
	for _, d := range f.Decls {
		fd, ok := d.(*ast.FuncDecl)
		if !ok || fd.Name.Name != "ParseZqlString" || fd.Body == nil {
			continue
		}
		var walk func(e ast.Expr, param string) bool // emits steps for an expression over the text so far
		walk = func(e ast.Expr, param string) bool {
			switch x := e.(type) {
			case *ast.Ident:
				return x.Name == param || x.Name == "t"
			case *ast.CallExpr:
				switch callName(x) {
				case "strings.TrimPrefix", "strings.TrimSuffix":
					if len(x.Args) != 2 || !walk(x.Args[0], param) {
						return false
					}
					s, ok := lit(x.Args[1])
					if !ok {
						return false
					}
					kind := "STrimPrefix"
					if callName(x) == "strings.TrimSuffix" {
						kind = "STrimSuffix"
					}
					steps = append(steps, fmt.Sprintf("%s %s", kind, bytesTerm(s)))
					return true
				default:
					if sel, ok := x.Fun.(*ast.SelectorExpr); ok && sel.Sel.Name == "Replace" && len(x.Args) == 1 {
						if id, ok := sel.X.(*ast.Ident); ok {
							if _, known := replacers[id.Name]; known && !badReplacer[id.Name] && walk(x.Args[0], param) {
								used = id.Name
								steps = append(steps, "SReplacer")
								return true
							}
						}
					}
				}
			}
			return false
		}
		param := "text"
		if fd.Type.Params != nil && len(fd.Type.Params.List) > 0 && len(fd.Type.Params.List[0].Names) > 0 {
			param = fd.Type.Params.List[0].Names[0].Name
		}
		for _, st := range fd.Body.List {
			ok := false
			switch s := st.(type) {
			case *ast.AssignStmt:
				if len(s.Lhs) == 1 && len(s.Rhs) == 1 {
					if id, isId := s.Lhs[0].(*ast.Ident); isId && id.Name == "t" {
						ok = walk(s.Rhs[0], param)
					}
				}
			case *ast.ReturnStmt:
				if len(s.Results) == 1 {
					ok = walk(s.Results[0], param)
				}
			}
			if !ok {
				steps = append(steps, fmt.Sprintf("SUnknown %d", fset.Position(st.Pos()).Line))
			}
		}
	}
	fmt.Println("(* GENERATED FILE: GenUnescape.v *)")
	fmt.Println("(* regenerated from zitiql/util.go by translators/unescape on every run; do not edit *)")
	fmt.Println("From Coq Require Import List NArith.")
	fmt.Println("From Storage Require Import Base.Bytes Lang.UnescapeGen.")
	fmt.Println("Import ListNotations.")
	fmt.Println("Definition pairs : list (str * str) :=")
	fmt.Println("  [")
	ps := replacers[used]
	for i, p := range ps {
		sep := ";"
		if i == len(ps)-1 {
			sep = ""
		}
		fmt.Printf("    (%s, %s)%s\n", bytesTerm(p[0]), bytesTerm(p[1]), sep)
	}
	fmt.Println("  ].")
	fmt.Println("Definition body : list step :=")
	fmt.Println("  [" + strings.Join(steps, "; ") + "].")
}
