// errflow regenerates coq/theories/Gen/GenErrFlow.v from the Go source of openziti/storage/boltz.
//
//	tr_errflow <repo-path>      prints the Coq file on stdout
//
// For every function of package boltz (non-test files) whose last result is an error it lists, in
// source order, each place where an error value is tested against nil and what the guarded branch
// does with it, and each call whose error result is thrown away:
//
//	DReturn    if err != nil { return …, err }          the error (or a wrapped one) is returned
//	DLatch     if err != nil { holder.SetError(err) … } / x.Err = err      latched into an error holder
//	DSwallow   if err != nil { return …, nil }          the branch reports success although an error occurred
//	DDiscard   f() / _ = f() / _, _ = f()               an error result is dropped on the floor
//	DOther     anything else (log and continue, break, …)
//
// The Coq obligation errflow_ok (Store/ErrFlow.v) demands that no row outside the justified
// allow-list is DSwallow or DDiscard.
package main

import (
	"fmt"
	"go/ast"
	"go/token"
	"go/types"
	"os"
	"path/filepath"
	"sort"
	"strings"

	"golang.org/x/tools/go/packages"
)

type row struct {
	file, fn string
	ord      int
	disp     string
	what     string
}

func main() {
	if len(os.Args) < 2 {
		fmt.Fprintln(os.Stderr, "usage: tr_errflow <repo>")
		os.Exit(2)
	}
	repo := os.Args[1]
	cfg := &packages.Config{Mode: packages.NeedName | packages.NeedFiles | packages.NeedSyntax | packages.NeedTypes | packages.NeedTypesInfo | packages.NeedImports | packages.NeedDeps,
		Dir: repo, Env: append(os.Environ(), "GOFLAGS=-mod=mod", "GOPROXY=off", "GOSUMDB=off", "GOTOOLCHAIN=local")}
	pkgs, err := packages.Load(cfg, "github.com/openziti/storage/boltz")
	if err != nil || len(pkgs) != 1 {
		fmt.Fprintln(os.Stderr, "load failed:", err)
		os.Exit(1)
	}
	pkg := pkgs[0]
	if len(pkg.Errors) > 0 {
		fmt.Fprintln(os.Stderr, "package errors:", pkg.Errors)
		os.Exit(1)
	}
	errType := types.Universe.Lookup("error").Type()
	isErr := func(t types.Type) bool { return t != nil && types.Identical(t, errType) }
	var rows []row
	for _, f := range pkg.Syntax {
		fname := filepath.Base(pkg.Fset.Position(f.Pos()).Filename)
		if strings.HasSuffix(fname, "_test.go") {
			continue
		}
		for _, d := range f.Decls {
			fd, ok := d.(*ast.FuncDecl)
			if !ok || fd.Body == nil {
				continue
			}
			name := fd.Name.Name
			if fd.Recv != nil && len(fd.Recv.List) == 1 {
				name = recvName(fd.Recv.List[0].Type) + "." + name
			}
			sig, _ := pkg.TypesInfo.Defs[fd.Name].Type().(*types.Signature)
			returnsErr := sig != nil && sig.Results().Len() > 0 && isErr(sig.Results().At(sig.Results().Len()-1).Type())
			ord := 0
			add := func(disp, what string) {
				rows = append(rows, row{fname, name, ord, disp, what})
				ord++
			}
			ast.Inspect(fd.Body, func(n ast.Node) bool {
				switch s := n.(type) {
				case *ast.FuncLit:
					return false // closures have their own contract
				case *ast.IfStmt:
					id := errTested(s.Cond, pkg.TypesInfo, isErr)
					if id == "" {
						return true
					}
					add(classify(s.Body, id, returnsErr, pkg.TypesInfo, isErr), "if "+id+" != nil")
				case *ast.ExprStmt:
					if call, ok := s.X.(*ast.CallExpr); ok && callReturnsErr(call, pkg.TypesInfo, isErr) {
						add("DDiscard", "call "+exprName(call.Fun))
					}
				case *ast.AssignStmt:
					if len(s.Rhs) == 1 {
						if call, ok := s.Rhs[0].(*ast.CallExpr); ok && callReturnsErr(call, pkg.TypesInfo, isErr) {
							last := s.Lhs[len(s.Lhs)-1]
							if id, ok := last.(*ast.Ident); ok && id.Name == "_" {
								add("DDiscard", "_ = "+exprName(call.Fun))
							}
						}
					}
				}
				return true
			})
		}
	}
	sort.SliceStable(rows, func(i, j int) bool {
		if rows[i].file != rows[j].file {
			return rows[i].file < rows[j].file
		}
		if rows[i].fn != rows[j].fn {
			return rows[i].fn < rows[j].fn
		}
		return rows[i].ord < rows[j].ord
	})
	fmt.Println("(* GENERATED FILE: GenErrFlow.v *)")
	fmt.Println("(* regenerated from boltz/*.go by translators/errflow on every run; do not edit *)")
	fmt.Println("From Coq Require Import List String.")
	fmt.Println("From Storage Require Import Store.ErrFlow.")
	fmt.Println("Import ListNotations.")
	fmt.Println("Open Scope string_scope.")
	fmt.Println("Definition table : list erow :=")
	fmt.Println("  [")
	for i, r := range rows {
		sep := ";"
		if i == len(rows)-1 {
			sep = ""
		}
		fmt.Printf("    mkRow %q %q %d %s %q%s\n", r.file, r.fn, r.ord, r.disp, r.what, sep)
	}
	fmt.Println("  ].")
	_ = token.NoPos
}

func recvName(e ast.Expr) string {
	switch t := e.(type) {
	case *ast.StarExpr:
		return recvName(t.X)
	case *ast.IndexExpr:
		return recvName(t.X)
	case *ast.IndexListExpr:
		return recvName(t.X)
	case *ast.Ident:
		return t.Name
	}
	return "?"
}

func exprName(e ast.Expr) string {
	switch t := e.(type) {
	case *ast.Ident:
		return t.Name
	case *ast.SelectorExpr:
		return exprName(t.X) + "." + t.Sel.Name
	case *ast.CallExpr:
		return exprName(t.Fun) + "()"
	case *ast.IndexExpr:
		return exprName(t.X)
	}
	return "?"
}

func callReturnsErr(call *ast.CallExpr, info *types.Info, isErr func(types.Type) bool) bool {
	tv, ok := info.Types[call]
	if !ok {
		return false
	}
	switch t := tv.Type.(type) {
	case *types.Tuple:
		return t.Len() > 0 && isErr(t.At(t.Len()-1).Type())
	default:
		return isErr(t)
	}
}

// errTested returns the name of the error-typed expression compared with nil by `x != nil` (possibly
// inside `x != nil && …`), or ""
func errTested(cond ast.Expr, info *types.Info, isErr func(types.Type) bool) string {
	switch c := cond.(type) {
	case *ast.ParenExpr:
		return errTested(c.X, info, isErr)
	case *ast.BinaryExpr:
		if c.Op == token.NEQ {
			if id, ok := c.Y.(*ast.Ident); ok && id.Name == "nil" {
				if tv, ok := info.Types[c.X]; ok && isErr(tv.Type) {
					return exprName(c.X)
				}
			}
		}
		if c.Op == token.LAND {
			if r := errTested(c.X, info, isErr); r != "" {
				return r
			}
			return errTested(c.Y, info, isErr)
		}
	}
	return ""
}

func classify(body *ast.BlockStmt, id string, returnsErr bool, info *types.Info, isErr func(types.Type) bool) string {
	result := ""
	ast.Inspect(body, func(n ast.Node) bool {
		if result == "DSwallow" {
			return false
		}
		switch s := n.(type) {
		case *ast.FuncLit:
			return false
		case *ast.ReturnStmt:
			if !returnsErr {
				if result == "" {
					result = "DOther"
				}
				return true
			}
			if len(s.Results) == 0 { // named results
				if result == "" {
					result = "DReturn"
				}
				return true
			}
			last := s.Results[len(s.Results)-1]
			if lid, ok := last.(*ast.Ident); ok && lid.Name == "nil" {
				result = "DSwallow"
				return false
			}
			result = "DReturn"
		case *ast.CallExpr:
			if sel, ok := s.Fun.(*ast.SelectorExpr); ok && sel.Sel.Name == "SetError" && result == "" {
				result = "DLatch"
			}
		case *ast.AssignStmt:
			for _, l := range s.Lhs {
				if sel, ok := l.(*ast.SelectorExpr); ok && sel.Sel.Name == "Err" && result == "" {
					result = "DLatch"
				}
			}
		}
		return true
	})
	if result == "" {
		result = "DOther"
	}
	return result
}
