// Two more tables of Gen/GenAccess.v (added for seeded/C18-w3-1, C18-w3-2; models Db/LockTable.v, Db/MemView.v).
//
// lock_table - calls that join a running transaction must not take the lock of the handle again.
//   - guarded handle type = a repository struct type with a field of type sync.RWMutex / sync.Mutex
//     (boltz.DbImpl with reloadLock)
//   - row = every method of such a type that has a parameter carrying a transaction: *bbolt.Tx, or an
//     interface type with a method Tx() *bbolt.Tx (boltz.MutateContext).  The caller of such a method may be
//     - for a *bbolt.Tx parameter: is - inside a transaction, i.e. its goroutine holds the read lock
//   - in-transaction region of the method body: all of it for a *bbolt.Tx parameter; for a context parameter
//     c everything except the branch taken when c.Tx() == nil (the then-branch of `if c.Tx() == nil`, the
//     else-branch of `if c.Tx() != nil`, and what follows an `if c.Tx() != nil { ...; return }` in the same block)
//   - acquisition = a call X.RLock() / X.Lock() on a mutex field reached from the method's own receiver, in
//     the in-transaction region - or, for a call in that region of another method ON THE SAME RECEIVER: that
//     method's in-transaction acquisitions when the transaction is passed on, all its acquisitions otherwise
//     (transitively).  Calls on other values of the type (the copy opened by MarkAsSnapshot) concern another
//     lock.  Function-typed values (the transaction body itself) are not followed.
//
// view_table - strings / slices that are views of memory they do not own.
//   - row = every use, outside test files, of unsafe.String / Slice / StringData / SliceData / Add, a
//     conversion to unsafe.Pointer, or a mention of reflect.StringHeader / reflect.SliceHeader
//   - owned = the operand is rooted at a local variable of the function all of whose definitions are fresh
//     allocations: make(...), a composite literal, a conversion from string, append on nil / a fresh value,
//     or a call of a function named clone / Clone.  Parameters, fields and results of other calls (what
//     bbolt hands out lives in the database mapping and only as long as the transaction) are not owned.
package main

import (
	"fmt"
	"go/ast"
	"go/token"
	"go/types"
	"sort"
	"strings"
)

func isNamed(t types.Type, pkgSuffix, name string) bool {
	if p, ok := t.(*types.Pointer); ok {
		t = p.Elem()
	}
	n, ok := t.(*types.Named)
	return ok && n.Obj().Name() == name && n.Obj().Pkg() != nil && strings.HasSuffix(n.Obj().Pkg().Path(), pkgSuffix)
}

func isMutexType(t types.Type) bool {
	return isNamed(t, "sync", "RWMutex") || isNamed(t, "sync", "Mutex")
}

func isTxPtr(t types.Type) bool {
	_, ptr := t.(*types.Pointer)
	return ptr && isNamed(t, "bbolt", "Tx")
}

// carriesTx: an interface with a method Tx() *bbolt.Tx
func carriesTx(t types.Type) bool {
	it, ok := t.Underlying().(*types.Interface)
	if !ok {
		return false
	}
	for i := 0; i < it.NumMethods(); i++ {
		m := it.Method(i)
		sig := m.Type().(*types.Signature)
		if m.Name() == "Tx" && sig.Params().Len() == 0 && sig.Results().Len() == 1 && isTxPtr(sig.Results().At(0).Type()) {
			return true
		}
	}
	return false
}

func hasMutexField(t types.Type) bool {
	if p, ok := t.(*types.Pointer); ok {
		t = p.Elem()
	}
	st, ok := t.Underlying().(*types.Struct)
	if !ok {
		return false
	}
	for i := 0; i < st.NumFields(); i++ {
		if isMutexType(st.Field(i).Type()) {
			return true
		}
	}
	return false
}

type lockAn struct {
	inTxMemo  map[*funcInfo][]string
	anyMemo   map[*funcInfo][]string
	visiting  map[*funcInfo]bool
	visiting2 map[*funcInfo]bool
}

func recvObj(fi *funcInfo) types.Object {
	if fi.decl == nil || fi.decl.Recv == nil || len(fi.decl.Recv.List) == 0 || len(fi.decl.Recv.List[0].Names) == 0 {
		return nil
	}
	return fi.pkg.TypesInfo.Defs[fi.decl.Recv.List[0].Names[0]]
}

// txParams: the parameters that carry a transaction: (tx parameters, context parameters)
func txParams(fi *funcInfo) (txs, ctxs []types.Object) {
	if fi.decl == nil || fi.decl.Type.Params == nil {
		return
	}
	for _, f := range fi.decl.Type.Params.List {
		for _, nm := range f.Names {
			o := fi.pkg.TypesInfo.Defs[nm]
			if o == nil {
				continue
			}
			switch {
			case isTxPtr(o.Type()):
				txs = append(txs, o)
			case carriesTx(o.Type()):
				ctxs = append(ctxs, o)
			}
		}
	}
	return
}

// txNilTest: cond is `c.Tx() == nil` (eq = true) or `c.Tx() != nil` (eq = false) for a context parameter c
func txNilTest(info *types.Info, cond ast.Expr, ctxs []types.Object) (isTest, eq bool) {
	for {
		p, ok := cond.(*ast.ParenExpr)
		if !ok {
			break
		}
		cond = p.X
	}
	b, ok := cond.(*ast.BinaryExpr)
	if !ok || (b.Op != token.EQL && b.Op != token.NEQ) {
		return false, false
	}
	isTxCall := func(e ast.Expr) bool {
		c, ok := e.(*ast.CallExpr)
		if !ok || len(c.Args) != 0 {
			return false
		}
		s, ok := c.Fun.(*ast.SelectorExpr)
		if !ok || s.Sel.Name != "Tx" {
			return false
		}
		id, ok := s.X.(*ast.Ident)
		if !ok {
			return false
		}
		for _, o := range ctxs {
			if info.Uses[id] == o {
				return true
			}
		}
		return false
	}
	isNil := func(e ast.Expr) bool {
		id, ok := e.(*ast.Ident)
		return ok && id.Name == "nil"
	}
	if (isTxCall(b.X) && isNil(b.Y)) || (isTxCall(b.Y) && isNil(b.X)) {
		return true, b.Op == token.EQL
	}
	return false, false
}

func endsWithReturn(b *ast.BlockStmt) bool {
	if b == nil || len(b.List) == 0 {
		return false
	}
	_, ok := b.List[len(b.List)-1].(*ast.ReturnStmt)
	return ok
}

// inTxNodes: the statements / expressions of the body that can run while the caller's transaction is open
func inTxNodes(fi *funcInfo, whole bool, ctxs []types.Object) []ast.Node {
	if whole {
		return []ast.Node{fi.decl.Body}
	}
	info := fi.pkg.TypesInfo
	var out []ast.Node
	var block func(list []ast.Stmt)
	var stmt func(s ast.Stmt)
	stmt = func(s ast.Stmt) {
		switch x := s.(type) {
		case *ast.BlockStmt:
			block(x.List)
		case *ast.IfStmt:
			if isTest, eq := txNilTest(info, x.Cond, ctxs); isTest {
				if eq { // if c.Tx() == nil { no transaction yet } else { in transaction }
					if x.Else != nil {
						stmt(x.Else)
					}
				} else {
					block(x.Body.List)
				}
				return
			}
			out = append(out, x)
		default:
			out = append(out, s)
		}
	}
	block = func(list []ast.Stmt) {
		for _, s := range list {
			stmt(s)
			if ifs, ok := s.(*ast.IfStmt); ok {
				if isTest, eq := txNilTest(info, ifs.Cond, ctxs); isTest && !eq && endsWithReturn(ifs.Body) && ifs.Else == nil {
					return // the rest of the block runs only without a transaction
				}
			}
		}
	}
	block(fi.decl.Body.List)
	return out
}

// rootedAt: the expression is a chain of selections / dereferences / indexes starting at that object
func rootedAt(info *types.Info, e ast.Expr, o types.Object) bool {
	for {
		switch x := e.(type) {
		case *ast.Ident:
			return o != nil && info.Uses[x] == o
		case *ast.SelectorExpr:
			e = x.X
		case *ast.StarExpr:
			e = x.X
		case *ast.ParenExpr:
			e = x.X
		case *ast.IndexExpr:
			e = x.X
		case *ast.UnaryExpr:
			e = x.X
		default:
			return false
		}
	}
}

// scan collects the acquisitions in the nodes: sites on the receiver's mutexes and those of same-receiver callees
func (la *lockAn) scan(fi *funcInfo, nodes []ast.Node) []string {
	info := fi.pkg.TypesInfo
	recv := recvObj(fi)
	var out []string
	for _, n := range nodes {
		ast.Inspect(n, func(n ast.Node) bool {
			call, ok := n.(*ast.CallExpr)
			if !ok {
				return true
			}
			sel, ok := call.Fun.(*ast.SelectorExpr)
			if !ok {
				return true
			}
			if (sel.Sel.Name == "RLock" || sel.Sel.Name == "Lock") && len(call.Args) == 0 {
				if tv, ok := info.Types[sel.X]; ok && isMutexType(tv.Type) && rootedAt(info, sel.X, recv) {
					out = append(out, fmt.Sprintf("%s: %s.%s()", fi.name, types.ExprString(sel.X), sel.Sel.Name))
				}
				return true
			}
			// a method called on the same receiver
			if !rootedAt(info, sel.X, recv) {
				return true
			}
			if id, isIdent := sel.X.(*ast.Ident); !isIdent || info.Uses[id] != recv {
				return true
			}
			fn, ok := info.Uses[sel.Sel].(*types.Func)
			if !ok {
				return true
			}
			callee := funcs[fn.Origin()]
			if callee == nil {
				return true
			}
			passes := false
			for _, a := range call.Args {
				if tv, ok := info.Types[a]; ok && tv.Type != nil && (isTxPtr(tv.Type) || carriesTx(tv.Type)) {
					passes = true
				}
			}
			var sub []string
			if passes {
				sub = la.inTx(callee)
			} else {
				sub = la.any(callee)
			}
			for _, s := range sub {
				out = append(out, fmt.Sprintf("%s -> %s", fi.name, s))
			}
			return true
		})
	}
	return out
}

func (la *lockAn) inTx(fi *funcInfo) []string {
	if r, ok := la.inTxMemo[fi]; ok {
		return r
	}
	if la.visiting[fi] {
		return nil
	}
	la.visiting[fi] = true
	defer delete(la.visiting, fi)
	txs, ctxs := txParams(fi)
	var r []string
	if len(txs)+len(ctxs) > 0 {
		r = la.scan(fi, inTxNodes(fi, len(txs) > 0, ctxs))
	}
	la.inTxMemo[fi] = r
	return r
}

func (la *lockAn) any(fi *funcInfo) []string {
	if r, ok := la.anyMemo[fi]; ok {
		return r
	}
	if la.visiting2[fi] {
		return nil
	}
	la.visiting2[fi] = true
	defer delete(la.visiting2, fi)
	r := la.scan(fi, []ast.Node{fi.decl.Body})
	la.anyMemo[fi] = r
	return r
}

func coqStringList(xs []string) string {
	var q []string
	for _, x := range xs {
		q = append(q, fmt.Sprintf("%q", x))
	}
	return "[" + strings.Join(q, "; ") + "]"
}

func lockTableCoq(order []*funcInfo) string {
	la := &lockAn{inTxMemo: map[*funcInfo][]string{}, anyMemo: map[*funcInfo][]string{}, visiting: map[*funcInfo]bool{}, visiting2: map[*funcInfo]bool{}}
	var rows []string
	var fis []*funcInfo
	for _, fi := range order {
		if fi.obj == nil || fi.decl == nil || fi.encl != nil {
			continue
		}
		r := fi.obj.Type().(*types.Signature).Recv()
		if r == nil || !hasMutexField(r.Type()) {
			continue
		}
		if txs, ctxs := txParams(fi); len(txs)+len(ctxs) == 0 {
			continue
		}
		fis = append(fis, fi)
	}
	sort.Slice(fis, func(i, j int) bool { return fis[i].name < fis[j].name })
	for _, fi := range fis {
		acq := la.inTx(fi)
		sort.Strings(acq)
		rows = append(rows, fmt.Sprintf("  {| lf_name := %q; lf_in_tx := %s |}", fi.name, coqStringList(acq)))
	}
	return "(* functions that can be called with a running transaction in hand (methods of a type guarding its handle\n" +
		"   with a mutex, with a *bbolt.Tx / MutateContext parameter): acquisitions of that mutex on the path taken\n" +
		"   when the transaction is open.  Model: Db/LockTable.v *)\n" +
		"Definition lock_table : list lockfn := [\n" + strings.Join(rows, ";\n") + "\n].\n"
}

// ---- views of memory the value does not own ------------------------------------------------------------------

func freshExpr(info *types.Info, e ast.Expr, fresh func(types.Object) bool) bool {
	switch x := e.(type) {
	case *ast.ParenExpr:
		return freshExpr(info, x.X, fresh)
	case *ast.CompositeLit:
		return true
	case *ast.UnaryExpr:
		if x.Op == token.AND {
			_, lit := x.X.(*ast.CompositeLit)
			return lit
		}
	case *ast.Ident:
		return fresh(info.Uses[x])
	case *ast.SliceExpr:
		return freshExpr(info, x.X, fresh)
	case *ast.CallExpr:
		if tv, ok := info.Types[x.Fun]; ok && tv.IsType() && len(x.Args) == 1 {
			// a conversion: []byte(s) from a string copies; between slice types it does not
			if at, ok := info.Types[x.Args[0]]; ok {
				if b, ok := at.Type.Underlying().(*types.Basic); ok && b.Info()&types.IsString != 0 {
					if _, toSlice := tv.Type.Underlying().(*types.Slice); toSlice {
						return true
					}
				}
			}
			return freshExpr(info, x.Args[0], fresh)
		}
		name := ""
		switch f := x.Fun.(type) {
		case *ast.Ident:
			name = f.Name
		case *ast.SelectorExpr:
			name = f.Sel.Name
		}
		switch name {
		case "make", "new", "clone", "Clone":
			return true
		case "append":
			if len(x.Args) > 0 {
				if id, ok := x.Args[0].(*ast.Ident); ok && id.Name == "nil" {
					return true
				}
				return freshExpr(info, x.Args[0], fresh)
			}
		}
	}
	return false
}

func viewTableCoq(order []*funcInfo) string {
	var rows []string
	for _, fi := range order {
		if fi.decl == nil || fi.decl.Body == nil || fi.encl != nil {
			continue
		}
		info := fi.pkg.TypesInfo
		// definitions of the local variables
		defs := map[types.Object][]ast.Expr{}
		unknown := map[types.Object]bool{}
		ast.Inspect(fi.decl.Body, func(n ast.Node) bool {
			switch x := n.(type) {
			case *ast.AssignStmt:
				for i, l := range x.Lhs {
					id, ok := l.(*ast.Ident)
					if !ok {
						continue
					}
					o := info.Defs[id]
					if o == nil {
						o = info.Uses[id]
					}
					if o == nil {
						continue
					}
					if len(x.Lhs) == len(x.Rhs) {
						defs[o] = append(defs[o], x.Rhs[i])
					} else {
						unknown[o] = true
					}
				}
			case *ast.ValueSpec:
				for i, id := range x.Names {
					if o := info.Defs[id]; o != nil && i < len(x.Values) {
						defs[o] = append(defs[o], x.Values[i])
					}
				}
			case *ast.RangeStmt:
				for _, e := range []ast.Expr{x.Key, x.Value} {
					if id, ok := e.(*ast.Ident); ok {
						if o := info.Defs[id]; o != nil {
							unknown[o] = true
						}
					}
				}
			}
			return true
		})
		var fresh func(o types.Object) bool
		seen := map[types.Object]bool{}
		fresh = func(o types.Object) bool {
			if o == nil || unknown[o] || len(defs[o]) == 0 || seen[o] {
				return false
			}
			seen[o] = true
			defer delete(seen, o)
			for _, d := range defs[o] {
				if !freshExpr(info, d, fresh) {
					return false
				}
			}
			return true
		}
		operandOwned := func(e ast.Expr) bool {
			// unsafe.SliceData(b) / unsafe.StringData(s) / &b[0] of a fresh b
			for {
				switch x := e.(type) {
				case *ast.ParenExpr:
					e = x.X
					continue
				case *ast.UnaryExpr:
					e = x.X
					continue
				case *ast.IndexExpr:
					e = x.X
					continue
				case *ast.CallExpr:
					if s, ok := x.Fun.(*ast.SelectorExpr); ok && len(x.Args) > 0 {
						if id, ok := s.X.(*ast.Ident); ok {
							if pn, ok := info.Uses[id].(*types.PkgName); ok && pn.Imported().Path() == "unsafe" {
								e = x.Args[0]
								continue
							}
						}
					}
				}
				break
			}
			return freshExpr(info, e, fresh)
		}
		ast.Inspect(fi.decl.Body, func(n ast.Node) bool {
			switch x := n.(type) {
			case *ast.CallExpr:
				s, ok := x.Fun.(*ast.SelectorExpr)
				if !ok {
					return true
				}
				id, ok := s.X.(*ast.Ident)
				if !ok {
					return true
				}
				pn, ok := info.Uses[id].(*types.PkgName)
				if !ok || pn.Imported().Path() != "unsafe" || len(x.Args) == 0 {
					return true
				}
				switch s.Sel.Name {
				case "String", "Slice", "StringData", "SliceData", "Add", "Pointer":
					rows = append(rows, fmt.Sprintf("  {| mv_fn := %q; mv_what := %q; mv_operand := %q; mv_owned := %v |}",
						fi.name, "unsafe."+s.Sel.Name, types.ExprString(x.Args[0]), operandOwned(x.Args[0])))
					return false // the nested unsafe.SliceData(..) belongs to this row
				}
			case *ast.SelectorExpr:
				if id, ok := x.X.(*ast.Ident); ok {
					if pn, ok := info.Uses[id].(*types.PkgName); ok && pn.Imported().Path() == "reflect" && (x.Sel.Name == "StringHeader" || x.Sel.Name == "SliceHeader") {
						rows = append(rows, fmt.Sprintf("  {| mv_fn := %q; mv_what := %q; mv_operand := %q; mv_owned := false |}", fi.name, "reflect."+x.Sel.Name, "header"))
					}
				}
			}
			return true
		})
	}
	sort.Strings(rows)
	return "(* strings / slices built as views of existing memory (unsafe, reflect headers) in the repository's packages,\n" +
		"   and whether the memory is a fresh allocation of the same function.  Model: Db/MemView.v *)\n" +
		"Definition view_table : list memview := [\n" + strings.Join(rows, ";\n") + "\n].\n"
}
