// tr_access <repo>: prints coq/theories/Gen/GenAccess.v - for every exported helper that the
// property C18 names (error classifiers, parsing, store symbol resolution and query entry points)
// the package-level variables of the repository it reads or writes, reached through the static
// call graph inside the repository's packages, and whether each access is synchronised.
//
// Rules (trusted; see design/C18.md):
//   - location = package-level variable of ast, boltz, zitiql, objectz (granularity: the variable)
//   - write    = assignment / inc-dec / range-assignment whose target is rooted at the variable (also
//     through field selection, indexing, dereference, and through a local alias `p := &v` / `p := v`
//     for pointer-typed v); `&v` used anywhere else than as the initialiser of a local alias
//     (typically an out-parameter: errors.As(err, &v), json.Unmarshal(b, &v)); a call of a
//     pointer-receiver method of a repository type that assigns to its receiver's fields
//   - read     = every other mention
//   - synchronised = the variable (or a field selected on the way) has a type from sync or
//     sync/atomic (Pool, Once, Mutex, atomic.Bool ...); the access happens inside a function passed to
//     (*sync.Once).Do, or anywhere below it in the call graph when reached only that way; the access
//     lies between X.Lock()/X.RLock() and the matching Unlock (or a deferred Unlock) of a mutex
//   - call graph: static callees; interface method calls resolve to every repository method of the
//     same name and arity; a function mentioned as a value counts as called; calls of function-typed
//     variables and anything outside the repository's packages are not followed
//   - var initialisers and init() are not helper invocations; a function literal inside the
//     initialiser of a package-level variable (the New function of a sync.Pool) counts as called by
//     whoever mentions the variable
//
// Shared mutable objects behind a variable (added for seeded/C18-1, C18-2):
//   - mutable reference type = pointer to a repository struct type that has a pointer-receiver method
//     assigning to its receiver's fields (directly or through another method called on the receiver);
//     an interface type counts when some repository type implementing it is such a type
//   - handed-out object (location "*pkg.v", unsynchronised write): a package-level variable whose
//     initialiser / declared type is a mutable reference type is mentioned as a value - returned, passed
//     as an argument, stored in a field, a composite literal or another variable - i.e. anywhere else than
//     as the base of a field selection / method call / index, an operand of == or !=, the operand of
//     range / len / cap or a dereference.  Every caller then holds the same object and the mutating
//     methods (SetLimit ...) are unsynchronised writes to it.  Not covered: maps, slices and pointers
//     to types without mutating methods (exported fields written by callers); objects reached through
//     a field of the variable
//   - shared receiver types = the receiver types of the root methods, except types of which a function
//     reachable from a root constructs a value by a composite literal (per-call objects such as the
//     cursor wrapper returned by IterateValidIds); on the pinned tree: the store, boltz.BaseStore.
//     Their fields are locations too ("boltz.BaseStore.field", one location per type, not per
//     instance): every field selection on a value of such a type, in any function reachable from the
//     helper, is a read, or a write when it is (the root of) an assignment target or the base of a
//     call of a mutating method (repository method assigning to its receiver; for types outside the
//     repository the method names Put Set Store Delete Clear Remove Add Append Swap CompareAndSwap
//     LoadOrStore LoadAndDelete).  Synchronised as above; types of
//     github.com/openziti/foundation/v2/concurrenz (CopyOnWriteMap, AtomicValue ...) count as
//     synchronised containers
//   - published value (location "<container location>[*]", unsynchronised write): a call of such a
//     mutating method on a synchronised container rooted at a package-level variable or a field of a
//     shared receiver type, with an argument whose static type is a mutable reference type: the
//     container is safe, the value stored in it is now reachable by every concurrent caller and is
//     mutable.  A cache written on a read path is therefore accepted only when what it stores is immutable
//     by this definition (no mutating methods).  Not covered: values that are mutated by assignments
//     from outside their own methods; caches hidden behind function-typed variables
//
// Shared objects registered once and used by every reader (added for seeded/C18-w2-2, C18-w2-3):
//   - roots also: the exported read methods (name Read* Open* Get* Is* Iterate* Eval* Find* Load*, first
//     parameter *bbolt.Tx) of the types in boltz/indexes.go, link_collection.go, link_collection_rc.go,
//     query_symbols.go, external_symbol.go and store_crud.go - indexes, link collections and symbols
//     are created at configuration time and then read by all read transactions
//   - call through a function-typed struct field (x.f(...)): resolves to every function literal (or local
//     variable holding one) that the repository stores in field f of that struct type, by composite
//     literal or assignment ("stored literal").  Calls of function-typed parameters and locals are still
//     not followed
//   - captured variable (location "<enclosing function>$<variable>"): a stored literal outlives the call
//     of the function that created it; the variables of that function which it mentions are then shared
//     by all its invocations.  Assignment / inc-dec rooted at such a variable (buf[0] = 1), copy into it,
//     &v handed on, a mutating method called on it, or handing it to a function outside the repository
//     whose name says it fills its argument (Put* Read* Encode* Decode* Append* Copy* Fill* Write*) is an
//     unsynchronised write, every other mention a read.  Not counted when the enclosing function is itself
//     reachable from the helper (then every invocation has created its own literal and variables)
//   - spare capacity of a shared slice (location "<field or variable>[spare capacity]", write): a call
//     append(S, ...) whose first argument S is (a slice expression of) a struct field, an element of a
//     field, a package-level variable, a captured variable, or a local variable initialised from one of
//     these, and whose result is not assigned back to S.  Whether append copies depends on cap(S), which
//     is decided elsewhere (for the path slices of indexes and symbols: by the depth of the store's base
//     path); when it does not copy it writes into the array every other reader of S sees.  A full slice
//     expression S[a:b:b] is accepted (forces the copy).  Not flagged: fields of types that only
//     functions reachable from the roots construct (per-call objects: cursors, scanners)
//
// The same file carries two more tables, lock_table and view_table (added for seeded/C18-w3-1, C18-w3-2):
// rules in locks.go.
package main

import (
	"fmt"
	"go/ast"
	"go/token"
	"go/types"
	"os"
	"path/filepath"
	"sort"
	"strings"

	"golang.org/x/tools/go/packages"
)

const modPath = "github.com/openziti/storage"

var pkgDirs = []string{"ast", "boltz", "zitiql", "objectz"}

type access struct {
	loc   string
	write bool
	sync  bool
	via   string
	encl  *funcInfo // set for captured-variable accesses of a stored literal: the function that created it
}

// fieldKey: a function-typed field of a repository struct type
type fieldKey struct {
	tn    *types.TypeName
	field string
}

type funcInfo struct {
	obj         *types.Func
	name        string
	file        string
	decl        *ast.FuncDecl
	pkg         *packages.Package
	accesses    []access
	callees     map[*types.Func]bool
	onceCallees map[*types.Func]bool
	ifaceCalls  map[string]int     // method name -> arity
	varInits    map[*funcInfo]bool // function literals in the initialiser of a mentioned package-level variable
	mutatesRecv bool
	recvCallees map[*types.Func]bool     // methods called on the function's own receiver
	constructs  map[*types.TypeName]bool // named types of the composite literals in the body
	fieldCalls  map[fieldKey]bool        // calls through function-typed struct fields
	encl        *funcInfo                // stored literal: the function whose body contains it
	lit         *ast.FuncLit             // stored literal: the literal itself
}

var (
	funcs    = map[*types.Func]*funcInfo{}
	byName   = map[string][]*funcInfo{} // method name -> repository methods
	repoPkgs = map[*types.Package]bool{}
	varInit  = map[*types.Var][]*funcInfo{} // e.g. the New function of a sync.Pool

	varInitType = map[*types.Var][]types.Type{}  // concrete type(s) of the initialiser of a package-level variable
	sharedTypes = map[*types.TypeName]bool{}     // receiver types of the root methods
	mutMethods  = map[*types.TypeName][]string{} // repository struct types -> their receiver-mutating methods
	repoNamed   []*types.TypeName                // repository named types that have methods

	litsByField = map[fieldKey][]*funcInfo{} // stored literals, by the field they are stored in
	perCallOnly = map[*types.TypeName]bool{} // struct types constructed only by functions reachable from the roots
	fillerNames = []string{"Put", "Read", "Encode", "Decode", "Append", "Copy", "Fill", "Write"}
)

var externalMutators = map[string]bool{"Put": true, "Set": true, "Store": true, "Delete": true, "Clear": true, "Remove": true,
	"Add": true, "Append": true, "Swap": true, "CompareAndSwap": true, "LoadOrStore": true, "LoadAndDelete": true}

func namedOf(t types.Type) *types.Named {
	for {
		if p, ok := t.(*types.Pointer); ok {
			t = p.Elem()
			continue
		}
		break
	}
	n, _ := t.(*types.Named)
	return n
}

// concreteTypes: the dynamic types an interface-typed initialiser can have: the expression's own type
// when it is not an interface; for a call of a repository function the types of the expressions it
// returns (one level); otherwise the interface type itself (then every implementer counts)
func concreteTypes(e ast.Expr, info *types.Info) []types.Type {
	tv, ok := info.Types[e]
	if !ok {
		return nil
	}
	if _, isIface := tv.Type.Underlying().(*types.Interface); !isIface {
		return []types.Type{tv.Type}
	}
	if call, ok := e.(*ast.CallExpr); ok {
		var fn *types.Func
		switch f := call.Fun.(type) {
		case *ast.Ident:
			fn, _ = info.Uses[f].(*types.Func)
		case *ast.SelectorExpr:
			fn, _ = info.Uses[f.Sel].(*types.Func)
		}
		if fn != nil {
			if fi := funcs[fn.Origin()]; fi != nil {
				var out []types.Type
				known := true
				ast.Inspect(fi.decl.Body, func(n ast.Node) bool {
					if _, isLit := n.(*ast.FuncLit); isLit {
						return false
					}
					if r, ok := n.(*ast.ReturnStmt); ok && len(r.Results) > 0 {
						rt, ok := fi.pkg.TypesInfo.Types[r.Results[0]]
						if !ok {
							known = false
						} else if _, isIface := rt.Type.Underlying().(*types.Interface); isIface {
							known = false
						} else {
							out = append(out, rt.Type)
						}
					}
					return true
				})
				if known && len(out) > 0 {
					return out
				}
			}
		}
	}
	return []types.Type{tv.Type}
}

// mutableRef: t is a mutable reference type (see the rules above); returns a witness method
func mutableRef(t types.Type) (string, bool) {
	if t == nil {
		return "", false
	}
	if p, ok := t.(*types.Pointer); ok {
		if n, ok := p.Elem().(*types.Named); ok {
			if ms := mutMethods[n.Origin().Obj()]; len(ms) > 0 {
				return ms[0], true
			}
		}
		return "", false
	}
	if iface, ok := t.Underlying().(*types.Interface); ok {
		best := ""
		for _, tn := range repoNamed {
			ms := mutMethods[tn]
			if len(ms) == 0 {
				continue
			}
			n, ok := tn.Type().(*types.Named)
			if !ok || n.TypeParams().Len() > 0 {
				continue
			}
			if types.Implements(types.NewPointer(n), iface) && iface.NumMethods() > 0 {
				if best == "" || ms[0] < best {
					best = ms[0]
				}
			}
		}
		if best != "" {
			return best, true
		}
	}
	return "", false
}

func isRepoVar(o types.Object) *types.Var {
	v, ok := o.(*types.Var)
	if !ok || v.Pkg() == nil || !repoPkgs[v.Pkg()] || v.IsField() {
		return nil
	}
	if v.Parent() != v.Pkg().Scope() {
		return nil
	}
	if v.Name() == "_" {
		return nil
	}
	return v
}

func locName(v *types.Var) string { return v.Pkg().Name() + "." + v.Name() }

func isSyncType(t types.Type) bool {
	for {
		if p, ok := t.(*types.Pointer); ok {
			t = p.Elem()
			continue
		}
		break
	}
	n, ok := t.(*types.Named)
	if !ok || n.Obj().Pkg() == nil {
		return false
	}
	p := n.Obj().Pkg().Path()
	return p == "sync" || p == "sync/atomic" || p == "github.com/openziti/foundation/v2/concurrenz"
}

func funcName(f *types.Func) string {
	sig := f.Type().(*types.Signature)
	if r := sig.Recv(); r != nil {
		t := r.Type()
		if p, ok := t.(*types.Pointer); ok {
			t = p.Elem()
		}
		if n, ok := t.(*types.Named); ok {
			return f.Pkg().Name() + "." + n.Obj().Name() + "." + f.Name()
		}
	}
	return f.Pkg().Name() + "." + f.Name()
}

type walker struct {
	fi      *funcInfo
	info    *types.Info
	aliases map[types.Object]*types.Var
	writes  map[*ast.Ident]bool // root identifiers of write targets
	addrOK  map[*ast.UnaryExpr]bool
	locks   []token.Pos
	unlocks []token.Pos
	deferUn bool
	onceLit map[*ast.FuncLit]bool
	parents map[ast.Node]ast.Node
	recv    types.Object
	fieldW  map[*ast.SelectorExpr]bool // field selections on a shared receiver type that are assignment targets
}

// sharedField: x selects a field of a value whose type is a shared receiver type
func (w *walker) sharedField(x *ast.SelectorExpr) (string, bool) {
	sel, ok := w.info.Selections[x]
	if !ok || sel.Kind() != types.FieldVal {
		return "", false
	}
	n := namedOf(sel.Recv())
	if n == nil || !sharedTypes[n.Origin().Obj()] {
		return "", false
	}
	return n.Obj().Pkg().Name() + "." + n.Obj().Name() + "." + x.Sel.Name, true
}

// innermostSharedField walks an lvalue / call base chain down to the first field selection on a shared type
func (w *walker) innermostSharedField(e ast.Expr) *ast.SelectorExpr {
	var found *ast.SelectorExpr
	for {
		switch x := e.(type) {
		case *ast.ParenExpr:
			e = x.X
		case *ast.StarExpr:
			e = x.X
		case *ast.IndexExpr:
			e = x.X
		case *ast.SliceExpr:
			e = x.X
		case *ast.TypeAssertExpr:
			e = x.X
		case *ast.SelectorExpr:
			if _, ok := w.sharedField(x); ok {
				found = x
			}
			e = x.X
		default:
			return found
		}
	}
}

// escapes: the mention n of a package-level variable hands the variable's value on
func (w *walker) escapes(n ast.Node) bool {
	switch p := w.parents[n].(type) {
	case *ast.ParenExpr:
		return w.escapes(p)
	case *ast.SelectorExpr:
		return false
	case *ast.IndexExpr:
		return p.X != n
	case *ast.SliceExpr:
		return p.X != n
	case *ast.StarExpr:
		return false
	case *ast.UnaryExpr:
		return p.Op != token.AND // &v has its own rule
	case *ast.BinaryExpr:
		return !(p.Op == token.EQL || p.Op == token.NEQ)
	case *ast.RangeStmt:
		return p.X != n
	case *ast.IncDecStmt:
		return false
	case *ast.AssignStmt:
		for _, l := range p.Lhs {
			if l == n {
				return false
			}
		}
		return true
	case *ast.CallExpr:
		if p.Fun == n {
			return false
		}
		if id, ok := p.Fun.(*ast.Ident); ok {
			if _, isBuiltin := w.info.Uses[id].(*types.Builtin); isBuiltin && (id.Name == "len" || id.Name == "cap") {
				return false
			}
		}
		return true
	case *ast.ExprStmt:
		return false
	}
	return true
}

// rootIdent returns the identifier an lvalue / selector chain is rooted at, and whether a field of a
// sync type is selected on the way
func (w *walker) rootIdent(e ast.Expr) (*ast.Ident, bool) {
	syncOnWay := false
	for {
		switch x := e.(type) {
		case *ast.Ident:
			return x, syncOnWay
		case *ast.ParenExpr:
			e = x.X
		case *ast.StarExpr:
			e = x.X
		case *ast.IndexExpr:
			e = x.X
		case *ast.SliceExpr:
			e = x.X
		case *ast.SelectorExpr:
			if id, ok := x.X.(*ast.Ident); ok {
				if _, isPkg := w.info.Uses[id].(*types.PkgName); isPkg {
					return x.Sel, syncOnWay
				}
			}
			if tv, ok := w.info.Types[x]; ok && isSyncType(tv.Type) {
				syncOnWay = true
			}
			e = x.X
		case *ast.UnaryExpr:
			if x.Op == token.AND {
				e = x.X
				continue
			}
			return nil, false
		case *ast.TypeAssertExpr:
			e = x.X
		default:
			return nil, false
		}
	}
}

func (w *walker) varOf(id *ast.Ident) *types.Var {
	o := w.info.Uses[id]
	if o == nil {
		o = w.info.Defs[id]
	}
	if o == nil {
		return nil
	}
	if v := isRepoVar(o); v != nil {
		return v
	}
	if v, ok := w.aliases[o]; ok {
		return v
	}
	return nil
}

func (w *walker) guarded(p token.Pos) bool {
	for _, l := range w.locks {
		if l >= p {
			continue
		}
		if w.deferUn {
			return true
		}
		for _, u := range w.unlocks {
			if u > p {
				return true
			}
		}
	}
	return false
}

func (w *walker) markWrite(e ast.Expr) {
	if id, _ := w.rootIdent(e); id != nil {
		w.writes[id] = true
	}
	if _, plain := e.(*ast.Ident); !plain {
		if sf := w.innermostSharedField(e); sf != nil {
			w.fieldW[sf] = true
		}
	}
}

func analyse(fi *funcInfo) {
	body := fi.decl.Body
	info := fi.pkg.TypesInfo
	w := &walker{fi: fi, info: info, aliases: map[types.Object]*types.Var{}, writes: map[*ast.Ident]bool{},
		addrOK: map[*ast.UnaryExpr]bool{}, onceLit: map[*ast.FuncLit]bool{}, parents: map[ast.Node]ast.Node{},
		fieldW: map[*ast.SelectorExpr]bool{}}
	{
		var stack []ast.Node
		ast.Inspect(body, func(n ast.Node) bool {
			if n == nil {
				stack = stack[:len(stack)-1]
				return true
			}
			if len(stack) > 0 {
				w.parents[n] = stack[len(stack)-1]
			}
			stack = append(stack, n)
			return true
		})
	}

	// receiver mutation
	if fi.decl.Recv != nil && len(fi.decl.Recv.List) == 1 && len(fi.decl.Recv.List[0].Names) == 1 {
		recv := info.Defs[fi.decl.Recv.List[0].Names[0]]
		w.recv = recv
		if recv != nil {
			if _, isPtr := recv.Type().(*types.Pointer); isPtr {
				ast.Inspect(body, func(n ast.Node) bool {
					if as, ok := n.(*ast.AssignStmt); ok {
						for _, l := range as.Lhs {
							if _, isIdent := l.(*ast.Ident); isIdent {
								continue
							}
							if id, _ := w.rootIdent(l); id != nil && info.Uses[id] == recv {
								fi.mutatesRecv = true
							}
						}
					}
					if ids, ok := n.(*ast.IncDecStmt); ok {
						if _, isIdent := ids.X.(*ast.Ident); !isIdent {
							if id, _ := w.rootIdent(ids.X); id != nil && info.Uses[id] == recv {
								fi.mutatesRecv = true
							}
						}
					}
					return true
				})
			}
		}
	}

	// pass 1: aliases, write targets, lock regions, once literals
	ast.Inspect(body, func(n ast.Node) bool {
		switch x := n.(type) {
		case *ast.CompositeLit:
			if tv, ok := info.Types[x]; ok {
				if nt := namedOf(tv.Type); nt != nil {
					if fi.constructs == nil {
						fi.constructs = map[*types.TypeName]bool{}
					}
					fi.constructs[nt.Origin().Obj()] = true
				}
			}
		case *ast.AssignStmt:
			for i, l := range x.Lhs {
				// local alias:  p := &v   /   p := v (pointer typed)   /  p = &v
				if lid, ok := l.(*ast.Ident); ok && len(x.Rhs) == len(x.Lhs) {
					lobj := info.Defs[lid]
					if lobj == nil {
						lobj = info.Uses[lid]
					}
					if lobj != nil && isRepoVar(lobj) == nil {
						r := x.Rhs[i]
						if u, ok := r.(*ast.UnaryExpr); ok && u.Op == token.AND {
							if rid, _ := w.rootIdent(u.X); rid != nil {
								if v := w.varOf(rid); v != nil {
									w.aliases[lobj] = v
									w.addrOK[u] = true
								}
							}
						} else if rid, ok := r.(*ast.Ident); ok {
							if v := w.varOf(rid); v != nil {
								if _, isPtr := v.Type().Underlying().(*types.Pointer); isPtr {
									w.aliases[lobj] = v
								}
							}
						}
						continue
					}
				}
				w.markWrite(l)
			}
		case *ast.IncDecStmt:
			w.markWrite(x.X)
		case *ast.RangeStmt:
			if x.Tok == token.ASSIGN {
				if x.Key != nil {
					w.markWrite(x.Key)
				}
				if x.Value != nil {
					w.markWrite(x.Value)
				}
			}
		case *ast.DeferStmt:
			if sel, ok := x.Call.Fun.(*ast.SelectorExpr); ok && (sel.Sel.Name == "Unlock" || sel.Sel.Name == "RUnlock") {
				if tv, ok := info.Types[sel.X]; ok && isSyncType(tv.Type) {
					w.deferUn = true
				}
			}
		case *ast.CallExpr:
			if sel, ok := x.Fun.(*ast.SelectorExpr); ok {
				if tv, ok := info.Types[sel.X]; ok && isSyncType(tv.Type) {
					switch sel.Sel.Name {
					case "Lock", "RLock":
						w.locks = append(w.locks, x.Pos())
					case "Unlock", "RUnlock":
						w.unlocks = append(w.unlocks, x.Pos())
					case "Do":
						for _, a := range x.Args {
							switch f := a.(type) {
							case *ast.FuncLit:
								w.onceLit[f] = true
							case *ast.Ident:
								if fn, ok := info.Uses[f].(*types.Func); ok {
									fi.onceCallees[fn.Origin()] = true
								}
							case *ast.SelectorExpr:
								if fn, ok := info.Uses[f.Sel].(*types.Func); ok {
									fi.onceCallees[fn.Origin()] = true
								}
							}
						}
					}
				}
			}
		}
		return true
	})

	// stored literal: the variables of the enclosing function it mentions
	captured := func(id *ast.Ident) types.Object {
		if fi.encl == nil || id == nil {
			return nil
		}
		v, ok := info.Uses[id].(*types.Var)
		if !ok || v.IsField() || v.Pkg() == nil || v.Parent() == v.Pkg().Scope() {
			return nil
		}
		if v.Pos() < fi.encl.decl.Pos() || v.Pos() >= fi.encl.decl.End() {
			return nil
		}
		if v.Pos() >= fi.lit.Pos() && v.Pos() < fi.lit.End() {
			return nil
		}
		return v
	}
	capLoc := func(o types.Object) string { return fi.encl.name + "$" + o.Name() }
	capWrites := map[*ast.Ident]string{} // identifier of a captured variable -> how it is written
	if fi.encl != nil {
		mark := func(e ast.Expr, how string) {
			if id, _ := w.rootIdent(e); id != nil && captured(id) != nil {
				capWrites[id] = how
			}
		}
		ast.Inspect(body, func(n ast.Node) bool {
			switch x := n.(type) {
			case *ast.AssignStmt:
				for _, l := range x.Lhs {
					mark(l, "assigns to")
				}
			case *ast.IncDecStmt:
				mark(x.X, "assigns to")
			case *ast.RangeStmt:
				if x.Tok == token.ASSIGN {
					if x.Key != nil {
						mark(x.Key, "assigns to")
					}
					if x.Value != nil {
						mark(x.Value, "assigns to")
					}
				}
			case *ast.UnaryExpr:
				if x.Op == token.AND {
					mark(x.X, "hands on the address of")
				}
			case *ast.CallExpr:
				switch f := x.Fun.(type) {
				case *ast.Ident:
					if _, isBuiltin := info.Uses[f].(*types.Builtin); isBuiltin && f.Name == "copy" && len(x.Args) > 0 {
						mark(x.Args[0], "copies into")
					}
				case *ast.SelectorExpr:
					var fn *types.Func
					if sel, ok := info.Selections[f]; ok {
						fn, _ = sel.Obj().(*types.Func)
						if fn != nil && sel.Kind() == types.MethodVal {
							mutates := false
							if cf := funcs[fn.Origin()]; cf != nil {
								mutates = cf.mutatesRecv
							} else if fn.Pkg() != nil && !repoPkgs[fn.Pkg()] {
								mutates = externalMutators[fn.Name()] || isFiller(fn.Name()) || fn.Name() == "Reset" || fn.Name() == "Truncate" || fn.Name() == "Grow"
							}
							if tv, ok := info.Types[f.X]; ok && isSyncType(tv.Type) {
								mutates = false
							}
							if mutates {
								mark(f.X, "calls the mutating method "+fn.Name()+" on")
							}
						}
					} else {
						fn, _ = info.Uses[f.Sel].(*types.Func)
					}
					// a function outside the repository that fills the slice / buffer it is given
					if fn != nil && fn.Pkg() != nil && !repoPkgs[fn.Pkg()] && isFiller(fn.Name()) {
						for _, a := range x.Args {
							if tv, ok := info.Types[a]; ok {
								switch tv.Type.Underlying().(type) {
								case *types.Slice, *types.Pointer, *types.Map:
									mark(a, "lets "+fn.Name()+" fill")
								}
							}
						}
					}
				}
			}
			return true
		})
	}
	// local variables initialised from a shared slice:  p := x.f   /   p := pkgVar
	sliceAlias := map[types.Object]ast.Expr{}
	ast.Inspect(body, func(n ast.Node) bool {
		if as, ok := n.(*ast.AssignStmt); ok && as.Tok == token.DEFINE && len(as.Lhs) == len(as.Rhs) {
			for i, l := range as.Lhs {
				if lid, ok := l.(*ast.Ident); ok {
					if tv, ok := info.Types[as.Rhs[i]]; ok {
						if _, isSlice := tv.Type.Underlying().(*types.Slice); isSlice {
							if o := info.Defs[lid]; o != nil {
								sliceAlias[o] = as.Rhs[i]
							}
						}
					}
				}
			}
		}
		return true
	})
	// reassigned aliases are no aliases
	ast.Inspect(body, func(n ast.Node) bool {
		if as, ok := n.(*ast.AssignStmt); ok && as.Tok != token.DEFINE {
			for _, l := range as.Lhs {
				if lid, ok := l.(*ast.Ident); ok {
					delete(sliceAlias, info.Uses[lid])
				}
			}
		}
		return true
	})
	// sharedSlice: the location behind the first argument of an append, "" when it is not a shared slice
	var sharedSlice func(e ast.Expr, depth int) string
	sharedSlice = func(e ast.Expr, depth int) string {
		for {
			switch x := e.(type) {
			case *ast.ParenExpr:
				e = x.X
				continue
			case *ast.SliceExpr:
				if x.Slice3 && x.Max != nil && x.High != nil && types.ExprString(x.Max) == types.ExprString(x.High) {
					return "" // S[a:b:b]: append must copy
				}
				e = x.X
				continue
			case *ast.IndexExpr:
				e = x.X
				continue
			}
			break
		}
		switch x := e.(type) {
		case *ast.SelectorExpr:
			if sel, ok := info.Selections[x]; ok && sel.Kind() == types.FieldVal {
				n := namedOf(sel.Recv())
				if n == nil || n.Obj().Pkg() == nil || !repoPkgs[n.Obj().Pkg()] {
					return ""
				}
				if perCallOnly[n.Origin().Obj()] {
					return ""
				}
				return n.Obj().Pkg().Name() + "." + n.Obj().Name() + "." + x.Sel.Name
			}
			if v := isRepoVar(info.Uses[x.Sel]); v != nil {
				return locName(v)
			}
		case *ast.Ident:
			o := info.Uses[x]
			if v := isRepoVar(o); v != nil {
				return locName(v)
			}
			if c := captured(x); c != nil {
				return capLoc(c)
			}
			if init, ok := sliceAlias[o]; ok && depth < 3 {
				return sharedSlice(init, depth+1)
			}
		}
		return ""
	}
	stripSlices := func(e ast.Expr) ast.Expr {
		for {
			switch x := e.(type) {
			case *ast.ParenExpr:
				e = x.X
			case *ast.SliceExpr:
				e = x.X
			default:
				return e
			}
		}
	}

	// pass 2: accesses and call edges
	var inOnce []*ast.FuncLit
	var visit func(n ast.Node) bool
	record := func(id *ast.Ident, write, syncOnWay bool) {
		v := w.varOf(id)
		if v == nil {
			return
		}
		s := syncOnWay || isSyncType(v.Type()) || w.guarded(id.Pos()) || len(inOnce) > 0
		for _, lit := range varInit[v] {
			fi.varInits[lit] = true
		}
		fi.accesses = append(fi.accesses, access{loc: locName(v), write: write, sync: s, via: fi.name})
	}
	recordLoc := func(loc string, pos token.Pos, write, s bool, via string) {
		fi.accesses = append(fi.accesses, access{loc: loc, write: write, sync: s || w.guarded(pos) || len(inOnce) > 0, via: via})
	}
	// handed-out object: the mention n of variable v passes the (mutable) object on
	handOut := func(n ast.Node, id *ast.Ident) {
		obj := w.info.Uses[id]
		v := isRepoVar(obj)
		if v == nil || !w.escapes(n) {
			return
		}
		ts := []types.Type{v.Type()}
		if _, isIface := v.Type().Underlying().(*types.Interface); isIface && len(varInitType[v]) > 0 {
			ts = varInitType[v]
		}
		for _, t := range ts {
			if m, ok := mutableRef(t); ok {
				fi.accesses = append(fi.accesses, access{loc: "*" + locName(v), write: true, sync: false, via: fi.name + " hands out the object; mutable through " + m})
				break
			}
		}
	}
	// call of a mutating method on a container: base is the expression the method is selected on
	mutatorCall := func(x *ast.CallExpr, f *ast.SelectorExpr, fn *types.Func) {
		mutates := false
		if cf := funcs[fn.Origin()]; cf != nil {
			mutates = cf.mutatesRecv
		} else if fn.Pkg() != nil && !repoPkgs[fn.Pkg()] {
			mutates = externalMutators[fn.Name()]
		}
		if !mutates {
			return
		}
		loc, s := "", false
		if sf := w.innermostSharedField(f.X); sf != nil {
			loc, _ = w.sharedField(sf)
			if tv, ok := info.Types[sf]; ok && isSyncType(tv.Type) {
				s = true
			}
			if tv, ok := info.Types[f.X]; ok && isSyncType(tv.Type) {
				s = true
			}
			recordLoc(loc, x.Pos(), true, s, fi.name)
			w.fieldW[sf] = true
		} else if id, sy := w.rootIdent(f.X); id != nil && w.varOf(id) != nil {
			v := w.varOf(id)
			loc, s = locName(v), sy || isSyncType(v.Type())
			if funcs[fn.Origin()] == nil { // repository methods are recorded by the older rule below
				record(id, true, sy)
				w.writes[id] = true
			}
		} else {
			return
		}
		if !s && !w.guarded(x.Pos()) && len(inOnce) == 0 {
			return // the container write itself is already an unsynchronised write
		}
		for _, a := range x.Args {
			if tv, ok := info.Types[a]; ok {
				if m, ok := mutableRef(tv.Type); ok {
					fi.accesses = append(fi.accesses, access{loc: loc + "[*]", write: true, sync: false,
						via: fi.name + " publishes a value mutable through " + m})
					break
				}
			}
		}
	}
	visit = func(n ast.Node) bool {
		switch x := n.(type) {
		case *ast.FuncLit:
			if w.onceLit[x] {
				inOnce = append(inOnce, x)
				ast.Inspect(x.Body, visit)
				inOnce = inOnce[:len(inOnce)-1]
				return false
			}
		case *ast.UnaryExpr:
			if x.Op == token.AND && !w.addrOK[x] {
				if id, s := w.rootIdent(x.X); id != nil && w.varOf(id) != nil {
					record(id, true, s) // address escapes: treated as a write through the pointer
					w.writes[id] = true
				}
			}
		case *ast.CallExpr:
			switch f := x.Fun.(type) {
			case *ast.Ident:
				if fn, ok := info.Uses[f].(*types.Func); ok {
					fi.callees[fn.Origin()] = true
				}
				// append on a shared slice whose result does not go back to the slice itself
				if _, isBuiltin := info.Uses[f].(*types.Builtin); isBuiltin && f.Name == "append" && len(x.Args) >= 2 {
					if loc := sharedSlice(x.Args[0], 0); loc != "" {
						self := false
						if as, ok := w.parents[x].(*ast.AssignStmt); ok && len(as.Lhs) == len(as.Rhs) {
							for i, r := range as.Rhs {
								if r == x && types.ExprString(stripSlices(as.Lhs[i])) == types.ExprString(stripSlices(x.Args[0])) {
									self = true
								}
							}
						}
						if !self {
							recordLoc(loc+"[spare capacity]", x.Pos(), true, false,
								fi.name+" appends to the shared slice "+types.ExprString(x.Args[0])+" without copying it")
						}
					}
				}
			case *ast.SelectorExpr:
				if sel, ok := info.Selections[f]; ok {
					if sel.Kind() == types.FieldVal {
						// call through a function-typed field: the literals stored in that field
						if n := namedOf(sel.Recv()); n != nil {
							fi.fieldCalls[fieldKey{n.Origin().Obj(), f.Sel.Name}] = true
						}
					}
					if fn, ok := sel.Obj().(*types.Func); ok {
						if types.IsInterface(sel.Recv()) {
							fi.ifaceCalls[fn.Name()] = fn.Type().(*types.Signature).Params().Len()
						} else {
							fi.callees[fn.Origin()] = true
							if rid, ok := f.X.(*ast.Ident); ok && w.recv != nil && info.Uses[rid] == w.recv {
								fi.recvCallees[fn.Origin()] = true
							}
							mutatorCall(x, f, fn)
							// pointer-receiver method of a repository type called on a package-level variable
							if id, s := w.rootIdent(f.X); id != nil && w.varOf(id) != nil {
								if cf := funcs[fn.Origin()]; cf != nil && cf.mutatesRecv {
									record(id, true, s)
									w.writes[id] = true
								}
							}
						}
					}
				} else if fn, ok := info.Uses[f.Sel].(*types.Func); ok {
					fi.callees[fn.Origin()] = true
				}
			}
		case *ast.SelectorExpr:
			// field of a shared receiver type (the store)
			if loc, ok := w.sharedField(x); ok {
				s := false
				if tv, ok := info.Types[x]; ok && isSyncType(tv.Type) {
					s = true
				}
				recordLoc(loc, x.Pos(), w.fieldW[x], s, fi.name)
			}
			// qualified identifier or field chain: handled at the root identifier, but remember sync fields
			if id, s := w.rootIdent(x); id != nil && w.varOf(id) != nil {
				if x.Sel == id {
					handOut(x, id) // pkg.V mentioned as a value
				}
				if !w.writes[id] {
					record(id, false, s)
				} else {
					record(id, true, s)
				}
				// do not descend: the root identifier has been handled with the full chain
				// (but index expressions inside the chain still need a visit)
				ast.Inspect(x.X, func(m ast.Node) bool {
					if ie, ok := m.(*ast.IndexExpr); ok {
						ast.Inspect(ie.Index, visit)
					}
					return true
				})
				return false
			}
		case *ast.Ident:
			if fn, ok := info.Uses[x].(*types.Func); ok && repoPkgs[fn.Pkg()] {
				fi.callees[fn.Origin()] = true // mentioned as a value (or called: same edge)
			}
			if w.varOf(x) != nil {
				record(x, w.writes[x], false)
				handOut(x, x)
			}
			if c := captured(x); c != nil {
				how, wr := capWrites[x]
				s := isSyncType(c.Type()) || w.guarded(x.Pos()) || len(inOnce) > 0
				via := fi.name
				if wr {
					via = fi.name + " " + how + " " + c.Name() + ", a variable of the function that created the literal"
				}
				fi.accesses = append(fi.accesses, access{loc: capLoc(c), write: wr, sync: s, via: via, encl: fi.encl})
			}
		}
		return true
	}
	ast.Inspect(body, visit)
}

func isFiller(name string) bool {
	for _, p := range fillerNames {
		if strings.HasPrefix(name, p) {
			return true
		}
	}
	return false
}

// collectStoredLiterals: the function literals of fi's body that end up in a function-typed field of a
// repository struct (composite literal element or assignment; directly or through a local variable)
func collectStoredLiterals(fi *funcInfo) []*funcInfo {
	info := fi.pkg.TypesInfo
	body := fi.decl.Body
	localLits := map[types.Object][]*ast.FuncLit{}
	ast.Inspect(body, func(n ast.Node) bool {
		switch x := n.(type) {
		case *ast.AssignStmt:
			if len(x.Lhs) == len(x.Rhs) {
				for i, l := range x.Lhs {
					lit, ok := x.Rhs[i].(*ast.FuncLit)
					lid, ok2 := l.(*ast.Ident)
					if ok && ok2 {
						o := info.Defs[lid]
						if o == nil {
							o = info.Uses[lid]
						}
						if o != nil {
							localLits[o] = append(localLits[o], lit)
						}
					}
				}
			}
		case *ast.ValueSpec:
			for i, nm := range x.Names {
				if i < len(x.Values) {
					if lit, ok := x.Values[i].(*ast.FuncLit); ok {
						if o := info.Defs[nm]; o != nil {
							localLits[o] = append(localLits[o], lit)
						}
					}
				}
			}
		}
		return true
	})
	byLit := map[*ast.FuncLit]*funcInfo{}
	var out []*funcInfo
	store := func(tn *types.TypeName, field string, v ast.Expr) {
		if tn == nil || tn.Pkg() == nil || !repoPkgs[tn.Pkg()] {
			return
		}
		var lits []*ast.FuncLit
		switch e := v.(type) {
		case *ast.FuncLit:
			lits = []*ast.FuncLit{e}
		case *ast.Ident:
			lits = localLits[info.Uses[e]]
		}
		for _, lit := range lits {
			p := byLit[lit]
			if p == nil {
				p = &funcInfo{name: fmt.Sprintf("%s$lit%d", fi.name, len(byLit)+1), file: fi.file, pkg: fi.pkg, encl: fi, lit: lit,
					decl:    &ast.FuncDecl{Name: ast.NewIdent("lit"), Type: lit.Type, Body: lit.Body},
					callees: map[*types.Func]bool{}, onceCallees: map[*types.Func]bool{}, ifaceCalls: map[string]int{}, varInits: map[*funcInfo]bool{},
					recvCallees: map[*types.Func]bool{}, fieldCalls: map[fieldKey]bool{}}
				byLit[lit] = p
				out = append(out, p)
			}
			k := fieldKey{tn, field}
			dup := false
			for _, q := range litsByField[k] {
				if q == p {
					dup = true
				}
			}
			if !dup {
				litsByField[k] = append(litsByField[k], p)
			}
		}
	}
	ast.Inspect(body, func(n ast.Node) bool {
		switch x := n.(type) {
		case *ast.CompositeLit:
			tv, ok := info.Types[x]
			if !ok {
				return true
			}
			nt := namedOf(tv.Type)
			if nt == nil {
				return true
			}
			st, ok := nt.Underlying().(*types.Struct)
			if !ok {
				return true
			}
			for i, el := range x.Elts {
				if kv, ok := el.(*ast.KeyValueExpr); ok {
					if k, ok := kv.Key.(*ast.Ident); ok {
						store(nt.Origin().Obj(), k.Name, kv.Value)
					}
				} else if i < st.NumFields() {
					store(nt.Origin().Obj(), st.Field(i).Name(), el)
				}
			}
		case *ast.AssignStmt:
			if len(x.Lhs) == len(x.Rhs) {
				for i, l := range x.Lhs {
					if se, ok := l.(*ast.SelectorExpr); ok {
						if sel, ok := info.Selections[se]; ok && sel.Kind() == types.FieldVal {
							if nt := namedOf(sel.Recv()); nt != nil {
								store(nt.Origin().Obj(), se.Sel.Name, x.Rhs[i])
							}
						}
					}
				}
			}
		}
		return true
	})
	return out
}

func main() {
	if len(os.Args) < 2 {
		fmt.Fprintln(os.Stderr, "usage: tr_access <repo>")
		os.Exit(2)
	}
	repo := os.Args[1]
	cfg := &packages.Config{
		Mode: packages.NeedName | packages.NeedFiles | packages.NeedSyntax | packages.NeedTypes | packages.NeedTypesInfo | packages.NeedImports | packages.NeedDeps,
		Dir:  repo,
		Env:  append(os.Environ(), "GOFLAGS=-mod=mod", "GOPROXY=off", "GOSUMDB=off", "GOTOOLCHAIN=local"),
	}
	var patterns []string
	for _, d := range pkgDirs {
		patterns = append(patterns, "./"+d)
	}
	pkgs, err := packages.Load(cfg, patterns...)
	if err != nil {
		fmt.Fprintln(os.Stderr, "load:", err)
		os.Exit(1)
	}
	for _, p := range pkgs {
		if len(p.Errors) > 0 {
			fmt.Fprintln(os.Stderr, "package errors:", p.PkgPath, p.Errors)
			os.Exit(1)
		}
		repoPkgs[p.Types] = true
	}
	sort.Slice(pkgs, func(i, j int) bool { return pkgs[i].PkgPath < pkgs[j].PkgPath })

	// collect functions
	for _, p := range pkgs {
		for _, f := range p.Syntax {
			fname := filepath.Base(p.Fset.Position(f.Pos()).Filename)
			if strings.HasSuffix(fname, "_test.go") {
				continue
			}
			for _, d := range f.Decls {
				fd, ok := d.(*ast.FuncDecl)
				if !ok || fd.Body == nil {
					continue
				}
				obj, ok := p.TypesInfo.Defs[fd.Name].(*types.Func)
				if !ok {
					continue
				}
				fi := &funcInfo{obj: obj, name: funcName(obj), file: fname, decl: fd, pkg: p,
					callees: map[*types.Func]bool{}, onceCallees: map[*types.Func]bool{}, ifaceCalls: map[string]int{}, varInits: map[*funcInfo]bool{},
					recvCallees: map[*types.Func]bool{}, fieldCalls: map[fieldKey]bool{}}
				funcs[obj] = fi
				if fd.Recv != nil {
					byName[obj.Name()] = append(byName[obj.Name()], fi)
				}
			}
		}
	}
	// function literals in package-level variable initialisers
	var pseudo []*funcInfo
	for _, p := range pkgs {
		for _, f := range p.Syntax {
			fname := filepath.Base(p.Fset.Position(f.Pos()).Filename)
			if strings.HasSuffix(fname, "_test.go") {
				continue
			}
			for _, d := range f.Decls {
				gd, ok := d.(*ast.GenDecl)
				if !ok || gd.Tok != token.VAR {
					continue
				}
				for _, spec := range gd.Specs {
					vs := spec.(*ast.ValueSpec)
					for i, nm := range vs.Names {
						v := isRepoVar(p.TypesInfo.Defs[nm])
						if v == nil || i >= len(vs.Values) {
							continue
						}
						varInitType[v] = concreteTypes(vs.Values[i], p.TypesInfo)
						k := 0
						ast.Inspect(vs.Values[i], func(n ast.Node) bool {
							if lit, ok := n.(*ast.FuncLit); ok {
								k++
								fi := &funcInfo{name: fmt.Sprintf("%s$init%d", locName(v), k), file: fname, pkg: p,
									decl:    &ast.FuncDecl{Name: ast.NewIdent("init"), Type: lit.Type, Body: lit.Body},
									callees: map[*types.Func]bool{}, onceCallees: map[*types.Func]bool{}, ifaceCalls: map[string]int{}, varInits: map[*funcInfo]bool{},
									recvCallees: map[*types.Func]bool{}, fieldCalls: map[fieldKey]bool{}}
								varInit[v] = append(varInit[v], fi)
								pseudo = append(pseudo, fi)
								return false
							}
							return true
						})
					}
				}
			}
		}
	}
	// receiver mutation must be known before call sites are analysed: two rounds
	var order []*funcInfo
	for _, fi := range funcs {
		order = append(order, fi)
	}
	order = append(order, pseudo...)
	sort.Slice(order, func(i, j int) bool { return order[i].name < order[j].name })
	// function literals stored in function-typed struct fields
	{
		var stored []*funcInfo
		for _, fi := range order {
			if fi.obj != nil {
				stored = append(stored, collectStoredLiterals(fi)...)
			}
		}
		order = append(order, stored...)
		sort.SliceStable(order, func(i, j int) bool { return order[i].name < order[j].name })
	}
	// the receiver types of the root methods are the shared objects (the store)
	for _, fi := range order {
		if isRoot(fi) {
			if r := fi.obj.Type().(*types.Signature).Recv(); r != nil {
				if n := namedOf(r.Type()); n != nil {
					sharedTypes[n.Origin().Obj()] = true
				}
			}
		}
	}
	for _, fi := range order {
		analyse(fi)
	}
	// ... unless a function reachable from a root constructs values of the type (a per-call object such
	// as the cursor returned by IterateValidIds): then the first round is repeated without it
	perCall := false
	for _, r := range order {
		if !isRoot(r) {
			continue
		}
		for fi := range reachable(r) {
			for tn := range fi.constructs {
				if sharedTypes[tn] {
					delete(sharedTypes, tn)
					perCall = true
				}
			}
		}
	}
	if perCall {
		for _, fi := range order {
			resetFunc(fi)
			analyse(fi)
		}
	}
	// struct types that only functions reachable from the roots construct: per-call objects
	{
		reach := map[*funcInfo]bool{}
		for _, r := range order {
			if isRoot(r) {
				for fi := range reachable(r) {
					reach[fi] = true
				}
			}
		}
		inside, outside := map[*types.TypeName]bool{}, map[*types.TypeName]bool{}
		for _, fi := range order {
			if fi.encl != nil {
				continue // the body of a stored literal is also part of its enclosing function
			}
			for tn := range fi.constructs {
				if reach[fi] {
					inside[tn] = true
				} else {
					outside[tn] = true
				}
			}
		}
		for tn := range inside {
			if !outside[tn] {
				perCallOnly[tn] = true
			}
		}
	}
	// a method that calls a receiver-mutating method on its own receiver mutates its receiver
	for changed := true; changed; {
		changed = false
		for _, fi := range order {
			if fi.mutatesRecv || fi.obj == nil {
				continue
			}
			if r := fi.obj.Type().(*types.Signature).Recv(); r == nil {
				continue
			} else if _, isPtr := r.Type().(*types.Pointer); !isPtr {
				continue
			}
			for fn := range fi.recvCallees {
				if c := funcs[fn]; c != nil && c.mutatesRecv {
					fi.mutatesRecv = true
					changed = true
				}
			}
		}
	}
	seenNamed := map[*types.TypeName]bool{}
	for _, fi := range order {
		if fi.obj == nil {
			continue
		}
		r := fi.obj.Type().(*types.Signature).Recv()
		if r == nil {
			continue
		}
		n := namedOf(r.Type())
		if n == nil {
			continue
		}
		tn := n.Origin().Obj()
		if !seenNamed[tn] {
			seenNamed[tn] = true
			repoNamed = append(repoNamed, tn)
		}
		if _, isStruct := n.Underlying().(*types.Struct); isStruct && fi.mutatesRecv {
			mutMethods[tn] = append(mutMethods[tn], fi.name)
		}
	}
	for _, ms := range mutMethods {
		sort.Strings(ms)
	}
	for _, fi := range order {
		resetFunc(fi)
		analyse(fi)
	}

	// roots
	var roots []*funcInfo
	for _, fi := range order {
		if isRoot(fi) {
			roots = append(roots, fi)
		}
	}

	var sb strings.Builder
	sb.WriteString("(* GENERATED FILE: GenAccess.v *)\n")
	sb.WriteString("(* Written by translators/access from the Go source on every run - do not edit.\n")
	sb.WriteString("   For each helper: the package-level variables it may touch (through the static call graph\n")
	sb.WriteString("   inside the repository's packages), read or write, synchronised or not, and the function\n")
	sb.WriteString("   in which the access occurs. *)\n")
	sb.WriteString("From Coq Require Import List String.\nFrom Storage Require Import Db.Access Db.LockTable Db.MemView.\nImport ListNotations.\nOpen Scope string_scope.\n\n")
	sb.WriteString("Definition table : list helper := [\n")
	for ri, r := range roots {
		accs := closure(r)
		fmt.Fprintf(&sb, "  {| h_name := %q; h_acc := [", r.name)
		for i, a := range accs {
			if i > 0 {
				sb.WriteString(";")
			}
			k := "ARead"
			if a.write {
				k = "AWrite"
			}
			fmt.Fprintf(&sb, "\n      {| a_loc := %q; a_kind := %s; a_sync := %v; a_via := %q |}", a.loc, k, a.sync, a.via)
		}
		sb.WriteString("] |}")
		if ri < len(roots)-1 {
			sb.WriteString(";")
		}
		sb.WriteString("\n")
	}
	sb.WriteString("].\n\n")
	// locks.go: joined calls vs. the lock of the handle; views of memory that is not owned
	sb.WriteString(lockTableCoq(order))
	sb.WriteString("\n")
	sb.WriteString(viewTableCoq(order))
	fmt.Print(sb.String())
}

func resetFunc(fi *funcInfo) {
	fi.accesses = nil
	fi.callees = map[*types.Func]bool{}
	fi.onceCallees = map[*types.Func]bool{}
	fi.ifaceCalls = map[string]int{}
	fi.varInits = map[*funcInfo]bool{}
	fi.recvCallees = map[*types.Func]bool{}
	fi.fieldCalls = map[fieldKey]bool{}
}

// reachable: every function the call graph (same edges as closure) reaches from root
func reachable(root *funcInfo) map[*funcInfo]bool {
	seen := map[*funcInfo]bool{}
	work := []*funcInfo{root}
	for len(work) > 0 {
		fi := work[len(work)-1]
		work = work[:len(work)-1]
		if seen[fi] {
			continue
		}
		seen[fi] = true
		for fn := range fi.callees {
			if c := funcs[fn]; c != nil {
				work = append(work, c)
			}
		}
		for fn := range fi.onceCallees {
			if c := funcs[fn]; c != nil {
				work = append(work, c)
			}
		}
		for lit := range fi.varInits {
			work = append(work, lit)
		}
		for k := range fi.fieldCalls {
			work = append(work, litsByField[k]...)
		}
		for name, arity := range fi.ifaceCalls {
			for _, c := range byName[name] {
				if c.obj.Type().(*types.Signature).Params().Len() == arity {
					work = append(work, c)
				}
			}
		}
	}
	return seen
}

func isRoot(fi *funcInfo) bool {
	if fi.obj == nil || !fi.obj.Exported() || fi.obj.Name() == "init" {
		return false
	}
	recv := fi.obj.Type().(*types.Signature).Recv()
	switch {
	case fi.pkg.Name == "boltz" && fi.file == "errors.go" && recv == nil:
		return true
	case fi.pkg.Name == "zitiql" && fi.file == "util.go" && recv == nil:
		return true
	case fi.pkg.Name == "ast" && fi.file == "helper.go" && recv == nil:
		return true
	case fi.pkg.Name == "boltz" && fi.file == "store_query.go" && recv != nil && isReaderName(fi.obj.Name()):
		return true
	case fi.pkg.Name == "boltz" && recv != nil && registeredObjectFiles[fi.file] && isLookupName(fi.obj.Name()) && firstParamIsTx(fi.obj):
		// indexes, link collections, symbols: created at configuration time, read by every read transaction
		return true
	}
	return false
}

var registeredObjectFiles = map[string]bool{"indexes.go": true, "link_collection.go": true, "link_collection_rc.go": true,
	"query_symbols.go": true, "external_symbol.go": true, "store_crud.go": true}

func isLookupName(n string) bool {
	for _, p := range []string{"Read", "Open", "Get", "Is", "Iterate", "Eval", "Find", "Load"} {
		if strings.HasPrefix(n, p) {
			return true
		}
	}
	return false
}

func firstParamIsTx(f *types.Func) bool {
	ps := f.Type().(*types.Signature).Params()
	if ps.Len() == 0 {
		return false
	}
	p, ok := ps.At(0).Type().(*types.Pointer)
	if !ok {
		return false
	}
	n, ok := p.Elem().(*types.Named)
	return ok && n.Obj().Name() == "Tx" && n.Obj().Pkg() != nil && strings.HasSuffix(n.Obj().Pkg().Path(), "bbolt")
}

func isReaderName(n string) bool {
	for _, p := range []string{"Get", "Is", "Query", "Iterate", "NewScanner"} {
		if strings.HasPrefix(n, p) {
			return true
		}
	}
	return false
}

// closure collects the accesses of everything reachable from root; a function reached only through
// sync.Once.Do contributes synchronised accesses
func closure(root *funcInfo) []access {
	type state struct{ plain, once bool }
	seen := map[*funcInfo]*state{}
	type item struct {
		fi   *funcInfo
		once bool
	}
	work := []item{{root, false}}
	for len(work) > 0 {
		it := work[len(work)-1]
		work = work[:len(work)-1]
		st := seen[it.fi]
		if st == nil {
			st = &state{}
			seen[it.fi] = st
		}
		if it.once {
			if st.once || st.plain {
				continue
			}
			st.once = true
		} else {
			if st.plain {
				continue
			}
			st.plain = true
		}
		push := func(fn *types.Func, once bool) {
			if c := funcs[fn]; c != nil {
				work = append(work, item{c, once})
			}
		}
		for fn := range it.fi.callees {
			if it.fi.onceCallees[fn] && !calledDirectly(it.fi, fn) {
				push(fn, true)
			} else {
				push(fn, it.once)
			}
		}
		for fn := range it.fi.onceCallees {
			push(fn, true)
		}
		for lit := range it.fi.varInits {
			work = append(work, item{lit, it.once})
		}
		for k := range it.fi.fieldCalls {
			for _, lit := range litsByField[k] {
				work = append(work, item{lit, it.once})
			}
		}
		for name, arity := range it.fi.ifaceCalls {
			for _, c := range byName[name] {
				if c.obj.Type().(*types.Signature).Params().Len() == arity {
					work = append(work, item{c, it.once})
				}
			}
		}
	}
	set := map[string]access{}
	for fi, st := range seen {
		for _, a := range fi.accesses {
			if a.encl != nil {
				if _, created := seen[a.encl]; created {
					continue // the helper itself creates the literal: its variables are per call
				}
			}
			if !st.plain {
				a.sync = true
			}
			key := fmt.Sprintf("%s|%v|%v", a.loc, a.write, a.sync)
			if old, ok := set[key]; !ok || a.via < old.via {
				set[key] = a
			}
		}
	}
	var out []access
	for _, a := range set {
		out = append(out, a)
	}
	sort.Slice(out, func(i, j int) bool {
		if out[i].loc != out[j].loc {
			return out[i].loc < out[j].loc
		}
		if out[i].write != out[j].write {
			return out[i].write
		}
		return !out[i].sync && out[j].sync
	})
	return out
}

// calledDirectly: fn is also called by fi outside of once.Do (the identifier appears as a call target)
func calledDirectly(fi *funcInfo, fn *types.Func) bool {
	direct := false
	ast.Inspect(fi.decl.Body, func(n ast.Node) bool {
		if c, ok := n.(*ast.CallExpr); ok {
			switch f := c.Fun.(type) {
			case *ast.Ident:
				if o, ok := fi.pkg.TypesInfo.Uses[f].(*types.Func); ok && o.Origin() == fn {
					direct = true
				}
			case *ast.SelectorExpr:
				if o, ok := fi.pkg.TypesInfo.Uses[f.Sel].(*types.Func); ok && o.Origin() == fn {
					direct = true
				}
			}
		}
		return true
	})
	return direct
}
