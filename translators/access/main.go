// tr_access <repo>: prints coq/theories/Gen/GenAccess.v - for every exported helper that the
// property C18 names (error classifiers, parsing, store symbol resolution and query entry points)
// the package-level variables of the repository it reads or writes, reached through the static
// call graph inside the repository's packages, and whether each access is synchronised.
//
// Rules (trusted; see design/C18.md):
//   - location = package-level variable of ast, boltz, zitiql, objectz (granularity: the variable)
//   - write    = assignment / inc-dec / range-assignment whose target is rooted at the variable (also
//     through field selection, indexing, dereference, and through a local alias `p := &v` / `p := v`
//     for pointer-typed v); `&v` used anywhere else than as the initialiser of a local alias
//     (typically an out-parameter: errors.As(err, &v), json.Unmarshal(b, &v)); a call of a
//     pointer-receiver method of a repository type that assigns to its receiver's fields
//   - read     = every other mention
//   - synchronised = the variable (or a field selected on the way) has a type from sync or
//     sync/atomic (Pool, Once, Mutex, atomic.Bool ...); the access happens inside a function passed to
//     (*sync.Once).Do, or anywhere below it in the call graph when reached only that way; the access
//     lies between X.Lock()/X.RLock() and the matching Unlock (or a deferred Unlock) of a mutex
//   - call graph: static callees; interface method calls resolve to every repository method of the
//     same name and arity; a function mentioned as a value counts as called; calls of function-typed
//     variables and anything outside the repository's packages are not followed
//   - var initialisers and init() are not helper invocations; a function literal inside the
//     initialiser of a package-level variable (the New function of a sync.Pool) counts as called by
//     whoever mentions the variable
package main

import (
	"fmt"
	"go/ast"
	"go/token"
	"go/types"
	"os"
	"path/filepath"
	"sort"
	"strings"

	"golang.org/x/tools/go/packages"
)

const modPath = "github.com/openziti/storage"

var pkgDirs = []string{"ast", "boltz", "zitiql", "objectz"}

type access struct {
	loc   string
	write bool
	sync  bool
	via   string
}

type funcInfo struct {
	obj         *types.Func
	name        string
	file        string
	decl        *ast.FuncDecl
	pkg         *packages.Package
	accesses    []access
	callees     map[*types.Func]bool
	onceCallees map[*types.Func]bool
	ifaceCalls  map[string]int // method name -> arity
	varInits    map[*funcInfo]bool // function literals in the initialiser of a mentioned package-level variable
	mutatesRecv bool
}

var (
	funcs    = map[*types.Func]*funcInfo{}
	byName   = map[string][]*funcInfo{} // method name -> repository methods
	repoPkgs = map[*types.Package]bool{}
	varInit  = map[*types.Var][]*funcInfo{} // e.g. the New function of a sync.Pool
)

func isRepoVar(o types.Object) *types.Var {
	v, ok := o.(*types.Var)
	if !ok || v.Pkg() == nil || !repoPkgs[v.Pkg()] || v.IsField() {
		return nil
	}
	if v.Parent() != v.Pkg().Scope() {
		return nil
	}
	if v.Name() == "_" {
		return nil
	}
	return v
}

func locName(v *types.Var) string { return v.Pkg().Name() + "." + v.Name() }

func isSyncType(t types.Type) bool {
	for {
		if p, ok := t.(*types.Pointer); ok {
			t = p.Elem()
			continue
		}
		break
	}
	n, ok := t.(*types.Named)
	if !ok || n.Obj().Pkg() == nil {
		return false
	}
	p := n.Obj().Pkg().Path()
	return p == "sync" || p == "sync/atomic"
}

func funcName(f *types.Func) string {
	sig := f.Type().(*types.Signature)
	if r := sig.Recv(); r != nil {
		t := r.Type()
		if p, ok := t.(*types.Pointer); ok {
			t = p.Elem()
		}
		if n, ok := t.(*types.Named); ok {
			return f.Pkg().Name() + "." + n.Obj().Name() + "." + f.Name()
		}
	}
	return f.Pkg().Name() + "." + f.Name()
}

type walker struct {
	fi      *funcInfo
	info    *types.Info
	aliases map[types.Object]*types.Var
	writes  map[*ast.Ident]bool // root identifiers of write targets
	addrOK  map[*ast.UnaryExpr]bool
	locks   []token.Pos
	unlocks []token.Pos
	deferUn bool
	onceLit map[*ast.FuncLit]bool
}

// rootIdent returns the identifier an lvalue / selector chain is rooted at, and whether a field of a
// sync type is selected on the way
func (w *walker) rootIdent(e ast.Expr) (*ast.Ident, bool) {
	syncOnWay := false
	for {
		switch x := e.(type) {
		case *ast.Ident:
			return x, syncOnWay
		case *ast.ParenExpr:
			e = x.X
		case *ast.StarExpr:
			e = x.X
		case *ast.IndexExpr:
			e = x.X
		case *ast.SliceExpr:
			e = x.X
		case *ast.SelectorExpr:
			if id, ok := x.X.(*ast.Ident); ok {
				if _, isPkg := w.info.Uses[id].(*types.PkgName); isPkg {
					return x.Sel, syncOnWay
				}
			}
			if tv, ok := w.info.Types[x]; ok && isSyncType(tv.Type) {
				syncOnWay = true
			}
			e = x.X
		case *ast.UnaryExpr:
			if x.Op == token.AND {
				e = x.X
				continue
			}
			return nil, false
		case *ast.TypeAssertExpr:
			e = x.X
		default:
			return nil, false
		}
	}
}

func (w *walker) varOf(id *ast.Ident) *types.Var {
	o := w.info.Uses[id]
	if o == nil {
		o = w.info.Defs[id]
	}
	if o == nil {
		return nil
	}
	if v := isRepoVar(o); v != nil {
		return v
	}
	if v, ok := w.aliases[o]; ok {
		return v
	}
	return nil
}

func (w *walker) guarded(p token.Pos) bool {
	for _, l := range w.locks {
		if l >= p {
			continue
		}
		if w.deferUn {
			return true
		}
		for _, u := range w.unlocks {
			if u > p {
				return true
			}
		}
	}
	return false
}

func (w *walker) markWrite(e ast.Expr) {
	if id, _ := w.rootIdent(e); id != nil {
		w.writes[id] = true
	}
}

func analyse(fi *funcInfo) {
	body := fi.decl.Body
	info := fi.pkg.TypesInfo
	w := &walker{fi: fi, info: info, aliases: map[types.Object]*types.Var{}, writes: map[*ast.Ident]bool{},
		addrOK: map[*ast.UnaryExpr]bool{}, onceLit: map[*ast.FuncLit]bool{}}

	// receiver mutation
	if fi.decl.Recv != nil && len(fi.decl.Recv.List) == 1 && len(fi.decl.Recv.List[0].Names) == 1 {
		recv := info.Defs[fi.decl.Recv.List[0].Names[0]]
		if recv != nil {
			if _, isPtr := recv.Type().(*types.Pointer); isPtr {
				ast.Inspect(body, func(n ast.Node) bool {
					if as, ok := n.(*ast.AssignStmt); ok {
						for _, l := range as.Lhs {
							if _, isIdent := l.(*ast.Ident); isIdent {
								continue
							}
							if id, _ := w.rootIdent(l); id != nil && info.Uses[id] == recv {
								fi.mutatesRecv = true
							}
						}
					}
					if ids, ok := n.(*ast.IncDecStmt); ok {
						if _, isIdent := ids.X.(*ast.Ident); !isIdent {
							if id, _ := w.rootIdent(ids.X); id != nil && info.Uses[id] == recv {
								fi.mutatesRecv = true
							}
						}
					}
					return true
				})
			}
		}
	}

	// pass 1: aliases, write targets, lock regions, once literals
	ast.Inspect(body, func(n ast.Node) bool {
		switch x := n.(type) {
		case *ast.AssignStmt:
			for i, l := range x.Lhs {
				// local alias:  p := &v   /   p := v (pointer typed)   /  p = &v
				if lid, ok := l.(*ast.Ident); ok && len(x.Rhs) == len(x.Lhs) {
					lobj := info.Defs[lid]
					if lobj == nil {
						lobj = info.Uses[lid]
					}
					if lobj != nil && isRepoVar(lobj) == nil {
						r := x.Rhs[i]
						if u, ok := r.(*ast.UnaryExpr); ok && u.Op == token.AND {
							if rid, _ := w.rootIdent(u.X); rid != nil {
								if v := w.varOf(rid); v != nil {
									w.aliases[lobj] = v
									w.addrOK[u] = true
								}
							}
						} else if rid, ok := r.(*ast.Ident); ok {
							if v := w.varOf(rid); v != nil {
								if _, isPtr := v.Type().Underlying().(*types.Pointer); isPtr {
									w.aliases[lobj] = v
								}
							}
						}
						continue
					}
				}
				w.markWrite(l)
			}
		case *ast.IncDecStmt:
			w.markWrite(x.X)
		case *ast.RangeStmt:
			if x.Tok == token.ASSIGN {
				if x.Key != nil {
					w.markWrite(x.Key)
				}
				if x.Value != nil {
					w.markWrite(x.Value)
				}
			}
		case *ast.DeferStmt:
			if sel, ok := x.Call.Fun.(*ast.SelectorExpr); ok && (sel.Sel.Name == "Unlock" || sel.Sel.Name == "RUnlock") {
				if tv, ok := info.Types[sel.X]; ok && isSyncType(tv.Type) {
					w.deferUn = true
				}
			}
		case *ast.CallExpr:
			if sel, ok := x.Fun.(*ast.SelectorExpr); ok {
				if tv, ok := info.Types[sel.X]; ok && isSyncType(tv.Type) {
					switch sel.Sel.Name {
					case "Lock", "RLock":
						w.locks = append(w.locks, x.Pos())
					case "Unlock", "RUnlock":
						w.unlocks = append(w.unlocks, x.Pos())
					case "Do":
						for _, a := range x.Args {
							switch f := a.(type) {
							case *ast.FuncLit:
								w.onceLit[f] = true
							case *ast.Ident:
								if fn, ok := info.Uses[f].(*types.Func); ok {
									fi.onceCallees[fn.Origin()] = true
								}
							case *ast.SelectorExpr:
								if fn, ok := info.Uses[f.Sel].(*types.Func); ok {
									fi.onceCallees[fn.Origin()] = true
								}
							}
						}
					}
				}
			}
		}
		return true
	})

	// pass 2: accesses and call edges
	var inOnce []*ast.FuncLit
	var visit func(n ast.Node) bool
	record := func(id *ast.Ident, write, syncOnWay bool) {
		v := w.varOf(id)
		if v == nil {
			return
		}
		s := syncOnWay || isSyncType(v.Type()) || w.guarded(id.Pos()) || len(inOnce) > 0
		for _, lit := range varInit[v] {
			fi.varInits[lit] = true
		}
		fi.accesses = append(fi.accesses, access{loc: locName(v), write: write, sync: s, via: fi.name})
	}
	visit = func(n ast.Node) bool {
		switch x := n.(type) {
		case *ast.FuncLit:
			if w.onceLit[x] {
				inOnce = append(inOnce, x)
				ast.Inspect(x.Body, visit)
				inOnce = inOnce[:len(inOnce)-1]
				return false
			}
		case *ast.UnaryExpr:
			if x.Op == token.AND && !w.addrOK[x] {
				if id, s := w.rootIdent(x.X); id != nil && w.varOf(id) != nil {
					record(id, true, s) // address escapes: treated as a write through the pointer
					w.writes[id] = true
				}
			}
		case *ast.CallExpr:
			switch f := x.Fun.(type) {
			case *ast.Ident:
				if fn, ok := info.Uses[f].(*types.Func); ok {
					fi.callees[fn.Origin()] = true
				}
			case *ast.SelectorExpr:
				if sel, ok := info.Selections[f]; ok {
					if fn, ok := sel.Obj().(*types.Func); ok {
						if types.IsInterface(sel.Recv()) {
							fi.ifaceCalls[fn.Name()] = fn.Type().(*types.Signature).Params().Len()
						} else {
							fi.callees[fn.Origin()] = true
							// pointer-receiver method of a repository type called on a package-level variable
							if id, s := w.rootIdent(f.X); id != nil && w.varOf(id) != nil {
								if cf := funcs[fn.Origin()]; cf != nil && cf.mutatesRecv {
									record(id, true, s)
									w.writes[id] = true
								}
							}
						}
					}
				} else if fn, ok := info.Uses[f.Sel].(*types.Func); ok {
					fi.callees[fn.Origin()] = true
				}
			}
		case *ast.SelectorExpr:
			// qualified identifier or field chain: handled at the root identifier, but remember sync fields
			if id, s := w.rootIdent(x); id != nil && w.varOf(id) != nil {
				if !w.writes[id] {
					record(id, false, s)
				} else {
					record(id, true, s)
				}
				// do not descend: the root identifier has been handled with the full chain
				// (but index expressions inside the chain still need a visit)
				ast.Inspect(x.X, func(m ast.Node) bool {
					if ie, ok := m.(*ast.IndexExpr); ok {
						ast.Inspect(ie.Index, visit)
					}
					return true
				})
				return false
			}
		case *ast.Ident:
			if fn, ok := info.Uses[x].(*types.Func); ok && repoPkgs[fn.Pkg()] {
				fi.callees[fn.Origin()] = true // mentioned as a value (or called: same edge)
			}
			if w.varOf(x) != nil {
				record(x, w.writes[x], false)
			}
		}
		return true
	}
	ast.Inspect(body, visit)
}

func main() {
	if len(os.Args) < 2 {
		fmt.Fprintln(os.Stderr, "usage: tr_access <repo>")
		os.Exit(2)
	}
	repo := os.Args[1]
	cfg := &packages.Config{
		Mode: packages.NeedName | packages.NeedFiles | packages.NeedSyntax | packages.NeedTypes | packages.NeedTypesInfo | packages.NeedImports | packages.NeedDeps,
		Dir:  repo,
		Env:  append(os.Environ(), "GOFLAGS=-mod=mod", "GOPROXY=off", "GOSUMDB=off", "GOTOOLCHAIN=local"),
	}
	var patterns []string
	for _, d := range pkgDirs {
		patterns = append(patterns, "./"+d)
	}
	pkgs, err := packages.Load(cfg, patterns...)
	if err != nil {
		fmt.Fprintln(os.Stderr, "load:", err)
		os.Exit(1)
	}
	for _, p := range pkgs {
		if len(p.Errors) > 0 {
			fmt.Fprintln(os.Stderr, "package errors:", p.PkgPath, p.Errors)
			os.Exit(1)
		}
		repoPkgs[p.Types] = true
	}
	sort.Slice(pkgs, func(i, j int) bool { return pkgs[i].PkgPath < pkgs[j].PkgPath })

	// collect functions
	for _, p := range pkgs {
		for _, f := range p.Syntax {
			fname := filepath.Base(p.Fset.Position(f.Pos()).Filename)
			if strings.HasSuffix(fname, "_test.go") {
				continue
			}
			for _, d := range f.Decls {
				fd, ok := d.(*ast.FuncDecl)
				if !ok || fd.Body == nil {
					continue
				}
				obj, ok := p.TypesInfo.Defs[fd.Name].(*types.Func)
				if !ok {
					continue
				}
				fi := &funcInfo{obj: obj, name: funcName(obj), file: fname, decl: fd, pkg: p,
					callees: map[*types.Func]bool{}, onceCallees: map[*types.Func]bool{}, ifaceCalls: map[string]int{}, varInits: map[*funcInfo]bool{}}
				funcs[obj] = fi
				if fd.Recv != nil {
					byName[obj.Name()] = append(byName[obj.Name()], fi)
				}
			}
		}
	}
	// function literals in package-level variable initialisers
	var pseudo []*funcInfo
	for _, p := range pkgs {
		for _, f := range p.Syntax {
			fname := filepath.Base(p.Fset.Position(f.Pos()).Filename)
			if strings.HasSuffix(fname, "_test.go") {
				continue
			}
			for _, d := range f.Decls {
				gd, ok := d.(*ast.GenDecl)
				if !ok || gd.Tok != token.VAR {
					continue
				}
				for _, spec := range gd.Specs {
					vs := spec.(*ast.ValueSpec)
					for i, nm := range vs.Names {
						v := isRepoVar(p.TypesInfo.Defs[nm])
						if v == nil || i >= len(vs.Values) {
							continue
						}
						k := 0
						ast.Inspect(vs.Values[i], func(n ast.Node) bool {
							if lit, ok := n.(*ast.FuncLit); ok {
								k++
								fi := &funcInfo{name: fmt.Sprintf("%s$init%d", locName(v), k), file: fname, pkg: p,
									decl:    &ast.FuncDecl{Name: ast.NewIdent("init"), Type: lit.Type, Body: lit.Body},
									callees: map[*types.Func]bool{}, onceCallees: map[*types.Func]bool{}, ifaceCalls: map[string]int{}, varInits: map[*funcInfo]bool{}}
								varInit[v] = append(varInit[v], fi)
								pseudo = append(pseudo, fi)
								return false
							}
							return true
						})
					}
				}
			}
		}
	}
	// receiver mutation must be known before call sites are analysed: two rounds
	var order []*funcInfo
	for _, fi := range funcs {
		order = append(order, fi)
	}
	order = append(order, pseudo...)
	sort.Slice(order, func(i, j int) bool { return order[i].name < order[j].name })
	for _, fi := range order {
		analyse(fi)
	}
	for _, fi := range order {
		fi.accesses = nil
		fi.callees = map[*types.Func]bool{}
		fi.onceCallees = map[*types.Func]bool{}
		fi.ifaceCalls = map[string]int{}
		fi.varInits = map[*funcInfo]bool{}
		analyse(fi)
	}

	// roots
	var roots []*funcInfo
	for _, fi := range order {
		if fi.obj == nil || !fi.obj.Exported() || fi.obj.Name() == "init" {
			continue
		}
		recv := fi.obj.Type().(*types.Signature).Recv()
		switch {
		case fi.pkg.Name == "boltz" && fi.file == "errors.go" && recv == nil:
			roots = append(roots, fi)
		case fi.pkg.Name == "zitiql" && fi.file == "util.go" && recv == nil:
			roots = append(roots, fi)
		case fi.pkg.Name == "ast" && fi.file == "helper.go" && recv == nil:
			roots = append(roots, fi)
		case fi.pkg.Name == "boltz" && fi.file == "store_query.go" && recv != nil && isReaderName(fi.obj.Name()):
			roots = append(roots, fi)
		}
	}

	var sb strings.Builder
	sb.WriteString("(* GENERATED FILE: GenAccess.v *)\n")
	sb.WriteString("(* Written by translators/access from the Go source on every run - do not edit.\n")
	sb.WriteString("   For each helper: the package-level variables it may touch (through the static call graph\n")
	sb.WriteString("   inside the repository's packages), read or write, synchronised or not, and the function\n")
	sb.WriteString("   in which the access occurs. *)\n")
	sb.WriteString("From Coq Require Import List String.\nFrom Storage Require Import Db.Access.\nImport ListNotations.\nOpen Scope string_scope.\n\n")
	sb.WriteString("Definition table : list helper := [\n")
	for ri, r := range roots {
		accs := closure(r)
		fmt.Fprintf(&sb, "  {| h_name := %q; h_acc := [", r.name)
		for i, a := range accs {
			if i > 0 {
				sb.WriteString(";")
			}
			k := "ARead"
			if a.write {
				k = "AWrite"
			}
			fmt.Fprintf(&sb, "\n      {| a_loc := %q; a_kind := %s; a_sync := %v; a_via := %q |}", a.loc, k, a.sync, a.via)
		}
		sb.WriteString("] |}")
		if ri < len(roots)-1 {
			sb.WriteString(";")
		}
		sb.WriteString("\n")
	}
	sb.WriteString("].\n")
	fmt.Print(sb.String())
}

func isReaderName(n string) bool {
	for _, p := range []string{"Get", "Is", "Query", "Iterate", "NewScanner"} {
		if strings.HasPrefix(n, p) {
			return true
		}
	}
	return false
}

// closure collects the accesses of everything reachable from root; a function reached only through
// sync.Once.Do contributes synchronised accesses
func closure(root *funcInfo) []access {
	type state struct{ plain, once bool }
	seen := map[*funcInfo]*state{}
	type item struct {
		fi   *funcInfo
		once bool
	}
	work := []item{{root, false}}
	for len(work) > 0 {
		it := work[len(work)-1]
		work = work[:len(work)-1]
		st := seen[it.fi]
		if st == nil {
			st = &state{}
			seen[it.fi] = st
		}
		if it.once {
			if st.once || st.plain {
				continue
			}
			st.once = true
		} else {
			if st.plain {
				continue
			}
			st.plain = true
		}
		push := func(fn *types.Func, once bool) {
			if c := funcs[fn]; c != nil {
				work = append(work, item{c, once})
			}
		}
		for fn := range it.fi.callees {
			if it.fi.onceCallees[fn] && !calledDirectly(it.fi, fn) {
				push(fn, true)
			} else {
				push(fn, it.once)
			}
		}
		for fn := range it.fi.onceCallees {
			push(fn, true)
		}
		for lit := range it.fi.varInits {
			work = append(work, item{lit, it.once})
		}
		for name, arity := range it.fi.ifaceCalls {
			for _, c := range byName[name] {
				if c.obj.Type().(*types.Signature).Params().Len() == arity {
					work = append(work, item{c, it.once})
				}
			}
		}
	}
	set := map[string]access{}
	for fi, st := range seen {
		for _, a := range fi.accesses {
			if !st.plain {
				a.sync = true
			}
			key := fmt.Sprintf("%s|%v|%v", a.loc, a.write, a.sync)
			if old, ok := set[key]; !ok || a.via < old.via {
				set[key] = a
			}
		}
	}
	var out []access
	for _, a := range set {
		out = append(out, a)
	}
	sort.Slice(out, func(i, j int) bool {
		if out[i].loc != out[j].loc {
			return out[i].loc < out[j].loc
		}
		if out[i].write != out[j].write {
			return out[i].write
		}
		return !out[i].sync && out[j].sync
	})
	return out
}

// calledDirectly: fn is also called by fi outside of once.Do (the identifier appears as a call target)
func calledDirectly(fi *funcInfo, fn *types.Func) bool {
	direct := false
	ast.Inspect(fi.decl.Body, func(n ast.Node) bool {
		if c, ok := n.(*ast.CallExpr); ok {
			switch f := c.Fun.(type) {
			case *ast.Ident:
				if o, ok := fi.pkg.TypesInfo.Uses[f].(*types.Func); ok && o.Origin() == fn {
					direct = true
				}
			case *ast.SelectorExpr:
				if o, ok := fi.pkg.TypesInfo.Uses[f.Sel].(*types.Func); ok && o.Origin() == fn {
					direct = true
				}
			}
		}
		return true
	})
	return direct
}
