// asttable regenerates coq/theories/Gen/GenAstTable.v from the Go source of openziti/storage.
//
//	tr_asttable <repo-path>      prints the Coq file on stdout
//
// For every type of package ast that implements ast.Node it states: the kind name, its string
// fields (and which of them hold symbol names), its child fields, how Symbol() is answered and
// what the Accept method does, statement by statement.  From boltz/*.go it states what the
// validating visitor overrides.  Anything it does not understand is emitted as AUnknown /
// k_unsupported so that the Coq obligation `table_complete` fails instead of silently passing.
package main

import (
	"bytes"
	"fmt"
	"go/ast"
	"go/parser"
	"go/printer"
	"go/token"
	"go/types"
	"os"
	"path/filepath"
	"runtime"
	"sort"
	"strings"

	"golang.org/x/tools/go/packages"
)

type strField struct {
	name     string
	isSym    bool
	evidence []string
}

type childField struct {
	name    string
	slice   bool
	typ     string
	hidden  bool
	nilable bool
	static  string // kind name when the static type is *K of a node kind
}

type kind struct {
	name        string
	ptr         bool
	file        string
	named       *types.Named
	strs        []*strField
	children    []*childField
	symbol      string // Coq term
	recvGuard   bool
	accept      []string // Coq terms
	unsupported []string
	guardedIf   map[string]bool
	forwarded   map[string]bool
}

var (
	fset     *token.FileSet
	info     *types.Info
	astPkg   *types.Package
	nodeIf   *types.Interface
	kinds    []*kind
	kindByNm = map[string]*kind{}
	funcs    = map[*types.Func]*ast.FuncDecl{}
)

func die(format string, a ...interface{}) {
	fmt.Fprintf(os.Stderr, "asttable: "+format+"\n", a...)
	os.Exit(1)
}

func main() {
	if len(os.Args) != 2 {
		die("usage: tr_asttable <repo-path>")
	}
	repo, err := filepath.Abs(os.Args[1])
	if err != nil {
		die("%v", err)
	}
	if runtime.GOMAXPROCS(0) > 4 {
		runtime.GOMAXPROCS(4)
	}
	env := []string{}
	for _, e := range os.Environ() {
		if strings.HasPrefix(e, "GOFLAGS=") || strings.HasPrefix(e, "GOMAXPROCS=") {
			continue
		}
		env = append(env, e)
	}
	// never let `go list` rewrite go.mod / go.sum of the repository under analysis
	env = append(env, "GOFLAGS=-mod=readonly", "GOPROXY=off", "GOSUMDB=off", "GOTOOLCHAIN=local", "GOMAXPROCS=4")
	cfg := &packages.Config{
		Mode: packages.NeedName | packages.NeedFiles | packages.NeedSyntax | packages.NeedTypes |
			packages.NeedTypesInfo | packages.NeedImports | packages.NeedDeps,
		Dir: repo,
		Env: env,
	}
	pkgs, err := packages.Load(cfg, "./ast")
	if err != nil {
		die("loading ./ast: %v", err)
	}
	if len(pkgs) != 1 {
		die("expected one package, got %d", len(pkgs))
	}
	p := pkgs[0]
	if len(p.Errors) > 0 {
		die("package ast does not type-check: %v", p.Errors[0])
	}
	fset, info, astPkg = p.Fset, p.TypesInfo, p.Types
	nodeObj := astPkg.Scope().Lookup("Node")
	if nodeObj == nil {
		die("ast.Node not found")
	}
	var ok bool
	nodeIf, ok = nodeObj.Type().Underlying().(*types.Interface)
	if !ok {
		die("ast.Node is not an interface")
	}
	for _, f := range p.Syntax {
		for _, d := range f.Decls {
			if fd, ok := d.(*ast.FuncDecl); ok {
				if obj, ok := info.Defs[fd.Name].(*types.Func); ok {
					funcs[obj] = fd
				}
			}
		}
	}

	collectKinds()
	for _, k := range kinds {
		collectFields(k)
	}
	for _, k := range kinds {
		analyseMethods(k)
	}
	for _, k := range kinds {
		finishNilable(k)
	}
	v := analyseValidator(filepath.Join(repo, "boltz"))
	emit(v)
}

// ---------------------------------------------------------------------------------- kinds

func implementsNode(t types.Type) bool { return types.Implements(t, nodeIf) }

func collectKinds() {
	scope := astPkg.Scope()
	names := scope.Names()
	sort.Strings(names)
	for _, n := range names {
		tn, ok := scope.Lookup(n).(*types.TypeName)
		if !ok || tn.IsAlias() {
			continue
		}
		named, ok := tn.Type().(*types.Named)
		if !ok {
			continue
		}
		if _, isIface := named.Underlying().(*types.Interface); isIface {
			continue
		}
		if named.TypeParams() != nil && named.TypeParams().Len() > 0 {
			continue
		}
		var k *kind
		if implementsNode(named) {
			k = &kind{name: n, ptr: false}
		} else if implementsNode(types.NewPointer(named)) {
			k = &kind{name: n, ptr: true}
		} else {
			continue
		}
		k.named = named
		k.file = filepath.Base(fset.Position(tn.Pos()).Filename)
		k.guardedIf = map[string]bool{}
		k.forwarded = map[string]bool{}
		kinds = append(kinds, k)
		kindByNm[n] = k
	}
}

func relType(t types.Type) string {
	return types.TypeString(t, func(p *types.Package) string {
		if p == astPkg {
			return ""
		}
		return p.Name()
	})
}

// someKindImplements: is there a node kind whose (pointer) type implements the interface t?
func someKindImplements(t *types.Interface) bool {
	for _, k := range kinds {
		var kt types.Type = k.named
		if k.ptr {
			kt = types.NewPointer(k.named)
		}
		if types.Implements(kt, t) {
			return true
		}
	}
	return false
}

// classify a field type: "" (irrelevant), "str", "child", "hidden"; slice tells whether it is a list
func classify(t types.Type) (class string, slice bool) {
	if b, ok := t.Underlying().(*types.Basic); ok {
		if b.Kind() == types.String {
			return "str", false
		}
		return "", false
	}
	if implementsNode(t) {
		return "child", false
	}
	switch u := t.Underlying().(type) {
	case *types.Interface:
		if someKindImplements(u) {
			return "hidden", false
		}
	case *types.Slice:
		c, s := classify(u.Elem())
		if s {
			return "unsupported", false
		}
		if c == "child" || c == "hidden" {
			return c, true
		}
		if c == "unsupported" {
			return c, false
		}
	case *types.Array:
		c, s := classify(u.Elem())
		if s {
			return "unsupported", false
		}
		if c == "child" || c == "hidden" {
			return c, true
		}
		if c == "unsupported" {
			return c, false
		}
	case *types.Map:
		ck, _ := classify(u.Key())
		cv, _ := classify(u.Elem())
		for _, c := range []string{ck, cv} {
			if c == "child" || c == "hidden" || c == "unsupported" {
				return "unsupported", false
			}
		}
	case *types.Chan:
		c, _ := classify(u.Elem())
		if c == "child" || c == "hidden" || c == "unsupported" {
			return "unsupported", false
		}
	case *types.Pointer:
		// pointer to something that is not itself a node (pointer-to-node-kind was caught above)
		c, _ := classify(u.Elem())
		if c == "child" || c == "hidden" || c == "unsupported" {
			return "unsupported", false
		}
		if st, ok := u.Elem().Underlying().(*types.Struct); ok && structMentionsNodes(st, map[*types.Struct]bool{}) {
			return "unsupported", false
		}
	}
	return "", false
}

func structMentionsNodes(st *types.Struct, seen map[*types.Struct]bool) bool {
	if seen[st] {
		return false
	}
	seen[st] = true
	for i := 0; i < st.NumFields(); i++ {
		c, _ := classify(st.Field(i).Type())
		if c == "child" || c == "hidden" || c == "unsupported" || c == "str" && false {
			return true
		}
		if inner, ok := st.Field(i).Type().Underlying().(*types.Struct); ok && structMentionsNodes(inner, seen) {
			return true
		}
	}
	return false
}

func collectFields(k *kind) {
	st, ok := k.named.Underlying().(*types.Struct)
	if !ok {
		return // e.g. a named integer type implementing Node: no fields
	}
	var walk func(st *types.Struct, prefix string, depth int)
	walk = func(st *types.Struct, prefix string, depth int) {
		if depth > 8 {
			k.unsupported = append(k.unsupported, "struct nesting too deep at "+prefix)
			return
		}
		for i := 0; i < st.NumFields(); i++ {
			f := st.Field(i)
			name := prefix + f.Name()
			ft := f.Type()
			class, slice := classify(ft)
			switch class {
			case "str":
				k.strs = append(k.strs, &strField{name: name})
				continue
			case "child", "hidden":
				cf := &childField{name: name, slice: slice, typ: relType(ft), hidden: class == "hidden"}
				if pt, ok := ft.(*types.Pointer); ok {
					if nt, ok := pt.Elem().(*types.Named); ok && nt.Obj().Pkg() == astPkg {
						cf.static = nt.Obj().Name()
					}
				}
				k.children = append(k.children, cf)
				continue
			case "unsupported":
				k.unsupported = append(k.unsupported, fmt.Sprintf("field %s of type %s may hold nodes in a way the translator does not model", name, relType(ft)))
				continue
			}
			// a struct held by value is part of this node: its fields are this node's fields
			if inner, ok := ft.Underlying().(*types.Struct); ok {
				walk(inner, name+".", depth+1)
			}
		}
	}
	walk(st, "", 0)
}

// ---------------------------------------------------------------------------------- methods

// fieldPath resolves an expression of the form recv.a.b (also through promoted fields) to the
// flattened field name used in the table.
func fieldPath(e ast.Expr, recv *types.Var) (string, bool) {
	switch x := e.(type) {
	case *ast.ParenExpr:
		return fieldPath(x.X, recv)
	case *ast.SelectorExpr:
		sel, ok := info.Selections[x]
		if !ok || sel.Kind() != types.FieldVal {
			return "", false
		}
		var base string
		if id, ok := x.X.(*ast.Ident); ok && info.Uses[id] == recv {
			base = ""
		} else {
			b, ok := fieldPath(x.X, recv)
			if !ok {
				return "", false
			}
			base = b + "."
		}
		// walk the (possibly promoted) index path
		t := sel.Recv()
		var parts []string
		for _, idx := range sel.Index() {
			if p, ok := t.Underlying().(*types.Pointer); ok {
				t = p.Elem()
			}
			st, ok := t.Underlying().(*types.Struct)
			if !ok {
				return "", false
			}
			f := st.Field(idx)
			parts = append(parts, f.Name())
			t = f.Type()
		}
		return base + strings.Join(parts, "."), true
	}
	return "", false
}

func (k *kind) strField(name string) *strField {
	for _, s := range k.strs {
		if s.name == name {
			return s
		}
	}
	return nil
}

func (k *kind) childField(name string) *childField {
	for _, c := range k.children {
		if c.name == name {
			return c
		}
	}
	return nil
}

func (k *kind) markSym(field, evidence string) {
	if s := k.strField(field); s != nil {
		s.isSym = true
		for _, e := range s.evidence {
			if e == evidence {
				return
			}
		}
		s.evidence = append(s.evidence, evidence)
	}
}

func isSymbolsIface(t types.Type) bool {
	if t == nil {
		return false
	}
	if n, ok := t.(*types.Named); ok && n.Obj().Pkg() == astPkg {
		return n.Obj().Name() == "Symbols" || n.Obj().Name() == "SymbolTypes"
	}
	return false
}

func src(n ast.Node) string {
	var b bytes.Buffer
	_ = printer.Fprint(&b, fset, n)
	s := strings.Join(strings.Fields(b.String()), " ")
	if len(s) > 160 {
		s = s[:160] + "..."
	}
	return s
}

func methodsOf(k *kind) []*ast.FuncDecl {
	var out []*ast.FuncDecl
	for i := 0; i < k.named.NumMethods(); i++ {
		if fd, ok := funcs[k.named.Method(i)]; ok {
			out = append(out, fd)
		}
	}
	sort.Slice(out, func(i, j int) bool { return out[i].Pos() < out[j].Pos() })
	return out
}

func recvVar(fd *ast.FuncDecl) *types.Var {
	if fd.Recv == nil || len(fd.Recv.List) == 0 || len(fd.Recv.List[0].Names) == 0 {
		return nil
	}
	v, _ := info.Defs[fd.Recv.List[0].Names[0]].(*types.Var)
	return v
}

func analyseMethods(k *kind) {
	k.symbol = "SymNone"
	var accept *ast.FuncDecl
	for _, fd := range methodsOf(k) {
		recv := recvVar(fd)
		if fd.Name.Name == "Accept" {
			accept = fd
		}
		if fd.Body == nil {
			continue
		}
		if fd.Name.Name == "Symbol" {
			k.symbol = symbolSource(k, fd, recv)
		}
		if recv == nil {
			continue
		}
		// symbol-name evidence: string fields handed to ast.Symbols / ast.SymbolTypes methods
		ast.Inspect(fd.Body, func(n ast.Node) bool {
			call, ok := n.(*ast.CallExpr)
			if !ok {
				return true
			}
			sel, ok := call.Fun.(*ast.SelectorExpr)
			if !ok {
				return true
			}
			if isSymbolsIface(info.TypeOf(sel.X)) {
				for _, a := range call.Args {
					if fp, ok := fieldPath(a, recv); ok {
						k.markSym(fp, "Symbols."+sel.Sel.Name+" in "+fd.Name.Name)
					}
				}
			}
			return true
		})
	}
	if accept == nil {
		k.unsupported = append(k.unsupported, "no Accept method declared on the type itself (promoted from an embedded field?)")
		return
	}
	analyseAccept(k, accept)
}

func symbolSource(k *kind, fd *ast.FuncDecl, recv *types.Var) string {
	if len(fd.Body.List) == 1 {
		if ret, ok := fd.Body.List[0].(*ast.ReturnStmt); ok && len(ret.Results) == 1 {
			if recv != nil {
				if fp, ok := fieldPath(ret.Results[0], recv); ok && k.strField(fp) != nil {
					k.markSym(fp, "returned by Symbol()")
					return "SymOwn " + coqStr(fp)
				}
				if call, ok := ret.Results[0].(*ast.CallExpr); ok && len(call.Args) == 0 {
					if sel, ok := call.Fun.(*ast.SelectorExpr); ok && sel.Sel.Name == "Symbol" {
						if fp, ok := fieldPath(sel.X, recv); ok && k.childField(fp) != nil {
							return "SymVia " + coqStr(fp)
						}
					}
				}
			}
		}
	}
	return "SymOther " + coqStr(src(fd.Body))
}

// isVisitorParam: the Accept parameter
func visitorParam(fd *ast.FuncDecl) *types.Var {
	if fd.Type.Params == nil || len(fd.Type.Params.List) != 1 || len(fd.Type.Params.List[0].Names) != 1 {
		return nil
	}
	v, _ := info.Defs[fd.Type.Params.List[0].Names[0]].(*types.Var)
	return v
}

func isIdentOf(e ast.Expr, v *types.Var) bool {
	id, ok := e.(*ast.Ident)
	return ok && v != nil && info.Uses[id] == v
}

func isNil(e ast.Expr) bool {
	id, ok := e.(*ast.Ident)
	if !ok {
		return false
	}
	_, isNilObj := info.Uses[id].(*types.Nil)
	return isNilObj
}

// acceptCallOn: stmt is `<x>.Accept(visitor)`; returns x
func acceptCallOn(s ast.Stmt, vis *types.Var) (ast.Expr, bool) {
	es, ok := s.(*ast.ExprStmt)
	if !ok {
		return nil, false
	}
	call, ok := es.X.(*ast.CallExpr)
	if !ok || len(call.Args) != 1 || !isIdentOf(call.Args[0], vis) {
		return nil, false
	}
	sel, ok := call.Fun.(*ast.SelectorExpr)
	if !ok || sel.Sel.Name != "Accept" {
		return nil, false
	}
	return sel.X, true
}

func analyseAccept(k *kind, fd *ast.FuncDecl) {
	recv, vis := recvVar(fd), visitorParam(fd)
	if fd.Body == nil || vis == nil {
		k.unsupported = append(k.unsupported, "Accept has no body or an unexpected signature")
		return
	}
	stmts := fd.Body.List
	// whole body wrapped in `if node != nil { ... }`
	if len(stmts) == 1 {
		if ifs, ok := stmts[0].(*ast.IfStmt); ok && ifs.Init == nil && ifs.Else == nil {
			if be, ok := ifs.Cond.(*ast.BinaryExpr); ok && be.Op == token.NEQ && recv != nil &&
				((isIdentOf(be.X, recv) && isNil(be.Y)) || (isIdentOf(be.Y, recv) && isNil(be.X))) {
				k.recvGuard = true
				stmts = ifs.Body.List
			}
		}
	}
	for _, s := range stmts {
		k.accept = append(k.accept, acceptStmt(k, s, recv, vis))
	}
}

func acceptStmt(k *kind, s ast.Stmt, recv, vis *types.Var) string {
	unknown := func() string { return "AUnknown " + coqStr(src(s)) }
	switch st := s.(type) {
	case *ast.ExprStmt:
		if x, ok := acceptCallOn(st, vis); ok {
			if recv != nil {
				if fp, ok := fieldPath(x, recv); ok {
					if c := k.childField(fp); c != nil && !c.slice {
						k.forwarded[fp] = true
						return "AAccept " + coqStr(fp)
					}
				}
			}
			return unknown()
		}
		call, ok := st.X.(*ast.CallExpr)
		if !ok {
			return unknown()
		}
		sel, ok := call.Fun.(*ast.SelectorExpr)
		if !ok || !isIdentOf(sel.X, vis) {
			return unknown()
		}
		if sel.Sel.Name == "VisitSymbol" {
			if len(call.Args) >= 1 && recv != nil {
				if fp, ok := fieldPath(call.Args[0], recv); ok && k.strField(fp) != nil {
					k.markSym(fp, "visitor.VisitSymbol in Accept")
					return "AVisitSym " + coqStr(fp)
				}
			}
			return unknown()
		}
		// any other callback: visitor.VisitX(node)
		for _, a := range call.Args {
			if !isIdentOf(a, recv) {
				return unknown()
			}
		}
		return "ACallback " + coqStr(sel.Sel.Name)
	case *ast.IfStmt:
		if st.Init != nil || st.Else != nil || len(st.Body.List) != 1 || recv == nil {
			return unknown()
		}
		be, ok := st.Cond.(*ast.BinaryExpr)
		if !ok || be.Op != token.NEQ {
			return unknown()
		}
		var subject ast.Expr
		if isNil(be.Y) {
			subject = be.X
		} else if isNil(be.X) {
			subject = be.Y
		} else {
			return unknown()
		}
		fp, ok := fieldPath(subject, recv)
		if !ok {
			return unknown()
		}
		x, ok := acceptCallOn(st.Body.List[0], vis)
		if !ok {
			return unknown()
		}
		fp2, ok := fieldPath(x, recv)
		if !ok || fp2 != fp {
			return unknown()
		}
		if c := k.childField(fp); c != nil && !c.slice {
			k.guardedIf[fp] = true
			k.forwarded[fp] = true
			return "AAcceptIfNonNil " + coqStr(fp)
		}
		return unknown()
	case *ast.RangeStmt:
		if recv == nil || len(st.Body.List) != 1 || st.Value == nil {
			return unknown()
		}
		fp, ok := fieldPath(st.X, recv)
		if !ok {
			return unknown()
		}
		valID, ok := st.Value.(*ast.Ident)
		if !ok {
			return unknown()
		}
		valVar, _ := info.Defs[valID].(*types.Var)
		x, ok := acceptCallOn(st.Body.List[0], vis)
		if !ok || valVar == nil || !isIdentOf(x, valVar) {
			return unknown()
		}
		if c := k.childField(fp); c != nil && c.slice {
			k.forwarded[fp] = true
			return "AAcceptEach " + coqStr(fp)
		}
		return unknown()
	}
	return unknown()
}

func finishNilable(k *kind) {
	for _, c := range k.children {
		switch {
		case c.slice:
			c.nilable = true
		case k.guardedIf[c.name]:
			c.nilable = true
		case c.static != "" && kindByNm[c.static] != nil && kindByNm[c.static].recvGuard:
			c.nilable = true
		case !k.forwarded[c.name]:
			c.nilable = true // Accept never touches the field, so nil is harmless to it
		}
	}
}

// ---------------------------------------------------------------------------------- validator

type vmethod struct {
	name        string
	checksOn    int // -1 none
	latch       bool
	reportsOn   int
	description string
}

type vdesc struct {
	typ            string
	embedsDefault  bool
	overrides      []vmethod
	entry          string
	entryPointer   bool
	acceptsQuery   bool
	returnsErr     bool
	problems       []string
	visitorMethods map[string]bool
}

// The validating visitor is analysed syntactically (boltz needs bbolt etc. to type-check; the
// facts wanted here are about three small declarations).
func analyseValidator(dir string) *vdesc {
	v := &vdesc{entry: "ValidateSymbolsArePublic"}
	// the Visitor interface's method names, from the typed ast package
	v.visitorMethods = map[string]bool{}
	if vo := astPkg.Scope().Lookup("Visitor"); vo != nil {
		if it, ok := vo.Type().Underlying().(*types.Interface); ok {
			for i := 0; i < it.NumMethods(); i++ {
				v.visitorMethods[it.Method(i).Name()] = true
			}
		}
	}
	fs := token.NewFileSet()
	pkgs, err := parser.ParseDir(fs, dir, func(fi os.FileInfo) bool { return !strings.HasSuffix(fi.Name(), "_test.go") }, 0)
	if err != nil {
		die("parsing %s: %v", dir, err)
	}
	var files []*ast.File
	for _, p := range pkgs {
		var names []string
		for n := range p.Files {
			names = append(names, n)
		}
		sort.Strings(names)
		for _, n := range names {
			files = append(files, p.Files[n])
		}
	}
	// entry point
	var entry *ast.FuncDecl
	for _, f := range files {
		for _, d := range f.Decls {
			if fd, ok := d.(*ast.FuncDecl); ok && fd.Recv == nil && fd.Name.Name == v.entry {
				entry = fd
			}
		}
	}
	if entry == nil || entry.Body == nil {
		v.problems = append(v.problems, "entry point "+v.entry+" not found")
		return v
	}
	// which variable is handed to <query>.Accept(...) and how was it built
	var queryParam string
	if entry.Type.Params != nil && len(entry.Type.Params.List) > 0 && len(entry.Type.Params.List[0].Names) > 0 {
		queryParam = entry.Type.Params.List[0].Names[0].Name
	}
	visitorVar := ""
	for _, s := range entry.Body.List { // top level statements only: unconditional
		es, ok := s.(*ast.ExprStmt)
		if !ok {
			continue
		}
		call, ok := es.X.(*ast.CallExpr)
		if !ok || len(call.Args) != 1 {
			continue
		}
		sel, ok := call.Fun.(*ast.SelectorExpr)
		if !ok || sel.Sel.Name != "Accept" {
			continue
		}
		if id, ok := sel.X.(*ast.Ident); ok && id.Name == queryParam {
			if a, ok := call.Args[0].(*ast.Ident); ok {
				visitorVar = a.Name
				v.acceptsQuery = true
			}
		}
	}
	for _, s := range entry.Body.List {
		as, ok := s.(*ast.AssignStmt)
		if !ok || len(as.Lhs) != 1 || len(as.Rhs) != 1 {
			continue
		}
		if id, ok := as.Lhs[0].(*ast.Ident); !ok || id.Name != visitorVar {
			continue
		}
		rhs := as.Rhs[0]
		if u, ok := rhs.(*ast.UnaryExpr); ok && u.Op == token.AND {
			v.entryPointer = true
			rhs = u.X
		}
		if cl, ok := rhs.(*ast.CompositeLit); ok {
			if id, ok := cl.Type.(*ast.Ident); ok {
				v.typ = id.Name
			}
		}
	}
	if n := len(entry.Body.List); n > 0 {
		if ret, ok := entry.Body.List[n-1].(*ast.ReturnStmt); ok && len(ret.Results) == 1 {
			if sel, ok := ret.Results[0].(*ast.SelectorExpr); ok {
				if id, ok := sel.X.(*ast.Ident); ok && id.Name == visitorVar && sel.Sel.Name == "err" {
					v.returnsErr = true
				}
			}
		}
	}
	if v.typ == "" {
		v.problems = append(v.problems, "could not determine the visitor type built in "+v.entry)
		return v
	}
	// the visitor struct and its methods
	anyPtrRecv := false
	for _, f := range files {
		for _, d := range f.Decls {
			switch dd := d.(type) {
			case *ast.GenDecl:
				for _, sp := range dd.Specs {
					ts, ok := sp.(*ast.TypeSpec)
					if !ok || ts.Name.Name != v.typ {
						continue
					}
					if st, ok := ts.Type.(*ast.StructType); ok {
						for _, fl := range st.Fields.List {
							if len(fl.Names) == 0 {
								if sel, ok := fl.Type.(*ast.SelectorExpr); ok && sel.Sel.Name == "DefaultVisitor" {
									v.embedsDefault = true
								}
							}
						}
					}
				}
			case *ast.FuncDecl:
				if dd.Recv == nil || len(dd.Recv.List) != 1 {
					continue
				}
				rt := dd.Recv.List[0].Type
				isPtr := false
				if s, ok := rt.(*ast.StarExpr); ok {
					rt = s.X
					isPtr = true
				}
				if id, ok := rt.(*ast.Ident); !ok || id.Name != v.typ {
					continue
				}
				if !v.visitorMethods[dd.Name.Name] {
					continue
				}
				if isPtr {
					anyPtrRecv = true
				}
				v.overrides = append(v.overrides, analyseOverride(dd))
			}
		}
	}
	// with pointer-receiver overrides the visitor must be handed over as a pointer; with value
	// receivers either works
	if !v.entryPointer {
		if anyPtrRecv {
			v.problems = append(v.problems, "visitor is passed by value but an override has a pointer receiver: DefaultVisitor's no-op would be dispatched")
		} else {
			v.entryPointer = true
		}
	}
	sort.Slice(v.overrides, func(i, j int) bool { return v.overrides[i].name < v.overrides[j].name })
	return v
}

func analyseOverride(fd *ast.FuncDecl) vmethod {
	m := vmethod{name: fd.Name.Name, checksOn: -1, reportsOn: -1}
	var params []string
	if fd.Type.Params != nil {
		for _, f := range fd.Type.Params.List {
			if len(f.Names) == 0 {
				params = append(params, "_")
			}
			for _, n := range f.Names {
				params = append(params, n.Name)
			}
		}
	}
	paramIdx := func(e ast.Expr) int {
		if id, ok := e.(*ast.Ident); ok && id.Name != "_" {
			for i, p := range params {
				if p == id.Name {
					return i
				}
			}
		}
		return -1
	}
	recvName := ""
	if len(fd.Recv.List[0].Names) > 0 {
		recvName = fd.Recv.List[0].Names[0].Name
	}
	isErrField := func(e ast.Expr) bool {
		sel, ok := e.(*ast.SelectorExpr)
		if !ok || sel.Sel.Name != "err" {
			return false
		}
		id, ok := sel.X.(*ast.Ident)
		return ok && id.Name == recvName
	}
	if fd.Body == nil {
		return m
	}
	// expected shape: if <recv>.err == nil && !<recv>.store.IsPublicSymbol(p) { <recv>.err = ast.NewUnknownSymbolError(p) }
	ast.Inspect(fd.Body, func(n ast.Node) bool {
		switch x := n.(type) {
		case *ast.CallExpr:
			if sel, ok := x.Fun.(*ast.SelectorExpr); ok {
				if sel.Sel.Name == "IsPublicSymbol" && len(x.Args) == 1 {
					m.checksOn = paramIdx(x.Args[0])
				}
				if sel.Sel.Name == "NewUnknownSymbolError" && len(x.Args) == 1 {
					m.reportsOn = paramIdx(x.Args[0])
				}
			}
		case *ast.BinaryExpr:
			if x.Op == token.EQL {
				if id, ok := x.Y.(*ast.Ident); ok && id.Name == "nil" && isErrField(x.X) {
					m.latch = true
				}
			}
		}
		return true
	})
	// the check must guard the assignment: `if ... !IsPublicSymbol(..) {` at top level, nothing else
	ok := len(fd.Body.List) == 1
	if ok {
		ifs, isIf := fd.Body.List[0].(*ast.IfStmt)
		ok = isIf && ifs.Else == nil && ifs.Init == nil && negatedPublicCheck(ifs.Cond) && len(ifs.Body.List) == 1
		if ok {
			as, isAs := ifs.Body.List[0].(*ast.AssignStmt)
			ok = isAs && len(as.Lhs) == 1 && isErrField(as.Lhs[0])
		}
	}
	if !ok {
		m.checksOn, m.reportsOn = -1, -1
	}
	return m
}

// negatedPublicCheck: cond is a conjunction one of whose conjuncts is !x.IsPublicSymbol(...)
func negatedPublicCheck(e ast.Expr) bool {
	switch x := e.(type) {
	case *ast.ParenExpr:
		return negatedPublicCheck(x.X)
	case *ast.BinaryExpr:
		if x.Op == token.LAND {
			return negatedPublicCheck(x.X) || negatedPublicCheck(x.Y)
		}
	case *ast.UnaryExpr:
		if x.Op == token.NOT {
			if call, ok := x.X.(*ast.CallExpr); ok {
				if sel, ok := call.Fun.(*ast.SelectorExpr); ok && sel.Sel.Name == "IsPublicSymbol" {
					return true
				}
			}
		}
	}
	return false
}

// ---------------------------------------------------------------------------------- output

func coqStr(s string) string {
	var b strings.Builder
	b.WriteByte('"')
	for _, r := range s {
		switch {
		case r == '"':
			b.WriteString(`""`)
		case r < 32 || r > 126:
			b.WriteByte('?')
		default:
			b.WriteRune(r)
		}
	}
	b.WriteByte('"')
	return b.String()
}

func coqBool(b bool) string {
	if b {
		return "true"
	}
	return "false"
}

func coqList(items []string, indent string) string {
	if len(items) == 0 {
		return "[]"
	}
	if len(items) <= 1 && len(items[0]) < 60 {
		return "[" + items[0] + "]"
	}
	return "[\n" + indent + "  " + strings.Join(items, ";\n"+indent+"  ") + " ]"
}

func coqOptNat(i int) string {
	if i < 0 {
		return "None"
	}
	return fmt.Sprintf("(Some %d)", i)
}

func emit(v *vdesc) {
	var b strings.Builder
	w := func(format string, a ...interface{}) { fmt.Fprintf(&b, format, a...) }
	w("(* GENERATED FILE: GenAstTable.v *)\n")
	w("(* Written by translators/asttable from <repo>/ast/*.go and <repo>/boltz/*.go on every run of\n")
	w("   ./check C20.  Do not edit: the committed copy only lets the project build before the first\n")
	w("   translator run.  %d node kinds. *)\n", len(kinds))
	w("From Coq Require Import List.\n")
	w("From Storage Require Import Ast.AstTable.\n")
	w("Import ListNotations.\n")
	w("Open Scope name_scope.\n\n")
	var names []string
	for _, k := range kinds {
		id := "kind_" + k.name
		names = append(names, id)
		w("Definition %s : kdesc := {|\n", id)
		w("  k_name := %s; k_ptr := %s; k_file := %s;\n", coqStr(k.name), coqBool(k.ptr), coqStr(k.file))
		var strs []string
		for _, s := range k.strs {
			var ev []string
			for _, e := range s.evidence {
				ev = append(ev, coqStr(e))
			}
			strs = append(strs, fmt.Sprintf("{| sf_name := %s; sf_issym := %s; sf_evidence := [%s] |}", coqStr(s.name), coqBool(s.isSym), strings.Join(ev, "; ")))
		}
		w("  k_strs := %s;\n", coqList(strs, "  "))
		var cs []string
		for _, c := range k.children {
			shape := "FSingle"
			if c.slice {
				shape = "FSlice"
			}
			cs = append(cs, fmt.Sprintf("{| cf_name := %s; cf_shape := %s; cf_type := %s; cf_hidden := %s; cf_nilable := %s |}",
				coqStr(c.name), shape, coqStr(c.typ), coqBool(c.hidden), coqBool(c.nilable)))
		}
		w("  k_children := %s;\n", coqList(cs, "  "))
		w("  k_symbol := %s;\n", k.symbol)
		w("  k_recv_guard := %s;\n", coqBool(k.recvGuard))
		w("  k_accept := %s;\n", coqList(k.accept, "  "))
		var us []string
		for _, u := range k.unsupported {
			us = append(us, coqStr(u))
		}
		w("  k_unsupported := %s |}.\n\n", coqList(us, "  "))
	}
	w("Definition table : list kdesc := %s.\n\n", coqList(names, ""))

	var ovs []string
	for _, m := range v.overrides {
		ovs = append(ovs, fmt.Sprintf("{| vm_name := %s; vm_checks_public_on := %s; vm_latch := %s; vm_reports_param := %s |}",
			coqStr(m.name), coqOptNat(m.checksOn), coqBool(m.latch), coqOptNat(m.reportsOn)))
	}
	for _, p := range v.problems {
		w("(* validator analysis: %s *)\n", strings.ReplaceAll(p, "*)", "* )"))
	}
	w("Definition validator : vdesc := {|\n")
	w("  v_type := %s;\n", coqStr(v.typ))
	w("  v_embeds_default := %s;\n", coqBool(v.embedsDefault))
	w("  v_overrides := %s;\n", coqList(ovs, "  "))
	w("  v_entry := %s;\n", coqStr(v.entry))
	w("  v_entry_pointer := %s;\n", coqBool(v.entryPointer && len(v.problems) == 0))
	w("  v_entry_accepts_query := %s;\n", coqBool(v.acceptsQuery))
	w("  v_entry_returns_err := %s |}.\n", coqBool(v.returnsErr))
	fmt.Print(b.String())
}
