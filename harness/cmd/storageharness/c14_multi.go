package main

import (
	"fmt"
	"strings"

	"github.com/openziti/storage/ast"
	"github.com/openziti/storage/boltz"
	"go.etcd.io/bbolt"
)

// C14, M lines: SEVERAL cursors alive at once inside one transaction, each driven by its own Next/Seek program, the
// programs interleaved step by step in every (bounded) merge order.  The buckets are not modified, so every cursor
// must observe exactly what it would observe alone (non-interference; coq: Cursor/Product.v,
// interleaved_cursors_do_not_interfere).
//
//   M <ncur> (<kind> <fw> <present> <mask> <mask2> <nA> A.. <nB> B.. <nops> ops..).. <nsched> s..
//
// kind/fw/A/B/ops as in the C lines (c14.go); mask names the row / bucket (holder h<mask>, typed/<mask>, role r<mask>;
// -1 = an entity that does not exist), mask2 the second input of union / filtered.  Schedule entry s = index of the
// cursor that acts: its first turn is the constructor, every later turn the next operation of its program (a turn
// after the end of the program does nothing).  Observation line: one token per schedule entry, the comma separated
// VIEW of all cursors after that turn: "-" not opened yet, I / V<hex> / P as in the C lines.  Every cursor is
// re-observed after every turn of every other cursor, so a cursor that is moved by somebody else shows at once.
// Additional kinds: gs-tags / gs-grps = store.GetSymbol("tags"|"grps").(RuntimeEntitySetSymbol).OpenCursor (what the
// query engine and every client of the public API get), ids = IterateIds of the group store.

type c14mCur struct {
	kind        string
	fw, present bool
	mask, mask2 int
	a, b        []string
	ops         []c14Op
	mk          func() ast.SetCursor
	seek        func(c ast.SetCursor, v string) bool
}

func (c *c14mCur) String() string {
	f, p := 0, 0
	if c.fw {
		f = 1
	}
	if c.present {
		p = 1
	}
	return fmt.Sprintf("%s %d %d %d %d %s %s %s", c.kind, f, p, c.mask, c.mask2, c14Set(c.a), c14Set(c.b), c14OpsString(c.ops))
}

func c14mRow(mask int) string {
	if mask < 0 {
		return "nobody"
	}
	return c14Holder(mask)
}

// c14mMake resolves (kind, fw, mask, mask2) over the cursor world; ops are given untagged
func c14mMake(tx *bbolt.Tx, w *c14World, kinds []c14Kind, kind string, fw bool, mask, mask2 int, ops []c14Op) *c14mCur {
	c := &c14mCur{kind: kind, fw: fw, present: true, mask: mask, mask2: mask2, ops: ops, seek: c14SeekPlain}
	typedCur := func(m int) ast.SetCursor {
		b := tx.Bucket([]byte("typed")).Bucket([]byte(fmt.Sprint(m)))
		if fw {
			return boltz.NewTypedForwardBoltCursor(b.Cursor(), boltz.TypeString)
		}
		return boltz.NewTypedReverseBoltCursor(b.Cursor(), boltz.TypeString)
	}
	sub := func(u []string, m int) []string {
		if m < 0 {
			return nil
		}
		return c14Subset(u, m)
	}
	switch kind {
	case "gs-tags", "gs-grps", "setsym", "setsymraw":
		name, u := "tags", c14ElemU
		if kind == "gs-grps" {
			name, u = "grps", c14IdU
		}
		c.a = sub(u, mask)
		c.present = mask >= 0 && (kind != "gs-grps" || mask != 0)
		c.seek = c14SeekString
		if kind == "setsymraw" {
			c.seek = c14SeekTagged
		}
		row := []byte(c14mRow(mask))
		if strings.HasPrefix(kind, "gs-") {
			c.mk = func() ast.SetCursor {
				sym := c14SymOf(w, name)
				if sym == nil {
					return nil
				}
				return sym.OpenCursor(tx, row)
			}
		} else {
			c.mk = func() ast.SetCursor { return w.tagsSym.GetRuntimeSymbol().OpenCursor(tx, row) }
		}
		return c
	case "union":
		c.a, c.b = sub(c14ElemU, mask), sub(c14ElemU, mask2)
		c.mk = func() ast.SetCursor { return ast.NewUnionSetCursor(typedCur(mask), typedCur(mask2), fw) }
		return c
	case "filtered":
		c.a, c.b = sub(c14ElemU, mask), sub(c14ElemU, mask2)
		accept := map[string]bool{}
		for _, e := range c.b {
			accept[e] = true
		}
		c.mk = func() ast.SetCursor {
			return ast.NewFilteredCursor(typedCur(mask), func(val []byte) bool { return accept[string(val)] })
		}
		return c
	case "tree":
		c.a = sub(c14ElemU, mask)
		set := ast.NewTreeSet(fw)
		for _, e := range c.a {
			set.Add([]byte(e))
		}
		// ONE TreeSet, a cursor per ToCursor call
		c.mk = func() ast.SetCursor { return set.ToCursor() }
		return c
	case "ids":
		c.a = append([]string(nil), c14IdU...)
		c.mask, mask = 31, 31
		c.fw = true
		c.mk = func() ast.SetCursor { return w.grps.IterateIds(tx, ast.BoolNodeTrue) }
		return c
	}
	for _, k := range kinds {
		if k.name != kind || k.fw != fw || mask < 0 {
			continue
		}
		u := c14ElemU
		if k.idU {
			u = c14IdU
		}
		c.a = c14Subset(u, mask)
		if k.name == "tb-raw" || k.name == "tb-seekable" {
			c.a = nil
			for _, e := range c14Subset(u, mask) {
				c.a = append(c.a, string(boltz.PrependFieldType(boltz.TypeString, []byte(e))))
			}
		}
		if k.tagOps {
			c.ops = c14TagOps(ops)
		}
		if mask == 0 && k.name == "idxval" {
			c.present = false
		}
		c.seek = k.seek
		c.mk = k.mk(tx, w, mask)
		return c
	}
	return nil
}

// every merge order of sequences of the given lengths (as lists of sequence indices)
func c14mMerges(lens []int) [][]int {
	var out [][]int
	left := append([]int(nil), lens...)
	var cur []int
	var rec func()
	rec = func() {
		done := true
		for i := range left {
			if left[i] > 0 {
				done = false
				left[i]--
				cur = append(cur, i)
				rec()
				cur = cur[:len(cur)-1]
				left[i]++
			}
		}
		if done {
			out = append(out, append([]int(nil), cur...))
		}
	}
	rec()
	return out
}

// a few characteristic merge orders: strict alternation (both start orders), one after the other (both orders), open all
// first then run one program after the other, and "the first opens, the second runs completely, the first continues"
func c14mFewMerges(lens []int) [][]int {
	n := len(lens)
	var out [][]int
	seen := map[string]bool{}
	add := func(s []int) {
		k := fmt.Sprint(s)
		if !seen[k] {
			seen[k] = true
			out = append(out, s)
		}
	}
	for start := 0; start < n; start++ {
		left := append([]int(nil), lens...)
		var alt, seq, openFirst, nested []int
		for more := true; more; {
			more = false
			for d := 0; d < n; d++ {
				i := (start + d) % n
				if left[i] > 0 {
					left[i]--
					alt = append(alt, i)
					more = true
				}
			}
		}
		for d := 0; d < n; d++ {
			i := (start + d) % n
			for k := 0; k < lens[i]; k++ {
				seq = append(seq, i)
			}
			openFirst = append(openFirst, i)
		}
		for d := 0; d < n; d++ {
			i := (start + d) % n
			for k := 1; k < lens[i]; k++ {
				openFirst = append(openFirst, i)
			}
		}
		nested = append(nested, start)
		for d := 1; d < n; d++ {
			i := (start + d) % n
			for k := 0; k < lens[i]; k++ {
				nested = append(nested, i)
			}
		}
		for k := 1; k < lens[start]; k++ {
			nested = append(nested, start)
		}
		add(alt)
		add(seq)
		add(openFirst)
		add(nested)
	}
	return out
}

func c14mObserve(c ast.SetCursor) (s string) {
	defer func() {
		if r := recover(); r != nil {
			s = "P"
		}
	}()
	return c14Observe(c)
}

func c14MultiRun(curs []*c14mCur, sched []int) string {
	type st struct {
		c      ast.SetCursor
		opened bool
		pc     int
		dead   string
	}
	sts := make([]st, len(curs))
	views := make([]string, 0, len(sched))
	for _, j := range sched {
		if j >= 0 && j < len(curs) {
			s := &sts[j]
			func() {
				defer func() {
					if r := recover(); r != nil {
						s.dead = "P"
					}
				}()
				switch {
				case s.dead != "":
				case !s.opened:
					s.opened = true
					s.c = curs[j].mk()
					if s.c == nil {
						s.dead = "X"
					}
				case s.pc < len(curs[j].ops):
					o := curs[j].ops[s.pc]
					s.pc++
					if o.seek {
						if !curs[j].seek(s.c, o.v) {
							s.dead = "X"
						}
					} else {
						s.c.Next()
					}
				}
			}()
		}
		view := make([]string, len(curs))
		for i := range sts {
			switch {
			case !sts[i].opened:
				view[i] = "-"
			case sts[i].dead != "":
				view[i] = sts[i].dead
			default:
				view[i] = c14mObserve(sts[i].c)
				if view[i] == "P" {
					sts[i].dead = "P"
				}
			}
		}
		views = append(views, strings.Join(view, ","))
	}
	return strings.Join(views, " ")
}

func (o *c14Out) multiCase(curs []*c14mCur, sched []int) {
	parts := []string{"M", fmt.Sprint(len(curs))}
	kinds := make([]string, len(curs))
	for i, c := range curs {
		parts = append(parts, c.String())
		kinds[i] = c.kind
	}
	parts = append(parts, fmt.Sprint(len(sched)))
	for _, s := range sched {
		parts = append(parts, fmt.Sprint(s))
	}
	o.emit("multi-"+strings.Join(kinds, "+"), strings.Join(parts, " "), c14MultiRun(curs, sched))
}

type c14mSpec struct {
	kind string
	fw   bool
}

func c14Multi(tx *bbolt.Tx, w *c14World, out *c14Out, kinds []c14Kind, thorough bool) {
	N := c14Op{}
	S := func(v string) c14Op { return c14Op{seek: true, v: v} }
	progs := [][]c14Op{{}, {N}, {N, N}, {S("a"), N}, {N, S("b")}}
	if thorough {
		progs = append(progs, []c14Op{N, N, N}, []c14Op{S("ab"), N, N}, []c14Op{N, S(""), N}, []c14Op{S("\xff\xff"), S("a")})
	}
	lens := func(curs []*c14mCur) []int {
		l := make([]int, len(curs))
		for i, c := range curs {
			l[i] = len(c.ops) + 1
		}
		return l
	}
	run := func(all bool, specs []c14mSpec, masks, masks2 []int, ps [][]c14Op) {
		curs := make([]*c14mCur, len(specs))
		for i, sp := range specs {
			curs[i] = c14mMake(tx, w, kinds, sp.kind, sp.fw, masks[i], masks2[i], ps[i])
			if curs[i] == nil {
				return
			}
		}
		ms := c14mFewMerges(lens(curs))
		if all {
			ms = c14mMerges(lens(curs))
		}
		for _, sched := range ms {
			out.multiCase(curs, sched)
		}
	}

	// (1) two cursors of the SAME set symbol (and of symbols that resolve to the same field), rows different or the same
	symKinds := []string{"gs-tags", "gs-grps", "setsym", "setsymraw"}
	rows := []int{-1, 0, 1, 2, 12, 22, 31}
	if thorough {
		rows = []int{-1, 0, 1, 2, 6, 12, 22, 25, 31}
	}
	for _, k1 := range symKinds {
		for _, k2 := range symKinds {
			if k1 != k2 && !(k1 == "gs-tags" && k2 == "setsym") && !(k1 == "setsymraw" && k2 == "gs-tags") {
				continue
			}
			for _, r1 := range rows {
				for _, r2 := range rows {
					for i1, p1 := range progs {
						for i2, p2 := range progs {
							// every merge order for the short and the Next-only programs, characteristic ones for the rest
							all := (i1 <= 2 && i2 <= 2) || (thorough && len(p1)+len(p2) <= 5)
							if !thorough && k1 != k2 && !(i1 == 2 && i2 == 2) {
								continue
							}
							run(all, []c14mSpec{{k1, true}, {k2, true}}, []int{r1, r2}, []int{0, 0}, [][]c14Op{p1, p2})
						}
					}
				}
			}
		}
	}
	// (2) three cursors of the same set symbol: every merge order of (open, Next) x 3 and of the 2-op programs (thorough)
	triRows := []int{2, 12, 31}
	if thorough {
		triRows = []int{0, 2, 12, 31}
	}
	for _, k := range []string{"gs-tags", "gs-grps"} {
		for _, r1 := range triRows {
			for _, r2 := range triRows {
				for _, r3 := range triRows {
					sp := []c14mSpec{{k, true}, {k, true}, {k, true}}
					run(true, sp, []int{r1, r2, r3}, []int{0, 0, 0}, [][]c14Op{{N}, {N}, {N}})
					run(thorough, sp, []int{r1, r2, r3}, []int{0, 0, 0}, [][]c14Op{{N, N}, {S("a"), N}, {N, S("b")}})
				}
			}
		}
	}
	// (3) cursors of different (and the same) families over the same bucket / over different buckets
	var fam []c14mSpec
	for _, k := range kinds {
		fam = append(fam, c14mSpec{k.name, k.fw})
	}
	for _, fw := range []bool{true, false} {
		fam = append(fam, c14mSpec{"union", fw}, c14mSpec{"filtered", fw}, c14mSpec{"tree", fw})
	}
	fam = append(fam, c14mSpec{"gs-tags", true}, c14mSpec{"gs-grps", true}, c14mSpec{"ids", true})
	seekable := map[string]bool{}
	for _, k := range kinds {
		seekable[k.name] = k.seekable
	}
	seekable["gs-tags"], seekable["gs-grps"], seekable["ids"] = true, true, true
	famRows := [][2]int{{14, 14}, {14, 21}}
	if thorough {
		famRows = [][2]int{{14, 14}, {14, 21}, {31, 31}, {1, 31}, {6, 0}}
	}
	prog := func(sp c14mSpec, k int) []c14Op {
		if !seekable[sp.kind] || k == 0 {
			return []c14Op{N, N}
		}
		if k == 1 {
			return []c14Op{S("ab"), N}
		}
		return []c14Op{N, S("a")}
	}
	for _, s1 := range fam {
		for _, s2 := range fam {
			for _, rr := range famRows {
				for k := 0; k < 3; k++ {
					if k > 0 && !seekable[s1.kind] && !seekable[s2.kind] {
						continue
					}
					if !thorough && k == 2 {
						continue
					}
					// second input of union / filtered: a set that overlaps
					run(thorough && k == 0, []c14mSpec{s1, s2}, []int{rr[0], rr[1]}, []int{22, 22}, [][]c14Op{prog(s1, k), prog(s2, (k*2)%3)})
				}
			}
		}
	}
}

// ---- replay -------------------------------------------------------------------------------------

func c14ReplayMulti(dir string, out *c14Out, line string) error {
	db, w, kinds, err := c14CursorWorld(dir)
	if err != nil {
		return err
	}
	defer db.Close()
	f := strings.Fields(line)
	pos := 1
	next := func() string { pos++; return f[pos-1] }
	num := func() int {
		n := 0
		fmt.Sscan(next(), &n)
		return n
	}
	skipSet := func() {
		n := num()
		pos += n
	}
	return db.View(func(tx *bbolt.Tx) error {
		ncur := num()
		curs := make([]*c14mCur, ncur)
		for i := range curs {
			kind := next()
			fw := next() == "1"
			next() // present
			mask, mask2 := num(), num()
			skipSet()
			skipSet()
			nops := num()
			ops := make([]c14Op, nops)
			tagged := kind == "tb-raw" || kind == "tb-seekable"
			for k := range ops {
				ops[k] = c14ParseOp(next())
				if tagged && ops[k].seek && len(ops[k].v) > 0 {
					ops[k].v = ops[k].v[1:] // c14mMake tags the targets again
				}
			}
			curs[i] = c14mMake(tx, w, kinds, kind, fw, mask, mask2, ops)
			if curs[i] == nil {
				return fmt.Errorf("unknown cursor kind %q in %q", kind, line)
			}
		}
		nsched := num()
		sched := make([]int, nsched)
		for i := range sched {
			sched[i] = num()
		}
		out.multiCase(curs, sched)
		return nil
	})
}
