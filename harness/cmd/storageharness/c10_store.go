package main

import (
	"encoding/binary"
	"math"
	"os"
	"path/filepath"
	"strings"
	"sync"
	"sync/atomic"
	"time"

	"github.com/antlr4-go/antlr/v4"
	"github.com/openziti/storage/ast"
	"github.com/openziti/storage/boltz"
	"github.com/openziti/storage/zitiql"
	"go.etcd.io/bbolt"
)

// C10, store-backed part ("every query that parses can be evaluated against ANY dataset ... without panicking"
// through Store.QueryIds): the filters of the typed sentence matrix, with the identifier x renamed to every kind
// of symbol a bolt-backed store offers (scalars of every type, a field below a bucket prefix, fk, string / int64 /
// float / bool / datetime sets, fk sets, dotted chains through fk and fk-set symbols, map elements, unknown names),
// are parsed against real boltz stores and evaluated through QueryIds / QueryIdsC / IterateIds / IterateValidIds /
// QueryWithCursorC over bolt files in which fields, set buckets, link buckets, prefix buckets, map buckets, entity
// buckets and whole stores are present, written nil, written empty, written with another type - or NEVER WRITTEN.
//
// Typing name "store" (c10StoreTyping).  Verdict:
//
//	E                        ast.Parse against the store returned an error
//	P:<site>                 ast.Parse panicked
//	ok                       every API over every root ran without panic
//	V:<site>@<api>@<where>   evaluation panicked; <where> = smallest dataset that still panics:
//	                         <root> or <root>:<id of the only entity of the main store that is needed>

type c10sFamily struct {
	root string
	main *boltz.BaseStore[boltz.Entity]
	sub  *boltz.BaseStore[boltz.Entity]
	leaf *boltz.BaseStore[boltz.Entity]
	// set indexes of the main store (c10_cursors.go): on the string set xss and on the fk set xks
	idxXss boltz.SetReadIndex
	idxXks boltz.SetReadIndex
}

// c10sBuild defines the three stores below the root bucket `root` through the public API
func c10sBuild(root string) *c10sFamily {
	mk := func(name string) *boltz.BaseStore[boltz.Entity] {
		def := (&boltz.StoreDefinition[boltz.Entity]{EntityType: name}).WithBasePath(root)
		return boltz.NewBaseStore(*def)
	}
	f := &c10sFamily{root: root, main: mk("mains"), sub: mk("subs"), leaf: mk("leaves")}

	m := f.main
	m.AddIdSymbol("id", ast.NodeTypeString)
	// the fixed symbols of the sentence matrix (same names and types as c10Table)
	m.AddSymbol("s", ast.NodeTypeString)
	m.AddSymbol("i", ast.NodeTypeInt64)
	m.AddSymbol("f", ast.NodeTypeFloat64)
	m.AddSymbol("b", ast.NodeTypeBool)
	m.AddSymbol("a", ast.NodeTypeBool)
	m.AddSymbol("c", ast.NodeTypeBool)
	m.AddSymbol("d", ast.NodeTypeDatetime)
	m.AddSymbol("y", ast.NodeTypeAnyType)
	m.AddSymbol("name", ast.NodeTypeString)
	m.AddSetSymbol("ss", ast.NodeTypeString)
	m.AddSetSymbol("is", ast.NodeTypeInt64)
	m.AddMapSymbol("tags", ast.NodeTypeAnyType, "tags")
	// what x is renamed to
	m.AddSymbol("xs", ast.NodeTypeString)
	m.AddSymbol("xi", ast.NodeTypeInt64)
	m.AddSymbol("xf", ast.NodeTypeFloat64)
	m.AddSymbol("xb", ast.NodeTypeBool)
	m.AddSymbol("xd", ast.NodeTypeDatetime)
	m.AddSymbolWithKey("xp", ast.NodeTypeInt64, "grp", "ext", "deep")
	m.AddFkSymbol("xk", f.sub)
	f.idxXss = m.AddSetIndex(m.AddSetSymbol("xss", ast.NodeTypeString))
	m.AddSetSymbol("xis", ast.NodeTypeInt64)
	m.AddSetSymbol("xfs", ast.NodeTypeFloat64)
	m.AddSetSymbol("xbs", ast.NodeTypeBool)
	m.AddSetSymbol("xds", ast.NodeTypeDatetime)
	f.idxXks = m.AddSetIndex(m.AddFkSetSymbol("xks", f.sub))
	m.AddFkSetSymbol("xms", m)

	s := f.sub
	s.AddIdSymbol("id", ast.NodeTypeString)
	s.AddSymbol("s", ast.NodeTypeString)
	s.AddSymbol("i", ast.NodeTypeInt64)
	s.AddSymbol("a", ast.NodeTypeBool)
	s.AddSymbol("name", ast.NodeTypeString)
	s.AddSymbol("v", ast.NodeTypeAnyType)
	s.AddSymbol("x", ast.NodeTypeInt64)
	s.AddSetSymbol("xss", ast.NodeTypeString)
	s.AddSetSymbol("xis", ast.NodeTypeInt64)
	s.AddFkSymbol("xk", f.leaf)
	s.AddFkSetSymbol("xks", f.leaf)
	s.AddFkSetSymbol("owners", m)
	s.AddMapSymbol("tags", ast.NodeTypeAnyType, "tags")

	l := f.leaf
	l.AddIdSymbol("id", ast.NodeTypeString)
	l.AddSymbol("s", ast.NodeTypeString)
	l.AddSymbol("i", ast.NodeTypeInt64)
	l.AddSymbol("a", ast.NodeTypeBool)
	l.AddSetSymbol("xss", ast.NodeTypeString)

	// link collection main.xks <-> sub.owners, as the entity stores of the suite define them
	m.AddLinkCollection(m.GetSymbol("xks"), s.GetSymbol("owners"))
	// names that clash between the stores (a scalar here, a set / fk set / map there): c10_nest.go
	c10nAddClashSymbols(f)
	// a store that links to itself through a plain fk (the fk-set self link is xms): cycles of the link graph, c10_term.go
	m.AddFkSymbol("xup", m)
	return f
}

// what the identifier x of a sentence is renamed to (main store)
var c10sTargets = []string{
	"xs", "xi", "xf", "xb", "xd", "xp", "xk",
	"xss", "xis", "xfs", "xbs", "xds", "xks", "xms",
	"xk.s", "xk.i", "xk.v", "xk.xss", "xk.xis", "xk.xk.s", "xk.xks", "xk.xks.xss",
	"xks.s", "xks.i", "xks.v", "xks.xss", "xks.xis", "xks.xk.s", "xks.xks.xss", "xms.xks.xss", "xms.xss", "xms.xk.xss",
	"tags.k", "tags.deep.j", "xk.tags.k", "xks.tags.k",
	"nosuch", "xk.nosuch", "xss.s",
}

// symbols of the sub store for the inner filter of `from xks where ...`
var c10sSubTargets = []string{"s", "i", "v", "a", "xss", "xis", "xk.s", "xk.xss", "xks.xss", "xks", "tags.k"}

// ---- datasets ----------------------------------------------------------------------------------

func c10sI64(v int64) []byte {
	b := make([]byte, 8)
	binary.LittleEndian.PutUint64(b, uint64(v))
	return b
}

func c10sF64(v float64) []byte { return c10sI64(int64(math.Float64bits(v))) }

func c10sTime(t time.Time) []byte {
	b, _ := t.UTC().MarshalBinary()
	return b
}

type c10sEntry struct {
	ft  boltz.FieldType
	val []byte
}

func c10sStrs(l ...string) []c10sEntry {
	var out []c10sEntry
	for _, s := range l {
		out = append(out, c10sEntry{boltz.TypeString, []byte(s)})
	}
	return out
}

func c10sSetList(b *boltz.TypedBucket, key string, entries []c10sEntry) {
	// SetStringList with an empty list creates the (empty) list bucket; typed entries through SetListEntry
	b.SetStringList(key, nil, nil)
	lb := b.GetBucket(key)
	for _, e := range entries {
		lb.SetListEntry(e.ft, e.val)
	}
	if lb.HasError() {
		b.SetError(lb.GetError())
	}
}

// c10sWriteMain writes one entity of the main store in the given presence profile
func c10sWriteMain(store *boltz.TypedBucket, id string) {
	if c10tyIsTyped(id) {
		c10tyWrite(store, id) // every field / entry / map element of ONE storage type: c10_types.go
		return
	}
	e := store.GetOrCreatePath(id)
	scalarsA := func(withPrefix bool) {
		e.SetString("s", "s", nil).SetInt64("i", 1, nil).SetFloat64("f", 1.5, nil).SetBool("b", true, nil)
		e.SetBool("a", true, nil).SetBool("c", false, nil).SetTime("d", c10Time, nil).SetString("y", "s", nil)
		e.SetString("name", "x", nil)
		e.SetString("xs", "s", nil).SetInt64("xi", 1, nil).SetFloat64("xf", 1.5, nil).SetBool("xb", true, nil)
		e.SetTime("xd", c10Time, nil)
		if withPrefix {
			e.GetOrCreatePath("ext", "deep").SetInt64("grp", 2, nil)
		}
	}
	scalarsB := func() {
		e.SetString("s", "", nil).SetInt32("i", -5, nil).SetFloat64("f", -2.25, nil).SetBool("b", false, nil)
		e.SetBool("a", false, nil).SetBool("c", true, nil).SetTime("d", c10Time.Add(time.Hour).In(time.FixedZone("p5", 5*3600)), nil)
		e.SetInt64("y", 1, nil).SetString("name", "hello", nil)
		e.SetString("xs", "m", nil).SetInt32("xi", 0, nil).SetFloat64("xf", 1e300, nil).SetBool("xb", false, nil)
		e.SetTime("xd", time.Date(1, 1, 1, 0, 0, 0, 0, time.UTC), nil)
		e.GetOrCreatePath("ext", "deep").SetInt32("grp", -1, nil)
	}
	setsA := func() {
		c10sSetList(e, "ss", c10sStrs("s", "", "1", "hello"))
		c10sSetList(e, "is", []c10sEntry{{boltz.TypeInt64, c10sI64(1)}, {boltz.TypeInt64, c10sI64(-5)}, {boltz.TypeInt64, c10sI64(1 << 62)}})
		c10sSetList(e, "xss", c10sStrs("a", "m", "s", "z"))
		c10sSetList(e, "xis", []c10sEntry{{boltz.TypeInt64, c10sI64(1)}, {boltz.TypeInt64, c10sI64(2)}, {boltz.TypeInt32, boltz.Int32ToBytes(7)[1:]}})
		c10sSetList(e, "xfs", []c10sEntry{{boltz.TypeFloat64, c10sF64(1.5)}, {boltz.TypeFloat64, c10sF64(-2.25)}})
		c10sSetList(e, "xbs", []c10sEntry{{boltz.TypeBool, []byte{1}}, {boltz.TypeBool, []byte{0}}})
		c10sSetList(e, "xds", []c10sEntry{{boltz.TypeTime, c10sTime(c10Time)}, {boltz.TypeTime, c10sTime(c10Time.Add(time.Hour))}})
	}
	switch id {
	case "m1-full":
		scalarsA(true)
		setsA()
		e.SetString("xk", "s1-full", nil)
		c10sSetList(e, "xks", c10sStrs("s1-full", "s2-absent", "s3-nil"))
		c10sSetList(e, "xms", c10sStrs("m1-full", "m2-full", "m3-absent"))
		e.PutMap("tags", map[string]interface{}{"k": "s", "x-y": "v", "n": int64(1)}, nil, false)
		c10nWriteClash(e, 0)
	case "m2-full":
		scalarsB()
		c10sSetList(e, "ss", c10sStrs("s"))
		c10sSetList(e, "is", []c10sEntry{{boltz.TypeInt64, c10sI64(0)}})
		c10sSetList(e, "xss", c10sStrs("s"))
		c10sSetList(e, "xis", []c10sEntry{{boltz.TypeInt64, c10sI64(1)}})
		c10sSetList(e, "xfs", []c10sEntry{{boltz.TypeFloat64, c10sF64(1)}})
		c10sSetList(e, "xbs", []c10sEntry{{boltz.TypeBool, []byte{1}}})
		c10sSetList(e, "xds", []c10sEntry{{boltz.TypeTime, c10sTime(c10Time)}})
		e.SetString("xk", "s3-nil", nil)
		c10sSetList(e, "xks", c10sStrs("s1-full"))
		c10sSetList(e, "xms", c10sStrs("m2-full"))
		e.PutMap("tags", map[string]interface{}{"k": 1.5, "x-y": true, "deep": map[string]interface{}{"j": "s"}}, nil, true)
		c10nWriteClash(e, 0)
	case "m3-absent":
		// the entity bucket and nothing else: no field, no list bucket, no prefix bucket, no map bucket
	case "m4-nil":
		for _, k := range []string{"s", "i", "f", "b", "a", "c", "d", "y", "name", "xs", "xi", "xf", "xb", "xd", "xk"} {
			e.SetNil(k)
		}
		e.GetOrCreatePath("ext") // the prefix path exists only partly
		for _, k := range []string{"ss", "is", "xss", "xis", "xfs", "xbs", "xds", "xks", "xms"} {
			e.SetStringList(k, nil, nil) // written, empty
		}
		e.PutMap("tags", map[string]interface{}{}, nil, false)
	case "m5-scalars":
		// scalars written, every set / map / prefix bucket never written; the fk names an entity without fields
		scalarsA(false)
		e.SetString("xk", "s2-absent", nil)
	case "m6-sets":
		// sets written, every scalar never written; references to entities that do not exist
		setsA()
		c10sSetList(e, "xks", c10sStrs("s1-full", "s2-absent", "s3-nil", "zz-dangling"))
		c10sSetList(e, "xms", c10sStrs("m3-absent", "m1-full", "nope"))
		e.GetOrCreatePath("ext", "deep").SetNil("grp")
		e.PutMap("tags", map[string]interface{}{"k": nil, "deep": "flat"}, nil, false)
	case "m7-dangling":
		scalarsB()
		e.SetString("xk", "zz-dangling", nil)
		c10sSetList(e, "xks", c10sStrs("zz-dangling"))
		c10sSetList(e, "xms", c10sStrs("nope"))
	case "m8-mistyped":
		// every field holds a well-formed value of another type than the symbol declares
		e.SetInt64("s", 7, nil).SetString("i", "12", nil).SetInt32("f", 3, nil).SetString("b", "true", nil)
		e.SetInt64("a", 1, nil).SetFloat64("c", 0, nil).SetString("d", "2032-09-03T15:36:50Z", nil).SetBool("y", true, nil)
		e.SetTime("name", c10Time, nil)
		e.SetFloat64("xs", 2.5, nil).SetFloat64("xi", 1.5, nil).SetString("xf", "1.5", nil).SetInt32("xb", 1, nil)
		e.SetInt64("xd", 1985353010, nil)
		e.GetOrCreatePath("ext").SetInt64("deep", 1, nil) // a value where the prefix bucket is expected
		e.SetInt64("xk", 5, nil)
		e.SetString("ss", "scalar where a list is expected", nil)
		c10sSetList(e, "is", c10sStrs("1", "x"))
		c10sSetList(e, "xss", []c10sEntry{{boltz.TypeInt64, c10sI64(1)}, {boltz.TypeNil, nil}, {boltz.TypeBool, []byte{1}}, {boltz.TypeTime, c10sTime(c10Time)}, {boltz.TypeFloat64, c10sF64(1.5)}, {boltz.TypeString, []byte("s")}})
		c10sSetList(e, "xis", []c10sEntry{{boltz.TypeString, []byte("1")}, {boltz.TypeNil, nil}, {boltz.TypeFloat64, c10sF64(1.5)}, {boltz.TypeInt64, c10sI64(1)}})
		c10sSetList(e, "xfs", []c10sEntry{{boltz.TypeInt64, c10sI64(1)}, {boltz.TypeString, []byte("1.5")}})
		c10sSetList(e, "xbs", []c10sEntry{{boltz.TypeString, []byte("true")}, {boltz.TypeInt64, c10sI64(1)}})
		c10sSetList(e, "xds", []c10sEntry{{boltz.TypeString, []byte("2032-09-03T15:36:50Z")}, {boltz.TypeInt64, c10sI64(1)}})
		c10sSetList(e, "xks", []c10sEntry{{boltz.TypeInt64, c10sI64(1)}, {boltz.TypeNil, nil}, {boltz.TypeString, []byte("s1-full")}})
		e.SetString("xms", "m1-full", nil)
		e.SetString("tags", "not a map", nil)
	default:
		panic("c10s: unknown main profile " + id)
	}
	if e.HasError() {
		panic(e.GetError())
	}
}

var c10sMainIds = append([]string{"m1-full", "m2-full", "m3-absent", "m4-nil", "m5-scalars", "m6-sets", "m7-dangling", "m8-mistyped"}, c10tyMainIds()...)

func c10sWriteLinked(root *boltz.TypedBucket) {
	subs := root.GetOrCreatePath("subs")
	e := subs.GetOrCreatePath("s1-full")
	e.SetString("s", "s", nil).SetInt64("i", 1, nil).SetBool("a", true, nil).SetString("name", "s", nil).SetInt64("v", 1, nil).SetInt64("x", 1, nil)
	c10sSetList(e, "xss", c10sStrs("a", "s"))
	c10sSetList(e, "xis", []c10sEntry{{boltz.TypeInt64, c10sI64(1)}})
	e.SetString("xk", "l1-full", nil)
	c10sSetList(e, "xks", c10sStrs("l1-full", "l2-absent", "gone"))
	c10sSetList(e, "owners", c10sStrs("m1-full", "m2-full", "m6-sets"))
	e.PutMap("tags", map[string]interface{}{"k": "s"}, nil, false)
	c10nWriteClash(e, 1)
	subs.GetOrCreatePath("s2-absent")
	c10tyWriteSubs(root)
	e = subs.GetOrCreatePath("s3-nil")
	for _, k := range []string{"s", "i", "a", "name", "v", "x", "xk"} {
		e.SetNil(k)
	}
	for _, k := range []string{"xss", "xis", "xks", "owners"} {
		e.SetStringList(k, nil, nil)
	}
	e.PutMap("tags", map[string]interface{}{}, nil, false)
	leaves := root.GetOrCreatePath("leaves")
	e = leaves.GetOrCreatePath("l1-full")
	e.SetString("s", "s", nil).SetInt64("i", 1, nil).SetBool("a", true, nil)
	c10sSetList(e, "xss", c10sStrs("s", "t"))
	c10nWriteClash(e, 2)
	leaves.GetOrCreatePath("l2-absent")
	for _, b := range []*boltz.TypedBucket{subs, leaves, e} {
		if b.HasError() {
			panic(b.GetError())
		}
	}
}

type c10sRoot struct {
	name string
	fam  *c10sFamily
	prov []c10cProv // the cursor providers over the stores of this root (c10_cursors.go)
}

type c10sEnvT struct {
	db    *bbolt.DB
	roots []*c10sRoot          // evaluated for every parsed filter
	only  map[string]*c10sRoot // one main entity + the linked stores: to find the entity that is needed
}

var c10sEnv = sync.OnceValue(func() *c10sEnvT {
	dir, err := os.MkdirTemp("", "c10s")
	if err != nil {
		panic(err)
	}
	db, err := bbolt.Open(filepath.Join(dir, "c10s.db"), 0600, &bbolt.Options{NoSync: true, NoFreelistSync: true})
	if err != nil {
		panic(err)
	}
	ast.EnableQueryDebug.Store(false)
	env := &c10sEnvT{db: db, only: map[string]*c10sRoot{}}
	c10sInited.Store(true)
	mkRoot := func(name string) *c10sRoot {
		root := &c10sRoot{name: name, fam: c10sBuild("c10-" + name)}
		root.prov = c10cMatrix(root.fam)
		return root
	}
	all, orphan, hollow, void := mkRoot("all"), mkRoot("orphan"), mkRoot("hollow"), mkRoot("void")
	env.roots = []*c10sRoot{all, orphan, hollow, void}
	for _, id := range c10sMainIds {
		env.only[id] = mkRoot("only-" + id)
	}
	err = db.Update(func(tx *bbolt.Tx) error {
		// all: every profile of the main store, the linked stores filled / absent / nil
		rb := boltz.GetOrCreatePath(tx, "c10-all")
		for _, id := range c10sMainIds {
			c10sWriteMain(rb.GetOrCreatePath("mains"), id)
		}
		c10sWriteLinked(rb)
		c10cWriteIndexes(rb, true)
		// a list of row ids for QueryWithCursorC, with ids of entities that do not exist
		lst := rb.GetOrCreatePath("lists")
		lst.SetStringList("rows", append([]string{"a-missing", "zz-dangling"}, c10sMainIds...), nil)
		// orphan: the main store only, the stores its symbols link to were never created
		rb = boltz.GetOrCreatePath(tx, "c10-orphan")
		for _, id := range c10sMainIds {
			c10sWriteMain(rb.GetOrCreatePath("mains"), id)
		}
		// hollow: the store buckets exist, no entity
		rb = boltz.GetOrCreatePath(tx, "c10-hollow")
		rb.GetOrCreatePath("mains")
		rb.GetOrCreatePath("subs")
		rb.GetOrCreatePath("leaves")
		c10cWriteIndexes(rb, false) // the index base buckets exist and hold no key
		// void: nothing, not even the root bucket
		for _, id := range c10sMainIds {
			rb = boltz.GetOrCreatePath(tx, "c10-only-"+id)
			c10sWriteMain(rb.GetOrCreatePath("mains"), id)
			c10sWriteLinked(rb)
			c10cWriteIndexes(rb, true)
		}
		return nil
	})
	if err != nil {
		panic(err)
	}
	return env
})

var c10sInited atomic.Bool

func c10sCleanup() {
	// the bolt file lives in a temp dir of its own
	if !c10sInited.Load() {
		return
	}
	env := c10sEnv()
	path := env.db.Path()
	_ = env.db.Close()
	_ = os.RemoveAll(filepath.Dir(path))
}

// ---- running the real code ----------------------------------------------------------------------

var c10sApis = []string{"QueryIds", "QueryIdsC", "IterateIds", "IterateValidIds", "QueryWithCursorC"}

// c10sRun runs one API for one filter over one root; site != "" if it panicked (note: the cursor provider in use)
func c10sRun(env *c10sEnvT, root *c10sRoot, api string, filter string, query ast.Query) (site string, note string) {
	_ = env.db.View(func(tx *bbolt.Tx) error {
		// recover inside the transaction function, so that the read transaction is always released
		defer func() {
			if r := recover(); r != nil {
				site = c10Site()
			}
		}()
		st := root.fam.main
		drain := func(cursor ast.SetCursor) {
			for n := 0; cursor.IsValid() && n < 10000; n++ {
				_ = cursor.Current()
				cursor.Next()
			}
		}
		switch api {
		case "QueryIds":
			if root.name == "all" || strings.HasPrefix(root.name, "only-") { // it parses again: once is enough
				_, _, _ = st.QueryIds(tx, filter)
			}
		case "QueryIdsC":
			_, _, _ = st.QueryIdsC(tx, query)
		case "IterateIds":
			drain(st.IterateIds(tx, query))
			c := st.IterateIds(tx, query)
			c.Seek([]byte("m3"))
			drain(c)
		case "IterateValidIds":
			drain(st.IterateValidIds(tx, query))
		case "QueryWithCursorC":
			for _, fwd := range []bool{true, false} {
				_, _, _ = st.QueryWithCursorC(tx, func(tx *bbolt.Tx, _ bool) ast.SetCursor {
					lb := boltz.Path(tx, "c10-all", "lists", "rows")
					if lb == nil {
						return nil
					}
					return lb.IterateStringListInDirection(fwd)
				}, query)
				// the rows related to an entity of the linked store (its link bucket filled / never written / empty / no such entity)
				for _, subId := range []string{"s1-full", "s2-absent", "s3-nil", "zz-dangling"} {
					_, _, _ = st.QueryWithCursorC(tx, func(tx *bbolt.Tx, forward bool) ast.SetCursor {
						return root.fam.sub.GetRelatedEntitiesCursor(tx, subId, "owners", forward)
					}, query)
				}
			}
			// three cursor providers of the matrix of c10_cursors.go (set-index iterators, tree sets, unions, ...)
			for _, pv := range c10cPick(root, filter) {
				note = ":" + pv.name
				_, _, _ = st.QueryWithCursorC(tx, pv.p, query)
				for _, fwd := range []bool{true, false} {
					if c := pv.p(tx, fwd); c != nil {
						drain(c)
					}
				}
			}
			note = ""
		}
		return nil
	})
	return site, note
}

func c10sVerdict(filter string) (verdict string) {
	env := c10sEnv()
	var query ast.Query
	func() {
		defer func() {
			if r := recover(); r != nil {
				verdict = "P:" + c10Site()
			}
		}()
		q, err := ast.Parse(env.roots[0].fam.main, filter)
		if err != nil {
			verdict = "E"
			return
		}
		query = q
	}()
	if verdict != "" {
		return verdict
	}
	if query == nil {
		return "P:nil-query"
	}
	func() {
		defer func() {
			if r := recover(); r != nil {
				verdict = "V:" + c10Site() + "@accessors@-"
			}
		}()
		_ = query.GetSkip()
		_ = query.GetLimit()
		_ = query.GetSortFields()
		_ = query.String()
	}()
	if verdict != "" {
		return verdict
	}
	for _, root := range env.roots {
		for _, api := range c10sApis {
			site, note := c10sRun(env, root, api, filter, query)
			if site == "" {
				continue
			}
			where := root.name
			// which single entity of the main store is enough
			for _, id := range c10sMainIds {
				if q2, err := ast.Parse(env.only[id].fam.main, filter); err == nil {
					if s2, _ := c10sRun(env, env.only[id], api, filter, q2); s2 == site {
						where = "only:" + id
						break
					}
				}
			}
			return "V:" + site + "@" + api + note + "@" + where
		}
	}
	return "ok"
}

// ---- filters ------------------------------------------------------------------------------------

// c10sRename replaces every IDENTIFIER token `x` of the sentence by the target symbol; clean = the sentence lexes
// without errors (otherwise it is not used here: the in-memory typings cover it), found = there was such a token
func c10sRename(sentence, target string) (out string, clean bool, found bool) {
	lexer := zitiql.NewZitiQlLexer(antlr.NewInputStream(sentence))
	lexer.RemoveErrorListeners()
	el := &silentListener{DefaultErrorListener: antlr.NewDefaultErrorListener()}
	lexer.AddErrorListener(el)
	var b strings.Builder
	var orig strings.Builder
	for _, t := range lexer.GetAllTokens() {
		orig.WriteString(t.GetText())
		if t.GetTokenType() == zitiql.ZitiQlLexerIDENTIFIER && t.GetText() == "x" {
			b.WriteString(target)
			found = true
		} else {
			b.WriteString(t.GetText())
		}
	}
	if el.errs > 0 || orig.String() != sentence {
		return "", false, false
	}
	return b.String(), true, found
}

// c10sFilters: the store-backed filter population
//
//	bolt   : every sentence of the typed matrix (every lhs form x operator x literal kind, boolean forms,
//	         sub-queries, sort / skip / limit) with x renamed to every target symbol of the main store, and the
//	         sentences that do not mention x once
//	boltq  : the operator matrix as inner filter of a sub-query over the linked stores
//	         (`count(from xks where ...) > 0`, `isEmpty(from xk.owners.xks where ...)`, ...)
//	bolts  : sort / skip / limit clauses over every sortable (and not sortable) symbol, one and two keys, both directions
//	boltw  : the renamed operator matrix inside not ( ) / behind operands that are nil on the entities without
//	         fields (so that the renamed operand is evaluated there) / with sort clauses over absent fields
func c10sFilters(sentences []string, emit func(stream, filter string)) {
	for _, s := range sentences {
		_, clean, found := c10sRename(s, "x")
		if !clean {
			continue
		}
		if !found {
			emit("bolt", s)
			continue
		}
		for _, t := range c10sTargets {
			f, _, _ := c10sRename(s, t)
			emit("bolt", f)
		}
	}
	// sorting / paging over fields that some entities never had: every directly sortable symbol (and what is not sortable)
	sortable := []string{"id", "s", "i", "f", "b", "d", "y", "name", "xs", "xi", "xf", "xb", "xd", "xp", "xk", "xss", "xks", "xk.s", "tags.k", "nosuch"}
	for k, a := range sortable {
		for _, dir := range []string{"", " asc", " desc", " DESC"} {
			emit("bolts", "sort by "+a+dir)
			emit("bolts", "true sort by "+a+dir+" skip 1 limit 2")
			emit("bolts", "not isEmpty(xss) or isEmpty(xks) sort by "+a+dir+" limit 3")
			b := sortable[(k*7+3)%len(sortable)]
			emit("bolts", "sort by "+a+dir+", "+b+" desc skip 2")
			emit("bolts", "xi != 1 sort by "+b+", "+a+dir+" limit none")
		}
	}
	inner := c10MatrixSentences()
	for k, s := range inner {
		if _, clean, found := c10sRename(s, "x"); !clean || !found {
			continue
		}
		for j, u := range c10sSubTargets {
			f, _, _ := c10sRename(s, u)
			switch (k + j) % 4 {
			case 0:
				emit("boltq", "count(from xks where "+f+") > 0")
			case 1:
				emit("boltq", "not isEmpty(from xms.xks where "+f+")")
			case 2:
				emit("boltq", "isEmpty(from xk.owners.xks where "+f+" skip 1 limit 1)")
			default:
				emit("boltq", "count(from xks where "+f+" sort by s desc limit 2) != 1")
			}
		}
		for j, t := range c10sTargets {
			f, _, _ := c10sRename(s, t)
			switch (k + j) % 5 {
			case 0:
				emit("boltw", "not ("+f+")")
			case 1:
				emit("boltw", "b or "+f)
			case 2:
				emit("boltw", "not (xb = true) and "+f+" sort by xs desc, xi skip 1 limit 3")
			case 3:
				emit("boltw", f+" sort by "+strings.SplitN(t, ".", 2)[0])
			default:
				emit("boltw", "isEmpty(xss) and "+f+" limit none")
			}
		}
	}
}

var c10sTokenPool = append(append([]string{"xk.", ".xss", "xks", "from xks where", "from xk where", "tags.", "id", "sort by xss", "sort by xk.s", "sort by tags.k", "\"\"", "null"},
	c10sTargets...), c10TokenPool...)

// c10sMutate: token-level mutation of a store-backed filter (symbols of the stores in the replacement pool)
func c10sMutate(r *rng, toks []string) string {
	t := append([]string{}, toks...)
	n := 1
	if r.chance(25) {
		n = 2
	}
	for i := 0; i < n && len(t) > 0; i++ {
		k := r.intn(len(t))
		switch r.intn(5) {
		case 0:
			t = append(t[:k], t[k+1:]...)
		case 1:
			t = append(t[:k+1], t[k:]...)
		case 2:
			if k+1 < len(t) {
				t[k], t[k+1] = t[k+1], t[k]
			}
		case 3:
			t[k] = r.pick(c10sTokenPool)
		default:
			t = append(t[:k], append([]string{r.pick(c10sTokenPool)}, t[k:]...)...)
		}
	}
	return strings.Join(t, "")
}
