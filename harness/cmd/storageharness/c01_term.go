package main

import (
	"fmt"
	"math"
	"strconv"
	"strings"
	"time"
)

// C01 - abstract filters: printed as ZitiQL text for the real parser and as a prefix-form term for the
// extracted model (coq/extraction/c01_driver.ml parse_untyped).

type c01Lit struct {
	k    byte // S I F D B N
	s    string
	i    int64
	ftxt string // the literal text of a float (must contain '.', 'e' or be out of int64 range)
	sec  int64
	ns   int64
	zone int
	b    bool
}

// c01Escape writes a string as the body of a ZitiQL STRING token (grammar: ESC = '\\' ["\\fnrt], every other
// character except '"', '\\' and control characters stands for itself).  It is the harness' own encoder of the
// documented escape rules: the term of the literal carries the intended bytes, so the model never sees the
// engine's decoder.
func c01Escape(s string) string {
	var b strings.Builder
	for i := 0; i < len(s); i++ {
		c := s[i]
		switch c {
		case '\\', '"':
			b.WriteByte('\\')
			b.WriteByte(c)
		case '\n':
			b.WriteString(`\n`)
		case '\t':
			b.WriteString(`\t`)
		case '\r':
			b.WriteString(`\r`)
		case '\f':
			b.WriteString(`\f`)
		default:
			b.WriteByte(c)
		}
	}
	return b.String()
}

func (l *c01Lit) text() string {
	switch l.k {
	case 'S':
		return `"` + c01Escape(l.s) + `"`
	case 'I':
		return strconv.FormatInt(l.i, 10)
	case 'F':
		return l.ftxt
	case 'D':
		t := time.Unix(l.sec, l.ns).In(c01Zones[l.zone%len(c01Zones)])
		// `datetime(` is a lower-case literal of the grammar; the T and the Z of the RFC 3339 text are free
		return "datetime(" + c01Kw(t.Format(time.RFC3339Nano), "lit/D") + ")"
	case 'B':
		if l.b {
			return c01Kw("true", "lit/B")
		}
		return c01Kw("false", "lit/B")
	default:
		return c01Kw("null", "lit/N")
	}
}

func (l *c01Lit) term() string {
	switch l.k {
	case 'S':
		return "S " + hxs(l.s)
	case 'I':
		return "I " + strconv.FormatInt(l.i, 10)
	case 'F':
		f, err := strconv.ParseFloat(l.ftxt, 64)
		if err != nil {
			panic("bad float literal " + l.ftxt)
		}
		return fmt.Sprintf("F %016x", math.Float64bits(f))
	case 'D':
		return fmt.Sprintf("D %d %d", l.sec, l.ns)
	case 'B':
		if l.b {
			return "B 1"
		}
		return "B 0"
	default:
		return "N"
	}
}

type c01Lhs struct {
	k    string // sym all any cnt cntq
	name string
	sub  *c01Filter // for cntq: a query node
}

type c01Filter struct {
	k     string // bin in btw empty emptyq bc bs not and or q
	lhs   *c01Lhs
	op    string // eq neq lt lte gt gte contains ncontains icontains nicontains
	lit   *c01Lit
	neg   bool
	arrK  string // AS AN AD
	arr   []*c01Lit
	lo    *c01Lit
	hi    *c01Lit
	name  string // bs, empty
	sub   *c01Filter
	b     bool
	a     *c01Filter
	c     *c01Filter
	skip  *int64
	limit *int64 // -1 = none
	group bool   // print parentheses around (and/or/not)
	// bc true only: the query has NO predicate (the empty filter "", `sort by ..`, `skip ..`, `limit ..`): the text
	// of the predicate is empty, the term is `nopred` (the model reads it as the predicate true)
	absent bool
}

// c01JoinQuery: predicate text + clauses, separated by one blank (a query without predicate starts with a clause)
func c01JoinQuery(parts ...string) string {
	var keep []string
	for _, p := range parts {
		if p != "" {
			keep = append(keep, p)
		}
	}
	return strings.Join(keep, " ")
}

var c01OpText = map[string]string{"eq": "=", "neq": "!=", "lt": "<", "lte": "<=", "gt": ">", "gte": ">=",
	"contains": "contains", "ncontains": "not contains", "icontains": "icontains", "nicontains": "not icontains"}

func (l *c01Lhs) text() string {
	switch l.k {
	case "sym":
		return l.name
	case "all":
		return c01Kw("allOf", "lhs/"+l.name) + "(" + l.name + ")"
	case "any":
		return c01Kw("anyOf", "lhs/"+l.name) + "(" + l.name + ")"
	case "cnt":
		return c01Kw("count", "lhs/"+l.name) + "(" + l.name + ")"
	default:
		return c01Kw("count", "lhs/"+l.name) + "(" + c01Kw("from", "lhs/"+l.name) + " " + l.name + " " + c01Kw("where", "lhs/"+l.name) + " " + l.sub.text() + ")"
	}
}

func (l *c01Lhs) term() string {
	switch l.k {
	case "sym", "all", "any":
		return l.k + " " + hxs(l.name)
	case "cnt":
		return "cnt sym " + hxs(l.name)
	default:
		return "cnt sub " + hxs(l.name) + " " + l.sub.term()
	}
}

func (f *c01Filter) text() string {
	switch f.k {
	case "raw": // a replayed predicate: the text as it was written, the term parsed (c01_history.go)
		return f.name
	case "bin":
		sep := " "
		return f.lhs.text() + sep + c01Kw(c01OpText[f.op], f.kwSig()) + sep + f.lit.text()
	case "in":
		var parts []string
		for _, a := range f.arr {
			parts = append(parts, a.text())
		}
		op := "in"
		if f.neg {
			op = "not in"
		}
		return f.lhs.text() + " " + c01Kw(op, f.kwSig()) + " [" + strings.Join(parts, ", ") + "]"
	case "btw":
		op := "between"
		if f.neg {
			op = "not between"
		}
		return f.lhs.text() + " " + c01Kw(op, f.kwSig()) + " " + f.lo.text() + " " + c01Kw("and", f.kwSig()) + " " + f.hi.text()
	case "empty":
		return c01Kw("isEmpty", f.kwSig()) + "(" + f.name + ")"
	case "emptyq":
		return c01Kw("isEmpty", f.kwSig()) + "(" + c01Kw("from", f.kwSig()) + " " + f.name + " " + c01Kw("where", f.kwSig()) + " " + f.sub.text() + ")"
	case "bc":
		if f.absent {
			return ""
		}
		if f.b {
			return c01Kw("true", "bc")
		}
		return c01Kw("false", "bc")
	case "bs":
		return f.name
	case "not":
		return c01Kw("not", "not/"+f.a.kwSig()) + " (" + f.a.text() + ")"
	case "and":
		return "(" + f.a.text() + ") " + c01Kw("and", "and/"+f.a.kwSig()) + " (" + f.c.text() + ")"
	case "or":
		return "(" + f.a.text() + ") " + c01Kw("or", "or/"+f.a.kwSig()) + " (" + f.c.text() + ")"
	case "q":
		return c01JoinQuery(f.a.text(), c01PagingText(f))
	}
	panic("bad filter kind " + f.k)
}

// the skip / limit clauses of a query node
func c01PagingText(f *c01Filter) string {
	s := ""
	if f.skip != nil {
		s = c01Kw("skip", "paging") + " " + strconv.FormatInt(*f.skip, 10)
	}
	if f.limit != nil {
		if *f.limit == -1 {
			s = c01JoinQuery(s, c01Kw("limit", "paging")+" "+c01Kw("none", "paging"))
		} else {
			s = c01JoinQuery(s, c01Kw("limit", "paging")+" "+strconv.FormatInt(*f.limit, 10))
		}
	}
	return s
}

func c01Bool(b bool) string {
	if b {
		return "1"
	}
	return "0"
}

func c01OptInt(p *int64) string {
	if p == nil {
		return "-"
	}
	return strconv.FormatInt(*p, 10)
}

func (f *c01Filter) term() string {
	switch f.k {
	case "raw":
		return f.a.term()
	case "bin":
		return "bin " + f.lhs.term() + " " + f.op + " " + f.lit.term()
	case "in":
		var parts []string
		for _, a := range f.arr {
			switch f.arrK {
			case "AS":
				parts = append(parts, hxs(a.s))
			case "AN":
				parts = append(parts, a.term())
			case "AD":
				parts = append(parts, fmt.Sprintf("%d %d", a.sec, a.ns))
			}
		}
		return "in " + c01Bool(f.neg) + " " + f.lhs.term() + " " + f.arrK + " " + strconv.Itoa(len(f.arr)) + " " + strings.Join(parts, " ")
	case "btw":
		return "btw " + c01Bool(f.neg) + " " + f.lhs.term() + " " + f.lo.term() + " " + f.hi.term()
	case "empty":
		return "empty sym " + hxs(f.name)
	case "emptyq":
		return "empty sub " + hxs(f.name) + " " + f.sub.term()
	case "bc":
		if f.absent {
			return "nopred"
		}
		return "bc " + c01Bool(f.b)
	case "bs":
		return "bs " + hxs(f.name)
	case "not":
		return "not " + f.a.term()
	case "and":
		return "and " + f.a.term() + " " + f.c.term()
	case "or":
		return "or " + f.a.term() + " " + f.c.term()
	case "q":
		return "q " + f.a.term() + " " + c01OptInt(f.skip) + " " + c01OptInt(f.limit)
	}
	panic("bad filter kind " + f.k)
}

func (f *c01Filter) depth() int {
	switch f.k {
	case "not":
		return 1 + f.a.depth()
	case "and", "or":
		d := f.a.depth()
		if e := f.c.depth(); e > d {
			d = e
		}
		return 1 + d
	case "q":
		return f.a.depth()
	case "emptyq":
		return 1 + f.sub.depth()
	case "bin", "in", "btw":
		if f.lhs.k == "cntq" {
			return 1 + f.lhs.sub.depth()
		}
	}
	return 0
}

// ---- term parser (used to render shrunk filters with the same printer) ----------------------------

type c01TermParser struct {
	toks []string
	pos  int
}

func (p *c01TermParser) next() string {
	if p.pos >= len(p.toks) {
		panic("short term")
	}
	t := p.toks[p.pos]
	p.pos++
	return t
}

func (p *c01TermParser) int64() int64 {
	v, err := strconv.ParseInt(p.next(), 10, 64)
	if err != nil {
		panic(err)
	}
	return v
}

func (p *c01TermParser) lit() *c01Lit {
	switch k := p.next(); k {
	case "S":
		return &c01Lit{k: 'S', s: string(unhx(p.next()))}
	case "I":
		return &c01Lit{k: 'I', i: p.int64()}
	case "F":
		bits, err := strconv.ParseUint(p.next(), 16, 64)
		if err != nil {
			panic(err)
		}
		return &c01Lit{k: 'F', ftxt: c01FloatText(math.Float64frombits(bits))}
	case "D":
		sec := p.int64()
		return &c01Lit{k: 'D', sec: sec, ns: p.int64()}
	case "B":
		return &c01Lit{k: 'B', b: p.next() == "1"}
	case "N":
		return &c01Lit{k: 'N'}
	default:
		panic("lit " + k)
	}
}

// c01FloatText: a NUMBER token that parses to exactly v and is not an int64 literal (used when a shrunk filter
// is printed again): positional for ordinary magnitudes, mantissa + exponent otherwise (the grammar's exponent
// is an INT without leading zeros)
func c01FloatText(v float64) string {
	if a := math.Abs(v); a == 0 || (a >= 1e-4 && a < 1e21) {
		txt := strconv.FormatFloat(v, 'f', -1, 64)
		if !strings.Contains(txt, ".") {
			txt += ".0"
		}
		return txt
	}
	txt := strconv.FormatFloat(v, 'e', -1, 64)
	i := strings.IndexByte(txt, 'e')
	exp, err := strconv.Atoi(txt[i+1:])
	if err != nil {
		panic("bad exponent " + txt)
	}
	return txt[:i] + "e" + strconv.Itoa(exp)
}

func (p *c01TermParser) optInt() *int64 {
	if p.toks[p.pos] == "-" {
		p.pos++
		return nil
	}
	v := p.int64()
	return &v
}

func (p *c01TermParser) lhs() *c01Lhs {
	switch k := p.next(); k {
	case "sym", "all", "any":
		return &c01Lhs{k: k, name: string(unhx(p.next()))}
	case "cnt":
		if p.next() == "sym" {
			return &c01Lhs{k: "cnt", name: string(unhx(p.next()))}
		}
		name := string(unhx(p.next()))
		return &c01Lhs{k: "cntq", name: name, sub: p.filter()}
	default:
		panic("lhs " + k)
	}
}

func (p *c01TermParser) filter() *c01Filter {
	switch k := p.next(); k {
	case "bin":
		l := p.lhs()
		op := p.next()
		return &c01Filter{k: "bin", lhs: l, op: op, lit: p.lit()}
	case "in":
		neg := p.next() == "1"
		l := p.lhs()
		ak := p.next()
		n := int(p.int64())
		f := &c01Filter{k: "in", lhs: l, neg: neg, arrK: ak}
		for i := 0; i < n; i++ {
			switch ak {
			case "AS":
				f.arr = append(f.arr, &c01Lit{k: 'S', s: string(unhx(p.next()))})
			case "AN":
				f.arr = append(f.arr, p.lit())
			default:
				sec := p.int64()
				f.arr = append(f.arr, &c01Lit{k: 'D', sec: sec, ns: p.int64()})
			}
		}
		return f
	case "btw":
		neg := p.next() == "1"
		l := p.lhs()
		lo := p.lit()
		return &c01Filter{k: "btw", lhs: l, neg: neg, lo: lo, hi: p.lit()}
	case "empty":
		if p.next() == "sym" {
			return &c01Filter{k: "empty", name: string(unhx(p.next()))}
		}
		name := string(unhx(p.next()))
		return &c01Filter{k: "emptyq", name: name, sub: p.filter()}
	case "bc":
		return &c01Filter{k: "bc", b: p.next() == "1"}
	case "nopred":
		return &c01Filter{k: "bc", b: true, absent: true}
	case "bs":
		return &c01Filter{k: "bs", name: string(unhx(p.next()))}
	case "not":
		return &c01Filter{k: "not", a: p.filter()}
	case "and", "or":
		a := p.filter()
		return &c01Filter{k: k, a: a, c: p.filter()}
	case "q":
		a := p.filter()
		skip := p.optInt()
		return &c01Filter{k: "q", a: a, skip: skip, limit: p.optInt()}
	default:
		panic("term " + k)
	}
}

func c01ParseTerm(toks []string) *c01Filter {
	p := &c01TermParser{toks: toks}
	return p.filter()
}
