package main

// C16 strengthening, ninth wave (seeded C16-w9-1): OPERATIONS DEFERRED INTO PRE-COMMIT ACTIONS.
//
// Every operation of the C16 stream ran inside the body of the transaction.  MutateContext.AddPreCommitAction defers work to
// the moment just before the commit; the action is handed a MutateContext by the library (runPreCommitActions) and the list of
// actions is SHARED by the context the entry point was given and every system context derived from it (systemMutateContext
// forwards AddPreCommitAction to the context it wraps).  Which context the library hands to an action therefore decides
// whether an action that mutates a system entity is refused.  Three new context modes of a mixed transaction (first
// character of an operation's mode triple, store_c16s.go):
//
//	p  ctx.AddPreCommitAction(func(ac) { return op(ac) })                        registered through the BASE context object
//	q  ctx.GetSystemContext().AddPreCommitAction(func(ac) { return op(ac) })     registered through a derived system context
//	r  boltz.NewSystemMutateContext(ctx).AddPreCommitAction(func(ac) { ... })    the same, other constructor
//
// The operation runs with the context `ac` the library hands to the action (never a context captured from the body), after the
// body returned, in registration order; its result is appended to the results then.  The generator puts deferred operations
// at the END of the operation list (a body operation never follows a deferred one), so the order of the case line is the
// order of execution and the machine counterpart is the mixed transaction run_mtx of Store/SystemMixed.v over the same list
// (a failing action fails the transaction like a failing operation of the body: Db.Update returns the error of
// runPreCommitActions from the bolt function).  No new model definition is needed.
//
// Context kinds (from the case line alone): an operation registered through the ORDINARY base context (p in a transaction
// whose TX flag is 0) is an ordinary-context operation - whatever else was registered in the same transaction, through
// whatever context, before or after it.  The generator emits q / r only for operations whose outcome does not depend on the
// kind of the context (a Create WITHOUT the system flag), and p / q / r only in transactions with an ordinary base context,
// entered through Db.Update (alone or joined by an inner Db.Update / Db.Batch): see design/C16.md "Ninth strengthening" for
// what the unchanged tree does with an action registered through a system context (it is handed the wrapped ORDINARY
// context) and why that side is reported, not asserted.  Db.Batch as the outermost entry point is left out (bbolt re-runs a
// failing body with the same context object, which registers the actions a second time), a caller-managed bolt transaction
// too (nobody runs the actions).

import (
	"fmt"

	"github.com/openziti/storage/boltz"
)

func (m c16Mode) c16w9Deferred() bool { return m.Ctx == 'p' || m.Ctx == 'q' || m.Ctx == 'r' }

// c16w9Defer registers operation i of t as a pre-commit action through the context its mode names
func (h *harnessDb) c16w9Defer(ctx boltz.MutateContext, t *hTx, i int, m c16Mode, results *[]string) {
	op := &t.Ops[i]
	reg := ctx
	switch m.Ctx {
	case 'q':
		reg = ctx.GetSystemContext()
	case 'r':
		reg = boltz.NewSystemMutateContext(ctx)
	}
	reg.AddPreCommitAction(func(ac boltz.MutateContext) error {
		e := h.c16ExecOp(ac, op, m)
		*results = append(*results, classify(e))
		if e == nil {
			if re := h.c16w7Seed(ac.Tx(), op, c16w7CountOf(t, i)); re != nil {
				panic(re)
			}
		}
		return e
	})
}

// ---- generator ------------------------------------------------------------------------------------------------

// c16w9SysOp: an operation the constraint refuses in an ordinary context (create with the flag through a store that has the
// constraint in its chain; update / delete of a protected system entity through its root or a child store)
func (g *xGen) c16w9SysOp() hOp {
	cons := g.c16w5Constrained()
	prot := g.c16ProtectedIn(g.snap, false)
	if len(prot) == 0 || g.r.chance(25) {
		s := cons[g.r.intn(len(cons))]
		through := s.Name
		if s.Parent == "" && g.r.chance(35) {
			for _, c := range g.w.Stores {
				if c.Parent == s.Name && g.r.chance(60) {
					through = c.Name
				}
			}
		}
		op := hOp{Kind: "C", Store: through, Id: g.c16FreeId(g.rootOf(s.Name)), Sys: true}
		g.fieldsValueX(&op)
		for _, owner := range []string{g.rootOf(through), through} {
			for _, f := range g.w.store(owner).Fields {
				if g.isUnique(owner, f.Name) && op.F[f.Name] != nil {
					g.fresh++
					op.F[f.Name] = sp(fmt.Sprintf("w%d", g.fresh))
				}
			}
		}
		return op
	}
	p := prot[g.r.intn(len(prot))]
	through := p[0]
	if g.r.chance(45) {
		through = g.rootOf(p[0])
	}
	if g.r.chance(60) {
		return g.c16Update(through, p[1])
	}
	return hOp{Kind: "D", Store: through, Id: p[1]}
}

// c16w9PlainCreate: a Create WITHOUT the system flag through any store of the wiring - its outcome does not depend on the kind
// of the context it runs through
func (g *xGen) c16w9PlainCreate() hOp {
	s := g.w.Stores[g.r.intn(len(g.w.Stores))]
	if cons := g.c16w5Constrained(); len(cons) > 0 && g.r.chance(50) {
		s = cons[g.r.intn(len(cons))]
	}
	op := hOp{Kind: "C", Store: s.Name, Id: g.c16FreeId(g.rootOf(s.Name))}
	g.fieldsValueX(&op)
	return op
}

// c16w9Shape turns (9 %) a generated transaction into an ordinary transaction whose last operations are deferred into
// pre-commit actions; true = done (the transaction is mixed now and keeps Db.Update, alone or joined, as its entry point)
func (g *xGen) c16w9Shape(t *hTx, stats map[string]int) bool {
	if len(g.c16w5Constrained()) == 0 || !g.r.chance(9) {
		return false
	}
	t.Sys = false
	t.PreCommitErr = false
	t.Vetoes = nil
	var ops []hOp
	var ms []c16Mode
	for _, o := range t.Ops {
		if o.Kind != "FAIL" && len(ops) < 2 && g.r.chance(60) {
			ops = append(ops, o)
			m := c16Mode{Ctx: 'b', Deco: '-'}
			if g.r.chance(25) {
				m.Ctx = c16Derived[g.r.intn(len(c16Derived))]
			}
			ms = append(ms, m)
		}
	}
	sysMode := func() c16Mode { return c16Mode{Ctx: []byte{'q', 'q', 'r'}[g.r.intn(3)], Deco: '-'} }
	ord := c16Mode{Ctx: 'p', Deco: '-'}
	type item struct {
		op hOp
		m  c16Mode
	}
	var tail []item
	pat := ""
	switch k := g.r.intn(100); {
	case k < 42:
		pat = "ordinary_sysop_and_system_action"
		tail = []item{{g.c16w9SysOp(), ord}, {g.c16w9PlainCreate(), sysMode()}}
		if g.r.chance(50) {
			tail[0], tail[1] = tail[1], tail[0]
		}
	case k < 56:
		pat = "ordinary_sysop_alone"
		tail = []item{{g.c16w9SysOp(), ord}}
	case k < 66:
		pat = "plain_actions_commit"
		tail = []item{{g.c16w9PlainCreate(), sysMode()}}
		if g.r.chance(60) {
			tail = append(tail, item{g.c16w9PlainCreate(), ord})
		}
	case k < 84:
		pat = "three_actions"
		tail = []item{{g.c16w9PlainCreate(), sysMode()}, {g.c16w9SysOp(), ord}, {g.c16w9PlainCreate(), sysMode()}}
		if g.r.chance(50) {
			tail = []item{{g.c16w9SysOp(), ord}, {g.c16w9PlainCreate(), sysMode()}, {g.c16w9SysOp(), ord}}
		}
	default:
		pat = "ordinary_plain_then_sysop"
		tail = []item{{g.c16w9PlainCreate(), ord}, {g.c16w9SysOp(), ord}, {g.c16w9PlainCreate(), sysMode()}}
	}
	for _, it := range tail {
		ops = append(ops, it.op)
		ms = append(ms, it.m)
	}
	t.Ops = ops
	c16SetModes(t, ms)
	if g.r.chance(40) {
		e := []byte{'j', 'k'}[g.r.intn(2)]
		c16w5SetEntry(t, e)
		stats["w9_entry_"+string([]byte{e})]++
	}
	stats["w9_precommit_tx"]++
	stats["w9_"+pat]++
	return true
}
