package main

import (
	"strings"

	"github.com/openziti/storage/boltz"
)

// C01 - schema variants.  The filters of C01 are written over symbol NAMES; the documented semantics do not depend
// on where a store keeps a value.  Every variant exposes the base names and changes only the storage side:
//
//	base        the schema of c01_schema.go
//	alias       every symbol the API lets one register under a key of its own (AddSymbolWithKey, AddFkSymbolWithKey,
//	            AddMapSymbol) is stored under a key different from its name - keys swapped between symbols, a key equal
//	            to another symbol's name, deeper bucket prefixes, maps under an alias and below a two level prefix
//	hier        base + child stores: a plain and an Extended() child store of people, a plain child store of places
//	            (own scalar symbols incl. one whose key equals a key of the parent, own maps, symbols granted by the parent)
//	hier-alias  both
//
// Set symbols cannot be aliased (AddSetSymbol / AddFkSetSymbol take a name only).
type c01Variant struct {
	name   string
	raw    []c01StoreDecl // what is registered: root stores, then child stores with their OWN symbols
	eff    []c01StoreDecl // what each store exposes (see c01Schema)
	stores []*boltz.BaseStore[boltz.Entity]
}

var c01Cur *c01Variant
var c01Variants = map[string]*c01Variant{}

const c01Roots = 3 // people, places, orgs: the stores that own entity buckets (the D line lists exactly these)

func c01CloneDecls(in []c01StoreDecl) []c01StoreDecl {
	out := make([]c01StoreDecl, len(in))
	for i, sd := range in {
		c := sd
		c.syms = append([]c01SymDecl{}, sd.syms...)
		for k := range c.syms {
			c.syms[k].prefix = append([]string{}, c.syms[k].prefix...)
		}
		c.maps = append([]c01MapDecl{}, sd.maps...)
		for k := range c.maps {
			c.maps[k].prefix = append([]string{}, c.maps[k].prefix...)
		}
		c.path = append([]string{}, sd.path...)
		out[i] = c
	}
	return out
}

// the child stores of the hierarchy variants (own symbols; keys relative to the child's sub-bucket)
func c01ChildDecls() []c01StoreDecl {
	return []c01StoreDecl{
		{name: "kids", isChild: true, parent: 0, path: []string{"kids"}, syms: []c01SymDecl{
			{kind: "fld", name: "level", ty: 'i', key: "level", linked: -1, gen: "int32"},
			{kind: "fld", name: "toy", ty: 's', key: "toy", linked: -1, gen: "str"},
			{kind: "fld", name: "kname", ty: 's', key: "name", linked: -1, gen: "strnum"}, // the parent has a key "name" too
			{kind: "fld", name: "kflag", ty: 'b', key: "kflag", linked: -1, gen: "bool"},
			{kind: "fld", name: "kscore", ty: 'f', prefix: []string{"st"}, key: "score", linked: -1, gen: "float"},
			{kind: "fld", name: "kborn", ty: 'd', key: "kborn", linked: -1, gen: "time"},
			{kind: "fld", name: "kplace", ty: 's', key: "place", linked: 1, gen: "fk1"},
		}, maps: []c01MapDecl{{name: "props", ty: 'a', key: "props"}}},
		{name: "vips", isChild: true, ext: true, parent: 0, path: []string{"vip", "data"}, syms: []c01SymDecl{
			{kind: "fld", name: "rank", ty: 'i', key: "rank", linked: -1, gen: "int64"},
			{kind: "fld", name: "since", ty: 'd', key: "since", linked: -1, gen: "time"},
			{kind: "fld", name: "vnote", ty: 's', key: "note", linked: -1, gen: "str"},
		}, maps: []c01MapDecl{{name: "meta", ty: 'a', prefix: []string{"m"}, key: "meta"}}},
		{name: "spots", isChild: true, parent: 1, path: []string{"spot"}, syms: []c01SymDecl{
			{kind: "fld", name: "stars", ty: 'i', key: "stars", linked: -1, gen: "int32"},
			{kind: "fld", name: "sname", ty: 's', key: "name", linked: -1, gen: "str"},
		}},
	}
}

// storage of the alias variants: (store, symbol or map name) -> key / prefix
type c01Alias struct {
	key    string
	prefix []string
	setPfx bool
}

var c01AliasTable = map[string]c01Alias{
	// people: name <-> nick swapped; whole is stored under the NAME of age, age elsewhere
	"people.name":    {key: "nickname"},
	"people.nick":    {key: "name"},
	"people.nothing": {key: "k_nothing", prefix: []string{"px"}, setPfx: true},
	"people.age":     {key: "years", prefix: []string{"ext", "deep"}, setPfx: true},
	"people.big":     {key: "k_big"},
	"people.score":   {key: "k_score"},
	"people.whole":   {key: "age"},
	"people.flag":    {key: "born"},
	"people.born":    {key: "flag"},
	"people.grp":     {key: "group", prefix: []string{"ext", "deep"}, setPfx: true},
	"people.place":   {key: "home"},
	"people.tags":    {key: "labels", prefix: []string{"ext", "m"}, setPfx: true},
	// places: the two foreign keys swapped, the map lives in the bucket called "name"
	"places.name":  {key: "nm"},
	"places.pop":   {key: "k_pop"},
	"places.open":  {key: "tags"},
	"places.owner": {key: "org"},
	"places.org":   {key: "owner"},
	"places.tags":  {key: "name"},
	// orgs: swapped
	"orgs.name": {key: "size"},
	"orgs.size": {key: "name"},
	// child stores
	"kids.level":  {key: "lvl"},
	"kids.toy":    {key: "level", prefix: []string{"t"}, setPfx: true},
	"kids.kname":  {key: "toy"},
	"kids.kflag":  {key: "flag"},
	"kids.kscore": {key: "k_score", prefix: []string{"st", "x"}, setPfx: true},
	"kids.kborn":  {key: "born"},
	"kids.kplace": {key: "home"},
	"kids.props":  {key: "pr"},
	"vips.rank":   {key: "since"},
	"vips.since":  {key: "rank"},
	"vips.vnote":  {key: "k_note"},
	"vips.meta":   {key: "md", prefix: []string{}, setPfx: true},
	"spots.stars": {key: "name"},
	"spots.sname": {key: "stars"},
}

func c01ApplyAlias(raw []c01StoreDecl) []c01StoreDecl {
	out := c01CloneDecls(raw)
	for i := range out {
		for k := range out[i].syms {
			s := &out[i].syms[k]
			if a, ok := c01AliasTable[out[i].name+"."+s.name]; ok && s.kind == "fld" {
				s.key = a.key
				if a.setPfx {
					s.prefix = append([]string{}, a.prefix...)
				}
			}
		}
		for k := range out[i].maps {
			m := &out[i].maps[k]
			if a, ok := c01AliasTable[out[i].name+"."+m.name]; ok {
				m.key = a.key
				if a.setPfx {
					m.prefix = append([]string{}, a.prefix...)
				}
			}
		}
	}
	return out
}

// c01Effective: what each store exposes in terms of the root stores' entity buckets.  A child store: its own symbols
// (the child's entity path in front of the prefix) and what GrantSymbols hands down - the parent's symbols under
// their names, the parent's maps under their bucket KEY (inheritMapSymbol registers store.mapSymbols[symbol.key]).
// Only used to GENERATE filters and datasets; the model derives the same from the raw S line (child_decl).
func c01Effective(raw []c01StoreDecl) []c01StoreDecl {
	out := c01CloneDecls(raw)
	for i := range out {
		if !out[i].isChild {
			continue
		}
		own, par := raw[i], raw[raw[i].parent]
		var syms []c01SymDecl
		seen := map[string]bool{}
		for _, s := range own.syms {
			c := s
			c.prefix = append(append([]string{}, own.path...), s.prefix...)
			syms = append(syms, c)
			seen[s.name] = true
		}
		for _, s := range par.syms {
			if !seen[s.name] {
				syms = append(syms, s)
			}
		}
		var maps []c01MapDecl
		seen = map[string]bool{}
		for _, m := range own.maps {
			c := m
			c.prefix = append(append([]string{}, own.path...), m.prefix...)
			maps = append(maps, c)
			seen[m.name] = true
		}
		for _, m := range par.maps {
			c := m
			c.name = m.key
			if !seen[c.name] {
				maps = append(maps, c)
			}
		}
		out[i].syms, out[i].maps = syms, maps
	}
	return out
}

func c01GetVariant(name string) *c01Variant {
	if v, ok := c01Variants[name]; ok {
		return v
	}
	var raw []c01StoreDecl
	switch name {
	case "base":
		raw = c01CloneDecls(c01SchemaBase)
	case "alias":
		raw = c01ApplyAlias(c01SchemaBase)
	case "hier":
		raw = append(c01CloneDecls(c01SchemaBase), c01ChildDecls()...)
	case "hier-alias":
		raw = c01ApplyAlias(append(c01CloneDecls(c01SchemaBase), c01ChildDecls()...))
	default:
		panic("unknown schema variant " + name)
	}
	v := &c01Variant{name: name, raw: raw, eff: c01Effective(raw)}
	v.stores = c01BuildStores(c01Base, raw)
	c01Variants[name] = v
	return v
}

// c01UseVariant switches generators, writer and stores to a variant and emits its S line
func (r *c01Runner) useVariant(name string) {
	v := c01GetVariant(name)
	c01Cur = v
	c01Schema = v.eff
	r.stores = v.stores
	if r.cases != nil {
		r.cases.line("%s", c01SchemaLine())
		r.impl.line("S")
	}
	r.stats["variant:"+name]++
}

// the root store whose entity buckets a store scans
func c01RootOf(store int) int {
	if c01Cur.raw[store].isChild {
		return c01Cur.raw[store].parent
	}
	return store
}

func c01ChildrenOf(root int) []int {
	var out []int
	for i, sd := range c01Cur.raw {
		if sd.isChild && sd.parent == root {
			out = append(out, i)
		}
	}
	return out
}

// the name under which a store exposes the map its root registers as `name` (a child store: the bucket key)
func c01MapNameIn(store int, name string) string {
	sd := c01Cur.raw[store]
	if !sd.isChild {
		return name
	}
	for _, m := range c01Cur.raw[sd.parent].maps {
		if m.name == name {
			return m.key
		}
	}
	return name
}

// c01Remap rewrites the field paths of a dataset written for the base schema to the storage of the current variant
func c01Remap(d *c01Dataset) *c01Dataset {
	if c01Cur.name == "base" || c01Cur.name == "hier" {
		return d
	}
	for st := 0; st < c01Roots && st < len(d.stores); st++ {
		from, to := c01SchemaBase[st], c01Cur.raw[st]
		for ei := range d.stores[st] {
			for fi := range d.stores[st][ei].fields {
				f := &d.stores[st][ei].fields[fi]
				f.path = c01RemapPath(from, to, f.path)
			}
		}
	}
	return d
}

func c01RemapPath(from, to c01StoreDecl, path []string) []string {
	joined := strings.Join(path, "\x00")
	for k, s := range from.syms {
		if s.kind != "fld" {
			continue
		}
		if strings.Join(append(append([]string{}, s.prefix...), s.key), "\x00") == joined {
			t := to.syms[k]
			return append(append([]string{}, t.prefix...), t.key)
		}
	}
	for k, m := range from.maps {
		base := append(append([]string{}, m.prefix...), m.key)
		if len(path) > len(base) && strings.Join(path[:len(base)], "\x00") == strings.Join(base, "\x00") {
			t := to.maps[k]
			return append(append(append([]string{}, t.prefix...), t.key), path[len(base):]...)
		}
	}
	panic("c01RemapPath: no symbol stores " + strings.Join(path, "/"))
}

// c01FixedChildData adds child-store data to a hand-written dataset: every combination of member / not a member
// with null / non-null own fields occurs for every child store; members always own at least one stored field
// (possibly a nil) so that their sub-bucket exists
func c01FixedChildData(d *c01Dataset) *c01Dataset {
	for root := 0; root < c01Roots && root < len(d.stores); root++ {
		for ci, child := range c01ChildrenOf(root) {
			cd := c01Cur.raw[child]
			for ei := range d.stores[root] {
				e := &d.stores[root][ei]
				mode := (ei + 2*ci) % 4 // 0 full data, 1 not a member, 2 nil fields only, 3 not a member
				if ei >= 4 {
					mode = (ei/2 + ci) % 3 // 0 full, 1 absent, 2 nils
				}
				if mode == 1 || mode == 3 {
					continue
				}
				for k, s := range cd.syms {
					path := append(append(append([]string{}, cd.path...), s.prefix...), s.key)
					v := c01Val{k: 'n'}
					if mode == 0 {
						v = c01FixedValue(s.gen, ei+k)
					}
					e.fields = append(e.fields, c01Field{path: path, v: v})
				}
				for _, m := range cd.maps {
					if mode == 0 {
						base := append(append(append([]string{}, cd.path...), m.prefix...), m.key)
						e.fields = append(e.fields, c01Field{path: append(append([]string{}, base...), "a"), v: c01Val{k: 's', s: "ab"}})
						e.fields = append(e.fields, c01Field{path: append(append([]string{}, base...), "sub", "k"), v: c01Val{k: 'i', i: int64(ei)}})
					}
				}
			}
		}
	}
	return d
}

func c01FixedValue(gen string, k int) c01Val {
	switch gen {
	case "str":
		return c01Val{k: 's', s: []string{"ab", "b", "Abc", "5"}[k%4]}
	case "strnum":
		return c01Val{k: 's', s: []string{"5", "15", "ab", "05"}[k%4]}
	case "int32":
		return c01Val{k: 'w', i: []int64{5, 0, -1, 15}[k%4]}
	case "int64":
		return c01Val{k: 'i', i: []int64{5, 9007199254740993, -1, 0}[k%4]}
	case "float":
		return c01Val{k: 'f', f: []float64{5, 1.5, -1, 0}[k%4]}
	case "wholefloat":
		return c01Val{k: 'f', f: []float64{5, 15, -3, 0}[k%4]}
	case "bool":
		return c01Val{k: 'b', b: k%2 == 0}
	case "time":
		return c01Val{k: 't', sec: []int64{1600000000, 1600000001, 0, 1700000000}[k%4], ns: int64(k % 2)}
	case "fk0":
		return c01Val{k: 's', s: []string{"e0", "e1", "zz"}[k%3]}
	case "fk1":
		return c01Val{k: 's', s: []string{"l", "la", "zz"}[k%3]}
	case "fk2":
		return c01Val{k: 's', s: []string{"o", "zz"}[k%2]}
	}
	return c01Val{k: 'n'}
}
