package main

import (
	"bufio"
	"fmt"
	"os"
	"path/filepath"
	"strings"
	"syscall"

	"github.com/openziti/storage/ast"
	"go.etcd.io/bbolt"
)

// C10, paging values of EXTREME MAGNITUDE through every scanner of the bolt-backed store.
//
// skip and limit are arbitrary integer literals of the filter text.  A filter with `limit 9223372036854775806` parses like
// `limit 10`, and the scanners of package boltz take the two numbers as they are: they compare counters with them, add them
// (sortingScanner: offset + limit), and a scanner that SIZES something by them (a result slice, a heap, a buffer) turns the
// literal of a client into an allocation: `makeslice: cap out of range` (a panic) for values whose size is beyond the
// address space, an unrecoverable `fatal error: runtime: out of memory` for the values below.  The other streams page with
// 0..3, `none`, and - stream lit / boltlit - int64 max and what does not convert; setPaging maps a missing limit, `none` and
// negative limits to MaxInt64, so the values in between (every explicit "give me everything" number) were never evaluated.
//
// Stream boltpage (typing store: QueryIds / QueryIdsC / IterateIds / IterateValidIds / QueryWithCursorC over every root):
// predicates of every kind x the clauses that select the scanner (no sort, sort by id asc / desc = uniqueIndexScanner or
// cursorScanner; sort by fields, one / two keys = sortingScanner) x paging forms (limit L; skip S limit L; skip S; also as
// paging of a sub-query) with L, S from c10pHuge: 2^48+1, 2^53+1, 2^62, MaxInt64-807, MaxInt64-1, MaxInt64, their sums that
// overflow int64 (skip 2^62 limit 2^62; skip MaxInt64-1 limit MaxInt64-1; skip 2 limit MaxInt64), int64 min and -1.
// Every value of c10pHuge is > 2^48 = the largest allocation of the Go runtime on 64-bit platforms: a make() sized by it
// panics at once (recovered, verdict V:<site>) and never allocates - the harness process is safe.
// Stream qcurpage (typing cursors): a slice of the same through the whole cursor-provider matrix.
//
// Values that are huge and ALLOCATABLE (2^28 .. 2^47: GBs .. PBs when they size a slice) are not run in the harness process:
// `storageharness c10 --pagecase 1` (a child process of the check, c10.py page_step) sets RLIMIT_AS to a few GB above what
// it has mapped, then evaluates a small population with such limits, announcing each filter before it runs (RUN / OK
// lines, flushed).  On a correct tree evaluation allocates in proportion to the rows (a dozen); a tree that allocates in
// proportion to the literal dies in the child with `fatal error: runtime: out of memory` (or panics, line PANIC), and the
// check reports the filter that was running.

// c10pHuge: all > 2^48, so that a make() sized by one of them panics instead of allocating
var c10pHuge = []string{
	"281474976710657",     // 2^48 + 1
	"9007199254740993",    // 2^53 + 1 (no float64)
	"4611686018427387904", // 2^62
	"9223372036854775000",
	"9223372036854775806", // MaxInt64 - 1
	"9223372036854775807", // MaxInt64 = what setPaging substitutes
}

// c10pPagings: the paging clauses
func c10pPagings(thorough bool) []string {
	var out []string
	for _, l := range c10pHuge {
		out = append(out, "limit "+l, "skip 2 limit "+l, "skip "+l)
	}
	out = append(out,
		"skip 4611686018427387904 limit 4611686018427387904", // the sum is int64 min
		"skip 9223372036854775806 limit 9223372036854775806", // the sum is -4
		"skip 9223372036854775807 limit 9223372036854775807",
		"skip 1 limit 9223372036854775807",
		"skip 281474976710657 limit 1",
		"skip 0 limit 9223372036854775806",
		"limit -9223372036854775808", "skip -9223372036854775808", "skip -1 limit -1", "skip -9223372036854775808 limit 9223372036854775806",
	)
	if thorough {
		for _, s := range c10pHuge {
			for _, l := range c10pHuge {
				out = append(out, "skip "+s+" limit "+l)
			}
		}
	}
	return out
}

var c10pPreds = []string{"", "true", `xs = "s"`, "xi > 0", `anyOf(xss) = "s"`, "not isEmpty(from xks where a)", "false"}

// the clauses that select the scanner
var c10pSorts = []string{"", "sort by id", "sort by id desc", "sort by xs", "sort by xi desc, id", "sort by xk.s, xs desc"}

func c10pJoin(parts ...string) string {
	var out []string
	for _, p := range parts {
		if p != "" {
			out = append(out, p)
		}
	}
	return strings.Join(out, " ")
}

// c10pFilters: stream boltpage (store typing) and qcurpage (cursor typing, a slice)
func c10pFilters(thorough bool, emit func(stream, filter string)) {
	pagings := c10pPagings(thorough)
	n := 0
	for _, pg := range pagings {
		for _, so := range c10pSorts {
			for _, p := range c10pPreds {
				f := c10pJoin(p, so, pg)
				// the whole matrix in the thorough tier; quick: every (sort, paging) pair with two predicates, the unsorted ones with all
				if thorough || so == "" || n%3 == 0 || p == `xs = "s"` {
					emit("boltpage", f)
				}
				n++
			}
		}
	}
	// paging of a sub-query (the scanner of the linked store) and of both levels
	for _, pg := range pagings {
		emit("boltpage", "count(from xks where a "+pg+") >= 0")
		emit("boltpage", "isEmpty(from xms where true sort by xs "+pg+")")
		emit("boltpage", "not isEmpty(from xks where a "+pg+") sort by id "+pg)
	}
	// every cursor provider: one unsorted, one id-sorted, one field-sorted filter per paging form of the first and last values
	for k, pg := range pagings {
		if !thorough && k >= 3 && !(k >= 12 && k <= 20) {
			continue
		}
		emit("qcurpage", c10pJoin(`xs = "s"`, pg))
		emit("qcurpage", c10pJoin("sort by id desc", pg))
		emit("qcurpage", c10pJoin("xi > 0 sort by xs", pg))
	}
}

// ---- the child process: allocatable huge values under an address-space limit ---------------------------------------

// c10pChildLimits: 2^28 .. 2^47 (x 16 bytes per string header: 4 GB .. 2 PB)
var c10pChildLimits = []string{"268435456", "4294967296", "1000000000000", "1099511627776", "140737488355328", "2147483647"}

func c10pChildFilters() []string {
	var out []string
	for _, l := range c10pChildLimits {
		for _, so := range c10pSorts {
			for _, p := range []string{"", `xs = "s"`, "xi > 0"} {
				out = append(out, c10pJoin(p, so, "limit "+l), c10pJoin(p, so, "skip 1 limit "+l))
			}
			out = append(out, c10pJoin("true", so, "skip "+l), c10pJoin("true", so, "skip "+l+" limit "+l))
		}
		out = append(out, "count(from xks where a limit "+l+") >= 0", "isEmpty(from xms where true sort by xs skip 1 limit "+l+")")
	}
	return out
}

// c10pVmSize: the mapped address space of this process in bytes (0 if unknown)
func c10pVmSize() uint64 {
	data, err := os.ReadFile("/proc/self/statm")
	if err != nil {
		return 0
	}
	var pages uint64
	if _, err := fmt.Sscanf(string(data), "%d", &pages); err != nil {
		return 0
	}
	return pages * uint64(os.Getpagesize())
}

// runC10Page: --pagecase 1 [--pageonly <encoded filter>] [--pageheadroom <MB>]
func runC10Page(o *opts) error {
	w := bufio.NewWriter(os.Stdout)
	say := func(format string, a ...interface{}) {
		fmt.Fprintf(w, format+"\n", a...)
		_ = w.Flush()
		_ = os.Stdout.Sync()
	}
	env := c10sEnv() // built before the limit is set
	defer c10sCleanup()
	filters := c10pChildFilters()
	if only := o.get("pageonly", ""); only != "" {
		filters = []string{c10DecodeText(only)}
	}
	// warm up: everything the evaluation maps on a correct tree is mapped now
	for _, f := range []string{"true limit 3", "xi > 0 sort by xs skip 1 limit 2"} {
		if q, err := ast.Parse(env.roots[0].fam.main, f); err == nil {
			for _, root := range env.roots {
				for _, api := range c10sApis {
					c10sRun(env, root, api, f, q)
				}
			}
		}
	}
	headroom := uint64(o.getInt("pageheadroom", 3072)) << 20
	vm := c10pVmSize()
	if vm == 0 {
		say("NOLIMIT cannot read /proc/self/statm")
		return nil
	}
	lim := syscall.Rlimit{Cur: vm + headroom, Max: vm + headroom}
	if err := syscall.Setrlimit(syscall.RLIMIT_AS, &lim); err != nil {
		say("NOLIMIT %v", err)
		return nil
	}
	say("LIMIT %d %d", vm, vm+headroom)
	say("TMP %s", filepath.Dir(env.db.Path()))
	for _, f := range filters {
		say("RUN %s", c10EncodeText(f))
		var query ast.Query
		verdict := ""
		func() {
			defer func() {
				if r := recover(); r != nil {
					verdict = "PANIC " + c10Site() + " ast.Parse -"
				}
			}()
			q, err := ast.Parse(env.roots[0].fam.main, f)
			if err != nil {
				verdict = "REJECTED"
				return
			}
			query = q
		}()
		if verdict == "" && query != nil {
			for _, root := range env.roots {
				for _, api := range c10sApis {
					say("AT %s %s", api, root.name)
					if site, _ := c10sRun(env, root, api, f, query); site != "" && verdict == "" {
						verdict = "PANIC " + site + " " + api + " " + root.name
					}
				}
			}
			_ = env.db.View(func(tx *bbolt.Tx) error { return nil })
		}
		if verdict == "" {
			verdict = "OK"
		}
		say("%s %s", verdict, c10EncodeText(f))
	}
	say("DONE %d", len(filters))
	return nil
}
