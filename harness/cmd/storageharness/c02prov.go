package main

import (
	"context"
	"fmt"
	"strconv"
	"strings"

	"github.com/openziti/foundation/v2/errorz"
	"github.com/openziti/storage/ast"
	"github.com/openziti/storage/boltz"
	"go.etcd.io/bbolt"
)

// C02 - Store.QueryWithCursorC over every CURSOR PROVIDER the library offers (model: coq/theories/Query/Provider.v).
//
// A provider dataset is a plain dataset (D line) whose rows additionally carry a set of tag values t0..t3 (G line: one
// hex digit per row = the tag mask).  The rows are created through the library (Store.Create with an entity strategy), so
// the set index over `tags` is the one the library maintains; a second store `hubs` has one entity per tag whose list
// field `members` names the rows carrying the tag (related-entity cursors).
//
//	G <hexdigits|e>                                                       tag masks of the rows of the current dataset
//	P <bits> <nsort> {sort}* <skip> <limit> <mult|e> <provider>            QueryWithCursorC(tx, provider, query)
//	    mult      one digit per row: how often the provider's sources name the row (0 = not a candidate); the
//	              provider denotes the SET of rows with a non-zero digit
//	    provider  <kind>:<i,j,..>  (tag indexes; 9 = a value no row carries)
//	       bucket          the entities bucket (TypedBucket.OpenCursor)
//	       any / all       BaseStore.IteratorMatchingAnyOf / IteratorMatchingAllOf(set index, values) with 0..3 values
//	       val             SetReadIndex.OpenValueCursor
//	       rel             hubs.GetRelatedEntitiesCursor(tx, "t<i>", "members", forward)
//	       tree            ast.NewTreeSet(forward) filled by the caller from SetReadIndex.Read, last value first, the
//	                       first value twice
//	       union           ast.NewUnionSetCursor over value cursors (three values: nested)
//	       utree           ast.NewUnionSetCursor(tree set of value i, value cursor of value j)
//	       filt            ast.NewFilteredCursor(value cursor of value i, "does not carry value j")
//	       fany            ast.NewFilteredCursor(IteratorMatchingAnyOf(i, j) cursor, "carries value k")
//
// impl line:  wc=<count>:<ids>
const c02pTags = 4

type c02pEnt struct {
	Type  string
	Id    string
	Cells []qCell
	Field string
	List  []string
}

func (e *c02pEnt) GetId() string         { return e.Id }
func (e *c02pEnt) SetId(id string)       { e.Id = id }
func (e *c02pEnt) GetEntityType() string { return e.Type }

type c02pStrategy struct{}

func (c02pStrategy) NewEntity() *c02pEnt                     { return new(c02pEnt) }
func (c02pStrategy) FillEntity(*c02pEnt, *boltz.TypedBucket) {}
func (c02pStrategy) PersistEntity(e *c02pEnt, ctx *boltz.PersistContext) {
	for ci, c := range e.Cells {
		c02WriteCell(ctx.Bucket, qCols[ci].name, c)
	}
	ctx.SetStringList(e.Field, e.List)
}

type c02pStore struct {
	*boltz.BaseStore[*c02pEnt]
}

type c02pWorld struct {
	d     *qDataset
	masks []int
	rows  *c02pStore
	hubs  *c02pStore
	idx   boltz.SetReadIndex
	byId  map[string]int // id -> tag mask
}

func c02pTag(i int) string { return "t" + strconv.Itoa(i) }

func (w *c02pWorld) maskLine() string {
	if len(w.masks) == 0 {
		return "G e"
	}
	var b strings.Builder
	b.WriteString("G ")
	for _, m := range w.masks {
		b.WriteString(strconv.FormatInt(int64(m), 16))
	}
	return b.String()
}

func c02pParseMasks(tok string, n int) ([]int, error) {
	if tok == "e" {
		tok = ""
	}
	if len(tok) != n {
		return nil, fmt.Errorf("tag mask line has %d digits for %d rows", len(tok), n)
	}
	out := make([]int, n)
	for i := range tok {
		v, err := strconv.ParseInt(tok[i:i+1], 16, 32)
		if err != nil {
			return nil, err
		}
		out[i] = int(v)
	}
	return out, nil
}

// c02pLoad creates the rows (with their tags) and the hubs through the library under a fresh base path
func (q *qBolt) c02pLoad(d *qDataset, masks []int) (*c02pWorld, error) {
	q.seq++
	base := fmt.Sprintf("prov%d", q.seq)
	w := &c02pWorld{d: d, masks: masks, byId: map[string]int{}}
	w.rows = &c02pStore{BaseStore: boltz.NewBaseStore(boltz.StoreDefinition[*c02pEnt]{
		EntityType:      "rows",
		EntityStrategy:  c02pStrategy{},
		BasePath:        []string{base},
		EntityNotFoundF: func(id string) error { return boltz.NewNotFoundError("rows", "id", id) },
	})}
	w.rows.InitImpl(w.rows)
	w.rows.AddIdSymbol("id", ast.NodeTypeString)
	for _, col := range qCols {
		c02AddColSymbol(w.rows, col)
	}
	w.idx = w.rows.AddSetIndex(w.rows.AddSetSymbol("tags", ast.NodeTypeString))
	w.hubs = &c02pStore{BaseStore: boltz.NewBaseStore(boltz.StoreDefinition[*c02pEnt]{
		EntityType:      "hubs",
		EntityStrategy:  c02pStrategy{},
		BasePath:        []string{base},
		EntityNotFoundF: func(id string) error { return boltz.NewNotFoundError("hubs", "id", id) },
	})}
	w.hubs.InitImpl(w.hubs)
	w.hubs.AddIdSymbol("id", ast.NodeTypeString)
	w.hubs.AddSetSymbol("members", ast.NodeTypeString)
	err := q.db.Update(func(tx *bbolt.Tx) error {
		ctx := boltz.NewTxMutateContext(context.Background(), tx)
		eh := &errorz.ErrorHolderImpl{}
		w.rows.InitializeIndexes(tx, eh)
		w.hubs.InitializeIndexes(tx, eh)
		if eh.HasError() {
			return eh.GetError()
		}
		members := make([][]string, c02pTags)
		// created in a scrambled order: the order of creation must not matter
		for k := range d.rows {
			i := (k*7 + 3) % len(d.rows)
			if len(d.rows)%7 == 0 {
				i = len(d.rows) - 1 - k
			}
			r := d.rows[i]
			e := &c02pEnt{Type: "rows", Id: r.id, Cells: r.cells, Field: "tags"}
			for t := c02pTags - 1; t >= 0; t-- {
				if masks[i]&(1<<uint(t)) != 0 {
					e.List = append(e.List, c02pTag(t))
					members[t] = append(members[t], r.id)
				}
			}
			w.byId[r.id] = masks[i]
			if err := w.rows.Create(ctx, e); err != nil {
				return err
			}
		}
		for t := 0; t < c02pTags; t++ {
			if err := w.hubs.Create(ctx, &c02pEnt{Type: "hubs", Id: c02pTag(t), Field: "members", List: members[t]}); err != nil {
				return err
			}
		}
		return nil
	})
	return w, err
}

type c02pProvider struct {
	kind string
	vals []int
}

func (p c02pProvider) token() string {
	s := make([]string, len(p.vals))
	for i, v := range p.vals {
		s[i] = strconv.Itoa(v)
	}
	return p.kind + ":" + strings.Join(s, ",")
}

func c02pParseProvider(tok string) (c02pProvider, error) {
	parts := strings.SplitN(tok, ":", 2)
	if len(parts) != 2 {
		return c02pProvider{}, fmt.Errorf("bad provider %q", tok)
	}
	p := c02pProvider{kind: parts[0]}
	if parts[1] != "" {
		for _, t := range strings.Split(parts[1], ",") {
			v, err := strconv.Atoi(t)
			if err != nil {
				return p, err
			}
			p.vals = append(p.vals, v)
		}
	}
	need := map[string][2]int{"bucket": {0, 0}, "any": {0, 9}, "all": {0, 9}, "val": {1, 1}, "rel": {1, 1}, "tree": {0, 9},
		"union": {2, 3}, "utree": {2, 2}, "filt": {2, 2}, "fany": {3, 3}}
	if nd, ok := need[p.kind]; !ok || len(p.vals) < nd[0] || len(p.vals) > nd[1] {
		return p, fmt.Errorf("bad provider %q", tok)
	}
	return p, nil
}

func (p c02pProvider) describe() string {
	names := make([]string, len(p.vals))
	for i, v := range p.vals {
		names[i] = c02pTag(v)
	}
	l := "[" + strings.Join(names, " ") + "]"
	switch p.kind {
	case "bucket":
		return "entities bucket OpenCursor"
	case "any":
		return "IteratorMatchingAnyOf(set index tags, " + l + ")"
	case "all":
		return "IteratorMatchingAllOf(set index tags, " + l + ")"
	case "val":
		return "SetReadIndex(tags).OpenValueCursor(" + names[0] + ")"
	case "rel":
		return "hubs.GetRelatedEntitiesCursor(" + names[0] + ", members)"
	case "tree":
		return "ast.NewTreeSet(forward) filled from the index values " + l + " (last first, first twice)"
	case "union":
		return "ast.NewUnionSetCursor over the value cursors of " + l
	case "utree":
		return "ast.NewUnionSetCursor(tree set of " + names[0] + ", value cursor of " + names[1] + ")"
	case "filt":
		return "ast.NewFilteredCursor(value cursor of " + names[0] + ", does not carry " + names[1] + ")"
	case "fany":
		return "ast.NewFilteredCursor(IteratorMatchingAnyOf([" + names[0] + " " + names[1] + "]) cursor, carries " + names[2] + ")"
	}
	return p.token()
}

// mult: how often the sources of the provider name a row with this tag mask (0 = not a candidate)
func (p c02pProvider) mult(mask int) int {
	has := func(v int) int {
		if v < c02pTags && mask&(1<<uint(v)) != 0 {
			return 1
		}
		return 0
	}
	n := 0
	switch p.kind {
	case "bucket":
		return 1
	case "any", "union":
		for _, v := range p.vals {
			n += has(v)
		}
	case "all":
		if len(p.vals) == 0 {
			return 0
		}
		for _, v := range p.vals {
			if has(v) == 0 {
				return 0
			}
		}
		return 1
	case "val", "rel":
		return has(p.vals[0])
	case "tree":
		for i, v := range p.vals {
			n += has(v)
			if i == 0 {
				n += has(v)
			}
		}
	case "utree":
		return has(p.vals[0]) + has(p.vals[1])
	case "filt":
		if has(p.vals[1]) == 0 {
			return has(p.vals[0])
		}
	case "fany":
		if has(p.vals[2]) == 1 {
			return has(p.vals[0]) + has(p.vals[1])
		}
	}
	return n
}

func (w *c02pWorld) multToken(p c02pProvider) (string, int) {
	if len(w.masks) == 0 {
		return "e", 0
	}
	var b strings.Builder
	cands := 0
	for _, m := range w.masks {
		k := p.mult(m)
		if k > 0 {
			cands++
		}
		b.WriteByte(byte('0' + k))
	}
	return b.String(), cands
}

func (w *c02pWorld) values(p c02pProvider) []string {
	out := make([]string, len(p.vals))
	for i, v := range p.vals {
		out[i] = c02pTag(v)
	}
	return out
}

// provider builds the ast.SetCursorProvider the way a caller of the library would
func (w *c02pWorld) provider(p c02pProvider) ast.SetCursorProvider {
	vals := w.values(p)
	valCursor := func(tx *bbolt.Tx, v string, fw bool) ast.SetCursor { return w.idx.OpenValueCursor(tx, []byte(v), fw) }
	tree := func(tx *bbolt.Tx, vs []string, fw bool) ast.SetCursor {
		set := ast.NewTreeSet(fw)
		for i := len(vs) - 1; i >= 0; i-- {
			w.idx.Read(tx, []byte(vs[i]), func(id []byte) { set.Add(append([]byte{}, id...)) })
		}
		if len(vs) > 0 {
			w.idx.Read(tx, []byte(vs[0]), func(id []byte) { set.Add(append([]byte{}, id...)) })
		}
		return set.ToCursor()
	}
	carries := func(id []byte, v int) bool { return v < c02pTags && w.byId[string(id)]&(1<<uint(v)) != 0 }
	switch p.kind {
	case "bucket":
		return func(tx *bbolt.Tx, fw bool) ast.SetCursor {
			bucket := w.rows.GetEntitiesBucket(tx)
			if bucket == nil {
				return ast.OpenEmptyCursor(tx, fw)
			}
			return bucket.OpenCursor(tx, fw)
		}
	case "any":
		return w.rows.IteratorMatchingAnyOf(w.idx, vals)
	case "all":
		return w.rows.IteratorMatchingAllOf(w.idx, vals)
	case "val":
		return func(tx *bbolt.Tx, fw bool) ast.SetCursor { return valCursor(tx, vals[0], fw) }
	case "rel":
		return func(tx *bbolt.Tx, fw bool) ast.SetCursor {
			return w.hubs.GetRelatedEntitiesCursor(tx, vals[0], "members", fw)
		}
	case "tree":
		return func(tx *bbolt.Tx, fw bool) ast.SetCursor { return tree(tx, vals, fw) }
	case "union":
		return func(tx *bbolt.Tx, fw bool) ast.SetCursor {
			c := ast.NewUnionSetCursor(valCursor(tx, vals[0], fw), valCursor(tx, vals[1], fw), fw)
			if len(vals) == 3 {
				c = ast.NewUnionSetCursor(valCursor(tx, vals[2], fw), c, fw)
			}
			return c
		}
	case "utree":
		return func(tx *bbolt.Tx, fw bool) ast.SetCursor {
			return ast.NewUnionSetCursor(tree(tx, vals[:1], fw), valCursor(tx, vals[1], fw), fw)
		}
	case "filt":
		return func(tx *bbolt.Tx, fw bool) ast.SetCursor {
			return ast.NewFilteredCursor(valCursor(tx, vals[0], fw), func(id []byte) bool { return !carries(id, p.vals[1]) })
		}
	case "fany":
		return func(tx *bbolt.Tx, fw bool) ast.SetCursor {
			return ast.NewFilteredCursor(w.rows.IteratorMatchingAnyOf(w.idx, vals[:2])(tx, fw), func(id []byte) bool { return carries(id, p.vals[2]) })
		}
	}
	panic("bad provider " + p.kind)
}

func (w *c02pWorld) run(db *bbolt.DB, p c02pProvider, text string) string {
	res := ""
	_ = db.View(func(tx *bbolt.Tx) error {
		res = "wc=" + qGuard(func() string {
			query, err := ast.Parse(w.rows, text)
			if err != nil {
				return "ERR"
			}
			ids, count, err := w.rows.QueryWithCursorC(tx, w.provider(p), query)
			if err != nil {
				return "ERR"
			}
			return fmt.Sprintf("%d:%s", count, qIdsStr(ids))
		})
		return nil
	})
	return res
}

// every provider shape: value lists of length 0..3 (entities carrying several of the values exist by construction of the
// masks), a value listed twice, a value no entity carries
func c02pProviders(r *rng) []c02pProvider {
	perm := []int{0, 1, 2, 3}
	for i := 3; i > 0; i-- {
		j := r.intn(i + 1)
		perm[i], perm[j] = perm[j], perm[i]
	}
	a, b, c, d := perm[0], perm[1], perm[2], perm[3]
	out := []c02pProvider{{kind: "bucket"}}
	for _, k := range []string{"any", "all"} {
		out = append(out, c02pProvider{k, nil}, c02pProvider{k, []int{a}}, c02pProvider{k, []int{9}}, c02pProvider{k, []int{a, b}},
			c02pProvider{k, []int{c, a}}, c02pProvider{k, []int{b, b}}, c02pProvider{k, []int{d, 9}}, c02pProvider{k, []int{a, b, c}},
			c02pProvider{k, []int{d, c, b}})
	}
	out = append(out, c02pProvider{"val", []int{a}}, c02pProvider{"val", []int{d}}, c02pProvider{"val", []int{9}},
		c02pProvider{"rel", []int{b}}, c02pProvider{"rel", []int{c}}, c02pProvider{"rel", []int{9}},
		c02pProvider{"tree", nil}, c02pProvider{"tree", []int{c}}, c02pProvider{"tree", []int{a, b}}, c02pProvider{"tree", []int{d, b, a}},
		c02pProvider{"union", []int{a, b}}, c02pProvider{"union", []int{c, 9}}, c02pProvider{"union", []int{9, c}}, c02pProvider{"union", []int{b, c, d}},
		c02pProvider{"utree", []int{a, c}}, c02pProvider{"utree", []int{9, b}},
		c02pProvider{"filt", []int{a, b}}, c02pProvider{"filt", []int{b, 9}}, c02pProvider{"filt", []int{c, c}},
		c02pProvider{"fany", []int{a, b, c}}, c02pProvider{"fany", []int{c, d, c}})
	return out
}

// the probe dataset: masks chosen so that every pair of tags shares an entity and every tag has an entity of its own
var c02pProbeMasks = []int{0x3, 0x1, 0x6, 0xf, 0x0, 0x5, 0x8, 0xa}

func c02pRandomMasks(r *rng, n int) []int {
	masks := make([]int, n)
	for i := range masks {
		switch x := r.intn(100); {
		case x < 15:
			masks[i] = 0
		case x < 40:
			masks[i] = 1 << uint(r.intn(c02pTags))
		default:
			masks[i] = r.intn(1 << c02pTags)
		}
	}
	if n >= 2 {
		masks[r.intn(n)] = 0xf // at least one entity carrying every value
	}
	return masks
}

func (p c02pProvider) caseLine(w *c02pWorld, q *qQuery) string {
	mult, _ := w.multToken(p)
	return q.caseLine("P", w.d) + " " + mult + " " + p.token()
}

// c02pEmit appends the provider stream: quick 3 datasets, thorough 16
func c02pEmit(o *opts, qb *qBolt, cases, impl *lineWriter, bump func(group, key string)) error {
	r := qRng(o.seed, 0xC02B)
	nData := 3
	if o.thorough() {
		nData = 16
	}
	sysNext := 0
	for di := 0; di < nData; di++ {
		var d *qDataset
		var masks []int
		switch di {
		case 0:
			d, masks = qProbeDataset(), c02pProbeMasks
		case 1:
			d = qTwinDataset(qGenDataset(r, 3, false))
			masks = c02pRandomMasks(r, len(d.rows))
		default:
			d = qGenDataset(r, []int{0, 1, 2}[r.intn(3)]+r.intn(10), false)
			d.noBucket = false
			masks = c02pRandomMasks(r, len(d.rows))
		}
		w, err := qb.c02pLoad(d, masks)
		if err != nil {
			return err
		}
		cases.line("%s", d.line())
		impl.line("D")
		cases.line("%s", w.maskLine())
		impl.line("G")
		bump("provider_rows", strconv.Itoa(len(d.rows)))
		n := int64(len(d.rows))
		typed := []int{qColFs, qColFi, qColFj, qColFf, qColFb, qColFt}
		for _, p := range c02pProviders(r) {
			_, cands := w.multToken(p)
			m := int64(cands)
			tc := typed[sysNext%len(typed)]
			sysNext++
			sorts := [][]qSortField{
				nil,
				{{col: -1, asc: false}},
				{{col: -1, asc: true, spell: 2}},
				{{col: -1, asc: false, spell: 1}, {col: tc, asc: true}},
				{{col: tc, asc: sysNext%2 == 0}},
				{{col: tc, asc: sysNext%2 != 0}, {col: -1, asc: false}},
				qRandomSort(r, 4),
			}
			for si, fs := range sorts {
				pages := c02ViewPages(m, n)
				if si >= 3 && di > 0 {
					// the non-id sorts: half of the pages, rotating
					var half []qPaging
					for k, pg := range pages {
						if k%2 == (si+sysNext)%2 {
							half = append(half, pg)
						}
					}
					pages = half
				}
				filter := 0
				if r.chance(30) {
					filter = r.intn(len(qFilters))
				}
				for _, pg := range pages {
					q := &qQuery{filter: filter, sort: fs, skip: pg.skip, limit: pg.limit, none: pg.none}
					cases.line("%s", p.caseLine(w, q))
					impl.line("%s", w.run(qb.db, p, q.text()))
					strat := "sorting"
					if len(fs) == 0 || fs[0].col < 0 {
						strat = "id-forward"
						if len(fs) > 0 && !fs[0].asc {
							strat = "id-reverse"
						}
					}
					shape := p.kind + "/" + strconv.Itoa(len(p.vals))
					bump("kind", "P")
					bump("provider_x_strategy", shape+"/"+strat)
					dup := false
					for _, mk := range masks {
						if p.mult(mk) > 1 {
							dup = true
						}
					}
					if dup {
						bump("provider_names_a_row_more_than_once", shape+"/"+strat)
					}
					switch {
					case m == 0:
						bump("provider_candidates", "none")
					case m == n:
						bump("provider_candidates", "every row")
					default:
						bump("provider_candidates", "proper subset")
					}
				}
			}
		}
	}
	return nil
}

// c02pReplayQuery runs one P case line on the world built from the D and G lines
func c02pReplayQuery(qb *qBolt, w *c02pWorld, f []string) (string, string, error) {
	if w == nil {
		return "", "", fmt.Errorf("provider query before the tag mask line")
	}
	if len(f) < 7 {
		return "", "", fmt.Errorf("short provider query line")
	}
	q, err := qQueryFromCase(f[:len(f)-2])
	if err != nil {
		return "", "", err
	}
	fam := c02PlainFamily(w.d, nil)
	if q.filter, err = c02FilterFromBits(fam, c02View{}, f[1]); err != nil {
		return "", "", err
	}
	p, err := c02pParseProvider(f[len(f)-1])
	if err != nil {
		return "", "", err
	}
	if want, _ := w.multToken(p); want != f[len(f)-2] {
		return "", "", fmt.Errorf("candidate digits %s do not belong to provider %s over tag masks %s (expected %s)", f[len(f)-2], p.token(), w.maskLine(), want)
	}
	return w.run(qb.db, p, q.text()), q.text() + "`  over the cursor provider `" + p.describe(), nil
}
