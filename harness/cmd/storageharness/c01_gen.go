package main

import (
	"math"
	"strconv"
)

// C01 - seeded generators: datasets (null heavy, empty sets, shared prefixes, boundary numbers) and
// filters from a typed, grammar directed generator.

var c01Strings = []string{"", "a", "ab", "abc", "Abc", "ABC", "aBd", "b", "ba", "x y", "5", "15", "-3", "05", "3", "17",
	"true", "\xe2\x86\x92z", "zz", "a\"b", `a\b`, "abcabc", "B"}
var c01NumStrings = []string{"5", "15", "17", "27", "3", "-3", "05", "0", "9007199254740993", "42"}
var c01Ints = []int64{0, 1, -1, 2, 3, 5, 15, 17, 42, -3, 2147483647, -2147483648, 2147483648, 9007199254740992, 9007199254740993,
	-9007199254740993, 9223372036854775807, -9223372036854775808, 4611686018427387904, 9223372036854775295, 9223372036854774784}
var c01Int32s = []int64{0, 1, -1, 2, 3, 5, 15, 17, 42, -3, 2147483647, -2147483648, 100}
var c01Floats = []float64{0, math.Copysign(0, -1), 0.5, 1.5, -1.5, 3, 5, 15, 17, 2.5e-3, 1e300, -1e300, 5e-324, math.NaN(), math.Inf(1), math.Inf(-1),
	9007199254740992, 9007199254740994, 9.223372036854775807e18, 4.2, 42, -3, 2147483647}
var c01WholeFloats = []float64{0, 1, 3, 5, 15, 17, -3, 42, 1e6, 9007199254740991, math.Copysign(0, -1), 2}
var c01FloatLits = []string{"0.5", "1.5", "-1.5", "3.0", "5.0", "15.0", "0.0", "-0.0", "2.5e-3", "1e300", "1e3", "9007199254740993.0",
	"9223372036854775808", "9223372036854775807.0", "-9223372036854775809", "4.2", "42.0", "17.0", "5e-324", "9007199254740992.0", "2147483647.0", "1.7e1"}
var c01WholeFloatLits = []string{"3.0", "5.0", "15.0", "-3.0", "0.0", "17.0", "42.0", "1e6", "5e0"}
var c01TimeSecs = []int64{1600000000, 1600000001, 1599999999, 0, 1700000000, 951782400, 4102444800}
var c01TimeNs = []int64{0, 0, 1, 500000000, 999999999}
var c01TagKeys = []string{"a", "b", "c", "n"}

func c01IdPool(store int) []string {
	switch store {
	case 0:
		return []string{"p", "pa", "pab", "pb", "q", "qa", "r", "rr", "s", "sa", "t", "u", "v", "w"}
	case 1:
		return []string{"l", "la", "lab", "lb", "m", "ma", "p"}
	default:
		return []string{"o", "oa", "ob", "oo", "p"}
	}
}

type c01Gen struct {
	r     *rng
	stats map[string]int
}

func (g *c01Gen) count(key string) { g.stats[key]++ }

func (g *c01Gen) pickS(xs []string) string { return xs[g.r.intn(len(xs))] }
func (g *c01Gen) pickI(xs []int64) int64   { return xs[g.r.intn(len(xs))] }
func (g *c01Gen) pickF(xs []float64) float64 {
	return xs[g.r.intn(len(xs))]
}

// weighted choice: returns the index
func (g *c01Gen) weighted(w []int) int {
	total := 0
	for _, x := range w {
		total += x
	}
	n := g.r.intn(total)
	for i, x := range w {
		if n < x {
			return i
		}
		n -= x
	}
	return len(w) - 1
}

func (g *c01Gen) time() c01Val {
	return c01Val{k: 't', sec: g.pickI(c01TimeSecs), ns: g.pickI(c01TimeNs), loc: g.r.intn(3)}
}

// ---- datasets -----------------------------------------------------------------------------------

func (g *c01Gen) value(gen string, ids [][]string) (c01Val, bool) {
	// (value, present)
	nilPct := 25
	if gen == "nil" {
		if g.r.chance(50) {
			return c01Val{}, false
		}
		return c01Val{k: 'n'}, true
	}
	if g.r.chance(nilPct) {
		if g.r.chance(50) {
			return c01Val{}, false
		}
		return c01Val{k: 'n'}, true
	}
	if len(gen) > 2 && gen[:2] != "fk" && g.r.chance(6) {
		// boundary values (the empty string, zeros of every width, -0.0, false, the zero instants): every dotted path of
		// the random datasets ends in them now and then (c01_boundary.go is the bounded-exhaustive counterpart)
		g.count("value:boundary")
		return c01bBoundaryValue(gen, g.r.intn(2)), true
	}
	wrong := g.r.chance(5)
	switch gen {
	case "str", "strnum":
		if wrong {
			if g.r.chance(50) {
				return c01Val{k: 'i', i: g.pickI(c01Ints)}, true
			}
			return c01Val{k: 'b', b: g.r.chance(50)}, true
		}
		if g.r.chance(18) { // escape characters, spellings of numbers of every magnitude
			return c01Val{k: 's', s: g.pickS(c01CoercePool())}, true
		}
		if gen == "strnum" && g.r.chance(70) {
			return c01Val{k: 's', s: g.pickS(c01NumStrings)}, true
		}
		return c01Val{k: 's', s: g.pickS(c01Strings)}, true
	case "int32", "int64":
		if wrong {
			switch g.r.intn(3) {
			case 0:
				return c01Val{k: 's', s: "5"}, true
			case 1:
				return c01Val{k: 'f', f: 5}, true
			default:
				return c01Val{k: 'b', b: true}, true
			}
		}
		if gen == "int32" || g.r.chance(20) {
			return c01Val{k: 'w', i: g.pickI(c01Int32s)}, true
		}
		return c01Val{k: 'i', i: g.pickI(c01Ints)}, true
	case "float":
		if wrong {
			return c01Val{k: 's', s: "1.5"}, true
		}
		if g.r.chance(12) {
			return c01Val{k: 'i', i: g.pickI(c01Ints)}, true
		}
		if g.r.chance(25) {
			return c01Val{k: 'f', f: g.pickF(c01ExtremeFloatValues())}, true
		}
		return c01Val{k: 'f', f: g.pickF(c01Floats)}, true
	case "wholefloat":
		if g.r.chance(15) {
			return c01Val{k: 'w', i: g.pickI(c01Int32s)}, true
		}
		return c01Val{k: 'f', f: g.pickF(c01WholeFloats)}, true
	case "bool":
		if wrong {
			return c01Val{k: 's', s: "true"}, true
		}
		return c01Val{k: 'b', b: g.r.chance(50)}, true
	case "time":
		if wrong {
			return c01Val{k: 'i', i: 1600000000}, true
		}
		return g.time(), true
	case "fk0", "fk1", "fk2":
		st := int(gen[2] - '0')
		if g.r.chance(12) || len(ids[st]) == 0 {
			return c01Val{k: 's', s: g.pickS([]string{"zz", "nope", "p"})}, true // dangling (or an id of another store)
		}
		return c01Val{k: 's', s: g.pickS(ids[st])}, true
	}
	panic("bad gen " + gen)
}

func (g *c01Gen) tagValue() c01Val {
	switch g.weighted([]int{30, 15, 15, 12, 12, 16}) {
	case 0:
		if g.r.chance(20) {
			return c01Val{k: 's', s: g.pickS(c01CoercePool())}
		}
		return c01Val{k: 's', s: g.pickS(c01Strings)}
	case 1:
		return c01Val{k: 'w', i: g.pickI(c01Int32s)}
	case 2:
		return c01Val{k: 'i', i: g.pickI(c01Ints)}
	case 3:
		return c01Val{k: 'b', b: g.r.chance(50)}
	case 4:
		switch g.weighted([]int{50, 25, 25}) {
		case 0:
			return c01Val{k: 'f', f: g.pickF(c01WholeFloats)}
		case 1:
			return c01Val{k: 'f', f: g.pickF(c01Floats)}
		default:
			return c01Val{k: 'f', f: g.pickF(c01ExtremeFloatValues())}
		}
	default:
		return c01Val{k: 'n'}
	}
}

func (g *c01Gen) set(gen string, ids [][]string) ([]string, bool) {
	if g.r.chance(15) {
		return nil, false // no bucket at all
	}
	n := g.weighted([]int{20, 25, 25, 20, 10})
	var out []string
	for i := 0; i < n; i++ {
		if (gen == "strset" || gen == "numset") && g.r.chance(15) {
			out = append(out, g.pickS(c01CoercePool()))
			continue
		}
		switch gen {
		case "strset":
			out = append(out, g.pickS(c01Strings))
		case "numset":
			out = append(out, g.pickS(c01NumStrings))
		default:
			st := int(gen[5] - '0')
			if g.r.chance(12) || len(ids[st]) == 0 {
				out = append(out, g.pickS([]string{"zz", "nope", "p", "l"}))
			} else {
				out = append(out, g.pickS(ids[st]))
			}
		}
	}
	out = c01SortDedup(out)
	if gen != "strset" && gen != "numset" {
		// ids are never empty strings
		var o2 []string
		for _, s := range out {
			if s != "" {
				o2 = append(o2, s)
			}
		}
		out = o2
	}
	return out, true
}

func (g *c01Gen) dataset(maxPeople int) *c01Dataset {
	d := &c01Dataset{stores: make([][]c01Entity, c01Roots)}
	ids := make([][]string, c01Roots)
	sizes := []int{g.r.intn(maxPeople + 1), g.r.intn(6), g.r.intn(5)}
	for st := 0; st < c01Roots; st++ {
		pool := c01IdPool(st)
		var chosen []string
		for i := 0; i < sizes[st]; i++ {
			chosen = append(chosen, g.pickS(pool))
		}
		ids[st] = c01SortDedup(chosen)
	}
	for st := 0; st < c01Roots; st++ {
		sd := c01Schema[st]
		for _, id := range ids[st] {
			e := c01Entity{id: id}
			for _, s := range sd.syms {
				switch s.kind {
				case "fld":
					if v, ok := g.value(s.gen, ids); ok {
						path := append(append([]string{}, s.prefix...), s.key)
						e.fields = append(e.fields, c01Field{path: path, v: v})
					}
				case "set":
					if elems, ok := g.set(s.gen, ids); ok {
						e.sets = append(e.sets, c01Set{key: s.key, elems: elems})
					}
				}
			}
			for _, m := range sd.maps {
				if g.r.chance(20) {
					continue // no tags bucket
				}
				for _, k := range c01TagKeys {
					if g.r.chance(60) {
						path := append(append(append([]string{}, m.prefix...), m.key), k)
						e.fields = append(e.fields, c01Field{path: path, v: g.tagValue()})
					}
				}
				if g.r.chance(40) { // a nested map: <map>.sub.k
					path := append(append(append([]string{}, m.prefix...), m.key), "sub", "k")
					e.fields = append(e.fields, c01Field{path: path, v: g.tagValue()})
				}
			}
			// child stores of this root: the entity is a member (has the sub-bucket) or not
			for _, child := range c01ChildrenOf(st) {
				cd := c01Cur.raw[child]
				if !g.r.chance(55) {
					continue
				}
				g.count("child-member:" + cd.name)
				n0 := len(e.fields)
				for _, s := range cd.syms {
					if v, ok := g.value(s.gen, ids); ok {
						path := append(append(append([]string{}, cd.path...), s.prefix...), s.key)
						e.fields = append(e.fields, c01Field{path: path, v: v})
					}
				}
				for _, m := range cd.maps {
					if g.r.chance(30) {
						continue
					}
					for _, k := range c01TagKeys {
						if g.r.chance(50) {
							path := append(append(append(append([]string{}, cd.path...), m.prefix...), m.key), k)
							e.fields = append(e.fields, c01Field{path: path, v: g.tagValue()})
						}
					}
				}
				if len(e.fields) == n0 { // a member without a stored value: the sub-bucket exists through a nil marker
					e.fields = append(e.fields, c01Field{path: append(append([]string{}, cd.path...), "_m"), v: c01Val{k: 'n'}})
				}
			}
			d.stores[st] = append(d.stores[st], e)
		}
	}
	return d
}

// ---- symbol catalogue ---------------------------------------------------------------------------

type c01Sym struct {
	name   string
	ty     byte // b d f i s a
	set    bool
	linked int  // store of the linked entities (sub-queries), -1
	whole  bool // float values are whole numbers: string-mode comparisons are inside the model
	ids    int  // >= 0: values are ids of that store
	nums   bool // numeric strings
}

func c01Catalogue(store int, dotted bool) []c01Sym {
	var out []c01Sym
	sd := c01Schema[store]
	for _, s := range sd.syms {
		sym := c01Sym{name: s.name, ty: s.ty, set: s.kind == "set", linked: s.linked, ids: -1, whole: s.gen != "float"}
		if s.kind == "id" {
			sym.ids = c01RootOf(store)
		}
		if s.linked >= 0 {
			sym.ids = s.linked
		}
		if s.gen == "numset" || s.gen == "strnum" {
			sym.nums = true
		}
		out = append(out, sym)
	}
	for _, m := range sd.maps {
		for _, k := range append(append([]string{}, c01TagKeys...), "zz", "sub.k") {
			out = append(out, c01Sym{name: m.name + "." + k, ty: m.ty, linked: -1, ids: -1, whole: true})
		}
	}
	if dotted {
		out = append(out, c01Dotted(c01RootOf(store))...) // a child store reaches other stores through the symbols its parent granted
	}
	return out
}

// ---- literals -----------------------------------------------------------------------------------

func (g *c01Gen) strLit(sym *c01Sym) *c01Lit {
	if sym != nil && sym.ids >= 0 && g.r.chance(75) {
		return &c01Lit{k: 'S', s: g.pickS(append(c01IdPool(sym.ids), "zz", "nope"))}
	}
	if g.r.chance(6) {
		g.count("lit:S-empty")
		return &c01Lit{k: 'S', s: ""}
	}
	if g.r.chance(20) { // escape sequences at the ends / in the middle / alone; spellings of numbers
		if g.r.chance(70) {
			g.count("lit:S-escaped")
			return &c01Lit{k: 'S', s: g.pickS(c01EscStrings)}
		}
		return &c01Lit{k: 'S', s: g.pickS(c01CoercePool())}
	}
	if sym != nil && sym.nums && g.r.chance(70) {
		return &c01Lit{k: 'S', s: g.pickS(c01NumStrings)}
	}
	return &c01Lit{k: 'S', s: g.pickS(c01Strings)}
}

func (g *c01Gen) intLit() *c01Lit { return &c01Lit{k: 'I', i: g.pickI(c01Ints)} }

// floatLit: strMode = the literal will be converted to a string (every form and magnitude matters there);
// otherwise it is compared numerically
func (g *c01Gen) floatLit(strMode bool) *c01Lit {
	if strMode {
		switch g.weighted([]int{35, 45, 20}) {
		case 0:
			return &c01Lit{k: 'F', ftxt: g.pickS(c01WholeFloatLits)}
		case 1:
			g.count("lit:F-extreme-string-mode")
			return &c01Lit{k: 'F', ftxt: g.pickS(c01ExtremeNumLits)}
		default:
			return &c01Lit{k: 'F', ftxt: g.pickS(c01FloatLits)}
		}
	}
	if g.r.chance(20) {
		return &c01Lit{k: 'F', ftxt: g.pickS(c01ExtremeNumLits)}
	}
	return &c01Lit{k: 'F', ftxt: g.pickS(c01FloatLits)}
}
func (g *c01Gen) dateLit() *c01Lit {
	return &c01Lit{k: 'D', sec: g.pickI(c01TimeSecs), ns: g.pickI(c01TimeNs), zone: g.r.intn(3)}
}

// litFor picks a literal for `sym op`: mostly of a kind the typer accepts, sometimes any kind
func (g *c01Gen) litFor(sym *c01Sym, ty byte, op string) *c01Lit {
	strMode := op == "contains" || op == "ncontains" || op == "icontains" || op == "nicontains"
	if g.r.chance(6) { // any grammatical kind (typer errors included)
		switch g.r.intn(6) {
		case 0:
			return g.strLit(sym)
		case 1:
			return g.intLit()
		case 2:
			return g.floatLit(true)
		case 3:
			return g.dateLit()
		case 4:
			return &c01Lit{k: 'B', b: g.r.chance(50)}
		default:
			return &c01Lit{k: 'N'}
		}
	}
	if (op == "eq" || op == "neq") && g.r.chance(12) {
		return &c01Lit{k: 'N'}
	}
	if strMode {
		if op == "icontains" || op == "nicontains" {
			return &c01Lit{k: 'S', s: g.pickS([]string{"a", "A", "ab", "AB", "bc", "B", "", "x Y", "5", "zz", "bD", `"`, `\`, `HI"`, `"h`, "\n", `E-`, "e+", `A\`})}
		}
		switch g.weighted([]int{60, 20, 20}) {
		case 0:
			return &c01Lit{k: 'S', s: g.pickS([]string{"a", "b", "ab", "bc", "", "5", "1", "-", "x", "A", "7", "0", "abcabc", "ru", `"`, `\`, `hi"`, `"h`, "\n", `\"`, "e", "e-", "e+", ".", "00", `i\`})}
		case 1:
			return &c01Lit{k: 'I', i: g.pickI(append([]int64{5, 1, 15, 0, 7, 3, -3}, c01ExtremeInts...))}
		default:
			return g.floatLit(true)
		}
	}
	switch ty {
	case 's':
		switch g.weighted([]int{70, 15, 15}) {
		case 0:
			return g.strLit(sym)
		case 1:
			return &c01Lit{k: 'I', i: g.pickI(append([]int64{5, 15, 17, 3, -3, 0, 42, 27}, c01ExtremeInts...))}
		default:
			return g.floatLit(true)
		}
	case 'i':
		if g.r.chance(25) {
			return g.floatLit(false)
		}
		return g.intLit()
	case 'f':
		if g.r.chance(35) {
			return g.intLit()
		}
		return g.floatLit(false)
	case 'b':
		return &c01Lit{k: 'B', b: g.r.chance(50)}
	case 'd':
		return g.dateLit()
	default: // any
		switch g.weighted([]int{35, 25, 12, 15, 5, 8}) {
		case 0:
			return g.strLit(sym)
		case 1:
			return g.intLit()
		case 2:
			return g.floatLit(true)
		case 3:
			return &c01Lit{k: 'B', b: g.r.chance(50)}
		case 4:
			return g.dateLit()
		default:
			return &c01Lit{k: 'N'}
		}
	}
}

var c01CmpOps = []string{"eq", "neq", "lt", "lte", "gt", "gte"}
var c01StrOps = []string{"contains", "ncontains", "icontains", "nicontains"}

func (g *c01Gen) opFor(ty byte, whole bool) string {
	switch ty {
	case 's', 'a':
		if g.r.chance(30) {
			return g.pickS(c01StrOps)
		}
	case 'i':
		if g.r.chance(10) {
			return g.pickS(c01StrOps[:2])
		}
	case 'f':
		if g.r.chance(10) {
			return g.pickS(c01StrOps[:2])
		}
	case 'b':
		if g.r.chance(85) {
			return g.pickS(c01CmpOps[:2])
		}
	}
	if g.r.chance(3) {
		return g.pickS(c01StrOps)
	}
	return g.pickS(c01CmpOps)
}

func (g *c01Gen) arrFor(sym *c01Sym, ty byte) (string, []*c01Lit) {
	n := 1 + g.weighted([]int{30, 30, 25, 15})
	kind := 0 // 0 AS 1 AN-int 2 AN-mixed 3 AD
	switch ty {
	case 's':
		kind = g.weighted([]int{70, 20, 8, 2})
	case 'i':
		kind = g.weighted([]int{10, 55, 32, 3})
	case 'f':
		if sym != nil && sym.whole {
			kind = g.weighted([]int{8, 40, 50, 2})
		} else {
			kind = g.weighted([]int{0, 40, 58, 2})
		}
	case 'd':
		kind = g.weighted([]int{3, 3, 0, 94})
	case 'b':
		kind = g.weighted([]int{40, 40, 0, 20})
	default:
		kind = g.weighted([]int{35, 30, 15, 20})
	}
	var arr []*c01Lit
	strMode := ty == 's' || kind == 0
	for i := 0; i < n; i++ {
		switch kind {
		case 0:
			arr = append(arr, g.strLit(sym))
		case 1:
			if strMode {
				arr = append(arr, &c01Lit{k: 'I', i: g.pickI(append([]int64{5, 15, 17, 27, 3, -3, 0, 42}, c01ExtremeInts[:3]...))})
			} else {
				arr = append(arr, g.intLit())
			}
		case 2:
			if g.r.chance(50) {
				arr = append(arr, g.floatLit(strMode))
			} else if strMode {
				arr = append(arr, &c01Lit{k: 'I', i: g.pickI([]int64{5, 15, 17, 3, 0})})
			} else {
				arr = append(arr, g.intLit())
			}
		default:
			arr = append(arr, g.dateLit())
		}
	}
	if kind == 2 {
		arr[g.r.intn(len(arr))] = g.floatLit(strMode)
	}
	return []string{"AS", "AN", "AN", "AD"}[kind], arr
}

func (g *c01Gen) boundsFor(ty byte) (*c01Lit, *c01Lit) {
	kind := 0 // 0 ints 1 mixed 2 dates
	switch ty {
	case 'i':
		kind = g.weighted([]int{65, 30, 5})
	case 'f':
		kind = g.weighted([]int{35, 62, 3})
	case 'd':
		kind = g.weighted([]int{4, 2, 94})
	case 'a':
		kind = g.weighted([]int{45, 25, 30})
	default:
		kind = g.weighted([]int{50, 20, 30})
	}
	switch kind {
	case 0:
		a, b := g.pickI(c01Ints), g.pickI(c01Ints)
		if a > b && g.r.chance(85) {
			a, b = b, a
		}
		return &c01Lit{k: 'I', i: a}, &c01Lit{k: 'I', i: b}
	case 1:
		lo, hi := g.floatLit(false), g.floatLit(false)
		if g.r.chance(50) {
			lo = g.intLit()
		} else if g.r.chance(50) {
			hi = g.intLit()
		}
		return lo, hi
	default:
		lo, hi := g.dateLit(), g.dateLit()
		if (lo.sec > hi.sec || (lo.sec == hi.sec && lo.ns > hi.ns)) && g.r.chance(85) {
			lo, hi = hi, lo
		}
		return lo, hi
	}
}

// ---- filters ------------------------------------------------------------------------------------

func (g *c01Gen) pickSym(cat []c01Sym, pred func(*c01Sym) bool) *c01Sym {
	var idx []int
	for i := range cat {
		if pred(&cat[i]) {
			idx = append(idx, i)
		}
	}
	if len(idx) == 0 {
		return nil
	}
	return &cat[idx[g.r.intn(len(idx))]]
}

func (g *c01Gen) subQuery(store int, depth int, dotted bool) *c01Filter {
	q := &c01Filter{k: "q", a: g.filter(store, depth, dotted)}
	if g.r.chance(30) {
		v := g.pickI([]int64{0, 1, 2, -1, 5, -3})
		q.skip = &v
	}
	if g.r.chance(30) {
		v := g.pickI([]int64{-1, 0, 1, 2, 3, -7, 10})
		q.limit = &v
	}
	return q
}

// lhs picks a left-hand side: (lhs, the symbol, the type that drives literal choice)
func (g *c01Gen) lhs(store int, depth int, dotted bool) (*c01Lhs, *c01Sym, byte) {
	cat := c01Catalogue(store, dotted)
	shape := g.weighted([]int{52, 12, 20, 9, 7})
	if depth <= 0 && shape == 4 {
		shape = 3
	}
	switch shape {
	case 1, 2:
		sym := g.pickSym(cat, func(s *c01Sym) bool { return s.set })
		if g.r.chance(3) { // a non-set symbol inside a set function: validator error
			sym = g.pickSym(cat, func(s *c01Sym) bool { return !s.set })
		}
		k := "all"
		if shape == 2 {
			k = "any"
		}
		g.count("lhs:" + k)
		return &c01Lhs{k: k, name: sym.name}, sym, sym.ty
	case 3:
		sym := g.pickSym(cat, func(s *c01Sym) bool { return s.set })
		g.count("lhs:count")
		return &c01Lhs{k: "cnt", name: sym.name}, nil, 'i'
	case 4:
		sym := g.pickSym(cat, func(s *c01Sym) bool { return s.set && s.linked >= 0 })
		if sym == nil {
			sym = g.pickSym(cat, func(s *c01Sym) bool { return s.set })
			g.count("lhs:count")
			return &c01Lhs{k: "cnt", name: sym.name}, nil, 'i'
		}
		g.count("lhs:count-subquery")
		return &c01Lhs{k: "cntq", name: sym.name, sub: g.subQuery(sym.linked, depth-1, dotted)}, nil, 'i'
	default:
		sym := g.pickSym(cat, func(s *c01Sym) bool { return !s.set })
		if g.r.chance(2) { // a set symbol outside a set function: validator error
			sym = g.pickSym(cat, func(s *c01Sym) bool { return s.set })
		}
		g.count("lhs:symbol")
		return &c01Lhs{k: "sym", name: sym.name}, sym, sym.ty
	}
}

func (g *c01Gen) atom(store int, depth int, dotted bool) *c01Filter {
	switch g.weighted([]int{58, 14, 12, 6, 3, 7}) {
	case 0:
		l, sym, ty := g.lhs(store, depth, dotted)
		op := g.opFor(ty, true) // float -> string of every float is modelled (Ast/FmtFloat.v)
		if l.k == "cnt" || l.k == "cntq" {
			lit := &c01Lit{k: 'I', i: g.pickI([]int64{0, 1, 2, 3, 4, -1})}
			if g.r.chance(15) {
				lit = g.litFor(nil, 'i', op)
			}
			g.count("op:" + op)
			g.count("lit:" + string(lit.k))
			return &c01Filter{k: "bin", lhs: l, op: op, lit: lit}
		}
		lit := g.litFor(sym, ty, op)
		g.count("op:" + op)
		g.count("lit:" + string(lit.k))
		return &c01Filter{k: "bin", lhs: l, op: op, lit: lit}
	case 1:
		l, sym, ty := g.lhs(store, depth, dotted)
		k, arr := g.arrFor(sym, ty)
		if l.k == "cnt" || l.k == "cntq" {
			k = "AN"
			arr = []*c01Lit{{k: 'I', i: g.pickI([]int64{0, 1, 2})}, {k: 'I', i: g.pickI([]int64{1, 2, 3})}}
		}
		g.count("op:in")
		g.count("arr:" + k)
		return &c01Filter{k: "in", lhs: l, neg: g.r.chance(35), arrK: k, arr: arr}
	case 2:
		l, _, ty := g.lhs(store, depth, dotted)
		lo, hi := g.boundsFor(ty)
		if l.k == "cnt" || l.k == "cntq" {
			lo, hi = &c01Lit{k: 'I', i: g.pickI([]int64{0, 1, 2})}, &c01Lit{k: 'I', i: g.pickI([]int64{1, 2, 3, 5})}
		}
		g.count("op:between")
		g.count("bounds:" + string(lo.k) + string(hi.k))
		return &c01Filter{k: "btw", lhs: l, neg: g.r.chance(35), lo: lo, hi: hi}
	case 3:
		cat := c01Catalogue(store, dotted)
		if depth > 0 && g.r.chance(45) {
			sym := g.pickSym(cat, func(s *c01Sym) bool { return s.set && s.linked >= 0 })
			if sym == nil {
				sym = g.pickSym(cat, func(s *c01Sym) bool { return s.set })
				g.count("isEmpty:symbol")
				return &c01Filter{k: "empty", name: sym.name}
			}
			g.count("isEmpty:subquery")
			return &c01Filter{k: "emptyq", name: sym.name, sub: g.subQuery(sym.linked, depth-1, dotted)}
		}
		sym := g.pickSym(cat, func(s *c01Sym) bool { return s.set })
		g.count("isEmpty:symbol")
		return &c01Filter{k: "empty", name: sym.name}
	case 4:
		g.count("boolconst")
		return &c01Filter{k: "bc", b: g.r.chance(50)}
	default:
		cat := c01Catalogue(store, dotted)
		sym := g.pickSym(cat, func(s *c01Sym) bool { return !s.set && (s.ty == 'b' || s.ty == 'a') })
		if sym == nil || g.r.chance(8) {
			sym = g.pickSym(cat, func(s *c01Sym) bool { return !s.set })
		}
		g.count("boolsym")
		return &c01Filter{k: "bs", name: sym.name}
	}
}

func (g *c01Gen) filter(store int, depth int, dotted bool) *c01Filter {
	if depth <= 0 || g.r.chance(35) {
		return g.atom(store, depth, dotted)
	}
	switch g.weighted([]int{25, 38, 37}) {
	case 0:
		g.count("not")
		return &c01Filter{k: "not", a: g.filter(store, depth-1, dotted)}
	case 1:
		g.count("and")
		return &c01Filter{k: "and", a: g.filter(store, depth-1, dotted), c: g.filter(store, depth-1, dotted)}
	default:
		g.count("or")
		return &c01Filter{k: "or", a: g.filter(store, depth-1, dotted), c: g.filter(store, depth-1, dotted)}
	}
}

func c01Itoa(i int) string { return strconv.Itoa(i) }
