package main

import (
	"context"
	"fmt"
	"os"
	"path/filepath"
	"sort"
	"strings"
	"time"

	"github.com/biogo/store/llrb"
	"github.com/openziti/foundation/v2/errorz"
	"github.com/openziti/storage/ast"
	"github.com/openziti/storage/boltz"
	"go.etcd.io/bbolt"
)

// C14 - every set cursor enumerates its set exactly, in order, and seeks correctly.
//
// Case lines (see coq/extraction/c14_driver.ml):
//   C <kind> <fw> <present> <nA> A.. <nB> B.. <nops> ops..     one cursor, ops = N | S<hex>
//   Q <allof|anyof> <fw> <nent> (id nroles roles..).. <nvals> vals.. <nops> ops..
//   B <ro|rw> <nkeys> keys.. <nops> bops..                       raw bbolt cursor, bops = F L N P S<hex>
//   R .. / S ..                                                  re-opened cursors and scans: c14_reuse.go
//   I ..                                                         scanners layered over cursors (IterateIds ..): c14_scan.go
//   C / Q / I line followed by " @ m0 .. mn"                     the same case under an observation protocol: c14_proto.go
// Observation line: one token per observation point (after the constructor and after every op):
//   I (invalid) | V<hex> (valid, Current) | P (panic; everything after is P too)
// for B lines: the key returned by each op, I for nil.
func init() { commands["c14"] = runC14 }

var c14ElemU = []string{"", "a", "ab", "b", "\xff"}      // element universe (typed sets; includes the empty string)
var c14IdU = []string{"\x01", "a", "ab", "b", "\xff"}    // universe where "" cannot be stored (bucket names, raw keys, ids)
var c14Targets = []string{"", "\x01", "a", "aa", "ab", "b", "c", "\xff", "\xff\xff"}
var c14TargetsSmall = []string{"", "a", "aa", "b", "\xff", "\xff\xff"}

type c14Op struct {
	seek bool
	v    string
}

func (o c14Op) String() string {
	if o.seek {
		return "S" + hxs(o.v)
	}
	return "N"
}

func c14ParseOp(s string) c14Op {
	if s == "N" {
		return c14Op{}
	}
	return c14Op{seek: true, v: string(unhx(s[1:]))}
}

func c14OpsString(ops []c14Op) string {
	parts := make([]string, 0, len(ops)+1)
	parts = append(parts, fmt.Sprint(len(ops)))
	for _, o := range ops {
		parts = append(parts, o.String())
	}
	return strings.Join(parts, " ")
}

func c14Set(parts []string) string {
	out := make([]string, 0, len(parts)+1)
	out = append(out, fmt.Sprint(len(parts)))
	for _, p := range parts {
		out = append(out, hxs(p))
	}
	return strings.Join(out, " ")
}

func c14Subset(u []string, mask int) []string {
	var out []string
	for i, e := range u {
		if mask&(1<<uint(i)) != 0 {
			out = append(out, e)
		}
	}
	return out
}

// all op sequences of exactly depth ops over Next and Seek to each target
func c14Seqs(targets []string, depth int) [][]c14Op {
	alphabet := []c14Op{{}}
	for _, t := range targets {
		alphabet = append(alphabet, c14Op{seek: true, v: t})
	}
	seqs := [][]c14Op{{}}
	for d := 0; d < depth; d++ {
		var next [][]c14Op
		for _, s := range seqs {
			for _, a := range alphabet {
				ns := make([]c14Op, len(s)+1)
				copy(ns, s)
				ns[len(s)] = a
				next = append(next, ns)
			}
		}
		seqs = next
	}
	return seqs
}

func c14TagOps(ops []c14Op) []c14Op {
	out := make([]c14Op, len(ops))
	for i, o := range ops {
		out[i] = o
		if o.seek {
			out[i].v = string(boltz.PrependFieldType(boltz.TypeString, []byte(o.v)))
		}
	}
	return out
}

func c14NextOnly(n int) []c14Op { return make([]c14Op, n) }

func c14Observe(c ast.SetCursor) string {
	if c.IsValid() {
		return "V" + hx(c.Current())
	}
	return "I"
}

// c14RunOps opens the cursor and applies ops under recover(); seekRaw: how Seek is invoked
func c14RunOps(mk func() ast.SetCursor, ops []c14Op, seek func(c ast.SetCursor, v string) bool) string {
	obs := make([]string, 0, len(ops)+1)
	func() {
		defer func() {
			if r := recover(); r != nil {
				for len(obs) < len(ops)+1 {
					obs = append(obs, "P")
				}
			}
		}()
		c := mk()
		if c == nil {
			for len(obs) < len(ops)+1 {
				obs = append(obs, "X")
			}
			return
		}
		obs = append(obs, c14pObserveAt(c, 0, len(ops)))
		for i, o := range ops {
			if o.seek {
				if !seek(c, o.v) {
					for len(obs) < len(ops)+1 {
						obs = append(obs, "X") // not seekable although the kind is
					}
					return
				}
			} else {
				c.Next()
			}
			obs = append(obs, c14pObserveAt(c, i+1, len(ops)))
		}
	}()
	return strings.Join(obs, " ")
}

func c14SeekPlain(c ast.SetCursor, v string) bool {
	sc, ok := c.(ast.SeekableSetCursor)
	if !ok {
		return false
	}
	sc.Seek([]byte(v))
	return true
}

func c14SeekString(c ast.SetCursor, v string) bool {
	sc, ok := c.(ast.TypeSeekableSetCursor)
	if !ok {
		return false
	}
	sc.SeekToString(v)
	return true
}

func c14SeekTagged(c ast.SetCursor, v string) bool {
	sc, ok := c.(ast.SeekableSetCursor)
	if !ok {
		return false
	}
	sc.Seek(boltz.PrependFieldType(boltz.TypeString, []byte(v)))
	return true
}

// ---- stores -------------------------------------------------------------------------------

type c14Item struct {
	Id    string
	Tags  []string
	Roles []string
}

func (e *c14Item) GetId() string         { return e.Id }
func (e *c14Item) SetId(id string)       { e.Id = id }
func (e *c14Item) GetEntityType() string { return "items" }

type c14ItemStrategy struct{}

func (c14ItemStrategy) NewEntity() *c14Item { return new(c14Item) }
func (c14ItemStrategy) FillEntity(e *c14Item, b *boltz.TypedBucket) {
	e.Tags = b.GetStringList("tags")
	e.Roles = b.GetStringList("roles")
}
func (c14ItemStrategy) PersistEntity(e *c14Item, ctx *boltz.PersistContext) {
	ctx.SetStringList("tags", e.Tags)
	ctx.SetStringList("roles", e.Roles)
}

type c14Grp struct{ Id string }

func (e *c14Grp) GetId() string         { return e.Id }
func (e *c14Grp) SetId(id string)       { e.Id = id }
func (e *c14Grp) GetEntityType() string { return "grps" }

type c14GrpStrategy struct{}

func (c14GrpStrategy) NewEntity() *c14Grp                         { return new(c14Grp) }
func (c14GrpStrategy) FillEntity(*c14Grp, *boltz.TypedBucket)     {}
func (c14GrpStrategy) PersistEntity(*c14Grp, *boltz.PersistContext) {}

type c14ItemStore struct {
	*boltz.BaseStore[*c14Item]
}
type c14GrpStore struct {
	*boltz.BaseStore[*c14Grp]
}

type c14World struct {
	items     *c14ItemStore
	grps      *c14GrpStore
	tagsSym   boltz.EntitySetSymbol
	rolesSym  boltz.EntitySetSymbol
	rolesIdx  boltz.SetReadIndex
	links     boltz.LinkCollection
	rcLinks   boltz.RefCountedLinkCollection
}

func c14NewWorld(base string) *c14World {
	w := &c14World{}
	w.items = &c14ItemStore{BaseStore: boltz.NewBaseStore(boltz.StoreDefinition[*c14Item]{
		EntityType:      "items",
		EntityStrategy:  c14ItemStrategy{},
		BasePath:        []string{base},
		EntityNotFoundF: func(id string) error { return boltz.NewNotFoundError("items", "id", id) },
	})}
	w.items.InitImpl(w.items)
	w.grps = &c14GrpStore{BaseStore: boltz.NewBaseStore(boltz.StoreDefinition[*c14Grp]{
		EntityType:      "grps",
		EntityStrategy:  c14GrpStrategy{},
		BasePath:        []string{base},
		EntityNotFoundF: func(id string) error { return boltz.NewNotFoundError("grps", "id", id) },
	})}
	w.grps.InitImpl(w.grps)

	w.items.AddIdSymbol("id", ast.NodeTypeString)
	w.tagsSym = w.items.AddSetSymbol("tags", ast.NodeTypeString)
	w.rolesSym = w.items.AddSetSymbol("roles", ast.NodeTypeString)
	w.rolesIdx = w.items.AddSetIndex(w.rolesSym)
	itemGrps := w.items.AddFkSetSymbol("grps", w.grps)
	itemRcGrps := w.items.AddFkSetSymbol("rcgrps", w.grps)

	w.grps.AddIdSymbol("id", ast.NodeTypeString)
	grpItems := w.grps.AddFkSetSymbol("items", w.items)
	grpRcItems := w.grps.AddFkSetSymbol("rcitems", w.items)

	w.links = w.items.AddLinkCollection(itemGrps, grpItems)
	w.grps.AddLinkCollection(grpItems, itemGrps)
	w.rcLinks = w.items.AddRefCountedLinkCollection(itemRcGrps, grpRcItems)
	w.grps.AddRefCountedLinkCollection(grpRcItems, itemRcGrps)
	return w
}

func (w *c14World) initIndexes(tx *bbolt.Tx) {
	eh := &errorz.ErrorHolderImpl{}
	w.items.InitializeIndexes(tx, eh)
	w.grps.InitializeIndexes(tx, eh)
	c14Must(eh.GetError())
}

func c14Must(err error) {
	if err != nil {
		panic(err)
	}
}

// ---- the run --------------------------------------------------------------------------------

type c14Out struct {
	cases *lineWriter
	impl  *lineWriter
	kinds map[string]int
}

func (o *c14Out) emit(kind, caseLine, implLine string) {
	if o.cases.n%512 == 0 {
		watchdogBeat(caseLine)
	}
	o.cases.line("%s", caseLine)
	o.impl.line("%s", implLine)
	o.kinds[kind]++
}

func (o *c14Out) cursorCase(kind string, fw bool, present bool, a, b []string, ops []c14Op,
	mk func() ast.SetCursor, seek func(c ast.SetCursor, v string) bool) {
	f, p := 0, 0
	if fw {
		f = 1
	}
	if present {
		p = 1
	}
	line := fmt.Sprintf("C %s %d %d %s %s %s", kind, f, p, c14Set(a), c14Set(b), c14OpsString(ops)) + c14pSuffix(len(ops))
	o.emit(kind, line, c14RunOps(mk, ops, seek))
}

func runC14(o *opts) error {
	dir, err := os.MkdirTemp("", "c14-harness")
	if err != nil {
		return err
	}
	defer os.RemoveAll(dir)
	out := &c14Out{cases: newLineWriter(o.out, "cases.txt"), impl: newLineWriter(o.out, "impl.txt"), kinds: map[string]int{}}
	defer out.cases.close()
	defer out.impl.close()
	// safety net: a cursor operation or query that never returns ends the run with HANG.txt (status 7)
	startWatchdog(o.out, 90*time.Second)
	watchdogBeat("start")

	if rp := o.get("replaycase", ""); rp != "" {
		data, err := os.ReadFile(rp)
		if err != nil {
			return err
		}
		for _, line := range strings.Split(strings.TrimSpace(string(data)), "\n") {
			if err := c14Replay(dir, out, strings.TrimSpace(line)); err != nil {
				return err
			}
		}
		writeJSON(o.out, "stats.json", map[string]interface{}{"kinds": out.kinds})
		return nil
	}

	depth, depthThin, depthDeep := 3, 2, 0
	boltSeqs, boltLen, bigKeys := 30, 10, 400
	worlds := 10
	if o.thorough() {
		depth, depthThin, depthDeep = 4, 3, 5
		boltSeqs, boltLen, bigKeys = 150, 14, 9000
		worlds = 60
	}
	r := newRng(o.seed)
	c14Bolt(dir, out, r, boltSeqs, boltLen, bigKeys)
	if err := c14Cursors(dir, out, depth, depthThin, depthDeep); err != nil {
		return err
	}
	if err := c14Queries(dir, out, r, worlds); err != nil {
		return err
	}
	// scanners layered over cursors: IterateIds / IterateValidIds / QueryWithCursorC (c14_scan.go)
	if err := c14Scan(dir, out, o.thorough()); err != nil {
		return err
	}
	// re-opened cursors (c14_reuse.go); last, because a query that hangs keeps its transaction for ever
	if err := c14Reuse(dir, out, o.thorough()); err != nil {
		return err
	}
	writeJSON(o.out, "stats.json", map[string]interface{}{
		"kinds": out.kinds, "cases": out.cases.n, "abandoned_queries": c14Hangs, "seek_depth": depth, "seek_depth_handouts": depthThin, "seek_depth_deep": depthDeep,
		"element_universe": []string{"", "a", "ab", "b", "\\xff"}, "id_universe": []string{"\\x01", "a", "ab", "b", "\\xff"},
		"seek_targets": len(c14Targets), "bolt_big_bucket_keys": bigKeys, "query_worlds": worlds,
	})
	return nil
}

// ---- B: the abstract bbolt cursor against real bbolt ----------------------------------------

func c14BoltRun(c *bbolt.Cursor, ops []string) string {
	obs := make([]string, 0, len(ops))
	for _, o := range ops {
		var k []byte
		switch o[0] {
		case 'F':
			k, _ = c.First()
		case 'L':
			k, _ = c.Last()
		case 'N':
			k, _ = c.Next()
		case 'P':
			k, _ = c.Prev()
		case 'S':
			k, _ = c.Seek(unhx(o[1:]))
		}
		if k == nil {
			obs = append(obs, "I")
		} else {
			obs = append(obs, "V"+hx(k))
		}
	}
	return strings.Join(obs, " ")
}

func c14BoltOps(r *rng, targets []string, n int) []string {
	ops := make([]string, n)
	for i := range ops {
		x := r.intn(100)
		if i == 0 && x >= 16 && x < 72 {
			x = 72 // a fresh bbolt cursor is unpositioned: the first op is First, Last or Seek (as in every adapter)
		}
		switch {
		case x < 8:
			ops[i] = "F"
		case x < 16:
			ops[i] = "L"
		case x < 44:
			ops[i] = "N"
		case x < 72:
			ops[i] = "P"
		default:
			ops[i] = "S" + hxs(r.pick(targets))
		}
	}
	return ops
}

func c14BoltCase(out *c14Out, mode string, keys []string, ops []string, c *bbolt.Cursor) {
	line := fmt.Sprintf("B %s %s %d %s", mode, c14Set(keys), len(ops), strings.Join(ops, " "))
	out.emit("bolt-"+mode, line, c14BoltRun(c, ops))
}

func c14Bolt(dir string, out *c14Out, r *rng, nseq, seqLen, bigKeys int) {
	db, err := bbolt.Open(filepath.Join(dir, "bolt.db"), 0o600, nil)
	c14Must(err)
	defer db.Close()
	big := make([]string, bigKeys)
	for i := range big {
		big[i] = fmt.Sprintf("k%06d", 2*i+1)
	}
	bigTargets := func() []string {
		t := []string{"", "k", "k000000", "k000001", "l", fmt.Sprintf("k%06d", 2*bigKeys-1), fmt.Sprintf("k%06d", 2*bigKeys)}
		for i := 0; i < 12; i++ {
			t = append(t, fmt.Sprintf("k%06d", r.intn(2*bigKeys+2)))
		}
		return t
	}
	val := []byte(strings.Repeat("v", 90))
	// rw: cursors inside the writing transaction (dirty nodes)
	c14Must(db.Update(func(tx *bbolt.Tx) error {
		for mask := 0; mask < 32; mask++ {
			keys := c14Subset(c14IdU, mask)
			b, err := tx.CreateBucket([]byte(fmt.Sprintf("s%d", mask)))
			c14Must(err)
			for _, k := range keys {
				c14Must(b.Put([]byte(k), []byte("x")))
			}
			for i := 0; i < nseq/3+1; i++ {
				c14BoltCase(out, "rw", keys, c14BoltOps(r, c14Targets, seqLen), b.Cursor())
			}
		}
		b, err := tx.CreateBucket([]byte("big"))
		c14Must(err)
		for _, k := range big {
			c14Must(b.Put([]byte(k), val))
		}
		for i := 0; i < 4; i++ {
			c14BoltCase(out, "rw", big, c14BoltOps(r, bigTargets(), 40*seqLen), b.Cursor())
		}
		return nil
	}))
	// ro: cursors over committed pages (leaf and branch pages)
	c14Must(db.View(func(tx *bbolt.Tx) error {
		for mask := 0; mask < 32; mask++ {
			keys := c14Subset(c14IdU, mask)
			b := tx.Bucket([]byte(fmt.Sprintf("s%d", mask)))
			for i := 0; i < nseq; i++ {
				c14BoltCase(out, "ro", keys, c14BoltOps(r, c14Targets, seqLen), b.Cursor())
			}
		}
		b := tx.Bucket([]byte("big"))
		for i := 0; i < 6; i++ {
			c14BoltCase(out, "ro", big, c14BoltOps(r, bigTargets(), 40*seqLen), b.Cursor())
		}
		return nil
	}))
}

// ---- C: every cursor kind over every subset ---------------------------------------------------

type c14Kind struct {
	name     string
	fw       bool
	seekable bool
	deep     bool // base adapter: full depth; otherwise the thinner depth
	idU      bool // over the id universe (no empty string)
	tagOps   bool // raw view of a typed bucket: seek targets carry the type tag
	seek     func(c ast.SetCursor, v string) bool
	mk       func(tx *bbolt.Tx, w *c14World, mask int) func() ast.SetCursor
}

func c14Holder(mask int) string { return fmt.Sprintf("h%02d", mask) }

func c14TagsBucket(tx *bbolt.Tx, w *c14World, mask int) *boltz.TypedBucket {
	eb := w.items.GetEntityBucket(tx, []byte(c14Holder(mask)))
	if eb == nil {
		panic("holder missing")
	}
	b := eb.GetBucket("tags")
	if b == nil {
		panic("tags bucket missing")
	}
	return b
}

// c14CursorWorld builds the data of the C lines (and of the M lines, c14_multi.go) and the cursor kinds over it
func c14CursorWorld(dir string) (*bbolt.DB, *c14World, []c14Kind, error) {
	db, err := bbolt.Open(filepath.Join(dir, "cursors.db"), 0o600, nil)
	if err != nil {
		return nil, nil, nil, err
	}
	w := c14NewWorld("w")

	// data: raw buckets raw/<mask> and typed buckets typed/<mask>; holders h<mask> with tags = subset of the
	// element universe; items with id in the id universe carrying role r<mask> iff id in subset(mask);
	// groups with ids of the id universe, holder h<mask> linked (plain and ref-counted) to subset(mask)
	c14Must(db.Update(func(tx *bbolt.Tx) error {
		ctx := boltz.NewTxMutateContext(context.Background(), tx)
		w.initIndexes(tx)
		raw, err := tx.CreateBucket([]byte("raw"))
		c14Must(err)
		typed, err := tx.CreateBucket([]byte("typed"))
		c14Must(err)
		for mask := 0; mask < 32; mask++ {
			rb, err := raw.CreateBucket([]byte(fmt.Sprint(mask)))
			c14Must(err)
			for _, k := range c14Subset(c14IdU, mask) {
				c14Must(rb.Put([]byte(k), nil))
			}
			tb, err := typed.CreateBucket([]byte(fmt.Sprint(mask)))
			c14Must(err)
			for _, k := range c14Subset(c14ElemU, mask) {
				c14Must(tb.Put(boltz.PrependFieldType(boltz.TypeString, []byte(k)), nil))
			}
		}
		for _, id := range c14IdU {
			c14Must(w.grps.Create(ctx, &c14Grp{Id: id}))
		}
		for i, id := range c14IdU {
			var roles []string
			for mask := 0; mask < 32; mask++ {
				if mask&(1<<uint(i)) != 0 {
					roles = append(roles, fmt.Sprintf("r%02d", mask))
				}
			}
			c14Must(w.items.Create(ctx, &c14Item{Id: id, Roles: roles}))
		}
		for mask := 0; mask < 32; mask++ {
			h := c14Holder(mask)
			c14Must(w.items.Create(ctx, &c14Item{Id: h, Tags: c14Subset(c14ElemU, mask)}))
			linked := c14Subset(c14IdU, mask)
			if len(linked) > 0 {
				c14Must(w.links.AddLinks(tx, h, linked...))
			}
			for _, g := range linked {
				_, err := w.rcLinks.IncrementLinkCount(tx, []byte(h), []byte(g))
				c14Must(err)
			}
		}
		return nil
	}))

	rawB := func(tx *bbolt.Tx, mask int) *bbolt.Bucket { return tx.Bucket([]byte("raw")).Bucket([]byte(fmt.Sprint(mask))) }
	typedB := func(tx *bbolt.Tx, mask int) *bbolt.Bucket {
		return tx.Bucket([]byte("typed")).Bucket([]byte(fmt.Sprint(mask)))
	}
	var kinds []c14Kind
	add := func(k c14Kind) { kinds = append(kinds, k) }
	for _, fw := range []bool{true, false} {
		fw := fw
		add(c14Kind{name: "raw", fw: fw, seekable: true, deep: true, idU: true, seek: c14SeekPlain,
			mk: func(tx *bbolt.Tx, w *c14World, mask int) func() ast.SetCursor {
				return func() ast.SetCursor { return boltz.NewBoltCursor(rawB(tx, mask).Cursor(), fw) }
			}})
		add(c14Kind{name: "typed", fw: fw, seekable: true, deep: true, seek: c14SeekPlain,
			mk: func(tx *bbolt.Tx, w *c14World, mask int) func() ast.SetCursor {
				return func() ast.SetCursor {
					if fw {
						return boltz.NewTypedForwardBoltCursor(typedB(tx, mask).Cursor(), boltz.TypeString)
					}
					return boltz.NewTypedReverseBoltCursor(typedB(tx, mask).Cursor(), boltz.TypeString)
				}
			}})
		// TypedBucket hand-outs over the tags list bucket of a holder
		add(c14Kind{name: "tb-typed", fw: fw, seekable: true, seek: c14SeekPlain,
			mk: func(tx *bbolt.Tx, w *c14World, mask int) func() ast.SetCursor {
				return func() ast.SetCursor { return c14TagsBucket(tx, w, mask).OpenTypedCursor(tx, fw) }
			}})
		add(c14Kind{name: "tb-listdir", fw: fw, seekable: true, seek: c14SeekPlain,
			mk: func(tx *bbolt.Tx, w *c14World, mask int) func() ast.SetCursor {
				return func() ast.SetCursor { return c14TagsBucket(tx, w, mask).IterateStringListInDirection(fw) }
			}})
		// raw view of the same bucket: elements are the tagged keys
		add(c14Kind{name: "tb-raw", fw: fw, seekable: true, tagOps: true, seek: c14SeekPlain,
			mk: func(tx *bbolt.Tx, w *c14World, mask int) func() ast.SetCursor {
				return func() ast.SetCursor { return c14TagsBucket(tx, w, mask).OpenCursor(tx, fw) }
			}})
		add(c14Kind{name: "related", fw: fw, seekable: true, seek: c14SeekPlain,
			mk: func(tx *bbolt.Tx, w *c14World, mask int) func() ast.SetCursor {
				return func() ast.SetCursor { return w.items.GetRelatedEntitiesCursor(tx, c14Holder(mask), "tags", fw) }
			}})
		add(c14Kind{name: "rclinks", fw: fw, seekable: true, idU: true, seek: c14SeekPlain,
			mk: func(tx *bbolt.Tx, w *c14World, mask int) func() ast.SetCursor {
				return func() ast.SetCursor { return w.rcLinks.IterateLinks(tx, []byte(c14Holder(mask)), fw) }
			}})
		add(c14Kind{name: "idxval", fw: fw, seekable: true, idU: true, seek: c14SeekPlain,
			mk: func(tx *bbolt.Tx, w *c14World, mask int) func() ast.SetCursor {
				return func() ast.SetCursor { return w.rolesIdx.OpenValueCursor(tx, []byte(fmt.Sprintf("r%02d", mask)), fw) }
			}})
	}
	add(c14Kind{name: "tb-list", fw: true, seekable: true, seek: c14SeekPlain,
		mk: func(tx *bbolt.Tx, w *c14World, mask int) func() ast.SetCursor {
			return func() ast.SetCursor { return c14TagsBucket(tx, w, mask).IterateStringList() }
		}})
	add(c14Kind{name: "tb-seekable", fw: true, seekable: true, tagOps: true, seek: c14SeekPlain,
		mk: func(tx *bbolt.Tx, w *c14World, mask int) func() ast.SetCursor {
			return func() ast.SetCursor { return c14TagsBucket(tx, w, mask).OpenSeekableCursor() }
		}})
	add(c14Kind{name: "links", fw: true, seekable: true, idU: true, seek: c14SeekPlain,
		mk: func(tx *bbolt.Tx, w *c14World, mask int) func() ast.SetCursor {
			return func() ast.SetCursor { return w.links.IterateLinks(tx, []byte(c14Holder(mask))) }
		}})
	// entitySetSymbolRuntime: SeekToString, and the raw Seek given the stored (tagged) key
	add(c14Kind{name: "setsym", fw: true, seekable: true, deep: true, seek: c14SeekString,
		mk: func(tx *bbolt.Tx, w *c14World, mask int) func() ast.SetCursor {
			return func() ast.SetCursor { return w.tagsSym.GetRuntimeSymbol().OpenCursor(tx, []byte(c14Holder(mask))) }
		}})
	add(c14Kind{name: "setsymraw", fw: true, seekable: true, seek: c14SeekTagged,
		mk: func(tx *bbolt.Tx, w *c14World, mask int) func() ast.SetCursor {
			return func() ast.SetCursor { return w.tagsSym.GetRuntimeSymbol().OpenCursor(tx, []byte(c14Holder(mask))) }
		}})
	return db, w, kinds, nil
}

func c14Cursors(dir string, out *c14Out, depth, depthThin, depthDeep int) error {
	db, w, kinds, err := c14CursorWorld(dir)
	if err != nil {
		return err
	}
	defer db.Close()
	rawB := func(tx *bbolt.Tx, mask int) *bbolt.Bucket { return tx.Bucket([]byte("raw")).Bucket([]byte(fmt.Sprint(mask))) }
	typedB := func(tx *bbolt.Tx, mask int) *bbolt.Bucket {
		return tx.Bucket([]byte("typed")).Bucket([]byte(fmt.Sprint(mask)))
	}
	_ = rawB

	return db.View(func(tx *bbolt.Tx) error {
		seqsDeep := c14Seqs(c14Targets, depth)
		seqsThin := c14Seqs(c14Targets, depthThin)
		var seqsDeeper [][]c14Op
		if depthDeep > 0 {
			seqsDeeper = c14Seqs(c14TargetsSmall, depthDeep)
		}
		for _, k := range kinds {
			u := c14ElemU
			if k.idU {
				u = c14IdU
			}
			for mask := 0; mask < 32; mask++ {
				set := c14Subset(u, mask)
				a := set
				present := true
				if k.name == "tb-raw" || k.name == "tb-seekable" {
					a = nil
					for _, e := range set {
						a = append(a, string(boltz.PrependFieldType(boltz.TypeString, []byte(e))))
					}
				}
				if mask == 0 && (k.name == "idxval") {
					present = false // no index bucket for a role nobody has
				}
				mk := k.mk(tx, w, mask)
				seqs := seqsThin
				if k.deep {
					seqs = seqsDeep
				}
				for _, ops := range seqs {
					if k.tagOps {
						ops = c14TagOps(ops)
					}
					out.cursorCase(k.name, k.fw, present, a, nil, ops, mk, k.seek)
				}
				if k.deep && k.name != "setsym" {
					for _, ops := range seqsDeeper {
						out.cursorCase(k.name, k.fw, present, a, nil, ops, mk, k.seek)
					}
				}
			}
		}
		// hand-outs for things that do not exist -> empty cursors
		for _, ops := range seqsThin {
			for _, fw := range []bool{true, false} {
				fw := fw
				out.cursorCase("related", fw, false, nil, nil, ops, func() ast.SetCursor {
					return w.items.GetRelatedEntitiesCursor(tx, "nobody", "tags", fw)
				}, c14SeekPlain)
				out.cursorCase("related", fw, false, nil, nil, ops, func() ast.SetCursor {
					return w.items.GetRelatedEntitiesCursor(tx, "a", "nofield", fw)
				}, c14SeekPlain)
				out.cursorCase("idxval", fw, false, nil, nil, ops, func() ast.SetCursor {
					return w.rolesIdx.OpenValueCursor(tx, []byte("norole"), fw)
				}, c14SeekPlain)
				out.cursorCase("rclinks", fw, false, nil, nil, ops, func() ast.SetCursor {
					return w.rcLinks.IterateLinks(tx, []byte("nobody"), fw)
				}, c14SeekPlain)
				out.cursorCase("empty", fw, false, nil, nil, ops, func() ast.SetCursor { return ast.OpenEmptyCursor(tx, fw) }, c14SeekPlain)
			}
			out.cursorCase("links", true, false, nil, nil, ops, func() ast.SetCursor {
				return w.links.IterateLinks(tx, []byte("nobody"))
			}, c14SeekPlain)
			out.cursorCase("setsym", true, false, nil, nil, ops, func() ast.SetCursor {
				return w.tagsSym.GetRuntimeSymbol().OpenCursor(tx, []byte("nobody"))
			}, c14SeekString)
			out.cursorCase("empty", true, false, nil, nil, ops, func() ast.SetCursor { return ast.NewEmptyCursor() }, c14SeekPlain)
			out.cursorCase("empty", true, false, nil, nil, ops, func() ast.SetCursor { return ast.EmptyCursor }, c14SeekPlain)
		}

		// Next-only cursors: filtered, union, tree
		typedCur := func(mask int, fw bool) ast.SetCursor {
			if fw {
				return boltz.NewTypedForwardBoltCursor(typedB(tx, mask).Cursor(), boltz.TypeString)
			}
			return boltz.NewTypedReverseBoltCursor(typedB(tx, mask).Cursor(), boltz.TypeString)
		}
		for _, fw := range []bool{true, false} {
			fw := fw
			for ma := 0; ma < 32; ma++ {
				a := c14Subset(c14ElemU, ma)
				for mb := 0; mb < 32; mb++ {
					b := c14Subset(c14ElemU, mb)
					accept := map[string]bool{}
					for _, e := range b {
						accept[e] = true
					}
					ops := c14NextOnly(len(a) + 2)
					out.cursorCase("filtered", fw, true, a, b, ops, func() ast.SetCursor {
						return ast.NewFilteredCursor(typedCur(ma, fw), func(val []byte) bool { return accept[string(val)] })
					}, c14SeekPlain)
					ops = c14NextOnly(len(a) + len(b) + 2)
					out.cursorCase("union", fw, true, a, b, ops, func() ast.SetCursor {
						return ast.NewUnionSetCursor(typedCur(ma, fw), typedCur(mb, fw), fw)
					}, c14SeekPlain)
					if (ma+mb)%3 == 0 {
						out.cursorCase("uniontree", fw, true, a, b, ops, func() ast.SetCursor {
							return ast.NewUnionSetCursor(c14Tree(a, fw), c14Tree(b, fw), fw)
						}, c14SeekPlain)
						out.cursorCase("unionfiltered", fw, true, a, b, ops, func() ast.SetCursor {
							// union of a filtered cursor (A restricted to B) with the cursor over B = B ∪ (A ∩ B) = B
							return ast.NewUnionSetCursor(
								ast.NewFilteredCursor(typedCur(ma, fw), func(val []byte) bool { return accept[string(val)] }),
								typedCur(mb, fw), fw)
						}, c14SeekPlain)
					}
				}
				out.cursorCase("filtered", fw, false, nil, nil, c14NextOnly(2), func() ast.SetCursor {
					return ast.NewFilteredCursor(nil, func(val []byte) bool { return true })
				}, c14SeekPlain)
				// tree sets: every insertion order of the subset (<= 4 elements), plus duplicates
				for _, order := range c14Orders(a) {
					order := order
					out.cursorCase("tree", fw, true, order, nil, c14NextOnly(len(a)+2), func() ast.SetCursor {
						return c14Tree(order, fw)
					}, c14SeekPlain)
				}
			}
		}
		out.cursorCase("treecursor", true, true, nil, nil, c14NextOnly(2), func() ast.SetCursor {
			return ast.NewTreeCursor(&llrb.Tree{})
		}, c14SeekPlain)
		// several cursors alive at once, interleaved step by step (c14_multi.go)
		c14Multi(tx, w, out, kinds, depthDeep > 0)
		// cursor protocol: IsValid / Current / Next / Seek in any order, Next or Seek first (c14_proto.go)
		c14pCases(tx, w, out, kinds, depthDeep > 0)
		return nil
	})
}

func c14Tree(order []string, fw bool) ast.SetCursor {
	set := ast.NewTreeSet(fw)
	for _, e := range order {
		set.Add([]byte(e))
	}
	return set.ToCursor()
}

// insertion orders: all permutations for up to 4 elements, rotations plus one with duplicates beyond
func c14Orders(a []string) [][]string {
	if len(a) == 0 {
		return [][]string{nil}
	}
	var out [][]string
	if len(a) <= 4 {
		var perm func(cur, rest []string)
		perm = func(cur, rest []string) {
			if len(rest) == 0 {
				out = append(out, append([]string(nil), cur...))
				return
			}
			for i := range rest {
				nr := append(append([]string(nil), rest[:i]...), rest[i+1:]...)
				perm(append(cur, rest[i]), nr)
			}
		}
		perm(nil, a)
	} else {
		for i := range a {
			out = append(out, append(append([]string(nil), a[i:]...), a[:i]...))
		}
		rev := append([]string(nil), a...)
		sort.Sort(sort.Reverse(sort.StringSlice(rev)))
		out = append(out, rev)
	}
	dup := append(append([]string(nil), a...), a[0], a[len(a)-1])
	out = append(out, dup)
	return out
}

// ---- Q: IteratorMatchingAllOf / IteratorMatchingAnyOf over generated worlds ---------------------

var c14RoleU = []string{"a", "ab", "b"}

func c14Queries(dir string, out *c14Out, r *rng, worlds int) error {
	db, err := bbolt.Open(filepath.Join(dir, "queries.db"), 0o600, nil)
	if err != nil {
		return err
	}
	defer db.Close()
	valueLists := [][]string{{}}
	vals := []string{"a", "ab", "b", "zz"}
	for _, x := range vals {
		valueLists = append(valueLists, []string{x})
		for _, y := range vals {
			valueLists = append(valueLists, []string{x, y})
			for _, z := range vals {
				if x != y && y != z && x != z {
					valueLists = append(valueLists, []string{x, y, z})
				}
			}
		}
	}
	for wi := 0; wi < worlds; wi++ {
		w := c14NewWorld(fmt.Sprintf("q%d", wi))
		type ent struct {
			id    string
			roles []string
		}
		var ents []ent
		for _, id := range c14IdU {
			var mask int
			switch {
			case wi == 0:
				mask = 0
			case wi == 1:
				mask = 7
			case wi == 2:
				mask = 1 << uint(r.intn(3))
			default:
				mask = r.intn(8)
			}
			if wi > 2 && r.chance(15) {
				continue // entity absent
			}
			ents = append(ents, ent{id: id, roles: c14Subset(c14RoleU, mask)})
		}
		c14Must(db.Update(func(tx *bbolt.Tx) error {
			ctx := boltz.NewTxMutateContext(context.Background(), tx)
			w.initIndexes(tx)
			for _, e := range ents {
				c14Must(w.items.Create(ctx, &c14Item{Id: e.id, Roles: e.roles}))
			}
			return nil
		}))
		var entDesc []string
		entDesc = append(entDesc, fmt.Sprint(len(ents)))
		for _, e := range ents {
			entDesc = append(entDesc, hxs(e.id), c14Set(e.roles))
		}
		c14Must(db.View(func(tx *bbolt.Tx) error {
			for _, vl := range valueLists {
				vl := vl
				for _, fw := range []bool{true, false} {
					fw := fw
					f := 0
					if fw {
						f = 1
					}
					ops := c14NextOnly(len(ents) + 2)
					for _, which := range []string{"allof", "anyof"} {
						which := which
						// worlds 1-3 additionally under the observation protocols of c14_proto.go (walks)
						protos := [][]string{nil}
						if wi >= 1 && wi <= 3 && len(vl) <= 2 {
							protos = append(protos, c14pWalks(len(ops)+1)...)
						}
						for _, proto := range protos {
							c14pProto = proto
							line := fmt.Sprintf("Q %s %d %s %s %s", which, f, strings.Join(entDesc, " "), c14Set(vl), c14OpsString(ops)) + c14pSuffix(len(ops))
							impl := c14RunOps(func() ast.SetCursor {
								if which == "allof" {
									return w.items.IteratorMatchingAllOf(w.rolesIdx, vl)(tx, fw)
								}
								return w.items.IteratorMatchingAnyOf(w.rolesIdx, vl)(tx, fw)
							}, ops, c14SeekPlain)
							out.emit(which, line, impl)
						}
						c14pProto = nil
					}
				}
			}
			// index key cursor: the roles that occur, in both directions, with seeks
			present := map[string]bool{}
			for _, e := range ents {
				for _, ro := range e.roles {
					present[ro] = true
				}
			}
			var keys []string
			for _, ro := range c14RoleU {
				if present[ro] {
					keys = append(keys, ro)
				}
			}
			for _, fw := range []bool{true, false} {
				fw := fw
				for _, ops := range c14Seqs(c14TargetsSmall, 2) {
					out.cursorCase("idxkey", fw, true, keys, nil, ops, func() ast.SetCursor {
						return w.rolesIdx.OpenKeyCursor(tx, fw)
					}, c14SeekPlain)
				}
				if wi >= 1 && wi <= 2 {
					for _, ops := range c14Seqs([]string{"a", "b", "zzz"}, 2) {
						for _, proto := range c14pProtocols(3, []string{"v", "w"}) {
							c14pProto = proto
							out.cursorCase("idxkey", fw, true, keys, nil, ops, func() ast.SetCursor {
								return w.rolesIdx.OpenKeyCursor(tx, fw)
							}, c14SeekPlain)
						}
						c14pProto = nil
					}
				}
			}
			return nil
		}))
	}
	return nil
}

// ---- replay of one case line --------------------------------------------------------------------

func c14Replay(dir string, out *c14Out, line string) error {
	// observation protocol of the case (c14_proto.go): "... @ m0 m1 .."; the case itself is the text before it
	if at := strings.Index(line, " @ "); at >= 0 {
		c14pProto = strings.Fields(line[at+3:])
		defer func() { c14pProto = nil }()
	}
	f := strings.Fields(strings.SplitN(line, " @ ", 2)[0])
	if len(f) == 0 {
		return nil
	}
	sub, err := os.MkdirTemp(dir, "replay")
	if err != nil {
		return err
	}
	pos := 0
	next := func() string { pos++; return f[pos-1] }
	readSet := func() []string {
		n := 0
		fmt.Sscan(next(), &n)
		var s []string
		for i := 0; i < n; i++ {
			s = append(s, string(unhx(next())))
		}
		return s
	}
	switch next() {
	case "R", "S":
		return c14ReplayReuse(sub, out, line)
	case "M":
		return c14ReplayMulti(sub, out, line)
	case "I":
		return c14ReplayScan(sub, out, line)
	case "B":
		mode := next()
		keys := readSet()
		n := 0
		fmt.Sscan(next(), &n)
		ops := f[pos : pos+n]
		db, err := bbolt.Open(filepath.Join(sub, "b.db"), 0o600, nil)
		c14Must(err)
		defer db.Close()
		run := func(tx *bbolt.Tx) error {
			c14BoltCase(out, mode, keys, ops, tx.Bucket([]byte("b")).Cursor())
			return nil
		}
		fill := func(tx *bbolt.Tx) error {
			b, err := tx.CreateBucket([]byte("b"))
			c14Must(err)
			for _, k := range keys {
				c14Must(b.Put([]byte(k), []byte(strings.Repeat("v", 90))))
			}
			if mode == "rw" {
				return run(tx)
			}
			return nil
		}
		c14Must(db.Update(fill))
		if mode != "rw" {
			c14Must(db.View(run))
		}
		return nil
	case "Q":
		which := next()
		fw := next() == "1"
		nent := 0
		fmt.Sscan(next(), &nent)
		w := c14NewWorld("q")
		db, err := bbolt.Open(filepath.Join(sub, "q.db"), 0o600, nil)
		c14Must(err)
		defer db.Close()
		c14Must(db.Update(func(tx *bbolt.Tx) error {
			ctx := boltz.NewTxMutateContext(context.Background(), tx)
			w.initIndexes(tx)
			for i := 0; i < nent; i++ {
				id := string(unhx(next()))
				roles := readSet()
				c14Must(w.items.Create(ctx, &c14Item{Id: id, Roles: roles}))
			}
			return nil
		}))
		vl := readSet()
		nops := 0
		fmt.Sscan(next(), &nops)
		ops := make([]c14Op, nops)
		for i := range ops {
			ops[i] = c14ParseOp(next())
		}
		return db.View(func(tx *bbolt.Tx) error {
			impl := c14RunOps(func() ast.SetCursor {
				if which == "allof" {
					return w.items.IteratorMatchingAllOf(w.rolesIdx, vl)(tx, fw)
				}
				return w.items.IteratorMatchingAnyOf(w.rolesIdx, vl)(tx, fw)
			}, ops, c14SeekPlain)
			out.emit(which, line, impl)
			return nil
		})
	case "C":
		kind := next()
		fw := next() == "1"
		present := next() == "1"
		a := readSet()
		b := readSet()
		nops := 0
		fmt.Sscan(next(), &nops)
		ops := make([]c14Op, nops)
		for i := range ops {
			ops[i] = c14ParseOp(next())
		}
		return c14ReplayCursor(sub, out, line, kind, fw, present, a, b, ops)
	}
	return fmt.Errorf("bad replay line %q", line)
}

// c14ReplayCursor rebuilds just the data of one C case and runs it
func c14ReplayCursor(dir string, out *c14Out, line, kind string, fw, present bool, a, b []string, ops []c14Op) error {
	db, err := bbolt.Open(filepath.Join(dir, "c.db"), 0o600, nil)
	if err != nil {
		return err
	}
	defer db.Close()
	w := c14NewWorld("w")
	untag := func(xs []string) []string {
		var o []string
		for _, x := range xs {
			o = append(o, x[1:])
		}
		return o
	}
	c14Must(db.Update(func(tx *bbolt.Tx) error {
		ctx := boltz.NewTxMutateContext(context.Background(), tx)
		w.initIndexes(tx)
		for _, n := range []string{"A", "B"} {
			set := a
			if n == "B" {
				set = b
			}
			rb, err := tx.CreateBucket([]byte("raw" + n))
			c14Must(err)
			tb, err := tx.CreateBucket([]byte("typed" + n))
			c14Must(err)
			for _, k := range set {
				if k != "" {
					c14Must(rb.Put([]byte(k), nil))
				}
				c14Must(tb.Put(boltz.PrependFieldType(boltz.TypeString, []byte(k)), nil))
			}
		}
		if !present {
			return nil
		}
		switch kind {
		case "tb-typed", "tb-listdir", "tb-list", "related", "setsym", "setsymraw":
			c14Must(w.items.Create(ctx, &c14Item{Id: "h", Tags: a}))
		case "tb-raw", "tb-seekable":
			c14Must(w.items.Create(ctx, &c14Item{Id: "h", Tags: untag(a)}))
		case "links", "rclinks":
			c14Must(w.items.Create(ctx, &c14Item{Id: "h"}))
			for _, g := range a {
				c14Must(w.grps.Create(ctx, &c14Grp{Id: g}))
				if kind == "links" {
					c14Must(w.links.AddLinks(tx, "h", g))
				} else {
					_, err := w.rcLinks.IncrementLinkCount(tx, []byte("h"), []byte(g))
					c14Must(err)
				}
			}
		case "idxval":
			for _, id := range a {
				c14Must(w.items.Create(ctx, &c14Item{Id: id, Roles: []string{"r"}}))
			}
		case "idxkey":
			c14Must(w.items.Create(ctx, &c14Item{Id: "x", Roles: a}))
		}
		return nil
	}))
	return db.View(func(tx *bbolt.Tx) error {
		typedCur := func(n string, fw bool) ast.SetCursor {
			c := tx.Bucket([]byte("typed" + n)).Cursor()
			if fw {
				return boltz.NewTypedForwardBoltCursor(c, boltz.TypeString)
			}
			return boltz.NewTypedReverseBoltCursor(c, boltz.TypeString)
		}
		accept := map[string]bool{}
		for _, e := range b {
			accept[e] = true
		}
		tags := func() *boltz.TypedBucket { return w.items.GetEntityBucket(tx, []byte("h")).GetBucket("tags") }
		seek := c14SeekPlain
		var mk func() ast.SetCursor
		switch kind {
		case "raw":
			mk = func() ast.SetCursor { return boltz.NewBoltCursor(tx.Bucket([]byte("rawA")).Cursor(), fw) }
		case "typed":
			mk = func() ast.SetCursor { return typedCur("A", fw) }
		case "tb-typed":
			mk = func() ast.SetCursor { return tags().OpenTypedCursor(tx, fw) }
		case "tb-listdir":
			mk = func() ast.SetCursor { return tags().IterateStringListInDirection(fw) }
		case "tb-list":
			mk = func() ast.SetCursor { return tags().IterateStringList() }
		case "tb-raw":
			mk = func() ast.SetCursor { return tags().OpenCursor(tx, fw) }
		case "tb-seekable":
			mk = func() ast.SetCursor { return tags().OpenSeekableCursor() }
		case "related":
			mk = func() ast.SetCursor { return w.items.GetRelatedEntitiesCursor(tx, "h", "tags", fw) }
		case "links":
			mk = func() ast.SetCursor { return w.links.IterateLinks(tx, []byte("h")) }
		case "rclinks":
			mk = func() ast.SetCursor { return w.rcLinks.IterateLinks(tx, []byte("h"), fw) }
		case "idxval":
			mk = func() ast.SetCursor { return w.rolesIdx.OpenValueCursor(tx, []byte("r"), fw) }
		case "idxkey":
			mk = func() ast.SetCursor { return w.rolesIdx.OpenKeyCursor(tx, fw) }
		case "setsym":
			seek = c14SeekString
			mk = func() ast.SetCursor { return w.tagsSym.GetRuntimeSymbol().OpenCursor(tx, []byte("h")) }
		case "setsymraw":
			seek = c14SeekTagged
			mk = func() ast.SetCursor { return w.tagsSym.GetRuntimeSymbol().OpenCursor(tx, []byte("h")) }
		case "empty":
			mk = func() ast.SetCursor { return ast.OpenEmptyCursor(tx, fw) }
		case "filtered":
			if !present {
				mk = func() ast.SetCursor { return ast.NewFilteredCursor(nil, func([]byte) bool { return true }) }
			} else {
				mk = func() ast.SetCursor {
					return ast.NewFilteredCursor(typedCur("A", fw), func(val []byte) bool { return accept[string(val)] })
				}
			}
		case "union":
			mk = func() ast.SetCursor { return ast.NewUnionSetCursor(typedCur("A", fw), typedCur("B", fw), fw) }
		case "uniontree":
			mk = func() ast.SetCursor { return ast.NewUnionSetCursor(c14Tree(a, fw), c14Tree(b, fw), fw) }
		case "unionfiltered":
			mk = func() ast.SetCursor {
				return ast.NewUnionSetCursor(
					ast.NewFilteredCursor(typedCur("A", fw), func(val []byte) bool { return accept[string(val)] }),
					typedCur("B", fw), fw)
			}
		case "tree":
			mk = func() ast.SetCursor { return c14Tree(a, fw) }
		case "treecursor":
			mk = func() ast.SetCursor { return ast.NewTreeCursor(&llrb.Tree{}) }
		default:
			return fmt.Errorf("unknown kind %q", kind)
		}
		out.emit(kind, line, c14RunOps(mk, ops, seek))
		return nil
	})
}
