package main

import (
	"bytes"
	"sort"

	"github.com/openziti/foundation/v2/errorz"
	"github.com/openziti/storage/ast"
	"github.com/openziti/storage/boltz"
	"go.etcd.io/bbolt"
)

// Two real boltz stores used by the C17 histories (as a source of realistic committed content:
// entities, unique index, set index, fk back-references, link collection) and by the C18
// reader/writer workload.  Everything is prefixed cs to stay out of the way of other families.

const (
	csTypeGroup = "groups"
	csTypeItem  = "items"

	csFieldName     = "name"
	csFieldGroup    = "group"
	csFieldVal      = "val"
	csFieldTags     = "tags"
	csFieldItems    = "items"    // group -> items referring to it through item.group
	csFieldWatchers = "watchers" // item <-> group link collection, item side
	csFieldWatching = "watching" // group side
)

type csGroup struct {
	Id   string
	Name string
}

func (e *csGroup) GetId() string         { return e.Id }
func (e *csGroup) SetId(id string)       { e.Id = id }
func (e *csGroup) GetEntityType() string { return csTypeGroup }

type csGroupStrategy struct{}

func (csGroupStrategy) NewEntity() *csGroup { return &csGroup{} }
func (csGroupStrategy) FillEntity(e *csGroup, b *boltz.TypedBucket) {
	e.Name = b.GetStringWithDefault(csFieldName, "")
}
func (csGroupStrategy) PersistEntity(e *csGroup, ctx *boltz.PersistContext) {
	ctx.SetString(csFieldName, e.Name)
}

type csItem struct {
	Id    string
	Name  string
	Group *string
	Val   int64
	Tags  []string
}

func (e *csItem) GetId() string         { return e.Id }
func (e *csItem) SetId(id string)       { e.Id = id }
func (e *csItem) GetEntityType() string { return csTypeItem }

type csItemStrategy struct{}

func (csItemStrategy) NewEntity() *csItem { return &csItem{} }
func (csItemStrategy) FillEntity(e *csItem, b *boltz.TypedBucket) {
	e.Name = b.GetStringWithDefault(csFieldName, "")
	e.Group = b.GetString(csFieldGroup)
	e.Val = b.GetInt64WithDefault(csFieldVal, 0)
	e.Tags = b.GetStringList(csFieldTags)
}
func (csItemStrategy) PersistEntity(e *csItem, ctx *boltz.PersistContext) {
	ctx.SetString(csFieldName, e.Name)
	ctx.SetStringP(csFieldGroup, e.Group)
	ctx.SetInt64(csFieldVal, e.Val)
	ctx.SetStringList(csFieldTags, e.Tags)
}

type csGroupStore struct {
	*boltz.BaseStore[*csGroup]
	symItems    boltz.EntitySetSymbol
	symWatching boltz.EntitySetSymbol
	idxName     boltz.ReadIndex
	watching    boltz.LinkCollection
}

func (s *csGroupStore) NewStoreEntity() *csGroup { return &csGroup{} }

type csItemStore struct {
	*boltz.BaseStore[*csItem]
	symWatchers boltz.EntitySetSymbol
	idxName     boltz.ReadIndex
	idxTags     boltz.SetReadIndex
	watchers    boltz.LinkCollection
}

func (s *csItemStore) NewStoreEntity() *csItem { return &csItem{} }

type csStores struct {
	group *csGroupStore
	item  *csItemStore
}

func newCsStores() *csStores { return newCsStoresAt([]string{"stores"}) }

// newCsStoresAt: the same two stores below an arbitrary base path (C18: the place of a store in the
// database decides the capacities of the path slices its indexes and symbols keep)
func newCsStoresAt(basePath []string) *csStores {
	gs := &csGroupStore{BaseStore: boltz.NewBaseStore(boltz.StoreDefinition[*csGroup]{
		EntityType:      csTypeGroup,
		EntityStrategy:  csGroupStrategy{},
		EntityNotFoundF: func(id string) error { return boltz.NewNotFoundError(csTypeGroup, "id", id) },
		BasePath:        basePath,
	})}
	gs.InitImpl(gs)
	is := &csItemStore{BaseStore: boltz.NewBaseStore(boltz.StoreDefinition[*csItem]{
		EntityType:      csTypeItem,
		EntityStrategy:  csItemStrategy{},
		EntityNotFoundF: func(id string) error { return boltz.NewNotFoundError(csTypeItem, "id", id) },
		BasePath:        basePath,
	})}
	is.InitImpl(is)

	gs.AddIdSymbol("id", ast.NodeTypeString)
	gs.idxName = gs.AddUniqueIndex(gs.AddSymbol(csFieldName, ast.NodeTypeString))
	gs.symItems = gs.AddFkSetSymbol(csFieldItems, is)
	gs.symWatching = gs.AddFkSetSymbol(csFieldWatching, is)

	is.AddIdSymbol("id", ast.NodeTypeString)
	is.idxName = is.AddUniqueIndex(is.AddSymbol(csFieldName, ast.NodeTypeString))
	is.AddSymbol(csFieldVal, ast.NodeTypeInt64)
	is.idxTags = is.AddSetIndex(is.AddSetSymbol(csFieldTags, ast.NodeTypeString))
	groupSym := is.AddFkSymbol(csFieldGroup, gs)
	is.AddNullableFkIndex(groupSym, gs.symItems)
	is.symWatchers = is.AddFkSetSymbol(csFieldWatchers, gs)

	is.watchers = is.AddLinkCollection(is.symWatchers, gs.symWatching)
	gs.watching = gs.AddLinkCollection(gs.symWatching, is.symWatchers)
	return &csStores{group: gs, item: is}
}

// init creates the index buckets (idempotent)
func (s *csStores) init(tx *bbolt.Tx) error {
	holder := &errorz.ErrorHolderImpl{}
	s.group.InitializeIndexes(tx, holder)
	s.item.InitializeIndexes(tx, holder)
	return holder.GetError()
}

// ---- raw content of a bolt file ------------------------------------------------------------

type csEntry struct {
	path   [][]byte
	bucket bool
	val    []byte
}

func csPathLess(a, b [][]byte) bool {
	for i := 0; i < len(a) && i < len(b); i++ {
		if c := bytes.Compare(a[i], b[i]); c != 0 {
			return c < 0
		}
	}
	return len(a) < len(b)
}

func csPathEq(a, b [][]byte) bool {
	if len(a) != len(b) {
		return false
	}
	for i := range a {
		if !bytes.Equal(a[i], b[i]) {
			return false
		}
	}
	return true
}

func csClone(b []byte) []byte { return append([]byte{}, b...) }

// csWalk lists the whole bucket tree of a transaction in path order
func csWalk(tx *bbolt.Tx) []csEntry {
	var out []csEntry
	var rec func(b *bbolt.Bucket, prefix [][]byte)
	rec = func(b *bbolt.Bucket, prefix [][]byte) {
		c := b.Cursor()
		for k, v := c.First(); k != nil; k, v = c.Next() {
			p := append(append([][]byte{}, prefix...), csClone(k))
			if child := b.Bucket(k); child != nil {
				out = append(out, csEntry{path: p, bucket: true})
				rec(child, p)
			} else {
				out = append(out, csEntry{path: p, val: csClone(v)})
			}
		}
	}
	c := tx.Cursor()
	for k, _ := c.First(); k != nil; k, _ = c.Next() {
		p := [][]byte{csClone(k)}
		out = append(out, csEntry{path: p, bucket: true})
		rec(tx.Bucket(k), p)
	}
	sort.SliceStable(out, func(i, j int) bool { return csPathLess(out[i].path, out[j].path) })
	return out
}
