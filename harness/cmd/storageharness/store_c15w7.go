package main

// C15 strengthening, seventh wave (seeded C15-w7-1, C15-w7-2):
//
// (a) QUERIES THROUGH EVERY STORE OF A FAMILY OVER A CALLER-SUPPLIED CURSOR (Store.QueryWithCursorC -> ScanCursor).  The
//     only cursor the C15 stream handed to QueryWithCursorC was the root store's entities-bucket cursor, and only with
//     a non-id sort (sorting scanner).  The child-store test of the id-order scanner belongs to the ROW loop: whatever
//     cursor produced the row, a plain child store may return only entities with child data, an extended child store
//     and the parent every candidate.  After every transaction, for every store of a family and every cursor provider
//     of the list below (derived by rule from the schema and the root store's content; the model driver
//     c15_cursor_tokens in storex_driver.ml derives the same list - keep them in step):
//
//	QC:<store>:<provider>:<filter>:<sort>:<dir>:<skip>:<limit>:<count>:<ids in result order>:<candidates>
//
//	provider  si=<set>=<v>        IteratorMatchingAllOf(set index of the ROOT store over <set>, [v])        (index value cursor)
//	          sa=<set>=<v>.<w>    IteratorMatchingAllOf(..., [v, w])                                         (filtered cursor)
//	          so=<set>=<v>.<w>    IteratorMatchingAnyOf(..., [v, w])                                         (tree set)
//	          rl=<peer>=<id>=<set> peer.GetRelatedEntitiesCursor(id, set): the other side of a link collection declared on
//	                              the root store / the back-reference set of an fk index declared on the root store
//	          ts=e | ts=a         ast.TreeSet holding every second id / every id of the root store
//	candidates: what the provider's cursor yields, enumerated on its own (hex ids, in cursor order)
//	v, w = the two smallest non-empty members of the string list of the first root entity (id order) that has one
//	(w = v when it has only one); peer id = the first peer entity (id order) whose set is not empty.
//
//     Model: coq/theories/Store/PagingCursor.v (unsorted_scan_over / sorting_scan_over = the transcribed loops of
//     Store/Paging.v over the candidate list), theorems cursor_scans_meet_spec / child_cursor_query_only_children.
//
// (b) LINK COLLECTIONS DECLARED ON THE PARENT STORE, entities with child data linked through them, deleted through either
//     store.  idx and C15np declare such a collection, but the generator links rarely (6 % of the operations, any
//     entity) and nothing looked at the PEER's side.  Wirings C15lp / C15lx / C15lm (through extraWirings, C15 stream
//     only; side conditions by computation in coq/theories/Examples/C15Links.v): parent p with a link collection to the
//     peer store site AND a self link collection p.friends <-> p.fans, with a plain child store pc, an extended child
//     store px, both.  c15GenLink (only for wirings whose family root declares link collections): link operations
//     aimed at entities WITH child data, and deletes of linked entities through every store of the family.

import (
	"fmt"
	"sort"
	"strconv"
	"strings"

	"github.com/openziti/storage/ast"
	"go.etcd.io/bbolt"
)

func init() {
	extraWirings["C15lp"] = func() *wiring { return wiringC15Linked("C15lp", []string{"pc"}) }
	extraWirings["C15lx"] = func() *wiring { return wiringC15Linked("C15lx", []string{"px"}) }
	extraWirings["C15lm"] = func() *wiring { return wiringC15Linked("C15lm", []string{"px", "pc"}) }
	c15Wirings = append(c15Wirings, "C15lp", "C15lx", "C15lm")
}

// wiringC15Linked: peer site (unique label) and the parent p (unique name, set index over roles, small-domain field
// grp) that declares BOTH link collections - p.sites <-> site.crew and the self collection p.friends <-> p.fans - with
// the child stores named in kids (pc plain with a nullable unique index, px extended with a nullable unique index).
func wiringC15Linked(name string, kids []string) *wiring {
	w := &wiring{Name: name, Stores: []*sStore{
		{Name: "site", Fields: []sField{{Name: "label"}}},
		{Name: "p", Fields: []sField{{Name: "name"}, {Name: "grp", Ptr: true}}, Sets: []string{"roles"}},
	}, Script: []wiringDecl{
		{Kind: "unique", Store: "site", Field: "label"},
		{Kind: "unique", Store: "p", Field: "name"},
		{Kind: "setidx", Store: "p", Field: "roles"},
		{Kind: "link", Store: "p", Field: "sites", Target: "site", Back: "crew"},
		{Kind: "link", Store: "p", Field: "friends", Target: "p", Back: "fans"},
	}}
	for _, k := range kids {
		switch k {
		case "px":
			w.Stores = append(w.Stores, &sStore{Name: "px", Parent: "p", Ext: true, Fields: []sField{{Name: "xcode", Ptr: true}}})
			w.Script = append(w.Script, wiringDecl{Kind: "unique", Store: "px", Field: "xcode", Nullable: true})
		case "pc":
			w.Stores = append(w.Stores, &sStore{Name: "pc", Parent: "p", Fields: []sField{{Name: "ckey", Ptr: true}, {Name: "cnote"}}})
			w.Script = append(w.Script, wiringDecl{Kind: "unique", Store: "pc", Field: "ckey", Nullable: true})
		}
	}
	return w
}

// ---- generator: link operations aimed at the family ------------------------------------------------------------

// percent of the generated operations (family root with link collections and entities) that c15GenLink replaces
const c15PLink = 22

// c15LinkRoot: the family root of the wiring that declares link collections ("" if none)
func c15LinkRoot(w *wiring) *sStore {
	for _, s := range w.Stores {
		if s.Parent == "" && len(s.Links) > 0 && c15InFamily(w, s) {
			return s
		}
	}
	return nil
}

// c15GenLink: AddLinks / RemoveLinks on a link collection of the family root for an entity that (mostly) has child data,
// towards existing peers (for the self collection: mostly other entities of the family, with and without child data).
func (g *xGen) c15GenLink() (hOp, bool) {
	root := c15LinkRoot(g.w)
	if root == nil {
		return hOp{}, false
	}
	// half of the time: a collection a CHILD store of the family declares, if there is one (store_c15w9.go)
	if c15HasChildLinks(g.w, root) && g.r.chance(50) { // draws nothing for the wirings without such a collection
		if op, ok := g.c15GenChildLink(root); ok {
			return op, true
		}
	}
	alive := g.sortedAlive(root.Name)
	if len(alive) == 0 {
		return hOp{}, false
	}
	var withChild []string
	for _, id := range alive {
		for _, s := range g.w.Stores {
			if s.Parent == root.Name && g.snap.child[s.Name][id] {
				withChild = append(withChild, id)
				break
			}
		}
	}
	l := root.Links[g.r.intn(len(root.Links))]
	peers := g.sortedAlive(g.rootOf(l.Other))
	if len(peers) == 0 {
		return hOp{}, false
	}
	op := hOp{Kind: "AL", Store: root.Name, LinkF: l.Local}
	if g.r.chance(12) {
		op.Kind = "RL"
	}
	if len(withChild) > 0 && g.r.chance(75) {
		op.Id = g.pickFrom(withChild)
	} else {
		op.Id = g.pickFrom(alive)
	}
	n := 1 + g.r.intn(2)
	for i := 0; i < n; i++ {
		op.Targets = append(op.Targets, g.pickFrom(peers))
	}
	return op, true
}

// ---- reads: QueryWithCursorC with every cursor provider ------------------------------------------------------------

type c15Prov struct {
	desc  string
	short bool // only the query `true limit none`
	open  ast.SetCursorProvider
}

func c15TwoSmallest(l []string) (string, string, bool) {
	var ne []string
	for _, v := range l {
		if v != "" {
			ne = append(ne, v)
		}
	}
	if len(ne) == 0 {
		return "", "", false
	}
	sort.Strings(ne)
	if len(ne) == 1 {
		return ne[0], ne[0], true
	}
	return ne[0], ne[1], true
}

// c15Providers is the rule shared with the model driver (c15_cursor_tokens) - keep them in step.
func (h *harnessDb) c15Providers(tx *bbolt.Tx, root *sStore, ids []string) []c15Prov {
	var out []c15Prov
	rs := h.stores[root.Name]
	related := func(peer, set string) {
		pd := h.w.store(peer)
		if pd == nil || pd.Parent != "" {
			return // sets kept inside a child-store bucket are not part of this rule
		}
		ps := h.stores[peer]
		for c := ps.IterateIds(tx, ast.BoolNodeTrue); c.IsValid(); c.Next() {
			j := string(c.Current())
			if len(ps.GetRelatedEntitiesIdList(tx, j, set)) > 0 {
				out = append(out, c15Prov{desc: "rl=" + peer + "=" + hxs(j) + "=" + set, open: func(tx *bbolt.Tx, forward bool) ast.SetCursor {
					return ps.GetRelatedEntitiesCursor(tx, j, set, forward)
				}})
				return
			}
		}
	}
	for _, cn := range root.Cons {
		switch cn.Kind {
		case "SI":
			idx := rs.sidx[cn.Field]
			if idx == nil {
				continue
			}
			for _, id := range ids {
				v, w, ok := c15TwoSmallest(rs.GetRelatedEntitiesIdList(tx, id, cn.Field))
				if !ok {
					continue
				}
				out = append(out,
					c15Prov{desc: "si=" + cn.Field + "=" + hxs(v), open: rs.IteratorMatchingAllOf(idx, []string{v})},
					c15Prov{desc: "sa=" + cn.Field + "=" + hxs(v) + "." + hxs(w), short: true, open: rs.IteratorMatchingAllOf(idx, []string{v, w})},
					c15Prov{desc: "so=" + cn.Field + "=" + hxs(v) + "." + hxs(w), short: true, open: rs.IteratorMatchingAnyOf(idx, []string{v, w})})
				break
			}
		case "FI":
			related(cn.Target, cn.Back)
		}
	}
	for _, l := range root.Links {
		related(l.Other, l.OtherField)
	}
	tree := func(pick func(k int) bool, reverse bool) ast.SetCursorProvider {
		return func(tx *bbolt.Tx, forward bool) ast.SetCursor {
			set := ast.NewTreeSet(forward)
			for k := range ids {
				j := k
				if reverse {
					j = len(ids) - 1 - k
				}
				if pick(j) {
					set.Add([]byte(ids[j]))
				}
			}
			return set.ToCursor()
		}
	}
	out = append(out, c15Prov{desc: "ts=e", open: tree(func(k int) bool { return k%2 == 0 }, false)})
	out = append(out, c15Prov{desc: "ts=a", short: true, open: tree(func(k int) bool { return true }, true)})
	return out
}

// c15CursorReads appends the QC tokens of every family store (inside the caller's read transaction)
func (h *harnessDb) c15CursorReads(tx *bbolt.Tx, sb *strings.Builder) {
	for _, root := range h.w.Stores {
		if root.Parent != "" || !c15InFamily(h.w, root) || len(root.Fields) == 0 {
			continue
		}
		rs := h.stores[root.Name]
		ff := &root.Fields[len(root.Fields)-1]
		first := &root.Fields[0]
		var ids []string
		hasEq := false
		fv := ""
		for c := rs.IterateIds(tx, ast.BoolNodeTrue); c.IsValid(); c.Next() {
			ids = append(ids, string(c.Current()))
			if !hasEq {
				if e, err := rs.LoadById(tx, string(c.Current())); err == nil && e != nil {
					if p := e.F[ff.Name]; p != nil {
						hasEq, fv = true, *p
					}
				}
			}
		}
		if len(ids) == 0 {
			continue
		}
		provs := h.c15Providers(tx, root, ids)
		for _, def := range h.w.Stores {
			if def.Name != root.Name && def.Parent != root.Name {
				continue
			}
			gs := h.stores[def.Name]
			for _, pv := range provs {
				var cands []string
				if cur := pv.open(tx, true); cur != nil {
					for ; cur.IsValid(); cur.Next() {
						cands = append(cands, hx(cur.Current()))
					}
				}
				qs := []c15Query{{"c", false, nil, true, 0, -1}}
				if !pv.short {
					qs = append(qs, c15Query{"c", false, nil, true, 1, 1})
					if hasEq {
						qs = append(qs, c15Query{"c", true, nil, true, 0, -1})
					}
					qs = append(qs, c15Query{"c", false, first, true, 0, 1})
				}
				for _, q := range qs {
					q := q
					tok := strings.Replace(q.token(def.Name, ff, fv), "QP:"+def.Name+":c:", "QC:"+def.Name+":"+pv.desc+":", 1)
					query, err := ast.Parse(gs, q.text(ff, fv))
					var res []string
					var cnt int64
					if err == nil {
						res, cnt, err = gs.QueryWithCursorC(tx, pv.open, query)
					}
					if err != nil {
						fmt.Fprintf(sb, " %s:ERR::%s", tok, strings.Join(cands, ","))
						continue
					}
					hs := make([]string, 0, len(res))
					for _, id := range res {
						hs = append(hs, hxs(id))
					}
					fmt.Fprintf(sb, " %s:%s:%s:%s", tok, strconv.FormatInt(cnt, 10), strings.Join(hs, ","), strings.Join(cands, ","))
				}
			}
		}
	}
}
