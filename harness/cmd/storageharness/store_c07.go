package main

// C07 - transactions are all-or-nothing and every failure reaches the caller.
//
// Sub-command "storec07" (built on the shared store harness; design/C07.md):
//   * histories of profile c07 (faults: caller error, failing pre-commit action, vetoes, duplicates, missing fk targets,
//     unusable keys) over the wirings idx / fkc / casc AND the C07 wirings
//       C07cr   : refusing constraints that live on CHILD stores only (restricting / cascading fk constraints whose target
//                 is a plain child store and an extended child store, system constraint and unique index on a child store),
//                 required strings at both levels, a string list without set index on a parent store;
//       C07tree : a self-referencing cascade (node.parent -> node, CascadeDelete), kept acyclic by the generator, so that
//                 one delete of a DeleteWhere can remove ids DeleteWhere collected;
//   * DeleteWhere as an operation of histories (op DW, filter true / field = value);
//   * vetoes of every error kind the library classifies (generic, RecordNotFoundError, ReferenceExistsError,
//     UniqueIndexDuplicateError) raised at every stage a store operation has: entity constraint ProcessPreCommit, index
//     constraint ProcessBeforeUpdate / ProcessAfterUpdate / ProcessBeforeDelete - of the store itself, of its parent store
//     and of its child stores (pseudo veto "@c07v" = stage and kind of the vetoes of the transaction);
//   * rejections raised while the entity is PERSISTED, at the level of the store and - through a child store - at the
//     level of its parent: required string empty, string-list element longer than bbolt's key limit (boundary lengths
//     32767 / 32768 / 33000), refused tag value; every create / update carries the op prefix G so that the model knows
//     the persist-level rules (Store/XOps.v XPersist);
//   * witnesses: VETOED (a harness constraint raised a veto) and RAISED:persist:<level> (PersistEntity of that level ended
//     with an error latched in the bucket it wrote to) - the oracle of checks/c07.py demands that a transaction in which
//     either was observed does not commit.

import (
	"fmt"
	"os"
	"sort"
	"strings"

	"github.com/openziti/foundation/v2/errorz"
	"github.com/openziti/storage/boltz"
	"github.com/pkg/errors"
	"go.etcd.io/bbolt"
)

func init() {
	commands["storec07"] = runStoreC07
	extraWirings["C07cr"] = wiringC07cr
	extraWirings["C07tree"] = wiringC07tree
}

// C07cr: every refusal of a delete comes from a constraint registered on a child store's indexer:
//
//	proj.owner   -> mgr (plain child of emp), nullable, CascadeNone   : deleting a referenced manager is refused
//	proj.backup  -> mgr, nullable, CascadeDelete                        : deleting a manager deletes the projects backed up by it
//	proj.watcher -> aud (EXTENDED child of emp), nullable, CascadeNone
//	system constraint on mgr (emp has none), unique indexes on mgr.level / aud.code
//
// emp.roles is a string list WITHOUT set index (nothing but PersistEntity notices an unusable element), emp.tagsx has
// one; emp.badge, mgr.office, proj.pcode are required strings.  Model: Examples/C07Wirings.v c07cr_schema.
func wiringC07cr() *wiring {
	return &wiring{Name: "C07cr", Stores: []*sStore{
		{Name: "emp", Fields: []sField{{Name: "name"}, {Name: "nick", Ptr: true}, {Name: "badge", Req: true}}, Sets: []string{"roles", "tagsx"}},
		{Name: "mgr", Parent: "emp", Fields: []sField{{Name: "level", Ptr: true}, {Name: "office", Req: true}}},
		{Name: "aud", Parent: "emp", Ext: true, Fields: []sField{{Name: "code", Ptr: true}}},
		{Name: "proj", Fields: []sField{{Name: "title"}, {Name: "owner", Ptr: true}, {Name: "backup", Ptr: true}, {Name: "watcher", Ptr: true}, {Name: "pcode", Req: true}}, Sets: []string{"labels"}},
	}, Script: []wiringDecl{
		{Kind: "unique", Store: "emp", Field: "name"},
		{Kind: "setidx", Store: "emp", Field: "tagsx"},
		{Kind: "unique", Store: "mgr", Field: "level", Nullable: true},
		{Kind: "system", Store: "mgr"},
		{Kind: "unique", Store: "aud", Field: "code", Nullable: true},
		{Kind: "fkcons", Store: "proj", Field: "owner", Target: "mgr", Nullable: true, Casc: "N"},
		{Kind: "fkcons", Store: "proj", Field: "backup", Target: "mgr", Nullable: true, Casc: "D"},
		{Kind: "fkcons", Store: "proj", Field: "watcher", Target: "aud", Nullable: true, Casc: "N"},
		{Kind: "unique", Store: "proj", Field: "title"},
	}}
}

// C07tree: node.parent -> node (nullable, CascadeDelete); leaf is a plain child store of node.  The generator only
// writes parent references to smaller ids, so the reference graph is a forest (no cascade cycle: that is the known
// finding C04:cascade-cycle-refused, not the subject here).  Model: Examples/C07Wirings.v c07tree_schema.
func wiringC07tree() *wiring {
	return &wiring{Name: "C07tree", Stores: []*sStore{
		{Name: "node", Fields: []sField{{Name: "name"}, {Name: "parent", Ptr: true}}, Sets: []string{"kinds"}},
		{Name: "leaf", Parent: "node", Fields: []sField{{Name: "mark", Ptr: true}}},
	}, Script: []wiringDecl{
		{Kind: "unique", Store: "node", Field: "name"},
		{Kind: "fkcons", Store: "node", Field: "parent", Target: "node", Nullable: true, Casc: "D"},
		{Kind: "unique", Store: "leaf", Field: "mark", Nullable: true},
	}}
}

var c07Wirings = []string{"idx", "fkc", "casc", "C07cr", "C07tree", "C07cr"}

// ---- vetoes at every stage, of every kind; persist witness ---------------------------------------------

const c07PseudoVeto = "@c07v" // hVeto{Store: "@c07v", Change: "C", Id: "<stage>:<kind>"}, stage P | IB | IA, kind err | notfound | refexists | dup

var c07Stages = []string{"P", "IB", "IA"}
var c07Kinds = []string{"err", "notfound", "refexists", "dup"}

// RecordNotFoundError is the kind callers most often treat specially: drawn twice as often as the others
var c07KindDraw = []string{"err", "notfound", "notfound", "refexists", "dup"}

type c07Ctl struct {
	h       *harnessDb
	stage   string // "" = the vetoes of the transaction are raised by the shared harness constraint
	kind    string
	vetoes  map[string]bool // "store/C|U|D/id"
	persist map[string]bool // levels whose PersistEntity ended with an error in the bucket they wrote to
	// store_c07_panic.go: where the harness made code panic in the current transaction; the level whose PersistEntity
	// panics during the operation that is running
	panics       map[string]bool
	persistPanic string
}

var c07ctl *c07Ctl

func c07Err(kind, key string) error {
	switch kind {
	case "notfound":
		return boltz.NewNotFoundError("harness veto "+key, "id", key)
	case "refexists":
		return boltz.NewReferenceByIdError("harness veto", key, "referrer", "r", "field")
	case "dup":
		return &boltz.UniqueIndexDuplicateError{Field: "harness veto", Value: key, EntityType: "harness"}
	case "panic":
		// the constraint does not raise an error: it panics (nil dereference), store_c07_panic.go
		stage := "P"
		if c07ctl != nil {
			stage = c07ctl.stage
		}
		c07PnNilDeref("constraint-" + stage)
	}
	return errors.Errorf("vetoed by the C07 harness constraint: %s", key)
}

func (ctl *c07Ctl) wants(stage, store, change, id string) bool {
	if ctl == nil || ctl.stage != stage {
		return false
	}
	if !ctl.vetoes[store+"/"+change+"/"+id] {
		return false
	}
	ctl.h.mu.Lock()
	ctl.h.raised++
	ctl.h.mu.Unlock()
	return true
}

// entity constraint: typed vetoes at the pre-commit stage
type c07EntityConstraint struct{ store string }

func (c *c07EntityConstraint) ProcessPreCommit(state boltz.UntypedEntityChangeState) error {
	ch := changeLetter(state.GetChangeType())
	if c07ctl.wants("P", c.store, ch, state.GetEntityId()) {
		return c07Err(c07ctl.kind, c.store+"/"+ch+"/"+state.GetEntityId())
	}
	return nil
}

func (c *c07EntityConstraint) ProcessPostCommit(boltz.UntypedEntityChangeState) {}

// index constraint: vetoes while the indexing context of the store is processed
type c07IndexConstraint struct{ store string }

func (c *c07IndexConstraint) Label() string { return "C07 harness constraint on " + c.store }

func (c *c07IndexConstraint) raise(ctx *boltz.IndexingContext, stage, change string) {
	if ctx.ErrHolder.HasError() {
		return
	}
	if c07ctl.wants(stage, c.store, change, string(ctx.RowId)) {
		ctx.ErrHolder.SetError(c07Err(c07ctl.kind, c.store+"/"+change+"/"+string(ctx.RowId)))
	}
}

func (c *c07IndexConstraint) ProcessBeforeUpdate(ctx *boltz.IndexingContext) {
	if !ctx.IsCreate {
		c.raise(ctx, "IB", "U")
	}
}

func (c *c07IndexConstraint) ProcessAfterUpdate(ctx *boltz.IndexingContext) {
	if ctx.IsCreate {
		c.raise(ctx, "IB", "C")
		c.raise(ctx, "IA", "C")
	} else {
		c.raise(ctx, "IA", "U")
	}
}

func (c *c07IndexConstraint) ProcessBeforeDelete(ctx *boltz.IndexingContext) {
	c.raise(ctx, "IB", "D")
	c.raise(ctx, "IA", "D")
}

func (c *c07IndexConstraint) Initialize(*bbolt.Tx, errorz.ErrorHolder) {}

func (c *c07IndexConstraint) CheckIntegrity(boltz.MutateContext, bool, func(error, bool)) error {
	return nil
}

// c07Open opens the harness database and registers the C07 constraints on every store (after the wiring's own)
func c07Open(w *wiring, dir string) (*harnessDb, error) {
	h, err := openHarnessDb(w, dir)
	if err != nil {
		return nil, err
	}
	for _, def := range w.Stores {
		h.stores[def.Name].AddConstraint(&c07IndexConstraint{store: def.Name})
		h.stores[def.Name].AddUntypedEntityConstraint(&c07EntityConstraint{store: def.Name})
	}
	c07ctl = &c07Ctl{h: h}
	// every kind of hook that is told about a transaction (store_c07_hooks.go): none may run for a failed one
	if err := c07HkAttach(h); err != nil {
		return nil, err
	}
	gPersistWitness = func(def *sStore, ctx *boltz.PersistContext) {
		if c07ctl != nil && ctx.Bucket.HasError() {
			c07ctl.persist[def.Name] = true
		}
		if c07ctl != nil && c07ctl.persistPanic != "" && c07ctl.persistPanic == def.Name {
			c07ctl.persistPanic = ""
			c07PnNilDeref("persist") // the entity strategy panics after it wrote this level's fields
		}
	}
	return h, nil
}

func c07Close(h *harnessDb) {
	h.close()
	c07ctl = nil
	c07hk = nil
	gPersistWitness = nil
}

// c07RunTx executes one transaction.  When it carries the pseudo veto @c07v, its vetoes are raised by the C07 constraints
// at that stage with an error of that kind (the shared harness constraint then sees no veto).
func c07RunTx(h *harnessDb, t *hTx) string {
	ctl := c07ctl
	ctl.stage, ctl.kind = "", ""
	ctl.vetoes = map[string]bool{}
	ctl.persist = map[string]bool{}
	ctl.panics, ctl.persistPanic = nil, ""
	run := *t
	for _, v := range t.Vetoes {
		if v.Store == c07PseudoVeto {
			parts := strings.SplitN(v.Id, ":", 2)
			if len(parts) == 2 {
				ctl.stage, ctl.kind = parts[0], parts[1]
			}
		}
	}
	if ctl.stage != "" {
		run.Vetoes = nil
		for _, v := range t.Vetoes {
			if strings.HasPrefix(v.Store, "@") {
				run.Vetoes = append(run.Vetoes, v)
			} else {
				ctl.vetoes[v.Store+"/"+v.Change+"/"+v.Id] = true
			}
		}
	}
	c07HkReset()
	seg := c07RunTxRecover(h, &run)
	hk := c07HkCollect(strings.Contains(seg, " COMMIT"))
	hk = c07PnTokens() + hk // PANIC-RAISED witnesses (store_c07_panic.go)
	if len(ctl.persist) > 0 || hk != "" {
		var lv []string
		for l := range ctl.persist {
			lv = append(lv, l)
		}
		sort.Strings(lv)
		tok := ""
		for _, l := range lv {
			tok += " RAISED:persist:" + l
		}
		tok += hk
		// in front of the first read token (Q:...), i.e. among the tokens between the commit flag and " ST"
		if i := strings.Index(seg, " Q:"); i >= 0 {
			seg = seg[:i] + tok + seg[i:]
		} else if i := strings.Index(seg, " ST"); i >= 0 {
			seg = seg[:i] + tok + seg[i:]
		}
	}
	return seg
}

// c07RunTxRecover: a store operation that panics (only seen on changed trees, where an earlier transaction committed a
// half-applied change) must not take the whole run down: bbolt rolls the transaction back while the panic unwinds; the
// observation records the panic as the result of the transaction
func c07RunTxRecover(h *harnessDb, t *hTx) (seg string) {
	defer func() {
		if r := recover(); r != nil {
			var sb strings.Builder
			sb.WriteString("TX R panic ROLLBACK")
			sb.WriteString(h.reads())
			sb.WriteString(" ST")
			for _, f := range h.facts() {
				sb.WriteString(" " + f)
			}
			sb.WriteString(" | ")
			seg = sb.String()
		}
	}()
	if _, _, has := c07CtxParse(t); has { // store_c07_ctx.go: registrations through derived contexts
		return c07CtxRunTx(h, t)
	}
	if _, has := c07PnParse(t); has { // store_c07_panic.go: panicking steps; the same executor observes the panic at the call
		return c07CtxRunTx(h, t)
	}
	return h.runTx(t)
}

// ---- generator -----------------------------------------------------------------------------------------

var c07LongLens = []int{32767, 32768, 33000}

func (g *histGen) c07PlainFields(store string) []sField {
	fields, _ := g.w.allFields(store)
	return fields
}

// c07GenDW: DeleteWhere on a random store, filter true or field = value
func (g *histGen) c07GenDW() hOp {
	st := g.w.Stores[g.r.intn(len(g.w.Stores))]
	op := hOp{Kind: "DW", Store: st.Name}
	fields := g.c07PlainFields(st.Name)
	if len(fields) > 0 && g.r.chance(55) {
		f := fields[g.r.intn(len(fields))]
		op.DwField = f.Name
		owner := st.Name
		if g.fkTargetOf(owner, f.Name) == "" && st.Parent != "" {
			owner = st.Parent
		}
		if t := g.fkTargetOf(owner, f.Name); t != "" {
			op.DwVal = g.pickAlive(t)
		} else {
			op.DwVal = g.p.vals[g.r.intn(len(g.p.vals))]
			if op.DwVal == "" {
				op.DwVal = "v1"
			}
		}
	}
	return op
}

// c07Decorate turns a transaction of the shared generator into one of the C07 stream
func (g *histGen) c07Decorate(t *hTx) {
	// DeleteWhere: replaces a delete or is inserted at a random position
	if g.r.chance(28) {
		dw := g.c07GenDW()
		// a veto on the delete of one entity DeleteWhere may reach: then mostly with the filter true, which reaches it
		wantVeto := g.r.chance(65)
		if wantVeto && dw.DwField != "" && g.r.chance(55) {
			dw.DwField, dw.DwVal = "", ""
		}
		replaced := false
		if g.r.chance(50) {
			for i := range t.Ops {
				if t.Ops[i].Kind == "D" {
					dw.Store = t.Ops[i].Store
					if dw.DwField != "" {
						ok := false
						for _, f := range g.c07PlainFields(dw.Store) {
							if f.Name == dw.DwField {
								ok = true
							}
						}
						if !ok {
							dw.DwField, dw.DwVal = "", ""
						}
					}
					t.Ops[i] = dw
					replaced = true
					break
				}
			}
		}
		if !replaced {
			pos := g.r.intn(len(t.Ops) + 1)
			ops := append([]hOp{}, t.Ops[:pos]...)
			ops = append(ops, dw)
			t.Ops = append(ops, t.Ops[pos:]...)
		}
		// veto the delete of one entity DeleteWhere may reach (in the store, its parent or one of its children)
		if wantVeto {
			store := dw.Store
			id := g.pickAlive(store)
			if g.r.chance(40) {
				if p := g.w.store(store).Parent; p != "" {
					store = p
				} else {
					for _, c := range g.w.Stores {
						if c.Parent == store && g.r.chance(60) {
							store = c.Name
						}
					}
				}
			}
			t.Vetoes = append(t.Vetoes, hVeto{Store: store, Change: "D", Id: id})
		}
	}
	// an update / delete ENTERED THROUGH THE PARENT STORE of an entity that lives in a child store, vetoed at the level of
	// that child store only (the parent store's own path knows nothing about the rejection); the update is a patch of
	// nothing or of one field no index looks at, so that nothing else is likely to fail
	if g.r.chance(8) {
		var cands [][2]string
		for _, c := range g.w.Stores {
			if c.Parent != "" {
				for _, id := range g.aliveIds(c.Name) {
					cands = append(cands, [2]string{c.Name, id})
				}
			}
		}
		if len(cands) > 0 {
			pick := cands[g.r.intn(len(cands))]
			child, id := pick[0], pick[1]
			root := g.w.store(child).Parent
			op := hOp{Kind: "UP", Store: root, Id: id, HasChk: true}
			g.fieldsValue(&op)
			ch := "U"
			if g.r.chance(50) {
				indexed := map[string]bool{}
				for _, d := range g.w.Script {
					indexed[d.Field] = true
				}
				var free []string
				for _, f := range append(append([]sField{}, g.w.store(root).Fields...), g.w.store(child).Fields...) {
					if !indexed[f.Name] && !f.Req {
						free = append(free, f.Name)
					}
				}
				if len(free) > 0 {
					op.Checker = []string{free[g.r.intn(len(free))]}
				}
			}
			if g.r.chance(30) {
				op = hOp{Kind: "D", Store: root, Id: id}
				ch = "D"
			}
			pos := g.r.intn(len(t.Ops) + 1)
			ops := append([]hOp{}, t.Ops[:pos]...)
			ops = append(ops, op)
			t.Ops = append(ops, t.Ops[pos:]...)
			t.Vetoes = append(t.Vetoes, hVeto{Store: child, Change: ch, Id: id})
		}
	}
	for i := range t.Ops {
		op := &t.Ops[i]
		if op.Kind != "C" && op.Kind != "UP" {
			continue
		}
		op.Guard = true
		// required strings: the shared generator draws "" with probability 1/9 per field; keep about a third of them
		for _, r := range g.w.requiredFields() {
			if v, ok := op.F[r[1]]; ok && v != nil && *v == "" && g.r.chance(90) {
				op.F[r[1]] = sp("rq")
			}
		}
		// a string-list element at / beyond bbolt's key limit
		if len(op.S) > 0 && g.r.chance(3) {
			var names []string
			for n := range op.S {
				names = append(names, n)
			}
			sort.Strings(names)
			n := names[g.r.intn(len(names))]
			l := append([]string{}, op.S[n]...)
			long := strings.Repeat("e", c07LongLens[g.r.intn(len(c07LongLens))])
			pos := g.r.intn(len(l) + 1)
			l = append(l[:pos], append([]string{long}, l[pos:]...)...)
			op.S[n] = l
			if op.HasChk && g.r.chance(70) {
				op.Checker = append(op.Checker, n)
			}
		}
		// a tag value the storage layer refuses
		if g.r.chance(2) {
			op.BadTags = true
			if op.HasChk && g.r.chance(60) {
				op.Checker = append(op.Checker, "tags")
			}
		}
		// C07tree: parent references only to smaller ids (forest)
		if g.w.Name == "C07tree" {
			if v := op.F["parent"]; v != nil && *v != "" && !(*v < op.Id) {
				var smaller []string
				for _, id := range g.aliveIds("node") {
					if id < op.Id {
						smaller = append(smaller, id)
					}
				}
				if len(smaller) > 0 && g.r.chance(80) {
					op.F["parent"] = sp(smaller[g.r.intn(len(smaller))])
				} else {
					delete(op.F, "parent")
				}
			}
		}
	}
	// vetoes: more of them than the shared profile draws, on any change of the transaction; an update / delete entered
	// through a parent store that reaches an entity of a child store is preferably vetoed at the level of that child
	// (a rejection only the child store knows about)
	if g.r.chance(9) {
		op := t.Ops[g.r.intn(len(t.Ops))]
		if op.Kind == "C" || op.Kind == "UP" || op.Kind == "D" {
			ch := map[string]string{"C": "C", "UP": "U", "D": "D"}[op.Kind]
			store := op.Store
			if p := g.w.store(store).Parent; p != "" {
				if g.r.chance(50) {
					store = p
				}
			} else {
				for _, c := range g.w.Stores {
					if c.Parent == store && (g.alive[c.Name][op.Id] && g.r.chance(75) || g.r.chance(25)) {
						store = c.Name
						break
					}
				}
			}
			t.Vetoes = append(t.Vetoes, hVeto{Store: store, Change: ch, Id: op.Id})
		}
	}
	// stage and kind of the vetoes of this transaction
	real := 0
	for _, v := range t.Vetoes {
		if !strings.HasPrefix(v.Store, "@") {
			real++
		}
	}
	if real > 0 && g.r.chance(65) {
		t.Vetoes = append(t.Vetoes, hVeto{Store: c07PseudoVeto, Change: "C",
			Id: c07Stages[g.r.intn(len(c07Stages))] + ":" + c07KindDraw[g.r.intn(len(c07KindDraw))]})
	}
	// pre-commit / commit actions registered through contexts derived from the transaction's context (store_c07_ctx.go)
	g.c07CtxDecorate(t)
	// commit actions on more transactions; the marker that makes the model print its hook counts (store_c07_hooks.go)
	g.c07HkDecorate(t)
	// failures that surface as a panic (store_c07_panic.go)
	g.c07PnDecorate(t)
}

func (g *histGen) c07GenAndRun(h *harnessDb) ([]hTx, string) {
	var obs strings.Builder
	n := 1 + g.r.intn(g.p.maxTx)
	var txs []hTx
	for i := 0; i < n; i++ {
		g.refresh(h)
		t := g.genTx()
		g.c07Decorate(&t)
		txs = append(txs, t)
		obs.WriteString(c07RunTx(h, &txs[len(txs)-1]))
	}
	return txs, obs.String()
}

// ---- sub-command ---------------------------------------------------------------------------------------

func c07RunHistory(w *wiring, txs []hTx, dir string) (string, string, error) {
	h, err := c07Open(w, dir)
	if err != nil {
		return "", "", err
	}
	defer c07Close(h)
	var c, o strings.Builder
	c.WriteString(w.text())
	for i := range txs {
		c.WriteString(" ")
		c.WriteString(w.txText(&txs[i]))
		o.WriteString(c07RunTx(h, &txs[i]))
	}
	return c.String(), o.String(), nil
}

func runStoreC07(o *opts) error {
	prof := profileFor("c07")
	cases := newLineWriter(o.out, "cases.txt")
	impl := newLineWriter(o.out, "impl.txt")
	defer cases.close()
	defer impl.close()
	tmp := o.get("tmp", os.TempDir())
	stats := map[string]int{}
	n := 400
	if o.thorough() {
		n = 6000
	}
	if o.n > 0 {
		n = o.n
	}
	if cp := o.get("corpus", ""); cp != "" {
		data, err := os.ReadFile(cp)
		if err != nil {
			return err
		}
		for _, line := range strings.Split(string(data), "\n") {
			line = strings.TrimSpace(line)
			if line == "" || strings.HasPrefix(line, "#") {
				continue
			}
			w, txs, err := parseCase(line)
			if err != nil {
				return fmt.Errorf("corpus %s: %v", cp, err)
			}
			c, obs, err := c07RunHistory(w, txs, tmp)
			if err != nil {
				return err
			}
			cases.line("%s", c)
			impl.line("%s", obs)
			stats["corpus"]++
		}
	}
	if o.n == 0 && o.get("corpus", "") != "" && o.get("profile", "") == "" {
		writeJSON(o.out, "stats.json", stats)
		return nil
	}
	r := newRng(o.seed)
	for i := 0; i < n; i++ {
		w := wiringByName(c07Wirings[i%len(c07Wirings)])
		w.derive()
		g := &histGen{r: r, w: w, p: prof, ids: prof.ids}
		h, err := c07Open(w, tmp)
		if err != nil {
			return err
		}
		txs, obs := g.c07GenAndRun(h)
		c07Close(h)
		var cb strings.Builder
		cb.WriteString(w.text())
		for k := range txs {
			cb.WriteString(" ")
			cb.WriteString(w.txText(&txs[k]))
		}
		cases.line("%s", cb.String())
		impl.line("%s", obs)
		stats["histories"]++
		stats["wiring_"+w.Name]++
		stats["tx"] += len(txs)
		for _, t := range txs {
			stats["ops"] += len(t.Ops)
			for _, op := range t.Ops {
				stats["op_"+op.Kind]++
				if op.BadTags {
					stats["op_badtags"]++
				}
				for _, l := range op.S {
					for _, e := range l {
						if len(e) >= 32767 {
							stats["op_long_list_element"]++
						}
					}
				}
			}
			if t.PreCommitErr {
				stats["tx_precommit_err"]++
			}
			c07CtxStats(stats, &t)
			for _, v := range t.Vetoes {
				switch {
				case v.Store == c07PseudoVeto:
					stats["tx_veto_stage_"+v.Id]++
				case !strings.HasPrefix(v.Store, "@"):
					stats["veto"]++
				default:
					stats["tx_"+v.Store]++
				}
			}
		}
		for k, seg := range strings.Split(obs, " | ") {
			if k < len(txs) {
				c07PnStats(stats, &txs[k], seg+" ")
			}
		}
		stats["obs_commit"] += strings.Count(obs, " COMMIT")
		stats["obs_rollback"] += strings.Count(obs, " ROLLBACK")
		stats["obs_vetoed"] += strings.Count(obs, " VETOED")
		stats["obs_raised_persist"] += strings.Count(obs, " RAISED:persist:")
		stats["obs_hook_tokens"] += strings.Count(obs, " HK:")
		stats["obs_tx_complete"] += strings.Count(obs, " HK:tc:")
		stats["obs_commit_action_after_rollback"] += strings.Count(obs, " CA-AFTER-ROLLBACK:")
		for _, k := range []string{" dup", " notfound", " refexists", " err"} {
			stats["res_"+strings.TrimSpace(k)] += strings.Count(obs, k+" ")
		}
	}
	stats["hook_wait_timeouts"] = c08Timeouts
	writeJSON(o.out, "stats.json", stats)
	fmt.Fprintf(os.Stderr, "storec07: %d histories\n", n)
	return nil
}
