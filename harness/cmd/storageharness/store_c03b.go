package main

// C03 (seventh strengthening, agent s9-c03): two inputs that were constants of the C03 stream.
//
// (a) The CONTENT of set members and unique values.  Every value of the stream was a short alphanumeric token ("v1",
// "r", "zz"), so an implementation that compares, keys or transports values through a rendering of SEVERAL values in one
// string (joined with a comma, a space, NUL, a slash, nothing at all, a type-tag byte ...) behaved like one that compares
// them element by element.  c03bUniverse(sep) is a value universe built from the fragments a b c d and ONE separator per
// history: the fragments, their joins over 2 and 3 neighbours, the separator alone and as a prefix, the empty string.
// In such a universe different sets / field tuples are RE-GROUPINGS of one character sequence: {a<sep>b, c} and
// {a, b<sep>c} have the same size and the same rendering under a join with <sep>.  c03bRegroupHistory replaces the string
// lists (and, where a store has two unique fields, the pair of unique values) of a populated entity by another grouping
// of the same sequence - by a field-restricted or a full update, through the parent or a child store - regroups again,
// deletes, re-creates; live and warm histories draw from the same universe.
//
// (b) Child stores that declare NOTHING.  Every child store of the C03 wirings owned at least one unique index, so "the
// store an operation enters through has constraints of its own" was a constant.  The wirings below hang bare child
// stores (plain, Extended(), one without any field, one next to a sibling that does own an index, a family that is
// cascade-deleted from an owner) under a parent that carries unique and set indexes; creates, updates and deletes
// entered through them must maintain the parent's indexes (store machine: chain / cons_of of the parent; Examples/
// C03Wirings.v checks wf_unique_b / wf_setidx_b / wf_cunique_b for these schemas, printed by "store_c03b_coq").

import (
	"fmt"
	"os"
	"path/filepath"
	"strings"
)

type c03bDecl struct {
	name  string
	shape string
	depth int
	slack int
}

var c03bWirings = []c03bDecl{
	{"c03bareP", "p", 1, 0},
	{"c03bareX", "x", 2, 0},
	{"c03bareXP", "xp", 1, 0},
	{"c03barePu", "pu", 3, 2},
}

// the wirings the separator stream runs on: the bare-child shapes and stock shapes with set indexes on root stores, on
// several stores, next to fk back-reference sets, and owned by a child store
var c03bStream = []string{"c03bareP", "c03acct2s", "c03bareX", "idx", "c03bareXP", "c03famXPs", "c03barePu", "c03item3"}

func init() {
	for _, d := range c03bWirings {
		d := d
		extraWirings[d.name] = func() *wiring { return c03bWiring(d.name) }
	}
	commands["store_c03b_coq"] = func(o *opts) error { fmt.Fprint(os.Stdout, c03bCoqText()); return nil }
	commands["store_c03b_corpus"] = runC03bCorpus
}

func c03bWiring(name string) *wiring {
	for _, d := range c03bWirings {
		if d.name != name {
			continue
		}
		u := func(store, field string, nullable bool) wiringDecl {
			return wiringDecl{Kind: "unique", Store: store, Field: field, Nullable: nullable}
		}
		si := func(store, field string) wiringDecl { return wiringDecl{Kind: "setidx", Store: store, Field: field} }
		// bare child stores: fields of their own, no index, no constraint
		pc := func() *sStore {
			return &sStore{Name: "pc", Parent: "p", Fields: []sField{{Name: "k", Ptr: true}, {Name: "code"}}}
		}
		px := func() *sStore { return &sStore{Name: "px", Parent: "p", Ext: true, Fields: []sField{{Name: "x", Ptr: true}}} }
		var w *wiring
		switch d.shape {
		case "p": // one plain bare child store; the parent has two unique and two set indexes
			w = &wiring{Stores: []*sStore{c03fStore("p"), pc()}, Script: []wiringDecl{
				u("p", "name", false), si("p", "roles"), u("p", "nick", true), si("p", "skills"),
			}}
		case "x": // one Extended() bare child store; the set index is registered first
			w = &wiring{Stores: []*sStore{c03fStore("p"), px()}, Script: []wiringDecl{
				si("p", "roles"), u("p", "nick", true), u("p", "name", false),
			}}
		case "xp": // an extended and a plain bare child store; the family is cascade-deleted with its owner
			w = &wiring{Stores: []*sStore{c03fStore("o"), c03fStore("p", sField{Name: "owner"}), px(), pc()}, Script: []wiringDecl{
				u("o", "title", false), si("o", "labels"),
				u("p", "name", false), {Kind: "fkindexcascade", Store: "p", Field: "owner", Target: "o", Back: "ps"}, si("p", "roles"), u("p", "nick", true),
			}}
		case "pu": // a bare child store without any field next to a sibling that owns a unique index
			w = &wiring{Stores: []*sStore{c03fStore("p"), {Name: "pe", Parent: "p"}, c03fStore("pd")}, Script: []wiringDecl{
				u("p", "name", false), u("pd", "d", true), si("p", "roles"), u("p", "nick", true), si("p", "skills"),
			}}
		default:
			return nil
		}
		w.Name, w.Depth, w.Slack = d.name, d.depth, d.slack
		return w
	}
	return nil
}

func c03bCoqText() string {
	var ns []string
	for _, d := range c03bWirings {
		ns = append(ns, d.name)
	}
	return c03fCoqTextFor(ns, "bm_")
}

// c03bWriteCoq leaves the schemas of the bare-child wirings next to the cases of a store_c03s run (checks/c03.py
// compares them with Examples/C03Wirings.v)
func c03bWriteCoq(dir string) {
	_ = os.WriteFile(filepath.Join(dir, "c03b_wirings.v"), []byte(c03bCoqText()), 0o644)
}

// ---- value universes over one separator --------------------------------------------------------------------------

// the separators a rendering of several values might use; the first seven are drawn half of the time
var c03bCommonSeps = []string{",", " ", "\x00", "/", "", ", ", ":"}
var c03bAllSeps = []string{";", "|", "\n", "\x05", ".", "\t", "\x07", "-", "\x01", "=", "\xff", "\x02", "\\", "\x03", "%", "\x04", "\x06", "\r\n", "\x00\x00", "&", "+",
	",", " ", "\x00", "/", "", ", ", ":"}

func c03bSepFor(k int) string {
	if k%2 == 0 {
		return c03bCommonSeps[(k/2)%len(c03bCommonSeps)]
	}
	return c03bAllSeps[(k/2)%len(c03bAllSeps)]
}

var c03bFrags = []string{"a", "b", "c", "d"}

// c03bUniverse: fragments, joins of 2 and 3 neighbouring fragments, the empty string, the separator as a prefix and alone
func c03bUniverse(sep string) []string {
	j := func(xs ...string) string { return strings.Join(xs, sep) }
	vals := []string{"a", j("a", "b"), "c", "", "b", j("b", "c"), "d", j("c", "d"), j("a", "b", "c"), j("b", "c", "d")}
	if sep != "" {
		vals = append(vals, sep+"a", sep)
	}
	return vals
}

// c03bGroupings: every way to cut frags into k non-empty runs of neighbours, each run joined with sep.  The fragments are
// increasing, so every grouping is sorted and all groupings of the same frags render the same under a join with sep.
func c03bGroupings(frags []string, sep string, k int) [][]string {
	var out [][]string
	var rec func(rest []string, k int, acc []string)
	rec = func(rest []string, k int, acc []string) {
		if k == 1 {
			if len(rest) > 0 {
				out = append(out, append(append([]string{}, acc...), strings.Join(rest, sep)))
			}
			return
		}
		for n := 1; n <= len(rest)-(k-1); n++ {
			rec(rest[n:], k-1, append(append([]string{}, acc...), strings.Join(rest[:n], sep)))
		}
	}
	rec(frags, k, nil)
	return out
}

// c03bRegroupHistory: history number k of the regrouping stream over the separator sep (the generator's value universe
// is c03bUniverse(sep)).  k enumerates the store the subject is created through.
func (g *warmGen) c03bRegroupHistory(k int, sep string) []hTx {
	g.alive = map[string]map[string]bool{}
	g.sets = map[string]map[string]map[string][]string{}
	g.uniq = map[string]map[string]string{}
	g.inChild = map[string]map[string]bool{}
	for _, s := range g.w.Stores {
		if s.Parent == "" {
			g.alive[s.Name] = map[string]bool{}
		}
	}
	var cands []string
	for _, s := range g.w.Stores {
		_, sets := g.w.allFields(s.Name)
		indexed := false
		for _, sn := range sets {
			indexed = indexed || g.isSetIdx(g.rootOf(s.Name), sn) || g.isSetIdx(s.Name, sn)
		}
		if indexed {
			cands = append(cands, s.Name)
		}
	}
	if len(cands) == 0 {
		return g.genHistoryWarm()
	}
	through := cands[k%len(cands)]
	root := g.rootOf(through)
	fam := []string{root}
	for _, c := range g.w.Stores {
		if c.Parent == root {
			fam = append(fam, c.Name)
		}
	}
	var txs []hTx
	one := func(ops ...hOp) { txs = append(txs, hTx{Ops: ops}) }
	// the other root stores first (fk targets of the subject), each with its own store family
	for _, s := range g.w.Stores {
		if s.Parent == "" && s.Name != root {
			for n := 1 + g.r.intn(2); n > 0; n-- {
				if op, ok := g.validCreate(s.Name); ok {
					one(op)
				}
			}
		}
	}
	subj, ok := g.validCreate(through)
	if !ok {
		return txs
	}
	// groupings of one fragment sequence: 3 or 4 fragments cut into 2 or 3 runs
	frags := c03bFrags[:3]
	if g.r.chance(50) {
		frags = c03bFrags
	}
	if g.r.chance(25) {
		frags = c03bFrags[1:]
	}
	runs := 2
	if len(frags) == 4 && g.r.chance(50) {
		runs = 3
	}
	grp := c03bGroupings(frags, sep, runs)
	c03bShuffle(g.r, grp)
	_, sets := g.w.allFields(through)
	for _, sn := range sets {
		subj.S[sn] = append([]string{}, grp[0]...)
		g.sets[root][subj.Id][sn] = append([]string{}, grp[0]...)
	}
	// two unique fields of the family as a regrouped pair as well: (a<sep>b, c) -> (a, b<sep>c)
	var upair []string // field names
	for _, key := range g.uniqueFields(through) {
		st, f := key[:strings.Index(key, ".")], key[strings.Index(key, ".")+1:]
		if fd, ok := c03tFieldOf(g.w, st, f); ok && fd.Typ == "" && g.fkTargetOf(st, f) == "" && len(upair) < 2 {
			upair = append(upair, key)
		}
	}
	ugrp := c03bGroupings(c03bFrags[:3], sep, 2)
	if g.r.chance(50) {
		ugrp[0], ugrp[1] = ugrp[1], ugrp[0]
	}
	uniqueToo := len(upair) == 2 && g.r.chance(60)
	if uniqueToo {
		for n, key := range upair {
			f := key[strings.Index(key, ".")+1:]
			if g.uniq[key][ugrp[0][n]] != "" || g.uniq[key][ugrp[1][n]] != "" {
				uniqueToo = false
			}
			_ = f
		}
	}
	if uniqueToo {
		for n, key := range upair {
			f := key[strings.Index(key, ".")+1:]
			subj.F[f] = sp(ugrp[0][n])
		}
		g.noteUnique(&subj)
		for n, key := range upair { // reserved for the subject: bystanders keep away from the values it will move to
			g.uniq[key][ugrp[1][n]] = subj.Id
		}
	}
	one(subj)
	// bystanders in the same family that share fragments with the subject
	if g.r.chance(60) {
		for n := 1 + g.r.intn(2); n > 0; n-- {
			if op, ok := g.validCreate(fam[g.r.intn(len(fam))]); ok {
				for _, sn := range sets {
					if g.r.chance(60) {
						pick := grp[g.r.intn(len(grp))]
						op.S[sn] = append([]string{}, pick[:1+g.r.intn(len(pick))]...)
						g.sets[root][op.Id][sn] = append([]string{}, op.S[sn]...)
					}
				}
				one(op)
			}
		}
	}
	cur := c03fCloneCreate(subj, through, subj.Id) // what the subject is believed to hold (own maps: subj is already part of the history)
	regroup := func(to []string, uto []string) {
		up := c03fCloneCreate(cur, through, cur.Id)
		up.Kind = "UP"
		if g.r.chance(40) {
			up.Store = root
		}
		var chk []string
		all := g.r.chance(55)
		for n, sn := range sets {
			if all || n == 0 || g.r.chance(30) {
				up.S[sn] = append([]string{}, to...)
				chk = append(chk, sn)
			}
		}
		if uto != nil {
			for n, key := range upair {
				f := key[strings.Index(key, ".")+1:]
				up.F[f] = sp(uto[n])
				chk = append(chk, f)
			}
		}
		if g.r.chance(65) {
			up.HasChk, up.Checker = true, chk
		}
		if uto != nil {
			// both fields are (believed to be) handed over in one operation
			hc, ck := up.HasChk, up.Checker
			up.HasChk = false
			g.noteUnique(&up)
			up.HasChk, up.Checker = hc, ck
		}
		for _, sn := range chk {
			if l, ok := up.S[sn]; ok {
				g.sets[root][up.Id][sn] = append([]string{}, l...)
			}
		}
		one(up)
		for f, v := range up.F {
			if v != nil {
				cur.F[f] = sp(*v)
			}
		}
		for _, sn := range chk {
			if l, ok := up.S[sn]; ok {
				cur.S[sn] = append([]string{}, l...)
			}
		}
	}
	var uto []string
	if uniqueToo {
		uto = ugrp[1]
	}
	regroup(grp[1], uto)
	if g.r.chance(50) {
		// once more: a third grouping or back to the first; the unique pair goes back
		next := grp[0]
		if len(grp) > 2 && g.r.chance(60) {
			next = grp[2]
		}
		var back []string
		if uniqueToo && g.r.chance(50) {
			back = ugrp[0]
		}
		regroup(next, back)
	}
	forget := func(id string) {
		delete(g.alive[root], id)
		for _, m := range g.inChild {
			delete(m, id)
		}
		for _, m := range g.uniq {
			for v, holder := range m {
				if holder == id {
					delete(m, v)
				}
			}
		}
		delete(g.sets[root], id)
	}
	if g.r.chance(60) {
		one(hOp{Kind: "D", Store: fam[g.r.intn(len(fam))], Id: cur.Id})
		forget(cur.Id)
		if g.r.chance(60) {
			// the first grouping again, under the same id, through any store of the family
			re := c03fCloneCreate(subj, fam[g.r.intn(len(fam))], cur.Id)
			g.c03fFillOwn(&re)
			one(re)
			g.alive[root][re.Id] = true
			if g.w.store(re.Store).Parent != "" {
				if g.inChild[re.Store] == nil {
					g.inChild[re.Store] = map[string]bool{}
				}
				g.inChild[re.Store][re.Id] = true
			}
			g.noteUnique(&re)
			g.sets[root][re.Id] = map[string][]string{}
			for sn, l := range re.S {
				g.sets[root][re.Id][sn] = append([]string{}, l...)
			}
		}
	}
	for n := g.r.intn(4); n > 0; n-- {
		txs = append(txs, hTx{Ops: []hOp{g.warmOp()}})
	}
	return txs
}

// c03bShuffle permutes a list of string lists (Fisher-Yates on the harness rng)
func c03bShuffle(r *rng, xs [][]string) {
	for i := len(xs) - 1; i > 0; i-- {
		j := r.intn(i + 1)
		xs[i], xs[j] = xs[j], xs[i]
	}
}

// ---- hand-written histories (corpus/store/c03.txt) ---------------------------------------------------------------

// runC03bCorpus prints, for every bare-child wiring, the minimal legal history of both classes over one of the common
// separators: an entity is created through the (first) bare child store with one grouping of a<sep>b<sep>c as its string
// lists; a field-restricted update through that child store replaces them by the other grouping; a second entity takes the unique
// values and list members the first one does not hold (any more) through the child store; the first is deleted through
// the parent.
func runC03bCorpus(o *opts) error {
	for n, d := range c03bWirings {
		sep := c03bCommonSeps[n%len(c03bCommonSeps)]
		w := wiringByName(d.name)
		w.derive()
		var child string
		for _, s := range w.Stores {
			if s.Parent != "" && child == "" && len(s.Cons) == 0 {
				child = s.Name
			}
		}
		var txs []hTx
		for _, s := range w.Stores {
			if s.Parent == "" && s.Name != w.store(child).Parent {
				txs = append(txs, hTx{Ops: []hOp{{Kind: "C", Store: s.Name, Id: "o", F: map[string]*string{"title": sp("t")}, S: map[string][]string{"labels": {"l"}}}}})
			}
		}
		grp := c03bGroupings(c03bFrags[:3], sep, 2)
		_, sets := w.allFields(child)
		mk := func(id, name string, l []string) hOp {
			op := hOp{Kind: "C", Store: child, Id: id, F: map[string]*string{"name": sp(name), "nick": sp(name + sep + "n")}, S: map[string][]string{}}
			for _, f := range w.store(child).Fields {
				op.F[f.Name] = sp("f")
			}
			for _, dcl := range w.Script {
				if dcl.Kind == "fkindexcascade" {
					op.F[dcl.Field] = sp("o")
				}
			}
			for _, sn := range sets {
				op.S[sn] = append([]string{}, l...)
			}
			return op
		}
		a := mk("a", grp[0][0], grp[0])
		txs = append(txs, hTx{Ops: []hOp{a}})
		up := c03fCloneCreate(a, child, "a")
		up.Kind, up.HasChk = "UP", true
		for _, sn := range sets {
			up.S[sn] = append([]string{}, grp[1]...)
			up.Checker = append(up.Checker, sn)
		}
		txs = append(txs, hTx{Ops: []hOp{up}})
		txs = append(txs, hTx{Ops: []hOp{mk("b", grp[1][0], []string{grp[0][0], grp[1][1]})}})
		txs = append(txs, hTx{Ops: []hOp{{Kind: "D", Store: w.store(child).Parent, Id: "a"}}})
		var sb strings.Builder
		sb.WriteString("WIRING " + w.Name)
		for k := range txs {
			sb.WriteString(" ")
			sb.WriteString(w.txText(&txs[k]))
		}
		fmt.Println(sb.String())
	}
	return nil
}
