package main

import (
	"fmt"
	"math"
	"strconv"
)

// C01 - literal syntax and number -> string coercion.
//
// Two input classes the operator sweep and the random generator did not reach:
//   - string literals whose body needs the escape rules of the grammar (ESC = '\' ["\fnrt]) at the start, at the
//     end, in the middle, alone and doubled, compared with stored values that contain the same characters;
//   - number literals of every lexical form the NUMBER token admits (fraction, exponent, integers beyond int64)
//     and every magnitude, in every position where the documented int64/float64 -> string conversion applies
//     (contains / not contains on any symbol; = != < <= > >= in / not in against string symbols, string sets,
//     fk symbols, any-typed map elements holding strings), together with stored floats of the same magnitudes
//     read through the string view (FieldToString, Float64SymbolNode.EvalString).
//
// The expected answer comes from the model: string literals travel as their intended bytes (the harness owns
// the encoder c01Escape), numbers as the float64 bits strconv.ParseFloat produced, and the coercion itself is
// the modelled positional formatter Ast/FmtFloat.v (compared with strconv.FormatFloat on the F lines below).

// strings built from the characters the escape rules are about (no other control characters: the grammar has
// no way to write them)
var c01EscStrings = []string{`"`, `""`, `"hi"`, `say "hi"`, `say "hi\`, `"hi`, `hi"`, `hi`, `"hi\`, `"a`, `a"`, `\`, `a\`, `\a`, `\"`, `"\`,
	`a\"`, `\\`, "\n", "a\nb", `\n`, `a\nb`, "\t", "\ta", `\t`, "\r", "a\f", `x\"y`, `n`, `\\"`}

// number literal texts: small / large magnitudes, exponent forms, integers that do not fit int64, values whose
// shortest decimal form needs 16-17 digits, non-canonical spellings of ordinary values
var c01ExtremeNumLits = []string{"0.00001", "1e-5", "2.5e-7", "0.00009", "0.0001", "-1e-5", "1e20", "1e21", "1.5e21", "1e+22", "-1e21",
	"123456789012345678901234567890", "9223372036854775808", "-9223372036854775809", "99999999999999999999", "1e300", "1.7976931348623157e308",
	"5e-324", "2.2250738585072014e-308", "0.1", "1e-1", "100e-2", "12.50", "4.25", "0.30000000000000004", "1e15", "1e16", "123456789.125", "1.0e0",
	"1E3", "-0.0", "0.000001", "1e-7", "9007199254740993.0", "1e19"}

// the subset used by the bounded-exhaustive coercion sweep
var c01CoerceSweepNumLits = []string{"1e-5", "0.00009", "2.5e-7", "-1e-5", "1e21", "1.5e21", "99999999999999999999", "9223372036854775808",
	"-9223372036854775809", "1e300", "5e-324", "0.1", "12.50", "1E3"}

var c01ExtremeInts = []int64{9223372036854775807, -9223372036854775808, 9007199254740993, 1000000000000000000, -3, 0, 42}

func c01MustFloat(txt string) float64 {
	f, err := strconv.ParseFloat(txt, 64)
	if err != nil {
		panic("bad float literal " + txt)
	}
	return f
}

// c01NumberStrings: for every number the spellings a reader could expect its text to be: plain positional
// notation, the shortest 'g' / 'e' forms, fmt's %v, and the literal's own text.  Stored as string values, they
// make a wrong choice of notation visible as an omitted AND as a wrongly returned entity.
func c01NumberStrings(lits []string, ints []int64) []string {
	var out []string
	for _, txt := range lits {
		v := c01MustFloat(txt)
		out = append(out, strconv.FormatFloat(v, 'f', -1, 64), strconv.FormatFloat(v, 'g', -1, 64), strconv.FormatFloat(v, 'e', -1, 64),
			fmt.Sprint(v), txt)
	}
	for _, i := range ints {
		out = append(out, strconv.FormatInt(i, 10), fmt.Sprint(float64(i)), strconv.FormatFloat(float64(i), 'f', -1, 64))
	}
	return c01SortDedup(out)
}

func c01ExtremeFloatValues() []float64 {
	var out []float64
	for _, txt := range c01ExtremeNumLits {
		out = append(out, c01MustFloat(txt))
	}
	return out
}

var c01CoercePoolCache []string

// c01CoercePool: stored strings for the random datasets (escape characters + number spellings)
func c01CoercePool() []string {
	if c01CoercePoolCache == nil {
		c01CoercePoolCache = c01SortDedup(append(append([]string{}, c01EscStrings...), c01NumberStrings(c01ExtremeNumLits, c01ExtremeInts)...))
	}
	return c01CoercePoolCache
}

func c01IsEscString(s string) bool {
	for i := 0; i < len(s); i++ {
		if s[i] == '"' || s[i] == '\\' || s[i] < 0x20 {
			return true
		}
	}
	return false
}

// ---- F lines: the modelled formatter against strconv.FormatFloat ---------------------------------------

func (r *c01Runner) fmtLine(v float64) {
	r.cases.line("F %016x", math.Float64bits(v))
	r.impl.line("F %s", hxs(strconv.FormatFloat(v, 'f', -1, 64)))
}

func c01FmtLines(r *c01Runner, g *c01Gen, nrandom int) int {
	n := 0
	emit := func(v float64) {
		r.fmtLine(v)
		n++
	}
	for _, v := range c01ExtremeFloatValues() {
		emit(v)
		emit(-v)
	}
	for _, v := range c01Floats {
		emit(v)
	}
	for _, i := range c01Ints {
		emit(float64(i))
	}
	for e := -30; e <= 30; e++ { // powers of ten and their neighbours
		v := c01MustFloat("1e" + strconv.Itoa(e))
		emit(v)
		emit(math.Nextafter(v, 0))
		emit(math.Nextafter(v, math.Inf(1)))
	}
	for _, e := range []int{-1074, -1073, -1023, -1022, -1021, -500, -60, -14, -13, -1, 0, 1, 52, 53, 54, 63, 64, 69, 70, 100, 500, 1022, 1023} {
		v := math.Ldexp(1, e) // powers of two: the gap below is half the gap above
		emit(v)
		emit(math.Nextafter(v, 0))
		emit(math.Nextafter(v, math.Inf(1)))
	}
	for i := 0; i < nrandom/8+8; i++ { // two shortest candidates equally close: x.25 / x.75 with ulp 1/4 or 1/8
		m := float64(uint64(1)<<49 + g.r.next()&(1<<51-1-1<<49))
		emit(m + 0.25)
		emit(-(m + 0.75))
	}
	for i := 0; i < nrandom; i++ {
		var bits uint64
		switch i % 4 {
		case 0: // any bit pattern
			bits = g.r.next()
		case 1: // moderate exponents
			bits = (g.r.next() & (1<<52 - 1)) | uint64(1023-70+g.r.intn(140))<<52 | uint64(g.r.intn(2))<<63
		case 2: // few significant digits: d * 10^k
			v := c01MustFloat(strconv.Itoa(1+g.r.intn(9999)) + "e" + strconv.Itoa(g.r.intn(60)-30))
			bits = math.Float64bits(v)
		default: // subnormals and the smallest normals
			bits = g.r.next() & (1<<54 - 1)
		}
		emit(math.Float64frombits(bits))
	}
	return n
}

// ---- the coercion sweep ----------------------------------------------------------------------------------

// c01CoerceDataset: every string of the pool is the value of a string field, of an any-typed map element and an
// element of each kind of string set; float / int fields hold the numbers themselves
func c01CoerceDataset() *c01Dataset {
	// "" is in the pool: the one stored string whose bytes are empty (a field value, a set element, a tag value)
	pool := c01SortDedup(append(append([]string{""}, c01EscStrings...), c01NumberStrings(c01CoerceSweepNumLits, c01ExtremeInts[:3])...))
	var floats []float64
	for _, txt := range c01CoerceSweepNumLits {
		floats = append(floats, c01MustFloat(txt))
	}
	floats = append(floats, 4.25, 1e22, 0.30000000000000004, math.NaN(), math.Inf(-1), 1e-7)
	const people = 30
	at := func(k int) string { return pool[k%len(pool)] }
	d := &c01Dataset{stores: make([][]c01Entity, c01Roots)}
	placeIds := []string{"l0", "l1", "l2", "l3"}
	for i := 0; i < people; i++ {
		e := c01Entity{id: fmt.Sprintf("c%02d", i)}
		add := func(v c01Val, path ...string) { e.fields = append(e.fields, c01Field{path: path, v: v}) }
		if i != 7 { // one entity without scalar fields
			add(c01Val{k: 's', s: at(i)}, "name")
			add(c01Val{k: 's', s: at(i + people)}, "nickname")
			add(c01Val{k: 'f', f: floats[i%len(floats)]}, "score")
			add(c01Val{k: 'f', f: floats[(i+7)%len(floats)]}, "whole")
			add(c01Val{k: 'i', i: c01ExtremeInts[i%len(c01ExtremeInts)]}, "big")
			add(c01Val{k: 'w', i: int64(i - 3)}, "age")
			add(c01Val{k: 's', s: placeIds[i%len(placeIds)]}, "place")
			if i%3 == 0 {
				add(c01Val{k: 'f', f: floats[(i/3)%len(floats)]}, "ext", "tags", "a")
			} else {
				add(c01Val{k: 's', s: at(i + 2*people)}, "ext", "tags", "a")
			}
			if i%2 == 0 {
				add(c01Val{k: 'f', f: floats[(i/2+3)%len(floats)]}, "ext", "tags", "b")
			} else {
				add(c01Val{k: 'i', i: c01ExtremeInts[(i/2)%len(c01ExtremeInts)]}, "ext", "tags", "b")
			}
		}
		if i != 11 { // one entity without sets
			e.sets = append(e.sets, c01Set{key: "strs", elems: c01SortDedup([]string{at(i), at(i + people), at(i + 2*people)})})
			e.sets = append(e.sets, c01Set{key: "roles", elems: c01SortDedup([]string{at(i + 1), at(i + 2*people + 1)})})
			e.sets = append(e.sets, c01Set{key: "nums", elems: c01SortDedup([]string{at(3 * i), at(3*i + 1), at(3*i + 2)})})
			e.sets = append(e.sets, c01Set{key: "places", elems: c01SortDedup([]string{placeIds[i%4], placeIds[(i+1)%4]})})
			e.sets = append(e.sets, c01Set{key: "friends", elems: c01SortDedup([]string{fmt.Sprintf("c%02d", (i+1)%people), fmt.Sprintf("c%02d", (i+13)%people)})})
		}
		d.stores[0] = append(d.stores[0], e)
	}
	for i, id := range placeIds {
		e := c01Entity{id: id}
		if i != 3 {
			e.fields = append(e.fields, c01Field{path: []string{"name"}, v: c01Val{k: 's', s: at(5*i + 2)}})
		}
		e.sets = append(e.sets, c01Set{key: "biz", elems: c01SortDedup([]string{at(7 * i), at(7*i + 40)})})
		d.stores[1] = append(d.stores[1], e)
	}
	return d
}

// c01SweepCoerce: every coercion position x every operator x (number literals of every form and magnitude, int
// boundaries, string literals that need escapes, string literals spelling numbers) + in / not in arrays of them
func c01SweepCoerce(r *c01Runner, dotted bool) int {
	if err := r.loadDataset(c01CoerceDataset()); err != nil {
		panic(err)
	}
	n := 0
	run := func(f *c01Filter) {
		r.runFilter(0, &c01Filter{k: "q", a: f})
		n++
	}
	var lhss []*c01Lhs
	for _, nme := range []string{"id", "name", "nick", "nothing", "place", "age", "big", "score", "whole", "tags.a", "tags.b", "tags.zz"} {
		lhss = append(lhss, &c01Lhs{k: "sym", name: nme})
	}
	for _, nme := range []string{"strs", "roles", "nums"} {
		lhss = append(lhss, &c01Lhs{k: "all", name: nme}, &c01Lhs{k: "any", name: nme})
	}
	if dotted {
		lhss = append(lhss, &c01Lhs{k: "sym", name: "place.name"}, &c01Lhs{k: "any", name: "places.name"}, &c01Lhs{k: "all", name: "places.biz"},
			&c01Lhs{k: "any", name: "friends.name"}, &c01Lhs{k: "any", name: "friends.tags.b"}, &c01Lhs{k: "all", name: "friends.whole"})
	}
	var lits []*c01Lit
	for _, txt := range c01CoerceSweepNumLits {
		lits = append(lits, &c01Lit{k: 'F', ftxt: txt})
	}
	for _, i := range c01ExtremeInts[:3] {
		lits = append(lits, &c01Lit{k: 'I', i: i})
	}
	for _, s := range c01EscStrings {
		lits = append(lits, &c01Lit{k: 'S', s: s})
	}
	for _, s := range []string{"0.00001", "1e-05", "1e+21", "1000000000000000000000", "e", ".", "000", "-", ""} {
		lits = append(lits, &c01Lit{k: 'S', s: s})
	}
	ops := append(append([]string{}, c01CmpOps...), c01StrOps...)
	for _, l := range lhss {
		for _, op := range ops {
			for _, lit := range lits {
				if lit.k != 'S' && (op == "icontains" || op == "nicontains") && lit != lits[0] {
					continue // the grammar has ICONTAINS STRING only: one rejected instance per lhs is enough
				}
				run(&c01Filter{k: "bin", lhs: l, op: op, lit: lit})
			}
		}
		arrs := []struct {
			k   string
			arr []*c01Lit
		}{
			{"AS", []*c01Lit{{k: 'S', s: `say "hi"`}, {k: 'S', s: `\`}, {k: 'S', s: `a"`}}},
			{"AS", []*c01Lit{{k: 'S', s: `"`}, {k: 'S', s: "a\nb"}, {k: 'S', s: ""}}},
			{"AS", []*c01Lit{{k: 'S', s: "1e-05"}, {k: 'S', s: "1000000000000000000000"}, {k: 'S', s: `"hi"`}}},
			{"AN", []*c01Lit{{k: 'F', ftxt: "1e-5"}, {k: 'F', ftxt: "1e21"}}},
			{"AN", []*c01Lit{{k: 'I', i: 42}, {k: 'F', ftxt: "99999999999999999999"}, {k: 'F', ftxt: "2.5e-7"}}},
			{"AN", []*c01Lit{{k: 'F', ftxt: "9223372036854775808"}, {k: 'I', i: 9223372036854775807}, {k: 'F', ftxt: "0.1"}}},
			{"AN", []*c01Lit{{k: 'F', ftxt: "-1e-5"}, {k: 'F', ftxt: "1e300"}, {k: 'F', ftxt: "12.50"}}},
		}
		for _, a := range arrs {
			for _, neg := range []bool{false, true} {
				run(&c01Filter{k: "in", lhs: l, neg: neg, arrK: a.k, arr: a.arr})
			}
		}
	}
	return n
}
