package main

import (
	"math"
	"strconv"

	"github.com/openziti/storage/boltz"
)

// C19 (and, through c19LongEmitC02, C02) - sort specifications LONGER than boltz.SortMax (= 5) fields.
//
// The bolt-backed store consults SortMax only to choose the scanner (NewScanner looks at the first
// field of sort[:SortMax]); the comparator of its sorting scanner (BaseStore.newRowComparator) is built
// from ALL the fields of the specification plus the implicit `id asc`.  The object store always sorts
// and builds its comparator from all the fields too.  A later field of a long specification is
// observable only when at least two matching rows tie on every earlier field and the later field
// orders them differently from the id order - which the random collections (values drawn
// independently per row and column) essentially never provide for five or more distinct fields.
//
// This file builds collections made of TIE BLOCKS: the rows of a block agree on a set of "tie"
// columns (including null cells, as explicit nil or as absent field) and differ on the remaining
// "free" columns, whose values are arranged against the id order.  Specifications are then built
// against the collection: k tying fields (k = 1..11; with repeated fields and mixed directions when k
// exceeds the number of tie columns), then a deciding tail (a free column in either direction, `id
// desc`, `id` followed by fields that must be dead, a free column with ties followed by another one)
// and optionally further fields.  Besides, every collection of the C19 stream gets a few random long
// specifications whose first fields are drawn from one to three low-cardinality columns.

type c19LongSet struct {
	d    *qDataset
	tie  []int // all rows of a block agree on these columns
	free []int // the other columns
}

// c19LongFixedSet does not depend on the seed.  Twelve rows, three blocks interleaved in id order
// (row i belongs to block i mod 3).  Tie columns fs fi ff fb ft grp; the blocks differ from block 0 in
// one tie column only (block 1 in ft, by one nanosecond; block 2 in fb, which is null - explicit nil
// or absent), so that a prefix without that column ties across blocks as well.  Free columns:
//
//	fj    block 0: strictly descending against the id order; block 1: shuffled with one tie (5, 5);
//	      block 2: two nulls (nil / absent) and two values
//	keep  orders the rows that tie on fj against the id order when sorted descending
func c19LongFixedSet() *c19LongSet {
	S := func(v string) qCell { return qCell{kind: 'S', s: v} }
	I := func(v int64) qCell { return qCell{kind: 'I', i: v} }
	J := func(v int64) qCell { return qCell{kind: 'I', i: v, as32: true} }
	F := func(v float64) qCell { return qCell{kind: 'F', f: math.Float64bits(v)} }
	B := func(v bool) qCell { return qCell{kind: 'B', b: v} }
	T := func(sec, nsec int64) qCell { return qCell{kind: 'T', sec: sec, nsec: nsec} }
	N := qCell{kind: 'N'}
	NA := qCell{kind: 'N', absent: true}
	fj := []qCell{J(40), J(5), N, J(30), J(math.MaxInt32), J(0), J(20), J(math.MinInt32), NA, J(10), J(5), J(-1)}
	keep := []qCell{B(true), B(false), B(false), B(false), N, B(true), B(true), B(true), B(true), B(false), B(true), NA}
	d := &qDataset{}
	for i, id := range c19xIds(12) {
		cells := make([]qCell, len(qCols))
		cells[qColFs], cells[qColFi], cells[qColFf], cells[qColGrp] = S("ab"), I(7), F(1.5), I(1)
		cells[qColFb], cells[qColFt] = B(true), T(100, 5)
		switch i % 3 {
		case 1:
			cells[qColFt] = T(100, 4)
		case 2:
			cells[qColFb] = N
			if i%2 == 1 {
				cells[qColFb] = NA
			}
		}
		cells[qColFj], cells[qColKeep] = fj[i], keep[i]
		d.rows = append(d.rows, qRow{id: id, cells: cells})
	}
	return &c19LongSet{d: d, tie: []int{qColFs, qColFi, qColFf, qColFb, qColFt, qColGrp}, free: []int{qColFj, qColKeep}}
}

// c19LongGenSet: 4..12 rows in 1..3 blocks, a random set of 1..7 tie columns; every cell comes from the
// ordinary generator (c02.go pools: ties among the free columns are frequent too)
func c19LongGenSet(r *rng) *c19LongSet {
	n := 4 + r.intn(9)
	g := 1 + r.intn(3)
	base := qGenDataset(r, n, false)
	proto := qGenDataset(r, g, false)
	set := &c19LongSet{d: base}
	for _, c := range qShuffled(r, len(qCols)) {
		if len(set.tie) == 0 || (len(set.tie) < 7 && r.chance(65)) {
			set.tie = append(set.tie, c)
		} else {
			set.free = append(set.free, c)
		}
	}
	if len(set.free) == 0 {
		set.free, set.tie = set.tie[:1], set.tie[1:]
	}
	for i := range base.rows {
		block := r.intn(g)
		if i < g {
			block = i // every block is inhabited
		}
		for _, c := range set.tie {
			cell := proto.rows[block].cells[c]
			if cell.kind == 'N' {
				cell.absent = r.chance(50) // both representations of null tie
			}
			base.rows[i].cells[c] = cell
		}
	}
	return set
}

func c19LongField(r *rng, col int) qSortField {
	return qSortField{col: col, asc: r.chance(50), spell: r.intn(3)}
}

// c19LongPrefix: k fields over the tie columns, starting at column `start`, every third one descending
func c19LongPrefix(set *c19LongSet, k, start int) []qSortField {
	var fs []qSortField
	for j := 0; j < k; j++ {
		fs = append(fs, qSortField{col: set.tie[(start+j)%len(set.tie)], asc: (start+j)%3 != 0, spell: j % 3})
	}
	return fs
}

// c19LongTails: the deciding ends of a specification for a collection whose first two free columns are a, b
func c19LongTails(a, b int) [][]qSortField {
	return [][]qSortField{
		{{col: a, asc: true, spell: 2}},
		{{col: a, asc: false}},
		{{col: b, asc: false, spell: 1}},
		{{col: -1, asc: false}},
		{{col: a, asc: true}, {col: b, asc: false}},
		{{col: a, asc: false, spell: 1}, {col: -1, asc: false}},
		{{col: -1, asc: false, spell: 1}, {col: a, asc: true, spell: 1}, {col: b, asc: true, spell: 2}}, // id in the middle: the rest is dead
	}
}

// c19LongSystematic: k tying fields for every k in 1..11 x every tail (2..14 fields), and `id` inside /
// in front of the first five fields followed by more than five fields in total
func c19LongSystematic(set *c19LongSet) [][]qSortField {
	a := set.free[0]
	b := set.free[len(set.free)-1]
	var out [][]qSortField
	for k := 1; k <= 11; k++ {
		for ti, tail := range c19LongTails(a, b) {
			out = append(out, append(c19LongPrefix(set, k, k+ti), tail...))
		}
	}
	for _, k := range []int{0, 2, 4} {
		for _, asc := range []bool{true, false} {
			fs := append(c19LongPrefix(set, k, 1), qSortField{col: -1, asc: asc})
			fs = append(fs, qSortField{col: a, asc: false}, qSortField{col: b, asc: true, spell: 2})
			fs = append(fs, c19LongPrefix(set, 3, 2)...)
			out = append(out, fs)
		}
	}
	return out
}

// c19LongSpec: a random specification built against the tie structure of the collection
func c19LongSpec(r *rng, set *c19LongSet) []qSortField {
	k := 5 + r.intn(7)
	if r.chance(20) {
		k = 1 + r.intn(4)
	}
	var fs []qSortField
	for j := 0; j < k; j++ {
		fs = append(fs, c19LongField(r, set.tie[r.intn(len(set.tie))]))
	}
	for j := 1 + r.intn(3); j > 0; j-- {
		if r.chance(20) {
			fs = append(fs, qSortField{col: -1, asc: r.chance(25), spell: r.intn(3)})
		} else {
			fs = append(fs, c19LongField(r, set.free[r.intn(len(set.free))]))
		}
	}
	for j := r.intn(3); j > 0; j-- {
		fs = append(fs, c19LongField(r, r.intn(len(qCols)+1)-1))
	}
	return fs
}

// c19LongRandomSort: 6..12 fields for a collection without known tie structure: the leading fields
// repeat one to three columns (mostly the low-cardinality ones), the last one or two are arbitrary
func c19LongRandomSort(r *rng) []qSortField {
	length := 6 + r.intn(7)
	low := []int{qColGrp, qColFb, qColKeep, qColGrp}
	var basis []int
	for j := 1 + r.intn(3); j > 0; j-- {
		if r.chance(70) {
			basis = append(basis, low[r.intn(len(low))])
		} else {
			basis = append(basis, r.intn(len(qCols)))
		}
	}
	tail := 1 + r.intn(2)
	var fs []qSortField
	for j := 0; j < length-tail; j++ {
		fs = append(fs, c19LongField(r, basis[r.intn(len(basis))]))
	}
	for j := 0; j < tail; j++ {
		col := r.intn(len(qCols)+1) - 1
		f := c19LongField(r, col)
		if col < 0 {
			f.asc = r.chance(25)
		}
		fs = append(fs, f)
	}
	return fs
}

// c19LongPages: unpaged and page cuts inside / at the end of a tie block
func c19LongPages(n int64) []qPaging {
	return []qPaging{{}, {skip: qI64p(1), limit: qI64p(n / 2)}, {skip: qI64p(n / 2)}, {limit: qI64p(3)}}
}

// c19LongEmitC19 appends the tie-block collections to the C19 stream
func c19LongEmitC19(r *rng, nRandom int, begin func(d *qDataset) error, emit func(f *sfNode, fs []qSortField, pg qPaging)) error {
	for k := 0; k <= nRandom; k++ {
		set := c19LongFixedSet()
		if k > 0 {
			set = c19LongGenSet(r)
		}
		if err := begin(set.d); err != nil {
			return err
		}
		n := int64(len(set.d.rows))
		pages := c19LongPages(n)
		grid := qPagingGrid(n)
		filter := func() *sfNode {
			switch r.intn(6) {
			case 0:
				return &sfNode{kind: "null", col: set.free[r.intn(len(set.free))], neg: true}
			case 1:
				return sfRandom(r, 2)
			}
			return &sfNode{kind: "T"}
		}
		if k == 0 {
			for _, fs := range c19LongSystematic(set) {
				for _, pg := range pages {
					emit(&sfNode{kind: "T"}, fs, pg)
				}
			}
		}
		for s := 0; s < 24; s++ {
			fs := c19LongSpec(r, set)
			f := filter()
			for _, pg := range pages[:3] {
				emit(f, fs, pg)
			}
			emit(f, fs, grid[r.intn(len(grid))])
		}
	}
	return nil
}

// c19LongEmitPerCollection: a few random long specifications on a collection of the ordinary streams
func c19LongEmitPerCollection(r *rng, n int, emit func(f *sfNode, fs []qSortField, pg qPaging)) {
	grid := qPagingGrid(int64(n))
	for s := 0; s < 6; s++ {
		fs := c19LongRandomSort(r)
		emit(&sfNode{kind: "T"}, fs, qPaging{})
		emit(&sfNode{kind: "T"}, fs, qPaging{skip: qI64p(1), limit: qI64p(int64(n) / 2)})
		emit(sfRandom(r, 1), fs, grid[r.intn(len(grid))])
	}
}

// c19LongEmitC02 appends the tie-block collections to the C02 stream (bolt store only: the comparator of
// the sorting scanner is not cut to SortMax fields, the choice of the scanner looks at the first field).
// It draws from its own random stream: the cases in front of it are what they were.
func c19LongEmitC02(o *opts, qb *qBolt, cases, impl *lineWriter, bump func(group, key string),
	emit func(d *qDataset, store boltz.ConfigurableStore, kind string, q *qQuery)) error {
	r := qRng(o.seed, 0xC0219)
	nRandom := 1
	if o.thorough() {
		nRandom = 12
	}
	for k := 0; k <= nRandom; k++ {
		set := c19LongFixedSet()
		if k > 0 {
			set = c19LongGenSet(r)
		}
		d := set.d
		store, err := qb.load(d)
		if err != nil {
			return err
		}
		cases.line("%s", d.line())
		impl.line("D")
		bump("rows", strconv.Itoa(len(d.rows)))
		n := int64(len(d.rows))
		pages := c19LongPages(n)
		grid := qPagingGrid(n)
		filter := func() int {
			if r.chance(30) {
				return r.intn(len(qFilters))
			}
			return 0
		}
		if k == 0 {
			for _, fs := range c19LongSystematic(set) {
				for _, pg := range pages[:2] {
					emit(d, store, "Q", &qQuery{filter: 0, sort: fs, skip: pg.skip, limit: pg.limit, none: pg.none})
				}
			}
		}
		for s := 0; s < 20; s++ {
			fs := c19LongSpec(r, set)
			f := filter()
			for _, pg := range []qPaging{pages[0], pages[1], grid[r.intn(len(grid))]} {
				emit(d, store, "Q", &qQuery{filter: f, sort: fs, skip: pg.skip, limit: pg.limit, none: pg.none})
			}
		}
	}
	return nil
}
