package main

// C07, fourth strengthening (seeded change C07-w3-1): pre-commit actions and commit actions registered through contexts
// DERIVED from the transaction's context, at any position of the function handed to Db.Update / Db.Batch, the
// transaction being opened with a plain context, a system context or nil.  Model: coq/theories/Store/TxCtx.v
// (ctx_update), theorems Properties/C07Ctx.v; design/C07.md section 8.
//
// Additive tokens (pseudo vetoes, i.e. entries of a transaction's veto list whose store starts with '@'; every other
// store-family check ignores them because no store has such a name):
//
//	@c07pc C <hex of "<site>:<path>:<kind>">     one registration; several per transaction, in token order
//	    site   pre      on the context object before Db.Update / Db.Batch is called (only the derivations s n u exist
//	                    there; with "@c07open nil" there is no such object: the registration happens at site 0)
//	           <k>      inside the function, right before operation k (0-based; k >= number of operations: after the last)
//	    path   derivation of the context the action is registered on, starting from the context the function received
//	           (site pre: from the context object), applied left to right; "-" = that context itself
//	             s  c.GetSystemContext()                  (a fresh wrapper per call unless c is a system context)
//	             n  boltz.NewSystemMutateContext(c)
//	             u  c.UpdateContext(func(context.Context) context.Context)     (what the call returns)
//	             U  db.Update(c, func(c2) ..)  the nested call joins the running transaction; goes on with c2
//	             B  db.Batch(c, func(c2) ..)   likewise
//	             x  boltz.NewTxMutateContext(c.Context(), c.Tx())   a NEW context object around the same transaction
//	    kind   f  AddPreCommitAction of an action that returns an error
//	           o  AddPreCommitAction of an action that returns nil
//	           c  AddCommitAction
//	@c07open C <hex of "nil" | "plain">
//	    nil    Db.Update(nil, ..): DbImpl builds the context itself
//	    plain  the transaction is opened with the plain context even when its operations need a system context
//	    (absent: as the shared harness does - plain context, or its GetSystemContext() for a system transaction);
//	    whenever the function receives a context that is not a system context although the transaction is one, the
//	    operations are issued through ONE ctx.GetSystemContext() derived at the start of the function.
//
// The transaction's own PreCommitErr flag keeps its meaning: a failing action registered on the context object right
// before Db.Update / Db.Batch is called (site pre, path -).
//
// Observation token (between the commit flag and " ST"): CA-AFTER-ROLLBACK:<n> - n commit actions registered through
// "c" registrations ran although Db.Update / Db.Batch returned an error.

import (
	"context"
	"fmt"
	"runtime"
	"sort"
	"strconv"
	"strings"
	"sync/atomic"
	"time"

	"github.com/openziti/storage/boltz"
	"github.com/pkg/errors"
)

const c07CtxRegVeto = "@c07pc"
const c07CtxOpenVeto = "@c07open"

type c07CtxReg struct {
	site int // -1 = before the transaction
	path string
	kind byte
}

type c07CtxKey struct{}

func c07CtxParse(t *hTx) (regs []c07CtxReg, open string, has bool) {
	for _, v := range t.Vetoes {
		switch v.Store {
		case c07CtxOpenVeto:
			open, has = v.Id, true
		case c07CtxRegVeto:
			parts := strings.Split(v.Id, ":")
			if len(parts) != 3 || len(parts[2]) != 1 {
				continue
			}
			r := c07CtxReg{site: -1, path: parts[1], kind: parts[2][0]}
			if r.path == "-" {
				r.path = ""
			}
			if parts[0] != "pre" {
				k, err := strconv.Atoi(parts[0])
				if err != nil || k < 0 {
					continue
				}
				r.site = k
			}
			regs = append(regs, r)
			has = true
		}
	}
	return
}

func c07CtxRegText(site int, path string, kind byte) hVeto {
	s := "pre"
	if site >= 0 {
		s = strconv.Itoa(site)
	}
	if path == "" {
		path = "-"
	}
	return hVeto{Store: c07CtxRegVeto, Change: "C", Id: fmt.Sprintf("%s:%s:%c", s, path, kind)}
}

// c07CtxDerive walks the derivation and calls f with the derived context (inside the nested calls of the path)
func c07CtxDerive(h *harnessDb, c boltz.MutateContext, path string, inTx bool, f func(boltz.MutateContext)) error {
	if path == "" {
		f(c)
		return nil
	}
	rest := path[1:]
	switch path[0] {
	case 's':
		return c07CtxDerive(h, c.GetSystemContext(), rest, inTx, f)
	case 'n':
		return c07CtxDerive(h, boltz.NewSystemMutateContext(c), rest, inTx, f)
	case 'u':
		c2 := c.UpdateContext(func(cx context.Context) context.Context { return context.WithValue(cx, c07CtxKey{}, len(rest)) })
		return c07CtxDerive(h, c2, rest, inTx, f)
	case 'U', 'B':
		if !inTx || c.Tx() == nil { // no transaction to join: not a derivation
			return c07CtxDerive(h, c, rest, inTx, f)
		}
		run := h.db.Update
		if path[0] == 'B' {
			run = h.db.Batch
		}
		return run(c, func(c2 boltz.MutateContext) error { return c07CtxDerive(h, c2, rest, inTx, f) })
	case 'x':
		if !inTx || c.Tx() == nil {
			return c07CtxDerive(h, c, rest, inTx, f)
		}
		return c07CtxDerive(h, boltz.NewTxMutateContext(c.Context(), c.Tx()), rest, inTx, f)
	}
	return c07CtxDerive(h, c, rest, inTx, f)
}

// c07CtxRunTx: the shared harnessDb.runTx with the registrations of the transaction's context program
func c07CtxRunTx(h *harnessDb, t *hTx) string {
	regs, open, _ := c07CtxParse(t)
	pn, _ := c07PnParse(t) // store_c07_panic.go
	h.mu.Lock()
	h.vetoes = map[string]bool{}
	for _, v := range t.Vetoes {
		h.vetoes[v.Store+"/"+v.Change+"/"+v.Id] = true
	}
	h.events = nil
	h.raised = 0
	h.mu.Unlock()

	nilOpen := open == "nil"
	var base, opened boltz.MutateContext
	if !nilOpen {
		base = boltz.NewMutateContext(context.Background())
		opened = base
		if t.Sys && open == "" {
			opened = base.GetSystemContext()
		}
	}
	run := h.db.Update
	for _, v := range t.Vetoes {
		if v.Store == "@batch" {
			run = h.db.Batch
		}
	}
	var commitRuns atomic.Int32
	hasCommitReg := false
	failing := func(boltz.MutateContext) error { return errors.New("pre-commit action failed") }
	succeeding := func(boltz.MutateContext) error { return nil }
	register := func(kind byte) func(boltz.MutateContext) {
		return func(c boltz.MutateContext) {
			switch kind {
			case 'f':
				c.AddPreCommitAction(failing)
			case 'o':
				c.AddPreCommitAction(succeeding)
			case 'c':
				c.AddCommitAction(func() { commitRuns.Add(1) })
			case 'p':
				c.AddPreCommitAction(c07PnPanickingAction)
			}
		}
	}
	for _, r := range regs {
		if r.kind == 'c' {
			hasCommitReg = true
		}
	}
	if !nilOpen {
		if t.PreCommitErr {
			opened.AddPreCommitAction(failing)
		}
		for _, r := range regs {
			if r.site < 0 {
				_ = c07CtxDerive(h, base, r.path, false, register(r.kind))
			}
		}
	}
	var results []string
	body := func(ctx boltz.MutateContext) error {
		results = nil // bbolt's Batch re-runs a failing function on its own
		opCtx := ctx
		if t.Sys && !ctx.IsSystemContext() {
			opCtx = ctx.GetSystemContext()
		}
		if nilOpen && t.PreCommitErr {
			ctx.AddPreCommitAction(failing)
		}
		n := len(t.Ops)
		for i := 0; i <= n; i++ {
			for _, r := range regs {
				site := r.site
				if site < 0 {
					if !nilOpen {
						continue
					}
					site = 0
				}
				if site == i || (i == n && site > n) {
					if e := c07CtxDerive(h, ctx, r.path, true, register(r.kind)); e != nil {
						return e
					}
				}
			}
			if i < n {
				// a panic is recorded as the operation's result ("panic") and re-raised (store_c07_panic.go)
				e := c07PnExecOp(h, opCtx, t, i, &pn, &results)
				results = append(results, classify(e))
				if e != nil {
					return e
				}
			}
		}
		return nil
	}
	// the call is made the way a caller that survives a panic makes it: the recover is OUTSIDE the library
	err, panicked := c07PnCall(func() error { return run(opened, body) })
	var sb strings.Builder
	sb.WriteString("TX R")
	for _, r := range results {
		sb.WriteString(" " + r)
	}
	if err == nil {
		sb.WriteString(" COMMIT")
	} else {
		sb.WriteString(" ROLLBACK") // the caller did not receive nil
		if panicked {
			sb.WriteString(" PANICKED")
		}
		if hasCommitReg {
			// handleCommit starts its goroutine from bbolt's commit hook, i.e. before Update / Batch returns
			for i := 0; i < 4; i++ {
				runtime.Gosched()
			}
			time.Sleep(300 * time.Microsecond)
			if n := commitRuns.Load(); n > 0 {
				sb.WriteString(fmt.Sprintf(" CA-AFTER-ROLLBACK:%d", n))
			}
		}
	}
	h.mu.Lock()
	evs := append([]string{}, h.events...)
	if h.raised > 0 {
		sb.WriteString(" VETOED")
	}
	h.mu.Unlock()
	sort.Strings(evs)
	for _, e := range evs {
		sb.WriteString(" " + e)
	}
	sb.WriteString(h.reads())
	if storeExtraReads != nil {
		sb.WriteString(storeExtraReads(h))
	}
	sb.WriteString(" ST")
	for _, f := range h.facts() {
		sb.WriteString(" " + f)
	}
	sb.WriteString(" | ")
	return sb.String()
}

// ---- generator -----------------------------------------------------------------------------------------

// c07CtxPath draws a derivation; belongs = no new context object on the way
func (g *histGen) c07CtxPath(inTx, belongs bool) string {
	n := 1
	switch k := g.r.intn(100); {
	case k < 12:
		n = 0
	case k < 55:
		n = 1
	case k < 82:
		n = 2
	case k < 94:
		n = 3
	default:
		n = 4
	}
	letters := "sssnuu"
	if inTx {
		letters = "ssssnnuuUUB"
	}
	var sb strings.Builder
	for i := 0; i < n; i++ {
		sb.WriteByte(letters[g.r.intn(len(letters))])
	}
	p := sb.String()
	if inTx && !belongs {
		pos := g.r.intn(len(p) + 1)
		p = p[:pos] + "x" + p[pos:]
	}
	return p
}

func (g *histGen) c07CtxSite(t *hTx, allowPre bool) int {
	pPre := 25
	for _, v := range t.Vetoes {
		if v.Store == "@batch" { // bbolt re-runs a failing batched function: what was registered before the call must still count
			pPre = 55
		}
	}
	if allowPre && g.r.chance(pPre) {
		return -1
	}
	return g.r.intn(len(t.Ops) + 1)
}

// c07CtxDecorate adds the context program of a transaction of the C07 stream
func (g *histGen) c07CtxDecorate(t *hTx) {
	for _, v := range t.Vetoes {
		if v.Store == "@ctx" { // registrations stay on a shared context for good
			return
		}
	}
	open := ""
	switch k := g.r.intn(100); {
	case k < 14:
		open = "nil"
	case k < 22 && t.Sys:
		open = "plain"
	}
	allowPre := open != "nil"
	var regs []hVeto
	failing := false
	if t.PreCommitErr && (open == "nil" || g.r.chance(75)) {
		t.PreCommitErr = false
		failing = true
	} else if !t.PreCommitErr && g.r.chance(4) {
		failing = true
	}
	if failing {
		site := g.c07CtxSite(t, allowPre)
		regs = append(regs, c07CtxRegText(site, g.c07CtxPath(site >= 0, true), 'f'))
	}
	// actions that must not fail anything, commit actions (none may run after a rollback)
	if g.r.chance(18) {
		for k := 1 + g.r.intn(2); k > 0; k-- {
			site := g.c07CtxSite(t, allowPre)
			kind := byte('o')
			if g.r.chance(50) {
				kind = 'c'
			}
			regs = append(regs, c07CtxRegText(site, g.c07CtxPath(site >= 0, g.r.chance(70)), kind))
		}
	}
	// the observed contract (design/C07.md section 9, candidate defect): a failing action registered on a context built
	// AROUND the transaction is never run
	if !failing && !t.PreCommitErr && g.r.chance(2) {
		site := g.r.intn(len(t.Ops) + 1)
		regs = append(regs, c07CtxRegText(site, g.c07CtxPath(true, false), 'f'))
	}
	if len(regs) > 1 && g.r.chance(50) {
		regs[0], regs[len(regs)-1] = regs[len(regs)-1], regs[0]
	}
	if len(regs) == 0 && open == "" {
		return
	}
	if len(regs) == 0 && g.r.chance(60) { // keep most transactions on the shared executor
		return
	}
	if open != "" {
		t.Vetoes = append(t.Vetoes, hVeto{Store: c07CtxOpenVeto, Change: "C", Id: open})
	}
	t.Vetoes = append(t.Vetoes, regs...)
}

func c07CtxStats(stats map[string]int, t *hTx) {
	regs, open, has := c07CtxParse(t)
	if !has {
		return
	}
	stats["ctx_tx"]++
	if open != "" {
		stats["ctx_open_"+open]++
	}
	for _, r := range regs {
		stats["ctx_reg_kind_"+string(r.kind)]++
		if r.site < 0 {
			stats["ctx_reg_before_tx"]++
		} else if r.site == 0 {
			stats["ctx_reg_at_start"]++
		} else if r.site >= len(t.Ops) {
			stats["ctx_reg_at_end"]++
		} else {
			stats["ctx_reg_between_ops"]++
		}
		stats["ctx_reg_pathlen_"+strconv.Itoa(len(r.path))]++
		for _, l := range []string{"s", "n", "u", "U", "B", "x"} {
			if strings.Contains(r.path, l) {
				stats["ctx_reg_via_"+l]++
			}
		}
		if r.kind == 'f' {
			if strings.Contains(r.path, "x") && r.site >= 0 {
				stats["ctx_failing_on_new_tx_context"]++
			} else {
				stats["ctx_failing_on_belonging_context"]++
			}
		}
	}
}
