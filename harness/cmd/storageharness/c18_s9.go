package main

// C18, ninth strengthening (a): concurrent readers that SHARE their arguments.
//
// The readers of the main workload and the hammered helpers build a fresh argument (a one-element list, a key
// converted from a string) for every lookup, so memory the CALLER owns was never reachable from two read
// transactions at once, and nobody looked at an argument again after the call.  Callers of the store normally do
// share them (the role attributes of a cached entity are handed to every request).  Here every call of the helper
// is one "round": a fresh list of 3-4 values in an order of the caller's choosing (every permutation over the
// rounds; the tail is unsorted in most of them) and a fresh key, handed to c18s9Readers read transactions that are
// all open before the first lookup starts (start barrier).  Each of them runs the same lookup through one of the
// read helpers that take caller owned slices: the id-list builders and cursor providers over a set index (all-of /
// any-of, cursor forward / backward), set-index / unique-index reads and cursors by key, link reads by key.
// Observations: (1) every reader gets the serial answer, which is computed from the definition of the fixed
// population, not by the code under test; (2) the arguments hold the same values in the same order after the
// readers are done - a read is not allowed to write to what it was given (deterministic, needs no particular
// schedule); (3) the binary is built with -race: an unsynchronised write to the shared argument is a report.

import (
	"fmt"
	"sort"
	"strings"
	"sync"

	"github.com/openziti/storage/ast"
	"go.etcd.io/bbolt"
)

const (
	c18s9HelperShared = "boltz.indexes/concurrent-readers-sharing-their-argument-slices"
	c18s9Readers      = 3
)

var c18s9Forms = []string{"FindMatching", "IteratorMatchingAllOf", "FindMatchingAnyOf", "IteratorMatchingAnyOf",
	"SetReadIndex.Read", "SetReadIndex.OpenValueCursor", "ReadIndex.Read", "LinkCollection.IterateLinks", "LinkCollection.IsLinked"}

// c18s9Detail: the first wrong observation of the helper (the hammer only counts)
var c18s9Detail struct {
	sync.Mutex
	first string
}

func c18s9Note(format string, args ...interface{}) {
	c18s9Detail.Lock()
	if c18s9Detail.first == "" {
		c18s9Detail.first = fmt.Sprintf(format, args...)
	}
	c18s9Detail.Unlock()
}

// c18s9TakeDetail returns (and forgets) the first wrong observation since the last call
func c18s9TakeDetail() string {
	c18s9Detail.Lock()
	defer c18s9Detail.Unlock()
	d := c18s9Detail.first
	c18s9Detail.first = ""
	return d
}

// c18s9Perm: the k-th permutation (factorial number system) of vals, as a fresh slice
func c18s9Perm(vals []string, k int) []string {
	pool := append([]string{}, vals...)
	out := make([]string, 0, len(vals))
	for n := len(pool); n > 0; n-- {
		j := k % n
		k /= n
		out = append(out, pool[j])
		pool = append(pool[:j], pool[j+1:]...)
	}
	// reversed: the low permutations, which every run reaches, are the ones with an unsorted tail
	for a, b := 0, len(out)-1; a < b; a, b = a+1, b-1 {
		out[a], out[b] = out[b], out[a]
	}
	return out
}

// the fixed population of c18FixtureOnce (c18.go): item k (id f<k>) carries tag b iff bit b of k+1 is set, and is
// linked to group (k+1)%3 and, for even k, to group (k+2)%3
func c18s9TagBit(t string) int {
	for b, x := range c18TagPool {
		if x == t {
			return b
		}
	}
	return -1
}

func c18s9Expected(fx *c18Fixture, tags []string, all bool) []string {
	var out []string
	for k, id := range fx.ids {
		n, hit := 0, 0
		for _, t := range tags {
			n++
			if b := c18s9TagBit(t); b >= 0 && (k+1)&(1<<b) != 0 {
				hit++
			}
		}
		if (all && hit == n) || (!all && hit > 0) {
			out = append(out, id)
		}
	}
	return out
}

func c18s9Linked(k int, g int) bool {
	return g == (k+1)%3 || (k%2 == 0 && g == (k+2)%3)
}

func c18s9DrainSet(c ast.SetCursor) []string {
	var out []string
	for ; c.IsValid(); c.Next() {
		out = append(out, string(c.Current()))
	}
	return out
}

func c18s9Sorted(ids []string) string {
	s := append([]string{}, ids...)
	sort.Strings(s)
	return strings.Join(s, ",")
}

// c18s9Round: one round of readers sharing their arguments; true when all three observations hold
func c18s9Round(fx *c18Fixture, i int) (ok bool) {
	if fx == nil || len(fx.ids) == 0 {
		return false
	}
	defer func() {
		if r := recover(); r != nil {
			c18s9Note("panic %v", r)
			ok = false
		}
	}()
	form := c18s9Forms[i%len(c18s9Forms)]
	round := i / len(c18s9Forms)
	s := fx.w.fams[round%len(fx.w.fams)]
	round /= len(fx.w.fams)

	// the arguments of this round: owned by the caller, shared by its readers
	var list []string
	if round%3 == 2 {
		list = c18s9Perm(c18TagPool[:3], round/3)
	} else {
		list = c18s9Perm(c18TagPool, round-round/3)
	}
	k := round % len(fx.ids)
	g := (round / 2) % len(c18Groups)
	key := []byte(c18TagPool[round%len(c18TagPool)])
	id := []byte(fx.ids[k])
	gid := []byte(c18Groups[g])
	name := []byte(c18NamePool[k])
	listBefore := append([]string{}, list...)
	keyBefore, idBefore, gidBefore, nameBefore := string(key), string(id), string(gid), string(name)

	var expected string
	switch form {
	case "FindMatching", "IteratorMatchingAllOf":
		expected = c18s9Sorted(c18s9Expected(fx, list, true))
	case "FindMatchingAnyOf", "IteratorMatchingAnyOf":
		expected = c18s9Sorted(c18s9Expected(fx, list, false))
	case "SetReadIndex.Read", "SetReadIndex.OpenValueCursor":
		expected = c18s9Sorted(c18s9Expected(fx, []string{string(key)}, true))
	case "ReadIndex.Read":
		expected = string(id)
	case "LinkCollection.IterateLinks":
		var gs []string
		for x := range c18Groups {
			if c18s9Linked(k, x) {
				gs = append(gs, c18Groups[x])
			}
		}
		expected = c18s9Sorted(gs)
	case "LinkCollection.IsLinked":
		expected = fmt.Sprint(c18s9Linked(k, g))
	}

	results := make([]string, c18s9Readers)
	var ready, done sync.WaitGroup
	start := make(chan struct{})
	for r := 0; r < c18s9Readers; r++ {
		ready.Add(1)
		done.Add(1)
		go func(r int) {
			defer done.Done()
			released := false
			defer func() {
				if x := recover(); x != nil {
					results[r] = fmt.Sprintf("panic %v", x)
					if !released {
						ready.Done()
					}
				}
			}()
			_ = fx.w.db.View(func(tx *bbolt.Tx) error {
				// all the read transactions are open before the first lookup starts
				released = true
				ready.Done()
				<-start
				forward := (r+round)%2 == 0
				switch form {
				case "FindMatching":
					results[r] = c18s9Sorted(s.item.FindMatching(tx, s.item.idxTags, list))
				case "FindMatchingAnyOf":
					results[r] = c18s9Sorted(s.item.FindMatchingAnyOf(tx, s.item.idxTags, list))
				case "IteratorMatchingAllOf":
					results[r] = c18s9Sorted(c18s9DrainSet(s.item.IteratorMatchingAllOf(s.item.idxTags, list)(tx, forward)))
				case "IteratorMatchingAnyOf":
					results[r] = c18s9Sorted(c18s9DrainSet(s.item.IteratorMatchingAnyOf(s.item.idxTags, list)(tx, forward)))
				case "SetReadIndex.Read":
					var ids []string
					s.item.idxTags.Read(tx, key, func(v []byte) { ids = append(ids, string(v)) })
					results[r] = c18s9Sorted(ids)
				case "SetReadIndex.OpenValueCursor":
					results[r] = c18s9Sorted(c18s9DrainSet(s.item.idxTags.OpenValueCursor(tx, key, forward)))
				case "ReadIndex.Read":
					results[r] = string(s.item.idxName.Read(tx, name))
				case "LinkCollection.IterateLinks":
					results[r] = c18s9Sorted(c18s9DrainSet(s.item.watchers.IterateLinks(tx, id)))
				case "LinkCollection.IsLinked":
					results[r] = fmt.Sprint(s.item.watchers.IsLinked(tx, id, gid))
				}
				return nil
			})
		}(r)
	}
	ready.Wait()
	close(start)
	done.Wait()

	ok = true
	// (2) the arguments are the caller's: the same values in the same order afterwards
	if fmt.Sprint(list) != fmt.Sprint(listBefore) {
		c18s9Note("argument-changed %s was given the list %v (shared by %d read transactions); after the calls the caller's list reads %v", form, listBefore, c18s9Readers, list)
		ok = false
	}
	if string(key) != keyBefore || string(id) != idBefore || string(gid) != gidBefore || string(name) != nameBefore {
		c18s9Note("argument-changed %s was given the keys %q %q %q %q; after the calls they read %q %q %q %q", form, keyBefore, idBefore, gidBefore, nameBefore, key, id, gid, name)
		ok = false
	}
	// (1) every reader has the serial answer
	for r, got := range results {
		if got != expected {
			c18s9Note("answer-differs %s(%v) reader %d of %d got [%s], the serial answer is [%s]", form, listBefore, r, c18s9Readers, got, expected)
			ok = false
		}
	}
	return ok
}
