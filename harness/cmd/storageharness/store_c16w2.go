package main

// C16 strengthening, second wave (seeded C16-w2-1, C16-w2-2):
//
// (a) WIRINGS in which the system-entity constraint is registered on a CHILD store only (plain child c16cp, extended
//     child c16cx), or on the root AND the child store (c16bo), with cascades that reach the family through the root
//     store's fk and through the child store's own fk.  The flag itself is where boltz keeps it for these stores:
//     BaseExtEntity.SetBaseValues writes isSystem into the bucket of the persist context it is handed - the ROOT entity
//     bucket for the harness strategies (the child strategy persists the parent part through ctx.GetParentContext()) -
//     and the child store reads it through the isSystem symbol granted by the parent (GrantSymbols), which is exactly
//     get_field of Store/Model.v for a child store that does not declare the field itself.
//     Coq side: Store/SystemChild.v (what a child-only constraint protects), Examples/C16Wirings.v (wf by computation).
//
// (b) RESTORE steps: a pseudo transaction without operations that carries the pseudo veto
//
//	@rs C <hex of "<k>:<mode>">
//
//     brings the database content back to what it was after the first k steps of the history (k = 0: the freshly
//     initialised empty database), through the real API, from a snapshot streamed with Db.StreamToWriter at that time:
//
//	s  Db.RestoreSnapshot(bytes)                       same DbImpl, same store objects
//	r  Db.RestoreFromReader(reader)                    same DbImpl, same store objects
//	p  like s, but the bytes are first turned into a snapshot FILE by Db.Snapshot (CopyFile + MarkAsSnapshot) of a
//	   scratch DbImpl that holds the content
//	n  another node: a fresh DbImpl and freshly built stores, initialised (InitializeIndexes) on an EMPTY database,
//	   which then receives the snapshot through RestoreSnapshot; the history continues on that node
//	e  like n, but the file is replaced underneath the DbImpl without the restore API (Close, overwrite, DbImpl.Open)
//	o  restart: the file holds the content, a fresh DbImpl is opened on it, stores are freshly built and initialised on
//	   the existing content
//
//     Model counterpart: Store/SystemRestore.v - [HRestore k] sets the state to the k-th element of the trace, nothing
//     else; the system-entity rules must hold for the entities that are present NOW, however they got there.

import (
	"bytes"
	"fmt"
	"io"
	"os"
	"strconv"
	"strings"

	"github.com/openziti/storage/boltz"
	"github.com/sirupsen/logrus"
)

func init() {
	extraWirings["c16cp"] = wiringC16Cp
	extraWirings["c16cx"] = wiringC16Cx
	extraWirings["c16bo"] = wiringC16Bo
}

// c16cp: the constraint sits on the PLAIN child store gad only; a second plain child store (aux, registered first, so
// that DeleteById walks it before gad); cascades reach the family through the root store (dev.owner -> own, fk index with
// cascade delete) and through the child store's own field (gad.slot -> own, nullable fk constraint with CascadeDelete).
// wf: Examples/C16Wirings.v c16cp_wf
func wiringC16Cp() *wiring {
	return &wiring{Name: "c16cp", Stores: []*sStore{
		{Name: "own", Fields: []sField{{Name: "title"}}},
		{Name: "dev", Fields: []sField{{Name: "name"}, {Name: "owner"}}},
		{Name: "aux", Parent: "dev", Fields: []sField{{Name: "note", Ptr: true}}},
		{Name: "gad", Parent: "dev", Fields: []sField{{Name: "serial", Ptr: true}, {Name: "slot", Ptr: true}}},
	}, Script: []wiringDecl{
		{Kind: "unique", Store: "own", Field: "title"},
		{Kind: "unique", Store: "dev", Field: "name"},
		{Kind: "fkindexcascade", Store: "dev", Field: "owner", Target: "own", Back: "devs"},
		{Kind: "unique", Store: "aux", Field: "note", Nullable: true},
		{Kind: "system", Store: "gad"},
		{Kind: "unique", Store: "gad", Field: "serial", Nullable: true},
		{Kind: "fkcons", Store: "gad", Field: "slot", Target: "own", Nullable: true, Casc: "D"},
	}}
}

// c16cx: the casc wiring with the constraint moved from b to its EXTENDED child store bx (registered after the unique
// index of bx).  wf: Examples/C16Wirings.v c16cx_wf
func wiringC16Cx() *wiring {
	return &wiring{Name: "c16cx", Stores: []*sStore{
		{Name: "a", Fields: []sField{{Name: "name"}}, Sets: []string{"roles"}},
		{Name: "b", Fields: []sField{{Name: "name"}, {Name: "a"}}},
		{Name: "c", Fields: []sField{{Name: "name", Ptr: true, Sym: "cname"}, {Name: "b"}, {Name: "a", Ptr: true}}},
		{Name: "bx", Parent: "b", Ext: true, Fields: []sField{{Name: "code", Ptr: true}}},
	}, Script: []wiringDecl{
		{Kind: "unique", Store: "a", Field: "name"},
		{Kind: "setidx", Store: "a", Field: "roles"},
		{Kind: "fkindexcascade", Store: "b", Field: "a", Target: "a", Back: "bs"},
		{Kind: "fkindexcascade", Store: "c", Field: "b", Target: "b", Back: "cs"},
		{Kind: "fkindex", Store: "c", Field: "a", Target: "a", Back: "cas", Nullable: true},
		{Kind: "unique", Store: "c", Field: "name", Nullable: true},
		{Kind: "unique", Store: "bx", Field: "code", Nullable: true},
		{Kind: "system", Store: "bx"},
	}}
}

// c16bo: the constraint on BOTH levels (root emp - registered before the root's fk index -, plain child mgr), cascade
// dept -> emp.  wf: Examples/C16Wirings.v c16bo_wf
func wiringC16Bo() *wiring {
	return &wiring{Name: "c16bo", Stores: []*sStore{
		{Name: "dept", Fields: []sField{{Name: "title"}}},
		{Name: "emp", Fields: []sField{{Name: "name"}, {Name: "dept"}}},
		{Name: "mgr", Parent: "emp", Fields: []sField{{Name: "level", Ptr: true}}},
	}, Script: []wiringDecl{
		{Kind: "unique", Store: "emp", Field: "name"},
		{Kind: "system", Store: "emp"},
		{Kind: "fkindexcascade", Store: "emp", Field: "dept", Target: "dept", Back: "members"},
		{Kind: "system", Store: "mgr"},
		{Kind: "unique", Store: "mgr", Field: "level", Nullable: true},
	}}
}

var c16Wirings = []string{"idx", "casc", "c16cp", "idx", "casc", "c16cx", "idx", "casc", "c16bo", "c16cp", "c16cx"}

// ---- restore steps --------------------------------------------------------------------------------------

const c16RestoreStore = "@rs"

var c16RestoreModes = []byte{'s', 'r', 'p', 'n', 'e', 'o'}

func c16RestoreTx(k int, mode byte) hTx {
	return hTx{Vetoes: []hVeto{{Store: c16RestoreStore, Change: "C", Id: fmt.Sprintf("%d:%c", k, mode)}}}
}

// c16RestoreOf: (k, mode) of a restore step
func c16RestoreOf(t *hTx) (int, byte, bool) {
	for _, v := range t.Vetoes {
		if v.Store != c16RestoreStore {
			continue
		}
		parts := strings.SplitN(v.Id, ":", 2)
		k, err := strconv.Atoi(parts[0])
		if err != nil || k < 0 {
			return 0, 0, false
		}
		mode := byte('s')
		if len(parts) == 2 && len(parts[1]) == 1 {
			mode = parts[1][0]
		}
		return k, mode, true
	}
	return 0, 0, false
}

func c16HasRestore(txs []hTx) bool {
	for i := range txs {
		if _, _, ok := c16RestoreOf(&txs[i]); ok {
			return true
		}
	}
	return false
}

// c16Stream: the database content as a consistent snapshot (Db.StreamToWriter)
func (h *harnessDb) c16Stream() ([]byte, error) {
	var buf bytes.Buffer
	if err := h.db.StreamToWriter(&buf); err != nil {
		return nil, err
	}
	return buf.Bytes(), nil
}

// harnessKeepFile is consulted by openHarnessDb: do not remove an existing database file (restart on existing content)
var harnessKeepFile bool

// c16Restore brings the content back (see the modes above); returns the harness database the history continues on
func (h *harnessDb) c16Restore(data []byte, mode byte, dir string) (res *harnessDb, err error) {
	defer func() {
		if r := recover(); r != nil { // RestoreFromReader panics on I/O errors
			res, err = h, fmt.Errorf("restore panicked: %v", r)
		}
	}()
	switch mode {
	case 'r':
		h.db.RestoreFromReader(bytes.NewReader(data))
	case 'p':
		logrus.SetOutput(io.Discard) // Db.Snapshot logs the path and the snapshot id
		tmp := h.path + ".c16src"
		if err := os.WriteFile(tmp, data, 0600); err != nil {
			return h, err
		}
		defer os.Remove(tmp)
		tdb, err := boltz.Open(tmp, "root")
		if err != nil {
			return h, err
		}
		snapPath, _, err := tdb.Snapshot(tmp + ".snap")
		_ = tdb.Close()
		if err != nil {
			return h, err
		}
		defer os.Remove(snapPath)
		marked, err := os.ReadFile(snapPath)
		if err != nil {
			return h, err
		}
		h.db.RestoreSnapshot(marked)
	case 'n':
		w := h.w
		h.close()
		h2, err := openHarnessDb(w, dir)
		if err != nil {
			return nil, err
		}
		h2.db.RestoreSnapshot(data)
		_ = os.Remove(h2.path + ".previous")
		return h2, nil
	case 'e':
		w := h.w
		h.close()
		h2, err := openHarnessDb(w, dir)
		if err != nil {
			return nil, err
		}
		if err := h2.db.Close(); err != nil {
			return nil, err
		}
		if err := os.WriteFile(h2.path, data, 0600); err != nil {
			return nil, err
		}
		if err := h2.db.Open(h2.path); err != nil {
			return nil, err
		}
		return h2, nil
	case 'o':
		w, path := h.w, h.path
		_ = h.db.Close()
		if err := os.WriteFile(path, data, 0600); err != nil {
			return nil, err
		}
		harnessKeepFile = true
		h2, err := openHarnessDb(w, dir)
		harnessKeepFile = false
		if err != nil {
			return nil, err
		}
		return h2, nil
	default:
		h.db.RestoreSnapshot(data)
	}
	_ = os.Remove(h.path + ".previous")
	return h, nil
}

// c16Runner executes the steps of one history: transactions through runTxX, restore steps through c16Restore.  When the
// history may contain restore steps, the content is streamed after every step (snaps[k] = content after k steps).
type c16Runner struct {
	h     *harnessDb
	dir   string
	keep  bool
	snaps [][]byte
}

func newC16Runner(h *harnessDb, dir string, keep bool) (*c16Runner, error) {
	rn := &c16Runner{h: h, dir: dir, keep: keep}
	if keep {
		s, err := h.c16Stream()
		if err != nil {
			return nil, err
		}
		rn.snaps = append(rn.snaps, s)
	}
	return rn, nil
}

func (rn *c16Runner) step(t *hTx) (string, error) {
	var obs string
	if k, mode, ok := c16RestoreOf(t); ok {
		if !rn.keep || k >= len(rn.snaps) {
			return "", fmt.Errorf("restore step to %d: no such snapshot (%d kept)", k, len(rn.snaps))
		}
		h2, err := rn.h.c16Restore(rn.snaps[k], mode, rn.dir)
		if h2 == nil {
			return "", err
		}
		rn.h = h2
		res := " COMMIT"
		if err != nil {
			res = " panic ROLLBACK"
		}
		rn.h.mu.Lock()
		rn.h.events = nil
		rn.h.mu.Unlock()
		var sb strings.Builder
		sb.WriteString("TX R" + res)
		sb.WriteString(rn.h.reads())
		sb.WriteString(rn.h.readsX())
		sb.WriteString(" ST")
		for _, f := range rn.h.facts() {
			sb.WriteString(" " + f)
		}
		sb.WriteString(" | ")
		obs = sb.String()
	} else {
		obs = rn.h.runTxX(t)
	}
	if rn.keep {
		s, err := rn.h.c16Stream()
		if err != nil {
			return "", err
		}
		rn.snaps = append(rn.snaps, s)
	}
	return obs, nil
}

// ---- generator: restore steps and the transaction after them -----------------------------------------------------

// c16ProtectedTargets: (store to go through, id) of the flagged entities of the families that carry the constraint at
// some level - used to bias the transaction after a restore towards the entities the rules are about
func (g *xGen) c16ProtectedTargets() [][2]string { return g.c16ProtectedIn(g.snap, true) }

// c16ProtectedIn: the same for the content described by snap (pick = false: no random choice of the store to go through)
func (g *xGen) c16ProtectedIn(snap *xSnap, pick bool) [][2]string {
	var out [][2]string
	for _, s := range g.w.Stores {
		hasSys := false
		for _, c := range s.Cons {
			if c.Kind == "SY" {
				hasSys = true
			}
		}
		if !hasSys {
			continue
		}
		root := g.rootOf(s.Name)
		for _, id := range g.ids {
			if !snap.alive[root][id] || !snap.sys[root][id] {
				continue
			}
			if s.Parent != "" && !s.Ext && !snap.child[s.Name][id] {
				continue
			}
			through := s.Name
			if pick && g.r.chance(45) {
				through = root
			}
			out = append(out, [2]string{through, id})
		}
	}
	return out
}

// c16AfterRestore: an ordinary transaction that starts with an update / delete of a system entity present now
func (g *xGen) c16AfterRestore() (hTx, bool) {
	ts := g.c16ProtectedTargets()
	if len(ts) == 0 {
		return hTx{}, false
	}
	t := hTx{}
	pick := ts[g.r.intn(len(ts))]
	if len(g.flipped) > 0 && g.r.chance(75) {
		var fl [][2]string
		for _, x := range ts {
			if g.flipped[g.rootOf(x[0])+"/"+x[1]] {
				fl = append(fl, x)
			}
		}
		if len(fl) > 0 {
			pick = fl[g.r.intn(len(fl))]
		}
	}
	var first hOp
	if g.r.chance(50) {
		first = g.c16Update(pick[0], pick[1])
	} else {
		first = hOp{Kind: "D", Store: pick[0], Id: pick[1]}
	}
	t.Ops = append(t.Ops, first)
	if g.r.chance(40) {
		pos := 0
		if g.r.chance(50) {
			pos = 1
		}
		op := g.genOpX(false)
		ops := append([]hOp{}, t.Ops[:pos]...)
		ops = append(ops, op)
		t.Ops = append(ops, t.Ops[pos:]...)
	}
	return t, true
}

// c16AfterRestoreIf draws nothing from the generator unless the previous step was a restore
func (g *xGen) c16AfterRestoreIf(after bool) (hTx, bool) {
	if !after || !g.r.chance(65) {
		return hTx{}, false
	}
	return g.c16AfterRestore()
}

// c16Flipped: "<root>/<id>" of the ids that hold a system entity in `then` and an ORDINARY entity (or none) in `now`
func c16Flipped(then, now *xSnap) map[string]bool {
	out := map[string]bool{}
	for root, ids := range then.sys {
		for id := range ids {
			if then.alive[root][id] && !now.sys[root][id] {
				out[root+"/"+id] = true
			}
		}
	}
	return out
}

// c16StaleScript: whatever the store objects remember about an ID is stale after a restore.  For an entity x of a
// constrained family (k = number of steps executed so far):
//
//	flagged x:   system tx [delete x, create x WITHOUT the flag] ; ordinary tx [update x] (an ordinary entity now) ;
//	             RESTORE k on the same store objects (x is the system entity again) ; ordinary tx [update / delete x] -> refused
//	ordinary x:  system tx [delete x, create x WITH the flag] ; system tx [update x] ; RESTORE k ; ordinary tx [update x]
//	             -> x is an ordinary entity again and must be unaffected by the constraint
func (g *xGen) c16StaleScript(k int) []hTx {
	type cand struct {
		store, root, id string
		sys            bool
	}
	var cs []cand
	for _, s := range g.w.Stores {
		hasSys := false
		for _, c := range s.Cons {
			if c.Kind == "SY" {
				hasSys = true
			}
		}
		if !hasSys {
			continue
		}
		root := g.rootOf(s.Name)
		for _, id := range g.ids {
			if !g.snap.alive[root][id] || (s.Parent != "" && !g.snap.child[s.Name][id]) {
				continue
			}
			cs = append(cs, cand{s.Name, root, id, g.snap.sys[root][id]})
		}
	}
	if len(cs) == 0 {
		return nil
	}
	x := cs[g.r.intn(len(cs))]
	through := func() string {
		if g.r.chance(40) {
			return x.root
		}
		return x.store
	}
	create := hOp{Kind: "C", Store: x.store, Id: x.id, Sys: !x.sys}
	g.fieldsValueX(&create)
	first := hTx{Sys: true, Ops: []hOp{{Kind: "D", Store: through(), Id: x.id}, create}}
	second := hTx{Sys: !x.sys, Ops: []hOp{g.c16Update(through(), x.id)}}
	mode := []byte{'s', 'r', 'p', 's', 'r', 'n'}[g.r.intn(6)]
	var last hTx
	if x.sys && g.r.chance(40) {
		last = hTx{Ops: []hOp{{Kind: "D", Store: through(), Id: x.id}}}
	} else {
		last = hTx{Ops: []hOp{g.c16Update(through(), x.id)}}
	}
	return []hTx{first, second, c16RestoreTx(k, mode), last}
}

// c16SysSetupTx: a system transaction that creates one or two system entities (and sometimes an ordinary one) through
// the stores that carry the constraint / their root stores
func (g *xGen) c16SysSetupTx() hTx {
	t := hTx{Sys: true}
	var sy []*sStore
	for _, s := range g.w.Stores {
		for _, c := range s.Cons {
			if c.Kind == "SY" {
				sy = append(sy, s)
				break
			}
		}
	}
	if len(sy) == 0 {
		return g.genTxX()
	}
	n := 1 + g.r.intn(2)
	for i := 0; i < n; i++ {
		s := sy[g.r.intn(len(sy))]
		root := g.rootOf(s.Name)
		through := s.Name
		if s.Parent != "" && s.Ext && g.r.chance(30) {
			through = root // an extended child store also reaches entities without extension data
		}
		op := hOp{Kind: "C", Store: through, Id: g.c16FreeId(root), Sys: true}
		g.fieldsValueX(&op)
		g.snap.alive[root][op.Id] = true
		t.Ops = append(t.Ops, op)
	}
	if g.r.chance(40) {
		s := sy[g.r.intn(len(sy))]
		op := hOp{Kind: "C", Store: s.Name, Id: g.c16FreeId(g.rootOf(s.Name)), Sys: false}
		g.fieldsValueX(&op)
		t.Ops = append(t.Ops, op)
	}
	return t
}
