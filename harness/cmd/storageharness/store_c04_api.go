package main

// C04: patches in which the name the FieldChecker knows differs from the storage key of a foreign-key field.
//
// Update(ctx, entity, checker) hands the checker to the entity strategy, and only the strategy decides which
// stored fields a patch writes.  Real strategies
//
//   - translate names: PersistContext.WithFieldOverrides(stored -> api name), the checker is asked about the api
//     name and the field is written under its storage key                                      (sField.Api),
//   - ask the checker themselves (ProceedWithSet(apiName)) and then write the storage key     (sField.Api + Ask),
//   - write some fields whatever the checker says (derived / denormalised fields)             (sField.Always).
//
// The harness strategy (gStrategy.PersistEntity, store.go) wrote every field under its storage key with the
// operation's checker, so "the checker says <storage key> is not updated" and "the stored value did not change"
// were the same thing in every history; anything in the store that consults the checker about stored field names
// outside PersistEntity (to skip index / constraint work) was invisible.  The attributes are not part of the
// schema text: the store machine works on storage keys.  In a history (hOp.Checker, case text) the checker of an
// update lists storage keys, the fields written whatever the checker says included (c04ModelChecker); the real
// FieldChecker is built from it by c04ImplChecker: api names for mapped fields, always-written fields left out.
//
// The wirings c04ia / c04ib / c04fa / c04ca / c04ya are the idx / fkc / casc / cyc wirings (same stores, same
// script, same schema text apart from the name) with these attributes on every fk field, so that each kind of
// edge (fk index, nullable fk index, cascade fk index, fk constraint restrict / cascade) meets each mechanism,
// through root and child stores.

import (
	"github.com/openziti/storage/boltz"
)

var c04ApiWirings = []string{"c04ia", "c04fa", "c04ca", "c04ya", "c04ib"}

func init() {
	for _, n := range c04ApiWirings {
		n := n
		extraWirings[n] = func() *wiring { return c04ApiWiring(n) }
	}
}

func c04ApiWiring(name string) *wiring {
	base := map[string]string{"c04ia": "idx", "c04ib": "idx", "c04fa": "fkc", "c04ca": "casc", "c04ya": "cyc"}[name]
	w := wiringByName(base)
	w.Name = name
	set := func(store, field string, f func(*sField)) {
		s := w.store(store)
		for i := range s.Fields {
			if s.Fields[i].Name == field {
				f(&s.Fields[i])
				return
			}
		}
		panic("c04ApiWiring: no field " + store + "." + field)
	}
	api := func(n string) func(*sField) { return func(f *sField) { f.Api = n } }
	ask := func(n string) func(*sField) { return func(f *sField) { f.Api, f.Ask = n, true } }
	always := func(f *sField) { f.Always = true }
	switch name {
	case "c04ia": // nullable self fk index mapped, non-null fk index always written (also through the child store mgr)
		set("emp", "boss", api("bossId"))
		set("emp", "dept", always)
	case "c04ib": // the other way round
		set("emp", "boss", always)
		set("emp", "dept", api("deptId"))
	case "c04fa": // fk constraints: restrict (symbol name differs from the key) asked, cascade mapped, restrict always
		set("emp", "boss", ask("bossId"))
		set("emp", "dept", api("deptId"))
		set("emp", "room", always)
	case "c04ca": // cascade fk index mapped (b, also through the extended child store bx) / always, nullable fk index asked
		set("b", "a", api("aId"))
		set("c", "b", always)
		set("c", "a", ask("aRef"))
	case "c04ya": // reference cycles: cascading fk constraints mapped / always / asked, cascade fk index mapped
		set("n", "next", api("nextId"))
		set("p", "q", always)
		set("q", "p", ask("pId"))
		set("leaf", "n", api("nId"))
	}
	return w
}

// c04ApplyOverrides: what a strategy with differing api / storage names does first in PersistEntity
func c04ApplyOverrides(def *sStore, ctx *boltz.PersistContext) {
	var m map[string]string
	for _, f := range def.Fields {
		if f.Api != "" && !f.Ask && !f.Always {
			if m == nil {
				m = map[string]string{}
			}
			m[f.Name] = f.Api
		}
	}
	if m != nil {
		ctx.WithFieldOverrides(m)
	}
}

// c04PersistAttr persists a field that has an Api / Always attribute
func c04PersistAttr(ctx *boltz.PersistContext, f sField, v *string) {
	chk := ctx.FieldChecker // for a mapped field: the MappedFieldChecker installed by c04ApplyOverrides
	switch {
	case f.Always:
		chk = nil
	case f.Ask:
		if !ctx.ProceedWithSet(f.Api) {
			return
		}
		chk = nil
	}
	switch {
	case f.Ptr:
		ctx.Bucket.SetStringP(f.Name, v, chk)
	case v == nil:
		ctx.Bucket.SetString(f.Name, "", chk)
	default:
		ctx.Bucket.SetString(f.Name, *v, chk)
	}
}

// c04OpFields: the fields an operation entered through the store can write (its own, its parent's, and - entered
// through a root store and routed to a child store - those of the children)
func c04OpFields(w *wiring, store string) []sField {
	s := w.store(store)
	if s == nil {
		return nil
	}
	fields, _ := w.allFields(store)
	fields = append([]sField{}, fields...)
	if s.Parent == "" {
		for _, c := range w.Stores {
			if c.Parent == s.Name {
				fields = append(fields, c.Fields...)
			}
		}
	}
	return fields
}

// c04ModelChecker: the checker of an update in storage keys as the store machine needs it: the fields that are
// written whatever the checker says count as selected.  The identity for stores without such fields; idempotent.
func c04ModelChecker(w *wiring, store string, keys []string) []string {
	out := keys
	for _, f := range c04OpFields(w, store) {
		if f.Always && !containsStr(out, f.Name) {
			if len(out) == len(keys) {
				out = append([]string{}, keys...)
			}
			out = append(out, f.Name)
		}
	}
	return out
}

// c04ImplChecker: the names the real FieldChecker of the update answers true for: the api name of a mapped field, nothing
// for a field that is written anyway (the caller of such a store does not name it), the name itself otherwise (plain
// fields, string lists).  The identity for stores without attributes.
func c04ImplChecker(w *wiring, store string, keys []string) []string {
	attr := map[string]sField{}
	for _, f := range c04OpFields(w, store) {
		if f.Api != "" || f.Always {
			if _, dup := attr[f.Name]; !dup {
				attr[f.Name] = f
			}
		}
	}
	if len(attr) == 0 {
		return keys
	}
	var out []string
	for _, k := range keys {
		f, ok := attr[k]
		switch {
		case !ok:
			out = append(out, k)
		case f.Always:
		default:
			out = append(out, f.Api)
		}
	}
	return out
}

// ---- bounded-exhaustive patches over small scenarios of the attribute wirings -----------------------------------

type c04ApiScenario struct {
	wiring string
	prefix []hOp // one committed transaction
	ops    []hOp
}

func c04ApiScenarios() []c04ApiScenario {
	mk := func(kind, store, id string, chk []string, kv ...string) hOp {
		op := hOp{Kind: kind, Store: store, Id: id, F: map[string]*string{}, S: map[string][]string{}}
		for i := 0; i+1 < len(kv); i += 2 {
			if kv[i+1] != "\x00nil" {
				op.F[kv[i]] = sp(kv[i+1])
			}
		}
		if chk != nil {
			op.HasChk = true
			op.Checker = chk
		}
		return op
	}
	none := []string{}
	var out []c04ApiScenario

	// A: the self-referencing store (fk constraint, cascade delete, mapped): creates, patches of the fk field, patches
	// that do not select it (the given value must not be written), deletes
	a := c04ApiScenario{wiring: "c04ya"}
	for _, id := range []string{"a", "b"} {
		other := map[string]string{"a": "b", "b": "a"}[id]
		for _, next := range []string{"\x00nil", "a", "b"} {
			a.ops = append(a.ops, mk("C", "n", id, nil, "name", "x", "next", next))
			a.ops = append(a.ops, mk("UP", "n", id, []string{"next"}, "name", "y", "next", next))
		}
		a.ops = append(a.ops, mk("UP", "n", id, []string{"name"}, "name", "z", "next", other))
		a.ops = append(a.ops, hOp{Kind: "D", Store: "n", Id: id})
	}
	out = append(out, a)

	// B: cascade fk index, mapped: one leaf re-pointed between two targets and a missing one
	b := c04ApiScenario{wiring: "c04ya", prefix: []hOp{mk("C", "n", "a", nil, "name", "x"), mk("C", "n", "b", nil, "name", "x")}}
	for _, t := range []string{"a", "b", "c"} {
		b.ops = append(b.ops, mk("C", "leaf", "l", nil, "n", t))
		b.ops = append(b.ops, mk("UP", "leaf", "l", []string{"n"}, "n", t))
	}
	b.ops = append(b.ops, mk("UP", "leaf", "l", none, "n", "b"), mk("UP", "leaf", "l", nil, "n", "b"),
		hOp{Kind: "D", Store: "leaf", Id: "l"}, hOp{Kind: "D", Store: "n", Id: "a"}, hOp{Kind: "D", Store: "n", Id: "b"})
	out = append(out, b)

	// C / D: fk index (restrict) always written resp. mapped, nullable self fk index mapped resp. always written; the
	// employee lives in the child store mgr, patches enter through the root and through the child store
	for _, wn := range []string{"c04ia", "c04ib"} {
		c := c04ApiScenario{wiring: wn, prefix: []hOp{
			mk("C", "dept", "d1", nil, "title", "t1"), mk("C", "dept", "d2", nil, "title", "t2"),
			mk("C", "mgr", "e", nil, "name", "ne", "dept", "d1"), mk("C", "emp", "f", nil, "name", "nf", "dept", "d2", "boss", "e")}}
		for _, st := range []string{"emp", "mgr"} {
			for _, d := range []string{"d1", "d2", "dx", ""} {
				if st == "mgr" && (d == "d1" || d == "") {
					continue
				}
				c.ops = append(c.ops, mk("UP", st, "e", []string{"dept"}, "name", "ne", "dept", d))
			}
			c.ops = append(c.ops, mk("UP", st, "e", []string{"name"}, "name", "ne", "dept", "d2", "boss", "f"))
			c.ops = append(c.ops, mk("UP", st, "e", []string{"boss"}, "name", "ne", "dept", "d1", "boss", "f"))
		}
		c.ops = append(c.ops, mk("UP", "emp", "f", []string{"boss"}, "name", "nf", "dept", "d2"), // boss := nil
			mk("UP", "emp", "f", []string{"boss"}, "name", "nf", "dept", "d2", "boss", "g"), // missing
			hOp{Kind: "D", Store: "emp", Id: "e"}, hOp{Kind: "D", Store: "emp", Id: "f"},
			hOp{Kind: "D", Store: "dept", Id: "d1"}, hOp{Kind: "D", Store: "dept", Id: "d2"})
		out = append(out, c)
	}

	// E: fk constraints (restrict asked, cascade mapped, restrict always written)
	e := c04ApiScenario{wiring: "c04fa", prefix: []hOp{
		mk("C", "dept", "d1", nil, "title", "t1"), mk("C", "dept", "d2", nil, "title", "t2"), mk("C", "room", "r1", nil, "label", "l1"),
		mk("C", "emp", "e", nil, "name", "ne", "dept", "d1", "room", "r1"), mk("C", "emp", "f", nil, "name", "nf", "dept", "d2", "boss", "e")}}
	for _, d := range []string{"d2", "dx"} {
		e.ops = append(e.ops, mk("UP", "emp", "e", []string{"dept"}, "name", "ne", "dept", d, "room", "r1"))
	}
	for _, r := range []string{"\x00nil", "rx"} {
		e.ops = append(e.ops, mk("UP", "emp", "e", []string{"name"}, "name", "ne", "dept", "d1", "room", r))
	}
	for _, bs := range []string{"\x00nil", "e", "g"} {
		e.ops = append(e.ops, mk("UP", "emp", "f", []string{"boss"}, "name", "nf", "dept", "d2", "boss", bs))
	}
	e.ops = append(e.ops, mk("UP", "emp", "f", []string{"name"}, "name", "nf", "dept", "dx", "boss", "g"), // neither is selected
		hOp{Kind: "D", Store: "emp", Id: "e"}, hOp{Kind: "D", Store: "dept", Id: "d1"}, hOp{Kind: "D", Store: "dept", Id: "d2"},
		hOp{Kind: "D", Store: "room", Id: "r1"})
	out = append(out, e)
	return out
}

// exhaustApiC04: per scenario every sequence of 1..maxLen of its operations, one per transaction, after the prefix
func exhaustApiC04(maxLen int, stats map[string]int) []string {
	return c04ExhaustScenarios(c04ApiScenarios(), maxLen, "exhaustive_api", stats)
}
