package main

import (
	"fmt"
	"math"
)

// C01 - boundary values at the end of (and along) every symbol path shape.
//
// The documented semantics do not depend on the PATH by which a value is reached: `nick = ""` and
// `manager.nick = ""` compare the same stored value.  The operator sweep and the coercion sweep put the boundary
// values (the empty string - the one value whose encoding has an empty payload -, zero numbers of every width, -0.0,
// false, the instant whose encoding is all zeros, Go's zero time) into DIRECT fields and set elements only; every
// dotted symbol of those datasets ended in an ordinary value or in null.  This sweep is bounded-exhaustive over
//
//	path shape     direct symbol; fk chains of 1, 2 and 3 hops; dotted set symbols set.T, set.fk.T, fk.set.T,
//	               set.set.T, their id forms (set.fk, fk.set, set.set) and string-set tails (set.strs, fk.biz,
//	               set.set.kinds); map elements (also nested) after every prefix; sub-queries whose predicate is a
//	               direct symbol or an fk chain of the linked store; own, own-fk-dotted and inherited symbols of child stores
//	terminal       every scalar symbol of the last store (string, strnum, always-nil, int32-stored, int64, prefixed int,
//	               float, whole float, bool, datetime, fk, id, any-typed map elements)
//	stored value   boundary (two flavours), ordinary, nil marker, field absent - of the LAST entity, which is reached
//	               through intermediate entities that themselves hold boundary / ordinary values - and every way a hop
//	               can fail at every position: fk nil, absent, "", dangling, stored as a number
//	operator       = != < <= > >= contains / icontains and negations, in / not in, between / not between, null tests,
//	               boolean symbols, anyOf / allOf / count / isEmpty
//	literal        the boundary value of the terminal's type, an ordinary one, null, and the cross-type literals that
//	               are coerced (numbers against strings, "" against everything under contains)
//
// The dataset is built from CHAINS so that the coverage holds by construction (c01bDataset).  Expected answers come
// from the model as everywhere else in C01 (spec_ids); nothing here knows what the right answer is.

type c01bTerm struct {
	name string
	ty   byte
	ids  int // >= 0: the values are ids of that store
}

type c01bHop struct {
	name string
	to   int
}

// scalar terminals per root store: all of them / one per type (used after long prefixes)
var c01bTermsFull = [][]c01bTerm{
	{{"id", 's', 0}, {"name", 's', -1}, {"nick", 's', -1}, {"nothing", 's', -1}, {"age", 'i', -1}, {"big", 'i', -1}, {"grp", 'i', -1},
		{"score", 'f', -1}, {"whole", 'f', -1}, {"flag", 'b', -1}, {"born", 'd', -1}, {"place", 's', 1},
		{"tags.a", 'a', -1}, {"tags.n", 'a', -1}, {"tags.b", 'a', -1}, {"tags.sub.k", 'a', -1}, {"tags.zz", 'a', -1}},
	{{"id", 's', 1}, {"name", 's', -1}, {"pop", 'i', -1}, {"open", 'b', -1}, {"owner", 's', 0}, {"org", 's', 2},
		{"tags.a", 'a', -1}, {"tags.n", 'a', -1}, {"tags.sub.k", 'a', -1}},
	{{"id", 's', 2}, {"name", 's', -1}, {"size", 'i', -1}},
}
var c01bTermsShort = [][]c01bTerm{
	{{"id", 's', 0}, {"name", 's', -1}, {"age", 'i', -1}, {"score", 'f', -1}, {"flag", 'b', -1}, {"born", 'd', -1}, {"tags.a", 'a', -1}},
	{{"name", 's', -1}, {"pop", 'i', -1}, {"open", 'b', -1}, {"owner", 's', 0}, {"tags.a", 'a', -1}},
	{{"id", 's', 2}, {"name", 's', -1}, {"size", 'i', -1}},
}
var c01bFkHops = [][]c01bHop{{{"place", 1}}, {{"owner", 0}, {"org", 2}}, {}}
var c01bSetHops = [][]c01bHop{{{"places", 1}, {"friends", 0}}, {{"orgs", 2}, {"visitors", 0}}, {}}
var c01bStrSets = [][]string{{"strs", "roles", "nums"}, {"biz"}, {"kinds"}}

// ---- the dataset --------------------------------------------------------------------------------------------

const c01bZeroTimeSec = -62135596800 // time.Time{}: 0001-01-01T00:00:00Z

// entity kinds: Z boundary values, Y boundary values of the other flavour (other widths / signs / the other zero time,
// any-typed elements of other types), V ordinary values, N nil markers, M nothing stored at all
var c01bKinds = []byte{'Z', 'V', 'Y', 'N', 'M'} // id order of the end entities: boundary, ordinary, boundary, nil, missing

func c01bF(v c01Val, path ...string) c01Field { return c01Field{path: path, v: v} }

func c01bScalars(store int, kind byte) []c01Field {
	s := func(x string) c01Val { return c01Val{k: 's', s: x} }
	w := func(x int64) c01Val { return c01Val{k: 'w', i: x} }
	i := func(x int64) c01Val { return c01Val{k: 'i', i: x} }
	f := func(x float64) c01Val { return c01Val{k: 'f', f: x} }
	b := func(x bool) c01Val { return c01Val{k: 'b', b: x} }
	t := func(sec, ns int64) c01Val { return c01Val{k: 't', sec: sec, ns: ns} }
	n := c01Val{k: 'n'}
	negZero := math.Copysign(0, -1)
	switch store {
	case 0:
		switch kind {
		case 'Z':
			return []c01Field{c01bF(s(""), "name"), c01bF(s(""), "nickname"), c01bF(w(0), "age"), c01bF(i(0), "big"), c01bF(f(0), "score"),
				c01bF(f(negZero), "whole"), c01bF(b(false), "flag"), c01bF(t(0, 0), "born"), c01bF(w(0), "ext", "grp"),
				c01bF(s(""), "ext", "tags", "a"), c01bF(i(0), "ext", "tags", "n"), c01bF(b(false), "ext", "tags", "b"), c01bF(f(0), "ext", "tags", "sub", "k")}
		case 'Y':
			return []c01Field{c01bF(s(""), "name"), c01bF(s("0"), "nickname"), c01bF(w(0), "age"), c01bF(w(0), "big"), c01bF(f(negZero), "score"),
				c01bF(f(0), "whole"), c01bF(b(false), "flag"), c01bF(t(c01bZeroTimeSec, 0), "born"), c01bF(w(0), "ext", "grp"),
				c01bF(w(0), "ext", "tags", "a"), c01bF(f(negZero), "ext", "tags", "n"), c01bF(s(""), "ext", "tags", "b"), c01bF(s(""), "ext", "tags", "sub", "k")}
		case 'V':
			return []c01Field{c01bF(s("ab"), "name"), c01bF(s("5"), "nickname"), c01bF(w(5), "age"), c01bF(i(7), "big"), c01bF(f(1.5), "score"),
				c01bF(f(3), "whole"), c01bF(b(true), "flag"), c01bF(t(1600000000, 1), "born"), c01bF(w(2), "ext", "grp"),
				c01bF(s("ab"), "ext", "tags", "a"), c01bF(i(5), "ext", "tags", "n"), c01bF(b(true), "ext", "tags", "b"), c01bF(s("x"), "ext", "tags", "sub", "k")}
		case 'N':
			var out []c01Field
			for _, k := range []string{"name", "nickname", "nothing", "age", "big", "score", "whole", "flag", "born"} {
				out = append(out, c01bF(n, k))
			}
			return append(out, c01bF(n, "ext", "grp"), c01bF(n, "ext", "tags", "a"), c01bF(n, "ext", "tags", "sub", "k"))
		}
	case 1:
		switch kind {
		case 'Z':
			return []c01Field{c01bF(s(""), "name"), c01bF(i(0), "pop"), c01bF(b(false), "open"),
				c01bF(s(""), "tags", "a"), c01bF(i(0), "tags", "n"), c01bF(b(false), "tags", "sub", "k")}
		case 'Y':
			return []c01Field{c01bF(s(""), "name"), c01bF(w(0), "pop"), c01bF(b(false), "open"),
				c01bF(f(0), "tags", "a"), c01bF(s(""), "tags", "n"), c01bF(s(""), "tags", "sub", "k")}
		case 'V':
			return []c01Field{c01bF(s("ab"), "name"), c01bF(i(5), "pop"), c01bF(b(true), "open"),
				c01bF(s("ab"), "tags", "a"), c01bF(i(5), "tags", "n"), c01bF(s("x"), "tags", "sub", "k")}
		case 'N':
			return []c01Field{c01bF(n, "name"), c01bF(n, "pop"), c01bF(n, "open"), c01bF(n, "tags", "a")}
		}
	case 2:
		switch kind {
		case 'Z':
			return []c01Field{c01bF(s(""), "name"), c01bF(w(0), "size")}
		case 'Y':
			return []c01Field{c01bF(s(""), "name"), c01bF(i(0), "size")}
		case 'V':
			return []c01Field{c01bF(s("b"), "name"), c01bF(w(3), "size")}
		case 'N':
			return []c01Field{c01bF(n, "name"), c01bF(n, "size")}
		}
	}
	return nil
}

// the ways a single-valued hop can fail
var c01bBroken = []string{"nil", "absent", "empty", "dangling", "number"}

func c01bBrokenFk(how string, key string) []c01Field {
	switch how {
	case "nil":
		return []c01Field{c01bF(c01Val{k: 'n'}, key)}
	case "empty":
		return []c01Field{c01bF(c01Val{k: 's', s: ""}, key)}
	case "dangling":
		return []c01Field{c01bF(c01Val{k: 's', s: "zz"}, key)}
	case "number":
		return []c01Field{c01bF(c01Val{k: 'i', i: 0}, key)}
	}
	return nil // absent
}

func c01bEndId(store int, k int) string { return string("elo"[store]) + c01Itoa(k) }

// link sets: members are END entities (ids <letter>0..4 = kinds Z V Y N M in id order) so that an element with a
// boundary tail comes first, in the middle and last, next to ordinary / null / missing tails and a dangling element
var c01bLinkSetCfgs = [][]int{{0, 1}, {1, 2}, {0}, {2, 3}, {1, 3, 4}, {0, 1, 2, 3, 4, 9}, {}, nil, {9}, {0, 2}}
var c01bStrSetCfgs = [][]string{{"", "a"}, {""}, {"a", "b"}, {"", "0", "a"}, {}, nil, {"0", "5"}, {"", "15", "5"}}

// c01bDataset: chains  a0 -> a1 -> a2 -> a3 -> END  of alternating people / places (type A starts with a person,
// type B with a place), one chain per END: an entity of each kind (A: a person AND an org, B: a place) or a failing
// link of each sort.  The intermediate entities take the kinds Z, V, Y in turn.  Seen from a_k, the END is 4-k hops
// away, so every (hop sequence of length 1..3, kind of the last entity / failing hop at every position) occurs, and
// every intermediate entity passes through boundary and ordinary values.
func c01bDataset() *c01Dataset {
	d := &c01Dataset{stores: make([][]c01Entity, c01Roots)}
	nent := []int{0, 0, 0}
	addSets := func(store int, e *c01Entity) {
		n := nent[store]
		nent[store]++
		link := func(key string, to int, k int) {
			cfg := c01bLinkSetCfgs[k%len(c01bLinkSetCfgs)]
			if cfg == nil {
				return
			}
			var ids []string
			for _, x := range cfg {
				if x == 9 {
					ids = append(ids, "zz")
				} else {
					ids = append(ids, c01bEndId(to, x))
				}
			}
			e.sets = append(e.sets, c01Set{key: key, elems: c01SortDedup(ids)})
		}
		strs := func(key string, k int) {
			cfg := c01bStrSetCfgs[k%len(c01bStrSetCfgs)]
			if cfg == nil {
				return
			}
			e.sets = append(e.sets, c01Set{key: key, elems: c01SortDedup(append([]string{}, cfg...))})
		}
		switch store {
		case 0:
			strs("strs", n)
			strs("roles", n+1)
			strs("nums", n+3)
			link("places", 1, n+3)
			link("friends", 0, n)
		case 1:
			strs("biz", n)
			link("orgs", 2, n+1)
			link("visitors", 0, n+5)
		case 2:
			strs("kinds", n)
		}
	}
	add := func(store int, id string, kind byte, links []c01Field) {
		e := c01Entity{id: id, fields: append(c01bScalars(store, kind), links...)}
		if kind != 'M' {
			addSets(store, &e)
		}
		d.stores[store] = append(d.stores[store], e)
	}
	fk := func(key, id string) c01Field { return c01bF(c01Val{k: 's', s: id}, key) }
	// the END entities; those that carry links point on into the ends (the chains simply continue)
	for k, kind := range c01bKinds {
		var lp, ll []c01Field
		if kind != 'N' && kind != 'M' {
			lp = []c01Field{fk("place", c01bEndId(1, (k+1)%5))}
			ll = []c01Field{fk("owner", c01bEndId(0, (k+2)%5)), fk("org", c01bEndId(2, (k+1)%5))}
		}
		if kind == 'N' {
			lp = c01bBrokenFk("nil", "place")
			ll = append(c01bBrokenFk("nil", "owner"), c01bBrokenFk("nil", "org")...)
		}
		add(0, c01bEndId(0, k), kind, lp)
		add(1, c01bEndId(1, k), kind, ll)
		add(2, c01bEndId(2, k), kind, nil)
	}
	mid := []byte{'Z', 'V', 'Y'}
	chain := 0
	mk := func(typ byte, last []c01Field) {
		// a0..a3; typ 'A': people, places, people, places; typ 'B': places, people, places, people
		for pos := 0; pos < 4; pos++ {
			store := pos % 2
			if typ == 'B' {
				store = 1 - store
			}
			id := fmt.Sprintf("%c%02d%d", typ+32, chain, pos)
			next := fmt.Sprintf("%c%02d%d", typ+32, chain, pos+1)
			var links []c01Field
			if pos == 3 {
				links = last
			} else if store == 0 {
				links = []c01Field{fk("place", next)}
			} else {
				// the hop the chain does not use fails in turn in every way, or reaches an end org
				links = []c01Field{fk("owner", next)}
				if r := (chain + pos) % 7; r < 5 {
					links = append(links, c01bBrokenFk(c01bBroken[r], "org")...)
				} else {
					links = append(links, fk("org", c01bEndId(2, (chain+pos)%5)))
				}
			}
			add(store, id, mid[(chain+pos)%3], links)
		}
		chain++
	}
	for k := range c01bKinds {
		mk('A', []c01Field{fk("owner", c01bEndId(0, k)), fk("org", c01bEndId(2, k))})
		mk('B', []c01Field{fk("place", c01bEndId(1, k))})
	}
	for _, how := range c01bBroken {
		mk('A', append(c01bBrokenFk(how, "owner"), c01bBrokenFk(how, "org")...))
		mk('B', c01bBrokenFk(how, "place"))
	}
	for st := range d.stores {
		ents := d.stores[st]
		for i := 1; i < len(ents); i++ { // the D line lists entities in id order
			for j := i; j > 0 && ents[j].id < ents[j-1].id; j-- {
				ents[j], ents[j-1] = ents[j-1], ents[j]
			}
		}
	}
	return d
}

// c01bChildData: child-store data for the boundary dataset: per child store the members hold boundary values,
// ordinary values or nil markers only, in turn; every fourth entity is not a member.  An own foreign key points at an
// end entity of each kind / fails in each way.
func c01bChildData(d *c01Dataset) *c01Dataset {
	for root := 0; root < c01Roots && root < len(d.stores); root++ {
		for ci, child := range c01ChildrenOf(root) {
			cd := c01Cur.raw[child]
			for ei := range d.stores[root] {
				e := &d.stores[root][ei]
				mode := (ei + ci) % 4 // 0 boundary, 1 ordinary, 2 not a member, 3 nil markers
				if mode == 2 {
					continue
				}
				for k, s := range cd.syms {
					path := append(append(append([]string{}, cd.path...), s.prefix...), s.key)
					v := c01Val{k: 'n'}
					switch {
					case mode == 3:
					case s.linked >= 0:
						r := (ei/4 + k) % 8
						switch {
						case r < 5:
							v = c01Val{k: 's', s: c01bEndId(s.linked, r)}
						case r == 5:
							v = c01Val{k: 's', s: ""}
						case r == 6:
							v = c01Val{k: 's', s: "zz"}
						}
					case mode == 0:
						v = c01bBoundaryValue(s.gen, ei/4)
					default:
						v = c01FixedValue(s.gen, 4*(ei/4)) // the first (non-boundary) value of each list
					}
					e.fields = append(e.fields, c01Field{path: path, v: v})
				}
				for _, m := range cd.maps {
					base := append(append(append([]string{}, cd.path...), m.prefix...), m.key)
					switch mode {
					case 0:
						e.fields = append(e.fields, c01Field{path: append(append([]string{}, base...), "a"), v: c01Val{k: 's', s: ""}})
						e.fields = append(e.fields, c01Field{path: append(append([]string{}, base...), "sub", "k"), v: c01Val{k: 'i', i: 0}})
					case 1:
						e.fields = append(e.fields, c01Field{path: append(append([]string{}, base...), "a"), v: c01Val{k: 's', s: "ab"}})
						e.fields = append(e.fields, c01Field{path: append(append([]string{}, base...), "sub", "k"), v: c01Val{k: 'b', b: false}})
					}
				}
			}
		}
	}
	return d
}

func c01bBoundaryValue(gen string, k int) c01Val {
	switch gen {
	case "str", "strnum":
		return c01Val{k: 's', s: ""}
	case "int32":
		return c01Val{k: 'w', i: 0}
	case "int64":
		if k%2 == 1 {
			return c01Val{k: 'w', i: 0}
		}
		return c01Val{k: 'i', i: 0}
	case "float", "wholefloat":
		if k%2 == 1 {
			return c01Val{k: 'f', f: math.Copysign(0, -1)}
		}
		return c01Val{k: 'f', f: 0}
	case "bool":
		return c01Val{k: 'b', b: false}
	case "time":
		if k%2 == 1 {
			return c01Val{k: 't', sec: c01bZeroTimeSec}
		}
		return c01Val{k: 't', sec: 0}
	}
	return c01Val{k: 'n'}
}

// ---- left-hand sides ------------------------------------------------------------------------------------------

type c01bLhs struct {
	lhs *c01Lhs
	ty  byte
	ids int
}

// c01bChains: every fk chain of 1..maxHops hops from a root store, followed by every terminal of the store it ends
// in (all of them after one hop, one per type after more)
func c01bChains(store int, maxHops int) []c01bLhs {
	var out []c01bLhs
	var walk func(st int, prefix string, hops int)
	walk = func(st int, prefix string, hops int) {
		if hops > 0 {
			terms := c01bTermsFull[st]
			if hops > 1 {
				terms = c01bTermsShort[st]
			}
			for _, t := range terms {
				out = append(out, c01bLhs{lhs: &c01Lhs{k: "sym", name: prefix + t.name}, ty: t.ty, ids: t.ids})
			}
		}
		if hops == maxHops {
			return
		}
		for _, h := range c01bFkHops[st] {
			walk(h.to, prefix+h.name+".", hops+1)
		}
	}
	walk(store, "", 0)
	return out
}

type c01bSetSym struct {
	name   string
	ty     byte
	ids    int
	linked int // the store a sub-query over it ranges over, -1
}

// c01bSetSyms: direct sets and the dotted set symbols of the shapes set.T, set.fk.T, fk.set.T, set.set.T (T a scalar
// terminal, a plain string set, or nothing = the ids)
func c01bSetSyms(store int, deep bool) []c01bSetSym {
	var out []c01bSetSym
	tails := func(st int, prefix string, full bool) {
		terms := c01bTermsShort[st]
		if full {
			terms = c01bTermsFull[st]
		}
		for _, t := range terms {
			if t.name == "id" && !full {
				continue
			}
			out = append(out, c01bSetSym{name: prefix + t.name, ty: t.ty, ids: t.ids, linked: -1})
		}
		for _, s := range c01bStrSets[st] {
			out = append(out, c01bSetSym{name: prefix + s, ty: 's', ids: -1, linked: -1})
		}
	}
	for _, s := range c01bStrSets[store] {
		out = append(out, c01bSetSym{name: s, ty: 's', ids: -1, linked: -1})
	}
	for _, h := range c01bSetHops[store] {
		out = append(out, c01bSetSym{name: h.name, ty: 's', ids: h.to, linked: h.to})
		tails(h.to, h.name+".", true) // set.T
		if !deep {
			continue
		}
		for _, h2 := range c01bFkHops[h.to] { // set.fk, set.fk.T
			out = append(out, c01bSetSym{name: h.name + "." + h2.name, ty: 's', ids: h2.to, linked: h2.to})
			tails(h2.to, h.name+"."+h2.name+".", false)
		}
		for _, h2 := range c01bSetHops[h.to] { // set.set, set.set.T
			out = append(out, c01bSetSym{name: h.name + "." + h2.name, ty: 's', ids: h2.to, linked: h2.to})
			tails(h2.to, h.name+"."+h2.name+".", false)
		}
	}
	for _, h := range c01bFkHops[store] { // fk.strs, fk.set, fk.set.T
		for _, s := range c01bStrSets[h.to] {
			out = append(out, c01bSetSym{name: h.name + "." + s, ty: 's', ids: -1, linked: -1})
		}
		for _, h2 := range c01bSetHops[h.to] {
			out = append(out, c01bSetSym{name: h.name + "." + h2.name, ty: 's', ids: h2.to, linked: h2.to})
			if deep {
				tails(h2.to, h.name+"."+h2.name+".", false)
			}
		}
	}
	return out
}

// ---- literals ---------------------------------------------------------------------------------------------------

// c01bLits: for a terminal of the given type the boundary literal first, then an ordinary one, null, and the
// literals of other kinds that the documented coercions turn into the same comparison
func c01bLits(ty byte, ids int) []*c01Lit {
	null := &c01Lit{k: 'N'}
	switch ty {
	case 's':
		if ids >= 0 {
			return []*c01Lit{{k: 'S', s: ""}, {k: 'S', s: c01bEndId(ids, 0)}, null, {k: 'S', s: "zz"}, {k: 'I', i: 0}}
		}
		return []*c01Lit{{k: 'S', s: ""}, {k: 'S', s: "ab"}, null, {k: 'S', s: "0"}, {k: 'I', i: 0}, {k: 'F', ftxt: "0.0"}}
	case 'i':
		return []*c01Lit{{k: 'I', i: 0}, {k: 'I', i: 5}, null, {k: 'F', ftxt: "0.0"}, {k: 'F', ftxt: "-0.5"}, {k: 'S', s: ""}, {k: 'S', s: "0"}}
	case 'f':
		return []*c01Lit{{k: 'F', ftxt: "0.0"}, {k: 'F', ftxt: "1.5"}, null, {k: 'F', ftxt: "-0.0"}, {k: 'I', i: 0}, {k: 'S', s: ""}, {k: 'S', s: "-0"}}
	case 'b':
		return []*c01Lit{{k: 'B', b: false}, {k: 'B', b: true}, null, {k: 'S', s: ""}}
	case 'd':
		return []*c01Lit{{k: 'D', sec: 0, ns: 0}, {k: 'D', sec: 1600000000, ns: 1, zone: 1}, null, {k: 'D', sec: c01bZeroTimeSec, ns: 0}, {k: 'S', s: ""}}
	default:
		return []*c01Lit{{k: 'S', s: ""}, {k: 'S', s: "ab"}, null, {k: 'I', i: 0}, {k: 'F', ftxt: "0.0"}, {k: 'B', b: false}, {k: 'S', s: "0"}}
	}
}

func c01bArrays(ty byte, ids int) []struct {
	k   string
	arr []*c01Lit
} {
	type arr = struct {
		k   string
		arr []*c01Lit
	}
	as := arr{"AS", []*c01Lit{{k: 'S', s: "zz"}, {k: 'S', s: ""}}}
	an := arr{"AN", []*c01Lit{{k: 'I', i: 5}, {k: 'I', i: 0}}}
	af := arr{"AN", []*c01Lit{{k: 'F', ftxt: "-0.0"}, {k: 'I', i: 7}}}
	ad := arr{"AD", []*c01Lit{{k: 'D', sec: 1600000000, ns: 0}, {k: 'D', sec: 0, ns: 0, zone: 2}}}
	az := arr{"AD", []*c01Lit{{k: 'D', sec: c01bZeroTimeSec, ns: 0}}}
	switch ty {
	case 's':
		return []arr{as, an}
	case 'i', 'f':
		return []arr{an, af}
	case 'd':
		return []arr{ad, az}
	case 'b':
		return []arr{as}
	default:
		return []arr{as, an, af}
	}
}

func c01bBounds(ty byte) [][2]*c01Lit {
	switch ty {
	case 'i', 'f', 'a':
		return [][2]*c01Lit{{{k: 'I', i: 0}, {k: 'I', i: 1}}, {{k: 'F', ftxt: "-0.5"}, {k: 'F', ftxt: "0.0"}}}
	case 'd':
		return [][2]*c01Lit{{{k: 'D', sec: 0, ns: 0}, {k: 'D', sec: 0, ns: 1}}, {{k: 'D', sec: c01bZeroTimeSec, ns: 0}, {k: 'D', sec: 0, ns: 0}}}
	default:
		return [][2]*c01Lit{{{k: 'I', i: 0}, {k: 'I', i: 1}}}
	}
}

// ---- the sweep ----------------------------------------------------------------------------------------------------

// c01bSweepStore: the boundary sweep through one store over the loaded boundary dataset.
//
// How many (operator, literal) combinations a left-hand side gets depends on its level:
//
//	0 full    10 operators x all literals of the terminal's type, every array and pair of bounds
//	1 medium  = != < >= contains, not icontains x (boundary, ordinary, null), one array, one pair of bounds
//	2 light   = != contains x (boundary, ordinary, null), one array
//
// quick tier: direct symbols and one-hop chains full, longer chains and set.T medium, deeper set shapes light;
// schema variants (the operator tables are the same code; what differs is where the symbols find their values) light.
// thorough tier: everything full under the base schema, medium under the variants.
func c01bSweepStore(r *c01Runner, store int, variant bool, thorough bool) int {
	n := 0
	run := func(f *c01Filter) {
		r.runFilter(store, &c01Filter{k: "q", a: f})
		n++
	}
	level := func(quick int) int {
		switch {
		case variant && thorough:
			return 1
		case variant:
			return 2
		case thorough:
			return 0
		}
		return quick
	}
	atoms := func(l *c01Lhs, ty byte, ids int, lvl int) {
		ops := append(append([]string{}, c01CmpOps...), c01StrOps...)
		lits := c01bLits(ty, ids)
		arrs := c01bArrays(ty, ids)
		bounds := c01bBounds(ty)
		switch lvl {
		case 1:
			ops = []string{"eq", "neq", "lt", "gte", "contains", "nicontains"}
			lits, arrs, bounds = lits[:3], arrs[:1], bounds[:1]
		case 2:
			ops = []string{"eq", "neq", "contains"}
			lits, arrs, bounds = lits[:3], arrs[:1], nil
		}
		for _, op := range ops {
			for _, lit := range lits {
				if lit.k != 'S' && (op == "icontains" || op == "nicontains") && lit != lits[0] {
					continue // the grammar has ICONTAINS STRING only
				}
				run(&c01Filter{k: "bin", lhs: l, op: op, lit: lit})
			}
		}
		for _, a := range arrs {
			for _, neg := range []bool{false, true} {
				run(&c01Filter{k: "in", lhs: l, neg: neg, arrK: a.k, arr: a.arr})
			}
		}
		for _, b := range bounds {
			for _, neg := range []bool{false, true} {
				run(&c01Filter{k: "btw", lhs: l, neg: neg, lo: b[0], hi: b[1]})
			}
		}
	}
	hops := func(name string) int {
		k := 0
		for i := 0; i < len(name); i++ {
			if name[i] == '.' {
				k++
			}
		}
		return k
	}
	root := c01RootOf(store)
	child := c01Cur.raw[store].isChild
	var scalars []c01bLhs
	// direct symbols (a child store: its own symbols, own map elements, dotted symbols through its own foreign keys;
	// the parent's map under the name the child knows it by)
	tags := c01MapNameIn(store, "tags")
	for _, t := range c01bTermsFull[root] {
		name := t.name
		if len(name) > 5 && name[:5] == "tags." {
			name = tags + name[4:]
		}
		scalars = append(scalars, c01bLhs{lhs: &c01Lhs{k: "sym", name: name}, ty: t.ty, ids: t.ids})
	}
	if child {
		for _, s := range c01Cur.raw[store].syms {
			scalars = append(scalars, c01bLhs{lhs: &c01Lhs{k: "sym", name: s.name}, ty: s.ty, ids: s.linked})
			if s.linked >= 0 {
				for _, t := range c01bTermsFull[s.linked] {
					scalars = append(scalars, c01bLhs{lhs: &c01Lhs{k: "sym", name: s.name + "." + t.name}, ty: t.ty, ids: t.ids})
				}
				for _, c := range c01bChains(s.linked, 1) {
					scalars = append(scalars, c01bLhs{lhs: &c01Lhs{k: "sym", name: s.name + "." + c.lhs.name}, ty: c.ty, ids: c.ids})
				}
			}
		}
		for _, m := range c01Cur.raw[store].maps {
			for _, k := range []string{"a", "sub.k", "zz"} {
				scalars = append(scalars, c01bLhs{lhs: &c01Lhs{k: "sym", name: m.name + "." + k}, ty: m.ty, ids: -1})
			}
		}
	}
	maxHops := 3
	if variant && child && !thorough {
		maxHops = 2
	}
	scalars = append(scalars, c01bChains(root, maxHops)...)
	if !variant {
		r.stats[fmt.Sprintf("boundary-lhs:scalar-symbols:store%d", store)] = len(scalars)
		r.stats[fmt.Sprintf("boundary-lhs:set-symbols:store%d", store)] = len(c01bSetSyms(root, true))
	}
	for _, s := range scalars {
		lvl := 0
		if h := hops(s.lhs.name); h >= 3 || (h == 2 && s.ty != 'a') {
			lvl = 1 // two or three hops (a map element's own dots do not count)
		}
		atoms(s.lhs, s.ty, s.ids, level(lvl))
		if s.ty == 'b' || s.ty == 'a' {
			run(&c01Filter{k: "bs", name: s.lhs.name})
			run(&c01Filter{k: "not", a: &c01Filter{k: "bs", name: s.lhs.name}})
		}
	}
	// sets: anyOf / allOf under every operator, count and isEmpty
	for _, s := range c01bSetSyms(root, !variant || thorough) {
		lvl := 1
		if h := hops(s.name); h >= 3 || (h == 2 && s.ty != 'a') {
			lvl = 2
		}
		atoms(&c01Lhs{k: "any", name: s.name}, s.ty, s.ids, level(lvl))
		atoms(&c01Lhs{k: "all", name: s.name}, s.ty, s.ids, level(lvl))
		for _, op := range []string{"eq", "gt"} {
			for _, k := range []int64{0, 1, 2} {
				run(&c01Filter{k: "bin", lhs: &c01Lhs{k: "cnt", name: s.name}, op: op, lit: &c01Lit{k: 'I', i: k}})
			}
		}
		run(&c01Filter{k: "empty", name: s.name})
		if s.linked < 0 || variant {
			continue
		}
		// sub-queries over the entities of the set: the predicate is a direct symbol or an fk chain of the linked store
		// at a boundary value / null
		preds := append([]c01bLhs{}, c01bChains(s.linked, 1)...)
		for _, t := range c01bTermsShort[s.linked] {
			preds = append(preds, c01bLhs{lhs: &c01Lhs{k: "sym", name: t.name}, ty: t.ty, ids: t.ids})
		}
		for _, p := range preds {
			lits := c01bLits(p.ty, p.ids)
			for _, pl := range []*c01Lit{lits[0], lits[2]} {
				for _, op := range []string{"eq", "neq"} {
					sub := &c01Filter{k: "q", a: &c01Filter{k: "bin", lhs: p.lhs, op: op, lit: pl}}
					run(&c01Filter{k: "bin", lhs: &c01Lhs{k: "cntq", name: s.name, sub: sub}, op: "gte", lit: &c01Lit{k: 'I', i: 1}})
					if op == "eq" {
						run(&c01Filter{k: "emptyq", name: s.name, sub: sub})
					}
				}
			}
		}
	}
	return n
}

// c01SweepBoundary: the base schema through people and places, then the storage variants and the child stores
func c01SweepBoundary(r *c01Runner, thorough bool) {
	r.useVariant("base")
	if err := r.loadDataset(c01bDataset()); err != nil {
		panic(err)
	}
	r.stats["boundary-sweep-filters:base"] += c01bSweepStore(r, 0, false, thorough)
	r.stats["boundary-sweep-filters:base"] += c01bSweepStore(r, 1, false, thorough)
	for _, name := range []string{"alias", "hier", "hier-alias"} {
		r.useVariant(name)
		if err := r.loadDataset(c01bChildData(c01Remap(c01bDataset()))); err != nil {
			panic(err)
		}
		for store := range c01Cur.raw {
			if store == 2 || (name != "alias" && !c01Cur.raw[store].isChild) {
				continue // orgs has no links; the base / alias runs swept the root stores with this storage
			}
			r.stats["boundary-sweep-filters:"+name] += c01bSweepStore(r, store, true, thorough)
		}
	}
	r.useVariant("base")
}
