package main

import (
	"fmt"
	"math"
	"strconv"
	"strings"
	"time"

	"github.com/openziti/storage/ast"
	"github.com/openziti/storage/boltz"
	"github.com/openziti/storage/objectz"
	"go.etcd.io/bbolt"
)

// C02 - queries through the stores of a parent / child chain, and re-execution of one compiled query.
//
// A *family* is one bolt entities bucket shared by three stores: the root store, a child store (sub-bucket
// "ext" of the entity bucket) and a grandchild store (sub-bucket "ext"/"sub").  Every row has a level = the
// deepest store whose bucket it has; every column has an owner = the store that declares the symbol (stores
// further down inherit it through GrantSymbols).  A cell is stored in the owner's bucket of the row, so it
// reads as nil through every store when the row's level is below the column's owner.  The dataset line of a
// family holds the cells as the stores see them.  Extra case lines (see coq/extraction/c02_driver.ml):
//
//	L <levels|e> <owners>        layout of the current dataset (digits, one per row / per column)
//	V <tier> <ext>               the store queried from here on (tier 0 root, 1 child, 2 grandchild; ext 1 = Extended())
//	R <bits> <nsort> {sort}* <skip> <limit> <nops> {op}*
//	                             ONE compiled query (ast.Parse once), executed and mutated by the caller:
//	                             q QueryIdsC, w QueryWithCursorC, i IterateIds, o objectz QueryEntitiesC over the
//	                             entities of the store, x unrelated queries in between, S/L SetSkip/SetLimit,
//	                             A AdoptSortFields, P SetPredicate
//
// impl line for R:  n=<runs> { a<k>=<count>:<ids> | a<k>=i:<ids>   e<k>=<skip>/<limit> }   (e = what the query
// object asks for after the k-th execution: nil / negative skip = 0, nil / negative limit = MaxInt64)

type c02View struct {
	tier int
	ext  bool
}

func (v c02View) name() string {
	n := []string{"root", "child", "grandchild"}[v.tier]
	if v.ext {
		n += "-extended"
	}
	return n
}

var c02AllViews = []c02View{{0, false}, {1, false}, {1, true}, {2, false}, {2, true}}

type c02Family struct {
	d      *qDataset // cells as the stores see them (nil where level < owner)
	levels []int
	owners []int
	stores map[c02View]boltz.ConfigurableStore
}

func c02PlainFamily(d *qDataset, store boltz.ConfigurableStore) *c02Family {
	return &c02Family{d: d, levels: make([]int, len(d.rows)), owners: make([]int, len(qCols)),
		stores: map[c02View]boltz.ConfigurableStore{{0, false}: store}}
}

func (f *c02Family) layoutLine() string {
	var b strings.Builder
	b.WriteString("L ")
	if len(f.levels) == 0 {
		b.WriteString("e")
	}
	for _, l := range f.levels {
		b.WriteByte(byte('0' + l))
	}
	b.WriteByte(' ')
	for _, o := range f.owners {
		b.WriteByte(byte('0' + o))
	}
	return b.String()
}

// in: is row i an entity of the store of this view
func (f *c02Family) in(v c02View, i int) bool { return v.tier == 0 || v.ext || f.levels[i] >= v.tier }

func (f *c02Family) entities(v c02View) int {
	m := 0
	for i := range f.d.rows {
		if f.in(v, i) {
			m++
		}
	}
	return m
}

func (f *c02Family) visible(v c02View, col int) bool { return col < 0 || f.owners[col] <= v.tier }

func (f *c02Family) sortVisible(v c02View, fs []qSortField) bool {
	for _, s := range fs {
		if !f.visible(v, s.col) {
			return false
		}
	}
	return true
}

// the column a catalogue filter reads (-1: none)
var c02FilterCol = []int{-1, qColKeep, qColKeep, qColGrp, -1, -1, qColGrp}

func (f *c02Family) filters(v c02View) []int {
	var out []int
	for fi := range qFilters {
		if f.visible(v, c02FilterCol[fi]) {
			out = append(out, fi)
		}
	}
	return out
}

// c02MakeFamily distributes the rows and columns of a generated dataset over the three stores
func c02MakeFamily(r *rng, d0 *qDataset) *c02Family {
	f := &c02Family{d: &qDataset{}, levels: make([]int, len(d0.rows)), owners: make([]int, len(qCols))}
	for ci := range qCols {
		switch x := r.intn(10); {
		case x < 5:
			f.owners[ci] = 0
		case x < 8:
			f.owners[ci] = 1
		default:
			f.owners[ci] = 2
		}
	}
	// at least one sortable column in the root and one in the child store
	a := r.intn(6)
	f.owners[a] = 0
	f.owners[(a+1+r.intn(5))%6] = 1
	for i := range d0.rows {
		switch x := r.intn(100); {
		case x < 35:
			f.levels[i] = 0
		case x < 70:
			f.levels[i] = 1
		default:
			f.levels[i] = 2
		}
	}
	if n := len(d0.rows); n >= 3 {
		// a mixed population: a row of the parent only, a row of the child only, a row of all three
		p := qShuffled(r, n)
		f.levels[p[0]], f.levels[p[1]], f.levels[p[2]] = 0, 1, 2
	}
	f.setCells(d0)
	return f
}

func (f *c02Family) setCells(d0 *qDataset) {
	f.d = &qDataset{}
	for i, row := range d0.rows {
		nr := qRow{id: row.id}
		for ci, c := range row.cells {
			if f.levels[i] < f.owners[ci] {
				c = qCell{kind: 'N', absent: true}
			}
			nr.cells = append(nr.cells, c)
		}
		f.d.rows = append(f.d.rows, nr)
	}
}

// c02ProbeFamily: the probe dataset of c02.go with a fixed layout - rows of the parent only sort first,
// last and in the middle of the child's rows under the various keys
func c02ProbeFamily() *c02Family {
	f := &c02Family{levels: []int{0, 1, 2, 0, 1, 2, 0, 1}, owners: []int{0, 1, 0, 1, 2, 0, 1, 0}}
	f.setCells(qProbeDataset())
	return f
}

func c02WriteCell(eb *boltz.TypedBucket, name string, c qCell) {
	switch c.kind {
	case 'N':
		if !c.absent {
			eb.SetNil(name)
		}
	case 'S':
		eb.SetString(name, c.s, nil)
	case 'I':
		if c.as32 {
			eb.SetInt32(name, int32(c.i), nil)
		} else {
			eb.SetInt64(name, c.i, nil)
		}
	case 'F':
		eb.SetFloat64(name, math.Float64frombits(c.f), nil)
	case 'B':
		eb.SetBool(name, c.b, nil)
	case 'T':
		t := time.Unix(c.sec, c.nsec).UTC()
		eb.SetTimeP(name, &t, nil)
	}
}

func c02AddColSymbol(store boltz.ConfigurableStore, col qCol) {
	switch col.typ {
	case 's':
		store.AddSymbol(col.name, ast.NodeTypeString)
	case 'i':
		store.AddSymbol(col.name, ast.NodeTypeInt64)
	case 'f':
		store.AddSymbol(col.name, ast.NodeTypeFloat64)
	case 'b':
		store.AddSymbol(col.name, ast.NodeTypeBool)
	case 't':
		store.AddSymbol(col.name, ast.NodeTypeDatetime)
	}
}

// c02LoadFamily writes the rows under a fresh base path and builds the five stores over them
func (q *qBolt) c02LoadFamily(f *c02Family) error {
	q.seq++
	base := fmt.Sprintf("fam%d", q.seq)
	rootDef := (&boltz.StoreDefinition[boltz.Entity]{EntityType: "rows"}).WithBasePath(base)
	root := boltz.NewBaseStore(*rootDef)
	root.AddIdSymbol("id", ast.NodeTypeString)
	for ci, col := range qCols {
		if f.owners[ci] == 0 {
			c02AddColSymbol(root, col)
		}
	}
	derive := func(parent *boltz.BaseStore[boltz.Entity], tier int, ext bool, path ...string) *boltz.BaseStore[boltz.Entity] {
		st := boltz.NewBaseStore(boltz.StoreDefinition[boltz.Entity]{Parent: parent, BasePath: path})
		if ext {
			st.Extended()
		}
		parent.GrantSymbols(st)
		for ci, col := range qCols {
			if f.owners[ci] == tier {
				c02AddColSymbol(st, col)
			}
		}
		return st
	}
	child := derive(root, 1, false, "ext")
	f.stores = map[c02View]boltz.ConfigurableStore{
		{0, false}: root,
		{1, false}: child,
		{1, true}:  derive(root, 1, true, "ext"),
		{2, false}: derive(child, 2, false, "ext", "sub"),
		{2, true}:  derive(child, 2, true, "ext", "sub"),
	}
	return q.db.Update(func(tx *bbolt.Tx) error {
		bucket := boltz.GetOrCreatePath(tx, base, "rows")
		for i, r := range f.d.rows {
			tiers := []*boltz.TypedBucket{bucket.GetOrCreatePath(r.id), nil, nil}
			if f.levels[i] >= 1 {
				tiers[1] = tiers[0].GetOrCreatePath("ext") // present in the child store even when it holds no value
			}
			if f.levels[i] >= 2 {
				tiers[2] = tiers[1].GetOrCreatePath("sub")
			}
			for ci, c := range r.cells {
				if o := f.owners[ci]; f.levels[i] >= o {
					c02WriteCell(tiers[o], qCols[ci].name, c)
				}
			}
			for _, b := range tiers {
				if b != nil && b.Err != nil {
					return b.Err
				}
			}
		}
		return bucket.Err
	})
}

// ---- the objectz twin over the entities of a store ----------------------------------------------------

type c02Objects struct {
	store *objectz.ObjectStore[*qRow]
	rows  []*qRow
}

type c02ObjIter struct {
	rows []*qRow
	pos  int
}

func (it *c02ObjIter) IsValid() bool { return it.pos < len(it.rows) }
func (it *c02ObjIter) Next()         { it.pos++ }
func (it *c02ObjIter) Current() *qRow {
	if it.pos < len(it.rows) {
		return it.rows[it.pos]
	}
	return nil
}

func c02NewObjects() *c02Objects {
	o := &c02Objects{}
	o.store = objectz.NewObjectStore[*qRow](func() objectz.ObjectIterator[*qRow] { return &c02ObjIter{rows: o.rows} })
	o.store.AddStringSymbol("id", func(r *qRow) *string { return &r.id })
	for ci, col := range qCols {
		ci := ci
		switch col.typ {
		case 's':
			o.store.AddStringSymbol(col.name, func(r *qRow) *string {
				if c := r.cells[ci]; c.kind == 'S' {
					v := c.s
					return &v
				}
				return nil
			})
		case 'i':
			o.store.AddInt64Symbol(col.name, func(r *qRow) *int64 {
				if c := r.cells[ci]; c.kind == 'I' {
					v := c.i
					return &v
				}
				return nil
			})
		case 'f':
			o.store.AddFloat64Symbol(col.name, func(r *qRow) *float64 {
				if c := r.cells[ci]; c.kind == 'F' {
					v := math.Float64frombits(c.f)
					return &v
				}
				return nil
			})
		case 'b':
			o.store.AddBoolSymbol(col.name, func(r *qRow) *bool {
				if c := r.cells[ci]; c.kind == 'B' {
					v := c.b
					return &v
				}
				return nil
			})
		case 't':
			o.store.AddDatetimeSymbol(col.name, func(r *qRow) *time.Time {
				if c := r.cells[ci]; c.kind == 'T' {
					v := time.Unix(c.sec, c.nsec).UTC()
					return &v
				}
				return nil
			})
		}
	}
	return o
}

func (o *c02Objects) setEntities(f *c02Family, v c02View) {
	o.rows = o.rows[:0]
	for i := range f.d.rows {
		if f.in(v, i) {
			o.rows = append(o.rows, &f.d.rows[i])
		}
	}
}

// ---- programs over one compiled query ---------------------------------------------------------------------

type c02Op struct {
	kind   byte // q w i o x S L A P
	z      int64
	sort   []qSortField
	filter int
}

func c02SortTokens(fs []qSortField) string {
	var b strings.Builder
	fmt.Fprintf(&b, "%d", len(fs))
	for _, s := range fs {
		dir := "d"
		if s.asc {
			dir = "a"
		}
		if s.col < 0 {
			fmt.Fprintf(&b, " id s %s", dir)
		} else {
			fmt.Fprintf(&b, " %d %c %s", s.col, qCols[s.col].typ, dir)
		}
	}
	return b.String()
}

func c02Bits(d *qDataset, filter int) string {
	if len(d.rows) == 0 {
		return "e"
	}
	b := make([]byte, len(d.rows))
	for i := range d.rows {
		b[i] = '0'
		if qFilters[filter].match(&d.rows[i]) {
			b[i] = '1'
		}
	}
	return string(b)
}

func (op c02Op) token(d *qDataset) string {
	switch op.kind {
	case 'S', 'L':
		return fmt.Sprintf("%c %d", op.kind, op.z)
	case 'A':
		return "A " + c02SortTokens(op.sort)
	case 'P':
		return "P " + c02Bits(d, op.filter)
	}
	return string(op.kind)
}

func c02ProgramLine(d *qDataset, q *qQuery, ops []c02Op) string {
	toks := make([]string, len(ops))
	for i, op := range ops {
		toks[i] = op.token(d)
	}
	return fmt.Sprintf("%s %d %s", q.caseLine("R", d), len(ops), strings.Join(toks, " "))
}

func c02FilterText(fi int) string {
	if t := qFilters[fi].text; t != "" {
		return t
	}
	return "true"
}

// c02Effective: what the query object asks for (the reading of skip / limit the property gives)
func c02Effective(q ast.Query) string {
	var s, l int64 = 0, math.MaxInt64
	if p := q.GetSkip(); p != nil && *p >= 0 {
		s = *p
	}
	if p := q.GetLimit(); p != nil && *p >= 0 {
		l = *p
	}
	return fmt.Sprintf("%d/%d", s, l)
}

// c02RunProgram compiles the query ONCE and applies the operations to that one query object
func c02RunProgram(db *bbolt.DB, store boltz.ConfigurableStore, objs *c02Objects, text string, ops []c02Op) string {
	var out []string
	_ = db.View(func(tx *bbolt.Tx) error {
		query, err := ast.Parse(store, text)
		if err != nil {
			out = append(out, "n=0 parse=ERR")
			return nil
		}
		k := 0
		for _, op := range ops {
			var res string
			switch op.kind {
			case 'q':
				res = qGuard(func() string {
					ids, count, err := store.QueryIdsC(tx, query)
					if err != nil {
						return "ERR"
					}
					return fmt.Sprintf("%d:%s", count, qIdsStr(ids))
				})
			case 'w':
				res = qGuard(func() string {
					bucket := store.GetEntitiesBucket(tx)
					if bucket == nil {
						return "0:-"
					}
					ids, count, err := store.QueryWithCursorC(tx, bucket.OpenCursor, query)
					if err != nil {
						return "ERR"
					}
					return fmt.Sprintf("%d:%s", count, qIdsStr(ids))
				})
			case 'i':
				res = qGuard(func() string {
					var ids []string
					for c := store.IterateIds(tx, query); c.IsValid(); c.Next() {
						ids = append(ids, string(c.Current()))
						if len(ids) > 100000 {
							return "RUNAWAY"
						}
					}
					return "i:" + qIdsStr(ids)
				})
			case 'o':
				res = qGuard(func() string {
					rows, count, err := objs.store.QueryEntitiesC(query)
					if err != nil {
						return "ERR"
					}
					ids := make([]string, len(rows))
					for i, row := range rows {
						ids[i] = row.id
					}
					return fmt.Sprintf("%d:%s", count, qIdsStr(ids))
				})
			case 'x':
				// unrelated activity on the same store: other query objects, compiled from other texts
				_ = qGuard(func() string {
					_, _, _ = store.QueryIds(tx, "true sort by id desc skip 1 limit 1")
					if other, err := ast.Parse(store, "true skip 2"); err == nil {
						for c := store.IterateIds(tx, other); c.IsValid(); c.Next() {
						}
					}
					return ""
				})
				continue
			case 'S':
				query.SetSkip(op.z)
				continue
			case 'L':
				query.SetLimit(op.z)
				continue
			case 'A':
				sq := &qQuery{filter: 0, sort: op.sort}
				if other, err := ast.Parse(store, sq.text()); err == nil {
					if query.AdoptSortFields(other) != nil {
						out = append(out, "adopt=ERR")
					}
				} else {
					out = append(out, "adopt=ERR")
				}
				continue
			case 'P':
				if other, err := ast.Parse(store, c02FilterText(op.filter)); err == nil {
					query.SetPredicate(other.GetPredicate())
				} else {
					out = append(out, "pred=ERR")
				}
				continue
			}
			out = append(out, fmt.Sprintf("a%d=%s e%d=%s", k, res, k, qGuard(func() string { return c02Effective(query) })))
			k++
		}
		out = append([]string{fmt.Sprintf("n=%d", k)}, out...)
		return nil
	})
	return strings.Join(out, " ")
}

// ---- generation ----------------------------------------------------------------------------------------------

var c02Entries = []byte{'q', 'w', 'i', 'o'}

// c02ViewSorts: the systematic sort specifications that only use columns the store of the view declares
func c02ViewSorts(f *c02Family, v c02View) [][]qSortField {
	var out [][]qSortField
	for _, fs := range qSystematicSorts() {
		if f.sortVisible(v, fs) {
			out = append(out, fs)
		}
	}
	// a multi-key specification over the visible sortable columns
	var multi []qSortField
	for col := 0; col < 6; col++ {
		if f.visible(v, col) && len(multi) < 4 {
			multi = append(multi, qSortField{col: col, asc: col%2 == 0})
		}
	}
	if len(multi) > 1 {
		out = append(out, multi)
	}
	return out
}

func c02RandomViewSort(r *rng, f *c02Family, v c02View, maxLen int) []qSortField {
	for try := 0; try < 50; try++ {
		if fs := qRandomSort(r, maxLen); f.sortVisible(v, fs) {
			return fs
		}
	}
	return nil
}

// one specification per scan strategy: id forward, id reverse, sorting (a visible typed column)
func c02StrategySorts(r *rng, f *c02Family, v c02View) [][]qSortField {
	var cols []int
	for col := 0; col < 6; col++ {
		if f.visible(v, col) {
			cols = append(cols, col)
		}
	}
	out := [][]qSortField{nil, {{col: -1, asc: false}}}
	if len(cols) > 0 {
		out = append(out, []qSortField{{col: cols[r.intn(len(cols))], asc: r.chance(50)}})
	}
	return out
}

// pages relative to the number m of entities of the queried store and the number n of rows of the root store
func c02ViewPages(m, n int64) []qPaging {
	return []qPaging{{}, {limit: qI64p(1)}, {limit: qI64p(m - 1)}, {limit: qI64p(m)}, {skip: qI64p(1)},
		{skip: qI64p(1), limit: qI64p(1)}, {skip: qI64p(m - 1)}, {skip: qI64p(m)}, {skip: qI64p(1), limit: qI64p(m - 1)},
		{skip: qI64p(-1), limit: qI64p(m)}, {none: true}, {limit: qI64p(n)}, {skip: qI64p(m), limit: qI64p(1)},
		{limit: qI64p(0)}, {skip: qI64p(1), limit: qI64p(2)}, {skip: qI64p(2), limit: qI64p(math.MaxInt64 - 2)}}
}

func c02ProgramPages(m int64) []qPaging {
	return []qPaging{{skip: qI64p(1), limit: qI64p(2)}, {skip: qI64p(2)}, {skip: qI64p(m - 1), limit: qI64p(1)},
		{skip: qI64p(-1), limit: qI64p(1)}, {}, {none: true}, {skip: qI64p(1), none: true}, {skip: qI64p(m + 1), limit: qI64p(3)},
		{skip: qI64p(3), limit: qI64p(math.MaxInt64 - 1)}}
}

func c02RandomOps(r *rng, f *c02Family, v c02View, m int64) []c02Op {
	n := 3 + r.intn(6)
	var ops []c02Op
	filters := f.filters(v)
	for i := 0; i < n; i++ {
		switch x := r.intn(100); {
		case x < 60:
			ops = append(ops, c02Op{kind: c02Entries[r.intn(4)]})
		case x < 70:
			ops = append(ops, c02Op{kind: 'S', z: []int64{0, 1, 2, m - 1, m, -1, math.MaxInt64, math.MinInt64, 1 << 62}[r.intn(9)]})
		case x < 80:
			ops = append(ops, c02Op{kind: 'L', z: []int64{0, 1, 2, m, -1, math.MaxInt64, -7, math.MaxInt64 - 1}[r.intn(8)]})
		case x < 88:
			ops = append(ops, c02Op{kind: 'A', sort: c02RandomViewSort(r, f, v, 3)})
		case x < 95:
			ops = append(ops, c02Op{kind: 'P', filter: filters[r.intn(len(filters))]})
		default:
			ops = append(ops, c02Op{kind: 'x'})
		}
	}
	// a program ends with an execution: every mutator is observed
	return append(ops, c02Op{kind: c02Entries[r.intn(4)]})
}

type c02Emitter struct {
	qb    *qBolt
	cases *lineWriter
	impl  *lineWriter
	objs  *c02Objects
	bump  func(group, key string)
	view  c02View
}

func (e *c02Emitter) setView(f *c02Family, v c02View) {
	e.view = v
	e.cases.line("V %d %s", v.tier, b01(v.ext))
	e.impl.line("V")
	e.objs.setEntities(f, v)
}

func (e *c02Emitter) query(f *c02Family, q *qQuery) {
	v := e.view
	e.cases.line("%s", q.caseLine("Q", f.d))
	e.impl.line("%s", qRunBolt(e.qb.db, f.stores[v], q.text()))
	strat := "sorting"
	if len(q.sort) == 0 || q.sort[0].col < 0 {
		strat = "id-forward"
		if len(q.sort) > 0 && !q.sort[0].asc {
			strat = "id-reverse"
		}
	}
	e.bump("view_x_strategy", v.name()+"/"+strat)
	e.bump("kind", "Q")
	outsiders := 0
	for i := range f.d.rows {
		if !f.in(v, i) && qFilters[q.filter].match(&f.d.rows[i]) {
			outsiders++
		}
	}
	if outsiders > 0 {
		e.bump("matching_rows_outside_the_store", v.name()+"/"+strat)
	}
}

func (e *c02Emitter) program(f *c02Family, q *qQuery, ops []c02Op) {
	v := e.view
	e.cases.line("%s", c02ProgramLine(f.d, q, ops))
	e.impl.line("%s", c02RunProgram(e.qb.db, f.stores[v], e.objs, q.text(), ops))
	e.bump("kind", "R")
	e.bump("program_view", v.name())
	runs, muts := 0, 0
	var prev byte
	for _, op := range ops {
		switch op.kind {
		case 'q', 'w', 'i', 'o':
			runs++
			if prev != 0 {
				e.bump("program_consecutive_runs", string(prev)+"->"+string(op.kind))
			}
			prev = op.kind
		case 'x':
		default:
			muts++
			e.bump("program_mutator", string(op.kind))
		}
	}
	e.bump("program_runs", strconv.Itoa(runs))
	if q.skip != nil && *q.skip > 0 {
		e.bump("program_skip", "positive")
	} else {
		e.bump("program_skip", "absent-zero-negative")
	}
}

// c02Programs: re-execution programs on the store of the current view
func (e *c02Emitter) programs(r *rng, f *c02Family, nRandom int) {
	v := e.view
	m := int64(f.entities(v))
	pages := c02ProgramPages(m)
	// systematic: every ordered pair of entry points (first execution, another one, the first again) for one
	// specification per scan strategy and every program page (rotating through the pairs' pages to bound the cost:
	// every pair meets every strategy, every page meets every pair for at least one strategy)
	for si, fs := range c02StrategySorts(r, f, v) {
		for pi, pg := range pages {
			for a := 0; a < 4; a++ {
				for b := 0; b < 4; b++ {
					if (a*4+b+pi+si)%3 != 0 && !(pg.skip != nil && *pg.skip > 0 && pi < 2) {
						continue
					}
					q := &qQuery{filter: 0, sort: fs, skip: pg.skip, limit: pg.limit, none: pg.none}
					e.program(f, q, []c02Op{{kind: c02Entries[a]}, {kind: c02Entries[b]}, {kind: c02Entries[a]}})
				}
			}
		}
	}
	filters := f.filters(v)
	for k := 0; k < nRandom; k++ {
		q := &qQuery{filter: filters[r.intn(len(filters))], sort: c02RandomViewSort(r, f, v, 4)}
		if r.chance(80) {
			q.skip = qI64p(int64(r.intn(int(m)+3)) - 1)
			if r.chance(10) {
				q.skip = qI64p(c02NearExtreme(r, int(m)))
			}
		}
		switch r.intn(5) {
		case 0:
		case 1:
			q.none = true
		default:
			q.limit = qI64p(int64(r.intn(int(m)+3)) - 1)
			if r.chance(10) {
				q.limit = qI64p(c02NearExtreme(r, int(m)))
			}
		}
		e.program(f, q, c02RandomOps(r, f, v, m))
	}
}

// c02FamilyQueries: sort / skip / limit / count through every store of the chain
func (e *c02Emitter) familyQueries(r *rng, f *c02Family, thorough bool) {
	n := int64(len(f.d.rows))
	for _, v := range c02AllViews {
		e.setView(f, v)
		m := int64(f.entities(v))
		filters := f.filters(v)
		// every systematic specification the store can serve x the pages around the store's own size
		for _, fs := range c02ViewSorts(f, v) {
			filter := 0
			if r.chance(40) {
				filter = filters[r.intn(len(filters))]
			}
			for _, pg := range c02ViewPages(m, n) {
				e.query(f, &qQuery{filter: filter, sort: fs, skip: pg.skip, limit: pg.limit, none: pg.none})
			}
		}
		// the full paging grid (relative to the store's size) for one specification per scan strategy
		for _, fs := range c02StrategySorts(r, f, v) {
			filter := filters[r.intn(len(filters))]
			for _, pg := range qPagingGrid(m) {
				e.query(f, &qQuery{filter: filter, sort: fs, skip: pg.skip, limit: pg.limit, none: pg.none})
			}
		}
		nr := 30
		if thorough {
			nr = 60
		}
		for k := 0; k < nr; k++ {
			q := &qQuery{filter: filters[r.intn(len(filters))], sort: c02RandomViewSort(r, f, v, 5)}
			if r.chance(75) {
				q.skip = qI64p(int64(r.intn(int(n)+4)) - 2)
			}
			switch r.intn(4) {
			case 0:
			case 1:
				q.none = true
			default:
				q.limit = qI64p(int64(r.intn(int(n)+3)) - 1)
			}
			e.query(f, q)
		}
		e.programs(r, f, nr)
	}
}

// ---- replay ---------------------------------------------------------------------------------------------------

func c02ParseDigits(t string, n int) ([]int, error) {
	if t == "e" {
		t = ""
	}
	if len(t) != n {
		return nil, fmt.Errorf("layout %q: expected %d digits", t, n)
	}
	out := make([]int, n)
	for i := range out {
		out[i] = int(t[i] - '0')
		if out[i] < 0 || out[i] > 2 {
			return nil, fmt.Errorf("layout %q: bad digit", t)
		}
	}
	return out, nil
}

// c02FilterFromBits: first catalogue filter the store of the view can evaluate that produces these match bits
func c02FilterFromBits(f *c02Family, v c02View, bits string) (int, error) {
	for _, fi := range f.filters(v) {
		if c02Bits(f.d, fi) == bits {
			return fi, nil
		}
	}
	return -1, fmt.Errorf("no catalogue filter of the %s store produces match bits %s", v.name(), bits)
}

func c02ParseSort(toks []string, pos int) ([]qSortField, int, error) {
	if pos >= len(toks) {
		return nil, pos, fmt.Errorf("short sort")
	}
	ns, err := strconv.Atoi(toks[pos])
	pos++
	if err != nil || pos+3*ns > len(toks) {
		return nil, pos, fmt.Errorf("malformed sort")
	}
	var fs []qSortField
	for i := 0; i < ns; i++ {
		sf := qSortField{col: -1, asc: toks[pos+2] == "a"}
		if toks[pos] != "id" {
			sf.col, _ = strconv.Atoi(toks[pos])
		}
		fs = append(fs, sf)
		pos += 3
	}
	return fs, pos, nil
}

// c02ParseProgram: an R line -> query and operations
func c02ParseProgram(toks []string, f *c02Family, v c02View) (*qQuery, []c02Op, error) {
	if len(toks) < 3 {
		return nil, nil, fmt.Errorf("short program line")
	}
	fs, pos, err := c02ParseSort(toks, 2)
	if err != nil || pos+3 > len(toks) {
		return nil, nil, fmt.Errorf("malformed program line")
	}
	q, err := qQueryFromCase(append([]string{}, toks[:pos+2]...))
	if err != nil {
		return nil, nil, err
	}
	q.sort = fs
	if q.filter, err = c02FilterFromBits(f, v, toks[1]); err != nil {
		return nil, nil, err
	}
	pos += 3 // skip, limit, nops
	var ops []c02Op
	for pos < len(toks) {
		t := toks[pos]
		pos++
		switch t {
		case "q", "w", "i", "o", "x":
			ops = append(ops, c02Op{kind: t[0]})
		case "S", "L":
			z, err := strconv.ParseInt(toks[pos], 10, 64)
			if err != nil {
				return nil, nil, err
			}
			pos++
			ops = append(ops, c02Op{kind: t[0], z: z})
		case "A":
			var afs []qSortField
			if afs, pos, err = c02ParseSort(toks, pos); err != nil {
				return nil, nil, err
			}
			ops = append(ops, c02Op{kind: 'A', sort: afs})
		case "P":
			fi, err := c02FilterFromBits(f, v, toks[pos])
			if err != nil {
				return nil, nil, err
			}
			pos++
			ops = append(ops, c02Op{kind: 'P', filter: fi})
		default:
			return nil, nil, fmt.Errorf("bad operation %q", t)
		}
	}
	return q, ops, nil
}

func c02ProgramText(q *qQuery, ops []c02Op) string {
	var parts []string
	for _, op := range ops {
		switch op.kind {
		case 'q':
			parts = append(parts, "QueryIdsC")
		case 'w':
			parts = append(parts, "QueryWithCursorC")
		case 'i':
			parts = append(parts, "IterateIds")
		case 'o':
			parts = append(parts, "objectz.QueryEntitiesC")
		case 'x':
			parts = append(parts, "(other queries)")
		case 'S':
			parts = append(parts, fmt.Sprintf("SetSkip(%d)", op.z))
		case 'L':
			parts = append(parts, fmt.Sprintf("SetLimit(%d)", op.z))
		case 'A':
			parts = append(parts, fmt.Sprintf("AdoptSortFields(`%s`)", (&qQuery{filter: 0, sort: op.sort}).text()))
		case 'P':
			parts = append(parts, fmt.Sprintf("SetPredicate(`%s`)", c02FilterText(op.filter)))
		}
	}
	return fmt.Sprintf("q := Parse(`%s`); %s", q.text(), strings.Join(parts, "; "))
}
