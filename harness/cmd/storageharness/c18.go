package main

import (
	"errors"
	"fmt"
	"os"
	"path/filepath"
	"runtime"
	"sort"
	"strconv"
	"strings"
	"sync"
	"sync/atomic"
	"time"

	"github.com/openziti/storage/ast"
	"github.com/openziti/storage/boltz"
	"github.com/openziti/storage/zitiql"
	"go.etcd.io/bbolt"
)

// C18 - concurrent use.  Case lines (see coq/extraction/c18_driver.ml):
//
//	W <commit> <n> <op>...      a writer transaction, in commit order
//	    op := put <id> <name> <group|nil> <val> <ntags> <tag>... | patch <id> <val> <ntags> <tag>...
//	        | del <id> | link <item> <group> | unlink <item> <group>
//	    observation: "W <version now current>"
//	    trailing tokens, ignored by the model: "form <f> at <k> <rkind>" (c18_s3.go) and, on a line with commit flag 0,
//	    "fail <kind> <k>" = the transaction fails part-way (c18_s6.go: caller | precommit | unique | notfound | veto);
//	    form cb = member of a batch of concurrent Db.Batch callers (members that commit: "W <version they wrote>")
//	Q <reader> <tx> <version> <query...>   one query of a read transaction, tagged with the version
//	    marker the same transaction read (before and after its queries)
//	    query := load <id> | name <n> | tag <t> | gitems <g> | links <i> | rlinks <g>
//	           | f1 <g> <v> | f2 <t> | f3 <v> | count
//	           | list <skip> <limit> | all                 empty filter: Parse("")+SetSkip/SetLimit+QueryIdsC (-1 = not set) / QueryIds(tx, "")
//	           | f4 <g> | f5 <g> | f6 <t> | f7 <n> | f8 <i>  dotted fk / dotted set symbols of the item store
//	           | wcount <n> | notags | subhas <g> | subcount <g> <n> | page <v> <skip> <limit>
//	           | gname <n> | gtag <t> | gwtag <t> | gsub <v> | glist <skip> <limit>     group store
//	           | xb <0|1> | xbs <v> | xs <label|nil> | xss <v> | xg | xw | gxb <0|1>      external (func) symbols (c18_s2.go)
//	           | tagc <t> <fwd> | tagkeys <fwd> | linked <i> <g> | gidx <n>              index / link read paths (c18_s2.go)
//	           | loadby <id> | loadent <id> | loadraw <id> | tagm <t> | tagany <t>      more loaders / id-list builders (c18_s3.go; model: load, tag)
//	           | at <place> <query>      the same query on the store family at another base path (c18_s2.go:
//	                                     every writer operation is applied to every family in the same transaction)
//	    observation: "Q ids <id>..." | "Q item ..." | "Q count n n n" | "Q torn v1 v2" | "Q error ..."
//	    reader = wb | w | wu and tx = ordinal of a W line: read transactions of the writer goroutine before / after
//	    a transaction that did not commit (c18_s6.go)
//	S <symbol>  /  P <filter>    symbol resolution / parsing under concurrency equals the sequential answer: "S same"
//	X <helper>                   helper hammered from many goroutines gave the right answers: "X ok"
//
// The whole command is meant to run in a binary built with -race; race reports go to the file
// named by GORACE=log_path.
func init() { commands["c18"] = runC18 }

type c18Item struct {
	id, name string
	group    *string
	val      int64
	tags     []string
}

type c18Op struct {
	kind string
	it   c18Item
	a, b string
}

func (o c18Op) String() string {
	tags := func(t []string) string {
		s := strconv.Itoa(len(t))
		for _, x := range t {
			s += " " + hxs(x)
		}
		return s
	}
	switch o.kind {
	case "put":
		g := "nil"
		if o.it.group != nil {
			g = hxs(*o.it.group)
		}
		return fmt.Sprintf("put %s %s %s %d %s", hxs(o.it.id), hxs(o.it.name), g, o.it.val, tags(o.it.tags))
	case "patch":
		return fmt.Sprintf("patch %s %d %s", hxs(o.it.id), o.it.val, tags(o.it.tags))
	case "del":
		return "del " + hxs(o.a)
	default:
		return o.kind + " " + hxs(o.a) + " " + hxs(o.b)
	}
}

var c18Ids = []string{"i00", "i01", "i02", "i03", "i04", "i05", "i06", "i07", "i08", "i09"}
var c18NamePool = []string{"alpha", "beta", "gamma", "delta", "eps", "zeta", "eta", "theta", "iota", "kappa", "la", "mu", "nu"}
var c18Groups = []string{"g0", "g1", "g2"}
var c18TagPool = []string{"t0", "t1", "t2", "t3"}

type c18World struct {
	db     *boltz.DbImpl
	stores *csStores   // = fams[0], the family below "stores"
	fams   []*csStores // the same stores at base paths of depth 1, 0, 2, 3 (c18s2Places)
	dir    string
	// c18_s3.go: events the readers' kept values have lived through
	commits, restores int64
	stuckEarlier      map[string]bool // goroutines of abandoned "D" scenarios
}

// writer-side tracking of the current state, to issue only valid operations
type c18Track struct {
	items map[string]c18Item
	links map[[2]string]bool
}

func (t *c18Track) clone() *c18Track {
	n := &c18Track{items: map[string]c18Item{}, links: map[[2]string]bool{}}
	for k, v := range t.items {
		n.items[k] = v
	}
	for k, v := range t.links {
		n.links[k] = v
	}
	return n
}

func (t *c18Track) nameUsed(name, except string) bool {
	for id, it := range t.items {
		if id != except && it.name == name {
			return true
		}
	}
	return false
}

func c18GenTags(r *rng) []string {
	var out []string
	for _, t := range c18TagPool {
		if r.chance(35) {
			out = append(out, t)
		}
	}
	return out
}

func (t *c18Track) genOp(r *rng) (c18Op, bool) {
	existing := make([]string, 0, len(t.items))
	for id := range t.items {
		existing = append(existing, id)
	}
	sort.Strings(existing)
	switch x := r.intn(100); {
	case x < 40 || len(existing) == 0:
		id := r.pick(c18Ids)
		name := r.pick(c18NamePool)
		if old, ok := t.items[id]; ok && r.chance(50) {
			name = old.name
		}
		if t.nameUsed(name, id) {
			return c18Op{}, false
		}
		var g *string
		if r.chance(75) {
			s := r.pick(c18Groups)
			g = &s
		}
		it := c18Item{id: id, name: name, group: g, val: int64(r.intn(16)) - 3, tags: c18GenTags(r)}
		t.items[id] = it
		return c18Op{kind: "put", it: it}, true
	case x < 55:
		id := r.pick(existing)
		it := t.items[id]
		it.val = int64(r.intn(16)) - 3
		it.tags = c18GenTags(r)
		t.items[id] = it
		return c18Op{kind: "patch", it: it}, true
	case x < 68:
		id := r.pick(existing)
		delete(t.items, id)
		for k := range t.links {
			if k[0] == id {
				delete(t.links, k)
			}
		}
		return c18Op{kind: "del", a: id}, true
	case x < 88:
		id, g := r.pick(existing), r.pick(c18Groups)
		t.links[[2]string{id, g}] = true
		return c18Op{kind: "link", a: id, b: g}, true
	default:
		id, g := r.pick(existing), r.pick(c18Groups)
		delete(t.links, [2]string{id, g})
		return c18Op{kind: "unlink", a: id, b: g}, true
	}
}

func (w *c18World) apply(ctx boltz.MutateContext, o c18Op) error {
	for _, s := range w.fams {
		if err := w.applyTo(s, ctx, o); err != nil {
			return err
		}
	}
	return nil
}

func (w *c18World) applyTo(s *csStores, ctx boltz.MutateContext, o c18Op) error {
	tx := ctx.Tx()
	switch o.kind {
	case "put":
		e := &csItem{Id: o.it.id, Name: o.it.name, Group: o.it.group, Val: o.it.val, Tags: o.it.tags}
		if s.item.IsEntityPresent(tx, o.it.id) {
			return s.item.Update(ctx, e, nil)
		}
		return s.item.Create(ctx, e)
	case "patch":
		return s.item.Update(ctx, &csItem{Id: o.it.id, Val: o.it.val, Tags: o.it.tags},
			boltz.MapFieldChecker{csFieldVal: struct{}{}, csFieldTags: struct{}{}})
	case "del":
		return s.item.DeleteById(ctx, o.a)
	case "link":
		return s.item.watchers.AddLinks(tx, o.a, o.b)
	case "unlink":
		return s.item.watchers.RemoveLinks(tx, o.a, o.b)
	}
	return fmt.Errorf("unknown op %q", o.kind)
}

var errC18Rollback = errors.New("c18: requested rollback")

func c18Marker(tx *bbolt.Tx) (version, count int64, err error) {
	b := tx.Bucket([]byte("r"))
	if b == nil {
		return 0, 0, nil
	}
	version, _ = strconv.ParseInt(string(b.Get([]byte("version"))), 10, 64)
	count, _ = strconv.ParseInt(string(b.Get([]byte("count"))), 10, 64)
	return version, count, nil
}

func (w *c18World) writerTx(ops []c18Op, commit bool, version, count int64) error {
	return w.c18s3WriterTx(c18s3Form{name: "flat", at: -1}, nil, ops, commit, version, count)
}

func (w *c18World) currentVersion() int64 {
	var v int64
	_ = w.db.View(func(tx *bbolt.Tx) error {
		v, _, _ = c18Marker(tx)
		return nil
	})
	return v
}

// ---- queries ---------------------------------------------------------------------------------

type c18Query struct {
	kind string
	a    string
	v    int64
	s, l int64 // skip / limit of the paged kinds; -1 = not set
	d    int   // place: index into c18s2Places (0 = the family below "stores")
}

func (q c18Query) String() string {
	if q.d != 0 {
		d := q.d
		q.d = 0
		return fmt.Sprintf("at %d %s", d, q.String())
	}
	if s, ok := c18s2String(q); ok {
		return s
	}
	switch q.kind {
	case "f1":
		return fmt.Sprintf("f1 %s %d", hxs(q.a), q.v)
	case "f3", "wcount", "gsub":
		return fmt.Sprintf("%s %d", q.kind, q.v)
	case "count", "all", "notags":
		return q.kind
	case "list", "glist":
		return fmt.Sprintf("%s %d %d", q.kind, q.s, q.l)
	case "subcount":
		return fmt.Sprintf("subcount %s %d", hxs(q.a), q.v)
	case "page":
		return fmt.Sprintf("page %d %d %d", q.v, q.s, q.l)
	}
	return q.kind + " " + hxs(q.a)
}

// c18ParseQuery reads the tokens of a query back (replay)
func c18ParseQuery(f []string) c18Query {
	if f[0] == "at" && len(f) > 2 {
		q := c18ParseQuery(f[2:])
		q.d, _ = strconv.Atoi(f[1])
		if q.d < 0 || q.d >= len(c18s2Places) {
			q.d = 0
		}
		return q
	}
	if q, ok := c18s2Parse(f); ok {
		return q
	}
	q := c18Query{kind: f[0], s: -1, l: -1}
	num := func(k int) int64 {
		if k >= len(f) {
			return 0
		}
		n, _ := strconv.ParseInt(f[k], 10, 64)
		return n
	}
	switch q.kind {
	case "f1":
		q.a = string(unhx(f[1]))
		q.v = num(2)
	case "f3", "wcount", "gsub":
		q.v = num(1)
	case "count", "all", "notags":
	case "list", "glist":
		q.s, q.l = num(1), num(2)
	case "subcount":
		q.a = string(unhx(f[1]))
		q.v = num(2)
	case "page":
		q.v, q.s, q.l = num(1), num(2), num(3)
	default:
		if len(f) > 1 {
			q.a = string(unhx(f[1]))
		}
	}
	return q
}

// c18Paging: every reader has its own skip / limit (so that paging leaking from one reader's query
// object into another's changes the answer), now and then one of them is left unset
func c18Paging(r *rng, reader int) (int64, int64) {
	s, l := int64(reader%4), int64(1+(reader*3)%8)
	switch r.intn(6) {
	case 0:
		s = -1
	case 1:
		l = -1
	case 2:
		s, l = int64(r.intn(5)), int64(r.intn(9))
	}
	return s, l
}

func c18GenQuery(r *rng, reader int) c18Query {
	if r.chance(9) {
		// entities obtained through every loader, at every place (c18_s3.go: some are kept by the reader)
		if r.chance(25) {
			return c18Query{kind: r.pick([]string{"tagm", "tagany"}), a: r.pick(c18TagPool), s: -1, l: -1, d: r.intn(len(c18s2Places))}
		}
		return c18Query{kind: r.pick(c18s3LoadKinds), a: r.pick(c18Ids), s: -1, l: -1, d: r.intn(len(c18s2Places))}
	}
	if r.chance(22) {
		// objects registered once on a store and used by every reader: external symbols, index and
		// link read paths - at every place (base path depth) with the same weight
		q := c18s2GenQuery(r)
		q.d = r.intn(len(c18s2Places))
		return q
	}
	q := c18GenQueryBase(r, reader)
	if r.chance(40) {
		q.d = 1 + r.intn(len(c18s2Places)-1)
	}
	return q
}

func c18GenQueryBase(r *rng, reader int) c18Query {
	if r.chance(62) {
		// the kinds added for shared mutable objects: empty filter + paging, dotted symbols, sub-queries
		switch r.intn(17) {
		case 0, 1:
			s, l := c18Paging(r, reader)
			return c18Query{kind: "list", s: s, l: l}
		case 2:
			return c18Query{kind: "all"}
		case 3:
			return c18Query{kind: "f4", a: r.pick(c18Groups)}
		case 4:
			return c18Query{kind: "f5", a: r.pick(c18Groups)}
		case 5:
			return c18Query{kind: "f6", a: r.pick(c18TagPool)}
		case 6:
			return c18Query{kind: "f7", a: r.pick(c18NamePool)}
		case 7:
			return c18Query{kind: "f8", a: r.pick(c18Ids)}
		case 8:
			return c18Query{kind: "wcount", v: int64(r.intn(4))}
		case 9:
			return c18Query{kind: "notags"}
		case 10:
			return c18Query{kind: "subhas", a: r.pick(c18Groups)}
		case 11:
			return c18Query{kind: "subcount", a: r.pick(c18Groups), v: int64(r.intn(3))}
		case 12:
			s, l := c18Paging(r, reader)
			return c18Query{kind: "page", v: int64(r.intn(12)) - 3, s: s, l: l}
		case 13:
			return c18Query{kind: "gname", a: r.pick(c18NamePool)}
		case 14:
			return c18Query{kind: "gtag", a: r.pick(c18TagPool)}
		case 15:
			if r.chance(50) {
				return c18Query{kind: "gwtag", a: r.pick(c18TagPool)}
			}
			return c18Query{kind: "gsub", v: int64(r.intn(16)) - 3}
		default:
			s, l := c18Paging(r, reader)
			return c18Query{kind: "glist", s: s % 3, l: l}
		}
	}
	switch r.intn(10) {
	case 0:
		return c18Query{kind: "load", a: r.pick(c18Ids)}
	case 1:
		return c18Query{kind: "name", a: r.pick(c18NamePool)}
	case 2:
		return c18Query{kind: "tag", a: r.pick(c18TagPool)}
	case 3:
		return c18Query{kind: "gitems", a: r.pick(c18Groups)}
	case 4:
		return c18Query{kind: "links", a: r.pick(c18Ids)}
	case 5:
		return c18Query{kind: "rlinks", a: r.pick(c18Groups)}
	case 6:
		return c18Query{kind: "f1", a: r.pick(c18Groups), v: int64(r.intn(14)) - 3}
	case 7:
		return c18Query{kind: "f2", a: r.pick(c18TagPool)}
	case 8:
		return c18Query{kind: "f3", v: int64(r.intn(16)) - 3}
	}
	return c18Query{kind: "count"}
}

func c18Ids2(ids []string) string {
	out := "Q ids"
	for _, id := range ids {
		out += " " + hxs(id)
	}
	return out
}

func (w *c18World) eval(tx *bbolt.Tx, q c18Query) string { return w.evalK(tx, q, nil) }

// evalK: keep (may be nil) receives closures re-rendering what the query handed to the caller - entities,
// id lists - so that the caller can hold on to them after the transaction (c18_s3.go)
func (w *c18World) evalK(tx *bbolt.Tx, q c18Query, keep *c18s3Keep) (res string) {
	defer func() {
		if r := recover(); r != nil {
			res = "Q panic " + hxs(fmt.Sprint(r))
		}
	}()
	s := w.fams[q.d]
	queryIds := func(f string) string {
		ids, _, err := s.item.QueryIds(tx, f)
		if err != nil {
			return "Q error " + hxs(err.Error())
		}
		keep.ids(ids)
		return c18Ids2(ids)
	}
	// the caller's own query object: parse, put the caller's paging on it, run it
	paged := func(st interface {
		ast.SymbolTypes
		QueryIdsC(tx *bbolt.Tx, query ast.Query) ([]string, int64, error)
	}, f string) string {
		query, err := ast.Parse(st, f)
		if err != nil {
			return "Q error " + hxs(err.Error())
		}
		if q.s >= 0 {
			query.SetSkip(q.s)
		}
		if q.l >= 0 {
			query.SetLimit(q.l)
		}
		ids, _, err := st.QueryIdsC(tx, query)
		if err != nil {
			return "Q error " + hxs(err.Error())
		}
		keep.ids(ids)
		return c18Ids2(ids)
	}
	groupIds := func(f string) string {
		ids, _, err := s.group.QueryIds(tx, f)
		if err != nil {
			return "Q error " + hxs(err.Error())
		}
		keep.ids(ids)
		return c18Ids2(ids)
	}
	if res, ok := c18s2Eval(s, tx, q, queryIds, groupIds); ok {
		return res
	}
	if res, ok := c18s3EvalLoad(s, tx, q, keep); ok {
		return res
	}
	switch q.kind {
	case "list":
		return paged(s.item, "")
	case "glist":
		return paged(s.group, "")
	case "all":
		return queryIds("")
	case "f4":
		return queryIds(fmt.Sprintf(`group.name = "G%s"`, q.a))
	case "f5":
		return queryIds(fmt.Sprintf(`anyOf(watchers.name) = "G%s"`, q.a))
	case "f6":
		return queryIds(fmt.Sprintf(`anyOf(group.items.tags) = "%s"`, q.a))
	case "f7":
		return queryIds(fmt.Sprintf(`anyOf(watchers.items.name) = "%s"`, q.a))
	case "f8":
		return queryIds(fmt.Sprintf(`anyOf(watchers.watching) = "%s"`, q.a))
	case "wcount":
		return queryIds(fmt.Sprintf(`count(watchers) >= %d`, q.v))
	case "notags":
		return queryIds(`isEmpty(tags)`)
	case "subhas":
		return queryIds(fmt.Sprintf(`not isEmpty(from watchers where name = "G%s")`, q.a))
	case "subcount":
		return queryIds(fmt.Sprintf(`count(from watchers where name != "G%s") >= %d`, q.a, q.v))
	case "page":
		return paged(s.item, fmt.Sprintf(`val >= %d sort by val desc, name`, q.v))
	case "gname":
		return groupIds(fmt.Sprintf(`anyOf(items.name) = "%s"`, q.a))
	case "gtag":
		return groupIds(fmt.Sprintf(`anyOf(items.tags) = "%s"`, q.a))
	case "gwtag":
		return groupIds(fmt.Sprintf(`anyOf(watching.tags) = "%s"`, q.a))
	case "gsub":
		return groupIds(fmt.Sprintf(`not isEmpty(from watching where val < %d)`, q.v))
	case "name":
		if id := s.item.idxName.Read(tx, []byte(q.a)); id != nil {
			return c18Ids2([]string{string(id)})
		}
		return c18Ids2(nil)
	case "tag":
		var ids []string
		s.item.idxTags.Read(tx, []byte(q.a), func(v []byte) { ids = append(ids, string(v)) })
		return c18Ids2(ids)
	case "gitems":
		ids := s.group.GetRelatedEntitiesIdList(tx, q.a, csFieldItems)
		keep.ids(ids)
		return c18Ids2(ids)
	case "links":
		ids := s.item.watchers.GetLinks(tx, q.a)
		keep.ids(ids)
		return c18Ids2(ids)
	case "rlinks":
		ids := s.group.watching.GetLinks(tx, q.a)
		keep.ids(ids)
		return c18Ids2(ids)
	case "f1":
		return queryIds(fmt.Sprintf(`group = "%s" and val >= %d sort by name`, q.a, q.v))
	case "f2":
		return queryIds(fmt.Sprintf(`anyOf(tags) = "%s"`, q.a))
	case "f3":
		return queryIds(fmt.Sprintf(`val < %d sort by val desc`, q.v))
	case "count":
		n := 0
		for c := s.item.IterateIds(tx, ast.BoolNodeTrue); c.IsValid(); c.Next() {
			n++
		}
		_, marker, _ := c18Marker(tx)
		idx := 0
		if b := boltz.Path(tx, append(append([]string{}, c18s2Places[q.d]...), boltz.IndexesBucket, csTypeItem, csFieldName)...); b != nil {
			cur := b.Cursor()
			for k, _ := cur.First(); k != nil; k, _ = cur.Next() {
				idx++
			}
		}
		return fmt.Sprintf("Q count %d %d %d", n, marker, idx)
	}
	return "Q error " + hxs("unknown query")
}

// ---- sequential baselines for parsing and symbol resolution ------------------------------------

var c18Filters = []string{
	`group = "g1" and val >= 3 sort by name`,
	`anyOf(tags) = "t2" or name contains "a"`,
	`val < 7 and not (name = "beta") sort by val desc limit 3`,
	`group.name = "Gg0" and anyOf(watchers.name) = "Gg1"`,
	`name in ["alpha", "beta"] skip 1 limit 2`,
	`tags.x = 1`,
	`val >= `,
	`noSuchSymbol = 1`,
	``,
	`isEmpty(tags) and val between 1 and 5`,
}

var c18Symbols = []string{"id", "name", "val", "tags", "group", "group.name", "group.items", "watchers", "watchers.name", "group.items.tags", "nope", "group.nope", "watchers.id",
	c18s2SymOdd, c18s2SymLabel, "group." + c18s2SymGx, "watchers." + c18s2SymGx}

func (w *c18World) parseAnswer(f string) (res string) {
	defer func() {
		if r := recover(); r != nil {
			res = "panic:" + fmt.Sprint(r)
		}
	}()
	q, err := ast.Parse(w.stores.item, f)
	if err != nil {
		return "error"
	}
	return "ok:" + q.String()
}

func (w *c18World) symbolAnswer(name string) (res string) {
	defer func() {
		if r := recover(); r != nil {
			res = "panic:" + fmt.Sprint(r)
		}
	}()
	s := w.stores.item
	sym := s.GetSymbol(name)
	if sym == nil {
		return "nil"
	}
	t, ok := s.GetSymbolType(name)
	set, ok2 := s.IsSet(name)
	return fmt.Sprintf("%s type=%v/%v set=%v/%v public=%v", sym.GetName(), t, ok, set, ok2, s.IsPublicSymbol(name))
}

// ---- helper hammer ---------------------------------------------------------------------------------

type c18Helper struct {
	name string
	f    func(i int) bool // true when the helper answered correctly
}

func c18Helpers(w *c18World) []c18Helper {
	fixture := &c18FixtureOnce{}
	refErr := boltz.NewReferenceByIdError("items", "i1", "groups", "g1", "group")
	dupErr := error(&boltz.UniqueIndexDuplicateError{Field: "name", Value: "x", EntityType: "items"})
	nfErr := boltz.NewNotFoundError("items", "id", "i1")
	wrap := func(e error) error { return fmt.Errorf("wrapped: %w", e) }
	plain := errors.New("plain")
	datetime := "datetime(2020-01-02T03:04:05Z)"
	return []c18Helper{
		{"boltz.IsReferenceExistsError", func(i int) bool {
			if i%2 == 0 {
				return boltz.IsReferenceExistsError(wrap(refErr)) && !boltz.IsReferenceExistsError(plain)
			}
			return !boltz.IsReferenceExistsError(dupErr) && boltz.IsReferenceExistsError(refErr)
		}},
		{"boltz.IsUniqueIndexDuplicateError", func(i int) bool {
			return boltz.IsUniqueIndexDuplicateError(wrap(dupErr)) && !boltz.IsUniqueIndexDuplicateError(refErr) && !boltz.IsUniqueIndexDuplicateError(nil)
		}},
		{"boltz.IsErrNotFoundErr", func(i int) bool {
			return boltz.IsErrNotFoundErr(wrap(nfErr)) && !boltz.IsErrNotFoundErr(dupErr)
		}},
		{"zitiql.ParseZqlString", func(i int) bool {
			return zitiql.ParseZqlString(`"a\"b\\n"`) == `a"b\n` && zitiql.ParseZqlString(`"x`+strconv.Itoa(i)+`"`) == "x"+strconv.Itoa(i)
		}},
		{"zitiql.ParseZqlDatetime", func(i int) bool {
			t, err := zitiql.ParseZqlDatetime(datetime)
			_, err2 := zitiql.ParseZqlDatetime("datetime(nonsense)")
			return err == nil && t.Year() == 2020 && err2 != nil
		}},
		{"ast.Parse", func(i int) bool {
			f := c18Filters[i%len(c18Filters)]
			return w.parseAnswer(f) == w.parseAnswer(f)
		}},
		{"boltz.BaseStore.GetSymbol", func(i int) bool {
			n := c18Symbols[i%len(c18Symbols)]
			return w.symbolAnswer(n) == w.symbolAnswer(n)
		}},
		// every caller lists a fixed population through the empty filter with its own paging; the
		// answer must be the caller's page, and an unpaged listing must stay unpaged
		{c18HelperEmptyPaged, func(i int) bool {
			fx := fixture.get(w)
			if fx == nil {
				return false
			}
			ok := true
			_ = fx.w.db.View(func(tx *bbolt.Tx) error {
				q := c18Query{kind: "list", s: int64(i % 4), l: int64(1 + i%7)}
				if i%3 == 1 {
					q.s = -1
				}
				if fx.w.eval(tx, q) != c18Ids2(c18Page(fx.ids, q.s, q.l)) {
					ok = false
				}
				if i%5 == 0 && fx.w.eval(tx, c18Query{kind: "all"}) != c18Ids2(fx.ids) {
					ok = false
				}
				if i%7 == 0 && fx.w.eval(tx, c18Query{kind: "glist", s: int64(i % 2), l: -1}) != c18Ids2(c18Page(c18Groups, int64(i%2), -1)) {
					ok = false
				}
				return nil
			})
			return ok
		}},
		// filters over dotted (composite) symbols, set functions and sub-queries on a fixed population,
		// each call in its own read transaction: the answer must be the sequential one
		{c18HelperDotted, func(i int) bool {
			fx := fixture.get(w)
			if fx == nil {
				return false
			}
			ok := true
			_ = fx.w.db.View(func(tx *bbolt.Tx) error {
				k := i % len(fx.queries)
				if fx.w.eval(tx, fx.queries[k]) != fx.expected[k] {
					ok = false
				}
				return nil
			})
			return ok
		}},
		// filters and sorts over the external (func) symbols of every constructor, also behind an fk and a
		// link symbol, at every place: concurrent callers evaluate different rows with different outcomes
		{c18s2HelperExt, func(i int) bool { return c18s2Hammer(fixture.get(w), i, false) }},
		// index and link read paths at every place (base path depth 0-3): concurrent callers read
		// DIFFERENT keys of the same index
		{c18s2HelperIdx, func(i int) bool { return c18s2Hammer(fixture.get(w), i, true) }},
		// c18_s9.go: rounds of read transactions that share the slices they pass to the index / link read helpers
		{c18s9HelperShared, func(i int) bool { return c18s9Round(fixture.get(w), i) }},
	}
}

const (
	c18HelperEmptyPaged = "boltz.BaseStore.QueryIdsC/empty-filter-with-own-paging"
	c18HelperDotted     = "boltz.BaseStore.QueryIds/dotted-symbols-and-subqueries"
)

func c18Page(ids []string, skip, limit int64) []string {
	if skip > 0 {
		if skip >= int64(len(ids)) {
			return nil
		}
		ids = ids[skip:]
	}
	if limit >= 0 && limit < int64(len(ids)) {
		ids = ids[:limit]
	}
	return ids
}

// c18Fixture: a second database with a fixed population, so that the two hammered query helpers (and
// their replay "X <helper>") do not depend on where the writer of the run happened to stop
type c18Fixture struct {
	w        *c18World
	ids      []string
	queries  []c18Query
	expected []string // sequential answers, computed before any concurrent use
	// c18_s2.go: external symbol filters / index reads at every place, with their sequential answers
	extQ, idxQ     []c18Query
	extExp, idxExp []string
}

type c18FixtureOnce struct {
	once sync.Once
	fx   *c18Fixture
}

func (f *c18FixtureOnce) get(w *c18World) *c18Fixture {
	f.once.Do(func() {
		dir := filepath.Join(w.dir, "fixture")
		if err := os.MkdirAll(dir, 0o755); err != nil {
			return
		}
		fw, err := c18Open(dir)
		if err != nil {
			return
		}
		fx := &c18Fixture{w: fw}
		err = fw.db.Update(nil, func(ctx boltz.MutateContext) error {
			for i := 0; i < 12; i++ {
				it := c18Item{id: fmt.Sprintf("f%02d", i), name: c18NamePool[i], val: int64(i) - 2}
				if i%4 != 3 {
					g := c18Groups[i%3]
					it.group = &g
				}
				for b, t := range c18TagPool {
					if (i+1)&(1<<b) != 0 {
						it.tags = append(it.tags, t)
					}
				}
				fx.ids = append(fx.ids, it.id)
				if e := fw.apply(ctx, c18Op{kind: "put", it: it}); e != nil {
					return e
				}
				if e := fw.apply(ctx, c18Op{kind: "link", a: it.id, b: c18Groups[(i+1)%3]}); e != nil {
					return e
				}
				if i%2 == 0 {
					if e := fw.apply(ctx, c18Op{kind: "link", a: it.id, b: c18Groups[(i+2)%3]}); e != nil {
						return e
					}
				}
			}
			return nil
		})
		if err != nil {
			return
		}
		for _, g := range c18Groups {
			fx.queries = append(fx.queries, c18Query{kind: "f4", a: g}, c18Query{kind: "f5", a: g}, c18Query{kind: "subhas", a: g},
				c18Query{kind: "subcount", a: g, v: 1})
		}
		for _, t := range c18TagPool {
			fx.queries = append(fx.queries, c18Query{kind: "f6", a: t}, c18Query{kind: "gtag", a: t}, c18Query{kind: "gwtag", a: t})
		}
		for _, n := range c18NamePool[:6] {
			fx.queries = append(fx.queries, c18Query{kind: "f7", a: n}, c18Query{kind: "gname", a: n})
		}
		for _, id := range fx.ids[:4] {
			fx.queries = append(fx.queries, c18Query{kind: "f8", a: id})
		}
		fx.queries = append(fx.queries, c18Query{kind: "wcount", v: 2}, c18Query{kind: "gsub", v: 0},
			c18Query{kind: "page", v: 0, s: 1, l: 4}, c18Query{kind: "f1", a: "g1", v: 0})
		c18s2FixtureQueries(fx)
		_ = fw.db.View(func(tx *bbolt.Tx) error {
			for _, q := range fx.queries {
				fx.expected = append(fx.expected, fw.eval(tx, q))
			}
			for _, q := range fx.extQ {
				fx.extExp = append(fx.extExp, fw.eval(tx, q))
			}
			for _, q := range fx.idxQ {
				fx.idxExp = append(fx.idxExp, fw.eval(tx, q))
			}
			return nil
		})
		f.fx = fx
	})
	return f.fx
}

// ---- command ------------------------------------------------------------------------------------------

type c18Rec struct {
	reader, tx int
	version    int64
	q          c18Query
	obs        string
	who        string // c18_s6.go: the writer's own read transactions ("wb" | "w" | "wu")
}

func c18Open(dir string) (*c18World, error) {
	db, err := boltz.Open(filepath.Join(dir, "c18.db"), "r")
	if err != nil {
		return nil, err
	}
	w := &c18World{db: db, dir: dir, fams: c18s2NewFamilies()}
	w.stores = w.fams[0]
	err = db.Update(nil, func(ctx boltz.MutateContext) error {
		for _, s := range w.fams {
			if e := s.init(ctx.Tx()); e != nil {
				return e
			}
			for _, g := range c18Groups {
				if e := s.group.Create(ctx, &csGroup{Id: g, Name: "G" + g}); e != nil {
					return e
				}
			}
		}
		return nil
	})
	return w, err
}

// c18Watchdog ends a run that hangs or eats memory (a shared parser instance driven from several
// goroutines can do both) with a distinctive exit code instead of waiting for the OOM killer
func c18Watchdog(limit time.Duration) {
	start := time.Now()
	for {
		time.Sleep(250 * time.Millisecond)
		var ms runtime.MemStats
		runtime.ReadMemStats(&ms)
		if ms.HeapAlloc > 3<<30 {
			fmt.Fprintf(os.Stderr, "c18: watchdog: heap grew to %d MiB\n", ms.HeapAlloc>>20)
			os.Exit(8)
		}
		if time.Since(start) > limit {
			buf := make([]byte, 1<<16)
			n := runtime.Stack(buf, true)
			fmt.Fprintf(os.Stderr, "c18: watchdog: run exceeded %v\n%s\n", limit, buf[:n])
			os.Exit(7)
		}
	}
}

func runC18(o *opts) error {
	c17Quiet()
	if o.thorough() {
		go c18Watchdog(20 * time.Minute)
	} else {
		go c18Watchdog(100 * time.Second)
	}
	cases := newLineWriter(o.out, "cases.txt")
	impl := newLineWriter(o.out, "impl.txt")
	defer cases.close()
	defer impl.close()
	stats := map[string]int{}
	dir, err := os.MkdirTemp("", "c18")
	if err != nil {
		return err
	}
	defer os.RemoveAll(dir)
	w, err := c18Open(dir)
	if err != nil {
		return err
	}
	defer w.db.Close()

	if rc := o.get("replaycase", ""); rc != "" {
		return c18Replay(w, rc, cases, impl)
	}

	nReaders, nWriterTx := 8, 150
	if o.thorough() {
		nReaders, nWriterTx = 12, 2500
	}
	if o.n > 0 {
		nWriterTx = o.n
	}

	// transactions composed of joined Db calls against a restore, one scenario at a time (c18_s3.go).  When
	// one gets stuck the same interleaving is not repeated inside the main workload (it would hang the run).
	stuck := 0
	for k, sc := range c18s3Scenarios(newRng(o.seed*7919+17), o.thorough()) {
		if stuck >= o.getInt("dmax", 3) || o.get("dscenarios", "on") != "on" { // off: self-test of the stall watchdog of the main workload
			break
		}
		cases.line("%s", sc.String())
		obs := c18s3RunScn(dir, k, sc, time.Second)
		impl.line("%s", obs)
		stats["d_scenarios"]++
		if strings.HasPrefix(obs, "D stuck") {
			stuck++
			stats["d_stuck"]++
		}
	}
	midTxRestore := stuck == 0 && o.get("restores", "on") == "on"
	w.stuckEarlier = c18s3StuckEarlier()

	// sequential baselines
	parseBase := map[string]string{}
	for _, f := range c18Filters {
		parseBase[f] = w.parseAnswer(f)
	}
	symBase := map[string]string{}
	for _, s := range c18Symbols {
		symBase[s] = w.symbolAnswer(s)
	}

	var stop int32
	var mu sync.Mutex
	var gate sync.RWMutex
	var recs []c18Rec
	type spRec struct{ kind, arg, obs string }
	var sps []spRec
	var wg sync.WaitGroup
	keepers := make([]*c18s3Keeper, nReaders)
	for ri := 0; ri < nReaders; ri++ {
		wg.Add(1)
		keepers[ri] = &c18s3Keeper{reader: ri}
		go func(ri int) {
			defer wg.Done()
			kp := keepers[ri]
			r := newRng(o.seed*1000 + int64(ri) + 1)
			var local []c18Rec
			var localSp []spRec
			txn := 0
			for atomic.LoadInt32(&stop) == 0 || txn < 20 {
				txn++
				gate.RLock() // c18_s6.go: the writer holds the readers back around some of its failing transactions
				// parse + symbol resolution outside of any transaction, racing the other readers
				f := r.pick(c18Filters)
				if got := w.parseAnswer(f); got != parseBase[f] {
					localSp = append(localSp, spRec{"P", f, "differs " + hxs(got)})
				} else if txn%16 == 0 {
					localSp = append(localSp, spRec{"P", f, "same"})
				}
				sn := r.pick(c18Symbols)
				if got := w.symbolAnswer(sn); got != symBase[sn] {
					localSp = append(localSp, spRec{"S", sn, "differs " + hxs(got)})
				} else if txn%16 == 0 {
					localSp = append(localSp, spRec{"S", sn, "same"})
				}
				_ = w.db.View(func(tx *bbolt.Tx) error {
					v1, _, _ := c18Marker(tx)
					info, infoOK := c18s3LoadInfo(tx, v1)
					nq := 2 + r.intn(4)
					var mine []c18Rec
					for k := 0; k < nq; k++ {
						q := c18GenQuery(r, ri)
						// some of what the reader obtains is kept beyond the transaction (c18_s3.go)
						var kc *c18s3Keep
						if r.chance(30) || strings.HasPrefix(q.kind, "load") {
							kc = &c18s3Keep{}
						}
						mine = append(mine, c18Rec{reader: ri, tx: txn, version: v1, q: q, obs: w.evalK(tx, q, kc)})
						kp.keep(w, txn, v1, q.String(), kc)
						if k == 0 {
							time.Sleep(time.Duration(r.intn(300)) * time.Microsecond)
						}
					}
					if info != nil && r.chance(30) {
						kp.keep(w, txn, v1, "info", &c18s3Keep{fns: []func() string{func() string { return fmt.Sprint(info) }}})
					}
					v2, _, _ := c18Marker(tx)
					if v2 != v1 || !infoOK {
						for k := range mine {
							mine[k].obs = fmt.Sprintf("Q torn %d %d", v1, v2)
							if !infoOK {
								mine[k].obs += " info " + hxs(fmt.Sprint(info))
							}
						}
					}
					local = append(local, mine...)
					return nil
				})
				kp.check(w, 3)
				gate.RUnlock()
				if len(local) > 40000 {
					break
				}
			}
			mu.Lock()
			recs = append(recs, local...)
			sps = append(sps, localSp...)
			mu.Unlock()
		}(ri)
	}

	// the writer
	r := newRng(o.seed)
	track := &c18Track{items: map[string]c18Item{}, links: map[[2]string]bool{}}
	version := int64(0)
	c18s3StallState.armed.Store(true)
	go c18s3StallWatchdog(o.out, 3*time.Second)
	restoreKinds := []string{"snapshot", "reader"}
	// the writer's own look after every transaction that did not commit (c18_s6.go)
	var probes []c18Rec
	wOrd := 0 // ordinal of the next W line
	failShare := o.getInt("failshare", 16)
	writerStep := func(i int) {
		next := track.clone()
		var ops []c18Op
		// most transactions commit; some ask for a rollback after their last write; some fail part-way
		commit, fail := true, c18s6Fail{}
		switch x := r.intn(100); {
		case x < 8:
			commit = false
		case x < 8+failShare:
			commit = false
			ops, fail = c18s6GenFailing(r, next, nil, nil)
		}
		if fail.kind == "" {
			for k, n := 0, 2+r.intn(5); k < n; k++ {
				if op, ok := next.genOp(r); ok {
					ops = append(ops, op)
				}
			}
		}
		var werr error
		var probeQs []c18Query
		quiet := false
		form := c18s3Form{name: "flat", at: -1}
		if o.get("inject", "") == "split" && commit && len(ops) > 1 {
			// self-test of the comparison (fault injection, never used by the check itself): the
			// writer's transaction becomes visible in two pieces
			_ = w.db.Update(nil, func(ctx boltz.MutateContext) error {
				for _, op := range ops[:len(ops)/2] {
					if e := w.apply(ctx, op); e != nil {
						return e
					}
				}
				return nil
			})
			time.Sleep(200 * time.Microsecond)
			werr = w.writerTx(ops[len(ops)/2:], true, version+1, int64(len(next.items)))
		} else {
			// the form of the transaction: plain, or composed of Db calls that join it; a transaction that rolls
			// back may have the state before it restored while it is open (c18_s3.go)
			form = c18s3GenForm(r, len(ops), commit, midTxRestore)
			form.fail = fail
			if !commit && r.chance(35) {
				// through Db.Batch: bbolt runs the function of a failed batch a second time, on its own
				form.name, form.at = "bu", -1
			}
			var snap []byte
			if form.at >= 0 {
				if snap, werr = c18s3Snapshot(w.db); werr != nil {
					form.at = -1
				}
			}
			if !commit {
				// the writer's own look at what the transaction touches: before and after it with the readers held
				// back (nothing but the transaction lies in between), or after it with the readers running
				probeQs = c18s6ProbeQueries(r, c18s6Executed(ops, fail))
				if quiet = form.at < 0 && r.chance(60); quiet {
					gate.Lock()
					probes = append(probes, w.c18s6Probe("wb", wOrd, probeQs)...)
				}
			}
			werr = w.c18s3WriterTx(form, snap, ops, commit, version+1, int64(len(next.items)))
			if quiet {
				probes = append(probes, w.c18s6Probe("w", wOrd, probeQs)...)
				gate.Unlock()
				stats["uncommitted_with_readers_held"]++
			} else if !commit {
				probes = append(probes, w.c18s6Probe("wu", wOrd, probeQs)...)
			}
			stats["form_"+form.name]++
			if form.at >= 0 {
				stats["restore_during_tx"]++
			}
			if !commit {
				stats["notcommitted_form_"+form.name]++
			}
		}
		parts := make([]string, 0, len(ops))
		for _, op := range ops {
			parts = append(parts, op.String())
		}
		cases.line("W %d %d %s%s", b2i(commit), len(ops), strings.Join(parts, " "), form.String())
		wOrd++
		switch {
		case werr == nil && commit:
			version++
			track = next
			atomic.AddInt64(&w.commits, 1)
			stats["writer_committed"]++
		case werr == nil:
			// the function of the transaction (or a pre-commit action) returned an error and Db reported success:
			// whether anything of the transaction is visible is what the marker and the looks decide
			stats["failure_not_reported"]++
		case fail.kind == "" && errors.Is(werr, errC18Rollback):
			stats["writer_rolledback"]++
		case fail.expected(werr):
			stats["writer_failed_partway"]++
			stats["fail_"+fail.kind]++
			if len(c18s6Executed(ops, fail)) > 0 {
				stats["fail_after_writes"]++
			}
		default:
			stats["writer_failed"]++
			impl.line("W error %s", hxs(werr.Error()))
			return
		}
		impl.line("W %d", w.currentVersion())
		if i%4 == 0 {
			time.Sleep(time.Duration(100+r.intn(400)) * time.Microsecond)
		}
	}
	// the current committed state streamed out and restored: no version changes, the file and its mapping do
	restoreStep := func() {
		rk := r.pick(restoreKinds)
		cases.line("R %s", rk)
		if err := w.c18s3RestoreCurrent(rk); err != nil {
			impl.line("R error %s", hxs(err.Error()))
		} else {
			impl.line("R %d", w.currentVersion())
		}
		stats["restore_between_tx"]++
	}
	// several goroutines call Db.Batch at once: bbolt runs their functions in one bolt transaction; a member
	// that fails part-way makes it roll everything back and run the others again (c18_s6.go)
	batchStep := func() {
		members := c18s6GenBatch(r, track)
		c18s3Beat("D batch p -1 snapshot 0 (members of a coalesced batch)")
		// the failing member's W line comes after those of the members that commit
		var probeQs []c18Query
		quiet, failedAt := false, -1
		for _, m := range members {
			if m.fail.kind != "" {
				probeQs = c18s6ProbeQueries(r, c18s6Executed(m.ops, m.fail))
				failedAt = wOrd + len(members) - 1
				if quiet = r.chance(60); quiet {
					gate.Lock()
					probes = append(probes, w.c18s6Probe("wb", failedAt, probeQs)...)
				}
			}
		}
		ordered := w.c18s6RunBatch(members)
		if quiet {
			// the members that committed lie between the two looks as well: the model applies them
			probes = append(probes, w.c18s6Probe("w", failedAt, probeQs)...)
			gate.Unlock()
			stats["uncommitted_with_readers_held"]++
		} else if failedAt >= 0 {
			probes = append(probes, w.c18s6Probe("wu", failedAt, probeQs)...)
		}
		c18s3Beat("between transactions")
		txids := map[int]int{}
		for _, m := range ordered {
			parts := make([]string, 0, len(m.ops))
			for _, op := range m.ops {
				parts = append(parts, op.String())
			}
			form := c18s3Form{name: "cb", at: -1, rkind: "snapshot", fail: m.fail}
			commit := m.fail.kind == ""
			cases.line("W %d %d %s%s", b2i(commit), len(m.ops), strings.Join(parts, " "), form.String())
			wOrd++
			stats["batch_members"]++
			switch {
			case m.err == nil && commit:
				version++
				atomic.AddInt64(&w.commits, 1)
				stats["writer_committed"]++
				txids[m.txid]++
				impl.line("W %d", m.got)
			case m.err == nil:
				stats["failure_not_reported"]++
				impl.line("W %d", w.currentVersion())
			case m.fail.expected(m.err):
				stats["writer_failed_partway"]++
				stats["fail_"+m.fail.kind]++
				stats["batch_members_failed"]++
				impl.line("W %d", w.currentVersion())
			default:
				stats["writer_failed"]++
				impl.line("W error %s", hxs(m.err.Error()))
			}
		}
		for _, n := range txids {
			if n > 1 {
				stats["batch_members_coalesced"] += n
			}
		}
		stats["batches"]++
	}
	batchEvery := o.getInt("batchevery", 11)
	for i := 0; i < nWriterTx; i++ {
		if batchEvery > 0 && i%batchEvery == batchEvery-1 && o.get("inject", "") == "" {
			batchStep()
		} else {
			writerStep(i)
		}
		if o.get("restores", "on") == "on" && i > 10 && r.chance(4) {
			restoreStep()
		}
	}
	atomic.StoreInt32(&stop, 1)
	wg.Wait()
	// what the readers still hold lives through a restore, some more commits and another restore
	if o.get("restores", "on") == "on" {
		restoreStep()
		for i := 0; i < 4; i++ {
			writerStep(nWriterTx + i)
		}
		restoreStep()
	}
	c18s3StallState.armed.Store(false)
	for _, kp := range keepers {
		kp.check(w, 0)
	}

	sort.SliceStable(recs, func(i, j int) bool {
		if recs[i].reader != recs[j].reader {
			return recs[i].reader < recs[j].reader
		}
		return recs[i].tx < recs[j].tx
	})
	seenVersions := map[int64]bool{}
	for _, rc := range probes {
		cases.line("Q %s %d %d %s", rc.who, rc.tx, rc.version, rc.q.String())
		impl.line("%s", rc.obs)
		stats["probe_queries"]++
	}
	for _, rc := range recs {
		cases.line("Q %d %d %d %s", rc.reader, rc.tx, rc.version, rc.q.String())
		impl.line("%s", rc.obs)
		stats["q_"+rc.q.kind]++
		seenVersions[rc.version] = true
	}
	stats["reader_queries"] = len(recs)
	stats["distinct_versions_observed"] = len(seenVersions)
	for _, k := range c18s3SortedRecs(keepers) {
		cases.line("K %d %d %d %d %d %s", k.reader, k.tx, k.version, k.commits, k.restores, k.what)
		impl.line("%s", k.obs)
		stats["k_checked"]++
		if k.restores > 0 {
			stats["k_after_restore"]++
		}
		kf := strings.Fields(k.what)
		if kf[0] == "at" && len(kf) > 2 {
			kf = kf[2:]
		}
		stats["k_"+kf[0]]++
	}
	for _, sp := range sps {
		cases.line("%s %s", sp.kind, hxs(sp.arg))
		impl.line("%s %s", sp.kind, sp.obs)
		stats["sp_"+sp.kind]++
	}

	// helper hammer
	goroutines, iters := 8, 400
	if o.thorough() {
		goroutines, iters = 16, 5000
	}
	for _, h := range c18Helpers(w) {
		cases.line("X %s", h.name)
		impl.line("%s", c18Hammer(h, goroutines, iters))
		stats["hammer_calls"] += goroutines * iters
	}
	// c18_s9b.go: fresh processes whose first parses / symbol lookups / queries happen concurrently
	nCold, coldWorkers := 6, 16
	if o.thorough() {
		nCold = 24
	}
	nCold = o.getInt("cold", nCold)
	coldPids := newLineWriter(o.out, "cold_pids.txt")
	for k := 0; k < nCold; k++ {
		variant := int(o.seed%97)*nCold + k
		obs, pid := w.c18s9ColdRun(variant, coldWorkers+8*(k%2))
		cases.line("C %d %d", variant, coldWorkers+8*(k%2))
		impl.line("%s", obs)
		coldPids.line("%d C %d %d", pid, variant, coldWorkers+8*(k%2))
		stats["cold_starts"]++
	}
	coldPids.close()
	writeJSON(o.out, "stats.json", stats)
	return nil
}

func c18Hammer(h c18Helper, goroutines, iters int) string {
	var wrong int64
	var hw sync.WaitGroup
	for g := 0; g < goroutines; g++ {
		hw.Add(1)
		go func(g int) {
			defer hw.Done()
			for i := 0; i < iters; i++ {
				if !h.f(i + g) {
					atomic.AddInt64(&wrong, 1)
				}
			}
		}(g)
	}
	hw.Wait()
	if wrong == 0 {
		return "X ok"
	}
	if d := c18s9TakeDetail(); d != "" { // c18_s9.go: the first wrong observation, for the report
		return fmt.Sprintf("X wrong %d first: %s", wrong, d)
	}
	return fmt.Sprintf("X wrong %d", wrong)
}

// replay: W lines are executed one after the other, Q lines are evaluated on the state reached
func c18Replay(w *c18World, path string, cases, impl *lineWriter) error {
	data, err := os.ReadFile(path)
	if err != nil {
		return err
	}
	version := int64(0)
	count := int64(0)
	_ = count
	kp := &c18s3Keeper{} // "K" lines keep what they load, "KC" lines read it again
	dk := 1000           // directory number of the next "D" scenario
	for _, line := range strings.Split(strings.TrimSpace(string(data)), "\n") {
		f := strings.Fields(line)
		if len(f) == 0 {
			continue
		}
		cases.line("%s", line)
		switch f[0] {
		case "W":
			commit := f[1] == "1"
			n, _ := strconv.Atoi(f[2])
			i := 3
			var ops []c18Op
			tags := func() []string {
				k, _ := strconv.Atoi(f[i])
				i++
				var t []string
				for j := 0; j < k; j++ {
					t = append(t, string(unhx(f[i])))
					i++
				}
				return t
			}
			for k := 0; k < n; k++ {
				kind := f[i]
				i++
				switch kind {
				case "put":
					it := c18Item{id: string(unhx(f[i])), name: string(unhx(f[i+1]))}
					if f[i+2] != "nil" {
						g := string(unhx(f[i+2]))
						it.group = &g
					}
					it.val, _ = strconv.ParseInt(f[i+3], 10, 64)
					i += 4
					it.tags = tags()
					ops = append(ops, c18Op{kind: "put", it: it})
				case "patch":
					it := c18Item{id: string(unhx(f[i]))}
					it.val, _ = strconv.ParseInt(f[i+1], 10, 64)
					i += 2
					it.tags = tags()
					ops = append(ops, c18Op{kind: "patch", it: it})
				case "del":
					ops = append(ops, c18Op{kind: "del", a: string(unhx(f[i]))})
					i++
				default:
					ops = append(ops, c18Op{kind: kind, a: string(unhx(f[i])), b: string(unhx(f[i+1]))})
					i += 2
				}
			}
			var n2 int64
			_ = w.db.View(func(tx *bbolt.Tx) error {
				for c := w.stores.item.IterateIds(tx, ast.BoolNodeTrue); c.IsValid(); c.Next() {
					n2++
				}
				return nil
			})
			form := c18s3ParseForm(f)
			var snap []byte
			if form.at >= 0 {
				snap, _ = c18s3Snapshot(w.db)
			}
			werr := w.c18s3WriterTx(form, snap, ops, commit, version+1, -1)
			if werr == nil && !commit {
				impl.line("W %d", w.currentVersion())
			} else if werr == nil {
				version++
				atomic.AddInt64(&w.commits, 1)
				// the count marker is recomputed so that a replay keeps the writer's invariant
				_ = w.db.Update(nil, func(ctx boltz.MutateContext) error {
					var c int64
					for cur := w.stores.item.IterateIds(ctx.Tx(), ast.BoolNodeTrue); cur.IsValid(); cur.Next() {
						c++
					}
					return ctx.Tx().Bucket([]byte("r")).Put([]byte("count"), []byte(strconv.FormatInt(c, 10)))
				})
				impl.line("W %d", w.currentVersion())
			} else if (form.fail.kind == "" && errors.Is(werr, errC18Rollback)) || form.fail.expected(werr) {
				impl.line("W %d", w.currentVersion())
			} else {
				impl.line("W error %s", hxs(werr.Error()))
			}
		case "Q":
			q := c18ParseQuery(f[4:])
			_ = w.db.View(func(tx *bbolt.Tx) error {
				impl.line("%s", w.eval(tx, q))
				return nil
			})
		case "R":
			rk := "snapshot"
			if len(f) > 1 {
				rk = f[1]
			}
			if err := w.c18s3RestoreCurrent(rk); err != nil {
				impl.line("R error %s", hxs(err.Error()))
			} else {
				impl.line("R %d", w.currentVersion())
			}
		case "D":
			if sc, ok := c18s3ParseScn(f); ok {
				dk++
				impl.line("%s", c18s3RunScn(w.dir, dk, sc, time.Second))
			} else {
				impl.line("D unknown")
			}
		case "K":
			// load now, keep; the value must read the same already inside the transaction
			if len(f) < 7 {
				impl.line("K unknown")
				break
			}
			_ = w.db.View(func(tx *bbolt.Tx) error {
				v, _, _ := c18Marker(tx)
				kc := &c18s3Keep{}
				if f[6] == "info" {
					if info, _ := c18s3LoadInfo(tx, v); info != nil {
						kc.add(func() string { return fmt.Sprint(info) })
					}
				} else {
					w.evalK(tx, c18ParseQuery(f[6:]), kc)
				}
				kp.keep(w, len(kp.kept), v, strings.Join(f[6:], " "), kc)
				return nil
			})
			impl.line("K same")
		case "KC":
			if len(f) > 1 && f[1] == "1" {
				if err := w.c18s3RestoreCurrent("snapshot"); err != nil {
					impl.line("K error %s", hxs(err.Error()))
					break
				}
			}
			keep := append([]c18s3Kept{}, kp.kept...)
			kp.recs = nil
			kp.check(w, 0)
			kp.kept = keep // a later KC reads them again
			obs := "K same"
			for _, rec := range kp.recs {
				if rec.obs != "K same" {
					obs = rec.obs
					break
				}
			}
			impl.line("%s", obs)
		case "C":
			if len(f) < 3 {
				impl.line("C unknown")
				break
			}
			variant, _ := strconv.Atoi(f[1])
			workers, _ := strconv.Atoi(f[2])
			obs, _ := w.c18s9ColdRun(variant, workers)
			for k := 0; k < 5 && obs == "C ok"; k++ { // a process has one first time: a replay takes a few
				obs, _ = w.c18s9ColdRun(variant, workers)
			}
			impl.line("%s", obs)
		case "S":
			impl.line("S same")
		case "P":
			impl.line("P same")
		case "X":
			done := false
			for _, h := range c18Helpers(w) {
				if len(f) > 1 && h.name == f[1] {
					impl.line("%s", c18Hammer(h, 8, 400))
					done = true
				}
			}
			if !done {
				impl.line("X unknown")
			}
		}
	}
	return nil
}
