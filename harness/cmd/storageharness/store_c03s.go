package main

// C03: "warm" histories for the index properties.
//
// The general history generator (store_gen.go) starts every history on an empty database and mixes all
// operation kinds blindly, so most transactions roll back (a create needs its fk targets, one failing op
// rolls the transaction back) and index maintenance on POPULATED stores is exercised rarely.  The
// sub-command "store_c03s" interleaves those histories with warm ones: a warm-up that populates the
// stores (fk targets first, distinct unique values), followed by short, mostly-valid transactions that
// perturb string sets (add / drop / replace a member while keeping the others, re-order, duplicate,
// empty), hand unique values over, collide on purpose, delete and re-create.  The generator keeps a
// *belief* of what exists only to bias its choices; it is never used as an oracle.  Case / observation
// format and executor are those of the "store" sub-command, so corpus, replay and model driver are shared.

import (
	"fmt"
	"os"
	"sort"
	"strings"

	"go.etcd.io/bbolt"
)

func init() {
	commands["store_c03s"] = runStoreC03s
	for _, d := range c03DeepWirings {
		d := d
		extraWirings[d.name] = func() *wiring { return c03DeepWiring(d.name) }
	}
}

// ---- wirings at deeper base paths ------------------------------------------------------------------
//
// Where an index lives (<BasePath>/indexes/<entity type>/<symbol>) is computed by the code under test from the
// store definition's BasePath slice; length AND spare capacity of that slice are inputs of this computation.  The
// wirings below place stores with SEVERAL indexes (unique and set, on the root store and on a child store, registered
// in different orders) 1-4 levels deep, with exact-capacity paths and with one shared path slice that has spare
// capacity.  For the store machine the place of an index is not observable: the schemas are the two shapes
// acct / item below plus the stock idx and casc shapes (Examples/C03Wirings.v checks wf_unique_b / wf_setidx_b).

type c03DeepDecl struct {
	name  string
	shape string // acct | item | idx | casc
	depth int
	slack int
}

var c03DeepWirings = []c03DeepDecl{
	{"c03acct3", "acct", 3, 0},
	{"c03item4", "item", 4, 0},
	{"c03acct2s", "acct", 2, 3},
	{"c03item1s", "item", 1, 4},
	{"c03idx3", "idx", 3, 0},
	{"c03casc4", "casc", 4, 0},
	{"c03item3", "item", 3, 0},
	{"c03acct4s", "acct", 4, 2},
	{"c03acct2", "acct", 2, 0},
}

func c03DeepWiring(name string) *wiring {
	for _, d := range c03DeepWirings {
		if d.name != name {
			continue
		}
		var w *wiring
		switch d.shape {
		case "acct":
			// two unique indexes (one nullable, symbol name != storage key), two set indexes and an un-indexed field on one
			// root store, a child store with its own unique index, a second root store; a unique index registered last
			w = &wiring{Stores: []*sStore{
				{Name: "acct", Fields: []sField{{Name: "name"}, {Name: "email", Ptr: true, Sym: "emailSym"}, {Name: "note", Ptr: true}}, Sets: []string{"topics", "groups"}},
				{Name: "adm", Parent: "acct", Fields: []sField{{Name: "badge", Ptr: true}}},
				{Name: "org", Fields: []sField{{Name: "title"}, {Name: "alias", Ptr: true}}, Sets: []string{"labels"}},
			}, Script: []wiringDecl{
				{Kind: "unique", Store: "acct", Field: "name"},
				{Kind: "setidx", Store: "acct", Field: "topics"},
				{Kind: "unique", Store: "acct", Field: "email", Nullable: true},
				{Kind: "setidx", Store: "acct", Field: "groups"},
				{Kind: "unique", Store: "adm", Field: "badge", Nullable: true},
				{Kind: "setidx", Store: "org", Field: "labels"},
				{Kind: "unique", Store: "org", Field: "title"},
				{Kind: "unique", Store: "org", Field: "alias", Nullable: true},
			}}
		case "item":
			// unique indexes first, set indexes last; a nullable fk index in between
			w = &wiring{Stores: []*sStore{
				{Name: "item", Fields: []sField{{Name: "code"}, {Name: "alias", Ptr: true}, {Name: "bin", Ptr: true}}, Sets: []string{"cats", "marks"}},
				{Name: "bin", Fields: []sField{{Name: "label", Ptr: true}}, Sets: []string{"kinds"}},
			}, Script: []wiringDecl{
				{Kind: "unique", Store: "item", Field: "code"},
				{Kind: "unique", Store: "item", Field: "alias", Nullable: true},
				{Kind: "fkindex", Store: "item", Field: "bin", Target: "bin", Back: "items", Nullable: true},
				{Kind: "setidx", Store: "item", Field: "marks"},
				{Kind: "setidx", Store: "item", Field: "cats"},
				{Kind: "unique", Store: "bin", Field: "label", Nullable: true},
				{Kind: "setidx", Store: "bin", Field: "kinds"},
			}}
		default:
			w = wiringByName(d.shape)
		}
		w.Name, w.Depth, w.Slack = d.name, d.depth, d.slack
		return w
	}
	return nil
}

// ---- the read side of the indexes ------------------------------------------------------------------
//
// c03IndexReads observes every unique and set index through its read API (ReadIndex.Read, SetReadIndex.Read /
// ReadKeys), probing every string that is stored anywhere in the database (any field, any set, any index key of any
// store - so a value of field A is looked up through the index of field B).  Tokens:
//
//	IXP:<hex>,<hex>...                      the probed values
//	IXU:<store>:<field>:<hex value>:<hex id>  Read returned an id (absent token = nil)
//	IXS:<store>:<set>:<hex value>:<hex id>,.. Read visited these ids (absent token = none)
//	IXK:<store>:<set>:<hex key>,...           ReadKeys
//	IXTOP:<hex name>                          a bucket / key at the top of the bolt file other than the base path's first element
//
// The store machine has no counterpart: checks/c03.py compares them with what the entities of the same
// observation hold (unique_index_mirrors / set_index_mirrors / no_empty_index_keys read from right to left).
func c03IndexReads(h *harnessDb) (out string) {
	defer func() {
		if r := recover(); r != nil {
			out = " IXPANIC:" + hxs(fmt.Sprint(r))
		}
	}()
	vals := map[string]bool{}
	for _, f := range h.facts() {
		p := strings.Split(f, ":")
		var v string
		switch p[0] {
		case "F", "CF":
			v = p[len(p)-1]
			if !strings.HasPrefix(v, "s") {
				continue
			}
			v = v[1:]
		case "S":
			v = p[4]
		case "U", "X", "XK":
			v = p[3]
		default:
			continue
		}
		vals[string(unhx(v))] = true
	}
	var probe []string
	for v := range vals {
		probe = append(probe, v)
	}
	sort.Strings(probe)
	var sb strings.Builder
	hexes := make([]string, 0, len(probe))
	for _, v := range probe {
		hexes = append(hexes, hxs(v))
	}
	if len(hexes) > 0 {
		sb.WriteString(" IXP:" + strings.Join(hexes, ","))
	}
	_ = h.db.View(func(tx *bbolt.Tx) error {
		_ = tx.ForEach(func(name []byte, _ *bbolt.Bucket) error {
			if string(name) != h.w.basePath()[0] {
				sb.WriteString(" IXTOP:" + hx(name))
			}
			return nil
		})
		for _, def := range h.w.Stores {
			gs := h.stores[def.Name]
			for _, c := range def.Cons {
				switch c.Kind {
				case "U":
					idx := gs.uidx[c.Field]
					if idx == nil {
						continue
					}
					for _, v := range probe {
						if id := idx.Read(tx, []byte(v)); id != nil {
							fmt.Fprintf(&sb, " IXU:%s:%s:%s:%s", def.Name, c.Field, hxs(v), hx(id))
						}
					}
				case "SI":
					idx := gs.sidx[c.Field]
					if idx == nil {
						continue
					}
					for _, v := range probe {
						var ids []string
						idx.Read(tx, []byte(v), func(id []byte) { ids = append(ids, hx(id)) })
						if len(ids) > 0 {
							sort.Strings(ids)
							fmt.Fprintf(&sb, " IXS:%s:%s:%s:%s", def.Name, c.Field, hxs(v), strings.Join(ids, ","))
						}
					}
					var keys []string
					idx.ReadKeys(tx, func(k []byte) { keys = append(keys, hx(k)) })
					if len(keys) > 0 {
						sort.Strings(keys)
						fmt.Fprintf(&sb, " IXK:%s:%s:%s", def.Name, c.Field, strings.Join(keys, ","))
					}
				}
			}
		}
		return nil
	})
	return sb.String()
}

type warmGen struct {
	*histGen
	sets map[string]map[string]map[string][]string // root -> id -> set field -> believed members
	uniq map[string]map[string]string              // "root.field" -> value -> believed holder
	cross   bool                       // also emit operations that carry a value from one indexed field into another one
	inChild map[string]map[string]bool // child store -> ids believed to live in it
	typed   bool                       // the wiring has typed fields (store_c03t.go): per-type value universes, more (and also full) updates of unique fields
}

// valsFor: the value universe of a field given as "<store>.<field>"
func (g *warmGen) valsFor(key string) []string {
	if g.typed {
		if k := strings.Index(key, "."); k > 0 {
			if f, ok := c03tFieldOf(g.w, key[:k], key[k+1:]); ok && f.Typ != "" {
				return c03tUniverses[f.Typ]
			}
		}
	}
	return g.p.vals
}

func (g *warmGen) isSetIdx(store, set string) bool {
	for _, d := range g.w.Script {
		if d.Kind == "setidx" && d.Store == store && d.Field == set {
			return true
		}
	}
	return false
}

// c03CrossFieldOp: a field-restricted (sometimes full) update that stores, in one indexed or plain field of an entity,
// a value that is believed to be held at the moment - by the same or by another entity of the store family - in a
// DIFFERENT indexed field (unique -> other unique, unique -> set, set -> unique, set -> other set, indexed -> plain).
// Each index has its own key space, so such an update is legal unless the value is taken in the target index itself.
func (g *warmGen) c03CrossFieldOp() (hOp, bool) {
	var cands []string
	for _, s := range g.w.Stores {
		root := g.rootOf(s.Name)
		_, sets := g.w.allFields(s.Name)
		n := len(g.uniqueFields(s.Name))
		for _, sn := range sets {
			if g.isSetIdx(root, sn) {
				n++
			}
		}
		ids := g.aliveIds(root)
		if s.Parent != "" {
			ids = nil
			for _, id := range g.aliveIds(root) {
				if g.inChild[s.Name][id] {
					ids = append(ids, id)
				}
			}
		}
		if n >= 2 && len(ids) > 0 {
			cands = append(cands, s.Name)
		}
	}
	if len(cands) == 0 {
		return hOp{}, false
	}
	store := cands[g.r.intn(len(cands))]
	root := g.rootOf(store)
	al := g.aliveIds(root)
	if g.w.store(store).Parent != "" {
		al = nil
		for _, id := range g.aliveIds(root) {
			if g.inChild[store][id] {
				al = append(al, id)
			}
		}
	}
	// what is believed to be held, and where ("u:<decl>.<field>" / "s:<set>")
	type heldVal struct{ v, slot string }
	var held []heldVal
	ukeys := g.uniqueFields(store)
	for _, key := range ukeys {
		var vs []string
		for v := range g.uniq[key] {
			vs = append(vs, v)
		}
		sort.Strings(vs)
		for _, v := range vs {
			held = append(held, heldVal{v, "u:" + key})
		}
	}
	_, sets := g.w.allFields(store)
	for _, id := range g.aliveIds(root) {
		for _, sn := range sets {
			if g.sets[root] == nil || g.sets[root][id] == nil || !g.isSetIdx(root, sn) {
				continue
			}
			for _, m := range dedupSorted(g.sets[root][id][sn]) {
				if m != "" {
					held = append(held, heldVal{m, "s:" + sn})
				}
			}
		}
	}
	if len(held) == 0 {
		return hOp{}, false
	}
	src := held[g.r.intn(len(held))]
	// target slots: every other unique field, every other set, every plain field that is not an fk
	var slots []string
	for _, key := range ukeys {
		slots = append(slots, "u:"+key)
	}
	for _, sn := range sets {
		slots = append(slots, "s:"+sn)
	}
	fields, _ := g.w.allFields(store)
	for _, f := range fields {
		owner := store
		if g.fkTargetOf(owner, f.Name) == "" && g.w.store(store).Parent != "" {
			owner = g.w.store(store).Parent
		}
		isU := false
		for _, key := range ukeys {
			isU = isU || key[strings.Index(key, ".")+1:] == f.Name
		}
		if g.fkTargetOf(owner, f.Name) == "" && !isU {
			slots = append(slots, "p:"+f.Name)
		}
	}
	var other []string
	for _, sl := range slots {
		if sl != src.slot {
			other = append(other, sl)
		}
	}
	if len(other) == 0 {
		return hOp{}, false
	}
	dst := other[g.r.intn(len(other))]
	op := hOp{Kind: "UP", Store: store, Id: al[g.r.intn(len(al))]}
	g.fieldsValue(&op)
	var fname string
	switch dst[0] {
	case 'u':
		key := dst[2:]
		fname = key[strings.Index(key, ".")+1:]
		if holder := g.uniq[key][src.v]; holder != "" && holder != op.Id && !g.r.chance(12) {
			// taken in the target index as well: a genuine duplicate; mostly hand it to its holder instead
			op.Id = holder
		}
		op.F[fname] = sp(src.v)
	case 'p':
		fname = dst[2:]
		op.F[fname] = sp(src.v)
	case 's':
		fname = dst[2:]
		var cur []string
		if g.sets[root] != nil && g.sets[root][op.Id] != nil {
			cur = append(cur, g.sets[root][op.Id][fname]...)
		}
		if g.r.chance(25) {
			cur = nil
		}
		op.S[fname] = append(cur, src.v)
	}
	if g.r.chance(88) {
		op.HasChk = true
		op.Checker = []string{fname}
	} else {
		// a full update: keep what the entity is believed to hold elsewhere
		for _, key := range ukeys {
			f := key[strings.Index(key, ".")+1:]
			if f == fname {
				continue
			}
			delete(op.F, f)
			for v, id := range g.uniq[key] {
				if id == op.Id {
					op.F[f] = sp(v)
				}
			}
			if op.F[f] == nil {
				if v, ok := g.freeValue(key); ok {
					op.F[f] = sp(v)
				}
			}
		}
		for _, sn := range sets {
			if sn != fname && g.sets[root] != nil && g.sets[root][op.Id] != nil {
				op.S[sn] = append([]string{}, g.sets[root][op.Id][sn]...)
			}
		}
	}
	if dst[0] == 's' || !op.HasChk {
		if g.sets[root] == nil {
			g.sets[root] = map[string]map[string][]string{}
		}
		if g.sets[root][op.Id] == nil {
			g.sets[root][op.Id] = map[string][]string{}
		}
		for sn, l := range op.S {
			if !op.HasChk || sn == fname {
				g.sets[root][op.Id][sn] = append([]string{}, l...)
			}
		}
	}
	g.noteUnique(&op)
	return op, true
}

func (g *warmGen) rootOf(store string) string {
	if p := g.w.store(store).Parent; p != "" {
		return p
	}
	return store
}

// unique fields (plain ones, declared on the store or its parent) of a store
func (g *warmGen) uniqueFields(store string) []string {
	var fs []string
	for _, d := range g.w.Script {
		if d.Kind == "unique" && (d.Store == store || d.Store == g.w.store(store).Parent) {
			fs = append(fs, d.Store+"."+d.Field)
		}
	}
	return fs
}

func (g *warmGen) aliveIds(root string) []string {
	var xs []string
	for _, id := range g.ids {
		if g.alive[root][id] {
			xs = append(xs, id)
		}
	}
	return xs
}

func (g *warmGen) freeValue(key string) (string, bool) {
	var free []string
	for _, v := range g.valsFor(key) {
		if v != "" && g.uniq[key][v] == "" {
			free = append(free, v)
		}
	}
	if len(free) == 0 {
		return "", false
	}
	return free[g.r.intn(len(free))], true
}

func (g *warmGen) noteUnique(op *hOp) {
	for _, key := range g.uniqueFields(op.Store) {
		f := key[strings.Index(key, ".")+1:]
		if g.uniq[key] == nil {
			g.uniq[key] = map[string]string{}
		}
		if op.HasChk {
			in := false
			for _, c := range op.Checker {
				in = in || c == f
			}
			if !in {
				continue
			}
		}
		for v, id := range g.uniq[key] {
			if id == op.Id {
				delete(g.uniq[key], v)
			}
		}
		if p, ok := op.F[f]; ok && p != nil && *p != "" && g.uniq[key][*p] == "" {
			g.uniq[key][*p] = op.Id
		}
	}
}

// a create that is valid with high probability: fresh id, alive fk targets, unused unique values
func (g *warmGen) validCreate(store string) (hOp, bool) {
	root := g.rootOf(store)
	op := hOp{Kind: "C", Store: store}
	var freeIds []string
	for _, id := range g.ids {
		if !g.alive[root][id] {
			freeIds = append(freeIds, id)
		}
	}
	if len(freeIds) == 0 {
		return op, false
	}
	op.Id = freeIds[g.r.intn(len(freeIds))]
	g.fieldsValue(&op)
	fields, _ := g.w.allFields(store)
	for _, f := range fields {
		owner := store
		if g.fkTargetOf(owner, f.Name) == "" && g.w.store(store).Parent != "" {
			owner = g.w.store(store).Parent
		}
		if t := g.fkTargetOf(owner, f.Name); t != "" {
			al := g.aliveIds(g.rootOf(t))
			if len(al) > 0 && !(f.Ptr && g.r.chance(40)) {
				op.F[f.Name] = sp(al[g.r.intn(len(al))])
			} else if f.Ptr {
				delete(op.F, f.Name)
			}
		}
	}
	for _, key := range g.uniqueFields(store) {
		f := key[strings.Index(key, ".")+1:]
		if v, ok := g.freeValue(key); ok && g.r.chance(92) {
			op.F[f] = sp(v)
		}
	}
	for sn, l := range op.S {
		for k := range l {
			if l[k] == "" && g.r.chance(85) {
				l[k] = "r"
			}
		}
		op.S[sn] = l
	}
	g.alive[root][op.Id] = true
	if g.w.store(store).Parent != "" {
		if g.inChild == nil {
			g.inChild = map[string]map[string]bool{}
		}
		if g.inChild[store] == nil {
			g.inChild[store] = map[string]bool{}
		}
		g.inChild[store][op.Id] = true
	}
	g.noteUnique(&op)
	if g.sets[root] == nil {
		g.sets[root] = map[string]map[string][]string{}
	}
	g.sets[root][op.Id] = map[string][]string{}
	for sn, l := range op.S {
		g.sets[root][op.Id][sn] = append([]string{}, l...)
	}
	return op, true
}

func dedupSorted(l []string) []string {
	m := map[string]bool{}
	var out []string
	for _, v := range l {
		if !m[v] {
			m[v] = true
			out = append(out, v)
		}
	}
	sort.Strings(out)
	return out
}

// a perturbation of the believed current set; the stored set is sorted, so "first" means smallest
func (g *warmGen) perturb(cur []string) []string {
	cur = dedupSorted(cur)
	universe := append([]string{"r", "s"}, g.p.vals...)
	fresh := func() string {
		for try := 0; try < 6; try++ {
			v := universe[g.r.intn(len(universe))]
			if v == "" && !g.r.chance(6) {
				continue
			}
			in := false
			for _, c := range cur {
				in = in || c == v
			}
			if !in {
				return v
			}
		}
		return "zz"
	}
	out := append([]string{}, cur...)
	switch k := g.r.intn(100); {
	case k < 18 || len(cur) == 0: // add a member
		out = append(out, fresh())
	case k < 30: // drop the smallest
		out = out[1:]
	case k < 42: // drop the largest
		out = out[:len(out)-1]
	case k < 60: // replace the largest, keep the others (same size, same first member when size > 1)
		out[len(out)-1] = fresh()
	case k < 70: // replace the smallest
		out[0] = fresh()
	case k < 78: // replace a middle / random member
		out[g.r.intn(len(out))] = fresh()
	case k < 84: // same set, different order and a duplicate
		out = append([]string{out[len(out)-1]}, out...)
	case k < 90: // unchanged
	case k < 95: // empty
		out = nil
	default: // a completely new set
		out = nil
		for n := 1 + g.r.intn(3); n > 0; n-- {
			out = append(out, fresh())
		}
	}
	return out
}

func (g *warmGen) setUpdate() (hOp, bool) {
	var cands []string
	for _, s := range g.w.Stores {
		if _, sets := g.w.allFields(s.Name); len(sets) > 0 && len(g.aliveIds(g.rootOf(s.Name))) > 0 {
			cands = append(cands, s.Name)
		}
	}
	if len(cands) == 0 {
		return hOp{}, false
	}
	store := cands[g.r.intn(len(cands))]
	root := g.rootOf(store)
	al := g.aliveIds(root)
	op := hOp{Kind: "UP", Store: store, Id: al[g.r.intn(len(al))]}
	g.fieldsValue(&op)
	_, sets := g.w.allFields(store)
	sn := sets[g.r.intn(len(sets))]
	var cur []string
	if g.sets[root] != nil && g.sets[root][op.Id] != nil {
		cur = g.sets[root][op.Id][sn]
	}
	op.S[sn] = g.perturb(cur)
	if g.r.chance(80) {
		op.HasChk = true
		op.Checker = []string{sn}
		if g.r.chance(15) {
			if fs, _ := g.w.allFields(store); len(fs) > 0 {
				op.Checker = append(op.Checker, fs[g.r.intn(len(fs))].Name)
			}
		}
	}
	if g.sets[root] == nil {
		g.sets[root] = map[string]map[string][]string{}
	}
	if g.sets[root][op.Id] == nil {
		g.sets[root][op.Id] = map[string][]string{}
	}
	g.sets[root][op.Id][sn] = append([]string{}, op.S[sn]...)
	g.noteUnique(&op)
	return op, true
}

func (g *warmGen) uniqueUpdate() (hOp, bool) {
	var cands []string
	for _, s := range g.w.Stores {
		if len(g.uniqueFields(s.Name)) > 0 && len(g.aliveIds(g.rootOf(s.Name))) > 0 {
			cands = append(cands, s.Name)
		}
	}
	if len(cands) == 0 {
		return hOp{}, false
	}
	store := cands[g.r.intn(len(cands))]
	al := g.aliveIds(g.rootOf(store))
	op := hOp{Kind: "UP", Store: store, Id: al[g.r.intn(len(al))]}
	g.fieldsValue(&op)
	keys := g.uniqueFields(store)
	key := keys[g.r.intn(len(keys))]
	f := key[strings.Index(key, ".")+1:]
	switch k := g.r.intn(100); {
	case k < 45:
		if v, ok := g.freeValue(key); ok {
			op.F[f] = sp(v)
		}
	case k < 75: // a value believed to be held by somebody (possibly the entity itself)
		var held []string
		for v := range g.uniq[key] {
			held = append(held, v)
		}
		sort.Strings(held)
		if len(held) > 0 {
			op.F[f] = sp(held[g.r.intn(len(held))])
		}
	case k < 85:
		op.F[f] = sp("")
	case k < 92:
		delete(op.F, f) // nil pointer / missing
	}
	op.HasChk = true
	op.Checker = []string{f}
	if g.typed && g.r.chance(30) {
		// a full update instead: every other unique field keeps what the entity is believed to hold
		op.HasChk, op.Checker = false, nil
		for _, k2 := range keys {
			f2 := k2[strings.Index(k2, ".")+1:]
			if f2 == f {
				continue
			}
			delete(op.F, f2)
			for v, id := range g.uniq[k2] {
				if id == op.Id {
					op.F[f2] = sp(v)
				}
			}
		}
		root := g.rootOf(store)
		if g.sets[root] != nil && g.sets[root][op.Id] != nil {
			for sn := range op.S {
				op.S[sn] = append([]string{}, g.sets[root][op.Id][sn]...)
			}
		}
	}
	g.noteUnique(&op)
	return op, true
}

func (g *warmGen) warmOp() hOp {
	if !g.typed {
		return g.warmOp0()
	}
	// more updates of unique values than in the string wirings, and every operation well-typed
	var op hOp
	ok := false
	if g.r.chance(30) {
		op, ok = g.uniqueUpdate()
	}
	if !ok {
		op = g.warmOp0()
	}
	c03tNormOp(g.w, &op)
	return op
}

func (g *warmGen) warmOp0() hOp {
	if g.cross && g.r.chance(35) {
		if op, ok := g.c03CrossFieldOp(); ok {
			return op
		}
	}
	switch k := g.r.intn(100); {
	case k < 40:
		if op, ok := g.setUpdate(); ok {
			return op
		}
	case k < 60:
		if op, ok := g.uniqueUpdate(); ok {
			return op
		}
	case k < 74:
		st := g.w.Stores[g.r.intn(len(g.w.Stores))]
		if op, ok := g.validCreate(st.Name); ok {
			return op
		}
	case k < 88:
		st := g.w.Stores[g.r.intn(len(g.w.Stores))]
		root := g.rootOf(st.Name)
		if al := g.aliveIds(root); len(al) > 0 {
			op := hOp{Kind: "D", Store: st.Name, Id: al[g.r.intn(len(al))]}
			delete(g.alive[root], op.Id)
			for _, m := range g.inChild {
				delete(m, op.Id)
			}
			for _, m := range g.uniq {
				for v, id := range m {
					if id == op.Id {
						delete(m, v)
					}
				}
			}
			return op
		}
	}
	return g.genOp()
}

func (g *warmGen) genHistoryWarm() []hTx {
	g.alive = map[string]map[string]bool{}
	g.sets = map[string]map[string]map[string][]string{}
	g.uniq = map[string]map[string]string{}
	g.inChild = map[string]map[string]bool{}
	var roots []*sStore
	for _, s := range g.w.Stores {
		if s.Parent == "" {
			g.alive[s.Name] = map[string]bool{}
			roots = append(roots, s)
		}
	}
	// fk targets first: a store is ready when all its non-nullable fk targets (other than itself) were populated
	var order []*sStore
	done := map[string]bool{}
	for len(order) < len(roots) {
		progressed := false
		for _, s := range roots {
			if done[s.Name] {
				continue
			}
			ready := true
			for _, d := range g.w.Script {
				if d.Store == s.Name && d.Target != "" && d.Kind != "link" && !d.Nullable && d.Target != s.Name && !done[g.rootOf(d.Target)] {
					ready = false
				}
			}
			if ready {
				done[s.Name] = true
				order = append(order, s)
				progressed = true
			}
		}
		if !progressed {
			for _, s := range roots {
				if !done[s.Name] {
					done[s.Name] = true
					order = append(order, s)
				}
			}
		}
	}
	var txs []hTx
	for _, s := range order {
		for n := 1 + g.r.intn(3); n > 0; n-- {
			store := s.Name
			for _, c := range g.w.Stores { // sometimes enter through a child store
				if c.Parent == s.Name && g.r.chance(25) {
					store = c.Name
				}
			}
			if op, ok := g.validCreate(store); ok {
				if g.typed {
					c03tNormOp(g.w, &op)
				}
				txs = append(txs, hTx{Ops: []hOp{op}})
			}
		}
	}
	for n := 2 + g.r.intn(5); n > 0; n-- {
		t := hTx{Sys: g.r.chance(10)}
		ops := 1
		if g.r.chance(25) {
			ops = 2 + g.r.intn(2)
		}
		for ; ops > 0; ops-- {
			t.Ops = append(t.Ops, g.warmOp())
		}
		t.PreCommitErr = g.r.chance(3)
		txs = append(txs, t)
	}
	return txs
}

// c03GenAndRun is histGen.genAndRun (same draws from the random stream) that survives a panic of the code under test:
// it then returns the transactions generated so far, the panicking one last
func c03GenAndRun(g *histGen, h *harnessDb) (txs []hTx, obs string, pan string) {
	if g.p.endInDelete {
		txs, obs = g.genAndRun(h)
		return txs, obs, ""
	}
	var ob strings.Builder
	defer func() {
		if r := recover(); r != nil {
			obs, pan = ob.String(), "panic: "+fmt.Sprint(r)
		}
	}()
	n := 1 + g.r.intn(g.p.maxTx)
	for i := 0; i < n; i++ {
		g.refresh(h)
		txs = append(txs, g.genTx())
		ob.WriteString(h.runTx(&txs[len(txs)-1]))
	}
	return txs, ob.String(), ""
}

// c03RunHistory runs a history like runHistory.  When the code under test PANICS inside a transaction (an index that does
// not mirror the entities makes e.g. setIndex.ProcessBeforeDelete walk a bucket that is not there), the case is cut after
// the first panicking transaction, the observation to the transactions before it, and the observation of the last of
// them gets the token OPPANIC:<hex of the panic value> (checks/c03.py: the index oracles see the state the panicking transaction started in, and report the
// panic itself when they find nothing).  A history whose first transaction panics is an error of the run, as before.
func c03RunHistory(w *wiring, txs []hTx, tmp string) (string, string, error) {
	try := func(t []hTx) (c, obs string, err error, pan string) {
		defer func() {
			if r := recover(); r != nil {
				pan = "panic: " + fmt.Sprint(r)
			}
		}()
		c, obs, err = runHistory(w, t, tmp)
		return
	}
	c, obs, err, pan := try(txs)
	if pan == "" {
		return c, obs, err
	}
	for n := 1; n <= len(txs); n++ {
		w.sharedBase = nil
		c2, obs2, err2, pan2 := try(txs[:n])
		if err2 != nil {
			return "", "", err2
		}
		if pan2 == "" {
			c, obs = c2, obs2
			continue
		}
		if n == 1 {
			return "", "", fmt.Errorf("the first transaction of a history panics: %s", pan2)
		}
		if k := strings.LastIndex(obs, " ST"); k >= 0 {
			obs = obs[:k] + " OPPANIC:" + hxs(pan2) + obs[k:]
		}
		// the case keeps the panicking transaction as its last one (the observation has one segment less)
		var cb strings.Builder
		cb.WriteString(w.text())
		for i := 0; i < n; i++ {
			cb.WriteString(" ")
			cb.WriteString(w.txText(&txs[i]))
		}
		return cb.String(), obs, nil
	}
	return "", "", fmt.Errorf("a history panics (%s) but none of its prefixes does", pan)
}

func runStoreC03s(o *opts) error {
	prof := profileFor(o.get("profile", "c03"))
	cases := newLineWriter(o.out, "cases.txt")
	impl := newLineWriter(o.out, "impl.txt")
	defer cases.close()
	defer impl.close()
	tmp := o.get("tmp", os.TempDir())
	stats := map[string]int{}
	storeExtraReads = c03IndexReads
	c03bWriteCoq(o.out)
	c03fWriteCoq(o.out) // the schemas of the family wirings as Examples/C03Wirings.v must hold them (compared by checks/c03.py)
	n := 400
	if o.thorough() {
		n = 6000
	}
	if o.n > 0 {
		n = o.n
	}
	if cp := o.get("corpus", ""); cp != "" {
		data, err := os.ReadFile(cp)
		if err != nil {
			return err
		}
		for _, line := range strings.Split(string(data), "\n") {
			line = strings.TrimSpace(line)
			if line == "" || strings.HasPrefix(line, "#") {
				continue
			}
			w, txs, err := parseCase(line)
			if err != nil {
				return fmt.Errorf("corpus %s: %v", cp, err)
			}
			c, obs, err := c03RunHistory(w, txs, tmp)
			if err != nil {
				return err
			}
			cases.line("%s", c)
			impl.line("%s", obs)
			stats["corpus"]++
		}
	}
	if o.n == 0 && o.get("corpus", "") != "" && o.get("profile", "") == "" {
		// replay: only the given cases
		writeJSON(o.out, "stats.json", stats)
		return nil
	}
	famK := -1 // >= 0: the next history is number famK of the systematic family stream (store_c03f.go)
	sepK := -1 // >= 0: the next history is number sepK of the regrouping stream (store_c03b.go) over the separator curSep
	curSep := ""
	curProf := prof
	one := func(r *rng, w *wiring, i int, cross bool) error {
		w.derive()
		g := &histGen{r: r, w: w, p: curProf, ids: curProf.ids}
		var txs []hTx
		var c, obs string
		if sepK >= 0 {
			txs = (&warmGen{histGen: g, cross: cross}).c03bRegroupHistory(sepK, curSep)
			stats["histories_regroup"]++
			var err error
			c, obs, err = c03RunHistory(w, txs, tmp)
			if err != nil {
				return err
			}
		} else if famK >= 0 {
			txs = (&warmGen{histGen: g, cross: cross}).c03fFamilyHistory(famK)
			stats["histories_family"]++
			var err error
			c, obs, err = c03RunHistory(w, txs, tmp)
			if err != nil {
				return err
			}
		} else if i%2 == 0 {
			// state-aware generation against the live database (store_gen.go)
			h, err := openHarnessDb(w, tmp)
			if err != nil {
				return err
			}
			var pan string
			txs, obs, pan = c03GenAndRun(g, h)
			h.close()
			var cb strings.Builder
			cb.WriteString(w.text())
			for k := range txs {
				cb.WriteString(" ")
				cb.WriteString(w.txText(&txs[k]))
			}
			c = cb.String()
			if pan != "" {
				// the code under test panicked in the last transaction generated: the history so far, run again and cut
				stats["histories_live_panic"]++
				if c, obs, err = c03RunHistory(w, txs, tmp); err != nil {
					return err
				}
			}
			stats["histories_live"]++
		} else {
			txs = (&warmGen{histGen: g, cross: cross, typed: c03tTypedKeys(w) != nil}).genHistoryWarm()
			stats["histories_warm"]++
			var err error
			c, obs, err = c03RunHistory(w, txs, tmp)
			if err != nil {
				return err
			}
		}
		cases.line("%s", c)
		impl.line("%s", obs)
		stats["histories"]++
		stats["wiring_"+w.Name]++
		stats["tx"] += len(txs)
		for _, t := range txs {
			stats["ops"] += len(t.Ops)
			for _, op := range t.Ops {
				stats["op_"+op.Kind]++
				if op.Kind == "UP" && op.HasChk {
					stats["op_UP_checker"]++
				}
			}
			if t.Sys {
				stats["tx_sys"]++
			}
			if t.PreCommitErr {
				stats["tx_precommit_err"]++
			}
			if len(t.Vetoes) > 0 {
				stats["tx_veto"]++
			}
		}
		stats["obs_commit"] += strings.Count(obs, " COMMIT")
		stats["obs_rollback"] += strings.Count(obs, " ROLLBACK")
		for _, k := range []string{" dup", " notfound", " refexists", " err"} {
			stats["res_"+strings.TrimSpace(k)] += strings.Count(obs, k+" ") // approximate
		}
		stats["index_reads_unique"] += strings.Count(obs, " IXU:")
		stats["index_reads_set"] += strings.Count(obs, " IXS:")
		return nil
	}
	r := newRng(o.seed)
	for i := 0; i < n; i++ {
		if err := one(r, wiringByName(prof.wirings[(i/2)%len(prof.wirings)]), i, false); err != nil {
			return err
		}
	}
	// deeper / shared / slack base paths, several indexes per store, values crossing from one indexed field to another
	// (own random stream: the histories above do not depend on this part)
	rd := newRng(o.seed*7919 + 3)
	nDeep := n / 3
	for i := 0; i < nDeep; i++ {
		d := c03DeepWirings[(i/2)%len(c03DeepWirings)]
		if err := one(rd, wiringByName(d.name), i, true); err != nil {
			return err
		}
		stats["deep_histories"]++
		stats[fmt.Sprintf("deep_depth_%d_slack_%v", d.depth, d.slack > 0)]++
	}
	// unique indexes over int64 / int32 / bool / float64 / datetime fields (store_c03t.go; own random stream again)
	rt := newRng(o.seed*104729 + 11)
	nTyped := n / 4
	for i := 0; i < nTyped; i++ {
		d := c03tWirings[(i/2)%len(c03tWirings)]
		if err := one(rt, wiringByName(d.name), i, false); err != nil {
			return err
		}
		stats["typed_histories"]++
	}
	// store families: several child stores (plain / extended, every registration order) under one parent, unique and set
	// indexes on every level (store_c03f.go; own random stream): live, warm and systematic family histories in turn
	rf := newRng(o.seed*15485863 + 29)
	nFam := n / 3
	for i := 0; i < nFam; i++ {
		d := c03fWirings[(i/3)%len(c03fWirings)]
		famK = -1
		if i%3 == 2 {
			famK = i / (3 * len(c03fWirings))
		}
		if err := one(rf, wiringByName(d.name), i%3, true); err != nil {
			return err
		}
		stats["family_histories"]++
	}
	famK = -1
	// values that are re-groupings of one character sequence over a separator, bare child stores under indexed parents
	// (store_c03b.go; own random stream): live, warm, regrouping and family histories in turn, one separator per group
	rb := newRng(o.seed*32452843 + 41)
	nSep := n / 4
	if o.thorough() && o.n == 0 || n > 6000 {
		nSep = n / 6 // thorough tier: the whole run stays within its time budget
	}
	for i := 0; i < nSep; i++ {
		grp := i / 4
		w := wiringByName(c03bStream[grp%len(c03bStream)])
		curSep = c03bSepFor(grp)
		sp2 := *prof
		sp2.vals = c03bUniverse(curSep)
		curProf = &sp2
		famK, sepK = -1, -1
		switch i % 4 {
		case 2:
			sepK = grp / len(c03bStream)
		case 3:
			if len(c03fFamily(w)) > 1 {
				famK = rb.intn(64)
			} else {
				sepK = grp/len(c03bStream) + 1
			}
		}
		if err := one(rb, w, i%4, true); err != nil {
			return err
		}
		stats["separator_histories"]++
		stats["separator_"+hxs(curSep)]++
	}
	famK, sepK, curProf = -1, -1, prof
	writeJSON(o.out, "stats.json", stats)
	fmt.Fprintf(os.Stderr, "store_c03s: %d histories\n", n)
	return nil
}
