package main

// C03: "warm" histories for the index properties.
//
// The general history generator (store_gen.go) starts every history on an empty database and mixes all
// operation kinds blindly, so most transactions roll back (a create needs its fk targets, one failing op
// rolls the transaction back) and index maintenance on POPULATED stores is exercised rarely.  The
// sub-command "store_c03s" interleaves those histories with warm ones: a warm-up that populates the
// stores (fk targets first, distinct unique values), followed by short, mostly-valid transactions that
// perturb string sets (add / drop / replace a member while keeping the others, re-order, duplicate,
// empty), hand unique values over, collide on purpose, delete and re-create.  The generator keeps a
// *belief* of what exists only to bias its choices; it is never used as an oracle.  Case / observation
// format and executor are those of the "store" sub-command, so corpus, replay and model driver are shared.

import (
	"fmt"
	"os"
	"sort"
	"strings"
)

func init() { commands["store_c03s"] = runStoreC03s }

type warmGen struct {
	*histGen
	sets map[string]map[string]map[string][]string // root -> id -> set field -> believed members
	uniq map[string]map[string]string              // "root.field" -> value -> believed holder
}

func (g *warmGen) rootOf(store string) string {
	if p := g.w.store(store).Parent; p != "" {
		return p
	}
	return store
}

// unique fields (plain ones, declared on the store or its parent) of a store
func (g *warmGen) uniqueFields(store string) []string {
	var fs []string
	for _, d := range g.w.Script {
		if d.Kind == "unique" && (d.Store == store || d.Store == g.w.store(store).Parent) {
			fs = append(fs, d.Store+"."+d.Field)
		}
	}
	return fs
}

func (g *warmGen) aliveIds(root string) []string {
	var xs []string
	for _, id := range g.ids {
		if g.alive[root][id] {
			xs = append(xs, id)
		}
	}
	return xs
}

func (g *warmGen) freeValue(key string) (string, bool) {
	var free []string
	for _, v := range g.p.vals {
		if v != "" && g.uniq[key][v] == "" {
			free = append(free, v)
		}
	}
	if len(free) == 0 {
		return "", false
	}
	return free[g.r.intn(len(free))], true
}

func (g *warmGen) noteUnique(op *hOp) {
	for _, key := range g.uniqueFields(op.Store) {
		f := key[strings.Index(key, ".")+1:]
		if g.uniq[key] == nil {
			g.uniq[key] = map[string]string{}
		}
		if op.HasChk {
			in := false
			for _, c := range op.Checker {
				in = in || c == f
			}
			if !in {
				continue
			}
		}
		for v, id := range g.uniq[key] {
			if id == op.Id {
				delete(g.uniq[key], v)
			}
		}
		if p, ok := op.F[f]; ok && p != nil && *p != "" && g.uniq[key][*p] == "" {
			g.uniq[key][*p] = op.Id
		}
	}
}

// a create that is valid with high probability: fresh id, alive fk targets, unused unique values
func (g *warmGen) validCreate(store string) (hOp, bool) {
	root := g.rootOf(store)
	op := hOp{Kind: "C", Store: store}
	var freeIds []string
	for _, id := range g.ids {
		if !g.alive[root][id] {
			freeIds = append(freeIds, id)
		}
	}
	if len(freeIds) == 0 {
		return op, false
	}
	op.Id = freeIds[g.r.intn(len(freeIds))]
	g.fieldsValue(&op)
	fields, _ := g.w.allFields(store)
	for _, f := range fields {
		owner := store
		if g.fkTargetOf(owner, f.Name) == "" && g.w.store(store).Parent != "" {
			owner = g.w.store(store).Parent
		}
		if t := g.fkTargetOf(owner, f.Name); t != "" {
			al := g.aliveIds(g.rootOf(t))
			if len(al) > 0 && !(f.Ptr && g.r.chance(40)) {
				op.F[f.Name] = sp(al[g.r.intn(len(al))])
			} else if f.Ptr {
				delete(op.F, f.Name)
			}
		}
	}
	for _, key := range g.uniqueFields(store) {
		f := key[strings.Index(key, ".")+1:]
		if v, ok := g.freeValue(key); ok && g.r.chance(92) {
			op.F[f] = sp(v)
		}
	}
	for sn, l := range op.S {
		for k := range l {
			if l[k] == "" && g.r.chance(85) {
				l[k] = "r"
			}
		}
		op.S[sn] = l
	}
	g.alive[root][op.Id] = true
	g.noteUnique(&op)
	if g.sets[root] == nil {
		g.sets[root] = map[string]map[string][]string{}
	}
	g.sets[root][op.Id] = map[string][]string{}
	for sn, l := range op.S {
		g.sets[root][op.Id][sn] = append([]string{}, l...)
	}
	return op, true
}

func dedupSorted(l []string) []string {
	m := map[string]bool{}
	var out []string
	for _, v := range l {
		if !m[v] {
			m[v] = true
			out = append(out, v)
		}
	}
	sort.Strings(out)
	return out
}

// a perturbation of the believed current set; the stored set is sorted, so "first" means smallest
func (g *warmGen) perturb(cur []string) []string {
	cur = dedupSorted(cur)
	universe := append([]string{"r", "s"}, g.p.vals...)
	fresh := func() string {
		for try := 0; try < 6; try++ {
			v := universe[g.r.intn(len(universe))]
			if v == "" && !g.r.chance(6) {
				continue
			}
			in := false
			for _, c := range cur {
				in = in || c == v
			}
			if !in {
				return v
			}
		}
		return "zz"
	}
	out := append([]string{}, cur...)
	switch k := g.r.intn(100); {
	case k < 18 || len(cur) == 0: // add a member
		out = append(out, fresh())
	case k < 30: // drop the smallest
		out = out[1:]
	case k < 42: // drop the largest
		out = out[:len(out)-1]
	case k < 60: // replace the largest, keep the others (same size, same first member when size > 1)
		out[len(out)-1] = fresh()
	case k < 70: // replace the smallest
		out[0] = fresh()
	case k < 78: // replace a middle / random member
		out[g.r.intn(len(out))] = fresh()
	case k < 84: // same set, different order and a duplicate
		out = append([]string{out[len(out)-1]}, out...)
	case k < 90: // unchanged
	case k < 95: // empty
		out = nil
	default: // a completely new set
		out = nil
		for n := 1 + g.r.intn(3); n > 0; n-- {
			out = append(out, fresh())
		}
	}
	return out
}

func (g *warmGen) setUpdate() (hOp, bool) {
	var cands []string
	for _, s := range g.w.Stores {
		if _, sets := g.w.allFields(s.Name); len(sets) > 0 && len(g.aliveIds(g.rootOf(s.Name))) > 0 {
			cands = append(cands, s.Name)
		}
	}
	if len(cands) == 0 {
		return hOp{}, false
	}
	store := cands[g.r.intn(len(cands))]
	root := g.rootOf(store)
	al := g.aliveIds(root)
	op := hOp{Kind: "UP", Store: store, Id: al[g.r.intn(len(al))]}
	g.fieldsValue(&op)
	_, sets := g.w.allFields(store)
	sn := sets[g.r.intn(len(sets))]
	var cur []string
	if g.sets[root] != nil && g.sets[root][op.Id] != nil {
		cur = g.sets[root][op.Id][sn]
	}
	op.S[sn] = g.perturb(cur)
	if g.r.chance(80) {
		op.HasChk = true
		op.Checker = []string{sn}
		if g.r.chance(15) {
			if fs, _ := g.w.allFields(store); len(fs) > 0 {
				op.Checker = append(op.Checker, fs[g.r.intn(len(fs))].Name)
			}
		}
	}
	if g.sets[root] == nil {
		g.sets[root] = map[string]map[string][]string{}
	}
	if g.sets[root][op.Id] == nil {
		g.sets[root][op.Id] = map[string][]string{}
	}
	g.sets[root][op.Id][sn] = append([]string{}, op.S[sn]...)
	g.noteUnique(&op)
	return op, true
}

func (g *warmGen) uniqueUpdate() (hOp, bool) {
	var cands []string
	for _, s := range g.w.Stores {
		if len(g.uniqueFields(s.Name)) > 0 && len(g.aliveIds(g.rootOf(s.Name))) > 0 {
			cands = append(cands, s.Name)
		}
	}
	if len(cands) == 0 {
		return hOp{}, false
	}
	store := cands[g.r.intn(len(cands))]
	al := g.aliveIds(g.rootOf(store))
	op := hOp{Kind: "UP", Store: store, Id: al[g.r.intn(len(al))]}
	g.fieldsValue(&op)
	keys := g.uniqueFields(store)
	key := keys[g.r.intn(len(keys))]
	f := key[strings.Index(key, ".")+1:]
	switch k := g.r.intn(100); {
	case k < 45:
		if v, ok := g.freeValue(key); ok {
			op.F[f] = sp(v)
		}
	case k < 75: // a value believed to be held by somebody (possibly the entity itself)
		var held []string
		for v := range g.uniq[key] {
			held = append(held, v)
		}
		sort.Strings(held)
		if len(held) > 0 {
			op.F[f] = sp(held[g.r.intn(len(held))])
		}
	case k < 85:
		op.F[f] = sp("")
	case k < 92:
		delete(op.F, f) // nil pointer / missing
	}
	op.HasChk = true
	op.Checker = []string{f}
	g.noteUnique(&op)
	return op, true
}

func (g *warmGen) warmOp() hOp {
	switch k := g.r.intn(100); {
	case k < 40:
		if op, ok := g.setUpdate(); ok {
			return op
		}
	case k < 60:
		if op, ok := g.uniqueUpdate(); ok {
			return op
		}
	case k < 74:
		st := g.w.Stores[g.r.intn(len(g.w.Stores))]
		if op, ok := g.validCreate(st.Name); ok {
			return op
		}
	case k < 88:
		st := g.w.Stores[g.r.intn(len(g.w.Stores))]
		root := g.rootOf(st.Name)
		if al := g.aliveIds(root); len(al) > 0 {
			op := hOp{Kind: "D", Store: st.Name, Id: al[g.r.intn(len(al))]}
			delete(g.alive[root], op.Id)
			for _, m := range g.uniq {
				for v, id := range m {
					if id == op.Id {
						delete(m, v)
					}
				}
			}
			return op
		}
	}
	return g.genOp()
}

func (g *warmGen) genHistoryWarm() []hTx {
	g.alive = map[string]map[string]bool{}
	g.sets = map[string]map[string]map[string][]string{}
	g.uniq = map[string]map[string]string{}
	var roots []*sStore
	for _, s := range g.w.Stores {
		if s.Parent == "" {
			g.alive[s.Name] = map[string]bool{}
			roots = append(roots, s)
		}
	}
	// fk targets first: a store is ready when all its non-nullable fk targets (other than itself) were populated
	var order []*sStore
	done := map[string]bool{}
	for len(order) < len(roots) {
		progressed := false
		for _, s := range roots {
			if done[s.Name] {
				continue
			}
			ready := true
			for _, d := range g.w.Script {
				if d.Store == s.Name && d.Target != "" && d.Kind != "link" && !d.Nullable && d.Target != s.Name && !done[g.rootOf(d.Target)] {
					ready = false
				}
			}
			if ready {
				done[s.Name] = true
				order = append(order, s)
				progressed = true
			}
		}
		if !progressed {
			for _, s := range roots {
				if !done[s.Name] {
					done[s.Name] = true
					order = append(order, s)
				}
			}
		}
	}
	var txs []hTx
	for _, s := range order {
		for n := 1 + g.r.intn(3); n > 0; n-- {
			store := s.Name
			for _, c := range g.w.Stores { // sometimes enter through a child store
				if c.Parent == s.Name && g.r.chance(25) {
					store = c.Name
				}
			}
			if op, ok := g.validCreate(store); ok {
				txs = append(txs, hTx{Ops: []hOp{op}})
			}
		}
	}
	for n := 2 + g.r.intn(5); n > 0; n-- {
		t := hTx{Sys: g.r.chance(10)}
		ops := 1
		if g.r.chance(25) {
			ops = 2 + g.r.intn(2)
		}
		for ; ops > 0; ops-- {
			t.Ops = append(t.Ops, g.warmOp())
		}
		t.PreCommitErr = g.r.chance(3)
		txs = append(txs, t)
	}
	return txs
}

func runStoreC03s(o *opts) error {
	prof := profileFor(o.get("profile", "c03"))
	cases := newLineWriter(o.out, "cases.txt")
	impl := newLineWriter(o.out, "impl.txt")
	defer cases.close()
	defer impl.close()
	tmp := o.get("tmp", os.TempDir())
	stats := map[string]int{}
	n := 400
	if o.thorough() {
		n = 6000
	}
	if o.n > 0 {
		n = o.n
	}
	if cp := o.get("corpus", ""); cp != "" {
		data, err := os.ReadFile(cp)
		if err != nil {
			return err
		}
		for _, line := range strings.Split(string(data), "\n") {
			line = strings.TrimSpace(line)
			if line == "" || strings.HasPrefix(line, "#") {
				continue
			}
			w, txs, err := parseCase(line)
			if err != nil {
				return fmt.Errorf("corpus %s: %v", cp, err)
			}
			c, obs, err := runHistory(w, txs, tmp)
			if err != nil {
				return err
			}
			cases.line("%s", c)
			impl.line("%s", obs)
			stats["corpus"]++
		}
	}
	r := newRng(o.seed)
	for i := 0; i < n; i++ {
		w := wiringByName(prof.wirings[(i/2)%len(prof.wirings)])
		w.derive()
		g := &histGen{r: r, w: w, p: prof, ids: prof.ids}
		var txs []hTx
		var c, obs string
		if i%2 == 0 {
			// state-aware generation against the live database (store_gen.go)
			h, err := openHarnessDb(w, tmp)
			if err != nil {
				return err
			}
			txs, obs = g.genAndRun(h)
			h.close()
			var cb strings.Builder
			cb.WriteString(w.text())
			for k := range txs {
				cb.WriteString(" ")
				cb.WriteString(w.txText(&txs[k]))
			}
			c = cb.String()
			stats["histories_live"]++
		} else {
			txs = (&warmGen{histGen: g}).genHistoryWarm()
			stats["histories_warm"]++
			var err error
			c, obs, err = runHistory(w, txs, tmp)
			if err != nil {
				return err
			}
		}
		cases.line("%s", c)
		impl.line("%s", obs)
		stats["histories"]++
		stats["wiring_"+w.Name]++
		stats["tx"] += len(txs)
		for _, t := range txs {
			stats["ops"] += len(t.Ops)
			for _, op := range t.Ops {
				stats["op_"+op.Kind]++
				if op.Kind == "UP" && op.HasChk {
					stats["op_UP_checker"]++
				}
			}
			if t.Sys {
				stats["tx_sys"]++
			}
			if t.PreCommitErr {
				stats["tx_precommit_err"]++
			}
			if len(t.Vetoes) > 0 {
				stats["tx_veto"]++
			}
		}
		stats["obs_commit"] += strings.Count(obs, " COMMIT")
		stats["obs_rollback"] += strings.Count(obs, " ROLLBACK")
		for _, k := range []string{" dup", " notfound", " refexists", " err"} {
			stats["res_"+strings.TrimSpace(k)] += strings.Count(obs, k+" ") // approximate
		}
	}
	writeJSON(o.out, "stats.json", stats)
	fmt.Fprintf(os.Stderr, "store_c03s: %d histories\n", n)
	return nil
}
