package main

import (
	"fmt"
	"strconv"
	"strings"

	"github.com/openziti/storage/boltz"
)

// C19, section (S): SESSIONS - sequences of queries answered by the same ObjectStore instances (agent s9-c19).
//
// The C19 model is a function of the query and the collection (Query/ObjectSession.v, theorems
// objectz_session_pointwise / objectz_session_independent / objectz_session_eq_boltz): whatever was asked before on the
// same store, and however the collection looked then, is irrelevant.  The ordinary stream cannot show a dependence:
// one printer produces all its texts, so two texts are either identical or differ in a token.  Here
//
//   - case line `S` replaces both object stores (c19Objects.reset) by new instances: everything up to the next `S`
//     is one session on them; `D` lines inside a session change the collection UNDER the stores (the map behind
//     objectz.IterateMap is emptied and re-populated, never replaced);
//   - case line `QV <style> ...` is `Q ...` whose text is respelled OUTSIDE its literals (c19Respell: keyword case,
//     doubled blanks, tabs / line breaks as separators, leading / trailing white space, no blanks around comparison
//     operators, blanks inside parentheses and brackets) - the same query for the model;
//   - the collections hold families of NEAR-IDENTICAL strings (one blank / two blanks / tab / line break / leading or
//     trailing blank / none, lower / upper case, a quote or backslash with and without a backslash in front, a tab
//     against the two characters `\t`), and the literals of consecutive queries are neighbours from such a family:
//     the texts differ only inside a string literal, and the data tells the literals apart.
//
// Every answer is compared with the specification for exactly that text, as everywhere else in C19.

// ---- respelling ------------------------------------------------------------------------------------------------------

const (
	c19StyleUpper   = 1  // keywords in upper case
	c19StyleMixed   = 2  // keywords in alternating case (with c19StyleUpper: capitalised)
	c19StyleDouble  = 4  // every separator doubled
	c19StyleTabs    = 8  // separators are tabs, line breaks, CR LF
	c19StyleMargin  = 16 // white space in front of and behind the query
	c19StyleCompact = 32 // no blanks around comparison operators; blanks inside ( ) [ ] and in front of commas
	c19StyleMax     = 64
)

var c19Keywords = map[string]bool{"and": true, "or": true, "not": true, "contains": true, "icontains": true, "in": true,
	"between": true, "null": true, "true": true, "false": true, "sort": true, "by": true, "skip": true, "limit": true,
	"none": true, "asc": true, "desc": true}

func c19IsWordChar(c byte) bool {
	return c >= 'a' && c <= 'z' || c >= 'A' && c <= 'Z' || c >= '0' && c <= '9' || c == '_' || c == '.' || c == '+' || c == '-' || c >= 0x80
}

func c19IsOpChar(c byte) bool { return c == '<' || c == '>' || c == '=' || c == '!' }

// c19Tokens splits a printed query into string literals and datetime(...) literals (kept verbatim), words, runs of
// blanks, comparison operators and single punctuation characters
func c19Tokens(text string) []string {
	var toks []string
	for i := 0; i < len(text); {
		j := i + 1
		switch c := text[i]; {
		case c == '"':
			for j < len(text) && text[j] != '"' {
				if text[j] == '\\' {
					j++
				}
				j++
			}
			j++
		case strings.HasPrefix(text[i:], "datetime("):
			j = i + strings.IndexByte(text[i:], ')') + 1
		case c == ' ':
			for j < len(text) && text[j] == ' ' {
				j++
			}
		case c19IsWordChar(c):
			for j < len(text) && c19IsWordChar(text[j]) {
				j++
			}
		case c19IsOpChar(c):
			for j < len(text) && c19IsOpChar(text[j]) {
				j++
			}
		}
		if j > len(text) {
			j = len(text)
		}
		toks = append(toks, text[i:j])
		i = j
	}
	return toks
}

// c19Respell: another spelling of the same query; literals and symbol names are untouched
func c19Respell(text string, style int) string {
	if style == 0 {
		return text
	}
	toks := c19Tokens(text)
	seps := []string{"\t", "\n", " \r\n ", " \t"}
	var b strings.Builder
	if style&c19StyleMargin != 0 {
		b.WriteString("\n  ")
	}
	nsep := 0
	for i, t := range toks {
		switch {
		case t[0] == ' ':
			if style&c19StyleCompact != 0 && (i > 0 && c19IsOpChar(toks[i-1][0]) || i+1 < len(toks) && c19IsOpChar(toks[i+1][0])) {
				continue
			}
			sep := " "
			if style&c19StyleTabs != 0 {
				sep = seps[nsep%len(seps)]
				nsep++
			}
			if style&c19StyleDouble != 0 {
				sep += sep
			}
			b.WriteString(sep)
		case c19Keywords[strings.ToLower(t)]:
			switch style & (c19StyleUpper | c19StyleMixed) {
			case c19StyleUpper:
				t = strings.ToUpper(t)
			case c19StyleMixed:
				bs := []byte(strings.ToLower(t))
				for k := 1; k < len(bs); k += 2 {
					bs[k] -= 'a' - 'A'
				}
				t = string(bs)
			case c19StyleUpper | c19StyleMixed:
				t = strings.ToUpper(t[:1]) + strings.ToLower(t[1:])
			}
			b.WriteString(t)
		case style&c19StyleCompact != 0 && (t == "(" || t == "["):
			b.WriteString(t + " ")
		case style&c19StyleCompact != 0 && (t == ")" || t == "]" || t == ","):
			b.WriteString(" " + t)
		default:
			b.WriteString(t)
		}
	}
	if style&c19StyleMargin != 0 {
		b.WriteString(" \t\n")
	}
	return b.String()
}

// c19Show: a (possibly multi-line) query text on one line, for messages
var c19Show = strings.NewReplacer("\n", "⏎", "\t", "⇥", "\r", "␍")

// ---- near-identical strings ------------------------------------------------------------------------------------------

// the first member is the base, the others differ from it (and from one another) only in white space, case or in
// what an escape sequence stands for
var c19SeqFamilies = [][]string{
	{"New York", "New  York", "New\tYork", "New\nYork", "New York ", " New York", "NewYork", "new york", "NEW YORK", "New   York", "New \tYork"},
	{`a"b`, `a\"b`, `a""b`, `a\b`, `a\\b`, "a\tb", `a\tb`, "a\nb", `a\nb`, "ab", "a b"},
}

var c19SeqWords = []string{"a", "b", "ab", "Zed", "x1", "Q"}
var c19SeqSeps = []string{" ", "  ", "\t", "\n", "", " \t", "\r\n", `\`, `"`, `\t`, `\\`, "   "}

// c19SeqRandomFamily: w1 <sep> w2 for one pair of words under 5..8 separators, some in another case, some with a
// margin blank
func c19SeqRandomFamily(r *rng) []string {
	w1, w2 := r.pick(c19SeqWords), r.pick(c19SeqWords)
	seen := map[string]bool{}
	var fam []string
	for len(fam) < 5+r.intn(4) {
		s := w1 + r.pick(c19SeqSeps) + w2
		switch r.intn(8) {
		case 0:
			s = strings.ToUpper(s)
		case 1:
			s = strings.ToLower(s)
		case 2:
			s += " "
		case 3:
			s = " " + s
		}
		if !seen[s] {
			seen[s] = true
			fam = append(fam, s)
		}
	}
	return fam
}

// c19SeqDataset: one object per value (ids against the order of the values), an object without fs, and - when r is
// given - some values twice; the other columns hold a counter, a small group number and nulls
func c19SeqDataset(r *rng, prefix string, fams ...[]string) *qDataset {
	var vals []string
	for _, f := range fams {
		vals = append(vals, f...)
	}
	if r != nil {
		for k := r.intn(4); k > 0; k-- {
			vals = append(vals, vals[r.intn(len(vals))])
		}
	}
	d := &qDataset{}
	n := len(vals) + 1
	for i := 0; i < n; i++ {
		cells := make([]qCell, len(qCols))
		for ci := range cells {
			cells[ci] = qCell{kind: 'N', absent: ci%2 == 0}
		}
		if i < len(vals) {
			cells[qColFs] = qCell{kind: 'S', s: vals[(i*7+3)%len(vals)]}
			if len(vals)%7 == 0 {
				cells[qColFs] = qCell{kind: 'S', s: vals[len(vals)-1-i]}
			}
		}
		cells[qColFi] = qCell{kind: 'I', i: int64(n - i)}
		cells[qColGrp] = qCell{kind: 'I', i: int64(i % 3)}
		cells[qColKeep] = qCell{kind: 'B', b: i%2 == 0}
		d.rows = append(d.rows, qRow{id: fmt.Sprintf("%s%02d", prefix, i), cells: cells})
	}
	return d
}

// the string operators: k selects one
const c19SeqAtomKinds = 9

func c19SeqAtom(k int, col int, l, other sfLit) *sfNode {
	one := []sfLit{l}
	switch k % c19SeqAtomKinds {
	case 0:
		return &sfNode{kind: "cmp", col: col, op: "eq", lits: one}
	case 1:
		return &sfNode{kind: "cmp", col: col, op: "ne", lits: one}
	case 2:
		return &sfNode{kind: "has", col: col, lits: one}
	case 3:
		return &sfNode{kind: "in", col: col, lits: one}
	case 4:
		return &sfNode{kind: "cmp", col: col, op: "lt", lits: one}
	case 5:
		return &sfNode{kind: "has", col: col, neg: true, lits: one}
	case 6:
		return &sfNode{kind: "A", kids: []*sfNode{{kind: "null", neg: true, col: col}, {kind: "has", col: col, icase: true, lits: one}}}
	case 7:
		return &sfNode{kind: "in", col: col, lits: []sfLit{other, l}}
	default:
		return &sfNode{kind: "cmp", col: col, op: "ge", lits: one}
	}
}

// ---- the section -----------------------------------------------------------------------------------------------------

func c19SeqEmit(o *opts, qb *qBolt, objs *c19Objects, cases, impl *lineWriter, bump func(group, key string)) error {
	r := qRng(o.seed, 0xC195)
	var d *qDataset
	var store boltz.ConfigurableStore
	load := func(nd *qDataset, kind string) error {
		var err error
		if store, err = qb.load(nd); err != nil {
			return err
		}
		d = nd
		cases.line("%s", d.line())
		impl.line("D")
		bump("rows", strconv.Itoa(len(d.rows)))
		bump("collections", kind)
		return nil
	}
	session := func(kind string) {
		objs.reset()
		cases.line("S")
		impl.line("S")
		bump("sessions", kind)
	}
	emit := func(f *sfNode, fs []qSortField, pg qPaging, style int) {
		n := len(d.rows)
		cq := &c19Query{filter: f, q: qQuery{sort: fs, skip: pg.skip, limit: pg.limit, none: pg.none}, order: qShuffled(r, n), style: style}
		text := cq.text()
		cases.line("%s", cq.caseLine())
		impl.line("%s", objs.implLine(d, cq.order, text, qb.db, store))
		c19Bump(bump, f, fs, pg, int64(n))
		if style != 0 {
			bump("sessions", "respelled queries")
		}
	}
	T := &sfNode{kind: "T"}
	byFs := func(asc bool) []qSortField { return []qSortField{{col: qColFs, asc: asc}} }

	// (S1) the collection changes under one pair of stores: never populated, one object, many, emptied again (an
	// existing but empty bucket / no bucket on the bolt side), two objects, emptied - the same texts every time
	fixed := c19SeqDataset(nil, "q", c19SeqFamilies...)
	one := &qDataset{rows: fixed.rows[3:4]}
	two := &qDataset{rows: fixed.rows[5:7]}
	base := sfStrLit(c19SeqFamilies[0][0])
	probes := func() {
		emit(T, nil, qPaging{}, 0)
		emit(&sfNode{kind: "cmp", col: qColFs, op: "eq", lits: []sfLit{base}}, nil, qPaging{}, 0)
		emit(T, byFs(false), qPaging{skip: qI64p(2), limit: qI64p(5)}, 0)
		emit(T, nil, qPaging{none: true}, 0)
		emit(&sfNode{kind: "null", col: qColFs, neg: true}, byFs(true), qPaging{}, 0)
		emit(&sfNode{kind: "F"}, nil, qPaging{}, 0)
		emit(T, []qSortField{{col: -1, asc: false}}, qPaging{skip: qI64p(1)}, c19StyleUpper)
		emit(&sfNode{kind: "cmp", col: qColFi, op: "ge", lits: []sfLit{sfIntLit(2)}}, []qSortField{{col: qColGrp, asc: true}, {col: qColFi, asc: true}}, qPaging{limit: qI64p(3)}, c19StyleDouble)
	}
	session("collection changes under the stores")
	for _, nd := range []*qDataset{{}, one, fixed, {}, two, {noBucket: true}, one, {}} {
		kind := "session: near-identical strings"
		if len(nd.rows) <= 2 {
			kind = fmt.Sprintf("session: %d object(s)", len(nd.rows))
		}
		if err := load(nd, kind); err != nil {
			return err
		}
		probes()
	}

	// (S2) every ordered pair of near-identical literals, one operator after the other (rotating); every operator for
	// the pairs with the base of the family - two queries per session, in front of them nothing
	if err := load(fixed, "session: near-identical strings"); err != nil {
		return err
	}
	pairNo := 0
	pair := func(k int, a, b string, fs []qSortField, pg qPaging, style int) {
		session("pair of near-identical literals")
		emit(c19SeqAtom(k, qColFs, sfStrLit(a), sfStrLit(b)), fs, pg, 0)
		emit(c19SeqAtom(k, qColFs, sfStrLit(b), sfStrLit(a)), fs, pg, style)
	}
	for _, fam := range c19SeqFamilies {
		for i, a := range fam {
			for j, b := range fam {
				if i == j {
					continue
				}
				pairNo++
				var fs []qSortField
				pg := qPaging{}
				if pairNo%3 == 0 {
					fs, pg = byFs(pairNo%2 == 0), qPaging{limit: qI64p(5)}
				}
				if i == 0 || j == 0 {
					for k := 0; k < c19SeqAtomKinds; k++ {
						pair(k, a, b, fs, pg, 0)
					}
				} else {
					pair(pairNo, a, b, fs, pg, 0)
				}
			}
		}
	}
	// (S3) one query in every spelling, one after the other on one pair of stores, then its neighbour in every spelling
	for fi, fam := range c19SeqFamilies {
		session("one query in every spelling")
		for _, l := range []string{fam[0], fam[1+fi], fam[0]} {
			for style := 0; style < c19StyleMax; style++ {
				if style&(style-1) == 0 || style%7 == 3 { // single flags + some combinations
					emit(&sfNode{kind: "O", kids: []*sfNode{c19SeqAtom(style, qColFs, sfStrLit(l), sfStrLit(fam[2])),
						{kind: "N", kids: []*sfNode{{kind: "null", col: qColFs, neg: true}}}}}, byFs(style%2 == 0), qPaging{skip: qI64p(1), limit: qI64p(20)}, style)
				}
			}
		}
	}
	// (S4) random families, collections and sessions of 2..7 queries: neighbours, repetitions, respellings, the paging
	// clause or the direction changed only
	nColl, nSess := 2, 24
	if o.thorough() {
		nColl, nSess = 24, 40
	}
	for ci := 0; ci < nColl; ci++ {
		fam := c19SeqRandomFamily(r)
		if err := load(c19SeqDataset(r, "r", fam), "session: near-identical strings"); err != nil {
			return err
		}
		grid := qPagingGrid(int64(len(d.rows)))
		for si := 0; si < nSess; si++ {
			session("random session")
			k := r.intn(c19SeqAtomKinds)
			fs := qRandomSort(r, 2)
			pg := grid[r.intn(len(grid))]
			col := qColFs
			for qi := 2 + r.intn(6); qi > 0; qi-- {
				switch r.intn(6) {
				case 0:
					k = r.intn(c19SeqAtomKinds)
				case 1:
					pg = grid[r.intn(len(grid))]
				case 2:
					fs = qRandomSort(r, 2)
				}
				style := 0
				if r.chance(40) {
					style = r.intn(c19StyleMax)
				}
				emit(c19SeqAtom(k, col, sfStrLit(r.pick(fam)), sfStrLit(r.pick(fam))), fs, pg, style)
			}
		}
	}
	return nil
}
