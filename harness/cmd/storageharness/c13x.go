package main

import (
	"context"
	"fmt"
	"sort"
	"strconv"
	"strings"

	"github.com/openziti/storage/boltz"
	"go.etcd.io/bbolt"
)

// C13, case kind X: persists through boltz.PersistContext over a chain of real stores (a store,
// its parent store, the parent's parent ...), see coq/theories/Codec/Persist.v.
//
//	X <nlevels> (<plen> <key>{plen}){nlevels} <id> <dump> <nphases> phase{n} R <n> (<level> <name>){n}
//	phase := P <create> <checker> <nstmts> stmt{n}
//	stmt  := s <slot> <op> | g <slot> | w <slot> <n> (<from> <to>){n} | wn <slot>
//
// Level 0 is the store the entity is persisted through, level k its k-th ancestor; <plen> keys are
// the store's entity path below the root store's entity bucket (StoreDefinition.BasePath of a child
// store).  <dump> is the root store's entity bucket of entity <id>.  Every phase is one bbolt
// transaction: the context a store builds for Create / Update (boltz/store_crud.go: MutateContext,
// Id, Store, Bucket, FieldChecker, IsCreate) in slot 0, then the statements: a setter through the
// context in a slot, ctx[slot+1] = ctx[slot].GetParentContext(), ctx[slot].WithFieldOverrides (wn: of a nil map;
// equal mapping tables of one case are one Go map object).
// The phase fails when the bucket of the slot-0 context reports an error (what Create / Update
// return).  Ops are those of S (through the PersistContext method where there is one, else the
// TypedBucket setter with ctx.FieldChecker) and
//
//	links <name> <n> <id>{n}   ctx.SetLinkedIds
//	isc <name> <vc> <vu>       if ctx.IsCreate { ctx.SetString(name, vc) } else { ctx.SetString(name, vu) }
//	id <name>                  ctx.SetString(name, ctx.Id)
//	tx <name>                  ctx.SetBool(name, ctx.Tx() is the transaction of the phase)
const c13xBase = "c13x"
const c13xEnts = "ents"
const c13xPeers = "peers"
const c13xLinkField = "links"

var c13xPeerIds = []string{"p1", "p2", "p3", "p\x00"}

type c13xWorld struct {
	stores []*boltz.BaseStore[boltz.Entity] // by level
	peers  *boltz.BaseStore[boltz.Entity]
	paths  [][]string
}

func c13xNewWorld(paths [][]string) *c13xWorld {
	w := &c13xWorld{paths: paths, stores: make([]*boltz.BaseStore[boltz.Entity], len(paths))}
	notFound := func(id string) error { return boltz.NewNotFoundError("ent", "id", id) }
	w.peers = boltz.NewBaseStore(boltz.StoreDefinition[boltz.Entity]{EntityType: c13xPeers, BasePath: []string{c13xBase}, EntityNotFoundF: notFound})
	for l := len(paths) - 1; l >= 0; l-- {
		def := boltz.StoreDefinition[boltz.Entity]{EntityNotFoundF: notFound, ParentMapper: func(e boltz.Entity) boltz.Entity { return e }}
		if l == len(paths)-1 {
			def.EntityType = c13xEnts
			def.BasePath = []string{c13xBase}
		} else {
			def.Parent = w.stores[l+1]
			def.BasePath = paths[l]
		}
		st := boltz.NewBaseStore(def)
		sym := st.AddFkSetSymbol(c13xLinkField, w.peers)
		back := w.peers.AddFkSetSymbol("back"+strconv.Itoa(l), st)
		st.AddLinkCollection(sym, back)
		w.stores[l] = st
	}
	return w
}

func (e *c13Env) c13xDump(o *c13Out, id string) error {
	return e.db.View(func(tx *bbolt.Tx) error {
		o.dump(tx.Bucket([]byte(c13xBase)).Bucket([]byte(c13xEnts)).Bucket([]byte(id)))
		return nil
	})
}

func (s *c13Toks) c13xMappings() map[string]string {
	n := s.int()
	m := map[string]string{}
	for i := 0; i < n; i++ {
		from := string(s.bytes())
		to := string(s.bytes())
		if _, dup := m[from]; !dup { // the model's association list: first binding wins
			m[from] = to
		}
	}
	return s.sharedMap(m)
}

// c13xRunStmts performs the statements of one phase; outs collects what GetAndSet* return
func c13xRunStmts(s *c13Toks, n int, ctxs []*boltz.PersistContext, tx *bbolt.Tx, outs *[]string) {
	for i := 0; i < n; i++ {
		switch k := s.next(); k {
		case "g":
			slot := s.int()
			ctxs[slot+1] = ctxs[slot].GetParentContext()
		case "w":
			slot := s.int()
			ctxs[slot].WithFieldOverrides(s.c13xMappings())
		case "wn":
			ctxs[s.int()].WithFieldOverrides(nil)
		case "s":
			ctx := ctxs[s.int()]
			switch s.peek() {
			case "links":
				s.next()
				name := string(s.bytes())
				cnt := s.int()
				var ids []string
				for j := 0; j < cnt; j++ {
					ids = append(ids, string(s.bytes()))
				}
				ctx.SetLinkedIds(name, ids)
			case "isc":
				s.next()
				name := string(s.bytes())
				vc, vu := string(s.bytes()), string(s.bytes())
				if ctx.IsCreate {
					ctx.SetString(name, vc)
				} else {
					ctx.SetString(name, vu)
				}
			case "id":
				s.next()
				ctx.SetString(string(s.bytes()), ctx.Id)
			case "tx":
				s.next()
				ctx.SetBool(string(s.bytes()), ctx.Tx() == tx)
			default:
				c13RunOneOp(s, true, ctx, ctx.Bucket, ctx.FieldChecker, outs)
			}
		default:
			panic("bad statement " + k)
		}
	}
}

// c13xSkipStmts advances the token stream over n statements without running them
func c13xSkipStmts(s *c13Toks, n int) {
	for i := 0; i < n; i++ {
		switch k := s.next(); k {
		case "g", "wn":
			s.next()
		case "w":
			s.next()
			cnt := s.int()
			for j := 0; j < 2*cnt; j++ {
				s.next()
			}
		case "s":
			s.next()
			switch s.peek() {
			case "links":
				s.next()
				s.next()
				cnt := s.int()
				for j := 0; j < cnt; j++ {
					s.next()
				}
			case "isc":
				s.next()
				s.next()
				s.next()
				s.next()
			case "id", "tx":
				s.next()
				s.next()
			default:
				c13SkipOps(s, 1)
			}
		default:
			panic("bad statement " + k)
		}
	}
}

func (e *c13Env) c13xScenario(s *c13Toks, o *c13Out) (ferr error) {
	nl := s.int()
	paths := make([][]string, nl)
	for l := 0; l < nl; l++ {
		pl := s.int()
		paths[l] = []string{}
		for j := 0; j < pl; j++ {
			paths[l] = append(paths[l], string(s.bytes()))
		}
	}
	id := string(s.bytes())
	w := c13xNewWorld(paths)
	err := e.db.Update(func(tx *bbolt.Tx) error {
		if tx.Bucket([]byte(c13xBase)) != nil {
			if err := tx.DeleteBucket([]byte(c13xBase)); err != nil {
				return err
			}
		}
		base, err := tx.CreateBucket([]byte(c13xBase))
		if err != nil {
			return err
		}
		peers, err := base.CreateBucket([]byte(c13xPeers))
		if err != nil {
			return err
		}
		for _, p := range c13xPeerIds {
			if _, err := peers.CreateBucket([]byte(p)); err != nil {
				return err
			}
		}
		ents, err := base.CreateBucket([]byte(c13xEnts))
		if err != nil {
			return err
		}
		ent, err := ents.CreateBucket([]byte(id))
		if err != nil {
			return err
		}
		return c13WriteDump(s, ent)
	})
	if err != nil {
		return fmt.Errorf("initial bucket: %w", err)
	}
	o.tok("|")
	o.tok("I")
	if err := e.c13xDump(o, id); err != nil {
		return err
	}
	nph := s.int()
	for ph := 0; ph < nph; ph++ {
		if t := s.next(); t != "P" {
			panic("expected P, got " + t)
		}
		create := s.next() == "1"
		spec := s.checker()
		n := s.int()
		var outs []string
		panicked := false
		startPos := s.p
		err := e.db.Update(func(tx *bbolt.Tx) error {
			failed := false
			ok := guarded(func() {
				st0 := w.stores[0]
				var bucket *boltz.TypedBucket
				if create {
					// BaseStore.getOrCreateEntityBucket
					ents := boltz.GetOrCreatePath(tx, c13xBase, c13xEnts)
					bucket = ents.GetOrCreateBucket(id)
					if len(paths[0]) > 0 {
						bucket = bucket.GetOrCreatePath(paths[0]...)
					}
					if bucket.HasError() {
						failed = true
						return
					}
				} else {
					bucket = st0.GetEntityBucket(tx, []byte(id))
					if bucket == nil {
						panic("no entity bucket") // the setters would dereference it
					}
				}
				ctxs := make([]*boltz.PersistContext, 12)
				ctxs[0] = &boltz.PersistContext{
					MutateContext: boltz.NewTxMutateContext(context.Background(), tx),
					Id:            id,
					Store:         st0,
					Bucket:        bucket,
					FieldChecker:  spec.build(),
					IsCreate:      create,
				}
				c13xRunStmts(s, n, ctxs, tx, &outs)
				failed = bucket.HasError()
			})
			if !ok {
				panicked = true
				return errC13Phase
			}
			if failed {
				return errC13Phase
			}
			return nil
		})
		// the statements are consumed exactly once whatever happened
		s.p = startPos
		c13xSkipStmts(s, n)
		o.tok("|")
		o.tok("P")
		switch {
		case panicked:
			o.tok("panic")
		case err != nil:
			o.tok("err")
		default:
			o.tok("ok")
			for _, x := range append(outs, c13ToSliceTok(spec)...) {
				o.tok(x)
			}
			if err := e.c13xDump(o, id); err != nil {
				return err
			}
		}
	}
	if t := s.next(); t != "R" {
		panic("expected R, got " + t)
	}
	nn := s.int()
	type rd struct {
		level int
		name  string
	}
	var reads []rd
	for i := 0; i < nn; i++ {
		l := s.int()
		reads = append(reads, rd{l, string(s.bytes())})
	}
	defer func() {
		if ferr == nil {
			var x *string
			if len(reads) > 0 {
				x = &reads[0].name
			}
			ferr = c13EntitySections(o, e.db, func(tx *bbolt.Tx) *boltz.TypedBucket {
				return w.stores[nl-1].GetEntityBucket(tx, []byte(id))
			}, x)
		}
	}()
	return e.db.View(func(tx *bbolt.Tx) error {
		for _, r := range reads {
			label := []string{strconv.Itoa(r.level), hxs(r.name)}
			tb := w.stores[r.level].GetEntityBucket(tx, []byte(id))
			if tb == nil {
				o.tok("|")
				o.tok("F")
				o.tok(label[0])
				o.tok(label[1])
				o.tok("nobucket")
				continue
			}
			c13ReadField(o, label, tb, r.name)
		}
		o.tok("|")
		o.tok("A")
		var all map[string]interface{}
		if guarded(func() { all = w.stores[nl-1].GetEntitiesBucket(tx).GetMap(id) }) {
			o.value(all)
		} else {
			o.tok("x")
		}
		return nil
	})
}

// ---- generator -----------------------------------------------------------------------------------

// a bucket tree under construction: leaf bytes or children
type c13xNode struct {
	leaf []byte
	kids map[string]*c13xNode
}

func c13xNewBucket() *c13xNode { return &c13xNode{kids: map[string]*c13xNode{}} }

func (n *c13xNode) at(path []string) *c13xNode {
	cur := n
	for _, k := range path {
		nx := cur.kids[k]
		if nx == nil || nx.kids == nil {
			nx = c13xNewBucket()
			cur.kids[k] = nx
		}
		cur = nx
	}
	return cur
}

func (n *c13xNode) dump() string {
	keys := make([]string, 0, len(n.kids))
	for k := range n.kids {
		keys = append(keys, k)
	}
	sort.Strings(keys)
	parts := []string{"D", strconv.Itoa(len(keys))}
	for _, k := range keys {
		parts = append(parts, hxs(k))
		if c := n.kids[k]; c.kids != nil {
			parts = append(parts, c.dump())
		} else {
			parts = append(parts, "L", hx(c.leaf))
		}
	}
	return strings.Join(parts, " ")
}

var c13xPathKeys = []string{"ext", "sub", "g", "\x00x"}
var c13xFieldPool = [][]byte{[]byte("a"), []byte("b"), []byte("c"), []byte("d"), []byte("name"), []byte("tags"), []byte("x.y"), {0}, {5}, []byte("createdAt")}
var c13xChains = [][][]string{
	{{"ext"}, {}},
	{{"ext"}, {}},
	{{"ext", "sub"}, {}},
	{{"ext", "sub"}, {"ext"}, {}},
	{{"g"}, {"ext"}, {}},
	{{"\x00x"}, {}},
	{{}},
	{{"ext", "sub", "g"}, {"ext", "sub"}, {"ext"}, {}},
}

func c13xChainTok(ch [][]string) string {
	parts := []string{strconv.Itoa(len(ch))}
	for _, p := range ch {
		parts = append(parts, strconv.Itoa(len(p)))
		for _, k := range p {
			parts = append(parts, hxs(k))
		}
	}
	return strings.Join(parts, " ")
}

// a well-formed stored value: what some setter writes
func (g *c13Gen) c13xLeaf() []byte {
	switch g.r.intn(5) {
	case 0:
		return []byte{7}
	case 1:
		return append([]byte{1}, byte(g.r.intn(2)))
	case 2:
		b := make([]byte, 9)
		b[0] = 3
		v := uint64(g.i64())
		for i := 0; i < 8; i++ {
			b[1+i] = byte(v >> (8 * i))
		}
		return b
	default:
		return append([]byte{5}, g.str()...)
	}
}

func (g *c13Gen) c13xIds() string {
	n := g.r.intn(4)
	var parts []string
	for i := 0; i < n; i++ {
		parts = append(parts, hxs(c13xPeerIds[g.r.intn(len(c13xPeerIds))]))
	}
	return strconv.Itoa(n) + c13Join(parts)
}

// one setter call through a context, on field name
func (g *c13Gen) c13xOp(name []byte, hostile bool) string {
	switch k := g.r.intn(100); {
	case k < 8:
		return "links " + hxs(c13xLinkField) + " " + g.c13xIds()
	case k < 14:
		return "isc " + hx(name) + " " + hx(g.str()) + " " + hx(g.str())
	case k < 18:
		return "id " + hx(name)
	case k < 21:
		return "tx " + hx(name)
	}
	return g.op(name, hostile)
}

type c13xRead struct {
	level int
	name  string
}

// c13xProgram renders one phase: the statements keep every used slot derived before its use
func (g *c13Gen) c13xProgram(nl int, pools [][][]byte, nops int, pOverride, pRederive int, hostile bool, reads map[c13xRead]bool) (int, string) {
	var st []string
	derived := 0 // slots 0..derived hold a context
	if g.r.chance(40) {
		for derived < nl-1 {
			st = append(st, fmt.Sprintf("g %d", derived))
			derived++
		}
	}
	for i := 0; i < nops; i++ {
		lvl := g.r.intn(nl)
		for derived < lvl {
			st = append(st, fmt.Sprintf("g %d", derived))
			derived++
		}
		if g.r.chance(pOverride) {
			slot := g.r.intn(derived + 1)
			pool := pools[g.r.intn(nl)]
			n := 1 + g.r.intn(2)
			var maps []string
			for j := 0; j < n; j++ {
				maps = append(maps, hx(pool[g.r.intn(len(pool))])+" "+hx(pools[g.r.intn(nl)][g.r.intn(3)]))
			}
			if g.r2 != nil && g.r2.chance(6) {
				st = append(st, fmt.Sprintf("wn %d", slot))
			} else {
				st = append(st, fmt.Sprintf("w %d %d%s", slot, n, c13Join(maps)))
			}
		}
		if derived > 0 && g.r.chance(pRederive) {
			// deriving again takes the receiver's checker as it is now
			st = append(st, fmt.Sprintf("g %d", g.r.intn(derived)))
		}
		name := pools[lvl][g.r.intn(len(pools[lvl]))]
		op := g.c13xOp(name, hostile)
		if strings.HasPrefix(op, "links ") {
			reads[c13xRead{lvl, c13xLinkField}] = true
		} else {
			reads[c13xRead{lvl, string(name)}] = true
		}
		st = append(st, fmt.Sprintf("s %d %s", lvl, op))
	}
	if nl > 1 && g.r.chance(2) {
		st = append(st, fmt.Sprintf("g %d", nl-1)) // GetParentContext on the root store
	}
	return len(st), strings.Join(st, " ")
}

func c13xReadSet(reads map[c13xRead]bool) string {
	var l []c13xRead
	for r := range reads {
		l = append(l, r)
	}
	sort.Slice(l, func(i, j int) bool {
		if l[i].level != l[j].level {
			return l[i].level < l[j].level
		}
		return l[i].name < l[j].name
	})
	parts := []string{"R", strconv.Itoa(len(l))}
	for _, r := range l {
		parts = append(parts, strconv.Itoa(r.level), hxs(r.name))
	}
	return strings.Join(parts, " ")
}

func (g *c13Gen) c13xRandom(hostile bool) {
	ch := c13xChains[g.r.intn(len(c13xChains))]
	nl := len(ch)
	id := "e1"
	if g.r.chance(30) {
		id = string(g.bytesN(1 + g.r.intn(6)))
	}
	// field names per level: drawn from one pool so that the same name occurs in several stores
	pools := make([][][]byte, nl)
	var all [][]byte
	for l := range pools {
		for j := 0; j < 3; j++ {
			pools[l] = append(pools[l], c13xFieldPool[g.r.intn(len(c13xFieldPool))])
		}
		all = append(all, pools[l]...)
	}
	all = append(all, []byte(c13xLinkField))
	reads := map[c13xRead]bool{}
	root := c13xNewBucket()
	startEmpty := g.r.chance(25)
	if !startEmpty {
		for l := nl - 1; l >= 0; l-- {
			b := root.at(ch[l])
			for _, n := range pools[l] {
				if g.r.chance(60) {
					if _, isPath := b.kids[string(n)]; !isPath {
						b.kids[string(n)] = &c13xNode{leaf: g.c13xLeaf()}
						reads[c13xRead{l, string(n)}] = true
					}
				}
			}
			if g.r.chance(30) {
				lb := c13xNewBucket()
				for j := g.r.intn(3); j > 0; j-- {
					lb.kids["\x05"+c13xPeerIds[g.r.intn(len(c13xPeerIds))]] = &c13xNode{leaf: []byte{}}
				}
				b.kids[c13xLinkField] = lb
				reads[c13xRead{l, c13xLinkField}] = true
			}
		}
		if g.r.chance(20) {
			root.kids["other"] = c13xNewBucket()
			root.kids["other"].kids["k"] = &c13xNode{leaf: g.c13xLeaf()}
		}
	}
	// the nested shapes can be created through the store; siblings of the store's own bucket cannot
	nph := 1 + g.r.intn(3)
	var sb strings.Builder
	fmt.Fprintf(&sb, "X %s %s %s %d", c13xChainTok(ch), hxs(id), root.dump(), nph)
	for ph := 0; ph < nph; ph++ {
		create := 0
		if (ph == 0 && startEmpty) || g.r.chance(8) {
			create = 1
		}
		chk := "*"
		if !(ph == 0 && startEmpty) || g.r.chance(30) {
			chk = g.checker(all)
		}
		n, prog := g.c13xProgram(nl, pools, 1+g.r.intn(6), 12, 6, hostile, reads)
		fmt.Fprintf(&sb, " P %d %s %d %s", create, chk, n, prog)
	}
	reads[c13xRead{0, string(c13Absent)}] = true
	sb.WriteString(" " + c13xReadSet(reads))
	g.sink(sb.String())
	g.stats["persist_random"]++
}

// small, systematic persists: the shortest first (they become the replays)
func (g *c13Gen) c13xBoundary() {
	// parent field a, child field c; every checker over {a, c}; either order of the two parts
	for _, chk := range []string{"c 1 63", "c 1 61", "c 0", "c 2 61 63", "*", "c 2 - 63", "c 3 61 - ff"} {
		for order := 0; order < 2; order++ {
			prog := "3 s 0 str 63 6e6577 g 0 s 1 str 61 6a756e6b"
			if order == 1 {
				prog = "3 g 0 s 1 str 61 6a756e6b s 0 str 63 6e6577"
			}
			g.emit("X 2 1 657874 0 6531 D 2 61 L 0578 657874 D 1 63 L 0579 1 P 0 %s %s R 2 0 63 1 61", chk, prog)
			g.stats["persist_boundary"]++
		}
	}
	// all 16 checker subsets over two parent fields (string, string list) and two child fields
	// (int64, map); the entity is created through the child store first
	names := []string{"61", "62", "63", "64"}
	for round := 0; round < 2; round++ {
		for _, ch := range [][][]string{{{"ext"}, {}}, {{"ext", "sub"}, {}}} {
			mk := func() string {
				return fmt.Sprintf("s 1 str 61 %s s 1 slist 62 %s s 0 i64 63 %d s 0 map 64 1 %s", hx(g.str()), g.strList(), g.i64(), g.mapBody(2, false))
			}
			init, upd := mk(), mk()
			for mask := 0; mask < 16; mask++ {
				var sel []string
				for i, n := range names {
					if mask&(1<<i) != 0 {
						sel = append(sel, n)
					}
				}
				g.emit("X %s 6531 D 0 2 P 1 * 5 g 0 %s P 0 c %d%s 5 g 0 %s R 4 0 63 0 64 1 61 1 62", c13xChainTok(ch), init, len(sel), c13Join(sel), upd)
				g.stats["persist_subsets"]++
			}
		}
	}
	// three stores, one field each (the same name in all three), every subset, both 3-chains
	for _, ch := range [][][]string{{{"ext", "sub"}, {"ext"}, {}}, {{"g"}, {"ext"}, {}}} {
		for mask := 0; mask < 4; mask++ {
			sel := [][]string{{}, {"61"}, {"62"}, {"61", "62"}}[mask]
			dump := c13xNewBucket()
			for l, p := range ch {
				dump.at(p).kids["a"] = &c13xNode{leaf: []byte{5, byte('0' + l)}}
				dump.at(p).kids["b"] = &c13xNode{leaf: []byte{5, byte('5' + l)}}
			}
			g.emit("X %s 6531 %s 1 P 0 c %d%s 8 g 0 g 1 s 2 str 61 7a s 1 str 61 79 s 0 str 61 78 s 0 i32 62 7 s 1 bool 62 1 s 2 strp 62 n R 6 0 61 0 62 1 61 1 62 2 61 2 62",
				c13xChainTok(ch), dump.dump(), len(sel), c13Join(sel))
			g.stats["persist_subsets3"]++
		}
	}
	// each PersistContext-only call, selected and not, on create and on update, at the store and its parent
	for _, lvl := range []int{0, 1} {
		for _, create := range []int{0, 1} {
			for _, chk := range []string{"*", "c 1 66", "c 1 7a"} {
				for _, op := range []string{"links " + hxs(c13xLinkField) + " 3 7031 7032 7031", "isc 66 63 75", "id 66", "tx 66", "req 66 76", "gss 66 76", "gsl 66 2 62 61", "timep 66 n", "map 66 1 1 6b s 76"} {
					c := chk
					if strings.HasPrefix(op, "links") && chk == "c 1 66" {
						c = "c 1 " + hxs(c13xLinkField)
					}
					field := "66"
					if strings.HasPrefix(op, "links") {
						field = hxs(c13xLinkField)
					}
					g.emit("X 2 1 657874 0 6531 D 2 61 L 0578 657874 D 1 63 L 0579 1 P %d %s 2 g 0 s %d %s R 1 %d %s", create, c, lvl, op, lvl, field)
					g.stats["persist_calls"]++
				}
			}
		}
	}
	// a setter error on the parent context fails the persist (shared error holder)
	g.emit("X 2 1 657874 0 6531 D 2 61 L 0578 657874 D 1 63 L 0579 1 P 0 * 3 g 0 s 1 req 61 - s 0 str 63 7a R 2 0 63 1 61")
	g.emit("X 2 1 657874 0 6531 D 2 61 L 0578 657874 D 1 63 L 0579 1 P 0 * 3 g 0 s 0 req 63 - s 1 str 61 7a R 2 0 63 1 61")
	// overrides on the store's context before and after deriving, and on the derived context
	for _, prog := range []string{
		"4 w 0 1 61 63 g 0 s 1 str 61 7a s 0 str 63 79",
		"4 g 0 w 0 1 61 63 s 1 str 61 7a s 0 str 63 79",
		"4 g 0 w 1 1 61 63 s 1 str 61 7a s 0 str 61 79",
		"5 g 0 w 0 1 61 63 g 0 s 1 str 61 7a s 0 str 63 79",
	} {
		for _, chk := range []string{"c 1 63", "c 1 61", "*"} {
			g.emit("X 2 1 657874 0 6531 D 2 61 L 0578 657874 D 1 63 L 0579 1 P 0 %s %s R 3 0 61 0 63 1 61", chk, prog)
			g.stats["persist_overrides"]++
		}
	}
}

func (g *c13Gen) c13xGenerate(nRandom, nHostile int) {
	g.c13xBoundary()
	for i := 0; i < nRandom; i++ {
		g.c13xRandom(false)
	}
	for i := 0; i < nHostile; i++ {
		g.c13xRandom(true)
	}
}
