package main

import (
	"errors"
	"fmt"
	"sort"
	"strconv"
	"sync"

	"github.com/openziti/storage/boltz"
	"go.etcd.io/bbolt"
)

// C18, sixth strengthening: writer transactions that FAIL part-way, next to the readers.
//
// "All of a transaction's effects or none of them" has two halves.  The workload so far only had
// transactions that run to their end (and a tenth of them asked for a rollback after the last write, through
// Db.Update only).  Missing: a transaction that has written entity buckets, unique / set / fk index entries
// and links and THEN fails - because the next operation violates the unique index, refers to an entity that
// does not exist, is vetoed by an entity constraint, because the caller gives up with an error of its own,
// or because a pre-commit action fails after the last write - through every way to open a transaction:
// Db.Update, Db.Batch alone, and Db.Batch called from several goroutines at once, which bbolt coalesces into
// one bolt transaction (a failing member makes bbolt roll the whole transaction back, run the others again
// and the failed one on its own).  Readers must only ever see states produced by committed transactions: the
// version sequence of the model (Db/Mvcc.v: ECommit w with apply_tx w = None changes nothing;
// Properties/C18.v failed_transaction_leaves_no_trace) does not advance, and every tagged answer equals the
// serial answer on a committed version.
//
// Case lines.  A failing transaction is a W line with commit flag 0 (the model skips it) and the trailing tokens
//
//	fail <kind> <k>     caller     the function of the transaction returns an error of its own before operation k
//	                               (k = number of operations: after all of them, before the version marker)
//	                    precommit  a pre-commit action registered before operation k fails: every operation AND the
//	                               version marker have been written by then
//	                    unique | notfound | veto    operation k itself fails in the store: a put whose name another
//	                               item holds, a patch / delete of an id that does not exist, a put that the entity
//	                               constraint of the item store refuses (val = c18s6VetoVal; it is asked after the
//	                               entity and its index entries were written)
//
// and the form token says how it was opened (c18_s3.go forms; "bu" = Db.Batch(nil) alone, "cb" = member of a
// coalesced batch; members that committed are W lines with flag 1 in the order bbolt ran them - each member
// reads the version marker inside the transaction and writes the next one).
//
// The version marker is written inside the same transaction as the data, after the operations.  So a failed
// transaction that is committed nevertheless shows in one of two ways: its data without a new marker (the
// readers bound to the old version get answers that differ from the serial answer), or - when it fails after
// the marker was written - a version the model does not have.  Besides the readers, the writer itself looks
// right after every failed transaction (sequentially, so the replay is deterministic):
//
//	Q w <ordinal of the W line> <version> <query>   a read transaction of the writer goroutine after the failed
//	                               transaction: what the transaction touched (load / name / links / rlinks of its
//	                               operands, count, all), tagged with the marker like every reader's answer

type c18s6Fail struct {
	kind string // "" = the transaction is not meant to fail part-way
	k    int
}

const c18s6VetoVal = 4242

var (
	errC18s6Caller    = errors.New("c18: the caller gives up part-way")
	errC18s6PreCommit = errors.New("c18: pre-commit action fails")
	errC18s6Veto      = errors.New("c18: entity constraint refuses this value")
	errC18s6Missed    = errors.New("c18: the operation that was to fail succeeded")
)

func (f c18s6Fail) natural() bool {
	return f.kind == "unique" || f.kind == "notfound" || f.kind == "veto"
}

// expected: err is the failure the plan asked for
func (f c18s6Fail) expected(err error) bool {
	switch f.kind {
	case "caller":
		return errors.Is(err, errC18s6Caller)
	case "precommit":
		return errors.Is(err, errC18s6PreCommit)
	case "veto":
		return errors.Is(err, errC18s6Veto)
	case "unique":
		var d *boltz.UniqueIndexDuplicateError
		return errors.As(err, &d)
	case "notfound":
		var d *boltz.RecordNotFoundError
		return errors.As(err, &d)
	}
	return false
}

// c18s6Step: what the plan asks for before operation i (i = number of operations: before the marker)
func c18s6Step(ctx boltz.MutateContext, f c18s6Fail, i int) error {
	if f.k != i {
		return nil
	}
	switch f.kind {
	case "caller":
		return errC18s6Caller
	case "precommit":
		ctx.AddPreCommitAction(func(boltz.MutateContext) error { return errC18s6PreCommit })
	}
	return nil
}

// c18s6Executed: the operations of a failing transaction that run (the failing one included)
func c18s6Executed(ops []c18Op, f c18s6Fail) []c18Op {
	switch {
	case f.kind == "caller" && f.k < len(ops):
		return ops[:f.k]
	case f.natural() && f.k < len(ops):
		return ops[:f.k+1]
	}
	return ops
}

// the entity constraint of the item stores of C18: asked by Create / Update after the entity bucket and the
// index entries were written
type c18s6VetoConstraint struct{}

func (c18s6VetoConstraint) ProcessPreCommit(state *boltz.EntityChangeState[*csItem]) error {
	if state.FinalState != nil && state.FinalState.Val == c18s6VetoVal {
		return errC18s6Veto
	}
	return nil
}

func (c18s6VetoConstraint) ProcessPostCommit(*boltz.EntityChangeState[*csItem]) {}

func c18s6PutMarker(tx *bbolt.Tx, version, count int64) error {
	b, err := tx.CreateBucketIfNotExists([]byte("r"))
	if err != nil {
		return err
	}
	if err = b.Put([]byte("version"), []byte(strconv.FormatInt(version, 10))); err != nil {
		return err
	}
	if err = b.Put([]byte("count"), []byte(strconv.FormatInt(count, 10))); err != nil {
		return err
	}
	return c18s3PutInfo(tx, version)
}

// ---- generator ---------------------------------------------------------------------------------------------

func c18s6Has(xs []string, x string) bool {
	for _, y := range xs {
		if x == y {
			return true
		}
	}
	return false
}

// c18s6Batch: what the generator knows about the coalesced batch a member belongs to.  The members run in an
// order the generator does not know, so a name is usable by a member only if nobody else holds it when the
// batch starts, nobody else holds it now, and no OTHER member of the batch has used it at any moment (a name one
// member takes and gives back - put, then delete or rename - is taken while another member runs in between).
type c18s6Batch struct {
	start    *c18Track
	member   int
	reserved map[string]int // name -> member that used it
}

// c18s6NameFree: nobody else holds the name (b = nil: the single writer, otherwise see c18s6Batch)
func (t *c18Track) c18s6NameFree(name, id string, b *c18s6Batch) bool {
	if t.nameUsed(name, id) {
		return false
	}
	if b == nil {
		return true
	}
	if m, ok := b.reserved[name]; ok && m != b.member {
		return false
	}
	return !b.start.nameUsed(name, id)
}

func (b *c18s6Batch) reserve(name string) {
	if b != nil {
		b.reserved[name] = b.member
	}
}

// c18s6GenOwnedOp: a valid operation that touches only the given ids and is valid whatever the other
// members of the batch (who own the other ids) have done before it
func (t *c18Track) c18s6GenOwnedOp(r *rng, owned []string, b *c18s6Batch) (c18Op, bool) {
	var existing []string
	for _, id := range owned {
		if _, ok := t.items[id]; ok {
			existing = append(existing, id)
		}
	}
	switch x := r.intn(100); {
	case x < 40 || len(existing) == 0:
		id := r.pick(owned)
		name := r.pick(c18NamePool)
		if old, ok := t.items[id]; ok && r.chance(60) {
			name = old.name
		}
		if !t.c18s6NameFree(name, id, b) {
			return c18Op{}, false
		}
		b.reserve(name)
		var g *string
		if r.chance(75) {
			s := r.pick(c18Groups)
			g = &s
		}
		it := c18Item{id: id, name: name, group: g, val: int64(r.intn(16)) - 3, tags: c18GenTags(r)}
		t.items[id] = it
		return c18Op{kind: "put", it: it}, true
	case x < 60:
		id := r.pick(existing)
		it := t.items[id]
		it.val = int64(r.intn(16)) - 3
		it.tags = c18GenTags(r)
		t.items[id] = it
		return c18Op{kind: "patch", it: it}, true
	case x < 70:
		id := r.pick(existing)
		delete(t.items, id)
		for k := range t.links {
			if k[0] == id {
				delete(t.links, k)
			}
		}
		return c18Op{kind: "del", a: id}, true
	case x < 90:
		id, g := r.pick(existing), r.pick(c18Groups)
		t.links[[2]string{id, g}] = true
		return c18Op{kind: "link", a: id, b: g}, true
	default:
		id, g := r.pick(existing), r.pick(c18Groups)
		delete(t.links, [2]string{id, g})
		return c18Op{kind: "unlink", a: id, b: g}, true
	}
}

var c18s6Kinds = []string{"caller", "caller", "precommit", "unique", "unique", "notfound", "veto"}

// c18s6GenFailing: a transaction that fails after some valid operations.  t is a scratch copy of the tracked
// state (the transaction leaves no trace); owned = nil: every id, otherwise the ids of this batch member.
func c18s6GenFailing(r *rng, t *c18Track, owned []string, b *c18s6Batch) ([]c18Op, c18s6Fail) {
	ids := owned
	if ids == nil {
		ids = c18Ids
	}
	k := 1 + r.intn(4)
	if r.chance(8) {
		k = 0
	}
	var ops []c18Op
	for tries := 0; len(ops) < k && tries < 24; tries++ {
		var op c18Op
		var ok bool
		if owned == nil {
			op, ok = t.genOp(r)
		} else {
			op, ok = t.c18s6GenOwnedOp(r, owned, b)
		}
		if ok {
			ops = append(ops, op)
		}
	}
	k = len(ops)
	var existing, missing []string
	for _, id := range ids {
		if _, ok := t.items[id]; ok {
			existing = append(existing, id)
		} else {
			missing = append(missing, id)
		}
	}
	sort.Strings(existing)
	sort.Strings(missing)
	group := func() *string {
		if r.chance(70) {
			s := r.pick(c18Groups)
			return &s
		}
		return nil
	}
	switch kind := r.pick(c18s6Kinds); kind {
	case "unique":
		// a put - create or rename - with the name another item (of the same owner) holds
		if len(existing) > 0 && len(ids) > 1 {
			y := r.pick(existing)
			x := r.pick(ids)
			for x == y {
				x = r.pick(ids)
			}
			it := c18Item{id: x, name: t.items[y].name, group: group(), val: int64(r.intn(16)) - 3, tags: c18GenTags(r)}
			return append(ops, c18Op{kind: "put", it: it}), c18s6Fail{kind: kind, k: k}
		}
	case "notfound":
		if len(missing) > 0 {
			x := r.pick(missing)
			op := c18Op{kind: "del", a: x}
			if r.chance(50) {
				op = c18Op{kind: "patch", it: c18Item{id: x, val: int64(r.intn(16)) - 3, tags: c18GenTags(r)}}
			}
			return append(ops, op), c18s6Fail{kind: kind, k: k}
		}
	case "veto":
		// a put that is fine for every index and refused by the constraint after it was written
		x := r.pick(ids)
		name := ""
		if old, ok := t.items[x]; ok {
			name = old.name
		} else {
			for _, n := range c18NamePool {
				if t.c18s6NameFree(n, x, b) {
					name = n
					break
				}
			}
		}
		if name != "" {
			it := c18Item{id: x, name: name, group: group(), val: c18s6VetoVal, tags: c18GenTags(r)}
			return append(ops, c18Op{kind: "put", it: it}), c18s6Fail{kind: kind, k: k}
		}
	case "precommit":
		return ops, c18s6Fail{kind: kind, k: r.intn(k + 1)}
	}
	// the caller's own error: after at least one operation when there is one, at the latest before the marker
	pos := 0
	if k > 0 {
		pos = 1 + r.intn(k)
	}
	return ops, c18s6Fail{kind: "caller", k: pos}
}

// ---- the writer's look after a failed transaction ---------------------------------------------------------

func c18s6ProbeQueries(r *rng, ops []c18Op) []c18Query {
	place := func() int { return r.intn(len(c18s2Places)) }
	qs := []c18Query{{kind: "count", s: -1, l: -1, d: place()}, {kind: "all", s: -1, l: -1, d: place()}}
	seen := map[string]bool{}
	add := func(kind, a string) {
		if key := kind + " " + a; !seen[key] && len(qs) < 14 {
			seen[key] = true
			qs = append(qs, c18Query{kind: kind, a: a, s: -1, l: -1, d: place()})
		}
	}
	for _, o := range ops {
		switch o.kind {
		case "put":
			add(r.pick(c18s3LoadKinds), o.it.id)
			add("name", o.it.name)
			if o.it.group != nil {
				add("gitems", *o.it.group)
			}
			if len(o.it.tags) > 0 {
				add("tag", o.it.tags[0])
			}
		case "patch":
			add(r.pick(c18s3LoadKinds), o.it.id)
			if len(o.it.tags) > 0 {
				add("tag", o.it.tags[0])
			}
		case "del":
			add(r.pick(c18s3LoadKinds), o.a)
			add("links", o.a)
		default:
			add("links", o.a)
			add("rlinks", o.b)
		}
	}
	return qs
}

// c18s6Probe: one read transaction of the writer goroutine; the records carry the ordinal of the W line.
// who: "wb" before the transaction and "w" after it, both while the readers are held back (then nothing but the
// transaction lies between the two and between them and the serial answer); "wu" after it, readers running.
func (w *c18World) c18s6Probe(who string, ord int, qs []c18Query) []c18Rec {
	var out []c18Rec
	_ = w.db.View(func(tx *bbolt.Tx) error {
		v1, _, _ := c18Marker(tx)
		_, infoOK := c18s3LoadInfo(tx, v1)
		for _, q := range qs {
			out = append(out, c18Rec{reader: -1, tx: ord, version: v1, q: q, obs: w.eval(tx, q), who: who})
		}
		if v2, _, _ := c18Marker(tx); v2 != v1 || !infoOK {
			for k := range out {
				out[k].obs = fmt.Sprintf("Q torn %d %d", v1, v2)
			}
		}
		return nil
	})
	return out
}

// ---- Db.Batch from several goroutines at once -------------------------------------------------------------

type c18s6Member struct {
	ops   []c18Op
	fail  c18s6Fail
	delta int64 // change of the number of items
	// results (the function of a batch member may run several times: the last run counts)
	got  int64 // version this member wrote
	txid int   // bolt transaction of the last run
	err  error
}

// c18s6RunMember: the member's transaction through Db.Batch(nil); version and count are read inside the
// transaction (only bbolt knows the order of the members)
func (w *c18World) c18s6RunMember(m *c18s6Member) {
	m.err = w.db.Batch(nil, func(ctx boltz.MutateContext) error {
		m.got, m.txid = 0, ctx.Tx().ID()
		for i, o := range m.ops {
			if err := c18s6Step(ctx, m.fail, i); err != nil {
				return err
			}
			if err := w.apply(ctx, o); err != nil {
				return err
			}
		}
		if err := c18s6Step(ctx, m.fail, len(m.ops)); err != nil {
			return err
		}
		if m.fail.natural() {
			return errC18s6Missed
		}
		v, c, _ := c18Marker(ctx.Tx())
		if err := c18s6PutMarker(ctx.Tx(), v+1, c+m.delta); err != nil {
			return err
		}
		m.got = v + 1
		return nil
	})
}

// c18s6GenBatch: 2-4 members owning disjoint ids, so that every order of the members is valid; at most
// one of them fails part-way.  track is advanced by the members that will commit.
func c18s6GenBatch(r *rng, track *c18Track) []*c18s6Member {
	n := 2 + r.intn(3)
	failing := -1
	if r.chance(60) {
		failing = r.intn(n)
	}
	batch := &c18s6Batch{start: track.clone(), reserved: map[string]int{}}
	out := make([]*c18s6Member, n)
	owned := func(j int) (ids []string) {
		for k, id := range c18Ids {
			if k%n == j {
				ids = append(ids, id)
			}
		}
		return ids
	}
	for j := 0; j < n; j++ {
		if j == failing {
			continue
		}
		m := &c18s6Member{}
		before := len(track.items)
		batch.member = j
		for k, tries := 1+r.intn(3), 0; len(m.ops) < k && tries < 12; tries++ {
			if op, ok := track.c18s6GenOwnedOp(r, owned(j), batch); ok {
				m.ops = append(m.ops, op)
			}
		}
		m.delta = int64(len(track.items) - before)
		out[j] = m
	}
	if failing >= 0 {
		// generated last: the names its operations use are free at the start and after all other members
		m := &c18s6Member{}
		batch.member = failing
		m.ops, m.fail = c18s6GenFailing(r, track.clone(), owned(failing), batch)
		out[failing] = m
	}
	return out
}

// c18s6RunBatch: all members call Db.Batch at the same moment; returns the members in the order of the W
// lines: the committed ones by the version they wrote, then the others
func (w *c18World) c18s6RunBatch(members []*c18s6Member) []*c18s6Member {
	var wg sync.WaitGroup
	go1 := make(chan struct{})
	for _, m := range members {
		wg.Add(1)
		go func(m *c18s6Member) {
			defer wg.Done()
			<-go1
			w.c18s6RunMember(m)
		}(m)
	}
	close(go1)
	wg.Wait()
	out := append([]*c18s6Member{}, members...)
	sort.SliceStable(out, func(i, j int) bool {
		a, b := out[i], out[j]
		ac, bc := a.err == nil && a.fail.kind == "", b.err == nil && b.fail.kind == ""
		if ac != bc {
			return ac
		}
		return ac && a.got < b.got
	})
	return out
}
