package main

import (
	"html"
	"net/url"
	"strconv"
	"strings"
	"time"
)

// C11, generator allN (plain Q and M case lines, appended after the existing streams): string values whose TEXT has a
// reading in ANOTHER NOTATION - a literal of another type of the filter language (integer, float, bool, null, datetime)
// or an encoded form of another string (percent / form encoding, HTML entities, backslash / unicode escapes, quoted
// printable, Unicode normal forms).  A string literal denotes its text character by character: "007" is not "7",
// "1.0" is not "1", "disk%20usage" is not "disk usage".  Any layer that re-reads literal text in another notation -
// a list of quoted numbers folded into a number list and rendered back, a transport decoding applied to the filter
// text, a normalisation of numbers / dates - makes the literal of such a string denote its canonical / decoded form.
//
// The values are generated per family; the rows of every case hold the value, its near misses and every READING of
// the value (c11nReadings: strconv / url / html / time of the standard library applied to the text), so that both
// the entity that must be selected and the entity the re-read literal would select are present.  In-lists are
// HOMOGENEOUS: every literal of the list belongs to the family of s (all integer-looking, all float-looking, all
// percent-encoded ..), because a decision taken from the list as a whole needs every literal to qualify.

type c11nFamily struct {
	name   string
	values []string
}

func c11nFamilies(thorough bool) []c11nFamily {
	ints := []string{"7", "007", "+7", "-7", "-007", "0", "00", "-0", "+0", "02134", "2134", "80", "080", "443", "0443", "+443",
		"10", "010", "9223372036854775807", "09223372036854775807", "-9223372036854775808", "1", "01", "+1", "-1", "-01",
		"000", "0000000000000000000000007", "100", "0100"}
	beyond := []string{"9223372036854775808", "-9223372036854775809", "18446744073709551616", "0x10", "0X1F", "0o17", "0b101", "017",
		"1_000", "7 ", " 7", "7 ", "٧", "７", "1,000", "--7", "+-7", "7-", "7+"}
	floats := []string{"1.0", "1.", "1.00", "01.0", ".5", "0.5", "0.50", "+0.5", "-0.0", "0.0", "1e3", "1E3", "1e+3", "1e03", "1000.0",
		"1.5e3", "1500.0", "1e-2", "0.01", "NaN", "nan", "Inf", "+Inf", "-inf", "Infinity", "1e400", "0.1", "0.10000000000000001",
		"3.14", "3.140"}
	words := []string{"true", "false", "True", "TRUE", "t", "T", "1", "0", "f", "F", "yes", "no", "on", "off", "null", "NULL", "Null",
		"nil", "none", "None", "undefined", "~"}
	dates := []string{"2020-01-01T00:00:00Z", "2020-01-01T00:00:00+00:00", "2020-01-01T00:00:00.000Z", "2020-01-01T01:00:00+01:00",
		"2020-01-01t00:00:00z", "2020-01-01", "2020-01-01 00:00:00", "2020-1-1", "datetime(2020-01-01T00:00:00Z)", "1577836800",
		"2020-01-01T00:00:00.000000001Z", "2020-02-30T00:00:00Z", "0001-01-01T00:00:00Z"}
	percent := []string{"%20", "%25", "%41", "%61", "%2B", "%2b", "%3F", "%22", "%5C", "%0A", "%00", "%C3%A9", "%c3%a9", "%E2%82%AC",
		"disk%20usage", "100%25", "a+b=%3F", "a%2Bb", "a%20b+c", "%2520", "%252520", "x%41y", "q=%22x%22", "name%3D%22x%22", "50%25 off",
		"%7e", "~%7E", "%20%20", "a%26b", "%3d"}
	percentOdd := []string{"%", "%%", "100%", "50% off", "%2", "%2G", "%G0", "%zz", "% 20", "a+b", "+", "a b", "a%b", "%u0041", "%-1",
		"%20%", "%%20", "+%", "a+b%", "%25%"}
	entities := []string{"&amp;", "&lt;b&gt;", "&quot;", "&#34;", "&#65;", "&#x41;", "&#x5c;", "&nbsp;", "a&amp;b", "&amp;amp;", "&apos;",
		"&#39;", "&", "&;", "&amp", "&#;", "AT&T"}
	escapes := []string{`\u0041`, `\U00000041`, `\x41`, `\101`, `\u00e9`, `\u20ac`, `\a`, `\v`, `\0`, `\e`, `\'`, `\/`, `\u`, `\x4`, `\u004`,
		`\u{41}`, `\N`, `=20`, `=3D`, `a=20b`, `=C3=A9`, `=\n`, `$name`, `${name}`, `$1`, `{0}`, `%s`, `%d`, `%v`, `%[1]s`, `:name`, `?`, `@p1`}
	unicode := []string{"\u00e9", "e\u0301", "\u00c9", "E\u0301", "\ufb01", "fi", "\u00c5", "A\u030a", "\u212b", "\u00df", "ss", "SS", "\u0131", "i",
		"\u0130", "I", "\u212a", "K", "k", "\u01c6", "\u01c5", "\u01c4", "\u017f", "s", "S", "\u00a0", "\u2003", "\u200b", "a\u200bb", "ab",
		"\ufeff", "\ufeffa", "a", "\u2460", "\u00b2", "2", "\u202e", "a\u00adb", "\uff21", "A"}
	fams := []c11nFamily{{"int", ints}, {"intlike", beyond}, {"float", floats}, {"word", words}, {"date", dates}, {"percent", percent},
		{"percentodd", percentOdd}, {"entity", entities}, {"escape", escapes}, {"unicode", unicode}}
	if thorough {
		// more of the same: every integer-looking spelling of a few numbers, every percent triple of the printable ASCII range
		var more, pct []string
		for _, n := range []string{"0", "1", "7", "9", "12", "80", "255", "65535", "4294967296"} {
			for _, sign := range []string{"", "+", "-"} {
				for _, zeros := range []string{"", "0", "00", "0000"} {
					more = append(more, sign+zeros+n)
				}
			}
		}
		for c := 0x20; c < 0x7f; c++ {
			h := strconv.FormatInt(int64(c), 16)
			pct = append(pct, "%"+strings.ToUpper(h), "a%"+h+"b")
		}
		fams = append(fams, c11nFamily{"int", more}, c11nFamily{"percent", pct})
	}
	return fams
}

// c11nReadings: what the text of s denotes when it is read in another notation (each one is a different string that the
// literal of s must NOT denote), by the standard library's own readers
func c11nReadings(s string) [][]byte {
	var out []string
	if v, err := strconv.ParseInt(s, 10, 64); err == nil {
		out = append(out, strconv.FormatInt(v, 10))
	}
	if v, err := strconv.ParseInt(s, 0, 64); err == nil {
		out = append(out, strconv.FormatInt(v, 10))
	}
	if v, err := strconv.ParseUint(s, 10, 64); err == nil {
		out = append(out, strconv.FormatUint(v, 10))
	}
	if v, err := strconv.Atoi(strings.TrimSpace(s)); err == nil {
		out = append(out, strconv.Itoa(v))
	}
	if v, err := strconv.ParseFloat(s, 64); err == nil {
		out = append(out, strconv.FormatFloat(v, 'g', -1, 64), strconv.FormatFloat(v, 'f', -1, 64), strconv.FormatFloat(v, 'e', -1, 64),
			strconv.FormatFloat(v, 'f', 6, 64))
		if v == float64(int64(v)) {
			out = append(out, strconv.FormatInt(int64(v), 10))
		}
	}
	if v, err := strconv.ParseBool(s); err == nil {
		out = append(out, strconv.FormatBool(v))
	}
	for _, layout := range []string{time.RFC3339, time.RFC3339Nano, "2006-01-02", "2006-01-02 15:04:05", "2006-1-2"} {
		if t, err := time.Parse(layout, s); err == nil {
			out = append(out, t.UTC().Format(time.RFC3339), t.UTC().Format(time.RFC3339Nano), t.Format(time.RFC3339),
				strconv.FormatInt(t.Unix(), 10))
		}
	}
	if v, err := url.QueryUnescape(s); err == nil {
		out = append(out, v)
		if w, err := url.QueryUnescape(v); err == nil {
			out = append(out, w)
		}
	}
	if v, err := url.PathUnescape(s); err == nil {
		out = append(out, v)
	}
	out = append(out, url.QueryEscape(s), url.PathEscape(s), strings.ReplaceAll(s, "+", " "), strings.ReplaceAll(s, "%", "%25"))
	out = append(out, html.UnescapeString(s), html.EscapeString(s))
	if v, err := strconv.Unquote(`"` + s + `"`); err == nil {
		out = append(out, v)
	}
	out = append(out, strings.TrimLeft(s, "0"), strings.TrimLeft(s, "+"), strings.TrimLeft(s, "+-0"), strings.TrimRight(s, "0"),
		strings.TrimRight(s, "0."), "0"+s, "+"+s, s+".0", s+"%", "%"+s, strings.ToValidUTF8(s, ""), strings.TrimPrefix(s, "\ufeff"),
		strings.Map(func(r rune) rune {
			if r == '\u200b' || r == '\u00ad' || r == '\u202e' || r == '\ufeff' || (r >= 0x300 && r < 0x370) {
				return -1
			}
			return r
		}, s))
	var res [][]byte
	for _, o := range out {
		if o != s {
			res = append(res, []byte(o))
		}
	}
	return c11qDedup(res)
}

func (g *c11qGen) allN(o *opts, r *rng) {
	thorough := o.thorough()
	setups0, q0 := g.env.setups, g.stats["Q"]
	mg := &c11mGen{g: g}
	m0 := g.stats["M"]
	fams := c11nFamilies(thorough)
	for fi, fam := range fams {
		var famVals [][]byte
		for _, v := range fam.values {
			famVals = append(famVals, []byte(v))
		}
		famVals = c11qDedup(famVals)
		for si, s := range famVals {
			readings := c11nReadings(string(s))
			if len(readings) > 10 {
				readings = readings[:10]
			}
			cands := c11qCands(s, readings...)
			// relatives inside the family: family members that are a reading of s, or of which s is a reading, come first
			var rel, rest [][]byte
			for _, v := range famVals {
				if string(v) == string(s) {
					continue
				}
				related := false
				for _, x := range readings {
					if string(x) == string(v) {
						related = true
					}
				}
				for _, x := range c11nReadings(string(v)) {
					if string(x) == string(s) {
						related = true
					}
				}
				if related {
					rel = append(rel, v)
				} else {
					rest = append(rest, v)
				}
			}
			others := append(append([][]byte{}, rel...), rest...)
			for _, x := range rel {
				cands = append(cands, x)
			}
			if len(others) > 0 {
				cands = append(cands, others[(si+1)%len(others)])
			}
			cands = c11qDedup(cands)

			// every left-hand side x every operator, the literal alone (quick: name and the ast symbol for every value, the
			// other five left-hand sides in rotation, two per value)
			paths := c11qPaths
			if !thorough {
				paths = []string{"name", "sym", c11qPaths[2+(si+fi)%5], c11qPaths[2+(si+fi+2)%5]}
			}
			for _, path := range paths {
				for _, op := range c11qOps {
					g.emit(path, op, "p", "full", s, 0, nil, cands)
				}
				// homogeneous in-lists: s with 1-3 members of its family (relatives first), at every position
				if len(others) == 0 {
					continue
				}
				for _, op := range []string{"in", "notin"} {
					for nd := 1; nd <= 3 && nd <= len(others); nd++ {
						var d [][]byte
						for j := 0; j < nd; j++ {
							if j < len(rel) && (nd < 3 || j == 0) {
								d = append(d, rel[(j+si)%len(rel)])
							} else {
								d = append(d, others[r.intn(len(others))])
							}
						}
						d = c11qDedup(d)
						for k := 0; k <= len(d); k++ {
							if k > 0 && k < len(d) && path != "name" && path != "sym" {
								continue
							}
							ctx, esc := "p", "full"
							if r.chance(25) {
								ctx = c11qCtxs[r.intn(len(c11qCtxs))]
							}
							if r.chance(30) {
								esc = "min"
							}
							g.emit(path, op, ctx, esc, s, k, d, cands)
						}
					}
				}
			}
			// other query contexts and escapers for the single literal
			g.random(r, s, cands, famVals, 6)

			// stream M: the literal next to the literal of one of its readings / relatives, and a homogeneous list next to
			// an equality with one of its values
			var partner []byte
			if len(rel) > 0 {
				partner = rel[si%len(rel)]
			} else if len(readings) > 0 && c11qExpressible("full", readings[0]) {
				partner = readings[0]
			}
			if partner == nil {
				continue
			}
			full := func(lhs, op string, lits ...[]byte) *c11mNode { return c11mAtom(lhs, op, "full", lits...) }
			bin := func(kind string, a, b *c11mNode) *c11mNode { return &c11mNode{kind: kind, kids: []*c11mNode{a, b}} }
			rows := []string{
				hx(s) + "/" + hx(partner) + "/" + c11mSet(s) + "/" + c11mSet(s),
				hx(partner) + "/" + hx(s) + "/" + c11mSet(partner) + "/" + c11mSet(partner),
				hx(s) + "/" + hx(s) + "/" + c11mSet(s, partner) + "/" + c11mSet(s, partner),
				hx(partner) + "/" + hx(partner) + "/" + c11mSet(partner, []byte("zz")) + "/" + c11mSet([]byte("zz")),
				"~/~/~/~"}
			for _, env := range []string{"st", "sym"} {
				mg.emit(env, []*c11mNode{bin("and", full("name", "in", s), full("descr", "eq", partner))}, rows)
				mg.emit(env, []*c11mNode{bin("or", full("name", "in", s, partner), full("descr", "notin", partner))}, rows)
				mg.emit(env, []*c11mNode{bin("and", full("name", "eq", s), full("descr", "in", partner, s))}, rows)
			}
			mg.emit("st", []*c11mNode{bin("or", full("any", "in", s), full("name", "eq", partner))}, rows)
			mg.emit("st", []*c11mNode{{kind: "ne", kids: []*c11mNode{full("name", "in", s)}}, full("anyfk", "notin", partner)}, rows)
		}
	}
	g.stats["N_Q_cases"] = g.stats["Q"] - q0
	g.stats["N_M_cases"] = g.stats["M"] - m0
	g.stats["N_datasets"] = g.env.setups - setups0
}
