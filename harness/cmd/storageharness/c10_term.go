package main

import (
	"fmt"
	"os"
	"strconv"
	"strings"
	"time"

	"github.com/openziti/storage/ast"
)

// C10, termination.  "For every input string, parsing terminates" - for the caller that means: every entry point
// answers (typed query or error) in a time that is in proportion to the size of the text, for sentences AND for text
// that is not a sentence.  The runtime's adaptive prediction can take time exponential in the size of the text on
// some inputs only (the error path, a fallback to another prediction mode, a re-parse), so the inputs are families of
// texts of growing size, each VALID member together with its INVALID twins:
//
//	families   chains of alternating / equal connectives, `not` chains, nested and sequential groups, nested groups with
//	           connectives, long in-lists (numbers, strings), long sort lists, between / comparison / set-function
//	           chains, long blanks, long identifiers / dotted paths / string literals / numbers, and texts that are
//	           noise throughout (only `#`, `)`, `(`, `and`, quotes, brackets ...)
//	twins      one error at the START, in the MIDDLE, at the END of the token sequence of the valid member: a character no
//	           token rule accepts (`#`), a token that cannot stand there (`)`), a dangling connective (` or `), a token
//	           removed
//	entries    the nine public entry points of c10_entry.go, ast.Parse with the in-memory symbol table, the lexer alone
//
// Every call runs under its own time bound: max(--termbound ms [5000], 100 x the time the same entry point needed for the
// valid twin of the same size) - for the valid member itself 100 x its time at the previous size.  A call that does not
// return within its bound is a STALL (the goroutine is abandoned, the process exits at the end).  The search is directed
// at the SHORTEST stalling text: a call that is suspiciously slow (> 100 ms and > 50 x its valid twin; the valid member: > 8 x
// its time at the previous size - that raises no
// alarm by itself) makes the same twin grow in steps of one until it stalls or stays within bounds; a stall that comes
// without warning is bisected down between the last size that answered and the one that did not.
//
// Output (stdout, one line per text, flushed):
//
//	T <family> <n> <variant> <runes> <letters> <ms per entry, ','-separated>
//	STALL <family> <n> <variant> <entry index> <bound ms> <valid twin ms> <runes> <valid twin runes>
//	SKIP <family>                   (after two families stalled the remaining ones are not run)
//	DONE <texts> <calls>
//
// Safety net: the harness watchdog (main.go) ends the process with status 7 and HANG.txt when even the timer does not
// fire (a loop that cannot be preempted).
var c10tEntryNames = append(append([]string{}, c10eNames...), "ast.Parse with the in-memory symbol table", "the lexer alone (GetAllTokens)")

func c10tCall(k int, text string) byte {
	if k < len(c10eNames) {
		ok, site := c10eCall(k, text)
		switch {
		case site != "":
			return 'P'
		case ok:
			return 'A'
		}
		return 'R'
	}
	if k == len(c10eNames) {
		defer func() { _ = recover() }()
		if _, err := ast.Parse(c10Table(c10Typings[3], true), text); err == nil {
			return 'A'
		}
		return 'R'
	}
	defer func() { _ = recover() }()
	if _, n := c10Lex(text); n == 0 {
		return 'A'
	}
	return 'R'
}

type c10tFamily struct {
	name  string
	sizes []int
	gen   func(n int) string
	noise bool // not a sentence at any size: measured against the `and` chain of the same size
}

func c10tRepeat(head, unit string, n int) string { return head + strings.Repeat(unit, n) }

func c10tAlternate(head string, units []string, n int) string {
	var b strings.Builder
	b.WriteString(head)
	for i := 0; i < n; i++ {
		b.WriteString(units[i%len(units)])
	}
	return b.String()
}

func c10tFamilies(thorough bool) []c10tFamily {
	chain := []int{1, 2, 4, 8, 16, 32, 64, 128, 256}
	long := []int{1, 4, 16, 64, 256, 1024}
	deep := []int{1, 2, 4, 8, 16, 32, 64, 128}
	if thorough {
		chain = []int{1, 2, 3, 4, 6, 8, 12, 16, 20, 24, 28, 32, 40, 48, 64, 96, 128, 256, 512, 1024}
		long = append(long, 4096)
		deep = append(deep, 256)
	}
	// texts that are noise throughout stay at 1024: the runtime's error recovery is quadratic on some of them
	// (1024 opening parentheses 70 ms, 4096: 1.1 s), which is slow, not a stall
	noise := []int{1, 4, 16, 64, 256, 1024}
	list := func(elem func(i int) string, open, sep, close string) func(n int) string {
		return func(n int) string {
			var parts []string
			for i := 0; i < n; i++ {
				parts = append(parts, elem(i))
			}
			return open + strings.Join(parts, sep) + close
		}
	}
	sortKeys := []string{"s", "i desc", "f asc", "name", "s DESC"}
	fams := []c10tFamily{
		{name: "and-or-chain", sizes: chain, gen: func(n int) string { return c10tAlternate("a", []string{" and a", " or a"}, n) }},
		{name: "or-and-chain", sizes: chain, gen: func(n int) string { return c10tAlternate("a", []string{" or b", " and not c"}, n) }},
		{name: "and-chain", sizes: chain, gen: func(n int) string { return c10tRepeat("a", " and a", n) }},
		{name: "or-chain", sizes: chain, gen: func(n int) string { return c10tRepeat("a", " or a", n) }},
		{name: "comparison-chain", sizes: chain, gen: func(n int) string {
			return c10tAlternate("i = 1", []string{` and s != "x"`, " or f >= 1.5", ` and anyOf(ss) = "s"`, " or isEmpty(ss)", " and i in [1, 2]", ` or s contains "x"`}, n)
		}},
		{name: "between-chain", sizes: chain, gen: func(n int) string {
			return c10tAlternate("i between 1 and 2", []string{" and i between 3 and 4", " or i not between 5 and 6"}, n)
		}},
		{name: "group-chain", sizes: chain, gen: func(n int) string { return c10tAlternate("(a)", []string{" and (a or b)", " or (not a)"}, n) }},
		{name: "not-chain", sizes: deep, gen: func(n int) string { return strings.Repeat("not ", n) + "a" }},
		{name: "nested-parentheses", sizes: deep, gen: func(n int) string { return strings.Repeat("(", n) + "a" + strings.Repeat(")", n) }},
		{name: "nested-groups", sizes: deep, gen: func(n int) string {
			return c10tAlternate("", []string{"(a and ", "(b or "}, n) + "a" + strings.Repeat(")", n)
		}},
		{name: "in-list-numbers", sizes: long, gen: list(func(i int) string { return strconv.Itoa(i + 1) }, "i in [", ", ", "]")},
		{name: "in-list-strings", sizes: long, gen: list(func(i int) string { return `"v` + strconv.Itoa(i) + `"` }, "s not in [", ",", "]")},
		{name: "sort-list", sizes: long, gen: list(func(i int) string { return sortKeys[i%len(sortKeys)] }, "a sort by ", ", ", " skip 1 limit 2")},
		{name: "blanks", sizes: long, gen: func(n int) string { return "a" + c10tAlternate("", []string{" ", "\t", "\n", "\r"}, n) + "and b" }},
		{name: "identifier", sizes: long, gen: func(n int) string { return "b" + strings.Repeat("a", n) + " = 1" }},
		{name: "dotted-path", sizes: long, gen: func(n int) string { return "xk" + strings.Repeat(".xk", n) + ".s = \"x\"" }},
		{name: "string-literal", sizes: long, gen: func(n int) string { return `s = "` + strings.Repeat(`x\n`, n) + `"` }},
		{name: "number", sizes: long, gen: func(n int) string { return "f = 1." + strings.Repeat("5", n) }},
		// long dotted identifiers over CYCLES of the store link graph (c10tcFamilies below)
	}
	fams = append(fams, c10tcFamilies(thorough)...)
	return append(fams, []c10tFamily{
		{name: "noise-foreign", sizes: noise, noise: true, gen: func(n int) string { return strings.Repeat("#", n) }},
		{name: "noise-closing", sizes: noise, noise: true, gen: func(n int) string { return strings.Repeat(")", n) }},
		{name: "noise-opening", sizes: noise, noise: true, gen: func(n int) string { return strings.Repeat("(", n) }},
		{name: "noise-connectives", sizes: chain, noise: true, gen: func(n int) string { return c10tAlternate("", []string{"and ", "or "}, n) }},
		{name: "noise-operands", sizes: chain, noise: true, gen: func(n int) string { return c10tAlternate("", []string{"a ", "b and or ", "(a "}, n) }},
		{name: "noise-quotes", sizes: noise, noise: true, gen: func(n int) string { return strings.Repeat(`"`, 2*n+1) }},
		{name: "noise-brackets", sizes: noise, noise: true, gen: func(n int) string { return strings.Repeat("i in [1, ", n) }},
	}...)
}

// c10tcFamilies: dotted identifiers of n path elements that walk a CYCLE of the link graph of the bolt-backed stores
// (c10_store.go).  A symbol table resolves a dotted identifier element by element; how often it does so per element is
// invisible on the paths of 2-4 elements that an acyclic schema admits (every longer one stops resolving early).  A cycle -
// a store that links to itself, A -> B -> A, A -> B -> C -> A - lets a VALID identifier be arbitrarily long, and the
// identifier is one token: the twins of c10tVariants that are made for it replace ONE path element (first / middle / last)
// by a name that does not resolve, and the middle one by a symbol that exists and is no link.  The identifier stands in
// every position that is typed against a store: operand of a comparison, argument of a set function, set expression of a
// sub-query, sort key.  `s` and `a` exist in all three stores, so the path may end in any of them.
//
//	mains.xup -> mains (fk)   mains.xms -> mains (fk set)   mains.xk -> subs (fk)   subs.owners -> mains (fk set)
//	subs.xk -> leaves (fk)    leaves.owners -> mains (fk set)
func c10tcFamilies(thorough bool) []c10tFamily {
	sizes := []int{2, 3, 4, 6, 8, 12, 16, 20, 24, 28, 32, 36, 40}
	if thorough {
		sizes = append(sizes, 48, 64, 96, 128)
	}
	// path of n elements: n-1 links walking the cycle, then `last`
	path := func(cycle []string, n int, last string) string {
		var parts []string
		for i := 0; i < n-1; i++ {
			parts = append(parts, cycle[i%len(cycle)])
		}
		return strings.Join(append(parts, last), ".")
	}
	// compare: the path as operand; it is a set as soon as one of its links is a fk set (index of the first one in the cycle)
	compare := func(cycle []string, firstSet int) func(n int) string {
		return func(n int) string {
			p := path(cycle, n, "s")
			if firstSet >= 0 && n-1 > firstSet {
				return "anyOf(" + p + `) = "x"`
			}
			return p + ` = "x"`
		}
	}
	self, selfSet, two, three := []string{"xup"}, []string{"xms"}, []string{"xk", "owners"}, []string{"xk", "xk", "owners"}
	return []c10tFamily{
		{name: "cyclic-path-fk-self", sizes: sizes, gen: compare(self, -1)},
		{name: "cyclic-path-fkset-self", sizes: sizes, gen: compare(selfSet, 0)},
		{name: "cyclic-path-two-stores", sizes: sizes, gen: compare(two, 1)},
		{name: "cyclic-path-three-stores", sizes: sizes, gen: compare(three, 2)},
		{name: "cyclic-path-sort-key", sizes: sizes, gen: func(n int) string {
			return "a sort by " + path(self, n, "s") + " desc, " + path(self, n/2+1, "name") + " limit 3"
		}},
		{name: "cyclic-path-sub-query", sizes: sizes, gen: func(n int) string {
			// the set expression ends in a link (n elements), the inner filter is typed against the store it leads to
			return "count(from " + path(two, n+1, two[n%2]) + " where a and " + compare(two, 1)(n) + ") >= 0"
		}},
		{name: "cyclic-path-chain", sizes: sizes, gen: func(n int) string {
			// several long identifiers in one filter
			return path(self, n, "a") + " and " + compare(three, 2)(n) + " or isEmpty(" + path(selfSet, n, "xss") + ")"
		}},
	}
}

// c10tcPathVariants: twins of a text whose longest dotted identifier has one path element replaced
func c10tcPathVariants(toks []string) (names []string, texts []string) {
	best, dots := -1, 0
	for k, t := range toks {
		if d := strings.Count(t, "."); d > dots && !strings.ContainsAny(t, "\"0123456789 ") {
			best, dots = k, d
		}
	}
	if best < 0 {
		return
	}
	elems := strings.Split(toks[best], ".")
	with := func(k int, repl string) string {
		e := append([]string{}, elems...)
		e[k] = repl
		t := append([]string{}, toks...)
		t[best] = strings.Join(e, ".")
		return strings.Join(t, "")
	}
	for _, p := range []struct {
		name string
		k    int
	}{{"start", 0}, {"middle", len(elems) / 2}, {"end", len(elems) - 1}} {
		names = append(names, "path-unknown-element@"+p.name)
		texts = append(texts, with(p.k, "nosuch"))
	}
	// a symbol that exists in every store and is no link, in the middle and as first element
	names = append(names, "path-scalar-element@middle", "path-scalar-element@start")
	texts = append(texts, with(len(elems)/2, "s"), with(0, "s"))
	return
}

// c10tVariants: the valid text and its invalid twins (variant name -> text)
func c10tVariants(valid string) (names []string, texts []string) {
	names, texts = []string{"valid"}, []string{valid}
	toks := c10Tokenize(valid)
	if len(toks) == 0 {
		return
	}
	join := func(t []string) string { return strings.Join(t, "") }
	type pos struct {
		name string
		k    int
	}
	for _, p := range []pos{{"start", 0}, {"middle", len(toks) / 2}, {"end", len(toks)}} {
		for _, ins := range []struct{ name, tok string }{{"foreign-character", "#"}, {"stray-parenthesis", ")"}, {"dangling-connective", " or "}} {
			names = append(names, ins.name+"@"+p.name)
			texts = append(texts, join(toks[:p.k])+ins.tok+join(toks[p.k:]))
		}
		// a token removed: the first non-blank token at or behind the position (before it at the end)
		k := p.k
		if k >= len(toks) {
			k = len(toks) - 1
		}
		for k < len(toks)-1 && strings.TrimLeft(toks[k], " \t\r\n") == "" {
			k++
		}
		names = append(names, "token-removed@"+p.name)
		texts = append(texts, join(toks[:k])+join(toks[k+1:]))
	}
	pn, pt := c10tcPathVariants(toks)
	names, texts = append(names, pn...), append(texts, pt...)
	return
}

type c10tProbe struct {
	letter byte
	ms     float64
	done   bool
}

func c10tTimed(k int, text string, bound time.Duration) c10tProbe {
	watchdogBeat(fmt.Sprintf("%s on %s", c10tEntryNames[k], c10EncodeText(text)))
	ch := make(chan byte, 1)
	t0 := time.Now()
	go func() { ch <- c10tCall(k, text) }()
	timer := time.NewTimer(bound)
	defer timer.Stop()
	select {
	case l := <-ch:
		return c10tProbe{letter: l, ms: float64(time.Since(t0).Microseconds()) / 1000, done: true}
	case <-timer.C:
		return c10tProbe{letter: '?', ms: float64(time.Since(t0).Microseconds()) / 1000}
	}
}

func runC10Term(o *opts) error {
	if devnull, err := os.OpenFile(os.DevNull, os.O_WRONLY, 0); err == nil {
		os.Stderr = devnull
	}
	defer c10sCleanup()
	minBound := time.Duration(o.getInt("termbound", 5000)) * time.Millisecond
	maxBound := 6 * minBound
	startWatchdog(o.out, maxBound+maxBound/2)
	say := func(format string, a ...interface{}) {
		fmt.Printf(format+"\n", a...)
		os.Stdout.Sync()
	}
	boundFor := func(refMs float64) time.Duration {
		b := time.Duration(100 * refMs * float64(time.Millisecond))
		if b < minBound {
			b = minBound
		}
		if b > maxBound {
			b = maxBound
		}
		return b
	}
	nEntries := len(c10tEntryNames)
	texts, calls := 0, 0
	only := o.get("termonly", "") // <family>,<n>,<variant>,<entry>: that text through that entry point only (replay)
	var onlyF, onlyV string
	onlyN, onlyK := -1, -1
	if only != "" {
		f := strings.Split(only, ",")
		if len(f) == 4 {
			onlyF, onlyV = f[0], f[2]
			if onlyV == "noise" {
				onlyV = "valid"
			}
			onlyN, _ = strconv.Atoi(f[1])
			onlyK, _ = strconv.Atoi(f[3])
		}
	}
	// warm up: build the stores and let every entry point allocate its pooled instances outside the measurements
	for k := 0; k < nEntries; k++ {
		c10tCall(k, "a and b")
	}
	// reference for the noise families: the `and` chain of the same size, per entry point
	andRef := map[int][]float64{}

	stalledFamilies := 0
	for _, fam := range c10tFamilies(o.thorough()) {
		if stalledFamilies >= 2 {
			// every abandoned call keeps a processor busy until the process exits: two stalling families are evidence enough
			say("SKIP %s", fam.name)
			continue
		}
		if onlyF != "" && fam.name != onlyF && !(fam.noise && fam.name == onlyF) {
			continue
		}
		prevValid := make([]float64, nEntries) // the valid member at the previous size
		stalled := false
		prevN := 0
		sizes := fam.sizes
		if onlyN >= 0 {
			sizes = []int{onlyN}
		}
		// one text through every entry point; validMs: the reference times per entry point
		run := func(n int, variant, text, validText string, ref []float64) (res []c10tProbe, stallAt int) {
			res = make([]c10tProbe, nEntries)
			stallAt = -1
			texts++
			for k := 0; k < nEntries; k++ {
				if onlyK >= 0 && k != onlyK {
					res[k] = c10tProbe{letter: '-', done: true}
					continue
				}
				calls++
				res[k] = c10tTimed(k, text, boundFor(ref[k]))
				if !res[k].done {
					stallAt = k
					break
				}
			}
			letters := make([]byte, nEntries)
			var ms []string
			for k := range res {
				letters[k] = res[k].letter
				if letters[k] == 0 {
					letters[k] = '.'
				}
				ms = append(ms, strconv.FormatFloat(res[k].ms, 'f', 3, 64))
			}
			say("T %s %d %s %s %s %s", fam.name, n, variant, c10EncodeText(text), letters, strings.Join(ms, ","))
			return
		}
		reportStall := func(n int, variant string, k int, text, validText string, ref []float64) {
			say("STALL %s %d %s %d %.0f %.3f %s %s", fam.name, n, variant, k, float64(boundFor(ref[k]).Milliseconds()), ref[k], c10EncodeText(text), c10EncodeText(validText))
		}
		// variantText: the named variant of the family member of size n
		variantText := func(n int, variant string) (text, valid string) {
			valid = fam.gen(n)
			names, vts := c10tVariants(valid)
			for i, nm := range names {
				if nm == variant {
					return vts[i], valid
				}
			}
			return valid, valid
		}
		// validRef measures the valid member of size n through entry point k alone (for sizes outside the schedule)
		validRef := func(n int, k int, fallback float64) []float64 {
			ref := make([]float64, nEntries)
			for i := range ref {
				ref[i] = fallback
			}
			if fam.noise {
				return ref
			}
			p := c10tTimed(k, fam.gen(n), boundFor(fallback))
			calls++
			if p.done && p.ms > ref[k] {
				ref[k] = p.ms
			}
			return ref
		}
		// minimise: the smallest size in (lo, hi] at which (variant, k) stalls; hi is known to stall
		minimise := func(lo, hi int, variant string, k int, fallback float64) int {
			for hi-lo > 1 {
				mid := (lo + hi) / 2
				text, _ := variantText(mid, variant)
				ref := validRef(mid, k, fallback)
				calls++
				if p := c10tTimed(k, text, boundFor(ref[k])); p.done {
					say("T %s %d %s %s bisect:%c %.3f", fam.name, mid, variant, c10EncodeText(text), p.letter, p.ms)
					lo = mid
				} else {
					hi = mid
				}
			}
			return hi
		}

		for _, n := range sizes {
			if stalled {
				break
			}
			valid := fam.gen(n)
			names, vts := c10tVariants(valid)
			if fam.noise {
				names, vts = names[:1], vts[:1]
			}
			// reference times
			ref := make([]float64, nEntries)
			if fam.noise {
				if r, ok := andRef[n]; ok {
					copy(ref, r)
				}
			} else {
				copy(ref, prevValid)
			}
			var validMs []float64
			for vi, variant := range names {
				if onlyV != "" && variant != onlyV {
					continue
				}
				text := vts[vi]
				useRef := ref
				if vi > 0 && validMs != nil {
					useRef = validMs
				}
				label := variant
				if fam.noise {
					label = "noise"
				}
				res, stallAt := run(n, label, text, valid, useRef)
				if stallAt >= 0 {
					m := n
					if prevN > 0 && n-prevN > 1 && onlyN < 0 {
						m = minimise(prevN, n, variant, stallAt, useRef[stallAt])
					}
					mt, mv := variantText(m, variant)
					reportStall(m, label, stallAt, mt, mv, useRef)
					stalled = true
					break
				}
				if vi == 0 {
					validMs = make([]float64, nEntries)
					for k := range res {
						validMs[k] = res[k].ms
					}
					if !fam.noise {
						copy(prevValid, validMs)
					}
					if fam.name == "and-chain" {
						andRef[n] = append([]float64{}, validMs...)
					}
					if fam.noise {
						validMs = ref
					}
				}
				// suspiciously slow (no alarm by itself): let this twin grow in steps of one until it stalls or behaves
				if onlyN >= 0 {
					continue
				}
				for k := range res {
					base := useRef[k]
					if base < 1 {
						base = 1
					}
					// an invalid twin (a noise text) against its valid twin of the same size: 50 x; the valid member against
					// itself at the previous size (half as long or shorter): 8 x
					factor := 50.0
					isValid := vi == 0 && !fam.noise
					if isValid {
						factor = 8
					}
					if res[k].ms > 100 && res[k].ms > factor*base {
						budget := time.Now().Add(12 * minBound)
						for m := n + 1; m <= fam.sizes[len(fam.sizes)-1] && time.Now().Before(budget); m++ {
							mt, mv := variantText(m, variant)
							mref := useRef
							if !isValid {
								mref = validRef(m, k, useRef[k])
							}
							calls++
							p := c10tTimed(k, mt, boundFor(mref[k]))
							if !p.done {
								reportStall(m, label, k, mt, mv, mref)
								stalled = true
								break
							}
							say("T %s %d %s %s grow:%c %.3f", fam.name, m, label, c10EncodeText(mt), p.letter, p.ms)
							if p.ms < 100 {
								break
							}
						}
						break
					}
				}
				if stalled {
					break
				}
			}
			prevN = n
		}
		if stalled {
			stalledFamilies++
		}
	}
	say("DONE %d %d", texts, calls)
	return nil
}
