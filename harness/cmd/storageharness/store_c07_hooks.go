package main

// C07, fifth strengthening (seeded change C07-w4-1): EVERY kind of hook that is told about a transaction is observed
// in every C07 history, so that "... and no commit action or listener runs" is checked for failed transactions of every
// failure kind (caller error, rejected operation, veto at each stage, storage error, failing pre-commit action after
// a function that succeeded) on all of them.  Model: coq/theories/Store/TxQuiet.v (ctx_update_q, std_hooks,
// hook_counts), theorems Properties/C07Quiet.v; design/C07.md section 10.
//
// Registered on every harness database of the C07 stream, after the wiring's and the C07 constraints:
//
//   - the recording listeners of the C08 harness (store_c08.go c08AttachDb - reused, not duplicated): per store and
//     change type (created / updated / deleted), synchronous and asynchronous, the four filtering styles
//     AddEntityEventListener (t), AddEntityEventListenerF (f), AddListener (u), AddEntityIdListener (i); the typed and
//     the untyped entity constraint (c, uc: ProcessPostCommit sees every change); one tx-complete listener;
//   - per store ONE registration that names three change types in one call (c07HkRegs: style and types follow from the
//     store's position in the schema; Store/TxQuiet.v multi_style / multi_types is the same rule), kind m<style>;
//   - a second tx-complete listener ("every listener registered with AddTxCompleteListener").
//
// Observation tokens (between the commit flag and " ST", in front of the read tokens): HK:<kind>:<n> for n > 0,
//
//	kind  ts ta fs fa us ua is ia   invocations of the single-type registrations of that style, sync / async
//	      c uc                      ProcessPostCommit of the typed / untyped constraint
//	      mt mf mu mi               invocations of the multi-type registrations
//	      tc                        executions of tx-complete listeners (both registrations together)
//
// Commit actions are observed by store_c07_ctx.go (CA-AFTER-ROLLBACK); c07HkDecorate registers them on many more
// transactions.  The pseudo veto "@c07hk C <hex of "std">" (added to every generated transaction) makes the model
// driver print the same tokens (extracted hook_counts (std_hooks sch)); every other store-family check ignores it.

import (
	"fmt"
	"runtime"
	"sort"
	"strings"
	"sync"
	"time"

	"github.com/openziti/storage/boltz"
)

const c07HkVeto = "@c07hk"

type c07HookObs struct {
	c   *c08Db
	mu  sync.Mutex
	tc2 int // executions of the second tx-complete listener
}

var c07hk *c07HookObs

// c07HkRegs: the multi-type registration of store number k (same rule as Store/TxQuiet.v multi_style / multi_types)
func c07HkRegs(w *wiring) []c08Reg {
	styles := "tfui"
	types := []string{"CuD", "uDc", "dCU"}
	var regs []c08Reg
	for k, def := range w.Stores {
		regs = append(regs, c08Reg{Style: styles[k%4], Store: def.Name, Types: types[k%3]})
	}
	return regs
}

func c07HkAttach(h *harnessDb) error {
	c, err := c08AttachDb(h, c07HkRegs(h.w))
	if err != nil {
		return err
	}
	o := &c07HookObs{c: c}
	h.db.AddTxCompleteListener(func(boltz.MutateContext) {
		o.mu.Lock()
		o.tc2++
		o.mu.Unlock()
	})
	c07hk = o
	return nil
}

func (o *c07HookObs) take(counts map[string]int) int {
	toks, _, _, tc := o.c.drain()
	o.mu.Lock()
	tc += o.tc2
	o.tc2 = 0
	o.mu.Unlock()
	for _, t := range toks {
		p := strings.SplitN(t, ":", 4)
		switch {
		case p[0] == "LS" && len(p) > 1:
			counts[p[1]]++
		case p[0] == "LM" && len(p) > 2:
			counts["m"+p[2]]++
		}
	}
	counts["tc"] += tc
	return len(toks) + tc
}

// c07HkReset forgets what was recorded so far (right before a transaction starts)
func c07HkReset() {
	if c07hk != nil {
		c07hk.take(map[string]int{})
	}
}

// c07HkCollect waits for the asynchronous deliveries the synchronously observed events imply and returns the HK tokens
// of the transaction that has just ended
func c07HkCollect(committed bool) string {
	o := c07hk
	if o == nil {
		return ""
	}
	if committed {
		o.c.await(committed, 0)
	} else {
		// nothing is expected.  Synchronous hooks ran before Db.Update / Db.Batch returned; a goroutine an adapter started for
		// an asynchronous registration has had the time the executor needed to read the stores and traverse the bolt file
		for k := 0; k < 4; k++ {
			runtime.Gosched()
		}
	}
	counts := map[string]int{}
	n := o.take(counts)
	if !committed && n > 0 {
		// something ran for a failed transaction: leave time for the asynchronous hooks of the same transaction
		time.Sleep(3 * time.Millisecond)
		o.take(counts)
	}
	var kinds []string
	for k, v := range counts {
		if v > 0 {
			kinds = append(kinds, k)
		}
	}
	sort.Strings(kinds)
	var sb strings.Builder
	for _, k := range kinds {
		fmt.Fprintf(&sb, " HK:%s:%d", k, counts[k])
	}
	return sb.String()
}

// c07HkDecorate: commit actions on many more transactions (before the transaction, at its start, between and after its
// operations, through derived contexts), and the marker that makes the model print its hook counts
func (g *histGen) c07HkDecorate(t *hTx) {
	shared := false
	for _, v := range t.Vetoes {
		if v.Store == "@ctx" { // registrations stay on a shared context for good
			shared = true
		}
	}
	if !shared && g.r.chance(22) {
		_, open, _ := c07CtxParse(t)
		for n := 1 + g.r.intn(2); n > 0; n-- {
			site := g.c07CtxSite(t, open != "nil")
			if site >= 0 && g.r.chance(35) {
				site = len(t.Ops) // after the last operation: registered when the whole function has succeeded
			}
			t.Vetoes = append(t.Vetoes, c07CtxRegText(site, g.c07CtxPath(site >= 0, g.r.chance(80)), 'c'))
		}
	}
	t.Vetoes = append(t.Vetoes, hVeto{Store: c07HkVeto, Change: "C", Id: "std"})
}
