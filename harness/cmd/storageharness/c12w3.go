package main

import (
	"fmt"
	"os"
	"path/filepath"
	"strings"
	"time"

	"github.com/openziti/storage/ast"
	"github.com/openziti/storage/boltz"
	"go.etcd.io/bbolt"
)

// C12, streams added after the third wave of seeded changes (design/C12.md, "Strengthening after C12-w3-*"):
//
//	d  skeletons in which atoms REPEAT: the same atom text at several leaves, identical sub-expressions as
//	   siblings, and - the sharpest form - the two operands of a connective being the SAME clause sequence grouped
//	   differently (all groupings of one sequence, paired), so that they read alike once parentheses are ignored.
//	   Case kind S (truth table over the distinct atom names vs. the surface semantics).
//	l  LONG filters (tens to thousands of leaves over a few atom names; thousands of tokens) in compact spelling
//	   and re-spelled: pretty-printed (one clause per line, indentation, upper-case keywords), doubled blanks, random
//	   white space, every atom / the whole filter wrapped in redundant parentheses.  Case kind W (the re-spelling
//	   and the compact base must both denote the surface semantics).
//	n  atoms that are REAL comparisons on fields of a boltz store (every operator family, every field type)
//	   evaluated on rows where the field is nil / unset.  The valuation of an atom on a row is what the code itself
//	   answers for the atom alone; a skeleton over such atoms must select exactly the rows its surface semantics
//	   gives under that valuation - in particular `not` must be the exact complement of its operand, also when
//	   the operand is false on a nil field.  Case kind N.
//
// Case line N:   N <stream> <store> <hex query> <hex skeleton> <expr> <atom,..> <hex atom text,..> <row bits of atom,..>
// Observation:   N <row bits of the query | E | P> <hex row id,..>

// ---- stream d ----------------------------------------------------------------------------------------------

func c12dCopyP(p *c12Prim) *c12Prim {
	if p.paren == nil {
		return &c12Prim{atom: p.atom}
	}
	return &c12Prim{paren: c12dCopy(p.paren)}
}

func c12dCopy(e *c12Expr) *c12Expr {
	switch e.kind {
	case '.':
		return &c12Expr{kind: '.', p: c12dCopyP(e.p)}
	case '!':
		return &c12Expr{kind: '!', e: c12dCopy(e.e)}
	}
	return &c12Expr{kind: e.kind, p: c12dCopyP(e.p), e: c12dCopy(e.e)}
}

// c12dAppend: the chain x continued by `op rest` (nil when x ends in a `not`, which would swallow the rest)
func c12dAppend(x *c12Expr, op byte, rest *c12Expr) *c12Expr {
	root := c12dCopy(x)
	n := root
	for n.kind == '&' || n.kind == '|' {
		n = n.e
	}
	if n.kind != '.' {
		return nil
	}
	n.kind, n.e = op, rest
	return root
}

// a clause sequence: atom indexes, the connectives between them, and which positions carry a `not` in front
type c12dSeq struct {
	atoms []int
	ops   []byte
}

// groupings returns every way of writing positions [i,j) of the sequence as a chain of primaries (an atom, or a
// parenthesised grouping of a sub-range), i.e. every skeleton that reads as this very sequence once the
// parentheses are dropped.  A `not` in front of position p (bit p of nots) negates the rest of the chain it is
// written in.  lvl: a single pair of parentheses must not enclose the whole range starting at lvl (redundant).
func (s *c12dSeq) groupings(i, j int, nots uint, lvl int) []*c12Expr {
	var out []*c12Expr
	hasNot := nots>>uint(i)&1 == 1
	if hasNot {
		for _, e := range s.groupings(i, j, nots&^(1<<uint(i)), -1) {
			out = append(out, &c12Expr{kind: '!', e: e})
		}
	}
	for e := i + 1; e <= j; e++ {
		var prims []*c12Prim
		if e == i+1 && !hasNot {
			prims = append(prims, &c12Prim{atom: s.atoms[i]})
		}
		if (e-i >= 2 || hasNot) && !(i == lvl && e == j) {
			for _, in := range s.groupings(i, e, nots, i) {
				prims = append(prims, &c12Prim{paren: in})
			}
		}
		if e == j {
			for _, p := range prims {
				out = append(out, &c12Expr{kind: '.', p: p})
			}
			continue
		}
		rests := s.groupings(e, j, nots, -1)
		for _, p := range prims {
			for _, r := range rests {
				out = append(out, &c12Expr{kind: s.ops[e-1], p: p, e: r})
			}
		}
	}
	return out
}

// restricted growth strings of length m over at most maxNames names: every labelling of m leaves up to renaming
func c12dLabellings(m, maxNames int, onlyRepeating bool) [][]int {
	var out [][]int
	cur := make([]int, m)
	var rec func(p, used int)
	rec = func(p, used int) {
		if p == m {
			if onlyRepeating && used == m {
				return
			}
			out = append(out, append([]int(nil), cur...))
			return
		}
		for a := 0; a <= used && a < maxNames; a++ {
			cur[p] = a
			nu := used
			if a == used {
				nu++
			}
			rec(p+1, nu)
		}
	}
	rec(0, 0)
	return out
}

// c12dRelabel: a copy of the shape e (atoms numbered at print time) with explicit atom indexes lab[0..]
func c12dRelabel(e *c12Expr, lab []int) *c12Expr {
	c := c12dCopy(e)
	n := 0
	var pe func(e *c12Expr)
	pp := func(p *c12Prim) {
		if p.paren == nil {
			p.atom = lab[n]
			n++
		} else {
			pe(p.paren)
		}
	}
	pe = func(e *c12Expr) {
		switch e.kind {
		case '.':
			pp(e.p)
		case '!':
			pe(e.e)
		default:
			pp(e.p)
			pe(e.e)
		}
	}
	pe(c)
	return c
}

func c12dMaxAtom(e *c12Expr) int {
	m := 0
	var pe func(e *c12Expr)
	pp := func(p *c12Prim) {
		if p.paren == nil {
			if p.atom > m {
				m = p.atom
			}
		} else {
			pe(p.paren)
		}
	}
	pe = func(e *c12Expr) {
		switch e.kind {
		case '.':
			pp(e.p)
		case '!':
			pe(e.e)
		default:
			pp(e.p)
			pe(e.e)
		}
	}
	pe(e)
	return m
}

// c12dProjected: the filter with every atom OCCURRENCE renamed to a fresh atom (same skeleton, distinct atoms),
// evaluated for every assignment of the original names: occurrence j takes the value of the name it stood for.
// "-" when the filter has more than 10 leaves or the atoms are rendered as constants.
func c12dProjected(mode, filter string, atoms []string) string {
	if mode == "const" {
		return "-" // constants have no identity: nothing to compare
	}
	var lab []int
	distinct := c12Render(filter, atoms, func(i int) string {
		lab = append(lab, i)
		return fmt.Sprintf("q%c%c", 'a'+(len(lab)-1)/26, 'a'+(len(lab)-1)%26)
	})
	if len(lab) > 10 || len(lab) == 0 {
		return "-"
	}
	fresh := make([]string, len(lab))
	for j := range lab {
		fresh[j] = fmt.Sprintf("q%c%c", 'a'+j/26, 'a'+j%26)
	}
	tt := c12TruthTable(mode, distinct, fresh)
	if len(tt) != 1<<uint(len(lab)) {
		return tt
	}
	out := make([]byte, 1<<uint(len(atoms)))
	for a := range out {
		idx := 0
		for j, name := range lab {
			if a>>uint(name)&1 == 1 {
				idx |= 1 << uint(j)
			}
		}
		out[a] = tt[idx]
	}
	return string(out)
}

type c12Emit func(stream, mode, filter, pre string, atoms []string, base string)

func c12dStream(o *opts, r *rng, all []*c12Expr, emit c12Emit, stats map[string]int) {
	names := []string{"a", "b", "c", "d"}
	fixed := func() *c12Layout { return &c12Layout{atoms: names, fixed: true} }
	nameCount := func(e *c12Expr) int { return c12dMaxAtom(e) + 1 }
	out := func(stream string, e *c12Expr, modes ...string) {
		text, pre := fixed().spell(e)
		k := nameCount(e)
		for _, m := range modes {
			emit(stream, m, text, pre, names[:k], "")
		}
	}
	paren := func(e *c12Expr) *c12Prim { return &c12Prim{paren: e} }
	last := func(p *c12Prim) *c12Expr { return &c12Expr{kind: '.', p: p} }

	// d2: the two operands of a connective are groupings of one and the same clause sequence
	type plan struct {
		m, maxNots int
		every      int // 1 = all pairs, n = one pair in n (the diagonal and the pairs that differ are both sampled)
	}
	plans := []plan{{2, 0, 1}, {3, 0, 1}, {2, 1, 1}, {3, 1, 40}, {4, 0, 50}}
	if o.thorough() {
		plans = []plan{{2, 0, 1}, {3, 0, 1}, {2, 1, 1}, {3, 1, 2}, {4, 0, 3}, {2, 2, 1}, {3, 2, 60}}
	}
	cnt := 0
	for _, pl := range plans {
		for _, lab := range c12dLabellings(pl.m, 3, false) {
			for opm := 0; opm < 1<<uint(pl.m-1); opm++ {
				ops := make([]byte, pl.m-1)
				for i := range ops {
					ops[i] = '&'
					if opm>>uint(i)&1 == 1 {
						ops[i] = '|'
					}
				}
				seq := &c12dSeq{atoms: lab, ops: ops}
				for nots := uint(0); nots < 1<<uint(pl.m); nots++ {
					nn := 0
					for b := nots; b != 0; b &= b - 1 {
						nn++
					}
					if nn != pl.maxNots {
						continue
					}
					gs := seq.groupings(0, pl.m, nots, 0)
					stats[fmt.Sprintf("d_groupings_m%d_n%d", pl.m, nn)] = len(gs)
					for _, x := range gs {
						for _, y := range gs {
							for _, top := range []byte{'|', '&'} {
								if pl.every > 1 && !r.chance(1+100/pl.every) {
									continue
								}
								vs := []*c12Expr{
									{kind: top, p: paren(x), e: last(paren(y))},
									{kind: top, p: paren(x), e: c12dCopy(y)},
									c12dAppend(x, top, last(paren(y))),
									c12dAppend(x, top, y),
								}
								for _, z := range vs {
									if z == nil {
										continue
									}
									cnt++
									modes := []string{"sym"}
									if cnt%4 == 1 {
										modes = append(modes, "cmp")
									}
									if cnt%8 == 2 {
										modes = append(modes, "const")
									}
									out("d2", z, modes...)
									// the same inside a context: negated, as one operand among others (fresh / repeated atom)
									if cnt%6 == 3 {
										ctxAtom := &c12Prim{atom: r.intn(4)}
										switch r.intn(4) {
										case 0:
											out("d2", &c12Expr{kind: '!', e: last(paren(z))}, "sym")
										case 1:
											out("d2", &c12Expr{kind: '&', p: ctxAtom, e: last(paren(z))}, "sym")
										case 2:
											out("d2", &c12Expr{kind: '|', p: paren(z), e: last(ctxAtom)}, "sym")
										default:
											if w := c12dAppend(z, '|', last(ctxAtom)); w != nil {
												out("d2", w, "sym")
											}
										}
									}
								}
							}
						}
					}
				}
			}
		}
	}

	// d1: the exhaustive skeletons of stream x with REPEATING atom labels
	for si, e := range all {
		k := c12CountAtoms(e)
		if k < 2 {
			continue
		}
		labs := c12dLabellings(k, 3, true)
		if o.thorough() && k <= 3 {
			for _, lab := range labs {
				out("d1", c12dRelabel(e, lab), "sym")
			}
			continue
		}
		if o.thorough() && k == 4 {
			out("d1", c12dRelabel(e, labs[r.intn(len(labs))]), "sym")
		}
		if (k == 4 || o.thorough()) && si%2 == 1 {
			continue
		}
		z := c12dRelabel(e, labs[r.intn(len(labs))])
		if si%16 == 5 {
			out("d1", z, "sym", "cmp")
		} else {
			out("d1", z, "sym")
		}
	}
}

// ---- stream l ----------------------------------------------------------------------------------------------

// c12lBuild: a long skeleton with n leaves over k atom names
func c12lBuild(kind byte, n, k int, r *rng) *c12Expr {
	atom := func(i int) *c12Prim { return &c12Prim{atom: i % k} }
	switch kind {
	case 'R':
		return c12Random(r, n, k, 2)
	case 'G': // ( a or b ) and ( c or a ) and ...
		var root, cur *c12Expr
		for i := 0; i < n; i += 2 {
			g := &c12Prim{paren: &c12Expr{kind: '|', p: atom(i), e: &c12Expr{kind: '.', p: atom(i + 1)}}}
			node := &c12Expr{kind: '.', p: g}
			if root == nil {
				root = node
			} else {
				cur.kind, cur.e = '&', node
			}
			cur = node
		}
		return root
	}
	var root, cur *c12Expr
	for i := 0; i < n; i++ {
		node := &c12Expr{kind: '.', p: atom(i)}
		if root == nil {
			root = node
		} else {
			op := byte('|')
			switch kind {
			case 'A':
				op = '&'
			case 'M': // a and b or c and a or ...
				if i%2 == 1 {
					op = '&'
				}
			case 'N': // runs of three: a and b and c or a and b and c or ...
				if i%3 != 0 {
					op = '&'
				}
			}
			cur.kind, cur.e = op, node
		}
		cur = node
	}
	return root
}

// redundant parentheses at many places at once (each one an instance of BoolSurface.wrapE)
func c12lWrapAtoms(e *c12Expr) *c12Expr {
	c := c12dCopy(e)
	var pe func(e *c12Expr)
	pp := func(p *c12Prim) {
		if p.paren == nil {
			*p = c12Prim{paren: &c12Expr{kind: '.', p: &c12Prim{atom: p.atom}}}
		} else {
			pe(p.paren)
		}
	}
	pe = func(e *c12Expr) {
		switch e.kind {
		case '.':
			pp(e.p)
		case '!':
			pe(e.e)
		default:
			pp(e.p)
			pe(e.e)
		}
	}
	pe(c)
	return c
}

func c12lWrapWhole(e *c12Expr, pairs int) *c12Expr {
	c := c12dCopy(e)
	for i := 0; i < pairs; i++ {
		c = &c12Expr{kind: '.', p: &c12Prim{paren: c}}
	}
	return c
}

func c12lStream(o *opts, r *rng, emit c12Emit, stats map[string]int) {
	names := []string{"a", "b", "c"}
	sizes := []int{12, 25, 50, 100, 150, 200, 300, 500, 800, 1200}
	kinds := []byte{'O', 'M', 'A', 'G', 'N', 'R'}
	if o.thorough() {
		sizes = append(sizes, 2000, 3000, 5000)
	}
	if v := o.getInt("lmax", 0); v > 0 {
		var s2 []int
		for _, s := range sizes {
			if s <= v {
				s2 = append(s2, s)
			}
		}
		sizes = s2
	}
	// simplest structure first, each in growing sizes: the first failing case is the shortest plain chain
	for ki, kind := range kinds {
		for _, n := range sizes {
			if n > 1200 && kind != 'O' && kind != 'M' && kind != 'R' {
				continue
			}
			e := c12lBuild(kind, n, len(names), r)
			base, _ := (&c12Layout{atoms: names, fixed: true}).spell(e)
			mode := "sym"
			if n <= 300 && (ki+n)%3 == 0 {
				mode = "cmp" // the same long filter over real comparisons (five tokens per atom and more)
			}
			w := func(stream string, l *c12Layout, x *c12Expr) {
				l.atoms, l.fixed = names, true
				text, pre := l.spell(x)
				emit(stream, mode, text, pre, names, base)
				stats["l_max_chars"] = maxInt(stats["l_max_chars"], len(text))
			}
			// white space only
			w("lw", &c12Layout{wsFix: "\n    ", innerFix: "\n", kwUpper: true}, e) // one clause per line, indented
			w("lw", &c12Layout{wsFix: "  ", innerFix: " "}, e)
			w("lw", &c12Layout{wsFix: "\t"}, e)
			w("lw", &c12Layout{r: r, maxWs: 4, inner: 2, kwCase: true}, e)
			// redundant parentheses only
			w("lp", &c12Layout{}, c12lWrapAtoms(e))
			w("lp", &c12Layout{}, c12lWrapWhole(e, 1+r.intn(3)))
			if n <= 50 {
				// deeply nested redundant parentheses around a short filter
				w("lp", &c12Layout{}, c12lWrapWhole(e, []int{10, 40, 150}[(ki+n)%3]))
			}
			// both
			w("lb", &c12Layout{wsFix: " ", innerFix: " "}, c12lWrapAtoms(e))
		}
	}
}

func maxInt(a, b int) int {
	if a > b {
		return a
	}
	return b
}

// ---- stream n ----------------------------------------------------------------------------------------------

type c12nRow struct {
	id      string
	s       *string
	i       *int64
	f       *float64
	t       *string
	b       *bool
	tags    []string
	setNils bool // write explicit nil values instead of leaving the fields out
}

func c12nI(v int64) *int64     { return &v }
func c12nF(v float64) *float64 { return &v }
func c12nB(v bool) *bool       { return &v }

var c12nRows = []c12nRow{
	{id: "n0"},                // nothing set
	{id: "n1", setNils: true}, // every field an explicit nil
	{id: "v1", s: c12kStr("a"), i: c12nI(1), f: c12nF(1.5), t: c12kStr("2019-06-01T00:00:00Z"), b: c12nB(false)},
	{id: "v2", s: c12kStr("m"), i: c12nI(5), f: c12nF(5), t: c12kStr("2021-06-01T00:00:00Z"), b: c12nB(true), tags: []string{"red"}},
	{id: "v3", s: c12kStr("z"), i: c12nI(9), f: c12nF(9.5), t: c12kStr("2023-06-01T00:00:00Z"), b: c12nB(true), tags: []string{"red", "blue"}},
	{id: "h1", s: c12kStr("Mm"), f: c12nF(5)},                                                   // i, t, b unset
	{id: "h2", i: c12nI(5), t: c12kStr("2021-06-01T00:00:00Z"), b: c12nB(false), setNils: true}, // s, f nil
}

const c12nT = "datetime(2021-06-01T00:00:00Z)"

// atoms over the store `things`: every operator family on every field type
var c12nAtoms = []string{
	`s = "m"`, `s != "m"`, `s < "m"`, `s <= "m"`, `s > "m"`, `s >= "m"`,
	`s contains "m"`, `s not contains "m"`, `s icontains "M"`, `s not icontains "M"`,
	`s in ["m", "z"]`, `s not in ["m", "z"]`, `s = null`, `s != null`,
	`i = 5`, `i != 5`, `i < 5`, `i <= 5`, `i > 5`, `i >= 5`,
	`i between 2 and 6`, `i not between 2 and 6`, `i in [1, 5]`, `i not in [1, 5]`, `i = null`, `i != null`,
	`i contains 5`, `i not contains 5`,
	`f = 5.0`, `f != 5.0`, `f < 5.0`, `f <= 5.0`, `f > 5.0`, `f >= 5.0`,
	`f between 1.0 and 6.0`, `f not between 1.0 and 6.0`, `f in [1.5, 5.0]`, `f not in [1.5, 5.0]`, `f = null`, `f != null`,
	`t = ` + c12nT, `t != ` + c12nT, `t < ` + c12nT, `t <= ` + c12nT, `t > ` + c12nT, `t >= ` + c12nT,
	`t between datetime(2020-01-01T00:00:00Z) and datetime(2022-01-01T00:00:00Z)`,
	`t not between datetime(2020-01-01T00:00:00Z) and datetime(2022-01-01T00:00:00Z)`,
	`t in [` + c12nT + `]`, `t not in [` + c12nT + `]`, `t = null`, `t != null`,
	`b = true`, `b != true`, `b = false`, `b`, `b = null`, `b != null`,
	`anyOf(tags) = "red"`, `anyOf(tags) != "red"`, `allOf(tags) = "red"`, `allOf(tags) != "red"`,
	`anyOf(tags) < "c"`, `allOf(tags) >= "c"`, `anyOf(tags) in ["blue"]`, `allOf(tags) not in ["blue"]`,
	`anyOf(tags) contains "e"`, `allOf(tags) not contains "l"`,
	`count(tags) > 0`, `count(tags) = 0`, `isEmpty(tags)`,
}

type c12nDb struct {
	db    *bbolt.DB
	file  string
	store boltz.ConfigurableStore
	ids   []string
}

func c12nOpen(dir string) (*c12nDb, error) {
	f := filepath.Join(dir, fmt.Sprintf("c12n-%d.db", os.Getpid()))
	_ = os.Remove(f)
	db, err := bbolt.Open(f, 0o600, &bbolt.Options{NoSync: true, NoFreelistSync: true, Timeout: 5 * time.Second})
	if err != nil {
		return nil, err
	}
	def := (&boltz.StoreDefinition[boltz.Entity]{EntityType: "things"}).WithBasePath("cnil")
	things := boltz.NewBaseStore(*def)
	things.AddIdSymbol("id", ast.NodeTypeString)
	things.AddSymbol("s", ast.NodeTypeString)
	things.AddSymbol("i", ast.NodeTypeInt64)
	things.AddSymbol("f", ast.NodeTypeFloat64)
	things.AddSymbol("t", ast.NodeTypeDatetime)
	things.AddSymbol("b", ast.NodeTypeBool)
	things.AddSetSymbol("tags", ast.NodeTypeString)
	d := &c12nDb{db: db, file: f, store: things}
	err = db.Update(func(tx *bbolt.Tx) error {
		root := boltz.GetOrCreatePath(tx, "cnil", "things")
		for _, row := range c12nRows {
			d.ids = append(d.ids, row.id)
			eb := root.GetOrCreatePath(row.id)
			if row.s != nil {
				eb.SetString("s", *row.s, nil)
			} else if row.setNils {
				eb.SetNil("s")
			}
			if row.i != nil {
				eb.SetInt64("i", *row.i, nil)
			} else if row.setNils {
				eb.SetNil("i")
			}
			if row.f != nil {
				eb.SetFloat64("f", *row.f, nil)
			} else if row.setNils {
				eb.SetNil("f")
			}
			if row.t != nil {
				t, err := time.Parse(time.RFC3339, *row.t)
				if err != nil {
					return err
				}
				eb.SetTimeP("t", &t, nil)
			} else if row.setNils {
				eb.SetNil("t")
			}
			if row.b != nil {
				eb.SetBool("b", *row.b, nil)
			} else if row.setNils {
				eb.SetNil("b")
			}
			if len(row.tags) > 0 {
				eb.SetStringList("tags", row.tags, nil)
			}
			if eb.Err != nil {
				return eb.Err
			}
		}
		return root.Err
	})
	if err != nil {
		_ = db.Close()
		return nil, err
	}
	return d, nil
}

func (d *c12nDb) close() {
	_ = d.db.Close()
	_ = os.Remove(d.file)
}

// rowBits: which rows a query selects, in the order of c12nRows
func (d *c12nDb) rowBits(text string) (res string) {
	defer func() {
		if r := recover(); r != nil {
			res = "P"
		}
	}()
	_ = d.db.View(func(tx *bbolt.Tx) error {
		ids, _, err := d.store.QueryIds(tx, text)
		if err != nil {
			res = "E"
			return nil
		}
		sel := map[string]bool{}
		for _, id := range ids {
			sel[id] = true
		}
		b := make([]byte, len(d.ids))
		for i, id := range d.ids {
			b[i] = '0'
			if sel[id] {
				b[i] = '1'
			}
		}
		res = string(b)
		return nil
	})
	return res
}

type c12nJob struct {
	store               string // "" / things: stream n (this file); twins: stream m (c12w5.go)
	stream, filter, pre string
	atoms, texts        []string
	caseLine, implLine  string
	suffix              string // text after the filter (sort by / limit none; stream n4, c12w9.go): rows selected do not depend on it
}

var c12nNames = []string{"A", "B", "C"}

func c12nGenerate(o *opts, r *rng, stats map[string]int) []*c12nJob {
	var jobs []*c12nJob
	add := func(stream string, e *c12Expr, lay *c12Layout, texts []string) {
		k := len(texts)
		lay.atoms, lay.fixed = c12nNames, true
		text, pre := lay.spell(e)
		jobs = append(jobs, &c12nJob{stream: stream, filter: text, pre: pre, atoms: c12nNames[:k], texts: texts})
		stats["stream_"+stream]++
	}
	canon := func() *c12Layout { return &c12Layout{} }
	// n1: every skeleton over ONE atom (<= 2 parenthesis pairs, <= 3 nots), every atom
	var one []*c12Expr
	for np := 0; np <= 2; np++ {
		for nn := 0; nn <= 3; nn++ {
			one = append(one, c12Exprs(1, np, nn)...)
		}
	}
	stats["n_shapes_one_atom"] = len(one)
	for _, a := range c12nAtoms {
		for si, e := range one {
			z := c12dRelabel(e, []int{0})
			add("n1", z, canon(), []string{a})
			if si%5 == 2 {
				add("n1", z, &c12Layout{r: r, maxWs: 2, inner: 2, kwCase: true}, []string{a})
			}
		}
	}
	// n2: every skeleton over TWO leaves with at least one `not` (<= 1 parenthesis pair, <= 2 nots): both leaves
	// the same atom, and two different atoms
	var two []*c12Expr
	for np := 0; np <= 1; np++ {
		for nn := 1; nn <= 2; nn++ {
			two = append(two, c12Exprs(2, np, nn)...)
		}
	}
	stats["n_shapes_two_atoms"] = len(two)
	per := 2
	if o.thorough() {
		per = 12
	}
	for ai, a := range c12nAtoms {
		for j := 0; j < per; j++ {
			b := c12nAtoms[r.intn(len(c12nAtoms))]
			for si, e := range two {
				if !o.thorough() && (si+ai+j)%3 != 0 {
					continue
				}
				if j == 0 && si%4 == 0 {
					add("n2", c12dRelabel(e, []int{0, 0}), canon(), []string{a})
				}
				if r.chance(50) {
					add("n2", c12dRelabel(e, []int{0, 1}), canon(), []string{a, b})
				} else {
					add("n2", c12dRelabel(e, []int{1, 0}), canon(), []string{a, b})
				}
			}
		}
	}
	// n3: random skeletons over three atoms
	n3 := 600
	if o.thorough() {
		n3 = 8000
	}
	for i := 0; i < n3; i++ {
		texts := []string{c12nAtoms[r.intn(len(c12nAtoms))], c12nAtoms[r.intn(len(c12nAtoms))], c12nAtoms[r.intn(len(c12nAtoms))]}
		e := c12Random(r, 2+r.intn(4), 3, 3)
		lay := canon()
		if r.chance(30) {
			lay = &c12Layout{r: r, maxWs: 2, inner: 1, kwCase: true}
		}
		add("n3", e, lay, texts)
	}
	// n4: the entity's own id among the atoms, at every leaf position of every skeleton (c12w9.go)
	jobs = append(jobs, c12w9IdJobs(o, r, stats)...)
	return jobs
}

func (j *c12nJob) query() string {
	return c12Render(j.filter, j.atoms, func(i int) string { return j.texts[i] }) + j.suffix
}

func c12nFromLine(f []string) *c12nJob {
	if len(f) < 9 {
		return nil
	}
	j := &c12nJob{store: f[2], stream: f[1], filter: string(unhx(f[4])), pre: f[5], atoms: strings.Split(f[6], ",")}
	for _, h := range strings.Split(f[7], ",") {
		j.texts = append(j.texts, string(unhx(h)))
	}
	// what follows the filter in the recorded query (sort by / limit none of stream n4)
	if q, bare := string(unhx(f[3])), j.query(); len(q) > len(bare) && strings.HasPrefix(q, bare) {
		j.suffix = q[len(bare):]
	}
	return j
}

// c12nRun evaluates the atoms (alone) and the queries on the real store
func c12nRun(o *opts, jobs []*c12nJob, stats map[string]int) error {
	if len(jobs) == 0 {
		return nil
	}
	db, err := c12nOpen(o.out)
	if err != nil {
		return err
	}
	defer db.close()
	atomBits := map[string]string{}
	distinct := map[string]bool{}
	var hexIds []string
	for _, id := range db.ids {
		hexIds = append(hexIds, hxs(id))
	}
	for _, j := range jobs {
		var bits, htexts []string
		for _, t := range j.texts {
			b, ok := atomBits[t]
			if !ok {
				b = db.rowBits(t)
				atomBits[t] = b
				if b == "E" || b == "P" {
					stats["n_atoms_rejected"]++
				} else {
					distinct[b] = true
					if !strings.Contains(b, "1") || !strings.Contains(b, "0") {
						stats["n_atoms_constant"]++
					}
				}
			}
			if b == "E" || b == "P" {
				b = strings.Repeat("0", len(db.ids)) // reported through n_atoms_rejected
			}
			bits = append(bits, b)
			htexts = append(htexts, hxs(t))
		}
		q := j.query()
		j.caseLine = fmt.Sprintf("N %s things %s %s %s %s %s %s", j.stream, hxs(q), hxs(j.filter), j.pre,
			strings.Join(j.atoms, ","), strings.Join(htexts, ","), strings.Join(bits, ","))
		// third field: the rows the store's filtered id cursor (Store.IterateIds over the typed predicate) yields (c12w9.go)
		j.implLine = fmt.Sprintf("N %s %s %s", db.rowBits(q), strings.Join(hexIds, ","), c12w9IterBits(db, q))
	}
	stats["n_atoms"] = len(atomBits)
	stats["n_distinct_atom_valuations"] = len(distinct)
	return nil
}
