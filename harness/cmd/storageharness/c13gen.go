package main

import (
	"encoding/binary"
	"fmt"
	"math"
	"strconv"
	"strings"
)

// Generators of the C13 cases: boundary tables, bounded-exhaustive small spaces, seeded random
// values (arbitrary byte strings, any time zone, nesting depth <= 4), field-checker subsets,
// crafted raw buckets and malformed compound keys.

type c13Gen struct {
	r     *rng
	r2    *rng // draws the representation of the checkers only (c13r.go): the stream of r is what it was
	stats map[string]int
	sink  func(line string)
}

func (g *c13Gen) emit(format string, a ...interface{}) {
	g.sink(fmt.Sprintf(format, a...))
}

func (g *c13Gen) bytesN(n int) []byte {
	b := make([]byte, n)
	for i := range b {
		b[i] = byte(g.r.next())
	}
	return b
}

var c13StringTable = [][]byte{
	{}, []byte("a"), {0}, {0xff}, {7}, {5}, {1, 1}, []byte("hello world"), []byte("caf\xc3\xa9"), {0xc3, 0x28}, // invalid UTF-8
	[]byte("true"), []byte("123"), []byte(c13Marker), {2, 0, 0, 0, 0}, []byte("a\x00b"), []byte(" "),
}

func (g *c13Gen) str() []byte {
	switch k := g.r.intn(100); {
	case k < 35:
		return c13StringTable[g.r.intn(len(c13StringTable))]
	case k < 85:
		return g.bytesN(1 + g.r.intn(12))
	case k < 97:
		return g.bytesN(13 + g.r.intn(200))
	default:
		return g.bytesN(1000 + g.r.intn(3000))
	}
}

var c13Int32Table = []int64{0, 1, -1, math.MinInt32, math.MaxInt32, 255, 256, -256, 65535, 65536, -65536, 127, 128, -128, 0x01020304, -0x01020304}
var c13Int64Table = []int64{0, 1, -1, math.MinInt64, math.MaxInt64, math.MaxInt32 + 1, math.MinInt32 - 1, 1 << 53, 1<<53 + 1, -(1 << 53) - 1,
	255, 256, 0x0102030405060708, -0x0102030405060708, 1 << 32, 1 << 62, -(1 << 62)}
var c13FloatTable = []uint64{0, 0x8000000000000000, 0x3ff0000000000000, 0xbff0000000000000, 0x7ff0000000000000, 0xfff0000000000000,
	0x7ff8000000000000, 0x7ff0000000000001, 0x7ff8000000000001, 0xfff8000000000000, 0xffffffffffffffff, 0x7fffffffffffffff, 1, 0x000fffffffffffff,
	0x0010000000000000, 0x7fefffffffffffff, 0x400921fb54442d18, 0x0102030405060708, 0x3fb999999999999a, 0x4340000000000000, 0x4340000000000001}
var c13AbsSecTable = []int64{0, 1, -1, c13UnixToInternal, c13UnixToInternal - 1, c13UnixToInternal + 1, math.MinInt64, math.MaxInt64,
	c13UnixToInternal + (1 << 31), c13UnixToInternal + (1 << 31) - 1, c13UnixToInternal + 253402300799, c13UnixToInternal + 253402300800,
	c13UnixToInternal + 1700000000, c13UnixToInternal - 2208988800, 1 << 56, -(1 << 56), 0x0102030405060708, c13UnixToInternal + (1 << 33), 59453308800 /* 1885, the wall-clock epoch */}
var c13NsecTable = []int64{0, 1, 999999999, 500000000, 123456789, 1000, 999999000, 0x01020304 % 1000000000}
var c13ZoneTable = []string{"u", "l", "z0", "z3600", "z-3600", "z19800", "z20700", "z-12600", "z1", "z-1", "z59", "z-59", "z50400", "z-43200", "z86399", "z-86399", "z12345", "z-60", "z-119", "z60", "z1966080", "z-1966140", "n0", "n1", "n2", "n3", "n4"}

func (g *c13Gen) i32() int64 {
	if g.r.chance(50) {
		return c13Int32Table[g.r.intn(len(c13Int32Table))]
	}
	return int64(int32(g.r.next()))
}

func (g *c13Gen) i64() int64 {
	switch k := g.r.intn(100); {
	case k < 45:
		return c13Int64Table[g.r.intn(len(c13Int64Table))]
	case k < 75:
		return int64(g.r.next())
	default:
		return int64(g.r.next()) >> uint(g.r.intn(64))
	}
}

func (g *c13Gen) f64() uint64 {
	switch k := g.r.intn(100); {
	case k < 45:
		return c13FloatTable[g.r.intn(len(c13FloatTable))]
	case k < 80:
		return g.r.next()
	default:
		return math.Float64bits(float64(int64(g.r.next())>>uint(g.r.intn(64))) / 8)
	}
}

// float64 bits of a float32 value (no NaN payloads: the float32<->float64 conversions may quiet them)
func (g *c13Gen) f32as64() uint64 {
	tbl := []uint32{0, 0x80000000, 0x3f800000, 0x7f800000, 0xff800000, 0x7fc00000, 1, 0x007fffff, 0x00800000, 0x7f7fffff, 0x3dcccccd}
	var b uint32
	if g.r.chance(50) {
		b = tbl[g.r.intn(len(tbl))]
	} else {
		b = uint32(g.r.next())
		if b&0x7f800000 == 0x7f800000 && b&0x007fffff != 0 {
			b = 0x7fc00000
		}
	}
	return math.Float64bits(float64(math.Float32frombits(b)))
}

func (g *c13Gen) tm() string {
	var sec int64
	switch k := g.r.intn(100); {
	case k < 40:
		sec = c13AbsSecTable[g.r.intn(len(c13AbsSecTable))]
	case k < 80:
		sec = c13UnixToInternal + int64(g.r.next()%4000000000) - 1000000000
	default:
		sec = int64(g.r.next())
	}
	var nsec int64
	if g.r.chance(50) {
		nsec = c13NsecTable[g.r.intn(len(c13NsecTable))]
	} else {
		nsec = int64(g.r.next() % 1000000000)
	}
	var zone string
	if g.r.chance(70) {
		zone = c13ZoneTable[g.r.intn(len(c13ZoneTable))]
	} else {
		zone = "z" + strconv.Itoa(g.r.intn(200000)-100000)
	}
	return fmt.Sprintf("%d %d %s", sec, nsec, zone)
}

var c13NamePool = [][]byte{[]byte("a"), []byte("b"), []byte("name"), []byte("tags"), []byte("x.y"), {0}, {5}, {7, 7}, []byte("createdAt"), {0xff, 0xfe}}

func (g *c13Gen) name() []byte {
	if g.r.chance(85) {
		return c13NamePool[g.r.intn(len(c13NamePool))]
	}
	return g.bytesN(1 + g.r.intn(20))
}

// a map key: mostly valid; rarely empty (rejected), the marker key (the stated guard), or long
func (g *c13Gen) mapKey(hostile bool) []byte {
	if hostile {
		switch g.r.intn(40) {
		case 0:
			return nil
		case 1:
			return []byte(c13Marker)
		case 2:
			if g.r.chance(10) {
				return g.bytesN(32768 + g.r.intn(2))
			}
		case 4:
			return binary.LittleEndian.AppendUint32([]byte{2}, uint32(g.r.intn(3)))
		}
	}
	if g.r.chance(70) {
		return c13NamePool[g.r.intn(len(c13NamePool))]
	}
	return g.bytesN(1 + g.r.intn(10))
}

func (g *c13Gen) scalarValue() string {
	switch g.r.intn(11) {
	case 0:
		return "n"
	case 1, 2:
		return "s " + hx(g.str())
	case 3:
		return fmt.Sprintf("i %d", g.i32())
	case 4:
		return fmt.Sprintf("l %d", g.i64())
	case 5:
		return fmt.Sprintf("I %d", g.i64())
	case 6:
		return fmt.Sprintf("f %016x", g.f64())
	case 7:
		return fmt.Sprintf("g %016x", g.f32as64())
	case 8:
		return fmt.Sprintf("b %d", g.r.intn(2))
	case 9:
		return "t " + g.tm()
	default:
		return "s " + hx(g.str())
	}
}

// mapBody renders  <count> (<key> <value>)*  with distinct keys
func (g *c13Gen) mapBody(depth int, hostile bool) string {
	n := g.r.intn(5)
	if g.r.chance(10) {
		n = 0
	}
	seen := map[string]bool{}
	var parts []string
	for i := 0; i < n; i++ {
		k := g.mapKey(hostile)
		if seen[string(k)] {
			continue
		}
		seen[string(k)] = true
		if string(k) == c13Marker {
			// under the reserved key an int32 is taken for a list size by the reader: keep it small,
			// the harness reads the bucket back in-process
			parts = append(parts, hx(k)+" "+g.r.pick([]string{"i 0", "i 1", "i 2", "i 3", "i -1", "i -2147483648", "s 78", "n", "l 2", "m 0", "b 1"}))
			continue
		}
		parts = append(parts, hx(k)+" "+g.value(depth-1, hostile))
	}
	return strconv.Itoa(len(parts)) + c13Join(parts)
}

func (g *c13Gen) listBody(depth int, hostile bool) string {
	n := g.r.intn(5)
	if g.r.chance(10) {
		n = 0
	}
	var parts []string
	for i := 0; i < n; i++ {
		parts = append(parts, g.value(depth-1, hostile))
	}
	return strconv.Itoa(len(parts)) + c13Join(parts)
}

func c13Join(parts []string) string {
	if len(parts) == 0 {
		return ""
	}
	return " " + strings.Join(parts, " ")
}

func (g *c13Gen) value(depth int, hostile bool) string {
	if depth <= 0 || g.r.chance(55) {
		if hostile && g.r.intn(60) == 0 {
			return fmt.Sprintf("x %d", g.r.intn(6))
		}
		return g.scalarValue()
	}
	switch g.r.intn(12) {
	case 0:
		return "M"
	case 1:
		return "A"
	case 2, 3, 4, 5, 6:
		return "m " + g.mapBody(depth, hostile)
	default:
		return "a " + g.listBody(depth, hostile)
	}
}

func (g *c13Gen) strList() string {
	n := g.r.intn(6)
	var parts []string
	pool := [][]byte{{}, []byte("a"), []byte("b"), []byte("ab"), {0}, {0xff}, {5}, []byte("a\x00")}
	for i := 0; i < n; i++ {
		switch k := g.r.intn(100); {
		case k < 50:
			parts = append(parts, hx(pool[g.r.intn(len(pool))]))
		case k < 99 || g.r.chance(80):
			parts = append(parts, hx(g.str()))
		default:
			parts = append(parts, hx(g.bytesN(32767+g.r.intn(2)))) // 32768: key too large with its type byte
		}
	}
	return strconv.Itoa(len(parts)) + c13Join(parts)
}

// one setter call on field name
func (g *c13Gen) op(name []byte, hostile bool) string {
	n := hx(name)
	switch g.r.intn(20) {
	case 0:
		return "nil " + n
	case 1, 2:
		return "str " + n + " " + hx(g.str())
	case 3:
		if g.r.chance(35) {
			return "strp " + n + " n"
		}
		return "strp " + n + " s " + hx(g.str())
	case 4:
		return fmt.Sprintf("bool %s %d", n, g.r.intn(2))
	case 5:
		return fmt.Sprintf("i32 %s %d", n, g.i32())
	case 6:
		return fmt.Sprintf("i64 %s %d", n, g.i64())
	case 7:
		return fmt.Sprintf("f64 %s %016x", n, g.f64())
	case 8:
		return "time " + n + " " + g.tm()
	case 9:
		if g.r.chance(35) {
			return "timep " + n + " n"
		}
		return "timep " + n + " t " + g.tm()
	case 10:
		return "gss " + n + " " + hx(g.str())
	case 11:
		return "req " + n + " " + hx(g.str())
	case 12, 13:
		return "slist " + n + " " + g.strList()
	case 14:
		return "gsl " + n + " " + g.strList()
	case 15, 16, 17:
		an := 1
		if g.r.chance(20) {
			an = 0
		}
		return fmt.Sprintf("map %s %d %s", n, an, g.mapBody(4, hostile))
	default:
		return "list " + n + " " + g.listBody(4, hostile)
	}
}

func (g *c13Gen) checker(pool [][]byte) string {
	switch k := g.r.intn(100); {
	case k < 20:
		return "*"
	case k < 85:
		var names []string
		for _, p := range pool {
			if g.r.chance(50) {
				names = append(names, hx(p))
			}
		}
		if g.r.chance(15) {
			names = append(names, hx(g.bytesN(3)))
		}
		return g.c13rRender(names)
	default:
		n := 1 + g.r.intn(2)
		var maps []string
		for i := 0; i < n; i++ {
			maps = append(maps, hx(pool[g.r.intn(len(pool))])+" "+hx(pool[g.r.intn(len(pool))]))
		}
		inner := g.checker(pool)
		if g.r2 != nil && g.r2.chance(8) {
			return "on " + inner // a nil mappings map
		}
		return "o " + strconv.Itoa(n) + c13Join(maps) + " " + inner
	}
}

func (g *c13Gen) api() string {
	if g.r.chance(40) {
		return "c"
	}
	return "b"
}

var c13Absent = []byte("zz-absent")

func c13ReadSet(names [][]byte) string {
	seen := map[string]bool{}
	var parts []string
	for _, n := range append(names, c13Absent) {
		if !seen[string(n)] {
			seen[string(n)] = true
			parts = append(parts, hx(n))
		}
	}
	return "R " + strconv.Itoa(len(parts)) + c13Join(parts)
}

// single-op scenario on an empty bucket
func (g *c13Gen) single(op string, name []byte) {
	g.emit("S D 0 1 P %s * 1 %s %s", g.api(), op, c13ReadSet([][]byte{name}))
	g.stats["single_op"]++
}

func (g *c13Gen) boundaryScenarios() {
	a := []byte("a")
	g.single("nil 61", a)
	g.single("strp 61 n", a)
	g.single("timep 61 n", a)
	for _, s := range c13StringTable {
		g.single("str 61 "+hx(s), a)
		g.single("strp 61 s "+hx(s), a)
		g.single("gss 61 "+hx(s), a)
		g.single("req 61 "+hx(s), a)
		g.single("map 61 1 1 6b s "+hx(s), a)
		g.single("list 61 1 s "+hx(s), a)
		g.single("slist 61 1 "+hx(s), a)
		g.single("str "+hx(s)+" 78", s) // as a field name
	}
	for _, n := range []int{32766, 32767, 32768, 32769, 40000} {
		s := g.bytesN(n)
		g.single("str 61 "+hx(s), a)
		g.single("str "+hx(s)+" 78", s)
		g.single("slist 61 2 "+hx(s)+" 61", a)
		g.single("map 61 1 1 "+hx(s)+" b 1", a)
	}
	for _, v := range c13Int32Table {
		g.single(fmt.Sprintf("i32 61 %d", v), a)
		g.single(fmt.Sprintf("map 61 1 1 6b i %d", v), a)
		g.single(fmt.Sprintf("list 61 2 n i %d", v), a)
	}
	for _, v := range c13Int64Table {
		g.single(fmt.Sprintf("i64 61 %d", v), a)
		g.single(fmt.Sprintf("map 61 1 2 6b l %d 6c I %d", v, v), a)
	}
	for _, v := range c13FloatTable {
		g.single(fmt.Sprintf("f64 61 %016x", v), a)
		g.single(fmt.Sprintf("map 61 1 1 6b f %016x", v), a)
	}
	for _, v := range []int{0, 1} {
		g.single(fmt.Sprintf("bool 61 %d", v), a)
		g.single(fmt.Sprintf("list 61 1 b %d", v), a)
	}
	for i, sec := range c13AbsSecTable {
		for j, ns := range c13NsecTable {
			zone := c13ZoneTable[(i*len(c13NsecTable)+j)%len(c13ZoneTable)]
			tm := fmt.Sprintf("%d %d %s", sec, ns, zone)
			switch (i + j) % 3 {
			case 0:
				g.single("time 61 "+tm, a)
			case 1:
				g.single("timep 61 t "+tm, a)
			default:
				g.single("map 61 1 1 6b t "+tm, a)
			}
		}
	}
	for _, z := range c13ZoneTable {
		g.single(fmt.Sprintf("time 61 %d 999999999 %s", c13UnixToInternal+1700000000, z), a)
	}
	// empty containers, nils inside containers, typed nil containers, unsupported types
	for _, v := range []string{"map 61 1 0", "map 61 0 0", "list 61 0", "slist 61 0", "map 61 1 1 6b m 0", "map 61 1 1 6b a 0", "list 61 1 m 0", "list 61 1 a 0",
		"map 61 1 2 6b n 6c M", "list 61 3 n A n", "map 61 0 1 6b m 0", "map 61 0 1 6b a 0", "map 61 0 2 6b n 6c s 78",
		"map 61 1 1 6b x 0", "map 61 1 1 6b x 1", "map 61 1 1 6b x 2", "list 61 1 x 3", "list 61 1 x 4", "map 61 1 1 6b x 5",
		"map 61 1 1 - s 78", "map 61 1 1 " + hxs(c13Marker) + " i 2", "map 61 1 1 " + hxs(c13Marker) + " s 78", "map 61 1 1 " + hxs(c13Marker) + " i -1",
		"map 61 1 2 0200000000 s 78 " + hxs(c13Marker) + " i 1",
		"map 61 1 1 6b m 1 " + hxs(c13Marker) + " i 2", "list 61 1 m 1 " + hxs(c13Marker) + " i 0", "map 61 1 1 6b m 1 " + hxs(c13Marker) + " s 78",
		"map 61 1 1 6b m 2 0200000000 b 1 " + hxs(c13Marker) + " i 1",
		"slist 61 4 62 61 62 - ", "slist 61 3 - - -", "list 61 2 a 1 a 1 a 1 a 0 m 1 6b m 1 6b m 1 6b m 0"} {
		g.single(strings.TrimSpace(v), a)
	}
}

// all 16 checker subsets over four fields, on an initial state holding all four
func (g *c13Gen) checkerSubsets() {
	names := [][]byte{[]byte("a"), []byte("b"), []byte("c"), []byte("d")}
	for round := 0; round < 2; round++ {
		init := fmt.Sprintf("4 str 61 %s i64 62 %d slist 63 %s map 64 1 %s", hx(g.str()), g.i64(), g.strList(), g.mapBody(2, false))
		upd := fmt.Sprintf("4 str 61 %s i64 62 %d slist 63 %s map 64 1 %s", hx(g.str()), g.i64(), g.strList(), g.mapBody(2, false))
		for mask := 0; mask < 16; mask++ {
			var sel []string
			for i, n := range names {
				if mask&(1<<i) != 0 {
					sel = append(sel, hx(n))
				}
			}
			g.emit("S D 0 2 P b * %s P %s c %d%s %s %s", init, g.api(), len(sel), c13Join(sel), upd, c13ReadSet(names))
			g.stats["checker_subset"]++
		}
	}
}

func (g *c13Gen) randomScenario(hostile bool) {
	pool := [][]byte{g.name(), g.name(), g.name(), g.name()}
	nph := 1 + g.r.intn(3)
	var sb strings.Builder
	sb.WriteString("S ")
	if hostile && g.r.chance(50) {
		sb.WriteString(g.rawDump(2, pool))
	} else {
		sb.WriteString("D 0")
	}
	sb.WriteString(" " + strconv.Itoa(nph))
	for ph := 0; ph < nph; ph++ {
		chk := "*"
		if ph > 0 || g.r.chance(30) {
			chk = g.checker(pool)
		}
		nops := 1 + g.r.intn(5)
		sb.WriteString(fmt.Sprintf(" P %s %s %d", g.api(), chk, nops))
		for i := 0; i < nops; i++ {
			sb.WriteString(" " + g.op(pool[g.r.intn(len(pool))], hostile))
		}
	}
	sb.WriteString(" " + c13ReadSet(pool))
	g.sink(sb.String())
	if hostile {
		g.stats["random_scenario_hostile"]++
	} else {
		g.stats["random_scenario"]++
	}
}

// typed payloads, well-formed and not (short values, wrong lengths, unknown tags)
func (g *c13Gen) rawLeaf() []byte {
	switch g.r.intn(16) {
	case 0:
		return nil
	case 1:
		return []byte{byte(1 + g.r.intn(8))} // tag only
	case 2:
		return []byte{1, byte(g.r.intn(3))}
	case 3:
		return append([]byte{2}, g.bytesN(4)...)
	case 4:
		return append([]byte{2}, g.bytesN(g.r.intn(9))...)
	case 5:
		return append([]byte{3}, g.bytesN(8)...)
	case 6:
		return append([]byte{3}, g.bytesN(g.r.intn(12))...)
	case 7:
		return append([]byte{4}, g.bytesN(8)...)
	case 8:
		return append([]byte{4}, g.bytesN(g.r.intn(12))...)
	case 9:
		return append([]byte{5}, g.str()...)
	case 10, 11:
		return append([]byte{6}, g.rawTime()...)
	case 12:
		return []byte{7}
	case 13:
		return append([]byte{7}, g.bytesN(1+g.r.intn(4))...)
	case 14:
		return append([]byte{byte(g.r.next())}, g.bytesN(g.r.intn(10))...)
	default:
		return g.bytesN(g.r.intn(12))
	}
}

// a time payload: valid version-1/2 encodings (nanoseconds < 10^9) in any zone, and broken ones
func (g *c13Gen) rawTime() []byte {
	ver := byte(1)
	k := g.r.intn(10)
	if k == 0 {
		ver = 2
	}
	b := []byte{ver}
	var sec int64
	if g.r.chance(50) {
		sec = c13AbsSecTable[g.r.intn(len(c13AbsSecTable))]
	} else {
		sec = int64(g.r.next())
	}
	b = binary.BigEndian.AppendUint64(b, uint64(sec))
	b = binary.BigEndian.AppendUint32(b, uint32(g.r.next()%1000000000))
	switch g.r.intn(3) {
	case 0:
		b = append(b, 0xff, 0xff)
	case 1:
		b = binary.BigEndian.AppendUint16(b, uint16(int16(g.r.intn(2000)-1000)))
	default:
		b = append(b, byte(g.r.next()), byte(g.r.next()))
	}
	if ver == 2 {
		b = append(b, byte(g.r.intn(60)))
	}
	switch k {
	case 1:
		b[0] = byte(g.r.intn(5)) // maybe unsupported version
	case 2:
		b = b[:g.r.intn(len(b))] // truncated
	case 3:
		b = append(b, byte(g.r.next())) // too long (or a version-1 of length 16)
	}
	return b
}

// a crafted bucket: leaves with arbitrary payloads, sub-buckets, list markers of all kinds
func (g *c13Gen) rawDump(depth int, pool [][]byte) string {
	n := g.r.intn(5)
	type ent struct {
		k []byte
		v string
	}
	seen := map[string]bool{}
	var ents []ent
	add := func(k []byte, v string) {
		if len(k) == 0 || seen[string(k)] {
			return
		}
		seen[string(k)] = true
		ents = append(ents, ent{k, v})
	}
	for i := 0; i < n; i++ {
		var k []byte
		switch g.r.intn(4) {
		case 0:
			k = binary.LittleEndian.AppendUint32([]byte{2}, uint32(g.r.intn(4)))
		case 1:
			k = append([]byte{5}, g.bytesN(g.r.intn(3))...)
		default:
			k = pool[g.r.intn(len(pool))]
		}
		if depth > 0 && g.r.chance(35) {
			add(k, g.rawDump(depth-1, pool))
		} else {
			add(k, "L "+hx(g.rawLeaf()))
		}
	}
	if g.r.chance(40) {
		// a size marker: plausible, negative, wrong type, wrong length, or a sub-bucket
		var v string
		switch g.r.intn(7) {
		case 0, 1, 2:
			v = "L " + hx(binary.LittleEndian.AppendUint32([]byte{2}, uint32(g.r.intn(6))))
		case 3:
			v = "L " + hx(binary.LittleEndian.AppendUint32([]byte{2}, uint32(int32(-1-g.r.intn(3)))))
		case 4:
			v = "L " + hx(append([]byte{3}, g.bytesN(8)...))
		case 5:
			v = "L " + hx(append([]byte{2}, g.bytesN(g.r.intn(4))...))
		default:
			v = "D 0"
		}
		add([]byte(c13Marker), v)
	}
	// the dump lists keys in ascending order, like the cursor does
	for i := 1; i < len(ents); i++ {
		for j := i; j > 0 && string(ents[j-1].k) > string(ents[j].k); j-- {
			ents[j-1], ents[j] = ents[j], ents[j-1]
		}
	}
	var parts []string
	for _, e := range ents {
		parts = append(parts, hx(e.k)+" "+e.v)
	}
	return "D " + strconv.Itoa(len(ents)) + c13Join(parts)
}

// ---- compound keys ---------------------------------------------------------------------------

func (g *c13Gen) keyComponent() []byte {
	switch k := g.r.intn(100); {
	case k < 25:
		return [][]byte{{}, []byte("a"), {0}, {1}, {1, 'a'}, {0x80}, {0xff}, []byte("id-1234")}[g.r.intn(8)]
	case k < 82:
		return g.bytesN(1 + g.r.intn(40))
	case k < 91:
		return g.bytesN([]int{126, 127, 128, 129, 255, 256, 4095, 4096}[g.r.intn(8)])
	case k < 94:
		return g.bytesN([]int{4097, 4098, 5000, 16383, 16384, 70000}[g.r.intn(6)])
	default:
		return g.bytesN(130 + g.r.intn(1000))
	}
}

func (g *c13Gen) emitK(l [][]byte) {
	var parts []string
	for _, c := range l {
		parts = append(parts, hx(c))
	}
	g.emit("K %d%s", len(l), c13Join(parts))
	g.stats["K"]++
}

func c13Uvarint(x uint64) []byte {
	return binary.AppendUvarint(nil, x)
}

func (g *c13Gen) compoundKeys(nRandom int) {
	// bounded-exhaustive: every list of <= 3 components over a prefix-ambiguous alphabet
	alpha := [][]byte{{}, {0}, {1}, {1, 0}, {0, 1}, {2, 1, 0}}
	var rec func(prefix [][]byte)
	rec = func(prefix [][]byte) {
		g.emitK(prefix)
		if len(prefix) == 3 {
			return
		}
		for _, a := range alpha {
			rec(append(append([][]byte{}, prefix...), a))
		}
	}
	rec(nil)
	for _, n := range []int{127, 128, 129, 4095, 4096, 4097, 16383, 16384} {
		g.emitK([][]byte{g.bytesN(n)})
		g.emitK([][]byte{[]byte("a"), g.bytesN(n), []byte("b")})
	}
	for i := 0; i < nRandom; i++ {
		n := g.r.intn(6)
		var l [][]byte
		for j := 0; j < n; j++ {
			l = append(l, g.keyComponent())
		}
		g.emitK(l)
	}
	// malformed stream for the decoder
	var mal [][]byte
	add := func(b []byte) { mal = append(mal, b) }
	add(nil)
	add([]byte{0})
	add([]byte{1})
	add([]byte{0x80})
	add([]byte{0x80, 0x00})             // non-canonical zero
	add([]byte{0x81, 0x00, 'a'})        // non-canonical one
	add([]byte{0x80, 0x20})             // 4096, nothing follows
	add([]byte{0x81, 0x20})             // 4097
	add(append([]byte{0x80, 0x20}, make([]byte, 4096)...))
	add(append([]byte{0x80, 0x20}, make([]byte, 4095)...))
	add(append([]byte{0x81, 0x20}, make([]byte, 4097)...))
	for _, x := range []uint64{4097, 1 << 16, 1 << 31, 1<<31 - 1, 1 << 32, 1<<63 - 1, 1 << 63, 1<<63 + 1, math.MaxUint64, math.MaxUint64 - 4095, 1 << 40, 1 << 34} {
		add(c13Uvarint(x))
		add(append(c13Uvarint(x), 'a', 'b', 'c'))
		add(append([]byte{1, 'a'}, append(c13Uvarint(x), 'a')...))
	}
	add([]byte{0xff, 0xff, 0xff, 0xff, 0xff, 0xff, 0xff, 0xff, 0xff, 0x02})       // 64-bit overflow
	add([]byte{0xff, 0xff, 0xff, 0xff, 0xff, 0xff, 0xff, 0xff, 0xff, 0xff, 0x01}) // 11 bytes
	add([]byte{0x80, 0x80, 0x80, 0x80, 0x80, 0x80, 0x80, 0x80, 0x80, 0x00})
	add([]byte{0x80, 0x80, 0x80, 0x80, 0x80, 0x80, 0x80, 0x80, 0x80, 0x80, 0x80, 0x80})
	for i := 0; i < nRandom; i++ {
		switch g.r.intn(5) {
		case 0:
			add(g.bytesN(g.r.intn(20)))
		case 1: // a valid encoding, truncated
			var b []byte
			for j := g.r.intn(4); j >= 0; j-- {
				c := g.bytesN(g.r.intn(6))
				b = append(append(b, c13Uvarint(uint64(len(c)))...), c...)
			}
			add(b[:g.r.intn(len(b)+1)])
		case 2: // a valid encoding with junk after it
			c := g.bytesN(g.r.intn(200))
			b := append(c13Uvarint(uint64(len(c))), c...)
			add(append(b, g.bytesN(g.r.intn(4))...))
		case 3: // low bytes only: mostly short components
			b := g.bytesN(g.r.intn(30))
			for k := range b {
				b[k] &= 0x07
			}
			add(b)
		default: // a random varint head followed by random bytes
			add(append(c13Uvarint(g.r.next()>>uint(g.r.intn(64))), g.bytesN(g.r.intn(300))...))
		}
	}
	for _, b := range mal {
		g.emit("D %s", hx(b))
		g.emit("N %s", hx(b))
		g.stats["D"]++
		g.stats["N"]++
	}
	// the varint primitives themselves
	for _, x := range []uint64{0, 1, 127, 128, 129, 255, 256, 16383, 16384, 4096, 1<<21 - 1, 1 << 21, 1<<28 - 1, 1 << 28, 1 << 32, 1<<35 - 1, 1 << 35, 1 << 42, 1 << 49, 1 << 56, 1<<56 - 1, 1<<63 - 1, 1 << 63, math.MaxUint64, math.MaxUint64 - 1} {
		g.emit("V %016x", x)
		g.emit("U %s", hx(c13Uvarint(x)))
		g.emit("U %s", hx(append(c13Uvarint(x), 0x80, 1)))
		g.stats["V"]++
		g.stats["U"] += 2
	}
	for i := 0; i < nRandom/4; i++ {
		x := g.r.next() >> uint(g.r.intn(64))
		g.emit("V %016x", x)
		g.emit("U %s", hx(append(c13Uvarint(x), g.bytesN(g.r.intn(3))...)))
		b := g.bytesN(g.r.intn(13))
		if g.r.chance(50) {
			for k := range b {
				b[k] |= 0x80
			}
		}
		g.emit("U %s", hx(b))
		g.stats["V"]++
		g.stats["U"] += 2
	}
}

func (g *c13Gen) fieldToCases(n int) {
	for tag := 0; tag <= 9; tag++ {
		g.emit("T %s", hx([]byte{byte(tag)}))
		for _, l := range []int{1, 2, 3, 4, 5, 7, 8, 9, 14, 15, 16, 17} {
			g.emit("T %s", hx(append([]byte{byte(tag)}, g.bytesN(l)...)))
			g.stats["T"]++
		}
	}
	g.emit("T -")
	for i := 0; i < n; i++ {
		g.emit("T %s", hx(g.rawLeaf()))
		g.stats["T"]++
	}
}

func c13Generate(o *opts, stats map[string]int, sink func(line string)) {
	g := &c13Gen{r: newRng(o.seed), r2: newRng(o.seed ^ 0x63313372), stats: stats, sink: sink}
	nScen, nHostile, nKeys, nT := 3200, 700, 600, 800
	if o.thorough() {
		nScen, nHostile, nKeys, nT = 150000, 30000, 30000, 30000
	}
	if o.n > 0 {
		nScen, nHostile, nKeys, nT = o.n, o.n/4, o.n/4, o.n/4
	}
	g.c13rBoundary() // draws nothing from the generators
	g.boundaryScenarios()
	g.checkerSubsets()
	for i := 0; i < nScen; i++ {
		g.randomScenario(false)
	}
	for i := 0; i < nHostile; i++ {
		g.randomScenario(true)
	}
	g.compoundKeys(nKeys)
	g.fieldToCases(nT)
	// persists over store chains come last: the cases above keep their seeds
	nPersist, nPersistHostile := 1600, 300
	if o.thorough() {
		nPersist, nPersistHostile = 60000, 10000
	}
	if o.n > 0 {
		nPersist, nPersistHostile = o.n/2, o.n/8
	}
	g.c13xGenerate(nPersist, nPersistHostile)
}
