package main

import (
	"math"
)

func c01Float64frombits(b uint64) float64 { return math.Float64frombits(b) }

// c01Dotted: dotted (linked) symbols reachable from a store - fk chains (nonSetCompositeEntitySymbol), set
// chains (compositeEntitySetSymbol / stackedCursor), map elements of linked entities, ids of linked entities.
func c01Dotted(store int) []c01Sym {
	v := func(name string, ty byte) c01Sym { return c01Sym{name: name, ty: ty, linked: -1, ids: -1, whole: true} }
	vi := func(name string, ids int) c01Sym { return c01Sym{name: name, ty: 's', linked: -1, ids: ids, whole: true} }
	st := func(name string, ty byte, linked int) c01Sym {
		return c01Sym{name: name, ty: ty, set: true, linked: linked, ids: linked, whole: true}
	}
	switch store {
	case 0:
		return []c01Sym{
			v("place.name", 's'), v("place.pop", 'i'), vi("place.id", 1), v("place.open", 'b'), v("place.tags.a", 'a'), v("place.tags.n", 'a'),
			v("place.owner.name", 's'), v("place.org.name", 's'), v("place.owner.age", 'i'), v("place.org.size", 'i'),
			v("place.owner.place.name", 's'), vi("place.owner", 0), vi("place.org.id", 2), v("place.owner.born", 'd'), v("place.owner.flag", 'b'),
			st("places.name", 's', -1), st("places.id", 's', 1), st("places.pop", 'i', -1), st("places.biz", 's', -1), st("places.tags.a", 'a', -1),
			st("places.open", 'b', -1), st("places.org.name", 's', -1), st("places.owner.name", 's', -1), st("places.orgs.name", 's', -1),
			st("places.orgs.kinds", 's', -1), st("places.org", 's', 2), st("places.owner", 's', 0), st("place.biz", 's', -1), st("place.orgs.name", 's', -1),
			st("place.orgs", 's', 2), st("place.visitors.name", 's', -1), st("place.visitors", 's', 0), st("friends.name", 's', -1), st("friends.age", 'i', -1),
			st("friends.places.name", 's', -1), st("friends.places", 's', 1), st("friends.strs", 's', -1), st("friends.place.name", 's', -1),
			st("friends.place", 's', 1), st("friends.born", 'd', -1), st("friends.whole", 'f', -1), st("friends.friends", 's', 0),
			st("places.orgs", 's', 2), st("places.visitors", 's', 0), st("places.orgs.size", 'i', -1), st("friends.tags.b", 'a', -1),
			st("places.owner.age", 'i', -1),
		}
	case 1:
		return []c01Sym{
			v("owner.name", 's'), v("owner.age", 'i'), v("org.name", 's'), v("org.size", 'i'), v("owner.place.name", 's'), vi("owner.id", 0),
			v("owner.tags.a", 'a'), v("owner.flag", 'b'),
			st("orgs.name", 's', -1), st("orgs.kinds", 's', -1), st("visitors.name", 's', -1), st("visitors.age", 'i', -1), st("visitors.strs", 's', -1),
			st("visitors.places.name", 's', -1), st("visitors.place.name", 's', -1), st("visitors.places", 's', 1), st("visitors.friends", 's', 0),
			st("owner.places", 's', 1), st("owner.friends", 's', 0), st("owner.strs", 's', -1), st("visitors.place", 's', 1), st("owner.friends.name", 's', -1),
		}
	}
	return nil
}

// the sweep dataset: every scalar field null / non-null, every set with 0..3 elements (and absent)
func c01SweepDataset() *c01Dataset {
	d := &c01Dataset{stores: make([][]c01Entity, c01Roots)}
	strs := []string{"a", "ab", "b"}
	nums := []string{"15", "5", "7"}
	placeIds := []string{"l", "la", "zz"}
	friendIds := []string{"e0", "e1", "zz"}
	for i := 0; i < 8; i++ {
		e := c01Entity{id: "e" + c01Itoa(i)}
		add := func(v c01Val, path ...string) { e.fields = append(e.fields, c01Field{path: path, v: v}) }
		if i%2 == 0 {
			add(c01Val{k: 's', s: []string{"ab", "5", "Abc", "b"}[i/2]}, "name")
			add(c01Val{k: 's', s: []string{"5", "15", "x", "05"}[i/2]}, "nickname")
			add(c01Val{k: 'w', i: []int64{5, 15, -1, 0}[i/2]}, "age")
			add(c01Val{k: 'i', i: []int64{5, 9007199254740993, -1, 0}[i/2]}, "big")
			add(c01Val{k: 'f', f: []float64{5, 1.5, -1, math.NaN()}[i/2]}, "score")
			add(c01Val{k: 'f', f: []float64{5, 15, -3, 0}[i/2]}, "whole")
			add(c01Val{k: 'b', b: i%4 == 0}, "flag")
			add(c01Val{k: 't', sec: []int64{1600000000, 1600000001, 0, 1700000000}[i/2], ns: int64(i/2) % 2}, "born")
			add(c01Val{k: 'w', i: int64(i)}, "ext", "grp")
			add(c01Val{k: 's', s: placeIds[(i/2)%3]}, "place")
			add([]c01Val{{k: 's', s: "ab"}, {k: 'i', i: 5}, {k: 'b', b: true}, {k: 'f', f: 5}}[i/2], "ext", "tags", "a")
			add([]c01Val{{k: 'i', i: 5}, {k: 's', s: "ab"}, {k: 'n'}, {k: 's', s: "5"}}[i/2], "ext", "tags", "sub", "k")
		} else if i%4 == 1 {
			for _, k := range []string{"name", "nickname", "age", "big", "score", "whole", "flag", "born", "place"} {
				add(c01Val{k: 'n'}, k)
			}
			add(c01Val{k: 'n'}, "ext", "tags", "a")
		}
		n := i % 4
		if i != 7 {
			e.sets = append(e.sets, c01Set{key: "strs", elems: c01SortDedup(append([]string{}, strs[:n]...))})
			e.sets = append(e.sets, c01Set{key: "roles", elems: c01SortDedup(append([]string{}, strs[:n]...))})
			e.sets = append(e.sets, c01Set{key: "nums", elems: c01SortDedup(append([]string{}, nums[:n]...))})
			e.sets = append(e.sets, c01Set{key: "places", elems: c01SortDedup(append([]string{}, placeIds[:n]...))})
			e.sets = append(e.sets, c01Set{key: "friends", elems: c01SortDedup(append([]string{}, friendIds[:n]...))})
		}
		d.stores[0] = append(d.stores[0], e)
	}
	d.stores[1] = []c01Entity{
		{id: "l", fields: []c01Field{{path: []string{"name"}, v: c01Val{k: 's', s: "ab"}}, {path: []string{"pop"}, v: c01Val{k: 'i', i: 5}},
			{path: []string{"owner"}, v: c01Val{k: 's', s: "e0"}}, {path: []string{"org"}, v: c01Val{k: 's', s: "o"}},
			{path: []string{"tags", "a"}, v: c01Val{k: 's', s: "ab"}}, {path: []string{"tags", "n"}, v: c01Val{k: 'i', i: 5}}},
			sets: []c01Set{{key: "biz", elems: []string{"a", "b"}}, {key: "orgs", elems: []string{"o", "zz"}}, {key: "visitors", elems: []string{"e1", "e2"}}}},
		{id: "la", fields: []c01Field{{path: []string{"name"}, v: c01Val{k: 'n'}}, {path: []string{"owner"}, v: c01Val{k: 's', s: "zz"}}},
			sets: []c01Set{{key: "biz", elems: nil}}},
	}
	d.stores[2] = []c01Entity{
		{id: "o", fields: []c01Field{{path: []string{"name"}, v: c01Val{k: 's', s: "b"}}, {path: []string{"size"}, v: c01Val{k: 'w', i: 3}}},
			sets: []c01Set{{key: "kinds", elems: []string{"a"}}}},
	}
	return d
}

func c01SweepLits() []*c01Lit {
	return []*c01Lit{
		{k: 'S', s: "ab"}, {k: 'S', s: "5"}, {k: 'S', s: "B"},
		{k: 'I', i: 5}, {k: 'I', i: 0},
		{k: 'F', ftxt: "5.0"}, {k: 'F', ftxt: "1.5"},
		{k: 'D', sec: 1600000000, ns: 0, zone: 1},
		{k: 'B', b: true},
		{k: 'N'},
	}
}

type c01SweepLhs struct {
	lhs   *c01Lhs
	whole bool // string-mode comparisons with arbitrary float values possible
}

// c01SweepLhss: the left-hand sides of the sweep for the people store (store 0) or one of its child stores (own
// symbols and own map elements in addition; the parent's map under the name the child knows it by)
func c01SweepLhss(store int, dotted bool) []c01SweepLhs {
	sub := func(text *c01Filter) *c01Filter { return &c01Filter{k: "q", a: text} }
	one := int64(1)
	out := []c01SweepLhs{}
	tags := c01MapNameIn(store, "tags")
	for _, n := range []string{"id", "name", "nick", "nothing", "age", "big", "whole", "flag", "born", "grp", "place", tags + ".a", tags + ".zz", tags + ".sub.k"} {
		out = append(out, c01SweepLhs{lhs: &c01Lhs{k: "sym", name: n}, whole: true})
	}
	if c01Cur.raw[store].isChild {
		for _, s := range c01Cur.raw[store].syms {
			out = append(out, c01SweepLhs{lhs: &c01Lhs{k: "sym", name: s.name}, whole: true})
		}
		for _, m := range c01Cur.raw[store].maps {
			for _, k := range []string{"a", "zz", "sub.k"} {
				out = append(out, c01SweepLhs{lhs: &c01Lhs{k: "sym", name: m.name + "." + k}, whole: true})
			}
		}
		if tags != "tags" { // the name the parent registered the map under is unknown in the child store
			out = append(out, c01SweepLhs{lhs: &c01Lhs{k: "sym", name: "tags.a"}, whole: true})
		}
	}
	out = append(out, c01SweepLhs{lhs: &c01Lhs{k: "sym", name: "score"}})
	for _, n := range []string{"strs", "roles", "nums", "places", "friends"} {
		out = append(out, c01SweepLhs{lhs: &c01Lhs{k: "all", name: n}, whole: true})
		out = append(out, c01SweepLhs{lhs: &c01Lhs{k: "any", name: n}, whole: true})
	}
	out = append(out, c01SweepLhs{lhs: &c01Lhs{k: "cnt", name: "strs"}, whole: true})
	out = append(out, c01SweepLhs{lhs: &c01Lhs{k: "cnt", name: "places"}, whole: true})
	out = append(out, c01SweepLhs{lhs: &c01Lhs{k: "cntq", name: "places", sub: sub(&c01Filter{k: "bin", lhs: &c01Lhs{k: "sym", name: "name"}, op: "neq", lit: &c01Lit{k: 'N'}})}, whole: true})
	out = append(out, c01SweepLhs{lhs: &c01Lhs{k: "cntq", name: "friends", sub: &c01Filter{k: "q", a: &c01Filter{k: "bc", b: true}, skip: &one}}, whole: true})
	if dotted {
		for _, s := range c01Dotted(0) {
			if s.set {
				out = append(out, c01SweepLhs{lhs: &c01Lhs{k: "all", name: s.name}, whole: true})
				out = append(out, c01SweepLhs{lhs: &c01Lhs{k: "any", name: s.name}, whole: true})
				out = append(out, c01SweepLhs{lhs: &c01Lhs{k: "cnt", name: s.name}, whole: true})
			} else {
				out = append(out, c01SweepLhs{lhs: &c01Lhs{k: "sym", name: s.name}, whole: true})
			}
		}
	}
	return out
}

// c01Sweep: every (lhs shape, operator, literal kind) once over a dataset in which every field is null and
// non-null and every set has 0..3 elements
func c01Sweep(r *c01Runner, dotted bool) int {
	d := c01SweepDataset()
	if err := r.loadDataset(d); err != nil {
		panic(err)
	}
	return c01SweepStore(r, 0, dotted, false)
}

// c01SweepStore runs the sweep over the loaded sweep dataset through one store (people or a child store of it).
// reduced: the symbol-resolution part only (every lhs shape x three operators x three literal kinds, one array and
// one pair of bounds) - used for the schema variants, where the operator tables are the same code as in the base run
func c01SweepStore(r *c01Runner, store int, dotted bool, reduced bool) int {
	n := 0
	run := func(f *c01Filter) {
		r.runFilter(store, &c01Filter{k: "q", a: f})
		n++
	}
	ops := append(append([]string{}, c01CmpOps...), c01StrOps...)
	lits := c01SweepLits()
	if reduced {
		ops = []string{"eq", "neq", "gte", "contains"}
		lits = []*c01Lit{{k: 'S', s: "ab"}, {k: 'I', i: 5}, {k: 'N'}}
	}
	for _, l := range c01SweepLhss(store, dotted) {
		for _, op := range ops {
			for _, lit := range lits {
				run(&c01Filter{k: "bin", lhs: l.lhs, op: op, lit: lit})
			}
		}
		arrs := []struct {
			k   string
			arr []*c01Lit
		}{
			{"AS", []*c01Lit{{k: 'S', s: "ab"}, {k: 'S', s: "5"}}},
			{"AN", []*c01Lit{{k: 'I', i: 5}, {k: 'I', i: 0}}},
			{"AN", []*c01Lit{{k: 'I', i: 15}, {k: 'F', ftxt: "5.0"}}},
			{"AD", []*c01Lit{{k: 'D', sec: 1600000000, ns: 0, zone: 2}, {k: 'D', sec: 0, ns: 0}}},
		}
		if reduced {
			arrs = arrs[:1]
		}
		for _, a := range arrs {
			for _, neg := range []bool{false, true} {
				run(&c01Filter{k: "in", lhs: l.lhs, neg: neg, arrK: a.k, arr: a.arr})
			}
		}
		bounds := [][2]*c01Lit{
			{{k: 'I', i: 0}, {k: 'I', i: 6}},
			{{k: 'F', ftxt: "1.5"}, {k: 'I', i: 15}},
			{{k: 'D', sec: 0, ns: 0}, {k: 'D', sec: 1600000001, ns: 0, zone: 1}},
		}
		if reduced {
			bounds = bounds[:1]
		}
		for _, b := range bounds {
			for _, neg := range []bool{false, true} {
				run(&c01Filter{k: "btw", lhs: l.lhs, neg: neg, lo: b[0], hi: b[1]})
			}
		}
	}
	// isEmpty over every set shape
	for _, nme := range []string{"strs", "roles", "places", "friends", "name"} {
		run(&c01Filter{k: "empty", name: nme})
	}
	run(&c01Filter{k: "emptyq", name: "places", sub: &c01Filter{k: "q", a: &c01Filter{k: "bin", lhs: &c01Lhs{k: "sym", name: "name"}, op: "eq", lit: &c01Lit{k: 'S', s: "ab"}}}})
	// the validator: set symbols outside set functions, also inside sub-queries
	run(&c01Filter{k: "bin", lhs: &c01Lhs{k: "sym", name: "strs"}, op: "eq", lit: &c01Lit{k: 'S', s: "a"}})
	run(&c01Filter{k: "emptyq", name: "places", sub: &c01Filter{k: "q", a: &c01Filter{k: "bin", lhs: &c01Lhs{k: "sym", name: "biz"}, op: "eq", lit: &c01Lit{k: 'S', s: "a"}}}})
	run(&c01Filter{k: "emptyq", name: "places", sub: &c01Filter{k: "q", a: &c01Filter{k: "bs", name: "biz"}}})
	if dotted {
		run(&c01Filter{k: "emptyq", name: "places", sub: &c01Filter{k: "q", a: &c01Filter{k: "bin", lhs: &c01Lhs{k: "sym", name: "orgs.name"}, op: "eq", lit: &c01Lit{k: 'S', s: "b"}}}})
		run(&c01Filter{k: "bin", lhs: &c01Lhs{k: "sym", name: "places.name"}, op: "eq", lit: &c01Lit{k: 'S', s: "ab"}})
	}
	run(&c01Filter{k: "emptyq", name: "name", sub: &c01Filter{k: "q", a: &c01Filter{k: "bc", b: true}}})
	run(&c01Filter{k: "emptyq", name: "strs", sub: &c01Filter{k: "q", a: &c01Filter{k: "bc", b: true}}})
	for _, nme := range []string{"flag", "name", c01MapNameIn(store, "tags") + ".a", "nothing", "unknown"} {
		run(&c01Filter{k: "bs", name: nme})
	}
	return n
}
