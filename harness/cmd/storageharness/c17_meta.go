package main

import (
	"errors"
	"fmt"
	"regexp"
	"sort"
	"strconv"
	"strings"
	"sync/atomic"

	"github.com/openziti/storage/boltz"
	"go.etcd.io/bbolt"
)

// C17 - readers of database-level metadata while a restore is under way (model: coq/theories/Db/RestoreMeta.v).
//
// Additional operations of a history:
//
//	restorec <k> <flavour> <len> <eofd> <failAt|-> <failWd> <rest> <npre> <pre>... <ncb> { <at> <call> }...
//	    RestoreFromReader through a scripted reader (as "restorer") that CALLS BACK INTO THE DATABASE from
//	    inside Read: once it has handed out <at> bytes it makes <call> - i.e. while the snapshot is still
//	    streaming to disk.  Deterministic, no timing.  Calls placed behind the end of what the reader hands
//	    out (a failing reader) are never made.
//	call <call>
//	    the same call as an operation of its own.
//	call := s                      GetSnapshotId
//	      | t <d|i|f> ok <hex>     GetTimelineId(mode, idF returning the id)
//	      | t <d|i|f> err          GetTimelineId(mode, failing idF)
//	      | v                      Db.View over the whole content
//	      | st                     Db.Stats() around a read transaction of its own (the count of started read transactions moves by one)
//	      | dp                     GetDefaultSnapshotPath() (path of the database + "-" + date + "-" + time)
//
// Observation of the calls of a restorec: C[o1,o2,...] (C[-] when none was made), of a call: the bare o.
//
//	o := s:nil | s:<hex id> | s:err | t:<hex id>:<called> | t:err:<called> | v:<entries>:<fnv of the dump> | v:err | st:<n> | dp:<0|1>

type c17mCall struct {
	kind string // s t v st dp
	mode string // t: d i f
	ok   bool   // t: idF succeeds
	idf  []byte // t: what idF returns
}

type c17mCb struct {
	at   int
	call c17mCall
}

func (c c17mCall) tok() string {
	if c.kind != "t" {
		return c.kind
	}
	if !c.ok {
		return "t " + c.mode + " err"
	}
	return "t " + c.mode + " ok " + hx(c.idf)
}

func c17mCbsTok(cbs []c17mCb) string {
	parts := []string{strconv.Itoa(len(cbs))}
	for _, cb := range cbs {
		parts = append(parts, strconv.Itoa(cb.at), cb.call.tok())
	}
	return strings.Join(parts, " ")
}

func c17mParseCall(t *c17Toks) c17mCall {
	c := c17mCall{kind: t.next()}
	if c.kind == "t" {
		c.mode = t.next()
		if t.next() == "ok" {
			c.ok = true
			c.idf = unhx(t.next())
		}
	}
	return c
}

func c17mParseCbs(t *c17Toks) []c17mCb {
	var cbs []c17mCb
	for i, n := 0, t.int(); i < n; i++ {
		at := t.int()
		cbs = append(cbs, c17mCb{at: at, call: c17mParseCall(t)})
	}
	return cbs
}

var c17mStamp = regexp.MustCompile(`^-[0-9]{8}-[0-9]{6}$`)

// c17mDo makes one call on the database and reports what it answered
func (h *c17Run) c17mDo(c c17mCall) (obs string) {
	defer func() {
		if recover() != nil {
			obs = c.kind + ":err"
			if c.kind == "t" {
				obs = "t:err:0"
			}
		}
	}()
	switch c.kind {
	case "s":
		id, err := h.db.GetSnapshotId()
		switch {
		case err != nil:
			return "s:err"
		case id == nil:
			return "s:nil"
		}
		name := *id
		h.mu.Lock()
		if n, ok := h.ids[name]; ok {
			name = n
		}
		h.mu.Unlock()
		return "s:" + hxs(name)
	case "t":
		m := map[string]boltz.TimelineMode{"d": boltz.TimelineModeDefault, "i": boltz.TimelineModeInitIfEmpty, "f": boltz.TimelineModeForceReset}[c.mode]
		called := 0
		id, err := h.db.GetTimelineId(m, func() (string, error) {
			called++
			atomic.AddInt64(&h.mcalls, 1)
			if !c.ok {
				return "", errors.New("idF failed")
			}
			return string(c.idf), nil
		})
		if err != nil {
			return fmt.Sprintf("t:err:%d", called)
		}
		return fmt.Sprintf("t:%s:%d", hxs(id), called)
	case "v":
		var seen []csEntry
		if err := h.db.View(func(tx *bbolt.Tx) error {
			seen = csWalk(tx)
			return nil
		}); err != nil {
			return "v:err"
		}
		h.mu.Lock()
		dump := c17Dump(seen, h.ids)
		h.mu.Unlock()
		return fmt.Sprintf("v:%d:%08x", len(seen), c17xFnv(dump))
	case "st":
		s0 := h.db.Stats()
		if err := h.db.View(func(tx *bbolt.Tx) error { return nil }); err != nil {
			return "st:err"
		}
		s1 := h.db.Stats()
		return fmt.Sprintf("st:%d", s1.TxN-s0.TxN)
	case "dp":
		p := h.db.GetDefaultSnapshotPath()
		if strings.HasPrefix(p, h.dbPath) && c17mStamp.MatchString(p[len(h.dbPath):]) {
			return "dp:1"
		}
		return "dp:0"
	}
	return c.kind + ":?"
}

func (h *c17Run) opCall(c c17mCall) {
	if h.dead {
		return
	}
	defer h.guard()
	obs := h.c17mDo(c)
	h.idfCalls += int(atomic.SwapInt64(&h.mcalls, 0))
	h.emit("call "+c.tok(), obs)
	h.stats["op_call_"+c.kind]++
}

// the calls made so far by the reader of the restore that is running
type c17mLog struct {
	obs []string
}

func (h *c17Run) c17mLogText() string {
	h.mu.Lock()
	defer h.mu.Unlock()
	if h.mlog == nil {
		return ""
	}
	if len(h.mlog.obs) == 0 {
		return " C[-]"
	}
	return " C[" + strings.Join(h.mlog.obs, ",") + "]"
}

func (h *c17Run) opRestoreReaderCb(k int, sc c17xScript, cbs []c17mCb) {
	if h.dead {
		return
	}
	sort.SliceStable(cbs, func(i, j int) bool { return cbs[i].at < cbs[j].at })
	if sc.flav == "f" || sc.flav == "b" { // a plain file / bytes.Reader cannot call anybody
		sc.flav = "r"
	}
	tok := func() string { return "restorec" + strings.TrimPrefix(sc.tok(k), "restorer") + " " + c17mCbsTok(cbs) }
	if k < 0 || k >= len(h.files) {
		h.emit(tok(), "nofile")
		return
	}
	sc.length = len(h.files[k])
	caseTok := tok()
	// present the reader in its flavour, with the hook that makes the calls
	rd := newC17xReader(h.files[k], sc)
	next := 0
	h.mu.Lock()
	h.mlog = &c17mLog{}
	log := h.mlog
	h.mu.Unlock()
	rd.hook = func(pos int) {
		for next < len(cbs) && cbs[next].at <= pos {
			o := h.c17mDo(cbs[next].call)
			next++
			h.mu.Lock()
			log.obs = append(log.obs, o)
			h.mu.Unlock()
		}
	}
	presented, cleanup, err := h.c17xPresentReader(rd, sc)
	if err != nil {
		h.emit(caseTok, "restore harness-error:"+hxs(err.Error()))
		return
	}
	h.doRestore(caseTok, sc.failing(), func() { h.db.RestoreFromReader(presented) })
	h.mu.Lock()
	h.mlog = nil
	h.mu.Unlock()
	if !h.dead {
		cleanup()
	}
	h.stats["op_restorec"]++
	h.stats["op_restorec_calls"] += next
	for _, cb := range cbs[:next] {
		h.stats["op_restorec_call_"+cb.call.kind]++
	}
	if sc.failing() {
		h.stats["op_restorec_failing"]++
	}
}

// ---- generators ----

func c17mGenCall(r *rng, pctSnapId int) c17mCall {
	if r.chance(pctSnapId) {
		return c17mCall{kind: "s"}
	}
	switch r.intn(10) {
	case 0, 1, 2, 3:
		mode := r.pick([]string{"d", "d", "i", "f"})
		if r.chance(15) {
			return c17mCall{kind: "t", mode: mode}
		}
		return c17mCall{kind: "t", mode: mode, ok: true, idf: []byte(r.pick([]string{"C1", "C2", ""}))}
	case 4, 5, 6:
		return c17mCall{kind: "v"}
	case 7, 8:
		return c17mCall{kind: "st"}
	}
	return c17mCall{kind: "dp"}
}

// positions: the very first read, early, in the middle, the last byte, the end (with EOF), behind the end
func c17mGenCbs(r *rng, length, n int) []c17mCb {
	var cbs []c17mCb
	for i := 0; i < n; i++ {
		ats := []int{0, 0, 1, 4096, 4097, length / 2, length - 1, length, length, length + 1}
		at := ats[r.intn(len(ats))]
		if r.chance(20) && length > 0 {
			at = r.intn(length)
		}
		if at < 0 {
			at = 0
		}
		cbs = append(cbs, c17mCb{at: at, call: c17mGenCall(r, 40)})
	}
	sort.SliceStable(cbs, func(i, j int) bool { return cbs[i].at < cbs[j].at })
	return cbs
}

func c17mGenScript(r *rng, length int) c17xScript {
	sc := c17xGenScript(r, length)
	if sc.flav == "f" || sc.flav == "b" {
		sc.flav = r.pick([]string{"r", "r", "w", "s", "u"})
	}
	return sc
}

func (h *c17Run) genRestoreCb(r *rng, k int) {
	h.opRestoreReaderCb(k, c17mGenScript(r, len(h.files[k])), c17mGenCbs(r, len(h.files[k]), 1+r.intn(4)))
}

// the same questions after the restore
func (h *c17Run) genCallsAfter(r *rng) {
	h.opSnapId()
	if r.chance(60) {
		m := r.pick([]string{"d", "i", "f"})
		h.opTimeline(m, true, []byte("M1"))
		if r.chance(60) {
			h.opTimeline(r.pick([]string{"d", "i"}), true, []byte("M2"))
		}
	}
	for i, n := 0, r.intn(3); i < n; i++ {
		h.opCall(c17mCall{kind: r.pick([]string{"v", "st", "dp", "s"})})
	}
	if r.chance(40) {
		h.opSnapId()
	}
}

// a database that was restored from a snapshot before (it carries a snapshot id, a timeline id ...); then
// several rounds: modify, snapshot, modify, restore one of the files through a reader that asks the
// database for its metadata while it streams, ask again afterwards
func (h *c17Run) genMetaSweep(r *rng) {
	for i, n := 0, 1+r.intn(2); i < n; i++ {
		if r.chance(50) {
			h.opStoreTx(r)
		} else {
			h.opTx(c17GenWops(r, 4), true)
		}
	}
	for i, n := 0, r.intn(3); i < n; i++ {
		h.genDbListener(r, 40)
	}
	h.genSnap(r)
	if len(h.files) == 0 {
		return
	}
	if r.chance(80) {
		h.genRestore(r, len(h.files)-1)
		if r.chance(50) {
			h.genTimeline(r)
		}
	}
	for round, n := 0, 2+r.intn(3); round < n && !h.dead; round++ {
		h.opTx(c17GenWops(r, 4), true)
		if r.chance(75) {
			h.genSnap(r)
		}
		if r.chance(50) {
			h.opTx(c17GenWops(r, 3), true)
		}
		k := len(h.files) - 1
		if r.chance(25) {
			k = r.intn(len(h.files))
		}
		h.genRestoreCb(r, k)
		h.genCallsAfter(r)
	}
}

// ---- racing mode "metadata": what the pollers may be told --------------------------------------------------

// c17mRaceIdOk: a poller asked GetSnapshotId; completed0 restores had returned when it asked, started1 had
// been started when it got the answer.  The answer must be the id of one of the snapshots restored by the
// restores completed0-1 .. started1-1 (or none, for the database before the first restore).
func c17mRaceIdOk(got *string, ids []string, completed0, started1 int64) bool {
	for j := completed0 - 1; j < started1; j++ {
		if j < 0 {
			if got == nil {
				return true
			}
			continue
		}
		if got != nil && *got == ids[int(j)%len(ids)] {
			return true
		}
	}
	return false
}

// ids handed out by the idF of the metadata pollers and of the restorer: "<who><restores started when idF ran>.<n>"
func c17mRaceStamp(id string) (int64, bool) {
	if len(id) < 2 || (id[0] != 'P' && id[0] != 'R') {
		return 0, false
	}
	dot := strings.IndexByte(id, '.')
	if dot < 0 {
		return 0, false
	}
	n, err := strconv.ParseInt(id[1:dot], 10, 64)
	return n, err == nil
}

func c17mRaceWhich(id string, ids []string) int {
	for i, x := range ids {
		if x == id {
			return i + 1
		}
	}
	return 0
}

var c17mRaceSeq int64

// one poll of a metadata poller (workers 1, 3, 5 of mode "metadata")
func c17mRacePoll(db *boltz.DbImpl, worker, n int, ids []string, started, completed *int64, report func(kind, what string)) {
	completed0 := atomic.LoadInt64(completed)
	switch {
	case worker == 1 || n%3 == 0:
		got, err := db.GetSnapshotId()
		started1 := atomic.LoadInt64(started)
		if err != nil {
			report("error", "GetSnapshotId racing a restore: "+err.Error())
			return
		}
		if !c17mRaceIdOk(got, ids, completed0, started1) {
			txt := "nil"
			if got != nil {
				txt = fmt.Sprintf("the id of snapshot %d", c17mRaceWhich(*got, ids))
			}
			report("metadata", fmt.Sprintf("snapid GetSnapshotId racing restores answered %s: %d restores had returned when it was asked, %d had been started when it answered - neither the old nor the new id",
				txt, completed0, started1))
		}
	case worker == 3:
		mode := []boltz.TimelineMode{boltz.TimelineModeDefault, boltz.TimelineModeInitIfEmpty, boltz.TimelineModeForceReset, boltz.TimelineModeDefault}[n%4]
		got, err := db.GetTimelineId(mode, func() (string, error) {
			return fmt.Sprintf("P%d.%d", atomic.LoadInt64(started), atomic.AddInt64(&c17mRaceSeq, 1)), nil
		})
		if err != nil {
			report("error", "GetTimelineId racing a restore: "+err.Error())
			return
		}
		// an id stored before the last completed restore began cannot be reported: that restore asked for a fresh one
		if stamp, ok := c17mRaceStamp(got); got != "" && (!ok || stamp < completed0) {
			report("metadata", fmt.Sprintf("timeline GetTimelineId racing restores answered %q, an id from before restore %d began, although %d restores had returned when it was asked", got, completed0, completed0))
		}
	default:
		s0 := db.Stats()
		if s0.TxN < 0 || s0.OpenTxN < 0 {
			report("error", fmt.Sprintf("Stats racing a restore: TxN=%d OpenTxN=%d", s0.TxN, s0.OpenTxN))
		}
	}
}

// the restorer, right after restore g returned: the timeline id must have been drawn after that restore began
func c17mRaceTimelineAfter(db *boltz.DbImpl, g int, started *int64, report func(kind, what string)) {
	got, err := db.GetTimelineId(boltz.TimelineModeDefault, func() (string, error) {
		return fmt.Sprintf("R%d.%d", atomic.LoadInt64(started), atomic.AddInt64(&c17mRaceSeq, 1)), nil
	})
	if err != nil {
		report("error", "GetTimelineId after a restore: "+err.Error())
		return
	}
	if stamp, ok := c17mRaceStamp(got); !ok || stamp < int64(g)+1 {
		report("metadata", fmt.Sprintf("timeline after restore %d returned GetTimelineId(default) answers %q, an id from before that restore began: the restored snapshot asks for a fresh one", g, got))
	}
}
