package main

import (
	"hash/fnv"
	"strings"

	"github.com/openziti/storage/ast"
	"github.com/openziti/storage/boltz"
	"go.etcd.io/bbolt"
)

// C10, cursor-provider part of "every query that parses can be evaluated against any dataset without panicking":
// Store.QueryWithCursorC evaluates a parsed query over the candidate ids that a caller-supplied ast.SetCursorProvider
// yields.  The candidate set is part of the dataset: it can be empty, hold one id, several, ids of entities that do not
// exist, and it is built by every provider the library offers -
//
//	IteratorMatchingAllOf / IteratorMatchingAnyOf (set index, value list)   every list of length 0..3 (thorough: 0..4)
//	                                                    over values with several rows / one row / an index bucket without
//	                                                    entries / no index bucket, on the string-set and the fk-set index
//	SetReadIndex.OpenValueCursor / OpenKeyCursor, ast.NewTreeSet(..).ToCursor() with 0..3 members,
//	ast.NewUnionSetCursor and ast.NewFilteredCursor over them (also over nil / empty cursors), ast.OpenEmptyCursor,
//	a provider that returns nil, the entities bucket cursor, GetRelatedEntitiesCursor, a stored id list
//
// over the roots all (indexes filled, with ids of missing entities), orphan (index buckets never created), hollow
// (index base buckets exist, no key) and void (no bucket at all).
//
// Typing name "cursors" (stream qcur: a small population of filters for every scanner: unsorted, id-sorted in both
// directions, sorted by fields, paged).  Verdict as for typing "store": V:<site>@QueryWithCursorC:<provider>@<root>,
// where root and provider are the smallest that panic (roots void < hollow < orphan < all, providers in matrix order).
// The store typing runs three providers of the matrix per filter as well (chosen by a hash of the filter text).

var c10CursorTyping = c10Typing{name: "cursors", store: true}

var c10cDeep bool // thorough tier: longer value lists

type c10cProv struct {
	name string
	p    ast.SetCursorProvider
}

// values of the string-set index (xss) and of the fk-set index (xks): absent twice, key bucket without entries, present
var c10cXssValues = []string{"nope", "gone", "hollowv", "z", "s"}
var c10cXksValues = []string{"nope", "hollowv", "zz-dangling", "s1-full"}

func c10cLists(alpha []string, maxLen int) [][]string {
	out := [][]string{{}}
	prev := [][]string{{}}
	for l := 1; l <= maxLen; l++ {
		var next [][]string
		for _, p := range prev {
			for _, a := range alpha {
				next = append(next, append(append([]string{}, p...), a))
			}
		}
		out = append(out, next...)
		prev = next
	}
	return out
}

func c10cShow(vals []string) string {
	q := make([]string, len(vals))
	for i, v := range vals {
		if v == "" {
			v = `""`
		}
		q[i] = v
	}
	return strings.Join(q, ",")
}

// c10cMatrix: every cursor provider over the stores of one root, smallest first
func c10cMatrix(fam *c10sFamily) []c10cProv {
	var out []c10cProv
	add := func(name string, p ast.SetCursorProvider) { out = append(out, c10cProv{name, p}) }
	m := fam.main
	ids := [][]byte{[]byte("m1-full"), []byte("a-missing"), []byte("m3-absent")}

	add("ast.OpenEmptyCursor", ast.OpenEmptyCursor)
	add("provider-returning-nil", func(*bbolt.Tx, bool) ast.SetCursor { return nil })
	add("ast.NewEmptyCursor", func(*bbolt.Tx, bool) ast.SetCursor { return ast.NewEmptyCursor() })
	for k := 0; k <= 3; k++ {
		k := k
		add("ast.NewTreeSet.ToCursor("+string(rune('0'+k))+"-ids)", func(_ *bbolt.Tx, fwd bool) ast.SetCursor {
			set := ast.NewTreeSet(fwd)
			for _, id := range ids[:k] {
				set.Add(id)
			}
			return set.ToCursor()
		})
	}
	add("EntitiesBucket.OpenCursor", func(tx *bbolt.Tx, fwd bool) ast.SetCursor {
		if b := m.GetEntitiesBucket(tx); b != nil {
			return b.OpenCursor(tx, fwd)
		}
		return nil
	})
	type idx struct {
		name   string
		index  boltz.SetReadIndex
		values []string
		maxLen int
	}
	idxs := []idx{{"xss", fam.idxXss, c10cXssValues, 3}, {"xks", fam.idxXks, c10cXksValues, 2}}
	if c10cDeep {
		idxs[0].maxLen, idxs[1].maxLen = 4, 3
	}
	// index value / key cursors
	for _, ix := range idxs {
		ix := ix
		add("SetReadIndex("+ix.name+").OpenKeyCursor", func(tx *bbolt.Tx, fwd bool) ast.SetCursor { return ix.index.OpenKeyCursor(tx, fwd) })
		for _, v := range append([]string{""}, ix.values...) {
			v := v
			add("SetReadIndex("+ix.name+").OpenValueCursor("+c10cShow([]string{v})+")", func(tx *bbolt.Tx, fwd bool) ast.SetCursor {
				return ix.index.OpenValueCursor(tx, []byte(v), fwd)
			})
		}
	}
	// the two iterator constructors of the store, every value list
	for l := 0; l <= idxs[0].maxLen; l++ {
		for _, ix := range idxs {
			if l > ix.maxLen {
				continue
			}
			alpha := ix.values
			if l <= 2 {
				alpha = append([]string{""}, alpha...)
			}
			for _, vals := range c10cLists(alpha, l) {
				if len(vals) != l {
					continue
				}
				// the constructor runs inside the provider call, so that a panic in it is observed like any other
				ix, vals := ix, vals
				add("IteratorMatchingAnyOf("+ix.name+":"+c10cShow(vals)+")", func(tx *bbolt.Tx, fwd bool) ast.SetCursor {
					return m.IteratorMatchingAnyOf(ix.index, vals)(tx, fwd)
				})
				add("IteratorMatchingAllOf("+ix.name+":"+c10cShow(vals)+")", func(tx *bbolt.Tx, fwd bool) ast.SetCursor {
					return m.IteratorMatchingAllOf(ix.index, vals)(tx, fwd)
				})
			}
		}
	}
	// combinators of package ast over index cursors, nil and empty cursors
	preds := []struct {
		name string
		f    func() func([]byte) bool
	}{
		{"all", func() func([]byte) bool { return func([]byte) bool { return true } }},
		{"none", func() func([]byte) bool { return func([]byte) bool { return false } }},
		{"every-other", func() func([]byte) bool {
			n := 0
			return func([]byte) bool { n++; return n%2 == 0 }
		}},
	}
	for _, pr := range preds {
		pr := pr
		add("ast.NewFilteredCursor(nil,"+pr.name+")", func(*bbolt.Tx, bool) ast.SetCursor { return ast.NewFilteredCursor(nil, pr.f()) })
		add("ast.NewFilteredCursor(ast.NewTreeSet.ToCursor(0-ids),"+pr.name+")", func(_ *bbolt.Tx, fwd bool) ast.SetCursor {
			return ast.NewFilteredCursor(ast.NewTreeSet(fwd).ToCursor(), pr.f())
		})
		for _, v := range c10cXssValues {
			v := v
			add("ast.NewFilteredCursor(SetReadIndex(xss).OpenValueCursor("+v+"),"+pr.name+")", func(tx *bbolt.Tx, fwd bool) ast.SetCursor {
				return ast.NewFilteredCursor(fam.idxXss.OpenValueCursor(tx, []byte(v), fwd), pr.f())
			})
		}
	}
	for _, v1 := range c10cXssValues {
		for _, v2 := range c10cXssValues {
			v1, v2 := v1, v2
			add("ast.NewUnionSetCursor(SetReadIndex(xss).OpenValueCursor("+v1+"),OpenValueCursor("+v2+"))", func(tx *bbolt.Tx, fwd bool) ast.SetCursor {
				return ast.NewUnionSetCursor(fam.idxXss.OpenValueCursor(tx, []byte(v1), fwd), fam.idxXss.OpenValueCursor(tx, []byte(v2), fwd), fwd)
			})
		}
	}
	add("ast.NewUnionSetCursor(ast.NewTreeSet.ToCursor(0-ids),ast.NewEmptyCursor)", func(_ *bbolt.Tx, fwd bool) ast.SetCursor {
		return ast.NewUnionSetCursor(ast.NewTreeSet(fwd).ToCursor(), ast.NewEmptyCursor(), fwd)
	})
	add("ast.NewUnionSetCursor(ast.NewEmptyCursor,ast.NewTreeSet.ToCursor(0-ids))", func(_ *bbolt.Tx, fwd bool) ast.SetCursor {
		return ast.NewUnionSetCursor(ast.NewEmptyCursor(), ast.NewTreeSet(fwd).ToCursor(), fwd)
	})
	add("ast.NewUnionSetCursor(ast.NewTreeSet.ToCursor(2-ids),ast.NewTreeSet.ToCursor(1-ids))", func(_ *bbolt.Tx, fwd bool) ast.SetCursor {
		a, b := ast.NewTreeSet(fwd), ast.NewTreeSet(fwd)
		a.Add(ids[0])
		a.Add(ids[2])
		b.Add(ids[1])
		return ast.NewUnionSetCursor(a.ToCursor(), b.ToCursor(), fwd)
	})
	// related-entity cursors (link bucket filled / never written / empty / no such entity) and a stored id list
	for _, subId := range []string{"s1-full", "s2-absent", "s3-nil", "zz-dangling"} {
		subId := subId
		add("subs.GetRelatedEntitiesCursor("+subId+",owners)", func(tx *bbolt.Tx, fwd bool) ast.SetCursor {
			return fam.sub.GetRelatedEntitiesCursor(tx, subId, "owners", fwd)
		})
	}
	for _, id := range []string{"m1-full", "m3-absent", "m4-nil", "m8-mistyped", "nope"} {
		id := id
		add("mains.GetRelatedEntitiesCursor("+id+",xms)", func(tx *bbolt.Tx, fwd bool) ast.SetCursor {
			return m.GetRelatedEntitiesCursor(tx, id, "xms", fwd)
		})
	}
	add("stored-id-list", func(tx *bbolt.Tx, fwd bool) ast.SetCursor {
		lb := boltz.Path(tx, "c10-all", "lists", "rows")
		if lb == nil {
			return nil
		}
		return lb.IterateStringListInDirection(fwd)
	})
	return out
}

// c10cWriteIndexes writes the set indexes of the main store the way setIndex.ProcessAfterUpdate lays them out
// (<root>/indexes/mains/<symbol>/<value>/ typed row ids); filled = with keys, otherwise the base buckets only
func c10cWriteIndexes(rb *boltz.TypedBucket, filled bool) {
	base := rb.GetOrCreatePath(boltz.IndexesBucket, "mains")
	xss := base.GetOrCreatePath("xss")
	xks := base.GetOrCreatePath("xks")
	if filled {
		put := func(ib *boltz.TypedBucket, value string, ids ...string) {
			vb := ib.GetOrCreateBucket(value)
			for _, id := range ids {
				vb.SetListEntry(boltz.TypeString, []byte(id))
			}
			if vb.HasError() {
				panic(vb.GetError())
			}
		}
		put(xss, "s", "m1-full", "m2-full", "m6-sets", "a-missing", "m3-absent")
		put(xss, "a", "m1-full", "m6-sets")
		put(xss, "m", "m6-sets", "m1-full")
		put(xss, "z", "m1-full")
		put(xss, "hollowv")
		put(xks, "s1-full", "m1-full", "m2-full", "m6-sets", "m8-mistyped")
		put(xks, "s2-absent", "m1-full", "m6-sets")
		put(xks, "zz-dangling", "m6-sets", "m7-dangling", "zz-dangling")
		put(xks, "hollowv")
	}
	for _, b := range []*boltz.TypedBucket{base, xss, xks} {
		if b.HasError() {
			panic(b.GetError())
		}
	}
}

// c10cPick: the providers of the matrix that the store typing runs for this filter
func c10cPick(root *c10sRoot, filter string) []c10cProv {
	h := fnv.New32a()
	_, _ = h.Write([]byte(filter))
	n := len(root.prov)
	k := int(h.Sum32() % uint32(n))
	return []c10cProv{root.prov[k], root.prov[(k+n/3)%n], root.prov[(k+2*n/3)%n]}
}

// c10cRunOne: QueryWithCursorC and a plain drain of the provider's cursor in both directions; site != "" if it panicked
func c10cRunOne(tx *bbolt.Tx, root *c10sRoot, pv c10cProv, query ast.Query) (site string) {
	defer func() {
		if r := recover(); r != nil {
			site = c10Site()
		}
	}()
	_, _, _ = root.fam.main.QueryWithCursorC(tx, pv.p, query)
	for _, fwd := range []bool{true, false} {
		if c := pv.p(tx, fwd); c != nil {
			for n := 0; c.IsValid() && n < 10000; n++ {
				_ = c.Current()
				c.Next()
			}
		}
	}
	return ""
}

// c10cVerdict: typing "cursors" - the whole provider matrix for one filter
func c10cVerdict(filter string) (verdict string) {
	env := c10sEnv()
	var query ast.Query
	func() {
		defer func() {
			if r := recover(); r != nil {
				verdict = "P:" + c10Site()
			}
		}()
		q, err := ast.Parse(env.roots[0].fam.main, filter)
		if err != nil {
			verdict = "E"
			return
		}
		query = q
	}()
	if verdict != "" {
		return verdict
	}
	if query == nil {
		return "P:nil-query"
	}
	// smallest root first
	for k := len(env.roots) - 1; k >= 0; k-- {
		root := env.roots[k]
		_ = env.db.View(func(tx *bbolt.Tx) error {
			for _, pv := range root.prov {
				if site := c10cRunOne(tx, root, pv, query); site != "" {
					verdict = "V:" + site + "@QueryWithCursorC:" + pv.name + "@" + root.name
					return nil
				}
			}
			return nil
		})
		if verdict != "" {
			return verdict
		}
	}
	return "ok"
}

// c10cFilters: the population of stream qcur - predicates of every kind x the clauses that select the scanner
func c10cFilters() []string {
	preds := []string{"", "true", "false", `xs = "s"`, "xi > 0", "not (xb = true)", `anyOf(xss) = "s"`, `allOf(xss) != "q"`, "count(xks) > 1", "isEmpty(xss)",
		"not isEmpty(from xks where a)", `anyOf(xk.xss) contains "a"`, "xk.s = null", `tags.k = "s"`, `anyOf(xms.xss) = "s" or xp < 3`}
	clauses := []string{"", "sort by xs", "sort by xi desc skip 1", "sort by id desc", "sort by id", "skip 1 limit 1", "limit none", "skip 3", "limit 0",
		"sort by xk.s, id desc limit 2", "sort by xd, xf desc, xb skip 2 limit 1", "sort by nosuch", "sort by xss"}
	var out []string
	for _, p := range preds {
		for _, c := range clauses {
			out = append(out, strings.TrimSpace(p+" "+c))
		}
	}
	return out
}
