package main

// C03: store FAMILIES - one parent store with several registered child stores, plain and Extended(), in every
// registration order - whose child stores own unique (and one: a set) indexes.
//
// BaseStore.DeleteById of the parent walks its childStoreStrategies in registration order and runs the delete
// constraints of every child store that finds the entity; an Extended() child store finds EVERY entity of the parent
// (FindById falls back to the parent bucket).  Which child stores run their constraints on a delete therefore depends
// on the number, kind and registration order of the siblings - an input the C03 stream did not have: its wirings had at
// most one child store per parent.  The wirings below vary exactly that (extended first / in the middle / last, two
// plain, three children), with unique indexes on every level, the parent's set index, a set index owned by a child
// store, and cascades that delete family entities from outside (through the parent store and through a child store).
// For the store machine these are ordinary schemas (children_of / children_delete / chain); Examples/C03Wirings.v holds
// them as printed by "storageharness store_c03f_coq" and checks wf_unique_b / wf_cunique_b / wf_setidx_b for every index.
//
// c03fFamilyHistory generates the histories that matter for them: an entity is created through one store of the family
// (each child store and the parent in turn), optionally updated, deleted through another store of the family (each in
// turn, also by a cascade from the owner store), and an entity with the SAME unique values and set members is created
// again - legal exactly when the delete took every index entry with it.

import (
	"fmt"
	"os"
	"path/filepath"
	"sort"
	"strings"
)

type c03fDecl struct {
	name  string
	shape string
	depth int
	slack int
}

var c03fWirings = []c03fDecl{
	{"c03famXP", "xp", 1, 0},
	{"c03famPX", "px", 1, 0},
	{"c03famPP", "pp", 2, 0},
	{"c03famXPP", "xpp", 1, 0},
	{"c03famPXP", "pxp", 3, 2},
	{"c03famPPX", "ppx", 1, 0},
	{"c03famXPs", "xps", 1, 0},
}

func init() {
	for _, d := range c03fWirings {
		d := d
		extraWirings[d.name] = func() *wiring { return c03fWiring(d.name) }
	}
	commands["store_c03f_coq"] = runC03fCoq
	commands["store_c03f_corpus"] = runC03fCorpus
}

// the stores the shapes are built from
//
//	p    parent: name (unique, not nullable), nick (nullable unique, symbol name != key), memo, string lists roles
//	     (set index) and skills (set index only in shape xps, owned by the child store pc)
//	px   Extended() child store: x (nullable unique)
//	pc   plain child store: k (nullable unique), code (unique, not nullable)
//	pd   plain child store: d (nullable unique)
//	o    owner store (shapes xpp, ppx): title (unique), string list labels (set index); p.owner -> o resp. pd.owner -> o
//	     are cascade-delete fk indexes: deleting an owner deletes family entities through the parent resp. a child store
func c03fStore(name string, extra ...sField) *sStore {
	switch name {
	case "p":
		return &sStore{Name: "p", Fields: append([]sField{{Name: "name"}, {Name: "nick", Ptr: true, Sym: "nickSym"}, {Name: "memo", Ptr: true}}, extra...),
			Sets: []string{"roles", "skills"}}
	case "px":
		return &sStore{Name: "px", Parent: "p", Ext: true, Fields: append([]sField{{Name: "x", Ptr: true}}, extra...)}
	case "pc":
		return &sStore{Name: "pc", Parent: "p", Fields: append([]sField{{Name: "k", Ptr: true}, {Name: "code"}}, extra...)}
	case "pd":
		return &sStore{Name: "pd", Parent: "p", Fields: append([]sField{{Name: "d", Ptr: true}}, extra...)}
	case "o":
		return &sStore{Name: "o", Fields: []sField{{Name: "title"}}, Sets: []string{"labels"}}
	}
	return nil
}

func c03fWiring(name string) *wiring {
	for _, d := range c03fWirings {
		if d.name != name {
			continue
		}
		u := func(store, field string, nullable bool) wiringDecl {
			return wiringDecl{Kind: "unique", Store: store, Field: field, Nullable: nullable}
		}
		si := func(store, field string) wiringDecl { return wiringDecl{Kind: "setidx", Store: store, Field: field} }
		var w *wiring
		switch d.shape {
		case "xp": // the extended child store is registered BEFORE the plain one; the child stores' indexes are declared first
			w = &wiring{Stores: []*sStore{c03fStore("p"), c03fStore("px"), c03fStore("pc")}, Script: []wiringDecl{
				u("pc", "k", true), u("pc", "code", false), u("px", "x", true),
				u("p", "name", false), si("p", "roles"), u("p", "nick", true),
			}}
		case "px": // the same family, the extended child store registered LAST
			w = &wiring{Stores: []*sStore{c03fStore("p"), c03fStore("pc"), c03fStore("px")}, Script: []wiringDecl{
				u("p", "name", false), u("pc", "k", true), si("p", "roles"), u("px", "x", true), u("pc", "code", false), u("p", "nick", true),
			}}
		case "pp": // two plain child stores
			w = &wiring{Stores: []*sStore{c03fStore("p"), c03fStore("pd"), c03fStore("pc")}, Script: []wiringDecl{
				si("p", "roles"), u("p", "name", false), u("p", "nick", true), u("pd", "d", true), u("pc", "code", false), u("pc", "k", true),
			}}
		case "xpp": // three child stores, the extended one first; family entities are cascade-deleted with their owner
			w = &wiring{Stores: []*sStore{c03fStore("o"), c03fStore("p", sField{Name: "owner"}), c03fStore("px"), c03fStore("pc"), c03fStore("pd")},
				Script: []wiringDecl{
					u("o", "title", false), si("o", "labels"),
					u("p", "name", false), {Kind: "fkindexcascade", Store: "p", Field: "owner", Target: "o", Back: "ps"}, si("p", "roles"), u("p", "nick", true),
					u("px", "x", true), u("pc", "k", true), u("pc", "code", false), u("pd", "d", true),
				}}
		case "pxp": // three child stores, the extended one in the middle
			w = &wiring{Stores: []*sStore{c03fStore("p"), c03fStore("pd"), c03fStore("px"), c03fStore("pc")}, Script: []wiringDecl{
				u("pd", "d", true), u("p", "nick", true), u("px", "x", true), si("p", "roles"), u("pc", "code", false), u("p", "name", false), u("pc", "k", true),
			}}
		case "ppx": // three child stores, the extended one last; the cascade from the owner runs through the child store pd
			w = &wiring{Stores: []*sStore{c03fStore("p"), c03fStore("o"), c03fStore("pc"), c03fStore("pd", sField{Name: "owner"}), c03fStore("px")},
				Script: []wiringDecl{
					u("p", "name", false), si("p", "roles"), u("p", "nick", true),
					u("pc", "k", true), u("pc", "code", false),
					u("pd", "d", true), {Kind: "fkindexcascade", Store: "pd", Field: "owner", Target: "o", Back: "pds"},
					u("px", "x", true), si("o", "labels"), u("o", "title", false),
				}}
		case "xps": // extended first; the plain child store owns a SET index (over the parent's string list skills) besides its unique indexes
			w = &wiring{Stores: []*sStore{c03fStore("p"), c03fStore("px"), c03fStore("pc")}, Script: []wiringDecl{
				u("p", "name", false), si("p", "roles"), u("px", "x", true), si("pc", "skills"), u("pc", "k", true), u("pc", "code", false), u("p", "nick", true),
			}}
		default:
			return nil
		}
		w.Name, w.Depth, w.Slack = d.name, d.depth, d.slack
		return w
	}
	return nil
}

// ---- the family histories --------------------------------------------------------------------------------------------

// c03fFamily: the parent store that has the most child stores, followed by its child stores in registration order
func c03fFamily(w *wiring) []string {
	best := []string{}
	for _, s := range w.Stores {
		if s.Parent != "" {
			continue
		}
		fam := []string{s.Name}
		for _, c := range w.Stores {
			if c.Parent == s.Name {
				fam = append(fam, c.Name)
			}
		}
		if len(fam) > len(best) {
			best = fam
		}
	}
	return best
}

// cloneCreate: a create of id through store that carries the field values and string lists of op (values for fields the
// target store does not declare are ignored by it; missing ones stay nil)
func c03fCloneCreate(op hOp, store, id string) hOp {
	n := hOp{Kind: "C", Store: store, Id: id, F: map[string]*string{}, S: map[string][]string{}}
	for k, v := range op.F {
		if v != nil {
			n.F[k] = sp(*v)
		}
	}
	for k, l := range op.S {
		n.S[k] = append([]string{}, l...)
	}
	return n
}

// c03fFillOwn gives a cloned create free values for the unique fields of its target store that the original did not
// carry (the entity was created through a store that does not declare them)
func (g *warmGen) c03fFillOwn(op *hOp) {
	for _, key := range g.uniqueFields(op.Store) {
		f := key[strings.Index(key, ".")+1:]
		if op.F[f] == nil {
			if v, ok := g.freeValue(key); ok {
				op.F[f] = sp(v)
			}
		}
	}
}

// c03fFamilyHistory: history number k of the systematic family stream.  k enumerates (store the entity is created
// through) x (store it is deleted through) over all stores of the family; the rest is drawn from the warm generator.
func (g *warmGen) c03fFamilyHistory(k int) []hTx {
	g.alive = map[string]map[string]bool{}
	g.sets = map[string]map[string]map[string][]string{}
	g.uniq = map[string]map[string]string{}
	g.inChild = map[string]map[string]bool{}
	for _, s := range g.w.Stores {
		if s.Parent == "" {
			g.alive[s.Name] = map[string]bool{}
		}
	}
	fam := c03fFamily(g.w)
	root := fam[0]
	through := fam[k%len(fam)]
	delThrough := fam[(k/len(fam))%len(fam)]
	variant := g.r.intn(4) // bit 0: an update between create and delete ; bit 1: the delete is a cascade from the owner (where there is one)
	var txs []hTx
	one := func(ops ...hOp) { txs = append(txs, hTx{Ops: ops}) }
	// owners (fk targets) first
	for _, s := range g.w.Stores {
		if s.Parent == "" && s.Name != root {
			for n := 1 + g.r.intn(2); n > 0; n-- {
				if op, ok := g.validCreate(s.Name); ok {
					one(op)
				}
			}
		}
	}
	// bystanders in the same family, through any of its stores
	for n := g.r.intn(3); n > 0; n-- {
		if op, ok := g.validCreate(fam[g.r.intn(len(fam))]); ok {
			one(op)
		}
	}
	subj, ok := g.validCreate(through)
	if !ok {
		return txs
	}
	for sn, l := range subj.S { // the subject always has set members (index rows to take away)
		if len(l) == 0 {
			subj.S[sn] = []string{"r", g.p.vals[g.r.intn(3)]}
			g.sets[root][subj.Id][sn] = append([]string{}, subj.S[sn]...)
		}
	}
	one(subj)
	cur := subj // what the subject is believed to hold
	if variant%2 == 1 {
		// index maintenance by an update between create and delete: a full update through the parent store or through the
		// store the entity lives in, with a new unique value for one field and a perturbed string list
		up := c03fCloneCreate(cur, through, cur.Id)
		up.Kind = "UP"
		if g.r.chance(50) {
			up.Store = root
		}
		keys := g.uniqueFields(through)
		if len(keys) > 0 {
			key := keys[g.r.intn(len(keys))]
			if v, ok := g.freeValue(key); ok {
				up.F[key[strings.Index(key, ".")+1:]] = sp(v)
			}
		}
		for sn := range up.S {
			if g.r.chance(60) {
				up.S[sn] = g.perturb(up.S[sn])
			}
		}
		g.noteUnique(&up)
		for sn, l := range up.S {
			g.sets[root][up.Id][sn] = append([]string{}, l...)
		}
		one(up)
		cur = up
	}
	forget := func(id string) {
		delete(g.alive[root], id)
		for _, m := range g.inChild {
			delete(m, id)
		}
		for _, m := range g.uniq {
			for v, holder := range m {
				if holder == id {
					delete(m, v)
				}
			}
		}
		delete(g.sets[root], id)
	}
	del := hOp{Kind: "D", Store: delThrough, Id: cur.Id}
	// a cascade from the owner instead of a direct delete, where the family hangs on an owner
	if variant%4 >= 2 {
		for _, d := range g.w.Script {
			if d.Kind == "fkindexcascade" && g.rootOf(d.Store) == root && (d.Store == root || d.Store == through) {
				if v := cur.F[d.Field]; v != nil && *v != "" {
					del = hOp{Kind: "D", Store: d.Target, Id: *v}
					// every other family entity of that owner goes with it
					delete(g.alive[g.rootOf(d.Target)], *v)
					for _, t := range txs {
						for _, op := range t.Ops {
							if op.Kind == "C" && g.rootOf(op.Store) == root && op.F[d.Field] != nil && *op.F[d.Field] == *v && op.Id != cur.Id {
								forget(op.Id)
							}
						}
					}
				}
			}
		}
	}
	forget(cur.Id)
	// the same values again: same id or a fresh one, through the same or any other store of the family
	id2 := cur.Id
	if g.r.chance(50) {
		for _, id := range g.ids {
			if !g.alive[root][id] && id != cur.Id {
				id2 = id
			}
		}
	}
	again := fam[g.r.intn(len(fam))]
	if g.r.chance(40) {
		again = through
	}
	re := c03fCloneCreate(cur, again, id2)
	g.c03fFillOwn(&re)
	if del.Store != delThrough {
		// the owner is gone with the cascade: the re-created entity needs another one
		for _, d := range g.w.Script {
			if d.Kind == "fkindexcascade" && g.rootOf(d.Store) == root {
				if al := g.aliveIds(g.rootOf(d.Target)); len(al) > 0 {
					re.F[d.Field] = sp(al[g.r.intn(len(al))])
				} else if op, ok := g.validCreate(d.Target); ok {
					one(op)
					re.F[d.Field] = sp(op.Id)
				}
			}
		}
	}
	if g.r.chance(15) {
		one(del, re) // delete and re-create inside one transaction
	} else {
		one(del)
		one(re)
	}
	g.alive[root][re.Id] = true
	if g.w.store(again).Parent != "" {
		if g.inChild[again] == nil {
			g.inChild[again] = map[string]bool{}
		}
		g.inChild[again][re.Id] = true
	}
	g.noteUnique(&re)
	g.sets[root][re.Id] = map[string][]string{}
	for sn, l := range re.S {
		g.sets[root][re.Id][sn] = append([]string{}, l...)
	}
	// and away again through yet another store, then a few warm operations on what is left
	if g.r.chance(70) {
		d2 := hOp{Kind: "D", Store: fam[g.r.intn(len(fam))], Id: re.Id}
		forget(re.Id)
		one(d2)
		if g.r.chance(60) {
			re2 := c03fCloneCreate(re, fam[g.r.intn(len(fam))], re.Id)
			g.c03fFillOwn(&re2)
			one(re2)
			g.alive[root][re2.Id] = true
			if g.w.store(re2.Store).Parent != "" {
				if g.inChild[re2.Store] == nil {
					g.inChild[re2.Store] = map[string]bool{}
				}
				g.inChild[re2.Store][re2.Id] = true
			}
			g.noteUnique(&re2)
			g.sets[root][re2.Id] = map[string][]string{}
			for sn, l := range re2.S {
				g.sets[root][re2.Id][sn] = append([]string{}, l...)
			}
		}
	}
	for n := g.r.intn(4); n > 0; n-- {
		txs = append(txs, hTx{Ops: []hOp{g.warmOp()}})
	}
	return txs
}

// ---- the schemas for Examples/C03Wirings.v ---------------------------------------------------------------------------

func c03fCoqName(s string) string {
	var parts []string
	for _, b := range []byte(s) {
		parts = append(parts, fmt.Sprint(int(b)))
	}
	return "[" + strings.Join(parts, ";") + "]"
}

// runC03fCoq prints the section of Examples/C03Wirings.v about the family wirings: names, one schema per wiring as
// derived by the wiring script, one wf_* example per index (checks/c03.py compares the file with this output)
func runC03fCoq(o *opts) error {
	fmt.Fprint(os.Stdout, c03fCoqText())
	return nil
}

// c03fWriteCoq leaves the same text next to the cases of a store_c03s run
func c03fWriteCoq(dir string) {
	_ = os.WriteFile(filepath.Join(dir, "c03f_wirings.v"), []byte(c03fCoqText()), 0o644)
}

func c03fCoqText() string {
	var ns []string
	for _, d := range c03fWirings {
		ns = append(ns, d.name)
	}
	return c03fCoqTextFor(ns, "fm_")
}

// c03fCoqTextFor: the same text for any list of wirings; pre is the prefix of the name definitions (one per section of the file)
func c03fCoqTextFor(wnames []string, pre string) string {
	var sb strings.Builder
	names := map[string]bool{}
	var ws []*wiring
	for _, wn := range wnames {
		w := wiringByName(wn)
		w.derive()
		ws = append(ws, w)
		for _, s := range w.Stores {
			names[s.Name] = true
			for _, f := range s.Fields {
				names[f.Name] = true
			}
			for _, x := range s.Sets {
				names[x] = true
			}
			for _, c := range s.Cons {
				for _, x := range []string{c.Field, c.Target, c.Back} {
					if x != "" {
						names[x] = true
					}
				}
			}
		}
	}
	var ns []string
	for n := range names {
		ns = append(ns, n)
	}
	sort.Strings(ns)
	for _, n := range ns {
		fmt.Fprintf(&sb, "Definition "+pre+"%s : name := %s.\n", n, c03fCoqName(n))
	}
	sb.WriteString("\n")
	b := func(x bool) string {
		if x {
			return "true"
		}
		return "false"
	}
	for _, w := range ws {
		fmt.Fprintf(&sb, "Definition %s_schema : schema :=\n  [ ", w.Name)
		for k, s := range w.Stores {
			if k > 0 {
				sb.WriteString(";\n    ")
			}
			parent := "None"
			if s.Parent != "" {
				parent = "(Some " + pre + s.Parent + ")"
			}
			var fs, ss, cs, ls []string
			for _, f := range s.Fields {
				fs = append(fs, fmt.Sprintf("("+pre+"%s, %s)", f.Name, b(f.Ptr)))
			}
			for _, x := range s.Sets {
				ss = append(ss, pre+x)
			}
			for _, c := range s.Cons {
				switch c.Kind {
				case "U":
					cs = append(cs, fmt.Sprintf("CUnique "+pre+"%s %s", c.Field, b(c.Flag)))
				case "SI":
					cs = append(cs, "CSetIdx "+pre+c.Field)
				case "FI":
					cs = append(cs, fmt.Sprintf("CFkIndex "+pre+"%s "+pre+"%s "+pre+"%s %s", c.Field, c.Target, c.Back, b(c.Flag)))
				case "FR":
					cs = append(cs, "CFkRestrict "+pre+c.Back)
				case "FC":
					cs = append(cs, fmt.Sprintf("CFkCons "+pre+"%s "+pre+"%s %s", c.Field, c.Target, b(c.Flag)))
				case "CA":
					casc := "CascNone"
					if c.Casc == "D" {
						casc = "CascDelete"
					}
					cs = append(cs, fmt.Sprintf("CFkCascade "+pre+"%s "+pre+"%s %s", c.Target, c.Field, casc))
				case "SY":
					cs = append(cs, "CSystem")
				}
			}
			for _, l := range s.Links {
				ls = append(ls, fmt.Sprintf("("+pre+"%s, "+pre+"%s, "+pre+"%s)", l.Local, l.Other, l.OtherField))
			}
			fmt.Fprintf(&sb, "mkSdef "+pre+"%s %s %s [%s] [%s]\n      [%s] [%s]", s.Name, parent, b(s.Ext),
				strings.Join(fs, "; "), strings.Join(ss, "; "), strings.Join(cs, "; "), strings.Join(ls, "; "))
		}
		sb.WriteString(" ].\n")
		for _, s := range w.Stores {
			for _, c := range s.Cons {
				switch {
				case c.Kind == "U" && s.Parent == "":
					fmt.Fprintf(&sb, "Example %s_wf_unique_%s_%s : wf_unique_b %s_schema "+pre+"%s "+pre+"%s = true.\nProof. vm_compute. reflexivity. Qed.\n",
						w.Name, s.Name, c.Field, w.Name, s.Name, c.Field)
				case c.Kind == "U":
					fmt.Fprintf(&sb, "Example %s_wf_cunique_%s_%s : wf_cunique_b %s_schema "+pre+"%s "+pre+"%s = true.\nProof. vm_compute. reflexivity. Qed.\n",
						w.Name, s.Name, c.Field, w.Name, s.Name, c.Field)
				case c.Kind == "SI" && s.Parent == "":
					fmt.Fprintf(&sb, "Example %s_wf_setidx_%s_%s : wf_setidx_b %s_schema "+pre+"%s "+pre+"%s = true.\nProof. vm_compute. reflexivity. Qed.\n",
						w.Name, s.Name, c.Field, w.Name, s.Name, c.Field)
				case c.Kind == "SI":
					fmt.Fprintf(&sb, "(* set index %s.%s is owned by a child store: outside wf_setidx_b (it demands a root store), see the note below *)\n",
						s.Name, c.Field)
				}
			}
		}
		sb.WriteString("\n")
	}
	return sb.String()
}

// ---- hand-written histories (corpus/store/c03.txt) -------------------------------------------------------------------

// runC03fCorpus prints, for every family wiring, the minimal legal history of the class: an entity is created through
// the plain child store that owns the most unique indexes, deleted through the parent store, and an entity with the same
// values is created again through the same child store.
func runC03fCorpus(o *opts) error {
	for _, d := range c03fWirings {
		w := wiringByName(d.name)
		w.derive()
		fam := c03fFamily(w)
		best, bestN := "", -1
		for _, c := range fam[1:] {
			n := 0
			for _, k := range w.store(c).Cons {
				if k.Kind == "U" || k.Kind == "SI" {
					n++
				}
			}
			if !w.store(c).Ext && n > bestN {
				best, bestN = c, n
			}
		}
		var txs []hTx
		mk := func(store, id string, seed string) hOp {
			op := hOp{Kind: "C", Store: store, Id: id, F: map[string]*string{}, S: map[string][]string{}}
			fields, sets := w.allFields(store)
			short := func(n string) string {
				if len(n) > 2 {
					n = n[:2]
				}
				return seed + n
			}
			for _, f := range fields {
				op.F[f.Name] = sp(short(f.Name))
			}
			for _, s := range sets {
				op.S[s] = []string{short(s), "r"}
			}
			return op
		}
		for _, s := range w.Stores { // the owner the subject hangs on
			if s.Parent == "" && s.Name != fam[0] {
				txs = append(txs, hTx{Ops: []hOp{mk(s.Name, "o", "o")}})
			}
		}
		subj := mk(best, "a", "")
		for _, dcl := range w.Script {
			if dcl.Kind == "fkindexcascade" {
				subj.F[dcl.Field] = sp("o")
			}
		}
		txs = append(txs, hTx{Ops: []hOp{subj}})
		txs = append(txs, hTx{Ops: []hOp{{Kind: "D", Store: fam[0], Id: "a"}}})
		txs = append(txs, hTx{Ops: []hOp{c03fCloneCreate(subj, best, "b")}})
		var sb strings.Builder
		sb.WriteString("WIRING " + w.Name)
		for k := range txs {
			sb.WriteString(" ")
			sb.WriteString(w.txText(&txs[k]))
		}
		fmt.Println(sb.String())
	}
	return nil
}
