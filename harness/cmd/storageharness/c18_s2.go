package main

import (
	"fmt"
	"sort"
	"strconv"

	"github.com/openziti/storage/ast"
	"github.com/openziti/storage/boltz"
	"go.etcd.io/bbolt"
)

// C18, second strengthening: objects that are registered ONCE on a store and then used by every
// reader - external (func) symbols, the read paths of the set / unique / fk indexes and of the link
// collections - and the place of the store in the database.
//
// The place matters because every index, symbol and store keeps path slices that are built with
// append from the definition's BasePath: whether such a slice has spare capacity (so that a further
// append on a read path writes into the array shared by all readers instead of copying) depends on
// the depth of the base path.  The same two stores therefore exist at several places of one
// database; the writer applies each operation to every family inside the same transaction, so all
// families go through the same versions, and a reader addresses one family per query
// ("at <place> <query>"; model: Db/Workload.v eval_placed - the serial answer does not depend on
// the place).

// c18s2Places: index = the <place> token.  0 is the original family (the only one before this
// strengthening), then base paths of depth 0, 2 and 3, and a depth-1 base path handed to the store
// definition as a slice with spare capacity of its own.
var c18s2Places = [][]string{
	{"stores"},
	nil,
	{"c18", "two"},
	{"c18", "three", "deep"},
	append(make([]string, 0, 4), "spare"),
}

const (
	c18s2SymOdd   = "odd"   // item store, NewBoolFuncSymbol: the id ends in an odd byte
	c18s2SymLabel = "label" // item store, NewStringFuncSymbol: nil | "c0" | "c1" | "c2" from the last byte of the id
	c18s2SymGx    = "gx"    // group store, NewBoolFuncSymbol: the id ends in an odd byte

	c18s2HelperExt = "boltz.ExternalSymbol/filters-and-sorts-at-every-place"
	c18s2HelperIdx = "boltz.indexes/reads-of-different-keys-at-every-base-path-depth"
)

// the external functions: pure functions of the id (thread-safe by construction), different between rows
func c18s2Odd(id string) bool { return len(id) > 0 && id[len(id)-1]%2 == 1 }

func c18s2Label(id string) *string {
	if len(id) == 0 {
		return nil
	}
	d := id[len(id)-1] % 5
	if d == 4 {
		return nil
	}
	s := "c" + string(rune('0'+d%3))
	return &s
}

// "c9" is the label of no row; a comparison with null is not asked: the string constructor answers
// (TypeString, nil) for a nil result, which `= null` does not count as null while `sort by` does
var c18s2Labels = []string{"c0", "c1", "c2", "c9"}

func c18s2NewFamilies() []*csStores {
	var out []*csStores
	for _, p := range c18s2Places {
		s := newCsStoresAt(p)
		s.item.AddEntitySymbol(boltz.NewBoolFuncSymbol(s.item, c18s2SymOdd, c18s2Odd))
		s.item.AddEntitySymbol(boltz.NewStringFuncSymbol(s.item, c18s2SymLabel, c18s2Label))
		s.group.AddEntitySymbol(boltz.NewBoolFuncSymbol(s.group, c18s2SymGx, c18s2Odd))
		s.item.AddEntityConstraint(c18s6VetoConstraint{}) // refuses one value no valid operation uses (c18_s6.go)
		out = append(out, s)
	}
	return out
}

func c18s2String(q c18Query) (string, bool) {
	switch q.kind {
	case "xb", "gxb", "xbs", "xss", "tagkeys":
		return fmt.Sprintf("%s %d", q.kind, q.v), true
	case "xs":
		return "xs " + hxs(q.a), true
	case "xg", "xw":
		return q.kind, true
	case "tagc":
		return fmt.Sprintf("tagc %s %d", hxs(q.a), q.v), true
	case "linked":
		return fmt.Sprintf("linked %s %s", hxs(q.a1()), hxs(q.b())), true
	case "gidx":
		return "gidx " + hxs(q.a), true
	}
	return "", false
}

// b: the second string argument of "linked" travels in the tail of a after a NUL (the query struct is
// shared with c18.go and has one string field)
func (q c18Query) b() string {
	for i := 0; i < len(q.a); i++ {
		if q.a[i] == 0 {
			return q.a[i+1:]
		}
	}
	return ""
}

func (q c18Query) a1() string {
	for i := 0; i < len(q.a); i++ {
		if q.a[i] == 0 {
			return q.a[:i]
		}
	}
	return q.a
}

func c18s2Parse(f []string) (c18Query, bool) {
	q := c18Query{kind: f[0], s: -1, l: -1}
	num := func(k int) int64 {
		if k >= len(f) {
			return 0
		}
		n, _ := strconv.ParseInt(f[k], 10, 64)
		return n
	}
	str := func(k int) string {
		if k >= len(f) {
			return ""
		}
		return string(unhx(f[k]))
	}
	switch q.kind {
	case "xb", "gxb", "xbs", "xss", "tagkeys":
		q.v = num(1)
	case "xs":
		q.a = str(1)
	case "xg", "xw":
	case "tagc":
		q.a, q.v = str(1), num(2)
	case "linked":
		q.a = str(1) + "\x00" + str(2)
	case "gidx":
		q.a = str(1)
	default:
		return q, false
	}
	return q, true
}

func c18s2GenQuery(r *rng) c18Query {
	switch r.intn(16) {
	case 0, 1:
		return c18Query{kind: "xb", v: int64(r.intn(2))}
	case 2:
		return c18Query{kind: "xbs", v: int64(r.intn(12)) - 3}
	case 3, 4:
		return c18Query{kind: "xs", a: r.pick(c18s2Labels)}
	case 5:
		return c18Query{kind: "xss", v: int64(r.intn(16)) - 1}
	case 6:
		return c18Query{kind: "xg"}
	case 7:
		return c18Query{kind: "xw"}
	case 8:
		return c18Query{kind: "gxb", v: int64(r.intn(2))}
	case 9:
		return c18Query{kind: "tag", a: r.pick(c18TagPool)}
	case 10, 11:
		return c18Query{kind: "tagc", a: r.pick(c18TagPool), v: int64(r.intn(2))}
	case 12:
		return c18Query{kind: "tagkeys", v: int64(r.intn(2))}
	case 13:
		return c18Query{kind: "linked", a: r.pick(c18Ids) + "\x00" + r.pick(c18Groups)}
	case 14:
		if r.chance(30) {
			return c18Query{kind: "gidx", a: r.pick(c18NamePool)}
		}
		return c18Query{kind: "gidx", a: "G" + r.pick(c18Groups)}
	}
	return c18Query{kind: "name", a: r.pick(c18NamePool)}
}

func c18s2Eval(s *csStores, tx *bbolt.Tx, q c18Query, queryIds, groupIds func(string) string) (string, bool) {
	tf := func(v int64) string {
		if v != 0 {
			return "true"
		}
		return "false"
	}
	drain := func(c ast.SetCursor) []string {
		var out []string
		for n := 0; c.IsValid() && n < 10000; n++ {
			out = append(out, string(c.Current()))
			c.Next()
		}
		return out
	}
	switch q.kind {
	case "xb":
		return queryIds(fmt.Sprintf(`%s = %s`, c18s2SymOdd, tf(q.v))), true
	case "xbs":
		return queryIds(fmt.Sprintf(`val >= %d sort by %s desc, name`, q.v, c18s2SymOdd)), true
	case "xs":
		return queryIds(fmt.Sprintf(`%s = "%s"`, c18s2SymLabel, q.a)), true
	case "xss":
		return queryIds(fmt.Sprintf(`val < %d sort by %s, name desc`, q.v, c18s2SymLabel)), true
	case "xg":
		return queryIds(fmt.Sprintf(`group.%s = true`, c18s2SymGx)), true
	case "xw":
		return queryIds(fmt.Sprintf(`anyOf(watchers.%s) = true`, c18s2SymGx)), true
	case "gxb":
		return groupIds(fmt.Sprintf(`%s = %s`, c18s2SymGx, tf(q.v))), true
	case "tagc":
		return c18Ids2(drain(s.item.idxTags.OpenValueCursor(tx, []byte(q.a), q.v != 0))), true
	case "tagkeys":
		keys := drain(s.item.idxTags.OpenKeyCursor(tx, q.v != 0))
		var keys2 []string
		s.item.idxTags.ReadKeys(tx, func(k []byte) { keys2 = append(keys2, string(k)) })
		if q.v == 0 {
			sort.Sort(sort.Reverse(sort.StringSlice(keys2)))
		}
		if fmt.Sprint(keys) != fmt.Sprint(keys2) {
			return "Q error " + hxs(fmt.Sprintf("OpenKeyCursor %v but ReadKeys %v", keys, keys2)), true
		}
		return c18Ids2(keys), true
	case "linked":
		i, g := q.a1(), q.b()
		a := s.item.watchers.IsLinked(tx, []byte(i), []byte(g))
		b := s.group.watching.IsLinked(tx, []byte(g), []byte(i))
		if a != b {
			return "Q error " + hxs(fmt.Sprintf("IsLinked item side %v group side %v", a, b)), true
		}
		if a {
			return c18Ids2([]string{g}), true
		}
		return c18Ids2(nil), true
	case "gidx":
		if id := s.group.idxName.Read(tx, []byte(q.a)); id != nil {
			return c18Ids2([]string{string(id)}), true
		}
		return c18Ids2(nil), true
	}
	return "", false
}

// c18s2FixtureQueries: the two hammered query lists.  Neighbouring entries differ in the key (or in the
// rows that satisfy the filter) and agree in the shared object they go through, so that goroutines
// g and g+1 of the hammer (which run entry i+g at step i) meet on one index / symbol with different keys.
func c18s2FixtureQueries(fx *c18Fixture) {
	for d := range c18s2Places {
		at := func(q c18Query) c18Query { q.d = d; return q }
		fx.extQ = append(fx.extQ, at(c18Query{kind: "xb", v: 1}), at(c18Query{kind: "xb", v: 0}),
			at(c18Query{kind: "xs", a: "c0"}), at(c18Query{kind: "xs", a: "c1"}), at(c18Query{kind: "xs", a: "c9"}), at(c18Query{kind: "xs", a: "c2"}),
			at(c18Query{kind: "xbs", v: 0}), at(c18Query{kind: "xss", v: 8}), at(c18Query{kind: "xg"}), at(c18Query{kind: "xw"}),
			at(c18Query{kind: "gxb", v: 1}), at(c18Query{kind: "gxb", v: 0}))
		for _, t := range c18TagPool {
			fx.idxQ = append(fx.idxQ, at(c18Query{kind: "tag", a: t}))
		}
		for k, t := range c18TagPool {
			fx.idxQ = append(fx.idxQ, at(c18Query{kind: "tagc", a: t, v: int64(k % 2)}))
		}
		for _, n := range c18NamePool[:5] {
			fx.idxQ = append(fx.idxQ, at(c18Query{kind: "name", a: n}))
		}
		for _, g := range c18Groups {
			fx.idxQ = append(fx.idxQ, at(c18Query{kind: "gidx", a: "G" + g}))
		}
		for _, g := range c18Groups {
			fx.idxQ = append(fx.idxQ, at(c18Query{kind: "gitems", a: g}))
		}
		for _, id := range fx.ids[:4] {
			fx.idxQ = append(fx.idxQ, at(c18Query{kind: "links", a: id}))
		}
		for _, g := range c18Groups {
			fx.idxQ = append(fx.idxQ, at(c18Query{kind: "rlinks", a: g}))
		}
		for k, id := range fx.ids[:4] {
			fx.idxQ = append(fx.idxQ, at(c18Query{kind: "linked", a: id + "\x00" + c18Groups[k%3]}))
		}
		fx.idxQ = append(fx.idxQ, at(c18Query{kind: "tagkeys", v: 1}), at(c18Query{kind: "tagkeys", v: 0}), at(c18Query{kind: "load", a: fx.ids[d]}))
	}
}

func c18s2Hammer(fx *c18Fixture, i int, idx bool) bool {
	if fx == nil {
		return false
	}
	qs, exp := fx.extQ, fx.extExp
	if idx {
		qs, exp = fx.idxQ, fx.idxExp
	}
	if len(qs) == 0 || len(qs) != len(exp) {
		return false
	}
	ok := true
	_ = fx.w.db.View(func(tx *bbolt.Tx) error {
		k := i % len(qs)
		if fx.w.eval(tx, qs[k]) != exp[k] {
			ok = false
		}
		return nil
	})
	return ok
}
