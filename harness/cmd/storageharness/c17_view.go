package main

// C17, seventh wave (s9-c17):
//
//   - restore listeners that do not return by themselves: "b" blocks for good, "d <j>" returns once the listener
//     registered as number j has returned in the same restore (the dependency may have been registered later, earlier,
//     never, or be the listener itself).  Every registered listener has to be STARTED by every restore whatever the
//     others do, those that can return have to return, the restore has to return.  The harness lets the waiting ones
//     go after it has made its observations, and waits until they have left before the history goes on.
//   - "snap stale <commit> <wops>": SnapshotInTx inside a read transaction (Db.View) that was opened BEFORE another
//     goroutine ran (committed / rolled back) a write transaction.  The file has to hold what that read transaction
//     sees (walked through the same transaction right before the call: V[...]), not what is committed at the moment
//     of the call.  bbolt cannot re-map the file while a read transaction is open: the file is grown and its pages
//     are freed again beforehand so that the writer is served from the freelist; should the writer block
//     nevertheless, the snapshot is taken after a short wait and the writer finishes once the View has ended (same
//     result for the model: the snapshot of the old view, then the transaction).

import (
	"fmt"
	"strings"
	"sync"
	"sync/atomic"
	"time"

	"github.com/openziti/storage/boltz"
	"go.etcd.io/bbolt"
)

// one restore's listeners
type c17vGen struct {
	release chan struct{}
	once    sync.Once
	done    []chan struct{}
	begun   []int32
	left    []int32
}

func newC17vGen(n int) *c17vGen {
	g := &c17vGen{release: make(chan struct{}), done: make([]chan struct{}, n), begun: make([]int32, n), left: make([]int32, n)}
	for i := range g.done {
		g.done[i] = make(chan struct{})
	}
	return g
}

func (g *c17vGen) start(i int) {
	if g != nil && i < len(g.begun) {
		atomic.StoreInt32(&g.begun[i], 1)
	}
}

func (g *c17vGen) started(i int) bool {
	return g != nil && i < len(g.begun) && atomic.LoadInt32(&g.begun[i]) == 1
}

func (g *c17vGen) finish(i int) {
	// (a listener started late by an earlier restore can come by a second time)
	if g != nil && i < len(g.done) && atomic.CompareAndSwapInt32(&g.left[i], 0, 1) {
		close(g.done[i])
	}
}

// doneOf: closed once listener j of this restore has returned; a listener that is not registered never does
func (g *c17vGen) doneOf(j int) chan struct{} {
	if g == nil || j < 0 || j >= len(g.done) {
		return nil
	}
	return g.done[j]
}

// pending: listeners of this restore that were started and have not left yet
func (g *c17vGen) pending() int {
	n := 0
	if g != nil {
		for i := range g.begun {
			if atomic.LoadInt32(&g.begun[i]) == 1 && atomic.LoadInt32(&g.left[i]) == 0 {
				n++
			}
		}
	}
	return n
}

func (g *c17vGen) letGo() {
	if g != nil {
		g.once.Do(func() { close(g.release) })
	}
}

// c17vReturning: how many of the registered listeners can return (only used to know how long to wait)
func c17vReturning(bodies []c17xBody) int {
	n := 0
	for i := range bodies {
		j, ok := i, false
		for fuel := 0; fuel <= len(bodies); fuel++ {
			if j < 0 || j >= len(bodies) || bodies[j].kind == "b" {
				break
			}
			if bodies[j].kind != "d" {
				ok = true
				break
			}
			j = bodies[j].dep
		}
		if ok {
			n++
		}
	}
	return n
}

var c17vWriterWait = 400 * time.Millisecond

// c17vPregrow: grow the bolt file / its memory map once and free the pages again (three commits: the pages freed
// by the second one become usable once a later transaction has committed); the content is unchanged
func (h *c17Run) c17vPregrow() {
	if h.db.Stats().FreePageN >= 14 {
		return
	}
	filler := []byte("c17v-filler")
	_ = h.db.Update(nil, func(ctx boltz.MutateContext) error {
		b, err := ctx.Tx().CreateBucket(filler)
		if err != nil {
			return err
		}
		val := []byte(strings.Repeat("x", 1024))
		for i := 0; i < 60; i++ {
			if err = b.Put([]byte(fmt.Sprintf("filler-%04d", i)), val); err != nil {
				return err
			}
		}
		return nil
	})
	_ = h.db.Update(nil, func(ctx boltz.MutateContext) error { return ctx.Tx().DeleteBucket(filler) })
	_ = h.db.Update(nil, func(ctx boltz.MutateContext) error { return nil })
	h.stats["view_pregrow"]++
}

func (h *c17Run) c17vSnapStale(path string, ws []c17Wop, commit bool) (actual, id string, err error) {
	h.c17vPregrow()
	done := make(chan string, 1)
	late := false
	h.vSeen, h.vTx = "-", ""
	err = h.db.View(func(tx *bbolt.Tx) error {
		first := c17Dump(csWalk(tx), h.ids)
		go func() { done <- h.rawTx(ws, commit) }()
		select {
		case h.vTx = <-done:
		case <-time.After(c17vWriterWait):
			late = true // the writer needs a larger memory map: it goes on once this transaction has ended
		}
		h.vSeen = c17Dump(csWalk(tx), h.ids)
		if h.vSeen != first {
			h.vSeen = "changed-within-the-transaction:" + h.vSeen
		}
		var e error
		actual, id, e = h.db.SnapshotInTx(tx, path)
		return e
	})
	if late {
		h.vTx = <-done
		h.stats["view_stale_writer_late"]++
	} else {
		h.stats["view_stale_writer_in_time"]++
	}
	h.vTx = map[string]string{"tx ok": "1", "tx err": "0"}[h.vTx]
	return actual, id, err
}

// listeners that wait: a blocker or a dependent one; dependencies point forwards (registered later), backwards,
// at a blocker, at themselves or at nobody
func (h *c17Run) genWaitListener(r *rng) {
	n := len(h.lbodies)
	switch x := r.intn(10); {
	case x < 3:
		h.opAddDbListener(c17xBody{kind: "b"})
	case x < 7:
		h.opAddDbListener(c17xBody{kind: "d", dep: n + 1 + r.intn(2)}) // the next / second next to be registered
	case x < 9:
		h.opAddDbListener(c17xBody{kind: "d", dep: r.intn(n + 1)}) // an earlier one or itself
	default:
		h.opAddDbListener(c17xBody{kind: "d", dep: n + 5}) // nobody
	}
}

// state A ; listeners of which some wait ; snapshots (half of them inside an old read transaction) ; transactions ;
// restores ; id
func (h *c17Run) genViewSweep(r *rng) {
	for i, n := 0, 1+r.intn(3); i < n; i++ {
		if r.chance(40) {
			h.opStoreTx(r)
		} else {
			h.opTx(c17GenWops(r, 5), true)
		}
	}
	for i, n := 0, 2+r.intn(3); i < n; i++ {
		if r.chance(55) {
			h.genWaitListener(r)
		} else {
			h.genDbListener(r, 50)
		}
	}
	for round, rounds := 0, 1+r.intn(3); round < rounds && !h.dead; round++ {
		if r.chance(60) {
			h.opSnap("stale", !r.chance(10), c17GenWops(r, 4), nil)
		} else {
			h.genSnap(r)
		}
		k := len(h.files) - 1
		if r.chance(60) {
			h.opTx(c17GenWops(r, 4), true)
		}
		if r.chance(25) {
			h.genWaitListener(r)
		}
		h.genRestore(r, k)
		h.opSnapId()
		if r.chance(30) {
			h.genTimeline(r)
		}
	}
}
