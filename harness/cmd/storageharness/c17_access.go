package main

// C17, ninth wave (t9-c17): racing modes "accessors" and "overlap" of the c17race child (see runC17Race).
//
// accessors: the methods of the boltz.Db interface that an application calls from INSIDE a transaction it got
//   from View / Update / Batch - GetDefaultSnapshotPath (the pre-migration idiom
//   SnapshotInTx(tx, db.GetDefaultSnapshotPath())), RootBucket, SnapshotInTx, AddRestoreListener,
//   AddTxCompleteListener - are called from transactions that are running while restores arrive.  The
//   transaction holds the reload lock (shared) for its whole duration; a restore waits for the exclusive lock.
//   None of these calls may wait for anything the restore holds or waits for: the transaction has to finish,
//   then the restore, and every later transaction.  Every worker publishes the call it is in; when nothing
//   completes any more the watchdog's report names the calls that did not return.
//   The calls are made at the start of the transaction, and again after the transaction has spent a few
//   milliseconds (long enough for a restore to stage its file and queue up for the lock).
//   Db.View / Snapshot / StreamToWriter / GetSnapshotId / GetTimelineId open a transaction of their own and are
//   not made inside another one.
//
// overlap: two restorers whose readers deliver their snapshots slowly, so that the streaming phases of two
//   RestoreFromReader calls overlap (a second restore request arriving while the first one is still being
//   uploaded).  Restores are serialised only for the swap; each has to stage its own data.  Expected: both
//   return without a panic, the listeners of both ran, transactions running meanwhile see one database, and
//   once both have returned the content (and the snapshot id) is that of ONE of the two snapshots.

import (
	"fmt"
	"io"
	"os"
	"path/filepath"
	"runtime"
	"strings"
	"sync"
	"sync/atomic"
	"time"

	"github.com/openziti/storage/boltz"
	"go.etcd.io/bbolt"
)

type c17aState struct {
	dir       string
	livePath  string
	cur       [16]atomic.Value // per worker: the Db call it is in ("" = none)
	listeners int64            // listeners registered from inside transactions (bounded)
	lsRan     int64
	calls     int64
}

func newC17aState(dir string) *c17aState {
	s := &c17aState{dir: dir, livePath: filepath.Join(dir, "live.db")}
	for i := range s.cur {
		s.cur[i].Store("")
	}
	return s
}

// the calls that have not returned
func (s *c17aState) inFlight() string {
	var out []string
	for i := range s.cur {
		if c, _ := s.cur[i].Load().(string); c != "" {
			out = append(out, fmt.Sprintf("worker %d is inside %s", i, c))
		}
	}
	if len(out) == 0 {
		return ""
	}
	return "; calls that have not returned: " + strings.Join(out, ", ")
}

// c17aCalls: the accessor calls of one transaction; kind = what the transaction came from
func (s *c17aState) c17aCalls(db *boltz.DbImpl, tx *bbolt.Tx, kind string, id, n int, late bool) error {
	var d boltz.Db = db
	in := func(call string) {
		s.cur[id].Store(call + " called from inside a running " + kind + " transaction")
		atomic.AddInt64(&s.calls, 1)
	}
	defer s.cur[id].Store("")

	in("Db.GetDefaultSnapshotPath()")
	p := d.GetDefaultSnapshotPath()
	if !strings.HasPrefix(p, s.livePath+"-") || len(p) != len(s.livePath)+1+len("20060102-150405") {
		return fmt.Errorf("GetDefaultSnapshotPath inside a %s transaction returned %q for the database %q", kind, p, s.livePath)
	}
	in("Db.RootBucket(tx)")
	if b, err := d.RootBucket(tx); err != nil || b == nil {
		return fmt.Errorf("RootBucket inside a %s transaction: %v", kind, err)
	}
	if late && n%4 == 0 {
		// the pre-migration idiom; the file name is made unique per worker (the default has a resolution of 1 s)
		in("Db.SnapshotInTx(tx, Db.GetDefaultSnapshotPath())")
		path := d.GetDefaultSnapshotPath() + fmt.Sprintf("-w%d", id)
		actual, sid, err := d.SnapshotInTx(tx, path)
		if err != nil {
			return fmt.Errorf("SnapshotInTx(tx, GetDefaultSnapshotPath()) inside a %s transaction: %v", kind, err)
		}
		if sid == "" || actual != path {
			return fmt.Errorf("SnapshotInTx(tx, %q) inside a %s transaction returned path %q id %q", path, kind, actual, sid)
		}
		_ = os.Remove(actual)
	}
	if late && n%16 == 5 && atomic.AddInt64(&s.listeners, 1) <= 6 {
		in("Db.AddRestoreListener(f)")
		d.AddRestoreListener(func() { atomic.AddInt64(&s.lsRan, 1) })
		in("Db.AddTxCompleteListener(f)")
		d.AddTxCompleteListener(func(boltz.MutateContext) { atomic.AddInt64(&s.lsRan, 1) })
	}
	return nil
}

// c17aBody wraps what a transaction of the racing run does: accessors, the work, time for a restore to queue
// up, accessors again
func (s *c17aState) c17aBody(db *boltz.DbImpl, tx *bbolt.Tx, kind string, id, n int, work func() error) error {
	if err := s.c17aCalls(db, tx, kind, id, n, false); err != nil {
		return err
	}
	if err := work(); err != nil {
		return err
	}
	if n%3 == 0 {
		time.Sleep(time.Duration(2+n%3) * time.Millisecond)
	}
	return s.c17aCalls(db, tx, kind, id, n, true)
}


// ---- overlap -----------------------------------------------------------------------------------------

type c17oState struct {
	pairs    int64 // pairs of overlapping restores run
	overlaps int64 // pairs during which both readers were delivering at the same time
	ordered  int64 // pairs in which one restore ran from start to end while the other one was half-way through its reader
	lsRan    int64
}

// c17oReader: snapshot data delivered in small reads; at is called before every read with the position
func c17oReader(data []byte, round, which int, at func(pos int)) *c17xReader {
	sc := c17xScript{flav: "r", length: len(data), failAt: -1, eofd: (round+which)%2 == 0, rest: []int{4096, 1000, 8192, 2048, 3000}[(round+2*which)%5]}
	rd := newC17xReader(data, sc)
	rd.hook = at
	return rd
}

func c17oSource(rd *c17xReader, round, which int) io.Reader {
	if (round+which)%3 == 2 {
		return c17xWriterTo{rd}
	}
	return struct{ io.Reader }{rd}
}

// c17oPair: two RestoreFromReader calls (snapshots a and b) whose streaming phases overlap.  Even rounds: restore b runs from start to end while a is held
// half-way through its data; a delivers the rest afterwards (a slow upload overtaken by a second request).  Odd
// rounds: both have entered their readers before either goes on, then they deliver alternately.  Returns: how many returned normally, and whether a is known to have swapped last.
func (o *c17oState) c17oPair(db *boltz.DbImpl, snaps [][]byte, a, b, round int, report func(kind, what string)) (returned int, aLast bool) {
	var wg sync.WaitGroup
	var ok, timedOut int64
	entered := make(chan struct{}, 2)
	both := make(chan struct{})    // closed once both restores are inside their readers
	aHalf := make(chan struct{})   // closed once a has delivered half of its data
	bDone := make(chan struct{})   // closed once restore b has returned (or panicked)
	gated := round%2 == 0
	wait := func(c chan struct{}) {
		select {
		case <-c:
		case <-time.After(10 * time.Second): // never under normal conditions; the verdict falls back to the weaker one
			atomic.AddInt64(&timedOut, 1)
		}
	}
	if !gated {
		go func() {
			<-entered
			<-entered
			close(both)
		}()
	}
	run := func(which, k int) {
		defer wg.Done()
		defer func() {
			if r := recover(); r != nil {
				report("overlap", fmt.Sprintf("two RestoreFromReader calls whose readers were delivering at the same time (snapshots %d and %d; %s): the restore of snapshot %d panicked: %v",
					a+1, b+1, map[bool]string{true: "the second ran from start to end while the first was half-way through its reader", false: "both delivering alternately"}[gated], k+1, r))
			}
		}()
		data := snaps[k]
		in, half := false, false
		rd := c17oReader(data, round, which, func(pos int) {
			if !in {
				in = true
				if !gated {
					entered <- struct{}{}
					wait(both)
				}
			}
			if !half && pos >= len(data)/2 {
				half = true
				if gated && which == 0 {
					close(aHalf)
					wait(bDone)
				}
			}
			if !gated {
				runtime.Gosched()
			}
		})
		if gated && which == 1 {
			wait(aHalf)
		}
		db.RestoreFromReader(c17oSource(rd, round, which))
		atomic.AddInt64(&ok, 1)
	}
	wg.Add(2)
	go run(0, a)
	go func() {
		defer close(bDone)
		run(1, b)
	}()
	wg.Wait()
	atomic.AddInt64(&o.pairs, 1)
	if atomic.LoadInt64(&timedOut) == 0 {
		atomic.AddInt64(&o.overlaps, 1)
		if gated {
			atomic.AddInt64(&o.ordered, 1)
		}
	}
	return int(atomic.LoadInt64(&ok)), gated && atomic.LoadInt64(&timedOut) == 0
}

// c17oVerdict: the database after a pair of overlapping restores that both returned
func (o *c17oState) c17oVerdict(db *boltz.DbImpl, dir string, snapIds []string, a, b int, aLast bool, report func(kind, what string)) {
	what := fmt.Sprintf("after two overlapping RestoreFromReader calls (snapshots %d and %d) have both returned", a+1, b+1)
	var vals []uint64
	err := db.View(func(tx *bbolt.Tx) (verr error) {
		vals, verr = c17RaceValue(tx)
		return verr
	})
	if err != nil {
		report("overlap", what+" the database cannot be read: "+err.Error())
		return
	}
	is := -1
	for _, k := range []int{a, b} {
		if c17Uniform(vals) && vals[0] == uint64(k+1)*1_000_000 {
			is = k
		}
	}
	if is < 0 {
		report("overlap", fmt.Sprintf("%s the database holds %v: neither snapshot %d (%d in every key) nor snapshot %d (%d)", what, vals, a+1, (a+1)*1_000_000, b+1, (b+1)*1_000_000))
		return
	}
	if aLast && is != a {
		report("overlap", fmt.Sprintf("%s the database holds snapshot %d, although the restore of snapshot %d began to replace the database only after the other one had returned", what, is+1, a+1))
		return
	}
	if id, ierr := db.GetSnapshotId(); ierr != nil || id == nil || *id != snapIds[is] {
		report("overlap", fmt.Sprintf("%s the database holds the content of snapshot %d but GetSnapshotId does not report that snapshot's id (err %v)", what, is+1, ierr))
		return
	}
	if left, _ := filepath.Glob(filepath.Join(dir, "live.db.snapshot.*")); len(left) > 0 {
		report("overlap", fmt.Sprintf("%s %d staging file(s) are left next to the database, e.g. %s", what, len(left), filepath.Base(left[0])))
	}
}
