package main

import (
	"bytes"
	"fmt"
	"strconv"
	"strings"
	"time"
	"unicode/utf8"

	"github.com/openziti/storage/ast"
	"github.com/openziti/storage/boltz"
)

// C11, stream M: filters with SEVERAL comparisons, in which string literals repeat - byte-identical token text,
// letter-case variants, one a prefix of the other, one the escaped spelling of the other - across different
// operators and fields, joined by and / or / not / parentheses, inside in-lists and inside sub-queries.
// The denotation of a literal occurrence must not depend on the other occurrences in the same filter, nor on the
// filters parsed before (or after) it in the same process: a case is a SEQUENCE of filters; all of them are
// parsed first, in order, then each parsed query is evaluated over the rows (pass 1), then each filter is parsed
// again and evaluated again (pass 2).
//
// Case line:   M <env> <nf> <filter>*nf <nr> <row>*nr
//
//	env     sym  ast.Parse + Query.EvalBool over a two-symbol ast.Symbols (name, descr)
//	        st   boltz store: ast.Parse(store) + BaseStore.QueryIdsC (pass 1), BaseStore.QueryIds (pass 2)
//	filter  prefix form:  and F F | or F F | not F | grp F | t | f | ne F | em F | cnt F
//	                      | a <lhs> <op> <esc> <n> <hex>*n
//	        grp F   ( F )
//	        ne F    not isEmpty(from peers where F)      F over the peers' fields (name)
//	        em F    isEmpty(from peers where F)
//	        cnt F   count(from peers where F) > 0
//	        a ..    one comparison; lhs: name | descr | any (anyOf(tags)) | all (allOf(tags)) | anyfk (anyOf(peers.name));
//	                op as in stream Q; the n literals are those of the hex values, written by escaper esc
//	                (n = 1 unless op is in / notin)
//	row     <name>/<descr>/<tags>/<peers>   name, descr: ~ (no value) | hex;  tags: ~ | hex,hex,..;
//	        peers: ~ | hex,hex,..  (one peer entity per element, holding that name)
//
// Observation:  M <r>*nf (pass 1) <r>*nf (pass 2) <hex of the filter texts joined by LF>
//
//	r = one bit per row (row selected) | err | panic | badids
type c11mNode struct {
	kind string
	kids []*c11mNode
	lhs  string
	op   string
	esc  string
	lits [][]byte
}

func c11mParseNode(tok []string, pos *int) (*c11mNode, error) {
	if *pos >= len(tok) {
		return nil, fmt.Errorf("filter ends early")
	}
	k := tok[*pos]
	*pos++
	n := &c11mNode{kind: k}
	arity := 0
	switch k {
	case "and", "or":
		arity = 2
	case "not", "grp", "ne", "em", "cnt":
		arity = 1
	case "t", "f":
	case "a":
		if *pos+4 > len(tok) {
			return nil, fmt.Errorf("atom ends early")
		}
		n.lhs, n.op, n.esc = tok[*pos], tok[*pos+1], tok[*pos+2]
		cnt, err := strconv.Atoi(tok[*pos+3])
		if err != nil || cnt < 1 || *pos+4+cnt > len(tok) {
			return nil, fmt.Errorf("bad literal count")
		}
		*pos += 4
		for i := 0; i < cnt; i++ {
			n.lits = append(n.lits, unhx(tok[*pos]))
			*pos++
		}
	default:
		return nil, fmt.Errorf("unknown node %q", k)
	}
	for i := 0; i < arity; i++ {
		kid, err := c11mParseNode(tok, pos)
		if err != nil {
			return nil, err
		}
		n.kids = append(n.kids, kid)
	}
	return n, nil
}

func (n *c11mNode) tokens() []string {
	out := []string{n.kind}
	if n.kind == "a" {
		out = append(out, n.lhs, n.op, n.esc, strconv.Itoa(len(n.lits)))
		for _, l := range n.lits {
			out = append(out, hx(l))
		}
	}
	for _, k := range n.kids {
		out = append(out, k.tokens()...)
	}
	return out
}

var c11mLhs = map[string]string{"name": "name", "descr": "descr", "any": "anyOf(tags)", "all": "allOf(tags)", "anyfk": "anyOf(peers.name)"}

func (n *c11mNode) leaf() bool {
	switch n.kind {
	case "a", "t", "f", "grp", "em", "cnt": // ne is written `not isEmpty(..)`: a not-expression
		return true
	}
	return false
}

// text writes the filter. Operands of and / or / not that are not leaves are parenthesised, except the right
// operand of and (or) that is itself an and (or): `a and b and c` is and(a, and(b, c))
func (n *c11mNode) text() string {
	wrap := func(k *c11mNode) string {
		if k.leaf() {
			return k.text()
		}
		return "(" + k.text() + ")"
	}
	switch n.kind {
	case "t":
		return "true"
	case "f":
		return "false"
	case "grp":
		return "( " + n.kids[0].text() + " )"
	case "not":
		return "not " + wrap(n.kids[0])
	case "and", "or":
		right := wrap(n.kids[1])
		if n.kids[1].kind == n.kind {
			right = n.kids[1].text()
		}
		return wrap(n.kids[0]) + " " + n.kind + " " + right
	case "ne":
		return "not isEmpty(from peers where " + n.kids[0].text() + ")"
	case "em":
		return "isEmpty(from peers where " + n.kids[0].text() + ")"
	case "cnt":
		return "count(from peers where " + n.kids[0].text() + ") > 0"
	}
	lhs := c11mLhs[n.lhs]
	switch n.op {
	case "in", "notin":
		var lits []string
		for _, l := range n.lits {
			lits = append(lits, c11qLit(n.esc, l))
		}
		return lhs + " " + c11qOpText[n.op] + " [" + strings.Join(lits, ", ") + "]"
	}
	return lhs + " " + c11qOpText[n.op] + " " + c11qLit(n.esc, n.lits[0])
}

// c11mSyms: ast-level symbols with two string fields
type c11mSyms struct{ name, descr *string }

func (s *c11mSyms) get(sym string) (*string, bool) {
	switch sym {
	case "name":
		return s.name, true
	case "descr":
		return s.descr, true
	}
	return nil, false
}
func (s *c11mSyms) GetSymbolType(name string) (ast.NodeType, bool) {
	if _, ok := s.get(name); ok {
		return ast.NodeTypeString, true
	}
	return 0, false
}
func (s *c11mSyms) GetSetSymbolTypes(string) ast.SymbolTypes { return nil }
func (s *c11mSyms) IsSet(name string) (bool, bool) {
	_, ok := s.get(name)
	return false, ok
}
func (s *c11mSyms) EvalBool(string) *bool { return nil }
func (s *c11mSyms) EvalString(name string) *string {
	v, _ := s.get(name)
	return v
}
func (s *c11mSyms) EvalInt64(string) *int64        { return nil }
func (s *c11mSyms) EvalFloat64(string) *float64    { return nil }
func (s *c11mSyms) EvalDatetime(string) *time.Time { return nil }
func (s *c11mSyms) IsNil(name string) bool {
	v, _ := s.get(name)
	return v == nil
}
func (s *c11mSyms) OpenSetCursor(string) ast.SetCursor                    { return nil }
func (s *c11mSyms) OpenSetCursorForQuery(string, ast.Query) ast.SetCursor { return nil }

// datasetM writes the rows of an M case (inside the write transaction that is rolled back for the next dataset)
func (e *c11qEnv) datasetM(rows []string) error {
	key := "M " + strings.Join(rows, " ")
	if e.tx != nil && key == e.key {
		return nil
	}
	if e.tx != nil {
		_ = e.tx.Rollback()
		e.tx = nil
	}
	tx, err := e.db.Begin(true)
	if err != nil {
		return err
	}
	e.tx, e.key, e.ids = tx, key, nil
	e.setups++
	tb := boltz.GetOrCreatePath(tx, "c11q", "things")
	pb := boltz.GetOrCreatePath(tx, "c11q", "peers")
	for i, row := range rows {
		part := strings.Split(row, "/")
		if len(part) != 4 {
			return fmt.Errorf("bad row %q", row)
		}
		id := fmt.Sprintf("r%03d", i)
		e.ids = append(e.ids, id)
		eb := tb.GetOrCreatePath(id)
		eb.SetInt64("n", int64(i), nil)
		if part[0] != "~" {
			eb.SetString("name", string(unhx(part[0])), nil)
		}
		if part[1] != "~" {
			eb.SetString("descr", string(unhx(part[1])), nil)
		}
		if part[2] != "~" {
			eb.SetStringList("tags", c11qElems(part[2]), nil)
		}
		if part[3] != "~" {
			var pids []string
			for j, el := range c11qElems(part[3]) {
				pid := fmt.Sprintf("q%03d_%02d", i, j)
				pids = append(pids, pid)
				peer := pb.GetOrCreatePath(pid)
				peer.SetString("name", el, nil)
				if peer.Err != nil {
					return peer.Err
				}
			}
			eb.SetStringList("peers", pids, nil)
		}
		if eb.Err != nil {
			return eb.Err
		}
	}
	if tb.Err != nil {
		return tb.Err
	}
	return pb.Err
}

func c11mSymRow(row string) *c11mSyms {
	part := strings.Split(row, "/")
	sym := &c11mSyms{}
	if len(part) > 0 && part[0] != "~" {
		v := string(unhx(part[0]))
		sym.name = &v
	}
	if len(part) > 1 && part[1] != "~" {
		v := string(unhx(part[1]))
		sym.descr = &v
	}
	return sym
}

// runM evaluates one M case (fields after the leading M)
func (e *c11qEnv) runM(f []string) string {
	if len(f) < 3 {
		return "badcase"
	}
	env := f[0]
	nf, err := strconv.Atoi(f[1])
	if err != nil {
		return "badcase"
	}
	pos := 2
	var texts []string
	for i := 0; i < nf; i++ {
		n, err := c11mParseNode(f, &pos)
		if err != nil {
			return "badcase"
		}
		texts = append(texts, n.text())
	}
	if pos >= len(f) {
		return "badcase"
	}
	rows := f[pos+1:]
	all := hxs(strings.Join(texts, "\n"))

	var symbols ast.SymbolTypes = &c11mSyms{}
	if env == "st" {
		symbols = e.things
	}
	guard := func(fn func() string) (res string) {
		defer func() {
			if r := recover(); r != nil {
				res = "panic"
				if e.tx != nil { // the transaction may be unusable after a panic
					_ = e.tx.Rollback()
					e.tx = nil
				}
			}
		}()
		return fn()
	}
	eval := func(query ast.Query) string {
		bits := bytes.Repeat([]byte{'0'}, len(rows))
		if env != "st" {
			for i, row := range rows {
				if query.EvalBool(c11mSymRow(row)) {
					bits[i] = '1'
				}
			}
			return string(bits)
		}
		if err := e.datasetM(rows); err != nil {
			return "setuperr"
		}
		ids, _, err := e.things.QueryIdsC(e.tx, query)
		if err != nil {
			return "err"
		}
		index := map[string]int{}
		for i, id := range e.ids {
			index[id] = i
		}
		for _, id := range ids {
			i, ok := index[id]
			if !ok || bits[i] == '1' {
				return "badids"
			}
			bits[i] = '1'
		}
		return string(bits)
	}
	// all filters are parsed before any of them is evaluated
	queries := make([]ast.Query, nf)
	status := make([]string, nf)
	for i, q := range texts {
		i, q := i, q
		status[i] = guard(func() string {
			query, err := ast.Parse(symbols, q)
			if err != nil {
				return "err"
			}
			queries[i] = query
			return ""
		})
	}
	var out []string
	for i := range texts {
		i := i
		if status[i] != "" {
			out = append(out, status[i])
			continue
		}
		out = append(out, guard(func() string { return eval(queries[i]) }))
	}
	// pass 2: parsed again, after everything above
	for _, q := range texts {
		q := q
		out = append(out, guard(func() string {
			query, err := ast.Parse(symbols, q)
			if err != nil {
				return "err"
			}
			return eval(query)
		}))
	}
	return strings.Join(out, " ") + " " + all
}

// ---- generators -------------------------------------------------------------------------------------------

func c11mSwapCase(s []byte) []byte {
	b := append([]byte{}, s...)
	for i, c := range b {
		if c >= 'a' && c <= 'z' {
			b[i] = c &^ 0x20
		} else if c >= 'A' && c <= 'Z' {
			b[i] = c | 0x20
		}
	}
	return b
}

// c11mRelatives: the string and the strings a careless sharing / normalising of literals could confuse it with
func c11mRelatives(s []byte) [][]byte {
	rel := [][]byte{s, bytes.ToUpper(s), bytes.ToLower(s), []byte(c11qCase(string(s), 2)), c11mSwapCase(s),
		append(append([]byte{}, s...), 'x'), append(append([]byte{}, s...), ' '), append([]byte{' '}, s...),
		[]byte(strings.ToUpper(string(s))), []byte(strings.ToLower(string(s)))}
	if len(s) > 0 {
		rel = append(rel, s[:len(s)-1], s[1:])
	}
	rel = append(rel, c11Candidates(s)...)
	var out [][]byte
	for _, x := range c11qDedup(rel) {
		if utf8.Valid(x) && c11qExpressible("full", x) {
			out = append(out, x)
		}
	}
	return out
}

type c11mGen struct {
	g   *c11qGen
	r   *rng
	env string
	s   []byte
	rel [][]byte
}

func (m *c11mGen) emitFields(f []string) {
	g := m.g
	g.cases.line("M %s", strings.Join(f, " "))
	g.impl.line("M %s", g.env.runM(f))
	g.stats["M"]++
	g.stats["M_env_"+f[0]]++
	g.stats["M_filters_"+f[1]]++
}

func (m *c11mGen) emit(env string, filters []*c11mNode, rows []string) {
	f := []string{env, strconv.Itoa(len(filters))}
	atoms := 0
	for _, n := range filters {
		tk := n.tokens()
		for _, t := range tk {
			if t == "a" {
				atoms++
			}
		}
		f = append(f, tk...)
	}
	f = append(f, strconv.Itoa(len(rows)))
	f = append(f, rows...)
	m.g.stats[fmt.Sprintf("M_atoms_%d", atoms)]++
	m.emitFields(f)
}

func c11mEsc(r *rng, lits ...[]byte) string {
	esc := []string{"min", "full"}[r.intn(2)]
	for _, l := range lits {
		if !c11qExpressible(esc, l) {
			return "full"
		}
	}
	return esc
}

func c11mAtom(lhs, op, esc string, lits ...[]byte) *c11mNode {
	return &c11mNode{kind: "a", lhs: lhs, op: op, esc: esc, lits: lits}
}

func c11mSet(xs ...[]byte) string {
	if len(xs) == 0 {
		return "~"
	}
	var hs []string
	for _, x := range c11qDedup(xs) {
		hs = append(hs, hx(x))
	}
	return strings.Join(hs, ",")
}

func c11mOpt(x []byte, present bool) string {
	if !present {
		return "~"
	}
	return hx(x)
}

// c11mRows: rows over the value, its relatives, the empty string and absent values, in all four parts
func c11mRows(r *rng, s []byte, extra int) []string {
	cands := c11qDedup(append(c11qCands(s), c11mRelatives(s)...))
	up := []byte(strings.ToUpper(string(s)))
	var rows []string
	row := func(name, descr, tags, peers string) { rows = append(rows, name+"/"+descr+"/"+tags+"/"+peers) }
	for i, c := range cands {
		if i >= 14 {
			break
		}
		o := cands[(i+1)%len(cands)]
		row(hx(c), hx(s), c11mSet(c, o), c11mSet(o))
	}
	row(hx(s), hx(up), c11mSet(s), c11mSet(s, up))
	row(hx(up), "~", c11mSet(up), c11mSet(up))
	row("~", hx(s), "~", c11mSet(s))
	row("~", "~", "~", "~")
	row(hx(s), hx(s), c11mSet(s, up, []byte{}), "~")
	for i := 0; i < extra; i++ {
		pick := func() []byte { return cands[r.intn(len(cands))] }
		var tags, peers [][]byte
		for j, k := 0, r.intn(4); j < k; j++ {
			tags = append(tags, pick())
		}
		for j, k := 0, r.intn(4); j < k; j++ {
			peers = append(peers, pick())
		}
		row(c11mOpt(pick(), !r.chance(10)), c11mOpt(pick(), !r.chance(25)), c11mSet(tags...), c11mSet(peers...))
	}
	return rows
}

var c11mSubKinds = []string{"ne", "em", "cnt"}
var c11mLetters = []string{"a", "b", "k", "N", "O", "T", "x", "y", "z", "é", " ", "\\", "\"", "n", "t"}

func (m *c11mGen) literal() []byte {
	if m.r.chance(60) {
		return m.s
	}
	return m.rel[m.r.intn(len(m.rel))]
}

func (m *c11mGen) atom(inSub bool) *c11mNode {
	r := m.r
	lhss := []string{"name", "descr"}
	if inSub {
		lhss = []string{"name"}
	} else if m.env == "st" {
		lhss = []string{"name", "name", "descr", "any", "all", "anyfk"}
	}
	op := c11qOps[r.intn(len(c11qOps))]
	if r.chance(30) {
		op = []string{"icontains", "nicontains"}[r.intn(2)]
	}
	var lits [][]byte
	if op == "in" || op == "notin" {
		for i, n := 0, 1+r.intn(3); i < n; i++ {
			lits = append(lits, m.literal())
		}
	} else {
		lits = [][]byte{m.literal()}
	}
	return c11mAtom(lhss[r.intn(len(lhss))], op, c11mEsc(r, lits...), lits...)
}

func (m *c11mGen) tree(n int, inSub bool) *c11mNode {
	r := m.r
	if m.env == "st" && !inSub && r.chance(15) {
		return &c11mNode{kind: c11mSubKinds[r.intn(3)], kids: []*c11mNode{m.tree(n, true)}}
	}
	var node *c11mNode
	if n <= 1 {
		if r.chance(4) {
			return &c11mNode{kind: []string{"t", "f"}[r.intn(2)]}
		}
		node = m.atom(inSub)
	} else {
		k := 1 + r.intn(n-1)
		node = &c11mNode{kind: []string{"and", "or"}[r.intn(2)], kids: []*c11mNode{m.tree(k, inSub), m.tree(n-k, inSub)}}
	}
	if r.chance(15) {
		node = &c11mNode{kind: "not", kids: []*c11mNode{node}}
	} else if r.chance(8) {
		node = &c11mNode{kind: "grp", kids: []*c11mNode{node}}
	}
	return node
}

// c11mBases: strings whose literals repeat in the generated filters
func c11mBases(thorough bool) [][]byte {
	b := [][]byte{[]byte("hello"), []byte("Not"), []byte("a b"), []byte(`x"y`), []byte(`a\nb`), []byte("école"), []byte("in"),
		[]byte("k")}
	if thorough {
		b = append(b, []byte("HELLO"), []byte("not in"), []byte("a\tb"), []byte(`c:\new\table`), []byte("ß"), []byte(" x "),
			[]byte("isEmpty(from peers where name = \"a\")"), []byte("null"))
	}
	return b
}

func (m *c11mGen) setBase(s []byte) {
	m.s = s
	m.rel = c11mRelatives(s)
}

func (g *c11qGen) allM(o *opts, r *rng) {
	thorough := o.thorough()
	m := &c11mGen{g: g, r: r}
	conn := []string{"and", "or"}
	bases := c11mBases(thorough)

	// (1) every ordered pair of operators over the SAME literal, same field and two fields, in one filter and as two
	// filters of a sequence
	for bi, s := range bases {
		m.setBase(s)
		if !c11qExpressible("full", s) {
			continue
		}
		rows := c11mRows(r, s, 0)
		lits := func(op string) [][]byte {
			if op == "in" || op == "notin" {
				return [][]byte{append(append([]byte{}, s...), 'x'), s}
			}
			return [][]byte{s}
		}
		for _, env := range []string{"sym", "st"} {
			for i, op1 := range c11qOps {
				for j, op2 := range c11qOps {
					f2 := []string{"name", "descr"}[(i+j+bi)%2]
					a1 := c11mAtom("name", op1, "full", lits(op1)...)
					a2 := c11mAtom(f2, op2, "full", lits(op2)...)
					c := conn[(i*len(c11qOps)+j+bi)%2]
					m.emit(env, []*c11mNode{{kind: c, kids: []*c11mNode{a1, a2}}}, rows)
					if thorough || (i+j+bi)%3 == 0 {
						other := conn[(i*len(c11qOps)+j+bi+1)%2]
						m.emit(env, []*c11mNode{{kind: other, kids: []*c11mNode{a1, c11mAtom("name", op2, "full", lits(op2)...)}}}, rows)
						m.emit(env, []*c11mNode{a1, a2}, rows)
					}
				}
			}
		}
		// (1b) the literal next to the literal of each of its relatives (case variants, prefix, extension, blanks
		// added, escaped spelling): two different literals must stay different, in either order
		relOps := []string{"eq", "neq", "in", "notin", "contains", "icontains"}
		for vi, v := range m.rel {
			if bytes.Equal(v, s) {
				continue
			}
			for i, op1 := range relOps {
				for j, op2 := range relOps {
					if !thorough && (i+j+vi+bi)%2 == 1 {
						continue
					}
					l2 := [][]byte{v}
					if op2 == "in" || op2 == "notin" {
						l2 = [][]byte{v, append(append([]byte{}, v...), 'y'), v}
					}
					env := []string{"sym", "st"}[(i+j+vi)/2%2]
					f2 := []string{"name", "descr"}[(i+vi)%2]
					a1 := c11mAtom("name", op1, "full", lits(op1)...)
					a2 := c11mAtom(f2, op2, "full", l2...)
					c := conn[(i+j+vi)%2]
					if (i+j)%2 == 0 {
						a1, a2 = a2, a1
					}
					m.emit(env, []*c11mNode{{kind: c, kids: []*c11mNode{a1, a2}}}, rows)
				}
			}
		}
		// (2) the same literal on set-valued left-hand sides and inside / across sub-queries (store only)
		for i, op1 := range c11qOps {
			for j, op2 := range []string{"icontains", "nicontains", "eq", "in", "contains", "neq"} {
				if !thorough && (i+j+bi)%2 == 1 {
					continue
				}
				c := conn[(i+j)%2]
				sub := c11mSubKinds[(i+j+bi)%3]
				lhs := []string{"any", "all", "anyfk"}[(i+j+bi)%3]
				a1 := func(l string) *c11mNode { return c11mAtom(l, op1, "full", lits(op1)...) }
				a2 := func(l string) *c11mNode { return c11mAtom(l, op2, "full", lits(op2)...) }
				m.emit("st", []*c11mNode{{kind: c, kids: []*c11mNode{a1(lhs), a2("name")}}}, rows)
				m.emit("st", []*c11mNode{{kind: c, kids: []*c11mNode{a2("descr"), a1(lhs)}}}, rows)
				m.emit("st", []*c11mNode{{kind: c, kids: []*c11mNode{{kind: sub, kids: []*c11mNode{a1("name")}}, a2("name")}}}, rows)
				m.emit("st", []*c11mNode{{kind: sub, kids: []*c11mNode{{kind: c, kids: []*c11mNode{a1("name"), a2("name")}}}}}, rows)
				m.emit("st", []*c11mNode{{kind: "ne", kids: []*c11mNode{a1("name")}}, {kind: sub, kids: []*c11mNode{a2("name")}}}, rows)
			}
		}
	}

	// (3) random filters of 2-5 comparisons over a string and its relatives, and sequences of 2-3 filters
	var pool [][]byte
	pool = append(pool, bases...)
	for _, w := range c11qKeywords {
		pool = append(pool, []byte(w), []byte(c11qCase(w, 2)))
	}
	for _, w := range c11qQueryLike {
		pool = append(pool, []byte(w))
	}
	nRand := 1200
	if thorough {
		nRand = 30000
	}
	for i := 0; i < nRand; i++ {
		var s []byte
		switch r.intn(4) {
		case 0:
			s = pool[r.intn(len(pool))]
		case 1:
			for j, l := 0, 1+r.intn(8); j < l; j++ {
				s = append(s, c11Wide[r.intn(len(c11Wide))]...)
			}
		default:
			for j, l := 0, 1+r.intn(6); j < l; j++ {
				s = append(s, c11mLetters[r.intn(len(c11mLetters))]...)
			}
		}
		if !utf8.Valid(s) || !c11qExpressible("full", s) {
			continue
		}
		m.setBase(s)
		m.env = []string{"sym", "st", "st"}[r.intn(3)]
		rows := c11mRows(r, s, 4)
		nf := 1
		if r.chance(30) {
			nf = 2 + r.intn(2)
		}
		for rep := 0; rep < 3; rep++ { // several filters over one dataset
			var filters []*c11mNode
			for k := 0; k < nf; k++ {
				na := 2 + r.intn(4)
				if nf > 1 {
					na = 1 + r.intn(2)
				}
				filters = append(filters, m.tree(na, false))
			}
			m.emit(m.env, filters, rows)
		}
	}
	g.stats["M_datasets"] = g.env.setups - g.stats["Q_datasets"]
}
