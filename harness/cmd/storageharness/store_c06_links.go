package main

// C06 - the single-link API of a link collection and list entries that are written and consulted inside ONE
// transaction (design/C06.md, "Strengthening: links added / removed one by one inside one transaction").
//
// Operation kinds (shared op format of store.go; model: coq/theories/Store/LinkOne.v):
//   AL1 <store> <id> <linkfield> <k> <target>*k   one LinkCollection.AddLink(tx, id, target) per target; the database is the
//                                                 one AddLinks leaves; every call that returns a nil error reports
//                                                 "target was NOT yet a member of the local link set"
//   RL1 <store> <id> <linkfield> <k> <target>*k   one LinkCollection.RemoveLink per target; database as RemoveLinks; reports
//                                                 "target WAS a member of the local link set"
//   LQ  <store> <id> <setfield>  <k> <target>*k   read-only probes INSIDE the transaction: is target a member of the set
//                                                 <setfield> kept in the bucket of entity <id> of <store>.  For a link field all of
//                                                 LinkCollection.IsLinked (cursor seek), LinkedSetSymbol.IsLinked and
//                                                 BaseStore.IsEntityRelated (TypedBucket.IsKeyPresent), GetLinks are asked and
//                                                 must agree; for a back-reference set / string list IsEntityRelated
// The observed bools are printed per transaction as LB:<operation index>:<b>,<b>,.. (b = 1 | 0 | x<bits> when the probes
// of one LQ target disagree) and compared with the model's.
//
// Stream "link sequences" (generated after every older stream, so those are unchanged for a seed): on the wirings that
// declare link collections (root <-> root, child <-> root, child <-> child) one pair (x, t) is linked / unlinked / probed
// several times INSIDE one transaction - add-remove, add-remove-add, remove-add, add-add, remove-remove, .. through
// AL1 / RL1 (mostly) and AL / RL, from either side, on committed or not yet committed links, with entities created by the
// same transaction or earlier - then either end is deleted (same transaction or later), the id is created again, linked
// again, and the other end is deleted.

import (
	"fmt"
	"strings"

	"github.com/openziti/storage/boltz"
	"github.com/pkg/errors"
)

var c06LinkSeqWirings = []string{"idx", "cl", "C06cp", "C06cx", "C06cm"}

func c06ExecLinkOp(h *harnessDb, ctx boltz.MutateContext, op *hOp) error {
	gs := h.stores[op.Store]
	if gs == nil {
		return errors.New("unknown store")
	}
	lc := gs.links[op.LinkF]
	tx := ctx.Tx()
	var bits []string
	defer func() { h.opObs = strings.Join(bits, ",") }()
	switch op.Kind {
	case "AL1", "RL1":
		if lc == nil {
			return errors.New("no such link collection")
		}
		for _, t := range op.Targets {
			var changed bool
			var err error
			if op.Kind == "AL1" {
				changed, err = lc.AddLink(tx, []byte(op.Id), []byte(t))
			} else {
				changed, err = lc.RemoveLink(tx, []byte(op.Id), []byte(t))
			}
			if err != nil {
				return err
			}
			bits = append(bits, b01(changed))
		}
	case "LQ":
		// the symbol of the LOCAL link set as the other side's collection knows it
		var local *boltz.LinkedSetSymbol
		if lc != nil {
			for _, l := range gs.def.Links {
				if l.Local == op.LinkF {
					if oc := h.stores[l.Other].links[l.OtherField]; oc != nil {
						local, _ = oc.GetLinkedSymbol().(*boltz.LinkedSetSymbol)
					}
				}
			}
		}
		for _, t := range op.Targets {
			probes := []bool{gs.IsEntityRelated(tx, op.Id, op.LinkF, t)}
			if local != nil {
				probes = append(probes, local.IsLinked(tx, []byte(op.Id), []byte(t)))
			}
			if lc != nil {
				in := false
				for _, m := range lc.GetLinks(tx, op.Id) {
					in = in || m == t
				}
				probes = append(probes, in, lc.IsLinked(tx, []byte(op.Id), []byte(t)))
			}
			all, any := true, false
			for _, p := range probes {
				all = all && p
				any = any || p
			}
			switch {
			case all:
				bits = append(bits, "1")
			case !any:
				bits = append(bits, "0")
			default:
				s := "x"
				for _, p := range probes {
					s += b01(p)
				}
				bits = append(bits, s)
			}
		}
	}
	return nil
}

// ids that are prefixes of one another (a presence test by cursor seek must compare the whole key)
var c06PrefixIds = []string{"m", "m1", "m12", "m123", "m2", "m21"}

// c06SeqPatterns: what happens to ONE pair inside one transaction (A = add, R = remove)
var c06SeqPatterns = []string{"AR", "ARA", "RA", "AA", "RR", "ARR", "ARAR", "RAR", "AAR", "RAA", "A", "R"}

// genLinkSeqC06: see the file comment.  Generated against the live database like the bursts.
func (g *histGen) genLinkSeqC06(h *harnessDb, stats map[string]int) ([]hTx, []string) {
	g.p.endInDelete = false
	g.alive = map[string]map[string]bool{}
	for _, s := range g.w.Stores {
		g.alive[s.Name] = map[string]bool{}
	}
	var txs []hTx
	var obs []string
	sync := func() {
		for len(obs) < len(txs) {
			c06Route(g.w, &txs[len(obs)])
			obs = append(obs, h.runTxC06(&txs[len(obs)]))
		}
		g.refresh(h)
	}
	for i, n := 0, 1+g.r.intn(4); i < n; i++ {
		st := g.w.Stores[g.r.intn(len(g.w.Stores))]
		id := g.pickId()
		for try := 0; try < 4 && g.alive[g.rootOf(st.Name)][id]; try++ {
			id = g.pickId()
		}
		txs = g.validCreate(txs, st, id, 0)
	}
	for i, n := 0, g.r.intn(3); i < n; i++ {
		txs = append(txs, g.genTx())
	}
	sync()
	g.ids = append(append(append([]string{}, g.ids...), c06BurstIds...), c06BurstIds2...)
	for _, id := range c06PrefixIds {
		known := false
		for _, k := range g.ids {
			known = known || k == id
		}
		if !known {
			g.ids = append(g.ids, id)
		}
	}

	var cols []c06Link
	for _, s := range g.w.Stores {
		for _, l := range s.Links {
			cols = append(cols, c06Link{s.Name, l})
		}
	}
	if len(cols) == 0 {
		return txs, obs
	}
	lk := cols[g.r.intn(len(cols))]
	s, l := lk.store, lk.l
	sroot, oroot := g.rootOf(s), g.rootOf(l.Other)
	stats["linkseq_collection_"+s+"."+l.Local]++

	var ops []hOp
	commit := func(sys bool) {
		if len(ops) > 0 {
			txs = append(txs, hTx{Sys: sys, Ops: ops})
			ops = nil
			sync()
		}
	}
	lastCommitted := func() bool { return len(obs) > 0 && strings.Contains(obs[len(obs)-1], " COMMIT") }

	// the subject x (lives in s) and its peers (live in l.Other)
	x := c06Reserved
	if al := g.aliveIds(s); len(al) > 0 && g.r.chance(30) {
		x = al[g.r.intn(len(al))]
	} else {
		if g.r.chance(40) {
			x = c06BurstIds[g.r.intn(len(c06BurstIds))]
		}
		if g.alive[sroot][x] {
			return txs, obs
		}
		ops = g.c06BurstCreate(ops, g.w.store(s), x, nil, g.r.chance(30), 0)
		cr := ops[len(ops)-1]
		// entries the create has just written, consulted in the same transaction: the back-reference set its fk fields put
		// on their targets, its own string lists
		if g.r.chance(50) {
			for _, d := range g.w.Script {
				if (d.Kind == "fkindex" || d.Kind == "fkindexcascade") && (d.Store == s || d.Store == sroot) {
					if v := cr.F[d.Field]; v != nil && *v != "" {
						ops = append(ops, hOp{Kind: "LQ", Store: d.Target, Id: *v, LinkF: d.Back, Targets: []string{x, "nobody"}})
					}
				}
			}
		}
		if g.r.chance(30) {
			for sn, ms := range cr.S {
				if len(ms) > 0 {
					ops = append(ops, hOp{Kind: "LQ", Store: sroot, Id: x, LinkF: sn, Targets: []string{ms[g.r.intn(len(ms))], "nothing"}})
				}
			}
		}
	}
	pool := c06BurstIds2
	switch k := g.r.intn(100); {
	case k < 25:
		pool = append(append([]string{}, plainIds...), c06BurstIds2...)
	case k < 50:
		pool = c06PrefixIds
		stats["linkseq_prefix_peers"]++
	}
	var peers []string
	for _, t := range g.c06Window(pool, 1+g.r.intn(3)) {
		if g.alive[oroot][t] && !g.alive[l.Other][t] {
			continue // taken by an entity of the parent store that does not live in the child store on the other side
		}
		if oroot == sroot && t == x {
			continue
		}
		peers = append(peers, t)
	}
	if len(peers) == 0 {
		commit(true)
		return txs, obs
	}
	if g.r.chance(65) {
		commit(true) // x committed before its peers exist
	}
	lateCreate := g.r.chance(30) // the peers are created by the transaction that links them
	mkPeers := func() {
		for _, t := range peers {
			if !g.alive[l.Other][t] {
				ops = g.c06BurstCreate(ops, g.w.store(l.Other), t, nil, false, 0)
			}
		}
	}
	if !lateCreate {
		mkPeers()
		if g.r.chance(70) {
			commit(true)
		}
	}
	single := func(kind string) string { // mostly the change-reporting single-link variant
		if g.r.chance(80) {
			return kind + "1"
		}
		return kind
	}
	linkOp := func(add bool, t string, fromOther bool) hOp {
		kind := "RL"
		if add {
			kind = "AL"
		}
		if fromOther {
			return hOp{Kind: single(kind), Store: l.Other, Id: t, LinkF: l.OtherField, Targets: []string{x}}
		}
		return hOp{Kind: single(kind), Store: s, Id: x, LinkF: l.Local, Targets: []string{t}}
	}
	probe := func(t string) {
		if g.r.chance(50) {
			ops = append(ops, hOp{Kind: "LQ", Store: s, Id: x, LinkF: l.Local, Targets: append([]string{t}, peers[g.r.intn(len(peers))])})
		} else {
			ops = append(ops, hOp{Kind: "LQ", Store: l.Other, Id: t, LinkF: l.OtherField, Targets: []string{x}})
		}
	}
	// links committed before the churn (so that the sequence also starts from a committed entry)
	if !lateCreate && len(ops) == 0 && g.r.chance(45) {
		for _, t := range peers {
			if g.r.chance(60) {
				ops = append(ops, linkOp(true, t, g.r.chance(40)))
			}
		}
		commit(true)
		stats["linkseq_precommitted_links"]++
	}
	// the churn transaction
	if lateCreate {
		mkPeers()
	}
	focus := peers[g.r.intn(len(peers))]
	for round, nr := 0, 1+g.r.intn(2); round < nr; round++ {
		t := focus
		if round > 0 {
			t = peers[g.r.intn(len(peers))]
		}
		pat := c06SeqPatterns[g.r.intn(len(c06SeqPatterns))]
		stats["linkseq_pattern_"+pat]++
		side := g.r.chance(30)
		for _, c := range pat {
			if g.r.chance(25) {
				side = !side
			}
			ops = append(ops, linkOp(c == 'A', t, side))
			if g.r.chance(30) {
				probe(t)
			}
		}
		if g.r.chance(20) { // several calls in one operation: the same target twice, neighbours
			ts := append([]string{t}, peers...)
			ops = append(ops, hOp{Kind: []string{"AL1", "RL1"}[g.r.intn(2)], Store: s, Id: x, LinkF: l.Local, Targets: ts})
		}
		if g.r.chance(20) {
			if op := g.opOn(g.w.store(s), x); op.Kind == "UP" && op.Id == x {
				ops = append(ops, op)
			}
		}
	}
	// which end goes first
	delX := g.r.chance(45)
	delOp := func(first bool) hOp {
		store, id := l.Other, focus
		if delX == first {
			store, id = s, x
		}
		if g.r.chance(35) {
			store = g.rootOf(store)
		}
		g.markDeleted(store, id)
		return hOp{Kind: "D", Store: store, Id: id}
	}
	if g.r.chance(35) {
		ops = append(ops, delOp(true))
		stats["linkseq_delete_in_churn_tx"]++
	} else {
		commit(!g.r.chance(10))
		if lastCommitted() {
			stats["linkseq_churn_tx_committed"]++
		}
		if g.r.chance(30) {
			probe(focus)
		}
		if g.r.chance(25) {
			ops = append(ops, linkOp(g.r.chance(50), focus, g.r.chance(50)))
		}
		ops = append(ops, delOp(true))
	}
	commit(true)
	if lastCommitted() {
		stats["linkseq_delete_tx_committed"]++
	}
	// the id again: linking it must report a NEW link, the probes must not see the old one
	gone, goneStore, stay, stayStore := focus, l.Other, x, s
	if delX {
		gone, goneStore, stay, stayStore = x, s, focus, l.Other
	}
	if g.r.chance(70) && !g.alive[g.rootOf(goneStore)][gone] {
		ops = g.c06BurstCreate(ops, g.w.store(goneStore), gone, nil, false, 0)
		if g.r.chance(50) {
			commit(true)
		}
		if g.alive[stayStore][stay] {
			probe(focus)
			ops = append(ops, linkOp(true, focus, g.r.chance(50)))
			if g.r.chance(50) {
				ops = append(ops, linkOp(false, focus, g.r.chance(50)))
			}
			if g.r.chance(40) {
				probe(focus)
			}
		}
		commit(true)
	}
	// the other end
	if g.r.chance(60) && g.alive[stayStore][stay] {
		ops = append(ops, delOp(false))
		commit(true)
		if lastCommitted() {
			stats["linkseq_second_delete_committed"]++
		}
	}
	if len(peers) > 1 && g.r.chance(40) {
		t := peers[g.r.intn(len(peers))]
		if g.alive[l.Other][t] {
			g.markDeleted(l.Other, t)
			ops = append(ops, hOp{Kind: "D", Store: l.Other, Id: t})
			commit(true)
		}
	}
	return txs, obs
}

// ---- ref-counted collections: one pair counted up / down / set several times inside one transaction --------------
//
// RC case lines (runRcCase; p.qs <-> q.ps): hub x1 of one store, 1..3 neighbours of the other; one transaction applies a
// pattern of INC / DEC / SET to ONE pair from either side (count written and read back before the commit: up-down,
// up-down-up, down-up, up-up-down-down, set-n set-0, ..), then either end is deleted (same transaction or later), the id
// comes back, is counted again, and the other end goes.
var c06RcSeqPatterns = []string{"ID", "IDI", "DI", "IIDD", "IID", "S2S0", "S1D", "IS0I", "DD", "S0I", "IS3D", "I"}

func genRcSeqCase(r *rng) string {
	other := map[string]string{"p": "q", "q": "p"}
	store := []string{"p", "q"}[r.intn(2)]
	x := "x1"
	n := 1 + r.intn(3)
	from := r.intn(len(c06BurstIds) - n + 1)
	win := c06BurstIds[from : from+n]
	var sb strings.Builder
	sb.WriteString("RC")
	var ops []string
	flush := func() {
		if len(ops) > 0 {
			fmt.Fprintf(&sb, " TX %d %s", len(ops), strings.Join(ops, " "))
			ops = nil
		}
	}
	ops = append(ops, fmt.Sprintf("C %s %s", store, hxs(x)))
	if r.chance(50) {
		flush()
	}
	for _, k := range win {
		ops = append(ops, fmt.Sprintf("C %s %s", other[store], hxs(k)))
	}
	if r.chance(70) {
		flush()
	}
	focus := win[r.intn(n)]
	rcOp := func(kind string, cnt int, k string) string {
		a, ai, bi := store, x, k
		if r.chance(35) { // from the other side
			a, ai, bi = other[store], k, x
		}
		if kind == "SET" {
			return fmt.Sprintf("SET %s %s %s %d", a, hxs(ai), hxs(bi), cnt)
		}
		return fmt.Sprintf("%s %s %s %s", kind, a, hxs(ai), hxs(bi))
	}
	if len(ops) == 0 && r.chance(40) { // counts committed before the churn
		for _, k := range win {
			if r.chance(60) {
				ops = append(ops, rcOp("INC", 0, k))
			}
		}
		flush()
	}
	for round, nr := 0, 1+r.intn(2); round < nr; round++ {
		k := focus
		if round > 0 {
			k = win[r.intn(n)]
		}
		pat := c06RcSeqPatterns[r.intn(len(c06RcSeqPatterns))]
		for i := 0; i < len(pat); i++ {
			switch pat[i] {
			case 'I':
				ops = append(ops, rcOp("INC", 0, k))
			case 'D':
				ops = append(ops, rcOp("DEC", 0, k))
			case 'S':
				i++
				ops = append(ops, rcOp("SET", int(pat[i]-'0'), k))
			}
		}
	}
	delX := r.chance(45)
	del := func(first bool) string {
		if delX == first {
			return fmt.Sprintf("D %s %s", store, hxs(x))
		}
		return fmt.Sprintf("D %s %s", other[store], hxs(focus))
	}
	create := func(first bool) string {
		if delX == first {
			return fmt.Sprintf("C %s %s", store, hxs(x))
		}
		return fmt.Sprintf("C %s %s", other[store], hxs(focus))
	}
	if !r.chance(35) {
		flush()
		if r.chance(25) {
			ops = append(ops, rcOp([]string{"INC", "DEC"}[r.intn(2)], 0, focus))
		}
	}
	ops = append(ops, del(true))
	flush()
	if r.chance(70) {
		ops = append(ops, create(true))
		if r.chance(50) {
			flush()
		}
		ops = append(ops, rcOp("INC", 0, focus))
		if r.chance(50) {
			ops = append(ops, rcOp("DEC", 0, focus))
		}
		flush()
	}
	if r.chance(60) {
		ops = append(ops, del(false))
		flush()
	}
	return sb.String()
}
