package main

import (
	"fmt"
	"math"
	"os"
	"strconv"
	"strings"
	"time"

	"github.com/openziti/storage/boltz"
	"github.com/openziti/storage/objectz"
	"go.etcd.io/bbolt"
)

// C19 - the in-memory object store against the bolt store on the same values.  Case kinds (see
// coq/extraction/c19_driver.ml):
//
//	D <n> <ncols> { <id> <cell>*ncols }*n          dataset (shared with C02, see c02.go)
//	Q <order> <filter> <nsort> {sort}* <skip> <limit>
//
// impl line for Q:  objectz=<count>:<ids> boltz=<count>:<ids>    (ERR / PANIC instead of a value)
func init() { commands["c19"] = runC19 }

// ---- scalar filters ---------------------------------------------------------------------------------

type sfNode struct {
	kind  string // T F N A O cmp null has in btw sym
	kids  []*sfNode
	col   int // -1 = id
	op    string
	neg   bool
	icase bool
	lits  []sfLit
}

// a literal: the token for the model and the text for the query
type sfLit struct {
	token string
	text  string
}

func sfColName(col int) string {
	if col < 0 {
		return "id"
	}
	return qCols[col].name
}

func sfColType(col int) byte {
	if col < 0 {
		return 's'
	}
	return qCols[col].typ
}

func sfColTok(col int) string {
	if col < 0 {
		return "id s"
	}
	return fmt.Sprintf("%d %c", col, qCols[col].typ)
}

var sfOpText = map[string]string{"eq": "=", "ne": "!=", "lt": "<", "le": "<=", "gt": ">", "ge": ">="}
var sfOps = []string{"eq", "ne", "lt", "le", "gt", "ge"}

func (n *sfNode) term() string {
	switch n.kind {
	case "T", "F":
		return n.kind
	case "N":
		return "N " + n.kids[0].term()
	case "A", "O":
		return n.kind + " " + n.kids[0].term() + " " + n.kids[1].term()
	case "cmp":
		return fmt.Sprintf("cmp %s %s %s", sfColTok(n.col), n.op, n.lits[0].token)
	case "null":
		return fmt.Sprintf("null %s %s", sfColTok(n.col), b01(n.neg))
	case "has":
		return fmt.Sprintf("has %s %s %s %s", sfColTok(n.col), b01(n.neg), b01(n.icase), n.lits[0].token)
	case "in":
		toks := make([]string, len(n.lits))
		for i, l := range n.lits {
			toks[i] = l.token
		}
		return fmt.Sprintf("in %s %d %s", sfColTok(n.col), len(n.lits), strings.Join(toks, " "))
	case "btw":
		return fmt.Sprintf("btw %s %s %s", sfColTok(n.col), n.lits[0].token, n.lits[1].token)
	case "sym":
		return "sym " + sfColTok(n.col)
	}
	panic("bad node")
}

// text prints the filter as ZitiQL; every operand of not/and/or is parenthesised so that the
// result does not depend on operator precedence (property C12)
func (n *sfNode) text() string {
	name := sfColName(n.col)
	switch n.kind {
	case "T":
		return "true"
	case "F":
		return "false"
	case "N":
		return "(not (" + n.kids[0].text() + "))"
	case "A":
		return "((" + n.kids[0].text() + ") and (" + n.kids[1].text() + "))"
	case "O":
		return "((" + n.kids[0].text() + ") or (" + n.kids[1].text() + "))"
	case "cmp":
		return name + " " + sfOpText[n.op] + " " + n.lits[0].text
	case "null":
		if n.neg {
			return name + " != null"
		}
		return name + " = null"
	case "has":
		op := "contains"
		if n.icase {
			op = "icontains"
		}
		if n.neg {
			op = "not " + op
		}
		return name + " " + op + " " + n.lits[0].text
	case "in":
		texts := make([]string, len(n.lits))
		for i, l := range n.lits {
			texts[i] = l.text
		}
		return name + " in [" + strings.Join(texts, ", ") + "]"
	case "btw":
		return name + " between " + n.lits[0].text + " and " + n.lits[1].text
	case "sym":
		return name
	}
	panic("bad node")
}

func (n *sfNode) hasKind(kind string) bool {
	if n.kind == kind {
		return true
	}
	for _, k := range n.kids {
		if k.hasKind(kind) {
			return true
		}
	}
	return false
}

// sfStrLit: the literal is spelled with the escapes of the grammar (ESC: \\ \" \f \n \r \t); every other
// character verbatim (the pools hold only strings a literal can spell: no other control characters)
func sfStrLit(s string) sfLit { return sfLit{token: "S" + hxs(s), text: `"` + c19ZqlEscaper.Replace(s) + `"`} }

var c19ZqlEscaper = strings.NewReplacer(`\`, `\\`, `"`, `\"`, "\f", `\f`, "\n", `\n`, "\r", `\r`, "\t", `\t`)
func sfIntLit(v int64) sfLit {
	return sfLit{token: "I" + strconv.FormatInt(v, 10), text: strconv.FormatInt(v, 10)}
}
func sfBoolLit(b bool) sfLit {
	if b {
		return sfLit{token: "B1", text: "true"}
	}
	return sfLit{token: "B0", text: "false"}
}

// sfFloatLit: a NUMBER literal used with a float symbol.  The model receives the float64 the
// listener/typer produce for this text: integers go through ParseInt and float64(int64).
func sfFloatLit(v float64) sfLit {
	text := strconv.FormatFloat(v, 'g', -1, 64)
	// the grammar's exponent is an INT without leading zeros: 1e-07 is spelled 1e-7
	for _, sign := range []string{"e+0", "e-0"} {
		if i := strings.Index(text, sign); i >= 0 && i+3 < len(text) {
			text = text[:i+2] + text[i+3:]
		}
	}
	return sfFloatLitText(text)
}

func sfFloatLitText(text string) sfLit {
	var bits uint64
	if iv, err := strconv.ParseInt(text, 10, 64); err == nil {
		bits = math.Float64bits(float64(iv))
	} else {
		fv, _ := strconv.ParseFloat(text, 64)
		bits = math.Float64bits(fv)
	}
	return sfLit{token: fmt.Sprintf("F%016x", bits), text: text}
}

func sfTimeLit(sec, nsec int64) sfLit {
	t := time.Unix(sec, nsec).UTC()
	return sfLit{token: fmt.Sprintf("T%d:%d", sec, nsec), text: "datetime(" + t.Format("2006-01-02T15:04:05.999999999Z07:00") + ")"}
}

var sfNeedles = []string{"", "a", "b", "A", "ab", "0", "1", " ", "z", "B"}
var sfFloatTexts = []string{"0", "-0", "1", "-2", "1.5", "-2.0", "42", "5e-324", "1e+308", "-1e-300", "1e308", "0.0", "9007199254740993", "-1", "2.5e0"}

func sfLitFor(r *rng, typ byte) sfLit {
	if c19xLiterals && r.chance(70) {
		// a collection of extreme values (c19ext.go): literals at and next to those values
		if l, ok := c19xLitFor(r, typ); ok {
			return l
		}
	}
	switch typ {
	case 's':
		if r.chance(70) {
			return sfStrLit(r.pick(qStrings))
		}
		return sfStrLit(r.pick(sfNeedles))
	case 'i':
		switch r.intn(4) {
		case 0:
			return sfIntLit(qInts[r.intn(len(qInts))])
		case 1:
			return sfIntLit(qInt32s[r.intn(len(qInt32s))])
		default:
			return sfIntLit(int64(r.intn(9)) - 2)
		}
	case 'f':
		if r.chance(50) {
			v := qFloats[r.intn(len(qFloats))]
			if !math.IsInf(v, 0) {
				return sfFloatLit(v)
			}
		}
		return sfFloatLitText(r.pick(sfFloatTexts))
	case 'b':
		return sfBoolLit(r.chance(50))
	case 't':
		t := qTimes[r.intn(len(qTimes))]
		if r.chance(25) {
			// stay within the years RFC 3339 can express
			if sec := t[0] + int64(r.intn(3)) - 1; sec >= -62135596800 && sec <= 253402300799 {
				return sfTimeLit(sec, t[1])
			}
		}
		return sfTimeLit(t[0], t[1])
	}
	panic("bad type")
}

// sfAtoms enumerates one atom of every (kind, operator) applicable to the column
func sfAtoms(r *rng, col int) []*sfNode {
	typ := sfColType(col)
	var out []*sfNode
	add := func(n *sfNode) { n.col = col; out = append(out, n) }
	add(&sfNode{kind: "null"})
	add(&sfNode{kind: "null", neg: true})
	switch typ {
	case 's':
		for _, op := range sfOps {
			add(&sfNode{kind: "cmp", op: op, lits: []sfLit{sfLitFor(r, 's')}})
		}
		add(&sfNode{kind: "cmp", op: sfOps[r.intn(6)], lits: []sfLit{sfIntLit(int64(r.intn(12)))}})
		add(&sfNode{kind: "has", lits: []sfLit{sfStrLit(r.pick(sfNeedles))}})
		add(&sfNode{kind: "has", neg: true, lits: []sfLit{sfStrLit(r.pick(sfNeedles))}})
		add(&sfNode{kind: "has", lits: []sfLit{sfIntLit(int64(r.intn(11)))}})
		for _, neg := range []bool{false, true} {
			ic := &sfNode{kind: "has", neg: neg, icase: true, col: col, lits: []sfLit{sfStrLit(r.pick(sfNeedles))}}
			if col >= 0 {
				// the upper-casing node of the pinned tree dereferences a nil value (a C01 finding);
				// C19 guards the operand so that both stores evaluate it only on non-null values
				out = append(out, &sfNode{kind: "A", kids: []*sfNode{{kind: "null", neg: true, col: col}, ic}})
			} else {
				out = append(out, ic)
			}
		}
		add(&sfNode{kind: "in", lits: []sfLit{sfLitFor(r, 's'), sfLitFor(r, 's'), sfLitFor(r, 's')}})
	case 'i':
		for _, op := range sfOps {
			add(&sfNode{kind: "cmp", op: op, lits: []sfLit{sfLitFor(r, 'i')}})
		}
		add(&sfNode{kind: "has", lits: []sfLit{sfIntLit(int64(r.intn(10)))}})
		add(&sfNode{kind: "has", neg: true, lits: []sfLit{sfStrLit(strconv.Itoa(r.intn(10)))}})
		add(&sfNode{kind: "has", lits: []sfLit{sfStrLit("-")}})
		add(&sfNode{kind: "in", lits: []sfLit{sfLitFor(r, 'i'), sfLitFor(r, 'i')}})
		lo := int64(r.intn(8)) - 3
		add(&sfNode{kind: "btw", lits: []sfLit{sfIntLit(lo), sfIntLit(lo + int64(r.intn(8)))}})
		add(&sfNode{kind: "btw", lits: []sfLit{sfIntLit(math.MinInt64), sfIntLit(math.MaxInt64)}})
	case 'f':
		for _, op := range sfOps {
			add(&sfNode{kind: "cmp", op: op, lits: []sfLit{sfLitFor(r, 'f')}})
		}
		add(&sfNode{kind: "in", lits: []sfLit{sfLitFor(r, 'f'), sfLitFor(r, 'f'), sfLitFor(r, 'f')}})
		add(&sfNode{kind: "in", lits: []sfLit{sfFloatLitText("0"), sfFloatLitText("42")}})
		add(&sfNode{kind: "btw", lits: []sfLit{sfFloatLitText("-2"), sfFloatLitText("1.5")}})
		add(&sfNode{kind: "btw", lits: []sfLit{sfLitFor(r, 'f'), sfLitFor(r, 'f')}})
	case 'b':
		for _, op := range []string{"eq", "ne"} {
			add(&sfNode{kind: "cmp", op: op, lits: []sfLit{sfBoolLit(true)}})
			add(&sfNode{kind: "cmp", op: op, lits: []sfLit{sfBoolLit(false)}})
		}
		add(&sfNode{kind: "sym"})
	case 't':
		for _, op := range sfOps {
			add(&sfNode{kind: "cmp", op: op, lits: []sfLit{sfLitFor(r, 't')}})
		}
		add(&sfNode{kind: "in", lits: []sfLit{sfLitFor(r, 't'), sfLitFor(r, 't')}})
		add(&sfNode{kind: "btw", lits: []sfLit{sfTimeLit(99, 999999999), sfTimeLit(100, 5)}})
		add(&sfNode{kind: "btw", lits: []sfLit{sfLitFor(r, 't'), sfLitFor(r, 't')}})
	}
	return out
}

func sfRandomAtom(r *rng) *sfNode {
	col := r.intn(len(qCols)+1) - 1
	atoms := sfAtoms(r, col)
	if r.chance(30) {
		return atoms[r.intn(2)] // null tests are what objectz implements itself
	}
	return atoms[r.intn(len(atoms))]
}

func sfRandom(r *rng, depth int) *sfNode {
	if depth == 0 || r.chance(35) {
		switch r.intn(20) {
		case 0:
			return &sfNode{kind: "T"}
		case 1:
			return &sfNode{kind: "F"}
		}
		return sfRandomAtom(r)
	}
	switch r.intn(5) {
	case 0:
		return &sfNode{kind: "N", kids: []*sfNode{sfRandom(r, depth-1)}}
	case 1, 2:
		return &sfNode{kind: "A", kids: []*sfNode{sfRandom(r, depth-1), sfRandom(r, depth-1)}}
	default:
		return &sfNode{kind: "O", kids: []*sfNode{sfRandom(r, depth-1), sfRandom(r, depth-1)}}
	}
}

// filters the model does not type (the typer rejects them, or they need float formatting)
func sfUnmodelled(r *rng) *sfNode {
	switch r.intn(4) {
	case 0:
		return &sfNode{kind: "has", col: qColFi, icase: true, lits: []sfLit{sfStrLit("1")}}
	case 1:
		return &sfNode{kind: "cmp", col: qColFt, op: "eq", lits: []sfLit{sfIntLit(5)}}
	case 2:
		return &sfNode{kind: "cmp", col: qColFi, op: "eq", lits: []sfLit{sfStrLit("5")}}
	default:
		return &sfNode{kind: "sym", col: qColFs}
	}
}

// sfParse rebuilds a filter from its prefix term (replay)
func sfParse(toks []string) (*sfNode, []string, error) {
	if len(toks) == 0 {
		return nil, nil, fmt.Errorf("empty filter")
	}
	col := func(c string) int {
		if c == "id" {
			return -1
		}
		v, _ := strconv.Atoi(c)
		return v
	}
	lit := func(tok string) (sfLit, error) {
		c, err := qParseCell(tok)
		if err != nil {
			return sfLit{}, err
		}
		switch c.kind {
		case 'S':
			return sfStrLit(c.s), nil
		case 'I':
			return sfIntLit(c.i), nil
		case 'B':
			return sfBoolLit(c.b), nil
		case 'T':
			return sfTimeLit(c.sec, c.nsec), nil
		case 'F':
			l := sfFloatLit(math.Float64frombits(c.f))
			return sfLit{token: tok, text: l.text}, nil
		}
		return sfLit{}, fmt.Errorf("bad literal %q", tok)
	}
	switch toks[0] {
	case "T", "F":
		return &sfNode{kind: toks[0]}, toks[1:], nil
	case "N":
		k, rest, err := sfParse(toks[1:])
		return &sfNode{kind: "N", kids: []*sfNode{k}}, rest, err
	case "A", "O":
		k1, rest, err := sfParse(toks[1:])
		if err != nil {
			return nil, nil, err
		}
		k2, rest2, err := sfParse(rest)
		return &sfNode{kind: toks[0], kids: []*sfNode{k1, k2}}, rest2, err
	case "cmp":
		l, err := lit(toks[4])
		return &sfNode{kind: "cmp", col: col(toks[1]), op: toks[3], lits: []sfLit{l}}, toks[5:], err
	case "null":
		return &sfNode{kind: "null", col: col(toks[1]), neg: toks[3] == "1"}, toks[4:], nil
	case "has":
		l, err := lit(toks[5])
		return &sfNode{kind: "has", col: col(toks[1]), neg: toks[3] == "1", icase: toks[4] == "1", lits: []sfLit{l}}, toks[6:], err
	case "in":
		k, _ := strconv.Atoi(toks[3])
		n := &sfNode{kind: "in", col: col(toks[1])}
		for i := 0; i < k; i++ {
			l, err := lit(toks[4+i])
			if err != nil {
				return nil, nil, err
			}
			n.lits = append(n.lits, l)
		}
		return n, toks[4+k:], nil
	case "btw":
		l1, err := lit(toks[3])
		if err != nil {
			return nil, nil, err
		}
		l2, err := lit(toks[4])
		return &sfNode{kind: "btw", col: col(toks[1]), lits: []sfLit{l1, l2}}, toks[5:], err
	case "sym":
		return &sfNode{kind: "sym", col: col(toks[1])}, toks[3:], nil
	}
	return nil, nil, fmt.Errorf("bad filter token %q", toks[0])
}

// ---- the object store ---------------------------------------------------------------------------------

type c19SliceIter struct {
	rows []*qRow
	pos  int
}

func (it *c19SliceIter) IsValid() bool { return it.pos < len(it.rows) }
func (it *c19SliceIter) Next()         { it.pos++ }
func (it *c19SliceIter) Current() *qRow {
	if it.pos < len(it.rows) {
		return it.rows[it.pos]
	}
	return nil
}

// c19Objects: two object stores over the current collection.  `store` is fed by the harness's own iterator in the
// order the case prescribes; `mstore` is fed by the library's iterator helper, objectz.IterateMap, over a
// map[string]*qRow that lives as long as the store and is emptied and re-populated when the collection changes
// (Go map order: any order, see objectz_order_irrelevant).  reset replaces both by new ObjectStore instances
// (case line S); without it the same two instances answer every query of the run.
type c19Objects struct {
	store  *objectz.ObjectStore[*qRow]
	mstore *objectz.ObjectStore[*qRow]
	m      map[string]*qRow
	loaded *qDataset
	order  []*qRow
}

func newC19Objects() *c19Objects {
	o := &c19Objects{}
	o.reset()
	return o
}

func (o *c19Objects) reset() {
	o.store = objectz.NewObjectStore[*qRow](func() objectz.ObjectIterator[*qRow] {
		return &c19SliceIter{rows: o.order}
	})
	m := map[string]*qRow{}
	o.m, o.loaded = m, nil
	o.mstore = objectz.NewObjectStore[*qRow](func() objectz.ObjectIterator[*qRow] {
		return objectz.IterateMap(m)
	})
	c19AddSymbols(o.store)
	c19AddSymbols(o.mstore)
}

// sync makes the map hold exactly the objects of d: emptied, then populated (the map object stays the same)
func (o *c19Objects) sync(d *qDataset) {
	if o.loaded == d {
		return
	}
	for k := range o.m {
		delete(o.m, k)
	}
	for i := range d.rows {
		o.m[d.rows[i].id] = &d.rows[i]
	}
	o.loaded = d
}

func c19AddSymbols(store *objectz.ObjectStore[*qRow]) {
	store.AddStringSymbol("id", func(r *qRow) *string { return &r.id })
	for ci, col := range qCols {
		ci := ci
		switch col.typ {
		case 's':
			store.AddStringSymbol(col.name, func(r *qRow) *string {
				if c := r.cells[ci]; c.kind == 'S' {
					v := c.s
					return &v
				}
				return nil
			})
		case 'i':
			store.AddInt64Symbol(col.name, func(r *qRow) *int64 {
				if c := r.cells[ci]; c.kind == 'I' {
					v := c.i
					return &v
				}
				return nil
			})
		case 'f':
			store.AddFloat64Symbol(col.name, func(r *qRow) *float64 {
				if c := r.cells[ci]; c.kind == 'F' {
					v := math.Float64frombits(c.f)
					return &v
				}
				return nil
			})
		case 'b':
			store.AddBoolSymbol(col.name, func(r *qRow) *bool {
				if c := r.cells[ci]; c.kind == 'B' {
					v := c.b
					return &v
				}
				return nil
			})
		case 't':
			store.AddDatetimeSymbol(col.name, func(r *qRow) *time.Time {
				if c := r.cells[ci]; c.kind == 'T' {
					v := time.Unix(c.sec, c.nsec).UTC()
					return &v
				}
				return nil
			})
		}
	}
}

// query answers with `objectz=<res> ... objectzmap=<res>` parts: the store fed in the prescribed order and the one
// fed through objectz.IterateMap
func (o *c19Objects) query(d *qDataset, order []int, text string) (string, string) {
	o.order = o.order[:0]
	for _, i := range order {
		o.order = append(o.order, &d.rows[i])
	}
	o.sync(d)
	run := func(store *objectz.ObjectStore[*qRow]) string {
		return qGuard(func() string {
			objs, count, err := store.QueryEntities(text)
			if err != nil {
				return "ERR"
			}
			ids := make([]string, len(objs))
			for i, obj := range objs {
				ids[i] = obj.id
			}
			return fmt.Sprintf("%d:%s", count, qIdsStr(ids))
		})
	}
	return run(o.store), run(o.mstore)
}

// implLine: one query on the two object stores and on the bolt store
func (o *c19Objects) implLine(d *qDataset, order []int, text string, db *bbolt.DB, store boltz.ConfigurableStore) string {
	oz, om := o.query(d, order, text)
	return fmt.Sprintf("objectz=%s boltz=%s objectzmap=%s", oz, c19Bolt(db, store, text), om)
}

func c19Bolt(db *bbolt.DB, store boltz.ConfigurableStore, text string) string {
	res := ""
	_ = db.View(func(tx *bbolt.Tx) error {
		res = qGuard(func() string {
			ids, count, err := store.QueryIds(tx, text)
			if err != nil {
				return "ERR"
			}
			return fmt.Sprintf("%d:%s", count, qIdsStr(ids))
		})
		return nil
	})
	return res
}

// ---- generation ------------------------------------------------------------------------------------------

type c19Query struct {
	filter *sfNode
	q      qQuery // sort / skip / limit (its filter index is unused)
	order  []int
	style  int // != 0: the text is respelled outside its literals (c19Respell, case line QV <style> ...)
}

func (c *c19Query) text() string {
	q := c.q
	q.filter = 4 // "" = predicate printed separately
	rest := q.text()
	text := c.filter.text()
	if rest != "true" {
		text += " " + rest
	}
	return c19Respell(text, c.style)
}

func (c *c19Query) caseLine() string {
	q := c.q
	line := q.caseLine("Q", &qDataset{}) // "Q e <nsort> ... <skip> <limit>"
	f := strings.Fields(line)
	ord := "-"
	if len(c.order) > 0 {
		parts := make([]string, len(c.order))
		for i, v := range c.order {
			parts[i] = strconv.Itoa(v)
		}
		ord = strings.Join(parts, ",")
	}
	head := "Q "
	if c.style != 0 {
		head = fmt.Sprintf("QV %d ", c.style)
	}
	return head + ord + " " + c.filter.term() + " " + strings.Join(f[2:], " ")
}

func qShuffled(r *rng, n int) []int {
	p := make([]int, n)
	for i := range p {
		p[i] = i
	}
	for i := n - 1; i > 0; i-- {
		j := r.intn(i + 1)
		p[i], p[j] = p[j], p[i]
	}
	return p
}

func runC19(o *opts) error {
	cases := newLineWriter(o.out, "cases.txt")
	impl := newLineWriter(o.out, "impl.txt")
	defer cases.close()
	defer impl.close()
	qb, err := qOpenBolt(o.out)
	if err != nil {
		return err
	}
	defer qb.close()
	objs := newC19Objects()

	if rp := o.get("replaycase", ""); rp != "" {
		return c19Replay(qb, objs, rp, cases, impl)
	}

	stats := map[string]map[string]int{"rows": {}, "sort_keys": {}, "skip": {}, "limit": {}, "filter_root": {}, "filter_has": {}, "collections": {}, "sessions": {}}
	bump := func(group, key string) { stats[group][key]++ }
	r := qRng(o.seed, 0xC19)
	nData, nFilters := 5, 12
	nExtreme, nExtremeFilters := 3, 8 // the fixed collection of extreme values + random ones (c19ext.go)
	if o.thorough() {
		nData, nFilters = 80, 14
		nExtreme, nExtremeFilters = 25, 10
	}
	c19xSetTier(o.thorough())
	rx := qRng(o.seed, 0xC19E) // its own stream: the ordinary collections do not depend on the extreme ones
	rl := qRng(o.seed, 0xC19F) // its own stream too: the long sort specifications (c19long.go)
	nLong := 2
	if o.thorough() {
		nLong = 24
	}
	for di := 0; di < nData+nExtreme; di++ {
		extreme := di >= nData
		var d *qDataset
		switch {
		case di == nData:
			d = c19xFixedDataset()
		case extreme:
			d = c19xGenDataset(rx)
		case di == 0:
			qGenDataset(r, 8, false) // (keeps the random stream of the later collections as it was)
			d = qProbeDataset()
		case di == 1:
			d = qGenDataset(r, 0, false)
		case di == 2:
			d = qGenDataset(r, 1, false)
		default:
			d = qGenDataset(r, 2+r.intn(11), false)
		}
		n := len(d.rows)
		store, err := qb.load(d)
		if err != nil {
			return err
		}
		cases.line("%s", d.line())
		impl.line("D")
		bump("rows", strconv.Itoa(n))
		grid := qPagingGrid(int64(n))
		shuffle := r
		if extreme {
			shuffle = rx
			bump("collections", "extreme-values")
		} else {
			bump("collections", "ordinary")
		}
		emit := func(f *sfNode, fs []qSortField, pg qPaging) {
			cq := &c19Query{filter: f, q: qQuery{sort: fs, skip: pg.skip, limit: pg.limit, none: pg.none}, order: qShuffled(shuffle, n)}
			text := cq.text()
			cases.line("%s", cq.caseLine())
			impl.line("%s", objs.implLine(d, cq.order, text, qb.db, store))
			c19Bump(bump, f, fs, pg, int64(n))
		}
		if extreme {
			c19xEmit(rx, n, di == nData, nExtremeFilters, emit)
			shuffle = rl
			c19LongEmitPerCollection(rl, n, emit) // (L) as below
			continue
		}
		// (1) the full paging grid: no filter / default order, and a null test under a sort
		for _, pg := range grid {
			emit(&sfNode{kind: "T"}, nil, pg)
		}
		nullCol := r.intn(6)
		sortCol := r.intn(6)
		for _, pg := range grid {
			emit(&sfNode{kind: "null", col: nullCol, neg: r.chance(50)}, []qSortField{{col: sortCol, asc: r.chance(50)}}, pg)
		}
		// (1a) paging parameters at the numeric extremes (c02ExtremePaging: skip / limit next to MaxInt64,
		// MinInt64 and 2^62, skip+limit exactly MaxInt64 and overflowing): default order and under a sort
		exSort := []qSortField{{col: r.intn(6), asc: r.chance(50)}}
		for _, pg := range c02ExtremePaging(int64(n)) {
			emit(&sfNode{kind: "T"}, nil, pg)
			emit(&sfNode{kind: "T"}, exSort, pg)
		}
		// (1b) every single-key sort in both directions, id-first and 5-key specifications
		for _, fs := range qSystematicSorts() {
			emit(&sfNode{kind: "T"}, fs, qPaging{})
			emit(&sfNode{kind: "null", col: r.intn(6), neg: true}, fs, qPaging{skip: qI64p(1), limit: qI64p(int64(n) - 1)})
		}
		// (2) every atom kind x operator x column once, unpaged and with one random page
		for col := -1; col < len(qCols); col++ {
			for _, a := range sfAtoms(r, col) {
				emit(a, nil, qPaging{})
				emit(a, qRandomSort(r, 3), grid[r.intn(len(grid))])
			}
		}
		// (3) random composite filters x sorts x pages
		for fi := 0; fi < nFilters; fi++ {
			f := sfRandom(r, 3)
			for si := 0; si < 3; si++ {
				fs := qRandomSort(r, 5)
				for k := 0; k < 10; k++ {
					emit(f, fs, grid[r.intn(len(grid))])
				}
			}
		}
		// (4) filters outside the model: both stores must still agree
		for k := 0; k < 6; k++ {
			emit(sfUnmodelled(r), qRandomSort(r, 2), grid[r.intn(len(grid))])
		}
		// (L) random sort specifications of 6..12 fields whose leading fields repeat a few columns (c19long.go);
		// drawn, like the iterator orders of these queries, from a stream of their own
		shuffle = rl
		c19LongEmitPerCollection(rl, n, emit)
	}
	// (LT) collections made of tie blocks (rows agreeing on up to seven columns) under specifications with 1..11
	// tying fields in front of the deciding one: a fixed collection with the systematic specifications + random ones
	var ld *qDataset
	var lstore boltz.ConfigurableStore
	err = c19LongEmitC19(rl, nLong, func(d *qDataset) error {
		var err error
		if lstore, err = qb.load(d); err != nil {
			return err
		}
		ld = d
		cases.line("%s", d.line())
		impl.line("D")
		bump("rows", strconv.Itoa(len(d.rows)))
		bump("collections", "tie-blocks")
		return nil
	}, func(f *sfNode, fs []qSortField, pg qPaging) {
		cq := &c19Query{filter: f, q: qQuery{sort: fs, skip: pg.skip, limit: pg.limit, none: pg.none}, order: qShuffled(rl, len(ld.rows))}
		text := cq.text()
		cases.line("%s", cq.caseLine())
		impl.line("%s", objs.implLine(ld, cq.order, text, qb.db, lstore))
		c19Bump(bump, f, fs, pg, int64(len(ld.rows)))
	})
	if err != nil {
		return err
	}
	// (S) sessions on fresh ObjectStore instances: near-identical query texts in sequence, collections emptied and
	// re-populated under one store, the library's map iterator over empty / one-element / larger maps (c19seq.go)
	if err := c19SeqEmit(o, qb, objs, cases, impl, bump); err != nil {
		return err
	}
	writeJSON(o.out, "stats.json", stats)
	return nil
}

func c19Bump(bump func(group, key string), f *sfNode, fs []qSortField, pg qPaging, n int64) {
	bump("sort_keys", strconv.Itoa(len(fs)))
	bump("skip", qSkipClass(pg, n))
	bump("limit", qLimitClass(pg, n))
	bump("filter_root", f.kind)
	for _, k := range []string{"null", "cmp", "has", "in", "btw", "sym", "N", "A", "O"} {
		if f.hasKind(k) {
			bump("filter_has", k)
		}
	}
}

func c19Replay(qb *qBolt, objs *c19Objects, path string, cases, impl *lineWriter) error {
	data, err := os.ReadFile(path)
	if err != nil {
		return err
	}
	var d *qDataset
	var store boltz.ConfigurableStore
	for _, line := range strings.Split(string(data), "\n") {
		f := strings.Fields(line)
		if len(f) == 0 {
			continue
		}
		switch f[0] {
		case "D":
			if d, err = qParseDataset(f); err != nil {
				return err
			}
			if store, err = qb.load(d); err != nil {
				return err
			}
			cases.line("%s", line)
			impl.line("D")
		case "S":
			objs.reset()
			cases.line("S")
			impl.line("S")
		case "Q", "QV":
			if d == nil {
				return fmt.Errorf("query before dataset")
			}
			style := 0
			if f[0] == "QV" {
				if style, err = strconv.Atoi(f[1]); err != nil {
					return err
				}
				f = append([]string{"Q"}, f[2:]...)
			}
			var order []int
			if f[1] != "-" {
				for _, s := range strings.Split(f[1], ",") {
					v, err := strconv.Atoi(s)
					if err != nil || v < 0 || v >= len(d.rows) {
						return fmt.Errorf("bad order %q", f[1])
					}
					order = append(order, v)
				}
			}
			filter, rest, err := sfParse(f[2:])
			if err != nil {
				return err
			}
			// rest = <nsort> {sort}* <skip> <limit>; reuse the C02 parser on a synthetic line
			q2, err := qQueryFromCase(append([]string{"Q", "e"}, rest...))
			if err != nil {
				return err
			}
			cq := &c19Query{filter: filter, q: *q2, order: order, style: style}
			text := cq.text()
			cases.line("%s", line)
			impl.line("%s", objs.implLine(d, order, text, qb.db, store))
			fmt.Fprintf(os.Stderr, "replay query text: %s\n", c19Show.Replace(text))
		}
	}
	return nil
}
