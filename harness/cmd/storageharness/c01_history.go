package main

import (
	"fmt"
	"strconv"
	"strings"

	"github.com/openziti/storage/ast"
	"go.etcd.io/bbolt"
)

// C01 - sequences of queries within one process (sixth wave, s6-c01).
//
// ast.Parse hands its caller a query OBJECT that is mutable through the ast.Query interface (SetPredicate, SetSkip,
// SetLimit, AdoptSortFields: "refine a parsed filter"; the scanners call SetSkip / SetLimit themselves).  Property C01
// speaks about filters: which entities a filter text selects is a function of the text and the database - not of
// what an earlier caller did with the object IT got for the same (or any other) text, on this or another store.
// Model: Ast/Session.v (a heap of query objects, Parse allocates), theorems session_* in Properties/C01.v.
//
// An M line is one earlier caller: Parse(text) on a store, a list of mutators, then (optionally) the evaluation of
// the refined object through one API.  Its own answer is judged like a T line against the REFINED query
// (refine, Ast/Session.v).  The lines that follow - ordinary Q and T lines with the same text, on the same and on
// other stores - are judged as always, by their own text alone; the check (checks/c01.py) replays a failing line
// with and without the M lines before it and reports a dependence on the history as such.
//
//	M <store> <F|R|A> <Q|C|I|N> <universe|*> <effective sort hex|-> <status> <ids> <count|-> <text hex> <n> <mutator>* <term>
//	mutator:  P <predicate text hex> <predicate term>   SetPredicate(Parse(store, text).GetPredicate())
//	          K <n>                                     SetSkip(n)
//	          L <n>                                     SetLimit(n)
//	          A <sort clause hex>                       AdoptSortFields(Parse(store, "true sort by <clause>"))
//	          X <query text hex>                        not a mutator: meanwhile ANOTHER caller runs QueryIds(text) on the store
//	                                                    (interleaving: two query objects alive at the same time)
//	api: Q = QueryIdsC(object), C = QueryWithCursorC(cursor, object), I = IterateIds(object), N = not evaluated
type c01Mut struct {
	k    byte
	n    int64
	pred *c01Filter // P
	sort string     // A: the sort clause; X: the query text of the other caller
}

func (m c01Mut) token() string {
	switch m.k {
	case 'P':
		return "P " + hxs(m.pred.text()) + " " + m.pred.term()
	case 'K', 'L':
		return string(m.k) + " " + strconv.FormatInt(m.n, 10)
	case 'X':
		return "X " + hxs(m.sort)
	default:
		return "A " + hxs(m.sort)
	}
}

type c01Prior struct {
	store int
	text  string // the complete query text (predicate, sort clause, paging)
	term  string // q <predicate> <skip> <limit>
	sort  string // the sort clause of the text
	muts  []c01Mut
	api   byte
	univ  []string
}

// the sort clause that orders the answer of the refined object: the last adopted one, otherwise the text's own
func (p *c01Prior) effectiveSort() string {
	s := p.sort
	for _, m := range p.muts {
		if m.k == 'A' {
			s = m.sort
		}
	}
	return s
}

func (r *c01Runner) prior(p *c01Prior) (status string, ids []string, count int64) {
	defer func() {
		if e := recover(); e != nil {
			status, ids, count = "panic", nil, 0
		}
	}()
	err := r.db.View(func(tx *bbolt.Tx) error {
		s := r.stores[p.store]
		query, err := ast.Parse(s, p.text)
		if err != nil {
			return err
		}
		for _, m := range p.muts {
			switch m.k {
			case 'P':
				other, err := ast.Parse(s, m.pred.text())
				if err != nil {
					return err
				}
				query.SetPredicate(other.GetPredicate())
			case 'K':
				query.SetSkip(m.n)
			case 'L':
				query.SetLimit(m.n)
			case 'X':
				// another caller of the same process, with a query object of its own (its failure is not ours)
				_, _, _ = s.QueryIds(tx, m.sort)
			case 'A':
				other, err := ast.Parse(s, "true sort by "+m.sort)
				if err != nil {
					return err
				}
				if err = query.AdoptSortFields(other); err != nil {
					return err
				}
			}
		}
		switch p.api {
		case 'Q':
			ids, count, err = s.QueryIdsC(tx, query)
			return err
		case 'C':
			st := c01Strat{univ: p.univ}
			ids, count, err = s.QueryWithCursorC(tx, r.cursorProvider(p.store, st), query)
			return err
		case 'I':
			cursor := s.IterateIds(tx, query)
			for cursor.IsValid() {
				ids = append(ids, string(cursor.Current()))
				cursor.Next()
				if len(ids) > 100000 {
					return fmt.Errorf("runaway cursor")
				}
			}
		}
		return nil
	})
	if err != nil {
		return "err", nil, 0
	}
	return "ok", ids, count
}

func (r *c01Runner) runPrior(p *c01Prior) {
	watchdogBeat(fmt.Sprintf("%d prior %s", p.store, p.text))
	status, ids, count := r.prior(p)
	eff := p.effectiveSort()
	kind := c01SortKind(eff)
	if p.api == 'I' {
		kind = "F" // IterateIds: id order, the paging of the object
	}
	sortTok := "-"
	if eff != "" {
		sortTok = hxs(eff)
	}
	cnt := "-"
	if status == "ok" && (p.api == 'Q' || p.api == 'C') {
		cnt = strconv.FormatInt(count, 10)
	}
	var muts []string
	for _, m := range p.muts {
		muts = append(muts, m.token())
	}
	r.cases.line("%s", c01JoinQuery("M", strconv.Itoa(p.store), kind, string(p.api), c01UnivToken(p.univ), sortTok, status, c01Ids(ids), cnt,
		hxs(p.text), strconv.Itoa(len(p.muts)), strings.Join(muts, " "), p.term))
	r.impl.line("M")
	r.stats["prior:"+string(p.api)]++
	r.stats["prior-result:"+status]++
	for _, m := range p.muts {
		r.stats["prior-mutator:"+string(m.k)]++
	}
}

// replay of an M line: the earlier caller acts again on the current tree
func (r *c01Runner) replayPrior(toks []string) {
	p := &c01Prior{api: toks[3][0]}
	p.store, _ = strconv.Atoi(toks[1])
	if toks[4] != "*" {
		p.univ = []string{}
		if toks[4] != "-" {
			for _, h := range strings.Split(toks[4], ",") {
				p.univ = append(p.univ, string(unhx(h)))
			}
		}
	}
	p.text = string(unhx(toks[9]))
	if toks[5] != "-" {
		p.sort = string(unhx(toks[5])) // the effective sort clause: the last adopted one, otherwise the text's own
	}
	n, _ := strconv.Atoi(toks[10])
	pos := 11
	for i := 0; i < n; i++ {
		switch k := toks[pos]; k {
		case "P":
			tp := &c01TermParser{toks: toks, pos: pos + 2}
			f := tp.filter()
			p.muts = append(p.muts, c01Mut{k: 'P', pred: &c01Filter{k: "raw", name: string(unhx(toks[pos+1])), a: f}})
			pos = tp.pos
		case "K", "L":
			v, _ := strconv.ParseInt(toks[pos+1], 10, 64)
			p.muts = append(p.muts, c01Mut{k: k[0], n: v})
			pos += 2
		default:
			p.muts = append(p.muts, c01Mut{k: k[0], sort: string(unhx(toks[pos+1]))})
			pos += 2
		}
	}
	p.term = strings.Join(toks[pos:], " ")
	r.runPrior(p)
}

// the provider QueryWithCursorC gets (shared with the T lines)
func (r *c01Runner) cursorProvider(store int, st c01Strat) ast.SetCursorProvider {
	s := r.stores[store]
	return func(tx *bbolt.Tx, forward bool) ast.SetCursor {
		bucket := s.GetEntitiesBucket(tx)
		if bucket == nil {
			return nil
		}
		if st.univ == nil {
			return bucket.OpenCursor(tx, forward)
		}
		want := map[string]bool{}
		for _, id := range st.univ {
			want[id] = true
		}
		var keep []string
		for c := bucket.OpenCursor(tx, forward); c.IsValid(); c.Next() {
			if want[string(c.Current())] {
				keep = append(keep, string(c.Current()))
			}
		}
		return &c01ListCursor{ids: keep}
	}
}

func c01NewPrior(store int, top *c01Filter, sortClause string, muts []c01Mut, api byte) *c01Prior {
	return &c01Prior{store: store, text: c01QueryText(top, sortClause), term: top.term(), sort: sortClause, muts: muts, api: api}
}

// c01SweepHistory: bounded-exhaustive over (store incl. child stores) x (query text: empty, sort / paging only, true, a
// null test, with and without clauses) x (every mutator alone with harmless and narrowing arguments, and combinations) x
// (how the earlier caller evaluates its object: not at all, QueryIdsC, QueryWithCursorC, IterateIds); after every
// earlier caller the SAME text is asked again - plainly on the same store and on another store (Q lines: QueryIds +
// IterateIds), sorted and through a provided cursor (T lines)
func c01SweepHistory(r *c01Runner) int {
	n := 0
	one, two := int64(1), int64(2)
	nopred := func() *c01Filter { return &c01Filter{k: "bc", b: true, absent: true} }
	sym := func(name, op string) *c01Filter {
		return &c01Filter{k: "bin", lhs: &c01Lhs{k: "sym", name: name}, op: op, lit: &c01Lit{k: 'N'}}
	}
	type text struct {
		top  *c01Filter
		sort string
	}
	texts := []text{
		{&c01Filter{k: "q", a: nopred()}, ""},
		{&c01Filter{k: "q", a: nopred()}, "name"},
		{&c01Filter{k: "q", a: nopred(), limit: &two}, ""},
		{&c01Filter{k: "q", a: &c01Filter{k: "bc", b: true}}, ""},
		{&c01Filter{k: "q", a: sym("name", "neq")}, ""},
		{&c01Filter{k: "q", a: sym("name", "neq"), skip: &one}, "name desc"},
	}
	mutLists := [][]c01Mut{
		{},
		{{k: 'P', pred: sym("name", "eq")}},
		{{k: 'P', pred: &c01Filter{k: "bc", b: false}}},
		{{k: 'K', n: 1}},
		{{k: 'K', n: 0}},
		{{k: 'L', n: 2}},
		{{k: 'L', n: 0}},
		{{k: 'L', n: -1}},
		{{k: 'A', sort: "name desc"}},
		{{k: 'A', sort: "id desc"}},
		{{k: 'P', pred: sym("name", "neq")}, {k: 'K', n: 1}, {k: 'L', n: 1}, {k: 'A', sort: "name"}},
		{{k: 'L', n: 1}, {k: 'L', n: 3}, {k: 'K', n: 2}, {k: 'K', n: 0}},
		// meanwhile another caller runs the empty filter / a query with paging of its own
		{{k: 'L', n: 2}, {k: 'X', sort: ""}},
		{{k: 'K', n: 1}, {k: 'X', sort: "true"}},
		{{k: 'P', pred: sym("name", "eq")}, {k: 'X', sort: "name != null skip 1 limit 1"}},
		{{k: 'X', sort: "sort by name desc limit 1"}, {k: 'A', sort: "name"}, {k: 'X', sort: "skip 2"}},
	}
	apis := []byte{'N', 'Q', 'C', 'I'}
	var stores []int
	for s := range c01Cur.raw {
		if c01RootOf(s) <= 1 {
			stores = append(stores, s) // people, places and their child stores: all know `name`
		}
	}
	for si, store := range stores {
		other := stores[(si+1)%len(stores)]
		for ti, tx := range texts {
			for mi, muts := range mutLists {
				for ai, api := range apis {
					if c01HasOther(muts) && api == 'N' {
						continue // an interleaved caller matters only when the object is evaluated afterwards
					}
					if len(muts) != 1 && (ti+mi+ai+si)%4 != 0 && !(c01HasOther(muts) && (ti+mi+ai+si)%2 == 0) {
						continue // several mutators / none: one api in turn
					}
					if len(muts) == 1 && api != 'N' && (ti+mi+ai)%2 != 0 {
						continue
					}
					r.runPrior(c01NewPrior(store, tx.top, tx.sort, muts, api))
					// the same text again
					r.strategyLine(store, c01Strat{api: 'Q', sort: tx.sort}, c01QueryText(tx.top, tx.sort), tx.top.term())
					r.runFilter(store, tx.top)
					r.runFilter(other, tx.top)
					r.strategyLine(store, c01Strat{api: 'C', sort: tx.sort}, c01QueryText(tx.top, tx.sort), tx.top.term())
					n += 5
				}
			}
		}
	}
	return n
}

func c01HasOther(muts []c01Mut) bool {
	for _, m := range muts {
		if m.k == 'X' {
			return true
		}
	}
	return false
}

// c01HistorySweeps: the sequences under the base schema and a hierarchy variant, on the sweep dataset
func c01HistorySweeps(r *c01Runner) {
	for _, name := range []string{"base", "hier"} {
		r.useVariant(name)
		d := c01SweepDataset()
		if name != "base" {
			d = c01FixedChildData(c01Remap(d))
		}
		if err := r.loadDataset(d); err != nil {
			panic(err)
		}
		r.stats["history-sweep:"+name] += c01SweepHistory(r)
	}
}

// randomPrior: an earlier caller parses the text of `top` (with a random sort clause) and refines the object with random
// mutators (predicates from the typed generator, small paging values, adopted sort clauses), evaluated through a random api
func (g *c01Gen) randomPrior(r *c01Runner, store int, d *c01Dataset, top *c01Filter, dotted bool) {
	sortClause := ""
	if g.r.chance(40) {
		sortClause = g.sortClause(store)
	}
	var muts []c01Mut
	for i, n := 0, 1+g.r.intn(3); i < n; i++ {
		switch g.weighted([]int{35, 20, 25, 20, 12}) {
		case 0:
			muts = append(muts, c01Mut{k: 'P', pred: g.filter(store, g.weighted([]int{60, 30, 10}), dotted)})
		case 1:
			muts = append(muts, c01Mut{k: 'K', n: g.pickI([]int64{0, 1, 2, -1, 5})})
		case 2:
			muts = append(muts, c01Mut{k: 'L', n: g.pickI([]int64{0, 1, 2, 3, -1, 10})})
		case 3:
			sc := g.sortClause(store)
			if sc == "" {
				sc = "id"
			}
			muts = append(muts, c01Mut{k: 'A', sort: sc})
		default: // meanwhile another caller asks the same text, the empty filter or a query with paging
			muts = append(muts, c01Mut{k: 'X', sort: g.pickS([]string{"", "true", "limit 1", "skip 1", top.text(), c01QueryText(top, sortClause)})})
		}
	}
	p := c01NewPrior(store, top, sortClause, muts, []byte{'N', 'Q', 'C', 'I'}[g.r.intn(4)])
	if p.api == 'C' && g.r.chance(50) {
		p.univ = g.universe(store, d)
	}
	r.runPrior(p)
}
