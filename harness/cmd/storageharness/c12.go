package main

import (
	"fmt"
	"os"
	"strconv"
	"strings"
	"sync"
	"time"

	"github.com/antlr4-go/antlr/v4"
	"github.com/openziti/storage/ast"
	"github.com/openziti/storage/zitiql"
)

// C12 - boolean connectives group as written.
//
// Case lines (see coq/extraction/c12_driver.ml):
//
//	S <stream> <mode> <hex filter> <expr> <atom,atom,...>
//	W <stream> <mode> <hex filter> <expr> <atom,atom,...> <hex base filter>
//
// <filter> is the skeleton spelled over boolean symbols (what the model lexes and parses);
// <expr> its surface syntax in prefix form ( .p  !e  &pe  |pe ; primaries <hexname> and (e) );
// mode: sym  - the filter is evaluated as written, the atoms are boolean symbols
//
//	cmp  - every atom is replaced by a comparison/operation over an int symbol before parsing
//	const- every atom is replaced by the constant true/false of the assignment before parsing
//
// Observation:  S <token kinds> <lexer errors> <truth table | E | P>   (W: a second truth table, of the base filter)
// The truth table lists the value for every assignment i in [0, 2^k): atom j is true iff bit j of i.
func init() { commands["c12"] = runC12 }

// ---- surface syntax -----------------------------------------------------------------------

type c12Prim struct {
	atom  int // index into the atom list, when paren == nil
	paren *c12Expr
}

type c12Expr struct {
	kind byte // '.' last, '!' not, '&' and, '|' or
	p    *c12Prim
	e    *c12Expr
}

// shapes with k atoms, np parenthesis pairs, nn nots; atoms are numbered at print time
type c12Key struct{ k, np, nn int }

var c12ExprMemo = map[c12Key][]*c12Expr{}
var c12PrimMemo = map[c12Key][]*c12Prim{}

func c12Exprs(k, np, nn int) []*c12Expr {
	if k < 1 {
		return nil
	}
	key := c12Key{k, np, nn}
	if r, ok := c12ExprMemo[key]; ok {
		return r
	}
	var out []*c12Expr
	for _, p := range c12Prims(k, np, nn) {
		out = append(out, &c12Expr{kind: '.', p: p})
	}
	if nn >= 1 {
		for _, e := range c12Exprs(k, np, nn-1) {
			out = append(out, &c12Expr{kind: '!', e: e})
		}
	}
	for k1 := 1; k1 < k; k1++ {
		for p1 := 0; p1 <= np; p1++ {
			for n1 := 0; n1 <= nn; n1++ {
				ps := c12Prims(k1, p1, n1)
				if len(ps) == 0 {
					continue
				}
				es := c12Exprs(k-k1, np-p1, nn-n1)
				for _, p := range ps {
					for _, e := range es {
						out = append(out, &c12Expr{kind: '&', p: p, e: e}, &c12Expr{kind: '|', p: p, e: e})
					}
				}
			}
		}
	}
	c12ExprMemo[key] = out
	return out
}

func c12Prims(k, np, nn int) []*c12Prim {
	if k < 1 {
		return nil
	}
	key := c12Key{k, np, nn}
	if r, ok := c12PrimMemo[key]; ok {
		return r
	}
	var out []*c12Prim
	if k == 1 && np == 0 && nn == 0 {
		out = append(out, &c12Prim{atom: -1})
	}
	if np >= 1 {
		for _, e := range c12Exprs(k, np-1, nn) {
			out = append(out, &c12Prim{paren: e})
		}
	}
	c12PrimMemo[key] = out
	return out
}

// a layout decides how a shape is spelled
type c12Layout struct {
	r      *rng // nil: canonical
	atoms  []string
	next   int
	fixed  bool // atoms carry explicit indexes (random expressions with repeated atoms)
	maxWs  int
	inner  int
	kwCase bool
	// fixed styles (long filters, c12w3.go): every WS+ place / every WS* place inside parentheses and around the
	// filter is spelled exactly so; keywords in upper case
	wsFix    string
	innerFix string
	kwUpper  bool
}

var c12WsChars = []string{" ", " ", " ", "\t", "\n", "\r"}

func (l *c12Layout) ws(min int) string {
	if l.wsFix != "" {
		return l.wsFix
	}
	if l.r == nil {
		return strings.Repeat(" ", min)
	}
	n := min
	if l.maxWs > min {
		n = min + l.r.intn(l.maxWs-min+1)
	}
	var b strings.Builder
	for i := 0; i < n; i++ {
		b.WriteString(c12WsChars[l.r.intn(len(c12WsChars))])
	}
	return b.String()
}

func (l *c12Layout) innerWs() string {
	if l.innerFix != "" {
		return l.innerFix
	}
	if l.r == nil || l.inner == 0 {
		return ""
	}
	n := l.r.intn(l.inner + 1)
	var b strings.Builder
	for i := 0; i < n; i++ {
		b.WriteString(c12WsChars[l.r.intn(len(c12WsChars))])
	}
	return b.String()
}

func (l *c12Layout) kw(w string) string {
	if l.kwUpper {
		return strings.ToUpper(w)
	}
	if l.r == nil || !l.kwCase {
		return w
	}
	b := []byte(w)
	for i := range b {
		if l.r.chance(50) {
			b[i] = b[i] - 32
		}
	}
	return string(b)
}

func (l *c12Layout) atomName(p *c12Prim) string {
	idx := p.atom
	if !l.fixed {
		idx = l.next
		l.next++
	}
	return l.atoms[idx]
}

// spell returns the filter text and the prefix form of the expression
func (l *c12Layout) prim(p *c12Prim, text, pre *strings.Builder) {
	if p.paren == nil {
		n := l.atomName(p)
		text.WriteString(n)
		pre.WriteString("<" + hxs(n) + ">")
		return
	}
	text.WriteString("(")
	text.WriteString(l.innerWs())
	pre.WriteString("(")
	l.expr(p.paren, text, pre)
	pre.WriteString(")")
	text.WriteString(l.innerWs())
	text.WriteString(")")
}

func (l *c12Layout) expr(e *c12Expr, text, pre *strings.Builder) {
	pre.WriteByte(e.kind)
	switch e.kind {
	case '.':
		l.prim(e.p, text, pre)
	case '!':
		text.WriteString(l.kw("not"))
		text.WriteString(l.ws(1))
		l.expr(e.e, text, pre)
	case '&', '|':
		l.prim(e.p, text, pre)
		text.WriteString(l.ws(1))
		if e.kind == '&' {
			text.WriteString(l.kw("and"))
		} else {
			text.WriteString(l.kw("or"))
		}
		text.WriteString(l.ws(1))
		l.expr(e.e, text, pre)
	}
}

func (l *c12Layout) spell(e *c12Expr) (string, string) {
	var text, pre strings.Builder
	l.next = 0
	if l.r != nil || l.innerFix != "" {
		text.WriteString(l.innerWs())
	}
	l.expr(e, &text, &pre)
	if l.r != nil || l.innerFix != "" {
		text.WriteString(l.innerWs())
	}
	return text.String(), pre.String()
}

func c12CountAtoms(e *c12Expr) int {
	n := 0
	var pe func(e *c12Expr)
	pp := func(p *c12Prim) {
		if p.paren == nil {
			n++
		} else {
			pe(p.paren)
		}
	}
	pe = func(e *c12Expr) {
		switch e.kind {
		case '.':
			pp(e.p)
		case '!':
			pe(e.e)
		default:
			pp(e.p)
			pe(e.e)
		}
	}
	pe(e)
	return n
}

// ---- the real code ---------------------------------------------------------------------------

// c12Symbols: a symbol table of boolean (mode sym) or int64 (mode cmp) symbols
type c12Symbols struct {
	names map[string]int
	vals  []bool
	ints  bool
}

func (s *c12Symbols) GetSymbolType(name string) (ast.NodeType, bool) {
	if _, ok := s.names[name]; ok {
		if s.ints {
			return ast.NodeTypeInt64, true
		}
		return ast.NodeTypeBool, true
	}
	return 0, false
}
func (s *c12Symbols) GetSetSymbolTypes(string) ast.SymbolTypes { return nil }
func (s *c12Symbols) IsSet(name string) (bool, bool) {
	_, ok := s.names[name]
	return false, ok
}
func (s *c12Symbols) EvalBool(name string) *bool {
	if i, ok := s.names[name]; ok && !s.ints {
		v := s.vals[i]
		return &v
	}
	return nil
}
func (s *c12Symbols) EvalString(string) *string { return nil }
func (s *c12Symbols) EvalInt64(name string) *int64 {
	if i, ok := s.names[name]; ok && s.ints {
		v := int64(0)
		if s.vals[i] {
			v = 1
		}
		return &v
	}
	return nil
}
func (s *c12Symbols) EvalFloat64(string) *float64                           { return nil }
func (s *c12Symbols) EvalDatetime(string) *time.Time                        { return nil }
func (s *c12Symbols) IsNil(name string) bool                                { _, ok := s.names[name]; return !ok }
func (s *c12Symbols) OpenSetCursor(string) ast.SetCursor                    { return nil }
func (s *c12Symbols) OpenSetCursorForQuery(string, ast.Query) ast.SetCursor { return nil }

// operations over an int symbol x that are true exactly when x = 1 (x is 0 or 1)
var c12CmpForms = []string{"%s = 1", "%s > 0", "%s != 0", "%s between 1 and 2", "%s in [1, 2]", "%s not in [0]", "%s not between -1 and 1", "%s>=1"}

// replace the atoms of the skeleton filter (they are maximal identifier runs that equal an atom name)
func c12Render(filter string, atoms []string, repl func(i int) string) string {
	idx := map[string]int{}
	for i, a := range atoms {
		idx[a] = i
	}
	var b strings.Builder
	i := 0
	for i < len(filter) {
		c := filter[i]
		if (c >= 'a' && c <= 'z') || (c >= 'A' && c <= 'Z') {
			j := i
			for j < len(filter) && ((filter[j] >= 'a' && filter[j] <= 'z') || (filter[j] >= 'A' && filter[j] <= 'Z') || filter[j] == '_') {
				j++
			}
			w := filter[i:j]
			if k, ok := idx[w]; ok {
				b.WriteString(repl(k))
			} else {
				b.WriteString(w)
			}
			i = j
		} else {
			b.WriteByte(c)
			i++
		}
	}
	return b.String()
}

func c12TruthTable(mode, filter string, atoms []string) (res string) {
	defer func() {
		if r := recover(); r != nil {
			res = "P"
		}
	}()
	k := len(atoms)
	names := map[string]int{}
	for i, a := range atoms {
		names[a] = i
	}
	var out strings.Builder
	switch mode {
	case "sym", "cmp":
		sym := &c12Symbols{names: names, vals: make([]bool, k), ints: mode == "cmp"}
		q := filter
		if mode == "cmp" {
			q = c12Render(filter, atoms, func(i int) string {
				return fmt.Sprintf(c12CmpForms[(i+len(filter))%len(c12CmpForms)], atoms[i])
			})
		}
		query, err := ast.Parse(sym, q)
		if err != nil {
			return "E"
		}
		for a := 0; a < 1<<k; a++ {
			for j := 0; j < k; j++ {
				sym.vals[j] = a>>j&1 == 1
			}
			if query.EvalBool(sym) {
				out.WriteByte('1')
			} else {
				out.WriteByte('0')
			}
		}
	case "const":
		sym := &c12Symbols{names: map[string]int{}}
		for a := 0; a < 1<<k; a++ {
			q := c12Render(filter, atoms, func(i int) string {
				if a>>i&1 == 1 {
					return []string{"true", "TRUE", "True"}[(i+a)%3]
				}
				return []string{"false", "FALSE", "faLse"}[(i+a)%3]
			})
			query, err := ast.Parse(sym, q)
			if err != nil {
				return "E"
			}
			if query.EvalBool(sym) {
				out.WriteByte('1')
			} else {
				out.WriteByte('0')
			}
		}
	}
	return out.String()
}

func c12Lex(text string) (string, int) {
	lexer := zitiql.NewZitiQlLexer(antlr.NewInputStream(text))
	lexer.RemoveErrorListeners()
	el := &silentListener{DefaultErrorListener: antlr.NewDefaultErrorListener()}
	lexer.AddErrorListener(el)
	var ks []string
	for _, t := range lexer.GetAllTokens() {
		ks = append(ks, fmt.Sprint(t.GetTokenType()))
	}
	if len(ks) == 0 {
		return "-", el.errs
	}
	return strings.Join(ks, ","), el.errs
}

var c12PlainAtoms = []string{"a", "b", "c", "d", "e", "f", "g", "h"}

// names that start with, contain or resemble keywords - still identifiers by the longest-match rule
var c12TrickyAtoms = []string{"andy", "ORacle", "nota", "n_ot", "Not_", "o", "an", "AND_", "truex", "nulls", "sorted", "xin", "i_n", "x_y_", "Z", "limits", "bye", "fromage"}

func runC12(o *opts) error {
	cases := newLineWriter(o.out, "cases.txt")
	impl := newLineWriter(o.out, "impl.txt")
	defer cases.close()
	defer impl.close()
	r := newRng(o.seed)
	stats := map[string]int{}

	type job struct {
		caseLine, implLine       string
		kind, mode, filter, base string
		atoms                    []string
	}
	var jobs []*job
	emit := func(stream, mode, filter, pre string, atoms []string, base string) {
		j := &job{mode: mode, filter: filter, base: base, atoms: atoms}
		if base == "" {
			j.kind = "S"
			j.caseLine = fmt.Sprintf("S %s %s %s %s %s", stream, mode, hxs(filter), pre, strings.Join(atoms, ","))
		} else {
			j.kind = "W"
			j.caseLine = fmt.Sprintf("W %s %s %s %s %s %s", stream, mode, hxs(filter), pre, strings.Join(atoms, ","), hxs(base))
		}
		jobs = append(jobs, j)
		stats["stream_"+stream]++
		stats["mode_"+mode]++
		stats[fmt.Sprintf("atoms_%d", len(atoms))]++
	}
	// the real code runs on all cases in parallel (the parser is slow on ambiguous chains); output order is fixed
	flush := func() {
		workers := 4
		if v, err := strconv.Atoi(os.Getenv("VERIF_JOBS")); err == nil && v > 0 {
			workers = v
		}
		var wg sync.WaitGroup
		ch := make(chan *job, 256)
		for w := 0; w < workers; w++ {
			wg.Add(1)
			go func() {
				defer wg.Done()
				for j := range ch {
					kinds, nerr := "-", 0
					if j.mode == "sym" {
						kinds, nerr = c12Lex(j.filter)
					}
					tt := c12TruthTable(j.mode, j.filter, j.atoms)
					if j.kind == "S" && strings.HasPrefix(j.caseLine, "S d") {
						// streams d1/d2 (repeating atoms): also the same skeleton over DISTINCT atoms, under the same values
						j.implLine = fmt.Sprintf("S %s %d %s %s", kinds, nerr, tt, c12dProjected(j.mode, j.filter, j.atoms))
					} else if j.kind == "S" && strings.HasPrefix(j.caseLine, "S e") {
						// stream e (c12w7.go): the same text through every other parsing entry point, then ast.Parse again
						j.implLine = fmt.Sprintf("S %s %d %s %s", kinds, nerr, tt, c12eObserve(j.mode, j.filter, j.atoms))
					} else if j.kind == "S" {
						j.implLine = fmt.Sprintf("S %s %d %s", kinds, nerr, tt)
					} else {
						j.implLine = fmt.Sprintf("W %s %d %s %s", kinds, nerr, tt, c12TruthTable(j.mode, j.base, j.atoms))
					}
				}
			}()
		}
		for _, j := range jobs {
			ch <- j
		}
		close(ch)
		wg.Wait()
		for _, j := range jobs {
			cases.line("%s", j.caseLine)
			impl.line("%s", j.implLine)
		}
	}

	if rc := o.get("replaycase", ""); rc != "" {
		data, err := os.ReadFile(rc)
		if err != nil {
			return err
		}
		var kjobs []*c12kJob
		var njobs, mjobs, qjobs []*c12nJob
		for _, line := range strings.Split(strings.TrimSpace(string(data)), "\n") {
			f := strings.Fields(line)
			if len(f) < 6 {
				continue
			}
			if f[0] == "K" {
				if j := c12kFromLine(f); j != nil {
					kjobs = append(kjobs, j)
				}
				continue
			}
			if f[0] == "N" {
				if j := c12nFromLine(f); j != nil && j.store == "twins" {
					mjobs = append(mjobs, j)
				} else if j != nil && j.store == "nest" {
					qjobs = append(qjobs, j)
				} else if j != nil {
					njobs = append(njobs, j)
				}
				continue
			}
			base := ""
			if f[0] == "W" && len(f) >= 7 {
				base = string(unhx(f[6]))
			}
			emit(f[1], f[2], string(unhx(f[3])), f[4], strings.Split(f[5], ","), base)
		}
		flush()
		if err := c12kRun(o, kjobs, stats); err != nil {
			return err
		}
		for _, j := range kjobs {
			cases.line("%s", j.caseLine)
			impl.line("%s", j.implLine)
		}
		if err := c12nRun(o, njobs, stats); err != nil {
			return err
		}
		for _, j := range njobs {
			cases.line("%s", j.caseLine)
			impl.line("%s", j.implLine)
		}
		if err := c12mRun(o, mjobs, stats, false); err != nil {
			return err
		}
		for _, j := range mjobs {
			cases.line("%s", j.caseLine)
			impl.line("%s", j.implLine)
		}
		if err := c12qRun(o, qjobs, stats); err != nil {
			return err
		}
		for _, j := range qjobs {
			cases.line("%s", j.caseLine)
			impl.line("%s", j.implLine)
		}
		return nil
	}

	// corpus: minimal forms of what once failed
	canon := &c12Layout{atoms: c12PlainAtoms}
	corpus := []*c12Expr{}
	{
		at := func() *c12Prim { return &c12Prim{atom: -1} }
		last := func() *c12Expr { return &c12Expr{kind: '.', p: at()} }
		// a and b or c ; a or b and c ; a and b or c and d ; a or b and c or d
		corpus = append(corpus,
			&c12Expr{kind: '&', p: at(), e: &c12Expr{kind: '|', p: at(), e: last()}},
			&c12Expr{kind: '|', p: at(), e: &c12Expr{kind: '&', p: at(), e: last()}},
			&c12Expr{kind: '&', p: at(), e: &c12Expr{kind: '|', p: at(), e: &c12Expr{kind: '&', p: at(), e: last()}}},
			&c12Expr{kind: '|', p: at(), e: &c12Expr{kind: '&', p: at(), e: &c12Expr{kind: '|', p: at(), e: last()}}},
		)
	}
	for _, e := range corpus {
		text, pre := canon.spell(e)
		k := c12CountAtoms(e)
		for _, mode := range []string{"sym", "const", "cmp"} {
			emit("corpus", mode, text, pre, c12PlainAtoms[:k], "")
		}
	}

	// stream e: every parsing entry point on valid skeletons (c12w7.go); simplest skeletons first
	if o.get("noe", "") == "" {
		c12eStream(o, newRng(o.seed^0x6537), emit, stats)
	}

	// stream x: ALL skeletons with <= K atoms, <= NP parenthesis pairs, <= NN nots, canonical spelling
	K, NP, NN := 4, 2, 2
	if o.thorough() {
		K, NP, NN = 5, 2, 2
	}
	K = o.getInt("atoms", K)
	NP = o.getInt("parens", NP)
	NN = o.getInt("nots", NN)
	count := 0
	var all []*c12Expr
	for k := 1; k <= K; k++ {
		for np := 0; np <= NP; np++ {
			for nn := 0; nn <= NN; nn++ {
				for _, e := range c12Exprs(k, np, nn) {
					all = append(all, e)
					text, pre := canon.spell(e)
					emit("x", "sym", text, pre, c12PlainAtoms[:k], "")
					count++
					// the same skeleton over constants / comparisons, on a slice of the exhaustive set
					if count%40 == 0 || k <= 2 {
						emit("x", "const", text, pre, c12PlainAtoms[:k], "")
					}
					if count%10 == 1 {
						emit("x", "cmp", text, pre, c12PlainAtoms[:k], "")
					}
				}
			}
		}
	}
	if o.thorough() {
		// deeper nesting of parentheses and nots on up to 4 atoms
		for k := 1; k <= 4; k++ {
			for np := 0; np <= 3; np++ {
				for nn := 0; nn <= 3; nn++ {
					if (np <= NP && nn <= NN) || (k == 4 && nn == 3) {
						continue
					}
					for _, e := range c12Exprs(k, np, nn) {
						all = append(all, e)
						text, pre := canon.spell(e)
						emit("x", "sym", text, pre, c12PlainAtoms[:k], "")
						count++
					}
				}
			}
		}
	}
	stats["exhaustive_skeletons"] = count

	// stream r: re-spellings (keyword case, amounts and kinds of white space, tricky atom names)
	nr := 2000
	if o.thorough() {
		nr = 30000
	}
	if o.n > 0 {
		nr = o.n
	}
	for i := 0; i < nr; i++ {
		e := all[r.intn(len(all))]
		k := c12CountAtoms(e)
		atoms := make([]string, 0, k)
		used := map[string]bool{}
		for len(atoms) < k {
			var n string
			if r.chance(50) {
				n = r.pick(c12TrickyAtoms)
			} else {
				n = r.pick(c12PlainAtoms)
			}
			if !used[n] {
				used[n] = true
				atoms = append(atoms, n)
			}
		}
		lay := &c12Layout{r: r, atoms: atoms, maxWs: 1 + r.intn(3), inner: r.intn(3), kwCase: r.chance(80)}
		text, pre := lay.spell(e)
		base, _ := (&c12Layout{atoms: atoms}).spell(e)
		mode := "sym"
		if i%25 == 9 && k <= 3 {
			mode = "const"
		}
		emit("r", mode, text, pre, atoms, base)
	}

	// stream w: redundant parentheses around a primary, the whole expression, or the rest of a chain after an `or`
	nw := 1000
	if o.thorough() {
		nw = 15000
	}
	for i := 0; i < nw; i++ {
		e := all[r.intn(len(all))]
		k := c12CountAtoms(e)
		w := c12Wrap(e, r)
		base, _ := (&c12Layout{atoms: c12PlainAtoms}).spell(e)
		text, pre := (&c12Layout{atoms: c12PlainAtoms}).spell(w)
		emit("w", "sym", text, pre, c12PlainAtoms[:k], base)
	}

	// stream g: random longer chains with repeated atoms
	ng := 1000
	if o.thorough() {
		ng = 10000
	}
	for i := 0; i < ng; i++ {
		k := 2 + r.intn(5)
		e := c12Random(r, 3+r.intn(5), k, 3)
		lay := &c12Layout{atoms: c12PlainAtoms, fixed: true}
		if r.chance(50) {
			lay.r, lay.maxWs, lay.inner, lay.kwCase = r, 2, 1, true
		}
		text, pre := lay.spell(e)
		emit("g", "sym", text, pre, c12PlainAtoms[:k], "")
	}
	// streams d (repeating atoms, operands that are groupings of one clause sequence) and l (long filters and
	// their white-space / parenthesis re-spellings): c12w3.go
	if o.get("nod", "") == "" {
		c12dStream(o, r, all, emit, stats)
	}
	if o.get("nol", "") == "" {
		c12lStream(o, r, emit, stats)
	}
	flush()

	// stream k: keywords / word operators / white space inside atoms and clauses (c12kw.go), on a real store
	if o.get("nok", "") == "" {
		bad, err := c12kSelfTest(o)
		if err != nil {
			return err
		}
		stats["k_atoms_negation_unobservable"] = bad
		kjobs := c12kGenerate(o, newRng(o.seed^0x4b57), stats)
		if err := c12kRun(o, kjobs, stats); err != nil {
			return err
		}
		for _, j := range kjobs {
			cases.line("%s", j.caseLine)
			impl.line("%s", j.implLine)
		}
	}
	// stream n: real comparisons on fields that are nil / unset on some rows; row-wise oracle (c12w3.go)
	if o.get("non", "") == "" {
		njobs := c12nGenerate(o, newRng(o.seed^0x6e31), stats)
		if err := c12nRun(o, njobs, stats); err != nil {
			return err
		}
		for _, j := range njobs {
			cases.line("%s", j.caseLine)
			impl.line("%s", j.implLine)
		}
	}
	// stream m: clauses of one operator family on several symbols of one type, shared literals (c12w5.go)
	if o.get("nom", "") == "" {
		mjobs := c12mGenerate(o, newRng(o.seed^0x6d35), stats)
		if err := c12mRun(o, mjobs, stats, true); err != nil {
			return err
		}
		for _, j := range mjobs {
			cases.line("%s", j.caseLine)
			impl.line("%s", j.implLine)
		}
	}
	// stream q: atoms with sub-queries nested 2-3 levels at every leaf position; families of equal filters (c12w7.go)
	if o.get("noq", "") == "" {
		qjobs := c12qGenerate(o, newRng(o.seed^0x7137), stats)
		if err := c12qRun(o, qjobs, stats); err != nil {
			return err
		}
		for _, j := range qjobs {
			cases.line("%s", j.caseLine)
			impl.line("%s", j.implLine)
		}
	}
	writeJSON(o.out, "stats.json", stats)
	return nil
}

// c12Wrap returns a copy of e with one semantically redundant pair of parentheses added
func c12Wrap(e *c12Expr, r *rng) *c12Expr {
	var cpE func(e *c12Expr) *c12Expr
	cpP := func(p *c12Prim) *c12Prim {
		if p.paren == nil {
			return &c12Prim{atom: p.atom}
		}
		return &c12Prim{paren: cpE(p.paren)}
	}
	cpE = func(e *c12Expr) *c12Expr {
		switch e.kind {
		case '.':
			return &c12Expr{kind: '.', p: cpP(e.p)}
		case '!':
			return &c12Expr{kind: '!', e: cpE(e.e)}
		}
		return &c12Expr{kind: e.kind, p: cpP(e.p), e: cpE(e.e)}
	}
	root := cpE(e)
	// positions: 0 the primary of a node; 1 the whole rest of the chain at a node (only where it is the
	// complete operand of the filter / a parenthesis / not / or); 2 the and-run starting at a node, up to its `or`
	type pos struct {
		kind int
		node *c12Expr
	}
	var ps []pos
	var walk func(e *c12Expr, top bool, afterOr bool)
	walk = func(e *c12Expr, top bool, afterOr bool) {
		if top || afterOr {
			ps = append(ps, pos{1, e})
			if e.kind == '&' {
				n := e
				for n.kind == '&' {
					n = n.e
				}
				if n.kind == '|' {
					ps = append(ps, pos{2, e})
				}
			}
		}
		switch e.kind {
		case '.':
			ps = append(ps, pos{0, e})
			if e.p.paren != nil {
				walk(e.p.paren, true, false)
			}
		case '!':
			walk(e.e, true, false)
		case '&', '|':
			ps = append(ps, pos{0, e})
			if e.p.paren != nil {
				walk(e.p.paren, true, false)
			}
			walk(e.e, false, e.kind == '|')
		}
	}
	walk(root, true, false)
	t := ps[r.intn(len(ps))]
	n := t.node
	switch t.kind {
	case 0:
		n.p = &c12Prim{paren: &c12Expr{kind: '.', p: n.p}}
	case 1:
		m := *n
		*n = c12Expr{kind: '.', p: &c12Prim{paren: &m}}
	case 2:
		// n: p1 and p2 and ... and pj or rest   ->   ( p1 and ... and pj ) or rest
		head := &c12Expr{}
		cur := head
		x := n
		for x.kind == '&' {
			cur.kind, cur.p, cur.e = '&', x.p, &c12Expr{}
			cur = cur.e
			x = x.e
		}
		cur.kind, cur.p = '.', x.p
		*n = c12Expr{kind: '|', p: &c12Prim{paren: head}, e: x.e}
	}
	return root
}

func c12Random(r *rng, size, k, depth int) *c12Expr {
	prim := func() *c12Prim {
		if depth > 0 && r.chance(25) {
			return &c12Prim{paren: c12Random(r, 1+r.intn(4), k, depth-1)}
		}
		return &c12Prim{atom: r.intn(k)}
	}
	if size <= 1 {
		if depth > 0 && r.chance(15) {
			return &c12Expr{kind: '!', e: c12Random(r, 1+r.intn(3), k, depth-1)}
		}
		return &c12Expr{kind: '.', p: prim()}
	}
	kind := byte('&')
	if r.chance(50) {
		kind = '|'
	}
	return &c12Expr{kind: kind, p: prim(), e: c12Random(r, size-1, k, depth)}
}
