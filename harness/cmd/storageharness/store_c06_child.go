package main

// C06 - wirings in which the per-level delete work lives on a CHILD store (see design/C06.md, "Strengthening:
// delete work declared on child stores").  All of them are registered through extraWirings (not in allWirings) and are
// used by the C06 streams only; Examples/C06Wirings.v holds their schemas and the computed side conditions.

import (
	"fmt"
	"strings"

	"github.com/openziti/storage/ast"
	"github.com/openziti/storage/boltz"
	"go.etcd.io/bbolt"
)

func init() {
	extraWirings["C06cp"] = wiringC06Cp
	extraWirings["C06cx"] = wiringC06Cx
	extraWirings["C06cm"] = wiringC06Cm
}

// C06cp: two PLAIN child stores (mgr, eng) under one parent (emp).  Declared on a child store: a link collection
// (mgr.offices <-> loc.managers, eng.tasks <-> proj.crew), a nullable unique index, a set index (over a string list of
// the parent), an fk index as referrer (mgr.site -> loc, restrict) and as TARGET (loc.head -> mgr: the back-reference
// set lives inside the child bucket, the restrict constraint on the child store), a cascade fk index as referrer
// (eng.proj -> proj: the cascade deletes through the child store), fk constraints as referrer and target
// (eng.mentor -> mgr restrict, proj.owner -> eng restrict); the parent keeps a unique index, a set index, a self fk
// index and a link collection of its own, so every delete runs work on both levels.
func wiringC06Cp() *wiring {
	return &wiring{Name: "C06cp", Stores: []*sStore{
		{Name: "emp", Fields: []sField{{Name: "name"}, {Name: "boss", Ptr: true}}, Sets: []string{"roles", "skills"}},
		{Name: "loc", Fields: []sField{{Name: "title"}, {Name: "head", Ptr: true}}, Sets: []string{"tagsx"}},
		{Name: "proj", Fields: []sField{{Name: "pname"}, {Name: "owner", Ptr: true}}},
		{Name: "mgr", Parent: "emp", Fields: []sField{{Name: "level", Ptr: true}, {Name: "site", Ptr: true}}},
		{Name: "eng", Parent: "emp", Fields: []sField{{Name: "grade", Ptr: true}, {Name: "proj"}, {Name: "mentor", Ptr: true}}},
	}, Script: []wiringDecl{
		{Kind: "unique", Store: "emp", Field: "name"},
		{Kind: "setidx", Store: "emp", Field: "roles"},
		{Kind: "fkindex", Store: "emp", Field: "boss", Target: "emp", Back: "reports", Nullable: true},
		{Kind: "link", Store: "emp", Field: "sites", Target: "loc", Back: "staff"},
		{Kind: "unique", Store: "loc", Field: "title"},
		{Kind: "setidx", Store: "loc", Field: "tagsx"},
		{Kind: "unique", Store: "mgr", Field: "level", Nullable: true},
		{Kind: "setidx", Store: "mgr", Field: "skills"},
		{Kind: "fkindex", Store: "mgr", Field: "site", Target: "loc", Back: "siteMgrs", Nullable: true},
		{Kind: "link", Store: "mgr", Field: "offices", Target: "loc", Back: "managers"},
		{Kind: "fkindex", Store: "loc", Field: "head", Target: "mgr", Back: "heads", Nullable: true},
		{Kind: "unique", Store: "eng", Field: "grade", Nullable: true},
		{Kind: "fkindexcascade", Store: "eng", Field: "proj", Target: "proj", Back: "engs"},
		{Kind: "fkcons", Store: "eng", Field: "mentor", Target: "mgr", Nullable: true, Casc: "N"},
		{Kind: "link", Store: "eng", Field: "tasks", Target: "proj", Back: "crew"},
		{Kind: "fkcons", Store: "proj", Field: "owner", Target: "eng", Nullable: true, Casc: "N"},
	}}
}

// C06cx: an EXTENDED child store (bx of b) that carries a link collection, a set index, a nullable unique index, an fk
// index as referrer and is the target of a cascade fk constraint; b itself cascades from a.
func wiringC06Cx() *wiring {
	return &wiring{Name: "C06cx", Stores: []*sStore{
		{Name: "a", Fields: []sField{{Name: "name"}}, Sets: []string{"roles"}},
		{Name: "b", Fields: []sField{{Name: "name"}, {Name: "a"}}, Sets: []string{"marks"}},
		{Name: "c", Fields: []sField{{Name: "name", Ptr: true}, {Name: "bx", Ptr: true}, {Name: "a", Ptr: true}}},
		{Name: "bx", Parent: "b", Ext: true, Fields: []sField{{Name: "code", Ptr: true}, {Name: "peer", Ptr: true}}},
	}, Script: []wiringDecl{
		{Kind: "unique", Store: "a", Field: "name"},
		{Kind: "setidx", Store: "a", Field: "roles"},
		{Kind: "fkindexcascade", Store: "b", Field: "a", Target: "a", Back: "bs"},
		{Kind: "unique", Store: "bx", Field: "code", Nullable: true},
		{Kind: "setidx", Store: "bx", Field: "marks"},
		{Kind: "fkindex", Store: "bx", Field: "peer", Target: "a", Back: "peers", Nullable: true},
		{Kind: "link", Store: "bx", Field: "grps", Target: "a", Back: "bxs"},
		{Kind: "fkcons", Store: "c", Field: "bx", Target: "bx", Nullable: true, Casc: "D"},
		{Kind: "fkindex", Store: "c", Field: "a", Target: "a", Back: "cas", Nullable: true},
		{Kind: "system", Store: "b"},
	}}
}

// C06cm: a plain (pc) and an extended (px) child store under the same parent p, a child store (qc) under q; link
// collections root <-> root and child <-> child (pc.cqs <-> qc.cps); an fk index from a child store to a child store of
// another family (pc.q -> qc) and from the extended child store to a root store (px.r -> q); a set index on a child
// store.  The extended child store is registered BEFORE the plain one: on a delete of a pc entity both child stores find
// the entity (px through its fallback to the parent bucket) and run their delete work, px first.  (px carries no link
// collection: entities that live in pc have no px data, see c06CreateThrough.)
func wiringC06Cm() *wiring {
	return &wiring{Name: "C06cm", Stores: []*sStore{
		{Name: "p", Fields: []sField{{Name: "name"}}},
		{Name: "q", Fields: []sField{{Name: "name", Ptr: true}}, Sets: []string{"labs"}},
		{Name: "px", Parent: "p", Ext: true, Fields: []sField{{Name: "x", Ptr: true}, {Name: "r", Ptr: true}}},
		{Name: "pc", Parent: "p", Fields: []sField{{Name: "k", Ptr: true}, {Name: "q", Ptr: true}}},
		{Name: "qc", Parent: "q", Fields: []sField{{Name: "y", Ptr: true}}},
	}, Script: []wiringDecl{
		{Kind: "unique", Store: "p", Field: "name"},
		{Kind: "link", Store: "p", Field: "qs", Target: "q", Back: "ps"},
		{Kind: "link", Store: "pc", Field: "cqs", Target: "qc", Back: "cps"},
		{Kind: "unique", Store: "pc", Field: "k", Nullable: true},
		{Kind: "unique", Store: "px", Field: "x", Nullable: true},
		{Kind: "unique", Store: "qc", Field: "y", Nullable: true},
		{Kind: "fkindex", Store: "pc", Field: "q", Target: "qc", Back: "pcs", Nullable: true},
		{Kind: "fkindex", Store: "px", Field: "r", Target: "q", Back: "xrs", Nullable: true},
		{Kind: "setidx", Store: "qc", Field: "labs"},
	}}
}

// the wirings whose generator helpers follow links / fk targets on child stores (the helpers draw the same random
// numbers as before for every other wiring, so the older streams are unchanged for a given seed)
var c06ChildWirings = map[string]bool{"C06cp": true, "C06cx": true, "C06cm": true}

var c06ChildWiringNames = []string{"C06cp", "C06cx", "C06cm"}

// c06CreateThrough: in these wirings every entity of the parent store is created through its EXTENDED child store that
// carries a link collection.  On the pinned tree an entity without extension data cannot be deleted at all in such a
// wiring (the link clean-up of the extended child store finds no bucket and DeleteById fails; design/C06.md,
// "candidate defects"), so such entities would only produce refused deletes.
var c06CreateThrough = map[string]map[string]string{
	"C06cx": {"b": "bx"},
}

// c06Route applies c06CreateThrough to the create operations of a transaction (the values for the child store's own
// fields are already part of a create issued through the parent store)
func c06Route(w *wiring, t *hTx) {
	m := c06CreateThrough[w.Name]
	if m == nil {
		return
	}
	for i := range t.Ops {
		if t.Ops[i].Kind == "C" || t.Ops[i].Kind == "CT" {
			if c, ok := m[t.Ops[i].Store]; ok {
				t.Ops[i].Store = c
			}
		}
	}
}

type c06Link struct {
	store string // the store that declares the collection
	l     sLink
}

// c06LinksOf: the link collections entity id of root store root can be the subject of: those of the root store and, in
// the child-level wirings, those of every child store the generator believes the entity lives in
func (g *histGen) c06LinksOf(root, id string) []c06Link {
	var out []c06Link
	for _, l := range g.w.store(root).Links {
		out = append(out, c06Link{root, l})
	}
	if c06ChildWirings[g.w.Name] {
		for _, s := range g.w.Stores {
			if s.Parent == root && g.alive[s.Name][id] {
				for _, l := range s.Links {
					out = append(out, c06Link{s.Name, l})
				}
			}
		}
	}
	return out
}

func (g *histGen) c06MarkChild(store, id string) {
	if g.alive[store] == nil {
		g.alive[store] = map[string]bool{}
	}
	g.alive[store][id] = true
}

// ---- child-level histories ---------------------------------------------------------------------------------
//
// genChildC06: a history (generated against the live database, like the bursts) whose subject X lives in a child store
// cs.  X is mentioned on BOTH levels before it goes: link sets of the collections declared on the parent and on the child
// store (added from X's side and from the other side), back-reference sets / fk fields of referrers whose target is the
// child store or the parent store, set-index and unique-index entries of both levels, back-reference sets that X's own
// fk fields (parent's and child store's) put on their targets.  Then X is deleted - through the child store, through the
// parent store or by a cascade that reaches it (the delete of the entity one of its cascade fk fields references) - in a
// transaction of its own or in the transaction that wrote the mentions; restrict referrers are released first (mostly).
// Afterwards the id is created again (through the parent store, the same or another child store) and used.
func (g *histGen) genChildC06(h *harnessDb, stats map[string]int) ([]hTx, []string) {
	g.p.endInDelete = false
	g.alive = map[string]map[string]bool{}
	for _, s := range g.w.Stores {
		g.alive[s.Name] = map[string]bool{}
	}
	var txs []hTx
	var obs []string
	sync := func() {
		for len(obs) < len(txs) {
			c06Route(g.w, &txs[len(obs)])
			obs = append(obs, h.runTxC06(&txs[len(obs)]))
		}
		g.refresh(h)
	}
	for i, n := 0, 1+g.r.intn(4); i < n; i++ {
		st := g.w.Stores[g.r.intn(len(g.w.Stores))]
		id := g.pickId()
		for try := 0; try < 4 && g.alive[g.rootOf(st.Name)][id]; try++ {
			id = g.pickId()
		}
		txs = g.validCreate(txs, st, id, 0)
	}
	for i, n := 0, g.r.intn(3); i < n; i++ {
		txs = append(txs, g.genTx())
	}
	sync()
	g.ids = append(append(append([]string{}, g.ids...), c06BurstIds...), c06BurstIds2...)

	var children []*sStore
	for _, s := range g.w.Stores {
		if s.Parent != "" {
			children = append(children, s)
		}
	}
	cs := children[g.r.intn(len(children))]
	root := cs.Parent
	stats["child_subject_"+cs.Name]++

	var ops []hOp
	commit := func(sys bool) {
		if len(ops) > 0 {
			txs = append(txs, hTx{Sys: sys, Ops: ops})
			ops = nil
			sync()
		}
	}
	// the subject
	x := c06Reserved
	var xf map[string]*string
	if al := g.aliveIds(cs.Name); len(al) > 0 && g.r.chance(30) {
		x = al[g.r.intn(len(al))]
	} else {
		if g.alive[root][x] { // left over from the prefix (the reserved id is not part of its universe): cannot happen
			return txs, obs
		}
		ops = g.c06BurstCreate(ops, cs, x, nil, g.r.chance(60), 0)
		xf = map[string]*string{} // what the generator believes X's fields are (a copy: the create operation is not touched later)
		for k, v := range ops[len(ops)-1].F {
			xf[k] = v
		}
	}
	if g.r.chance(50) {
		commit(true)
	}
	// edges in which X can be the target (the target store is cs or its parent) / the referrer (the store is cs or its parent)
	var asTarget, asReferrer []c06Edge
	for _, e := range g.c06Edges() {
		if e.d.Target == cs.Name || e.d.Target == root {
			asTarget = append(asTarget, e)
		}
		if e.d.Store == cs.Name || e.d.Store == root {
			asReferrer = append(asReferrer, e)
		}
	}
	type att struct {
		e   c06Edge
		ids []string
	}
	var attached []att
	created := map[string]hOp{}
	for i, n := 0, 1+g.r.intn(4); i < n; i++ {
		switch k := g.r.intn(100); {
		case k < 40:
			ops = g.c06LinkOps(ops, root, x)
		case k < 65 && len(asTarget) > 0:
			e := asTarget[g.r.intn(len(asTarget))]
			pool := c06BurstIds
			if g.r.chance(30) {
				pool = append(append([]string{}, plainIds...), c06BurstIds...)
			}
			ids := g.c06Window(pool, 2+g.r.intn(3))
			ops = g.c06Attach(ops, e, ids, x, created)
			attached = append(attached, att{e, ids})
		case k < 85 && len(asReferrer) > 0:
			// X starts to reference another target through one of its own fk fields (patch of exactly that field)
			e := asReferrer[g.r.intn(len(asReferrer))]
			al := g.aliveIds(e.d.Target)
			var others []string
			for _, z := range al {
				if !(g.rootOf(e.d.Target) == root && z == x) {
					others = append(others, z)
				}
			}
			if len(others) == 0 {
				continue
			}
			op := hOp{Kind: "UP", Store: cs.Name, Id: x, HasChk: true, Checker: []string{e.d.Field}}
			if e.d.Store == root && g.r.chance(50) {
				op.Store = root
			}
			g.fieldsValue(&op)
			v := others[g.r.intn(len(others))]
			op.F[e.d.Field] = sp(v)
			if xf != nil {
				xf[e.d.Field] = sp(v)
			}
			ops = append(ops, op)
		default:
			op := g.opOn(cs, x)
			if op.Kind == "D" || op.Kind == "C" {
				continue
			}
			ops = append(ops, op)
		}
		if g.r.chance(30) {
			commit(g.r.chance(70))
		}
	}
	if g.r.chance(50) {
		commit(true)
	}
	// release the restrict referrers this history attached
	if !g.r.chance(15) {
		for _, a := range attached {
			if a.e.cascade {
				continue
			}
			rroot := g.rootOf(a.e.d.Store)
			for _, id := range a.ids {
				if g.alive[rroot][id] && !(rroot == root && id == x) {
					ops = g.c06Release(ops, a.e, id, x)
				}
			}
		}
	}
	// the delete
	how := "child"
	switch k := g.r.intn(100); {
	case k < 35:
		how = "parent"
	case k < 60:
		how = "cascade"
	}
	done := false
	if how == "cascade" && xf != nil {
		for _, e := range asReferrer {
			if e.cascade && xf[e.d.Field] != nil && *xf[e.d.Field] != "" && !(g.rootOf(e.d.Target) == root && *xf[e.d.Field] == x) {
				ops = append(ops, hOp{Kind: "D", Store: e.d.Target, Id: *xf[e.d.Field]})
				g.markDeleted(e.d.Target, *xf[e.d.Field])
				done = true
				break
			}
		}
	}
	if !done {
		if how == "cascade" {
			how = "child"
		}
		dstore := cs.Name
		if how == "parent" {
			dstore = root
		}
		ops = append(ops, hOp{Kind: "D", Store: dstore, Id: x})
	}
	stats["child_delete_via_"+how]++
	g.markDeleted(root, x)
	nops := len(ops)
	commit(!g.r.chance(12))
	if strings.Contains(obs[len(obs)-1], " COMMIT") {
		stats["child_delete_tx_committed"]++
		stats["child_deleted_entities"] += strings.Count(obs[len(obs)-1], " VD:")
		if nops > 1 {
			stats["child_delete_in_multi_op_tx"]++
		}
	}
	// the id again: through the parent store, the same or another child store
	if g.r.chance(75) && !g.alive[root][x] {
		st := g.w.store(root)
		switch k := g.r.intn(100); {
		case k < 40:
			st = cs
		case k < 65:
			st = children[g.r.intn(len(children))]
			if st.Parent != root {
				st = cs
			}
		}
		txs = g.validCreate(txs, st, x, 3)
		txs[len(txs)-1].Sys = true
		sync()
		for i, n := 0, g.r.intn(3); i < n; i++ {
			txs = append(txs, hTx{Sys: g.r.chance(60), Ops: []hOp{g.opOn(st, x)}})
		}
		sync()
	}
	return txs, obs
}

// ---- ref-counted link collections declared on child stores ("RCC" case lines) ---------------------------------
//
// database: root stores p and q as in the RC stream (p.qs <-> q.ps, unique index on p.name), plus
//   pc : plain child store of p     with the ref-counted collection pc.cqs <-> q.cps
//   qx : EXTENDED child store of q  with the ref-counted collection qx.xps <-> p.xqs
// Every q entity of an RCC history is created through qx (see c06CreateThrough for the reason).  The sides of the
// collections are addressed by the names  p q (root level)  pc qb (pc.cqs / q.cps)  qx pb (qx.xps / p.xqs); creates
// and deletes name a store (p, pc, q, qx).

var c06RcChildStores = map[string]string{"pc": "p", "qx": "q"} // child store -> parent

func c06RcRoot(store string) string {
	if p := c06RcChildStores[store]; p != "" {
		return p
	}
	return store
}

type c06RcChildStrategy struct {
	etype  string
	parent *boltz.BaseStore[*rcEnt]
}

func (s *c06RcChildStrategy) NewEntity() *rcEnt { return &rcEnt{etype: s.etype} }
func (s *c06RcChildStrategy) FillEntity(e *rcEnt, b *boltz.TypedBucket) {
	_, err := s.parent.LoadEntity(b.Tx(), e.Id, e)
	b.SetError(err)
}
func (s *c06RcChildStrategy) PersistEntity(e *rcEnt, ctx *boltz.PersistContext) {
	s.parent.GetEntityStrategy().PersistEntity(e, ctx.GetParentContext())
	ctx.SetString("kind", "child")
}

func c06RcAddChildren(h *rcDb) {
	mk := func(name, parent string, ext bool) *boltz.BaseStore[*rcEnt] {
		ps := h.stores[parent]
		sd := boltz.StoreDefinition[*rcEnt]{
			EntityStrategy:  &c06RcChildStrategy{etype: parent, parent: ps},
			Parent:          ps,
			BasePath:        []string{name},
			ParentMapper:    func(e boltz.Entity) boltz.Entity { return e },
			EntityNotFoundF: func(id string) error { return boltz.NewNotFoundError(parent, "id", id) },
		}
		st := boltz.NewBaseStore(sd)
		if ext {
			st.Extended()
		}
		st.InitImpl(st)
		ps.GrantSymbols(st)
		st.AddSymbol("kind", ast.NodeTypeString)
		child := st
		ps.RegisterChildStoreStrategy(&boltz.ChildStoreUpdateHandler[*rcEnt, *rcEnt]{
			Store: child,
			Mapper: func(ctx boltz.MutateContext, e *rcEnt) (*rcEnt, bool) {
				if child.IsEntityPresent(ctx.Tx(), e.Id) {
					return e, true
				}
				return nil, false
			},
		})
		h.stores[name] = st
		return st
	}
	p, q := h.stores["p"], h.stores["q"]
	pc := mk("pc", "p", false)
	qx := mk("qx", "q", true)
	cqs := pc.AddFkSetSymbol("cqs", q)
	cps := q.AddFkSetSymbol("cps", pc)
	xps := qx.AddFkSetSymbol("xps", p)
	xqs := p.AddFkSetSymbol("xqs", qx)
	h.rc["pc"] = pc.AddRefCountedLinkCollection(cqs, cps)
	h.rc["qb"] = q.AddRefCountedLinkCollection(cps, cqs)
	h.rc["qx"] = qx.AddRefCountedLinkCollection(xps, xqs)
	h.rc["pb"] = p.AddRefCountedLinkCollection(xqs, xps)
}

// c06RcChildFacts projects a child-store bucket of the RCC database: C:<root>:<id>:<child> and the ref-counted sets inside it
func c06RcChildFacts(out *[]string, root, idHex, child string, b *bbolt.Bucket) {
	*out = append(*out, fmt.Sprintf("C:%s:%s:%s", root, idHex, child))
	_ = b.ForEach(func(fk, fv []byte) error {
		sub := b.Bucket(fk)
		if sub == nil {
			return nil
		}
		return sub.ForEach(func(mk, mv []byte) error {
			if len(mk) > 0 && boltz.FieldType(mk[0]) == boltz.TypeString {
				cnt := "?"
				if c := boltz.BytesToInt32(fieldBody(mv)); c != nil {
					cnt = fmt.Sprintf("%d", *c)
				}
				*out = append(*out, fmt.Sprintf("RC:%s:%s:%s:%s:%s", root, idHex, fk, hx(mk[1:]), cnt))
			} else {
				*out = append(*out, fmt.Sprintf("JUNK:RC:%s:%s:%s.%s:%s", root, idHex, child, fk, hx(mk)))
			}
			return nil
		})
	})
}

// genRcChildCase: an RCC history.  Random creates (p, pc, qx), deletes (through p, pc, q, qx), Increment / Decrement /
// SetLinkCount on all six sides, and in most histories a hub block: an entity of pc (or qx) gets ref-counted links on
// the child-level collection (and on the root-level one) to 2..4 neighbours, from its side and from the other side, and
// is deleted through the child or the parent store, in that transaction or in a later one.
func genRcChildCase(r *rng) string {
	ids := []string{"a", "b", "c", c06Reserved}
	alive := map[string]map[string]bool{"p": {}, "pc": {}, "q": {}}
	pick := func(store string, wantAlive bool) string {
		var xs []string
		for _, id := range ids {
			in := alive[store][id]
			if store == "pc" && !wantAlive {
				in = alive["p"][id]
			}
			if in == wantAlive {
				xs = append(xs, id)
			}
		}
		if len(xs) == 0 || r.chance(10) {
			return ids[r.intn(len(ids))]
		}
		return xs[r.intn(len(xs))]
	}
	// side -> (store the subject must live in, store the other end must live in)
	type sd struct{ name, local, other string }
	sides := []sd{{"p", "p", "q"}, {"q", "q", "p"}, {"pc", "pc", "q"}, {"qb", "q", "pc"}, {"qx", "q", "p"}, {"pb", "p", "q"}}
	var sb strings.Builder
	sb.WriteString("RCC")
	ntx := 5 + r.intn(10)
	hubAt := -1
	if r.chance(75) {
		hubAt = 2 + r.intn(ntx-2)
	}
	for t := 0; t < ntx; t++ {
		if t == hubAt {
			var ops []string
			x := "x1"
			n := 2 + r.intn(3)
			from := r.intn(len(c06BurstIds) - n + 1)
			win := c06BurstIds[from : from+n]
			hubStore, otherStore, hubSide, backSide, rootSide, del := "pc", "qx", "pc", "qb", "p", []string{"p", "pc"}
			if r.chance(35) {
				hubStore, otherStore, hubSide, backSide, rootSide, del = "qx", "p", "qx", "pb", "q", []string{"q", "qx"}
				if r.chance(50) {
					otherStore = "pc"
				}
			}
			ops = append(ops, fmt.Sprintf("C %s %s", hubStore, hxs(x)))
			for _, k := range win {
				ops = append(ops, fmt.Sprintf("C %s %s", otherStore, hxs(k)))
			}
			for _, k := range win {
				if r.chance(55) {
					ops = append(ops, fmt.Sprintf("INC %s %s %s", hubSide, hxs(x), hxs(k)))
				} else {
					ops = append(ops, fmt.Sprintf("INC %s %s %s", backSide, hxs(k), hxs(x)))
				}
				if r.chance(30) {
					ops = append(ops, fmt.Sprintf("INC %s %s %s", hubSide, hxs(x), hxs(k)))
				}
				if r.chance(40) {
					ops = append(ops, fmt.Sprintf("INC %s %s %s", rootSide, hxs(x), hxs(k)))
				}
			}
			if r.chance(30) {
				ops = append(ops, fmt.Sprintf("DEC %s %s %s", hubSide, hxs(x), hxs(win[r.intn(n)])))
			}
			if r.chance(50) {
				fmt.Fprintf(&sb, " TX %d %s", len(ops), strings.Join(ops, " "))
				ops = nil
				if r.chance(50) {
					ops = append(ops, fmt.Sprintf("SET %s %s %s %d", hubSide, hxs(x), hxs(win[r.intn(n)]), r.intn(3)))
				}
			}
			ops = append(ops, fmt.Sprintf("D %s %s", del[r.intn(2)], hxs(x)))
			fmt.Fprintf(&sb, " TX %d %s", len(ops), strings.Join(ops, " "))
			for _, k := range win { // the generator's belief: the neighbours stay
				alive[c06RcRoot(otherStore)][k] = true
				if otherStore == "pc" {
					alive["pc"][k] = true
				}
			}
		}
		nops := 1
		if r.chance(30) {
			nops = 2 + r.intn(2)
		}
		fmt.Fprintf(&sb, " TX %d", nops)
		for k := 0; k < nops; k++ {
			x := r.intn(100)
			if t < 3 {
				x = 0
			}
			switch {
			case x < 24:
				store := []string{"p", "pc", "pc", "qx", "qx"}[r.intn(5)]
				id := pick(c06RcRoot(store), false)
				alive[c06RcRoot(store)][id] = true
				if store == "pc" {
					alive["pc"][id] = true
				}
				fmt.Fprintf(&sb, " C %s %s", store, hxs(id))
			case x < 42:
				store := []string{"p", "pc", "q", "qx"}[r.intn(4)]
				id := pick(store, true)
				if store == "qx" {
					id = pick("q", true)
				}
				delete(alive[c06RcRoot(store)], id)
				if c06RcRoot(store) == "p" {
					delete(alive["pc"], id)
				}
				fmt.Fprintf(&sb, " D %s %s", store, hxs(id))
			default:
				s := sides[r.intn(len(sides))]
				if r.chance(50) {
					s = sides[2+r.intn(4)]
				}
				a, b := pick(s.local, true), pick(s.other, true)
				switch {
				case x < 78:
					fmt.Fprintf(&sb, " INC %s %s %s", s.name, hxs(a), hxs(b))
				case x < 90:
					fmt.Fprintf(&sb, " DEC %s %s %s", s.name, hxs(a), hxs(b))
				default:
					fmt.Fprintf(&sb, " SET %s %s %s %d", s.name, hxs(a), hxs(b), r.intn(4))
				}
			}
		}
	}
	return sb.String()
}
