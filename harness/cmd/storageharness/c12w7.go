package main

import (
	"fmt"
	"os"
	"path/filepath"
	"strconv"
	"strings"
	"sync"
	"time"

	"github.com/openziti/storage/ast"
	"github.com/openziti/storage/boltz"
	"github.com/openziti/storage/zitiql"
	"go.etcd.io/bbolt"
)

// C12, streams added after the seventh wave of seeded changes (design/C12.md, "Strengthening after C12-w7-*"):
//
//	e  ENTRY POINTS.  "Connectives group as written" is a statement about the filter text: whether a valid skeleton is
//	   accepted cannot depend on which public parsing entry point it is handed to.  Every skeleton of stream e (all
//	   sentences over <= 3 atoms, a slice of the 4-atom ones, re-spellings; atoms as symbols, comparisons, constants)
//	   is given to ast.Parse (truth table, the primary observation) AND to every zitiql entry point (acceptance), and
//	   ast.Parse is asked again afterwards (the lexer / parser instances are pooled: what the diagnostic variant leaves
//	   behind must not change what the next caller gets).  Case kind S, stream e*:
//	   observation  S <kinds> <errs> <truth table> <one letter per entry point: A accepted R rejected P panic> <truth table afterwards>
//	q  NESTED SUB-QUERIES.  Atoms that contain sub-queries nested 2-3 levels (count / isEmpty over the linked sets of
//	   a store-typed symbol table: fams -> kids -> toys -> parts, every level with symbols of its own) at every leaf
//	   position of a skeleton.  q0: every atom alone; q1: the exhaustive skeletons over <= 3 leaves with a nested atom at
//	   each leaf position (oracle of stream n: rows selected = surface semantics under the value the code gives each
//	   atom alone); q2: FAMILIES of filters that are equal by the property - the same operands under the same
//	   connective(s) in every order, every grouping, with redundant parentheses - at the top level and INSIDE the
//	   middle sub-query of an atom (`isEmpty(from kids where <member>)`): all members of a family must be accepted and
//	   select the same rows.  Case kind N, store `nest`; the stream field of a family member is
//	   q2:<family>:<order of the operands>:<grouping>.
//	   observation  N <row bits | E | P> <row ids> <same skeleton over opaque atoms> <entry point letters>
var c12eNames = []string{
	"zitiql.Parse",
	"zitiql.ParseWithDebug(debug=false)",
	"zitiql.ParseWithDebug(debug=true)",
	"zitiql.Parse directly after a ParseWithDebug(debug=true) run",
	"zitiql.Parse with the ast.NewListener() listener",
	"zitiql.ParseWithDebug(debug=true) with the ast.NewListener() listener",
}

func c12eCall(k int, q string) (res byte) {
	defer func() {
		if r := recover(); r != nil {
			res = 'P'
		}
	}()
	ok := false
	switch k {
	case 0, 3:
		ok = len(zitiql.Parse(q, &zitiql.BaseZitiQlListener{})) == 0
	case 1:
		ok = len(zitiql.ParseWithDebug(q, &zitiql.BaseZitiQlListener{}, false)) == 0
	case 2:
		ok = len(zitiql.ParseWithDebug(q, &zitiql.BaseZitiQlListener{}, true)) == 0
	case 4:
		l := ast.NewListener()
		ok = len(zitiql.Parse(q, l)) == 0 && !l.HasError()
	default:
		l := ast.NewListener()
		ok = len(zitiql.ParseWithDebug(q, l, true)) == 0 && !l.HasError()
	}
	if ok {
		return 'A'
	}
	return 'R'
}

// c12eLetters: the texts through every text-level entry point; a letter is the worst answer over the texts
func c12eLetters(texts ...string) string {
	out := make([]byte, len(c12eNames))
	for k := range out {
		out[k] = 'A'
		for _, q := range texts {
			if b := c12eCall(k, q); b != 'A' && out[k] != 'P' {
				out[k] = b
			}
		}
	}
	return string(out)
}

// c12eTexts: the query texts c12TruthTable hands to the parser for this case (const mode: the first and the last assignment)
func c12eTexts(mode, filter string, atoms []string) []string {
	switch mode {
	case "cmp":
		return []string{c12Render(filter, atoms, func(i int) string {
			return fmt.Sprintf(c12CmpForms[(i+len(filter))%len(c12CmpForms)], atoms[i])
		})}
	case "const":
		return []string{
			c12Render(filter, atoms, func(i int) string { return "false" }),
			c12Render(filter, atoms, func(i int) string { return []string{"true", "TRUE", "True"}[i%3] }),
		}
	}
	return []string{filter}
}

// c12eObserve: "<letters> <truth table of ast.Parse after the entry points ran>"
func c12eObserve(mode, filter string, atoms []string) string {
	letters := c12eLetters(c12eTexts(mode, filter, atoms)...)
	return letters + " " + c12TruthTable(mode, filter, atoms)
}

func c12eStream(o *opts, r *rng, emit c12Emit, stats map[string]int) {
	canon := &c12Layout{atoms: c12PlainAtoms}
	count := 0
	K := 4
	for k := 1; k <= K; k++ {
		for np := 0; np <= 2; np++ {
			for nn := 0; nn <= 2; nn++ {
				for _, e := range c12Exprs(k, np, nn) {
					count++
					if k == 4 && !o.thorough() && count%12 != 0 {
						continue
					}
					text, pre := canon.spell(e)
					emit("e1", "sym", text, pre, c12PlainAtoms[:k], "")
					if count%7 == 1 || k <= 2 && np+nn <= 1 {
						emit("e1", "cmp", text, pre, c12PlainAtoms[:k], "")
					}
					if count%11 == 2 || k <= 2 && np+nn <= 1 {
						emit("e1", "const", text, pre, c12PlainAtoms[:k], "")
					}
					if count%4 == 3 {
						// the same skeleton in a random spelling (keyword case, white-space kinds and amounts)
						lay := &c12Layout{r: r, atoms: c12PlainAtoms, maxWs: 1 + r.intn(3), inner: r.intn(3), kwCase: true}
						t2, p2 := lay.spell(e)
						emit("e2", "sym", t2, p2, c12PlainAtoms[:k], "")
					}
				}
			}
		}
	}
	// longer chains (bounded: the diagnostic variant of a changed tree may need time exponential in the mixed connectives)
	ng := 150
	if o.thorough() {
		ng = 1500
	}
	for i := 0; i < ng; i++ {
		k := 2 + r.intn(4)
		e := c12Random(r, 4+r.intn(5), k, 2)
		lay := &c12Layout{atoms: c12PlainAtoms, fixed: true}
		text, pre := lay.spell(e)
		mode := "sym"
		if i%5 == 4 {
			mode = "cmp"
		}
		emit("e3", mode, text, pre, c12PlainAtoms[:k], "")
	}
}

// ---- stream q: the store ------------------------------------------------------------------------------------------

type c12qPart struct {
	id string
	w  int64
}
type c12qToy struct {
	id, color string
	price     int64
	parts     []string
}
type c12qKid struct {
	id   string
	nick *string
	age  int64
	toys []string
}
type c12qFam struct {
	id    string
	city  *string
	size  int64
	ftags []string
	kids  []string
}

var c12qParts = []c12qPart{{"p1", 1}, {"p2", 3}, {"p3", 5}, {"p4", 2}}
var c12qToys = []c12qToy{
	{"t1", "red", 5, []string{"p1"}},
	{"t2", "blue", 12, []string{"p2", "p3"}},
	{"t3", "red", 20, nil},
	{"t4", "green", 8, []string{"p4", "p1"}},
	{"t5", "blue", 3, []string{"p3"}},
	{"t6", "green", 15, nil},
}
var c12qKids = []c12qKid{
	{"k1", c12kStr("n"), 2, []string{"t1"}},
	{"k2", nil, 5, []string{"t2", "t3"}},
	{"k3", c12kStr("m"), 7, nil},
	{"k4", c12kStr("n"), 4, []string{"t4", "t5"}},
	{"k5", nil, 1, []string{"t6"}},
	{"k6", c12kStr("z"), 9, []string{"t1", "t2"}},
	{"k7", c12kStr("n"), 6, []string{"t3"}},
	{"k8", c12kStr("q"), 3, []string{"t4", "t5", "t6"}},
}
var c12qFams = []c12qFam{
	{"f01", c12kStr("x"), 1, []string{"a"}, []string{"k1"}},
	{"f02", c12kStr("y"), 3, nil, []string{"k2", "k3"}},
	{"f03", c12kStr("x"), 5, []string{"a", "b"}, nil},
	{"f04", nil, 2, []string{"b"}, []string{"k4"}},
	{"f05", c12kStr("z"), 4, []string{"a"}, []string{"k5", "k6"}},
	{"f06", c12kStr("x"), 6, nil, []string{"k7"}},
	{"f07", c12kStr("y"), 2, []string{"b"}, []string{"k1", "k8"}},
	{"f08", nil, 7, []string{"a"}, []string{"k3"}},
	{"f09", c12kStr("z"), 1, nil, []string{"k2", "k4", "k6"}},
	{"f10", c12kStr("x"), 3, []string{"a", "b"}, []string{"k5"}},
	{"f11", c12kStr("y"), 8, nil, []string{"k3", "k7", "k8"}},
	{"f12", c12kStr("z"), 5, []string{"b"}, nil},
}

// c12qOpen: four linked stores; every level has symbols of its own (city size ftags / nick age / color price / w) and the
// symbol `name` that exists on every level with different values
func c12qOpen(dir string) (*c12nDb, error) {
	f := filepath.Join(dir, fmt.Sprintf("c12q-%d.db", os.Getpid()))
	_ = os.Remove(f)
	db, err := bbolt.Open(f, 0o600, &bbolt.Options{NoSync: true, NoFreelistSync: true, Timeout: 5 * time.Second})
	if err != nil {
		return nil, err
	}
	mk := func(name string) boltz.ConfigurableStore {
		def := (&boltz.StoreDefinition[boltz.Entity]{EntityType: name}).WithBasePath("cq7")
		st := boltz.NewBaseStore(*def)
		st.AddIdSymbol("id", ast.NodeTypeString)
		st.AddSymbol("name", ast.NodeTypeString)
		return st
	}
	parts, toys, kids, fams := mk("parts"), mk("toys"), mk("kids"), mk("fams")
	parts.AddSymbol("w", ast.NodeTypeInt64)
	toys.AddSymbol("color", ast.NodeTypeString)
	toys.AddSymbol("price", ast.NodeTypeInt64)
	toys.AddFkSetSymbol("parts", parts)
	kids.AddSymbol("nick", ast.NodeTypeString)
	kids.AddSymbol("age", ast.NodeTypeInt64)
	kids.AddFkSetSymbol("toys", toys)
	fams.AddSymbol("city", ast.NodeTypeString)
	fams.AddSymbol("size", ast.NodeTypeInt64)
	fams.AddSetSymbol("ftags", ast.NodeTypeString)
	fams.AddFkSetSymbol("kids", kids)
	d := &c12nDb{db: db, file: f, store: fams}
	err = db.Update(func(tx *bbolt.Tx) error {
		pb := boltz.GetOrCreatePath(tx, "cq7", "parts")
		for _, p := range c12qParts {
			eb := pb.GetOrCreatePath(p.id)
			eb.SetString("name", p.id, nil)
			eb.SetInt64("w", p.w, nil)
			if eb.Err != nil {
				return eb.Err
			}
		}
		tb := boltz.GetOrCreatePath(tx, "cq7", "toys")
		for _, t := range c12qToys {
			eb := tb.GetOrCreatePath(t.id)
			eb.SetString("name", t.id, nil)
			eb.SetString("color", t.color, nil)
			eb.SetInt64("price", t.price, nil)
			eb.SetStringList("parts", t.parts, nil)
			if eb.Err != nil {
				return eb.Err
			}
		}
		kb := boltz.GetOrCreatePath(tx, "cq7", "kids")
		for _, k := range c12qKids {
			eb := kb.GetOrCreatePath(k.id)
			eb.SetString("name", k.id, nil)
			eb.SetStringP("nick", k.nick, nil)
			eb.SetInt64("age", k.age, nil)
			eb.SetStringList("toys", k.toys, nil)
			if eb.Err != nil {
				return eb.Err
			}
		}
		fb := boltz.GetOrCreatePath(tx, "cq7", "fams")
		for _, m := range c12qFams {
			d.ids = append(d.ids, m.id)
			eb := fb.GetOrCreatePath(m.id)
			eb.SetString("name", m.id, nil)
			eb.SetStringP("city", m.city, nil)
			eb.SetInt64("size", m.size, nil)
			eb.SetStringList("ftags", m.ftags, nil)
			eb.SetStringList("kids", m.kids, nil)
			if eb.Err != nil {
				return eb.Err
			}
		}
		for _, b := range []*boltz.TypedBucket{pb, tb, kb, fb} {
			if b.Err != nil {
				return b.Err
			}
		}
		return nil
	})
	if err != nil {
		_ = db.Close()
		return nil, err
	}
	return d, nil
}

// ---- stream q: atoms ----------------------------------------------------------------------------------------------

// plain atoms over fams (no sub-query, or one level)
var c12qPlain = []string{
	`city = "x"`, `size > 3`, `anyOf(ftags) = "a"`, `isEmpty(kids)`, `count(kids) > 1`, `city = null`, `name >= "f06"`,
	`isEmpty(from kids where age > 5)`, `size between 2 and 5`, `count(from kids where nick = "n") = 1`,
}

// atoms over fams whose sub-queries nest 2 or 3 levels; connectives and further operands inside every level
var c12qNested = []string{
	`count(from kids where isEmpty(from toys where color = "red")) > 0`,
	`isEmpty(from kids where count(from toys where price > 10 or color = "red") = 0)`,
	`isEmpty(from kids where age > 3 and count(from toys where price > 10 or color = "red") > 0 and nick = "n")`,
	`count(from kids where count(from toys where price < 10) > 1 or age < 2) = 1`,
	`count(from kids where count(from toys where count(from parts where w > 2) > 0) > 0) >= 1`,
	`isEmpty(from kids where isEmpty(from toys where isEmpty(from parts where w < 3) and price > 4) or age > 6)`,
	`count(from kids where nick = "n" and count(from toys where isEmpty(from parts where name = "p1") or color = "blue") > 0 and age < 7) > 0`,
	`isEmpty(from kids where name > "k3" and isEmpty(from toys where name < "t4" and count(from parts where name = "p2") = 0))`,
}

// the middle level: wrappers around a skeleton over kids, and the atoms of that skeleton (plain / nested)
var c12qWrapKids = []string{`isEmpty(from kids where %s)`, `count(from kids where %s) > 1`, `count(from kids where %s) = 1`}
var c12qKidPlain = []string{`age > 3`, `nick = "n"`, `name < "k5"`, `isEmpty(toys)`, `nick != null`}
var c12qKidNested = []string{
	`isEmpty(from toys where color = "red")`,
	`count(from toys where price > 10 or color = "green") > 0`,
	`count(from toys where count(from parts where w > 2) > 0) > 0`,
	`isEmpty(from toys where isEmpty(from parts where w < 3) and price > 4)`,
}

// the innermost level that still contains a sub-query: wrappers around a skeleton over toys
var c12qWrapToys = []string{`count(from kids where isEmpty(from toys where %s)) > 0`, `isEmpty(from kids where age < 8 and count(from toys where %s) > 0)`}
var c12qToyPlain = []string{`price > 10`, `color = "red"`, `name != "t2"`}
var c12qToyNested = []string{`isEmpty(from parts where w > 2)`, `count(from parts where w < 3 or name = "p3") = 1`}

// ---- stream q: families -------------------------------------------------------------------------------------------

// an operand of a family: atom i, `(not i)`, or the parenthesised chain `(i op j)`
type c12qItem struct {
	atom, atom2 int
	not         bool
	sub         byte // 0, '&' or '|'
}

func (it c12qItem) prim() *c12Prim {
	at := &c12Prim{atom: it.atom}
	switch {
	case it.not:
		return &c12Prim{paren: &c12Expr{kind: '!', e: &c12Expr{kind: '.', p: at}}}
	case it.sub != 0:
		return &c12Prim{paren: &c12Expr{kind: it.sub, p: at, e: &c12Expr{kind: '.', p: &c12Prim{atom: it.atom2}}}}
	}
	return at
}

func c12qChain(prims []*c12Prim, ops []byte) *c12Expr {
	if len(prims) == 1 {
		return &c12Expr{kind: '.', p: prims[0]}
	}
	return &c12Expr{kind: ops[0], p: prims[0], e: c12qChain(prims[1:], ops[1:])}
}

func c12qParen(e *c12Expr) *c12Prim { return &c12Prim{paren: e} }

type c12qMember struct {
	perm, grp string
	e         *c12Expr
}

// c12qFamily: the filters that the property makes equal to `X0 op X1 [op X2]` (one connective) or `X0 and X1 or X2`
// (mixed == true): the operands in every order, every grouping, with redundant parentheses
func c12qFamily(items []c12qItem, op byte, mixed bool, full bool) []c12qMember {
	var out []c12qMember
	pr := func(k int) *c12Prim { return items[k].prim() }
	tag := func(p []int) string {
		s := ""
		for _, k := range p {
			s += strconv.Itoa(k)
		}
		return s
	}
	add := func(p []int, grp string, e *c12Expr) { out = append(out, c12qMember{tag(p), grp, e}) }
	wrap1 := func(p *c12Prim) *c12Prim { return c12qParen(&c12Expr{kind: '.', p: p}) }
	if len(items) == 2 {
		for _, p := range [][]int{{0, 1}, {1, 0}} {
			ops := []byte{op}
			add(p, "flat", c12qChain([]*c12Prim{pr(p[0]), pr(p[1])}, ops))
			add(p, "each-operand-in-parentheses", c12qChain([]*c12Prim{wrap1(pr(p[0])), wrap1(pr(p[1]))}, ops))
			add(p, "whole-in-parentheses", &c12Expr{kind: '.', p: c12qParen(c12qChain([]*c12Prim{pr(p[0]), pr(p[1])}, ops))})
		}
		return out
	}
	if !mixed {
		ops := []byte{op, op}
		perms := [][]int{{0, 1, 2}, {0, 2, 1}, {1, 0, 2}, {1, 2, 0}, {2, 0, 1}, {2, 1, 0}}
		for pi, p := range perms {
			add(p, "flat", c12qChain([]*c12Prim{pr(p[0]), pr(p[1]), pr(p[2])}, ops))
			if full || pi%2 == 0 {
				add(p, "left-group", c12qChain([]*c12Prim{c12qParen(c12qChain([]*c12Prim{pr(p[0]), pr(p[1])}, ops[:1])), pr(p[2])}, ops[:1]))
				add(p, "right-group", c12qChain([]*c12Prim{pr(p[0]), c12qParen(c12qChain([]*c12Prim{pr(p[1]), pr(p[2])}, ops[:1]))}, ops[:1]))
			}
			if full || pi == 3 {
				add(p, "each-operand-in-parentheses", c12qChain([]*c12Prim{wrap1(pr(p[0])), wrap1(pr(p[1])), wrap1(pr(p[2]))}, ops))
			}
		}
		return out
	}
	// X0 and X1 or X2: the and-run {X0, X1} and the disjunct X2
	for _, ab := range [][]int{{0, 1}, {1, 0}} {
		a, b := ab[0], ab[1]
		add([]int{a, b, 2}, "flat", c12qChain([]*c12Prim{pr(a), pr(b), pr(2)}, []byte{'&', '|'}))
		add([]int{2, a, b}, "flat", c12qChain([]*c12Prim{pr(2), pr(a), pr(b)}, []byte{'|', '&'}))
		add([]int{a, b, 2}, "and-run-in-parentheses", c12qChain([]*c12Prim{c12qParen(c12qChain([]*c12Prim{pr(a), pr(b)}, []byte{'&'})), pr(2)}, []byte{'|'}))
		add([]int{2, a, b}, "and-run-in-parentheses", c12qChain([]*c12Prim{pr(2), c12qParen(c12qChain([]*c12Prim{pr(a), pr(b)}, []byte{'&'}))}, []byte{'|'}))
		if full || a == 1 {
			add([]int{2, a, b}, "each-operand-in-parentheses", c12qChain([]*c12Prim{wrap1(pr(2)), wrap1(pr(a)), wrap1(pr(b))}, []byte{'|', '&'}))
		}
	}
	return out
}

func c12qGenerate(o *opts, r *rng, stats map[string]int) []*c12nJob {
	var jobs []*c12nJob
	add := func(stream string, e *c12Expr, texts []string) {
		lay := &c12Layout{atoms: c12mNames, fixed: true}
		text, pre := lay.spell(e)
		jobs = append(jobs, &c12nJob{store: "nest", stream: stream, filter: text, pre: pre, atoms: c12mNames[:len(texts)], texts: texts})
		stats["stream_"+strings.SplitN(stream, ":", 2)[0]]++
	}
	single := func() *c12Expr { return &c12Expr{kind: '.', p: &c12Prim{atom: 0}} }
	// q0: every atom alone
	for _, a := range append(append([]string{}, c12qPlain...), c12qNested...) {
		add("q0", single(), []string{a})
	}
	fam := 0
	family := func(items []c12qItem, op byte, mixed bool, texts []string, wrap string) {
		fam++
		for _, m := range c12qFamily(items, op, mixed, o.thorough()) {
			stream := fmt.Sprintf("q2:%d:%s:%s", fam, m.perm, m.grp)
			if wrap == "" {
				add(stream, m.e, texts)
				continue
			}
			// the member is the filter of a sub-query: one atom whose text is the wrapped member
			inner, _ := (&c12Layout{atoms: c12mNames, fixed: true}).spell(m.e)
			add(stream, single(), []string{fmt.Sprintf(wrap, c12Render(inner, c12mNames[:len(texts)], func(i int) string { return texts[i] }))})
		}
		stats["q_families"]++
	}
	plain := func(pool []string, k int) string { return pool[((k%len(pool))+len(pool))%len(pool)] }
	levels := []struct {
		wraps         []string
		plain, nested []string
	}{
		{[]string{""}, c12qPlain, c12qNested},
		{c12qWrapKids, c12qKidPlain, c12qKidNested},
		{c12qWrapToys, c12qToyPlain, c12qToyNested},
	}
	for li, lv := range levels {
		for qi, q := range lv.nested {
			for wi, wrap := range lv.wraps {
				if li > 0 && !o.thorough() && (qi+wi)%2 == 1 && wi > 0 {
					continue
				}
				p1, p2 := plain(lv.plain, qi+wi), plain(lv.plain, qi+wi+3)
				q2 := plain(lv.nested, qi+1)
				for _, op := range []byte{'&', '|'} {
					// two operands: plain + nested (plain first: the simple clause before the complex one), with a not on either
					family([]c12qItem{{atom: 0}, {atom: 1}}, op, false, []string{p1, q}, wrap)
					family([]c12qItem{{atom: 0, not: true}, {atom: 1}}, op, false, []string{p1, q}, wrap)
					family([]c12qItem{{atom: 0}, {atom: 1, not: true}}, op, false, []string{p1, q}, wrap)
					// two nested operands
					family([]c12qItem{{atom: 0}, {atom: 1}}, op, false, []string{q, q2}, wrap)
					// an operand that is itself a parenthesised chain of the other connective
					other := byte('&' ^ '|' ^ op)
					family([]c12qItem{{atom: 0, atom2: 1, sub: other}, {atom: 2}}, op, false, []string{p1, q, p2}, wrap)
					// three operands, one connective
					family([]c12qItem{{atom: 0}, {atom: 1}, {atom: 2}}, op, false, []string{p1, p2, q}, wrap)
				}
				// three operands, `X0 and X1 or X2`, the nested atom in the and-run / as the disjunct
				family([]c12qItem{{atom: 0}, {atom: 1}, {atom: 2}}, 0, true, []string{p1, q, p2}, wrap)
				family([]c12qItem{{atom: 0}, {atom: 1}, {atom: 2}}, 0, true, []string{p1, p2, q}, wrap)
			}
		}
	}
	// q1: the exhaustive skeletons over 2 and 3 leaves (<= 1 parenthesis pair, <= 1 not; thorough <= 2 / <= 2) with a
	// nested atom at each leaf position, plain atoms elsewhere
	NP, NN := 1, 1
	if o.thorough() {
		NP, NN = 2, 2
	}
	n := 0
	for k := 2; k <= 3; k++ {
		lab := c12mSeqExpr(k)
		for np := 0; np <= NP; np++ {
			for nn := 0; nn <= NN; nn++ {
				for _, e := range c12Exprs(k, np, nn) {
					for pos := 0; pos < k; pos++ {
						n++
						if k == 3 && !o.thorough() && n%3 != 0 {
							continue
						}
						texts := make([]string, k)
						for j := range texts {
							texts[j] = plain(c12qPlain, n+2*j)
						}
						texts[pos] = plain(c12qNested, n/k)
						if n%5 == 0 {
							texts[(pos+1)%k] = plain(c12qNested, n/k+3)
						}
						add("q1", c12dRelabel(e, lab), texts)
					}
				}
			}
		}
	}
	return jobs
}

// c12qRun: the atoms alone (their row valuation as the code answers), then every query through QueryIds and through
// every other parsing entry point
func c12qRun(o *opts, jobs []*c12nJob, stats map[string]int) error {
	if len(jobs) == 0 {
		return nil
	}
	db, err := c12qOpen(o.out)
	if err != nil {
		return err
	}
	defer db.close()
	atomBits := map[string]string{}
	distinct := map[string]bool{}
	pool := map[string]bool{}
	for _, a := range append(append([]string{}, c12qPlain...), c12qNested...) {
		pool[a] = true
	}
	stats["q_atoms_constant"] = 0
	for _, j := range jobs {
		for _, t := range j.texts {
			if _, ok := atomBits[t]; !ok {
				b := db.rowBits(t)
				if b == "E" || b == "P" {
					stats["q_atoms_rejected"]++ // reported by the case of that atom (q0) / of the family member
					b = strings.Repeat("0", len(db.ids))
				} else {
					distinct[b] = true
					if !strings.Contains(b, "1") || !strings.Contains(b, "0") {
						if pool[t] {
							stats["q_atoms_constant"]++ // an atom of the pool that says nothing about the rows
						} else {
							stats["q_wrapped_skeletons_constant"]++
						}
					}
				}
				atomBits[t] = b
			}
		}
	}
	stats["q_atoms"] = len(atomBits)
	stats["q_distinct_atom_valuations"] = len(distinct)
	var hexIds []string
	for _, id := range db.ids {
		hexIds = append(hexIds, hxs(id))
	}
	ids := strings.Join(hexIds, ",")
	workers := 4
	if v, err := strconv.Atoi(os.Getenv("VERIF_JOBS")); err == nil && v > 0 {
		workers = v
	}
	var wg sync.WaitGroup
	ch := make(chan *c12nJob, 256)
	for w := 0; w < workers; w++ {
		wg.Add(1)
		go func() {
			defer wg.Done()
			for j := range ch {
				var bits, htexts []string
				for _, t := range j.texts {
					bits = append(bits, atomBits[t])
					htexts = append(htexts, hxs(t))
				}
				q := j.query()
				j.caseLine = fmt.Sprintf("N %s nest %s %s %s %s %s %s", j.stream, hxs(q), hxs(j.filter), j.pre,
					strings.Join(j.atoms, ","), strings.Join(htexts, ","), strings.Join(bits, ","))
				proj := "-"
				if tt := c12TruthTable("sym", j.filter, j.atoms); len(tt) == 1<<uint(len(j.atoms)) {
					pb := make([]byte, len(db.ids))
					for r := range pb {
						idx := 0
						for a, b := range bits {
							if b[r] == '1' {
								idx |= 1 << uint(a)
							}
						}
						pb[r] = tt[idx]
					}
					proj = string(pb)
				}
				rows := db.rowBits(q)
				letters := c12eLetters(q)
				typed := byte('A')
				func() {
					defer func() {
						if r := recover(); r != nil {
							typed = 'P'
						}
					}()
					if _, err := ast.Parse(db.store, q); err != nil {
						typed = 'R'
					}
				}()
				j.implLine = fmt.Sprintf("N %s %s %s %s%c", rows, ids, proj, letters, typed)
			}
		}()
	}
	for _, j := range jobs {
		ch <- j
	}
	close(ch)
	wg.Wait()
	return nil
}
